import Amgcl.Proofs.DistAmgPrim
/-!
The distributed multigrid cycle is a simulation of the serial cycle on the gathered vectors: if every level of the
distributed hierarchy is the distribution (`Dist.split`) of the corresponding serial level — matrices block by block,
smoother sweeps and coarse solver in the sense of `SweepRef` / `DirectRef` — and every level vector is the list of
slices of the serial one, then `dcycle` returns the slices of what `Amg.cycle` returns, level vectors included.
-/
namespace Amgcl.DistAmg
open Amgcl Amgcl.Dist Amgcl.Lockstep

section
variable {K S T : Type} [CommRing K] [DecidableEq K]

/-- two optional components are both absent, or both present and related -/
def OptRel {α β : Type} (r : α → β → Prop) : Option α → Option β → Prop
  | none, none => True
  | some a, some b => r a b
  | _, _ => False

/-- the column partition of a level's `P` (= row partition of its `R`): the partition of the next level -/
def nextPart (rest : List (DLevel K S)) : List Nat :=
  match rest with
  | [] => []
  | nxt :: _ => nxt.part

/-- the distributed coarse solver refines the serial direct solver of the matrix `Ad` -/
def DirectRef (direct : CRS K → Vec K → Vec K) (st : List (DirectRank K)) (Ad : CRS K) (p : List Nat) : Prop :=
  ∀ f x : Vec K, f.size = p.sum → x.size = p.sum →
    directSolve direct st (splitVec f p) (splitVec x p) = splitVec (direct Ad f) p ∧ (direct Ad f).size = p.sum

/-- a distributed level is the distribution of a serial level; `np` is the partition of the next level -/
structure LevelRef (dsm : DSmoother K S) (sm : Relax.Smoother K T) (direct : CRS K → Vec K → Vec K)
    (d : DLevel K S) (l : Amg.Level K T) (np : List Nat) : Prop where
  rows : l.rows = d.part.sum
  A : OptRel (fun dA A => PartOK A d.part d.part ∧ dA = split A d.part d.part) d.A l.A
  P : OptRel (fun dP P => PartOK P d.part np ∧ dP = split P d.part np) d.P l.P
  R : OptRel (fun dR R => PartOK R np d.part ∧ dR = split R np d.part) d.R l.R
  solve : OptRel (fun st Ad => DirectRef direct st Ad d.part) d.solve l.solve
  relax : OptRel (fun ss s => ∀ dA A, d.A = some dA → l.A = some A →
      SweepRef (dsm.applyPre ss dA d.part) (sm.applyPre s A) d.part ∧
      SweepRef (dsm.applyPost ss dA d.part) (sm.applyPost s A) d.part) d.relax l.relax

/-- level by level -/
def HRef (dsm : DSmoother K S) (sm : Relax.Smoother K T) (direct : CRS K → Vec K → Vec K) :
    List (DLevel K S) → List (Amg.Level K T) → Prop
  | [], [] => True
  | d :: ds, l :: ls => LevelRef dsm sm direct d l (nextPart ds) ∧ HRef dsm sm direct ds ls
  | _, _ => False

/-- the level vectors of all ranks are the slices of the serial level vectors -/
structure ScrRef (p : List Nat) (d : DScratch K) (s : Amg.Scratch K) : Prop where
  fs : s.f.size = p.sum
  us : s.u.size = p.sum
  ts : s.t.size = p.sum
  f : d.f = splitVec s.f p
  u : d.u = splitVec s.u p
  t : d.t = splitVec s.t p

def ScrsRef : List (List Nat) → List (DScratch K) → List (Amg.Scratch K) → Prop
  | [], [], [] => True
  | p :: ps, d :: ds, s :: ss => ScrRef p d s ∧ ScrsRef ps ds ss
  | _, _, _ => False

/-- what a (sub)cycle returns on both sides: slices of `x`, related level vectors -/
def CycOut (p : List Nat) (ps : List (List Nat)) (dout : DVec K × List (DScratch K))
    (out : Vec K × List (Amg.Scratch K)) : Prop :=
  dout.1 = splitVec out.1 p ∧ out.1.size = p.sum ∧ ScrsRef ps dout.2 out.2

omit [CommRing K] [DecidableEq K] in
theorem iter_rel {α β : Type} (Rl : α → β → Prop) (f : α → α) (g : β → β) (h : ∀ a b, Rl a b → Rl (f a) (g b)) :
    ∀ n a b, Rl a b → Rl (Amg.iter f n a) (Amg.iter g n b) := by
  intro n
  induction n with
  | zero => intro a b hab; exact hab
  | succ n ih => intro a b hab; exact ih _ _ (h a b hab)

/-- the states of the `ncycle` loop on an inner level -/
def StRef (p np : List Nat) (ps : List (List Nat)) (dst : DCycSt K) (st : Amg.CycSt K) : Prop :=
  dst.1 = splitVec st.1 p ∧ st.1.size = p.sum ∧ ScrRef p dst.2.1 st.2.1 ∧ ScrRef np dst.2.2.1 st.2.2.1 ∧
    ScrsRef ps dst.2.2.2 st.2.2.2

/-- one pass of the `ncycle` loop body -/
theorem body_sim (prm : Amg.Params) (dsm : DSmoother K S) (sm : Relax.Smoother K T) (ss : List S) (s : T)
    (A P R : CRS K) (p np : List Nat) (ps : List (List Nat))
    (hA : PartOK A p p) (hPm : PartOK P p np) (hR : PartOK R np p)
    (hpre : SweepRef (dsm.applyPre ss (split A p p) p) (sm.applyPre s A) p)
    (hpost : SweepRef (dsm.applyPost ss (split A p p) p) (sm.applyPost s A) p)
    (drc : List (DScratch K) → DVec K → DVec K → DVec K × List (DScratch K))
    (rc : List (Amg.Scratch K) → Vec K → Vec K → Vec K × List (Amg.Scratch K))
    (hrc : ∀ dscr scr f u, ScrsRef (np :: ps) dscr scr → f.size = np.sum → u.size = np.sum →
      CycOut np (np :: ps) (drc dscr (splitVec f np) (splitVec u np)) (rc scr f u))
    (rhs : Vec K) (hrhs : rhs.size = p.sum) (dst : DCycSt K) (st : Amg.CycSt K) (h : StRef p np ps dst st) :
    StRef p np ps
      (dcycleBody prm dsm ss (split A p p) (split P p np) (split R np p) p np drc (splitVec rhs p) dst)
      (Amg.cycleBody prm sm s A P R np.sum rc rhs st) := by
  obtain ⟨dx, dsc, dscn, dscr⟩ := dst
  obtain ⟨x, sc, scn, scr⟩ := st
  obtain ⟨hx, hxs, hsc, hscn, hscr⟩ := h
  simp only at hx hxs hsc hscn hscr
  subst hx
  -- pre-smoothing
  obtain ⟨e1, s1a, s1b⟩ := dsweeps_ref _ _ p hpre prm.npre rhs x sc.t hrhs hxs hsc.ts
  -- residual
  have e2 := distResidual_split A p p hA rhs (Amg.sweeps (sm.applyPre s A) prm.npre rhs x sc.t).1 s1a hrhs
  have s2 : (residual rhs A (Amg.sweeps (sm.applyPre s A) prm.npre rhs x sc.t).1).size = p.sum := by
    rw [size_residual, hA.rows]
  -- restriction
  have e3 := distSpmv_split 1 0 R np p hR (residual rhs A (Amg.sweeps (sm.applyPre s A) prm.npre rhs x sc.t).1)
    scn.f s2 hscn.fs
  have s3 : (spmv 1 R (residual rhs A (Amg.sweeps (sm.applyPre s A) prm.npre rhs x sc.t).1) 0 scn.f).size = np.sum := by
    rw [size_spmv, hR.rows]
  -- coarse correction
  have hscr' : ScrsRef (np :: ps)
      ({ dscn with f := splitVec (spmv 1 R (residual rhs A (Amg.sweeps (sm.applyPre s A) prm.npre rhs x sc.t).1) 0 scn.f) np,
                   u := splitVec (vclear np.sum) np } :: dscr)
      ({ scn with f := spmv 1 R (residual rhs A (Amg.sweeps (sm.applyPre s A) prm.npre rhs x sc.t).1) 0 scn.f,
                  u := vclear np.sum } :: scr) :=
    ⟨⟨s3, size_vclear _, hscn.ts, rfl, rfl, hscn.t⟩, hscr⟩
  have h4 := hrc _ _ _ _ hscr' s3 (size_vclear np.sum)
  unfold dcycleBody Amg.cycleBody
  simp only
  rw [hsc.t, e1]
  simp only
  rw [e2, hscn.f, e3, dclear_split]
  generalize drc _ _ _ = dout at h4 ⊢
  generalize rc _ _ _ = out at h4 ⊢
  obtain ⟨dxc, dscrc⟩ := dout
  obtain ⟨xc, scrc⟩ := out
  obtain ⟨h4x, h4s, h4r⟩ := h4
  simp only at h4x h4s h4r ⊢
  subst h4x
  -- prolongation
  have e5 := distSpmv_split 1 1 P p np hPm xc (Amg.sweeps (sm.applyPre s A) prm.npre rhs x sc.t).1 h4s s1a
  have s5 : (spmv 1 P xc 1 (Amg.sweeps (sm.applyPre s A) prm.npre rhs x sc.t).1).size = p.sum := by
    rw [size_spmv, hPm.rows]
  rw [e5]
  -- post-smoothing
  obtain ⟨e6, s6a, s6b⟩ := dsweeps_ref _ _ p hpost prm.npost rhs _ _ hrhs s5 s2
  rw [e6]
  cases dscrc with
  | nil => cases scrc <;> exact h4r.elim
  | cons dscn' dscr' =>
    cases scrc with
    | nil => exact h4r.elim
    | cons scn' scr' =>
      obtain ⟨hn', hr'⟩ := h4r
      exact ⟨rfl, s6a, ⟨hsc.fs, hsc.us, s6b, hsc.f, hsc.u, rfl⟩, ⟨hn'.fs, h4s, hn'.ts, hn'.f, rfl, hn'.t⟩, hr'⟩

omit [CommRing K] [DecidableEq K] in
theorem scrsRef_nil {dscr : List (DScratch K)} {scr : List (Amg.Scratch K)} (h : ScrsRef [] dscr scr) :
    dscr = [] ∧ scr = [] := by
  cases dscr <;> cases scr <;> first | exact ⟨rfl, rfl⟩ | exact h.elim

omit [CommRing K] [DecidableEq K] in
theorem scrsRef_cons {p : List Nat} {ps : List (List Nat)} {dscr : List (DScratch K)} {scr : List (Amg.Scratch K)}
    (h : ScrsRef (p :: ps) dscr scr) :
    ∃ dsc dr sc sr, dscr = dsc :: dr ∧ scr = sc :: sr ∧ ScrRef p dsc sc ∧ ScrsRef ps dr sr := by
  cases dscr with
  | nil => exact h.elim
  | cons dsc dr =>
    cases scr with
    | nil => exact h.elim
    | cons sc sr => exact ⟨dsc, dr, sc, sr, rfl, rfl, h.1, h.2⟩

omit [CommRing K] [DecidableEq K] in
theorem cycOut_unchanged (p : List Nat) (ps : List (List Nat)) (x : Vec K) (hx : x.size = p.sum)
    (dscr : List (DScratch K)) (scr : List (Amg.Scratch K)) (h : ScrsRef ps dscr scr) :
    CycOut p ps (splitVec x p, dscr) (x, scr) := ⟨rfl, hx, h⟩

/-- **simulation**: on a distributed hierarchy that is level by level the distribution of a serial one, started on
the slices of `(rhs, x)` and of the level vectors, `dcycle` returns the slices of the serial `Amg.cycle`'s `x` and
level vectors — any number of levels, any `npre / npost / ncycle`, any partitions. -/
theorem dcycle_sim (prm : Amg.Params) (dsm : DSmoother K S) (sm : Relax.Smoother K T) (direct : CRS K → Vec K → Vec K) :
    ∀ (dls : List (DLevel K S)) (ls : List (Amg.Level K T)) (d : DLevel K S) (l : Amg.Level K T),
      HRef dsm sm direct (d :: dls) (l :: ls) →
      ∀ (dscr : List (DScratch K)) (scr : List (Amg.Scratch K)) (rhs x : Vec K),
        ScrsRef ((d :: dls).map (·.part)) dscr scr → rhs.size = d.part.sum → x.size = d.part.sum →
        CycOut d.part ((d :: dls).map (·.part))
          (dcycle prm dsm direct (d :: dls) dscr (splitVec rhs d.part) (splitVec x d.part))
          (Amg.cycle prm sm direct (l :: ls) scr rhs x) := by
  intro dls
  induction dls with
  | nil =>
    intro ls d l hH dscr scr rhs x hscr hrhs hx
    cases ls with
    | cons l' ls' => exact hH.2.elim
    | nil =>
      obtain ⟨hL, -⟩ := hH
      obtain ⟨dsc, dr, sc, sr, rfl, rfl, hsc, hnil⟩ := scrsRef_cons hscr
      obtain ⟨rfl, rfl⟩ := scrsRef_nil hnil
      · 
        obtain ⟨p, dA, dP, dR, dsolve, drelax⟩ := d
        obtain ⟨rows, lA, lP, lR, lbP, lbR, lsolve, lrelax⟩ := l
        obtain ⟨-, hA, -, -, hsolve, hrelax⟩ := hL
        simp only at hA hsolve hrelax hrhs hx hsc ⊢
        simp only [List.map_cons, List.map_nil] at hsc ⊢
        unfold dcycle Amg.cycle
        simp only
        match dsolve, lsolve, hsolve with
        | some st, some Ad, hsolve =>
          simp only
          obtain ⟨e, sz⟩ := hsolve rhs x hrhs hx
          exact ⟨e, sz, hsc, trivial⟩
        | none, none, _ =>
          simp only
          match dA, lA, hA, drelax, lrelax, hrelax with
          | none, none, _, none, none, _ => exact cycOut_unchanged _ _ x hx _ _ ⟨hsc, trivial⟩
          | none, none, _, some _, some _, _ => exact cycOut_unchanged _ _ x hx _ _ ⟨hsc, trivial⟩
          | some _, some _, _, none, none, _ => exact cycOut_unchanged _ _ x hx _ _ ⟨hsc, trivial⟩
          | some dA, some A, hA, some ss, some s, hrelax =>
            simp only
            obtain ⟨hPA, rfl⟩ := hA
            obtain ⟨hpre, hpost⟩ := hrelax _ _ rfl rfl
            obtain ⟨e1, s1a, s1b⟩ := dsweeps_ref _ _ p hpre prm.npre rhs x sc.t hrhs hx hsc.ts
            rw [hsc.t, e1]
            simp only
            obtain ⟨e2, s2a, s2b⟩ := dsweeps_ref _ _ p hpost prm.npost rhs _ _ hrhs s1a s1b
            rw [e2]
            exact ⟨rfl, s2a, ⟨hsc.fs, hsc.us, s2b, hsc.f, hsc.u, rfl⟩, trivial⟩
  | cons dn drest ih =>
    intro ls d l hH dscr scr rhs x hscr hrhs hx
    cases ls with
    | nil => exact hH.2.elim
    | cons ln lrest =>
      obtain ⟨hL, hH'⟩ := hH
      obtain ⟨dsc, dr, sc, sr, rfl, rfl, hsc, hrest⟩ := scrsRef_cons hscr
      obtain ⟨dscn, dscr', scn, scr', rfl, rfl, hscn, hscr'⟩ := scrsRef_cons hrest
      · 
        have hnrows : ln.rows = dn.part.sum := hH'.1.rows
        obtain ⟨p, dA, dP, dR, dsolve, drelax⟩ := d
        obtain ⟨rows, lA, lP, lR, lbP, lbR, lsolve, lrelax⟩ := l
        obtain ⟨-, hA, hPm, hR, -, hrelax⟩ := hL
        simp only [nextPart] at hA hPm hR hrelax hrhs hx hsc ⊢
        simp only [List.map_cons] at hsc hscn hscr' ih ⊢
        have hunch : CycOut p (p :: dn.part :: drest.map (·.part)) (splitVec x p, dsc :: dscn :: dscr')
            (x, sc :: scn :: scr') := cycOut_unchanged _ _ x hx _ _ ⟨hsc, hscn, hscr'⟩
        unfold dcycle Amg.cycle
        simp only
        match dA, lA, hA, drelax, lrelax, hrelax, dP, lP, hPm, dR, lR, hR with
        | none, none, _, _, _, _, _, _, _, _, _, _ => exact hunch
        | some _, some _, _, none, none, _, _, _, _, _, _, _ => exact hunch
        | some _, some _, _, some _, some _, _, none, none, _, _, _, _ => exact hunch
        | some _, some _, _, some _, some _, _, some _, some _, _, none, none, _ => exact hunch
        | some dA, some A, hA, some ss, some s, hrelax, some dP, some P, hPm, some dR, some R, hR =>
          simp only
          obtain ⟨hPA, rfl⟩ := hA
          obtain ⟨hPP, rfl⟩ := hPm
          obtain ⟨hPR, rfl⟩ := hR
          obtain ⟨hpre, hpost⟩ := hrelax _ _ rfl rfl
          rw [hnrows]
          have hbody := body_sim prm dsm sm ss s A P R p dn.part (drest.map (·.part)) hPA hPP hPR hpre hpost
            (dcycle prm dsm direct (dn :: drest)) (Amg.cycle prm sm direct (ln :: lrest))
            (fun dscr scr f u hs hf hu => ih lrest dn ln hH' dscr scr f u hs hf hu) rhs hrhs
          have hit := iter_rel (StRef p dn.part (drest.map (·.part))) _ _ hbody prm.ncycle
            (splitVec x p, dsc, dscn, dscr') (x, sc, scn, scr') ⟨rfl, hx, hsc, hscn, hscr'⟩
          obtain ⟨i1, i2, i3, i4, i5⟩ := hit
          exact ⟨i1, i2, i3, i4, i5⟩

end
end Amgcl.DistAmg
