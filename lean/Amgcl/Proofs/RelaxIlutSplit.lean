import Amgcl.Proofs.RelaxIlutRow
/-!
# ILUT as written: how `move_to` splits the finished working row

`ilutRowFull_spec`: the stored `L` row, the entries cut by the fill limit and the skipped multipliers add up to the
working row left of the diagonal; the stored `U` row and the discarded upper entries add up to it right of the
diagonal; the stored pivot is the inverse of the diagonal slot.
-/
set_option linter.unusedSectionVars false
namespace Amgcl
namespace Relax
open Finset

section split
variable {K : Type} [Field K] [DecidableEq K] [LT K] [DecidableLT K]

theorem rowGet_filter_split (q : Nat × K → Bool) (r : Row K) (j : Nat) :
    rowGet (r.filter q) j + rowGet (r.filter (fun e => !(q e))) j = rowGet r j := by
  induction r with
  | nil => simp
  | cons e t ih =>
    by_cases h : q e = true
    · rw [List.filter_cons_of_pos h, List.filter_cons_of_neg (by simp [h]), rowGet_cons', rowGet_cons', ← ih]; ring
    · rw [List.filter_cons_of_neg h, List.filter_cons_of_pos (by simp [h]), rowGet_cons', rowGet_cons', ← ih]; ring

theorem ilutSelect_spec (norm : K → K) (cnt : Nat) (cands k c : Row K)
    (h : ilutSelect norm cnt cands = some (k, c)) :
    (∀ j, rowGet k j + rowGet c j = rowGet cands j) ∧ (∀ e ∈ k, e ∈ cands) ∧ (c = [] → k = cands) := by
  unfold ilutSelect at h
  split at h
  · simp only [Option.some.injEq, Prod.mk.injEq] at h
    obtain ⟨rfl, rfl⟩ := h
    exact ⟨fun j => by simp, fun e he => he, fun _ => rfl⟩
  · split at h
    · simp only [Option.some.injEq, Prod.mk.injEq] at h
      obtain ⟨rfl, rfl⟩ := h
      exact ⟨fun j => by simp, fun e he => he, fun _ => rfl⟩
    · split at h
      · simp only [Option.some.injEq, Prod.mk.injEq] at h
        obtain ⟨rfl, rfl⟩ := h
        refine ⟨fun j => rowGet_filter_split _ _ j, fun e he => (List.mem_filter.mp he).1, fun hc => ?_⟩
        rw [List.filter_eq_self]
        intro e he
        by_contra hq
        have : e ∈ List.filter (fun e => !(decide (norm _ < norm e.2))) cands :=
          List.mem_filter.mpr ⟨he, by simpa using hq⟩
        rw [hc] at this
        cases this
      · cases h

theorem rowGet_ilutPick (f : Nat → Option K) (m j : Nat) :
    rowGet (ilutPick f m) j = if j < m then (f j).getD 0 else 0 :=
  rowGet_filterMap_range f m j

theorem mem_ilutPick (f : Nat → Option K) (m : Nat) (e : Nat × K) (h : e ∈ ilutPick f m) :
    e.1 < m ∧ f e.1 = some e.2 := by
  unfold ilutPick at h
  obtain ⟨c, hc, hfc⟩ := List.mem_filterMap.mp h
  cases hf : f c with
  | none => rw [hf] at hfc; cases hfc
  | some v =>
    rw [hf] at hfc
    simp only [Option.map_some, Option.some.injEq] at hfc
    subst hfc
    exact ⟨List.mem_range.mp hc, hf⟩

theorem ilutPick_eq_nil (f : Nat → Option K) (m : Nat) (h : ilutPick f m = []) (c : Nat) (hc : c < m) : f c = none := by
  cases hf : f c with
  | none => rfl
  | some v =>
    have : (c, v) ∈ ilutPick f m := by
      unfold ilutPick
      exact List.mem_filterMap.mpr ⟨c, List.mem_range.mpr hc, by rw [hf]; rfl⟩
    rw [h] at this
    cases this

theorem getD_filter_big (norm : K → K) (tol : K) (o : Option K) :
    (o.filter (fun v => decide (tol < norm v))).getD 0 = ilutM norm tol (o.getD 0) := by
  cases o with
  | none => unfold ilutM; simp
  | some v => unfold ilutM; by_cases h : tol < norm v <;> simp [Option.filter, h]

theorem getD_filter_small (norm : K → K) (tol : K) (o : Option K) :
    (o.filter (fun v => !(decide (tol < norm v)))).getD 0 = o.getD 0 - ilutM norm tol (o.getD 0) := by
  cases o with
  | none => unfold ilutM; simp
  | some v => unfold ilutM; by_cases h : tol < norm v <;> simp [Option.filter, h]

/-- what `move_to` does with the finished working row -/
theorem ilutRowFull_spec (P : IlutParams K) (n : Nat) (U : Array (Row K)) (D : Vec K) (i : Nat) (r : Row K)
    (l : Row K) (d : K) (u : Row K) (dr : IlutDrop K) (h : ilutRowFull P n U D i r = .ok (l, d, u, dr)) :
    d = 1 / ival (ilutWork P n U D i r) i ∧
    (∀ c, rowGet l c + rowGet dr.cutL c
        = if c < i then ilutM P.norm (ilutTol P i r) (ival (ilutWork P n U D i r) c) else 0) ∧
    (∀ c, rowGet dr.skipped c
        = if c < i then ival (ilutWork P n U D i r) c - ilutM P.norm (ilutTol P i r) (ival (ilutWork P n U D i r) c)
          else 0) ∧
    (∀ j, rowGet u j + rowGet dr.dropU j = if i < j ∧ j < n then ival (ilutWork P n U D i r) j else 0) ∧
    (∀ cv ∈ l, cv.1 < i) ∧ (∀ e ∈ u, i < e.1 ∧ e.1 < n) := by
  unfold ilutRowFull at h
  dsimp only at h
  split at h
  · cases h
  · rename_i d0 hw
    split at h
    · rename_i l' cl u' cu hl hu
      simp only [IlutOutcome.ok.injEq, Prod.mk.injEq] at h
      obtain ⟨rfl, rfl, rfl, rfl⟩ := h
      obtain ⟨hl1, hl2, _⟩ := ilutSelect_spec _ _ _ _ _ hl
      obtain ⟨hu1, hu2, _⟩ := ilutSelect_spec _ _ _ _ _ hu
      refine ⟨?_, ?_, ?_, ?_, ?_, ?_⟩
      · unfold ival; rw [hw]; rfl
      · intro c
        rw [hl1 c, rowGet_ilutPick, getD_filter_big]; rfl
      · intro c
        show rowGet (ilutPick _ i) c = _
        rw [rowGet_ilutPick, getD_filter_small]; rfl
      · intro j
        show rowGet _ j + rowGet (ilutPick _ n ++ _) j = _
        rw [rowGet_append, ← add_assoc, add_right_comm, hu1 j, rowGet_ilutPick, rowGet_ilutPick]
        by_cases hj : j < n
        · by_cases hij : i < j
          · rw [if_pos hj, if_pos hj, if_pos hij, if_pos hij, if_pos ⟨hij, hj⟩, getD_filter_big, getD_filter_small]
            unfold ival; ring
          · rw [if_pos hj, if_pos hj, if_neg hij, if_neg hij, if_neg (fun h => hij h.1)]; simp
        · rw [if_neg hj, if_neg hj, if_neg (fun h => hj h.2)]; simp
      · intro cv hcv
        exact (mem_ilutPick _ _ _ (hl2 cv hcv)).1
      · intro e he
        have hm := mem_ilutPick _ _ _ (hu2 e he)
        refine ⟨?_, hm.1⟩
        by_contra hlt
        rw [if_neg hlt] at hm
        cases hm.2
    · cases h

end split

end Relax
end Amgcl
