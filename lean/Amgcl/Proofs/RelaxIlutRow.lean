import Amgcl.Model.RelaxIlut
import Amgcl.Proofs.RelaxIlukLoop
/-!
# ILUT as written: the working row

`ival w j` is the value the working row denotes at column `j` (`0` without a slot).  One turn of the elimination loop
(`ilutPivot_spec`), the invariant of the loop (`IlutRowInv`: with `m_c` = the multiplier of column `c` if it was
applied, `0` if it was skipped,

    w_j = a_j − Σ_{c' < c} m_c' u_c'j            (j ≥ c)
    w_j = (a_j − Σ_{c' < c} m_c' u_c'j) · D_j    (j < c)

) and how the stored rows and the discarded part (`IlutDrop`) split the finished working row (`ilutRowFull_spec`).
-/
set_option linter.unusedSectionVars false
namespace Amgcl
namespace Relax
open Finset

section work
variable {K : Type} [Field K] [DecidableEq K] [LT K] [DecidableLT K]

/-- the value denoted by the working row at column `j` -/
def ival (w : IlutRow K) (j : Nat) : K := (w.getD j none).getD 0

/-- the multiplier as the elimination loop uses it: applied iff `norm > tol` -/
def ilutM (norm : K → K) (tol : K) (wk : K) : K := if tol < norm wk then wk else 0

@[simp] theorem ilutSub_size (w : IlutRow K) (c : Nat) (x : K) : (ilutSub w c x).size = w.size := by
  unfold ilutSub; split <;> simp

theorem ival_ilutSub (w : IlutRow K) (c : Nat) (x : K) (hc : c < w.size) (j : Nat) :
    ival (ilutSub w c x) j = ival w j - (if c = j then x else 0) := by
  unfold ilutSub ival
  by_cases h : c = j
  · subst h
    rw [if_pos rfl]
    cases hw : w.getD c none with
    | none => simp only []; rw [getD_setIfInBounds_self _ _ _ _ hc]; simp
    | some v => simp only []; rw [getD_setIfInBounds_self _ _ _ _ hc]; simp
  · rw [if_neg h, sub_zero]
    cases hw : w.getD c none with
    | none => simp only []; rw [getD_setIfInBounds_ne _ _ _ _ _ h]
    | some v => simp only []; rw [getD_setIfInBounds_ne _ _ _ _ _ h]

theorem ival_foldl_ilutSub (wk : K) (urow : Row K) (w : IlutRow K) (hu : ∀ e ∈ urow, e.1 < w.size) (j : Nat) :
    (urow.foldl (fun w e => ilutSub w e.1 (wk * e.2)) w).size = w.size ∧
    ival (urow.foldl (fun w e => ilutSub w e.1 (wk * e.2)) w) j = ival w j - wk * rowGet urow j := by
  induction urow generalizing w with
  | nil => simp
  | cons e t ih =>
    rw [List.foldl_cons]
    have h1 := ih (ilutSub w e.1 (wk * e.2))
      (by intro e' he'; rw [ilutSub_size]; exact hu e' (List.mem_cons_of_mem _ he'))
    refine ⟨by rw [h1.1, ilutSub_size], ?_⟩
    rw [h1.2, ival_ilutSub _ _ _ (hu e List.mem_cons_self), rowGet_cons']
    by_cases h : e.1 = j
    · rw [if_pos h, if_pos h]; ring
    · rw [if_neg h, if_neg h]; ring

/-- one turn of the elimination loop -/
theorem ilutPivot_spec (norm : K → K) (tol : K) (U : Array (Row K)) (D : Vec K) (w : IlutRow K) (c : Nat)
    (hc : c < w.size) (hU : ∀ e ∈ U.getD c [], c < e.1 ∧ e.1 < w.size) :
    (ilutPivot norm tol U D w c).size = w.size ∧
    ival (ilutPivot norm tol U D w c) c = ival w c * D.getD c 0 ∧
    ∀ j, j ≠ c → ival (ilutPivot norm tol U D w c) j
        = ival w j - ilutM norm tol (ival w c * D.getD c 0) * rowGet (U.getD c []) j := by
  have hcz : rowGet (U.getD c []) c = 0 := by
    apply rowGet_eq_zero_of_not_mem
    intro hm
    obtain ⟨e, he, hec⟩ := List.mem_map.mp hm
    have := (hU e he).1
    omega
  unfold ilutPivot
  cases hw : w.getD c none with
  | none =>
    have h0 : ival w c = 0 := by unfold ival; rw [hw]; rfl
    simp only []
    refine ⟨by first | rfl | trivial, by rw [h0, zero_mul], fun j _ => ?_⟩
    rw [h0, zero_mul]
    unfold ilutM
    split <;> ring
  | some v =>
    have hv : ival w c = v := by unfold ival; rw [hw]; rfl
    simp only []
    rw [hv]
    have hs1 : (w.setIfInBounds c (some (v * D.getD c 0))).size = w.size := by simp
    have hc1 : ival (w.setIfInBounds c (some (v * D.getD c 0))) c = v * D.getD c 0 := by
      unfold ival; rw [getD_setIfInBounds_self _ _ _ _ hc]; rfl
    have hne : ∀ j, j ≠ c → ival (w.setIfInBounds c (some (v * D.getD c 0))) j = ival w j := by
      intro j hj; unfold ival; rw [getD_setIfInBounds_ne _ _ _ _ _ (Ne.symm hj)]
    by_cases ht : tol < norm (v * D.getD c 0)
    · rw [if_pos ht]
      have hf := fun j => ival_foldl_ilutSub (v * D.getD c 0) (U.getD c [])
        (w.setIfInBounds c (some (v * D.getD c 0))) (fun e he => by rw [hs1]; exact (hU e he).2) j
      refine ⟨by rw [(hf 0).1, hs1], ?_, ?_⟩
      · rw [(hf c).2, hc1, hcz]; ring
      · intro j hj
        rw [(hf j).2, hne j hj]
        unfold ilutM
        rw [if_pos ht]
    · rw [if_neg ht]
      refine ⟨hs1, hc1, fun j hj => ?_⟩
      rw [hne j hj]
      unfold ilutM
      rw [if_neg ht]; ring

/-- `a_j − Σ_{c' < c} m_c' u_c'j` -/
def ilutE (norm : K → K) (tol : K) (U : Array (Row K)) (r : Row K) (w : IlutRow K) (c j : Nat) : K :=
  rowGet r j - ∑ c' ∈ range c, ilutM norm tol (ival w c') * rowGet (U.getD c' []) j

structure IlutRowInv (norm : K → K) (tol : K) (U : Array (Row K)) (D : Vec K) (r : Row K) (n c : Nat)
    (w : IlutRow K) : Prop where
  size : w.size = n
  hi : ∀ j, c ≤ j → ival w j = ilutE norm tol U r w c j
  lo : ∀ j, j < c → ival w j = ilutE norm tol U r w c j * D.getD j 0

theorem IlutRowInv.step (norm : K → K) (tol : K) (U : Array (Row K)) (D : Vec K) (r : Row K) (n c : Nat)
    (w : IlutRow K) (inv : IlutRowInv norm tol U D r n c w) (hc : c < n)
    (hU : ∀ c, ∀ e ∈ U.getD c [], c < e.1 ∧ e.1 < n) :
    IlutRowInv norm tol U D r n (c + 1) (ilutPivot norm tol U D w c) := by
  obtain ⟨p1, p2, p3⟩ := ilutPivot_spec norm tol U D w c (by rw [inv.size]; exact hc)
    (fun e he => by rw [inv.size]; exact hU c e he)
  have huz : ∀ j, j ≤ c → rowGet (U.getD c []) j = 0 := by
    intro j hj
    apply rowGet_eq_zero_of_not_mem
    intro hm
    obtain ⟨e, he, hec⟩ := List.mem_map.mp hm
    have := (hU c e he).1
    omega
  have hlt : ∀ c', c' < c → ival (ilutPivot norm tol U D w c) c' = ival w c' := by
    intro c' h
    rw [p3 c' (by omega), huz c' (by omega)]; ring
  have hsum : ∀ j, ∑ c' ∈ range c, ilutM norm tol (ival (ilutPivot norm tol U D w c) c') * rowGet (U.getD c' []) j
      = ∑ c' ∈ range c, ilutM norm tol (ival w c') * rowGet (U.getD c' []) j := by
    intro j
    apply sum_congr rfl
    intro c' hc'
    rw [hlt c' (mem_range.mp hc')]
  have hE : ∀ j, ilutE norm tol U r (ilutPivot norm tol U D w c) (c + 1) j
      = ilutE norm tol U r w c j - ilutM norm tol (ival w c * D.getD c 0) * rowGet (U.getD c []) j := by
    intro j
    unfold ilutE
    rw [sum_range_succ, hsum j, p2]; ring
  refine ⟨by rw [p1, inv.size], ?_, ?_⟩
  · intro j hj
    rw [hE j, p3 j (by omega), inv.hi j (by omega)]
  · intro j hj
    rcases Nat.lt_or_eq_of_le (Nat.le_of_lt_succ hj) with hlt' | heq
    · rw [hE j, huz j (by omega), hlt j hlt', inv.lo j hlt']; ring
    · subst heq
      rw [hE j, huz j (Nat.le_refl j), p2, inv.hi j (Nat.le_refl j)]; ring

theorem IlutRowInv.fold (norm : K → K) (tol : K) (U : Array (Row K)) (D : Vec K) (r : Row K) (n : Nat)
    (hU : ∀ c, ∀ e ∈ U.getD c [], c < e.1 ∧ e.1 < n)
    (w0 : IlutRow K) (h0 : IlutRowInv norm tol U D r n 0 w0) (c : Nat) (hc : c ≤ n) :
    IlutRowInv norm tol U D r n c ((List.range c).foldl (ilutPivot norm tol U D) w0) := by
  induction c with
  | zero => exact h0
  | succ m ih =>
    rw [List.range_succ, List.foldl_append]
    exact IlutRowInv.step norm tol U D r n m _ (ih (by omega)) (by omega) hU

/-- the copy loop: the last stored value of a column wins; on rows without repeated columns this is `rowGet` -/
theorem ival_scatter (r : Row K) (w : IlutRow K) (hr : ∀ cv ∈ r, cv.1 < w.size) (hnd : (r.map (·.1)).Nodup)
    (j : Nat) :
    (r.foldl (fun w cv => w.setIfInBounds cv.1 (some cv.2)) w).size = w.size ∧
    ival (r.foldl (fun w cv => w.setIfInBounds cv.1 (some cv.2)) w) j
      = if j ∈ r.map (·.1) then rowGet r j else ival w j := by
  induction r generalizing w with
  | nil => simp
  | cons cv t ih =>
    rw [List.foldl_cons]
    have hs : (w.setIfInBounds cv.1 (some cv.2)).size = w.size := by simp
    rw [List.map_cons, List.nodup_cons] at hnd
    have h1 := ih (w.setIfInBounds cv.1 (some cv.2))
      (by intro e he; rw [hs]; exact hr e (List.mem_cons_of_mem _ he)) hnd.2
    refine ⟨by rw [h1.1, hs], ?_⟩
    rw [h1.2, rowGet_cons', List.map_cons]
    by_cases hj : j = cv.1
    · subst hj
      rw [if_neg hnd.1, if_pos List.mem_cons_self, if_pos rfl, rowGet_eq_zero_of_not_mem _ _ hnd.1]
      unfold ival
      rw [getD_setIfInBounds_self _ _ _ _ (hr cv List.mem_cons_self)]
      simp
    · have hne : cv.1 ≠ j := fun h => hj h.symm
      rw [if_neg hne, zero_add]
      by_cases hm : j ∈ t.map (·.1)
      · rw [if_pos hm, if_pos (List.mem_cons_of_mem _ hm)]
      · rw [if_neg hm, if_neg (by intro h; rcases List.mem_cons.mp h with h | h; exact hj h; exact hm h)]
        unfold ival
        rw [getD_setIfInBounds_ne _ _ _ _ _ hne]

/-- the finished working row of row `i` satisfies the invariant at `c = i` -/
theorem ilutWork_inv (P : IlutParams K) (n : Nat) (U : Array (Row K)) (D : Vec K) (i : Nat) (r : Row K)
    (hr : ∀ cv ∈ r, cv.1 < n) (hnd : (r.map (·.1)).Nodup) (hi : i ≤ n)
    (hU : ∀ c, ∀ e ∈ U.getD c [], c < e.1 ∧ e.1 < n) :
    IlutRowInv P.norm (ilutTol P i r) U D r n i (ilutWork P n U D i r) := by
  unfold ilutWork
  apply IlutRowInv.fold P.norm (ilutTol P i r) U D r n hU _ _ i hi
  have hsc := fun j => ival_scatter r (Array.replicate n none : IlutRow K) (by simpa using hr) hnd j
  refine ⟨by rw [(hsc 0).1]; simp, ?_, fun j hj => absurd hj (Nat.not_lt_zero j)⟩
  intro j _
  rw [(hsc j).2]
  unfold ilutE
  rw [range_zero, sum_empty, sub_zero]
  by_cases hm : j ∈ r.map (·.1)
  · rw [if_pos hm]
  · rw [if_neg hm, rowGet_eq_zero_of_not_mem _ _ hm]
    unfold ival
    have : (Array.replicate n (none : Option K)).getD j none = none := by
      unfold Array.getD; split <;> simp
    rw [this]; rfl

end work

end Relax
end Amgcl
