import Amgcl.Proofs.SolverBiCGStabLIndep
import Mathlib.Algebra.Order.Field.Rat
/-!
Non-vacuity of the BiCGStab(L) theorems over `ℚ` (evaluated by the kernel, `decide +kernel`): the hypotheses of
`solve_truthful` hold for a non-symmetric 3×3 system with a non-identity matrix preconditioner on BOTH sides, and
concrete calls with `L = 2`, `delta > 0` return normally after a full pass (polynomial part through `qr.solve`).
-/
namespace Amgcl.Solver.BiCGStabL
open Amgcl Amgcl.Solver

section nonvacuous

private def A₀ : CRS ℚ := ⟨3, #[[(0, 2), (1, -1)], [(0, -3), (1, 4), (2, 1)], [(1, -1), (2, 3)]]⟩
private def M₀ : CRS ℚ := ⟨3, #[[(0, 1/2)], [(0, 1/8), (1, 1/4)], [(2, 1/3)]]⟩
private def P₀ : Vec ℚ → Vec ℚ := fun v => spmv 1 M₀ v 0 #[]
private def blPrm (side : Side) : Params ℚ :=
  { maxiter := 2, tol := 0, abstol := 0, nsSearch := false, L := 2, delta := 1/2, convex := false, pside := side }

/-- the hypotheses of `solve_truthful` for either side -/
example (side : Side) : BiCGStab.SideOK side A₀ P₀ ∧ A₀.nrows = A₀.ncols ∧ PLin A₀.nrows P₀ :=
  ⟨⟨by decide, fun v => spmv_size' 1 0 M₀ v #[], fun _ => ⟨rfl, PLin_spmv M₀ (by decide) #[]⟩⟩, rfl,
    PLin_spmv M₀ (by decide) #[]⟩

example : ∃ it res x w, solve (blPrm .right) stdIp id 0 (7/10) A₀ P₀ (Work.fresh 3) #[1, 3, 2] #[1, 0, 0]
    = .ok (it, res, x, w) ∧ it = 2 := by
  have h : (match solve (blPrm .right) stdIp id 0 (7/10) A₀ P₀ (Work.fresh 3) #[1, 3, 2] #[1, 0, 0] with
      | .ok (it, _, _, _) => decide (it = 2) | _ => false) = true := by decide +kernel
  split at h
  · exact ⟨_, _, _, _, ‹_›, of_decide_eq_true h⟩
  · cases h

example : ∃ it res x w, solve (blPrm .left) stdIp id 0 (7/10) A₀ P₀ (Work.fresh 3) #[1, 3, 2] #[1, 0, 0]
    = .ok (it, res, x, w) ∧ it = 2 := by
  have h : (match solve (blPrm .left) stdIp id 0 (7/10) A₀ P₀ (Work.fresh 3) #[1, 3, 2] #[1, 0, 0] with
      | .ok (it, _, _, _) => decide (it = 2) | _ => false) = true := by decide +kernel
  split at h
  · exact ⟨_, _, _, _, ‹_›, of_decide_eq_true h⟩
  · cases h

end nonvacuous

end Amgcl.Solver.BiCGStabL
