import Amgcl.Proofs.EnergyBasic
/-!
# The coarse-grid correction in the energy norm

`A` SPD on the fine space `ι`, prolongation `P : Matrix ι κ 𝕜`, Galerkin operator `A_c = Pᵀ A P`, coarse
preconditioner `B_c` (exact inverse, or the recursively defined cycle).  The correction `x ↦ x + P B_c Pᵀ (f − A x)`
has error propagation `C = 1 − P B_c Pᵀ A`.

* `cgc_nonExp`  — if the coarse error operator `1 − B_c A_c` is `A_c`-norm nonexpansive (no symmetry needed), then `C`
  is `A`-norm nonexpansive.  (Pythagoras with the `A`-orthogonal projector onto `range P`; the inverse of `A_c` enters
  only through "`A_c w = Pᵀ A e` has a solution `w`".)
* `cgc_form`    — `⟪C e, e⟫_A = ‖e − P w‖²_A + ⟪(1 − B_c A_c) w, w⟫_{A_c}`, hence `0 ≤ ⟪C e, e⟫_A` if the coarse error
  operator has a nonnegative `A_c`-form.
-/
set_option linter.unusedSectionVars false
namespace Amgcl.Energy
open Matrix

variable {𝕜 : Type*} [Field 𝕜]
variable {ι κ : Type*} [Fintype ι] [Fintype κ] [DecidableEq ι] [DecidableEq κ]

/-- preconditioner of the coarse-grid correction `x ↦ x + P B_c Pᵀ (f − A x)` -/
def cgcB (P : Matrix ι κ 𝕜) (Bc : Matrix κ κ 𝕜) : Matrix ι ι 𝕜 := P * Bc * Pᵀ

variable {A : Matrix ι ι 𝕜} {P : Matrix ι κ 𝕜} {Ac Bc : Matrix κ κ 𝕜}

theorem cgcB_transpose (hB : Bcᵀ = Bc) : (cgcB P Bc)ᵀ = cgcB P Bc := by
  simp [cgcB, transpose_mul, hB, Matrix.mul_assoc]

theorem cgcB_smul (c : 𝕜) : cgcB P (c • Bc) = c • cgcB P Bc := by
  simp [cgcB]

/-- `range P` is `A`-orthogonal to `e − P w` when `w` solves the coarse problem `A_c w = Pᵀ A e` -/
theorem galerkin_orth (hAc : Ac = Pᵀ * A * P) (e : ι → 𝕜) (w : κ → 𝕜) (hw : Ac *ᵥ w = Pᵀ *ᵥ (A *ᵥ e))
    (z : κ → 𝕜) : en A (P *ᵥ z) (e - P *ᵥ w) = 0 := by
  rw [en_sub_right, en_galerkin, ← hAc, en_mulVec_left, ← mulVec_mulVec, ← hw, en, sub_self]

/-- Pythagoras: `‖e‖²_A = ‖e − P w‖²_A + ‖w‖²_{A_c}` -/
theorem galerkin_pythagoras (hA : Aᵀ = A) (hAc : Ac = Pᵀ * A * P) (e : ι → 𝕜) (w : κ → 𝕜)
    (hw : Ac *ᵥ w = Pᵀ *ᵥ (A *ᵥ e)) : en A e e = en A (e - P *ᵥ w) (e - P *ᵥ w) + en Ac w w := by
  have h0 := galerkin_orth hAc e w hw w
  have h1 : en A e e = en A ((e - P *ᵥ w) + P *ᵥ w) ((e - P *ᵥ w) + P *ᵥ w) := by
    congr 1 <;> abel
  rw [h1, en_add_add _ _ _ hA, en_comm A (e - P *ᵥ w) (P *ᵥ w) hA, h0, en_galerkin, ← hAc]; ring

/-- the coarse-grid correction splits along `range P ⊕ (range P)^⊥_A` -/
theorem cgc_apply (e : ι → 𝕜) (w : κ → 𝕜) (hw : Ac *ᵥ w = Pᵀ *ᵥ (A *ᵥ e)) :
    (1 - cgcB P Bc * A) *ᵥ e = (e - P *ᵥ w) + P *ᵥ ((1 - Bc * Ac) *ᵥ w) := by
  have : (cgcB P Bc * A) *ᵥ e = P *ᵥ (Bc *ᵥ (Ac *ᵥ w)) := by
    rw [hw, cgcB]; simp only [← mulVec_mulVec]
  rw [sub_mulVec, one_mulVec, this, sub_mulVec, one_mulVec, mulVec_sub, ← mulVec_mulVec]; abel

/-- `⟪C e, e⟫_A = ‖e − P w‖²_A + ⟪(1 − B_c A_c) w, w⟫_{A_c}` -/
theorem cgc_form (hA : Aᵀ = A) (hAc : Ac = Pᵀ * A * P) (e : ι → 𝕜) (w : κ → 𝕜)
    (hw : Ac *ᵥ w = Pᵀ *ᵥ (A *ᵥ e)) :
    en A ((1 - cgcB P Bc * A) *ᵥ e) e =
      en A (e - P *ᵥ w) (e - P *ᵥ w) + en Ac ((1 - Bc * Ac) *ᵥ w) w := by
  have h0 := galerkin_orth hAc e w hw
  have h1 : en A ((e - P *ᵥ w) + P *ᵥ ((1 - Bc * Ac) *ᵥ w)) e =
      en A ((e - P *ᵥ w) + P *ᵥ ((1 - Bc * Ac) *ᵥ w)) ((e - P *ᵥ w) + P *ᵥ w) := by
    congr 1; abel
  rw [cgc_apply e w hw, h1, en_add_left, en_add_right, en_add_right, h0,
    en_comm A (e - P *ᵥ w) (P *ᵥ w) hA, h0, en_galerkin, ← hAc]
  ring

/-! ### order -/

variable [LinearOrder 𝕜] [IsStrictOrderedRing 𝕜]

/-- the form `⟪E e, e⟫_A` is nonnegative -/
def PosForm (A E : Matrix ι ι 𝕜) : Prop := ∀ e : ι → 𝕜, 0 ≤ en A (E *ᵥ e) e

/-- **the coarse-grid correction is `A`-norm nonexpansive** whenever the coarse error operator is
`A_c`-norm nonexpansive (`B_c` need not be symmetric) -/
theorem cgc_nonExp (hA : Aᵀ = A) (hAc : Ac = Pᵀ * A * P) (hsolve : ∀ g : κ → 𝕜, ∃ w, Ac *ᵥ w = g)
    (hc : NonExp Ac (1 - Bc * Ac)) : NonExp A (1 - cgcB P Bc * A) := by
  intro e
  obtain ⟨w, hw⟩ := hsolve (Pᵀ *ᵥ (A *ᵥ e))
  rw [cgc_apply e w hw, en_add_add _ _ _ hA, en_comm A (e - P *ᵥ w) (P *ᵥ _) hA, galerkin_orth hAc e w hw, en_galerkin,
    ← hAc, galerkin_pythagoras hA hAc e w hw]
  have := hc w
  linarith

theorem cgc_posForm (hA : IsSPD A) (hAc : Ac = Pᵀ * A * P) (hsolve : ∀ g : κ → 𝕜, ∃ w, Ac *ᵥ w = g)
    (hc : PosForm Ac (1 - Bc * Ac)) : PosForm A (1 - cgcB P Bc * A) := by
  intro e
  obtain ⟨w, hw⟩ := hsolve (Pᵀ *ᵥ (A *ᵥ e))
  rw [cgc_form hA.1 hAc e w hw]
  have := hc w
  have := hA.nonneg (e - P *ᵥ w)
  linarith

/-- exact coarse solve: `B_c A_c = 1`.  Then `C` is the `A`-orthogonal projector onto `(range P)^⊥_A`:
`‖C e‖²_A = ‖e‖²_A − ‖w‖²_{A_c} ≤ ‖e‖²_A` -/
theorem cgc_exact_nonExp (hA : Aᵀ = A) (hAc : Ac = Pᵀ * A * P) (hAcs : IsSPD Ac) (hB : Bc * Ac = 1) :
    NonExp A (1 - cgcB P Bc * A) := by
  apply cgc_nonExp hA hAc hAcs.exists_solve
  rw [hB, sub_self]; intro w; rw [zero_mulVec, en_zero_left]; exact hAcs.nonneg w

end Amgcl.Energy
