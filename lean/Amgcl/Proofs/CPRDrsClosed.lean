import Amgcl.Proofs.CPRDrsVisit
import Mathlib.Algebra.BigOperators.Group.Finset.Basic
import Mathlib.Algebra.BigOperators.Ring.Finset
/-!
`cpr_drs::first_scalar_pass` for rows with strictly increasing columns (C18): the loop invariant of the lock-step walk
and the closed form of the accumulators after it —

  `a_dia[j] = K(ip·B + j, ip·B)`,  `a_off[j] = Σ_{jp < q, jp ≠ ip} |K(ip·B + j, jp·B)|`,
  `a_top[c] = Σ_{jp < q} |K(ip·B, jp·B + c)|`            (`q = N / B` active block columns).
-/
set_option linter.unusedSectionVars false
namespace Amgcl.CPRDrs
open Amgcl Amgcl.CPR Finset

section inv
variable {K : Type} [Field K] [LinearOrder K]

/-- entry `(j, col)` of the block row held by the iterators -/
def R (rows : List (Row K)) (j col : Nat) : K := rowGet (rows.getD j []) col

theorem getD_mem_or_nil {α : Type} (l : List (List α)) (j : Nat) : l.getD j [] ∈ l ∨ l.getD j [] = [] := by
  simp only [List.getD_eq_getElem?_getD]
  by_cases h : j < l.length
  · left; rw [List.getElem?_eq_getElem h]; exact List.getElem_mem _
  · right; rw [List.getElem?_eq_none (by omega)]; rfl

theorem R_eq_zero (rows : List (Row K)) (j col : Nat) (h : ∀ r ∈ rows, ∀ cv ∈ r, cv.1 ≠ col) : R rows j col = 0 := by
  unfold R
  rcases getD_mem_or_nil rows j with hm | hn
  · exact rowGet_eq_zero_of_not_mem _ _ (h _ hm)
  · rw [hn]; rfl

/-- the accumulators after all block columns `< m` have been visited -/
structure Inv (B q ip : Nat) (rows : List (Row K)) (m : Nat) (a : Acc K) : Prop where
  sized : a.Sized B
  top : ∀ c, c < B → a.top.getD c 0 = ∑ jp ∈ range q, if jp < m then absK (R rows 0 (jp * B + c)) else 0
  dia : ∀ j, j < B → a.dia.getD j 0 = if ip < m then R rows j (ip * B) else 0
  off : ∀ j, j < B → a.off.getD j 0 = ∑ jp ∈ range q, if jp < m ∧ jp ≠ ip then absK (R rows j (jp * B)) else 0

theorem inv_zero (B q ip : Nat) (rows : List (Row K)) : Inv B q ip rows 0 (Acc.zero B : Acc K) where
  sized := Acc.zero_sized B
  top := by intro c hc; simp [Acc.zero, Array.getD, hc]
  dia := by intro j hj; simp [Acc.zero, Array.getD, hj]
  off := by intro j hj; simp [Acc.zero, Array.getD, hj]

theorem getD_map_filter (rows : List (Row K)) (p : Nat × K → Bool) (j : Nat) :
    (rows.map (fun r => r.filter p)).getD j [] = (rows.getD j []).filter p := by
  simp only [List.getD_eq_getElem?_getD, List.getElem?_map]
  cases rows[j]? <;> simp

theorem mul_add_lt {B cur c : Nat} (hc : c < B) : cur * B + c < (cur + 1) * B := by
  rw [Nat.add_mul, Nat.one_mul]; omega

/-- sum over the block columns `< cur + 1` when the blocks `m .. cur - 1` contribute nothing -/
theorem sum_step (q m cur : Nat) (hm : m ≤ cur) (hq : cur < q) (P : Nat → Prop) [DecidablePred P] (X : Nat → K)
    (hz : ∀ jp, m ≤ jp → jp < cur → X jp = 0) :
    (∑ jp ∈ range q, if jp < cur + 1 ∧ P jp then X jp else 0)
      = (∑ jp ∈ range q, if jp < m ∧ P jp then X jp else 0) + if P cur then X cur else 0 := by
  have : (if P cur then X cur else 0) = ∑ jp ∈ range q, if jp = cur then (if P cur then X cur else 0) else 0 := by
    rw [Finset.sum_ite_eq' (range q) cur]
    simp [hq]
  rw [this, ← Finset.sum_add_distrib]
  apply Finset.sum_congr rfl
  intro jp _
  by_cases h1 : jp < m
  · have h2 : jp < cur + 1 := by omega
    have h3 : ¬ jp = cur := by omega
    simp [h1, h2, h3]
  · by_cases h2 : jp < cur
    · have h3 : jp < cur + 1 := by omega
      have h4 : ¬ jp = cur := by omega
      have := hz jp (by omega) h2
      simp [h1, h3, h4, this]
    · by_cases h3 : jp = cur
      · subst h3
        simp [h1]
      · have h4 : ¬ jp < cur + 1 := by omega
        simp [h1, h3, h4]

/-- **loop invariant of the lock-step walk** (rows with strictly increasing columns, `N = q·B`) -/
theorem passLoop_inv (B N ip q : Nat) (hB : 0 < B) (hN : N = q * B) (g : Bool) (rows : List (Row K))
    (hlen : rows.length ≤ B) (hs : ∀ r ∈ rows, Sorted r) :
    ∀ (fuel m cnt : Nat) (a : Acc K), m ≤ q → Inv B q ip rows m a → remaining (rows.map (geC (m * B))) < fuel →
      Inv B q ip rows q (passLoop B N ip g fuel { ks := rows.map (geC (m * B)), cnt := cnt, acc := a }).acc := by
  intro fuel
  induction fuel with
  | zero => intro m cnt a _ _ h; omega
  | succ f ih =>
    intro m cnt a hmq hinv hfuel
    unfold passLoop
    cases hcur : curCol B N (rows.map (geC (m * B))) with
    | none =>
      simp only
      have hall := curCol_geC_none rows hs (m * B) hcur
      -- every block `m ≤ jp < q` is empty
      have hempty : ∀ j jp c, m ≤ jp → jp < q → c < B → R rows j (jp * B + c) = 0 := by
        intro j jp c h1 h2 hc
        apply R_eq_zero
        intro r hr cv hcv he
        have hlo : m * B ≤ cv.1 := by rw [he]; exact Nat.le_trans (Nat.mul_le_mul_right _ h1) (Nat.le_add_right _ _)
        have := hall r hr cv hcv hlo
        have hlt : jp * B + c < N := by
          rw [hN]; exact Nat.lt_of_lt_of_le (mul_add_lt hc) (Nat.mul_le_mul_right _ h2)
        omega
      refine ⟨hinv.sized, ?_, ?_, ?_⟩
      · intro c hc
        rw [hinv.top c hc]
        apply Finset.sum_congr rfl
        intro jp hjp
        have hjq := Finset.mem_range.1 hjp
        by_cases h1 : jp < m
        · simp [h1, hjq]
        · simp [h1, hjq, hempty 0 jp c (by omega) hjq hc, absK_zero]
      · intro j hj
        rw [hinv.dia j hj]
        by_cases h1 : ip < m
        · have h2 : ip < q := by omega
          simp [h1, h2]
        · by_cases h2 : ip < q
          · have := hempty j ip 0 (by omega) h2 hB
            rw [Nat.add_zero] at this
            simp [h1, h2, this]
          · simp [h1, h2]
      · intro j hj
        rw [hinv.off j hj]
        apply Finset.sum_congr rfl
        intro jp hjp
        have hjq := Finset.mem_range.1 hjp
        by_cases h1 : jp < m
        · simp [h1, hjq]
        · have := hempty j jp 0 (by omega) hjq hB
          rw [Nat.add_zero] at this
          simp [h1, hjq, this, absK_zero]
    | some cur =>
      simp only
      obtain ⟨hmin, r0, hr0, cv0, hcv0, hlo0, hN0, hdiv0⟩ := curCol_geC_some rows hs (m * B) cur hcur
      have hcv0lt : cv0.1 < (cur + 1) * B := lt_succ_mul_of_div_eq hB hdiv0
      have hmc : m ≤ cur := by rw [← hdiv0]; exact (Nat.le_div_iff_mul_le hB).2 hlo0
      have hcurq : cur < q := by
        rw [← hdiv0]; rw [hN] at hN0; exact (Nat.div_lt_iff_lt_mul hB).2 hN0
      have hle : m * B ≤ (cur + 1) * B := Nat.mul_le_mul_right _ (by omega)
      have hmid : ∀ r ∈ rows, ∀ cv ∈ r, m * B ≤ cv.1 → cv.1 < (cur + 1) * B → cv.1 / B = cur := by
        intro r hr cv hcv h1 h2
        have h3 := hmin r hr cv hcv h1 (by
          have : (cur + 1) * B ≤ N := by rw [hN]; exact Nat.mul_le_mul_right _ hcurq
          omega)
        have h4 : cv.1 / B < cur + 1 := (Nat.div_lt_iff_lt_mul hB).2 h2
        omega
      rw [advance_geC rows hs (m * B) _ hle, visit_eq B ip cur (m * B) _ rows hs a]
      set L := rows.map (fun r => r.filter (fun cv => decide (m * B ≤ cv.1 ∧ cv.1 < (cur + 1) * B))) with hL
      have hLlen : L.length ≤ B := by simp [hL]; exact hlen
      have hLnd : ∀ l ∈ L, (l.map (·.1)).Nodup := by
        intro l hl
        obtain ⟨r, hr, rfl⟩ := List.mem_map.1 hl
        exact K2.StrictCols.nodup ((hs r hr).filter _)
      have hLblk : ∀ l ∈ L, ∀ cv ∈ l, cv.1 / B = cur := by
        intro l hl cv hcv
        obtain ⟨r, hr, rfl⟩ := List.mem_map.1 hl
        simp only [List.mem_filter, decide_eq_true_eq] at hcv
        exact hmid r hr cv hcv.1 hcv.2.1 hcv.2.2
      obtain ⟨vt, vd, vo⟩ := visitFold_spec B ip cur hB L hLlen hLnd hLblk a hinv.sized
      have hLget : ∀ j col, m * B ≤ col → col < (cur + 1) * B → rowGet (L.getD j []) col = R rows j col := by
        intro j col h1 h2
        rw [hL, getD_map_filter, rowGet_filter (fun c => decide (m * B ≤ c ∧ c < (cur + 1) * B))]
        simp [h1, h2, R]
      have hempty : ∀ j jp c, m ≤ jp → jp < cur → c < B → R rows j (jp * B + c) = 0 := by
        intro j jp c h1 h2 hc
        apply R_eq_zero
        intro r hr cv hcv he
        have hlo : m * B ≤ cv.1 := by rw [he]; exact Nat.le_trans (Nat.mul_le_mul_right _ h1) (Nat.le_add_right _ _)
        have hlt : cv.1 < (jp + 1) * B := by rw [he]; exact mul_add_lt hc
        have hle2 : (jp + 1) * B ≤ cur * B := Nat.mul_le_mul_right _ h2
        have hltN : cv.1 < N := by
          have : cur * B ≤ q * B := Nat.mul_le_mul_right _ (by omega)
          omega
        have h3 := hmin r hr cv hcv hlo hltN
        have h4 : cv.1 / B < jp + 1 := (Nat.div_lt_iff_lt_mul hB).2 hlt
        omega
      have hcB : ∀ c, c < B → m * B ≤ cur * B + c ∧ cur * B + c < (cur + 1) * B := by
        intro c hc
        exact ⟨Nat.le_trans (Nat.mul_le_mul_right _ hmc) (Nat.le_add_right _ _), mul_add_lt hc⟩
      have hc0 : m * B ≤ cur * B ∧ cur * B < (cur + 1) * B := by
        have := hcB 0 hB
        simpa using this
      apply ih (cur + 1) _ _ (by omega) ?_
        (by have := remaining_advance_lt rows hs (m * B) cur hcur hB hle; omega)
      refine ⟨visitFold_sized B ip cur L a hinv.sized, ?_, ?_, ?_⟩
      · intro c hc
        rw [vt c hc, hinv.top c hc, hLget 0 (cur * B + c) (hcB c hc).1 (hcB c hc).2]
        have := sum_step q m cur hmc hcurq (fun _ => True) (fun jp => absK (R rows 0 (jp * B + c)))
          (by intro jp h1 h2; rw [hempty 0 jp c h1 h2 hc, absK_zero])
        simp only [and_true, if_true] at this
        rw [this]
      · intro j hj
        rw [vd j hj, hinv.dia j hj]
        by_cases hci : cur = ip
        · by_cases hmem : (cur * B) ∈ (L.getD j []).map (·.1)
          · rw [if_pos ⟨hci, hmem⟩, hLget j (cur * B) hc0.1 hc0.2, if_pos (by omega), hci]
          · rw [if_neg (fun h => hmem h.2), if_neg (by omega), if_pos (by omega)]
            symm
            rw [← hci, ← hLget j (cur * B) hc0.1 hc0.2]
            apply rowGet_eq_zero_of_not_mem
            intro cv hcv he
            exact hmem (he ▸ List.mem_map_of_mem hcv)
        · rw [if_neg (fun h => hci h.1)]
          by_cases h1 : ip < m
          · rw [if_pos h1, if_pos (by omega)]
          · rw [if_neg h1]
            by_cases h2 : ip < cur
            · have := hempty j ip 0 (by omega) h2 hB
              rw [Nat.add_zero] at this
              rw [if_pos (by omega), this]
            · rw [if_neg (by omega)]
      · intro j hj
        rw [vo j hj, hinv.off j hj, hLget j (cur * B) hc0.1 hc0.2]
        have := sum_step q m cur hmc hcurq (fun jp => jp ≠ ip) (fun jp => absK (R rows j (jp * B)))
          (by
            intro jp h1 h2
            have := hempty j jp 0 h1 h2 hB
            rw [Nat.add_zero] at this
            rw [this, absK_zero])
        rw [this]
        by_cases hci : cur = ip
        · simp [hci]
        · simp [hci]

end inv

end Amgcl.CPRDrs
