import Amgcl.Proofs.LockstepHess
/-!
The serial semantics of the GMRES program of `Model/LockstepGMRES.lean` is the statement-by-statement model
`Solver.GMRES.run` (the one the C01/C05/C15 theorems are about).
-/
namespace Amgcl.Lockstep.GMRES
open Amgcl Amgcl.Solver Amgcl.Lockstep

variable {K : Type} [Add K] [Mul K] [Sub K] [Neg K] [Zero K] [One K] [Div K] [DecidableEq K] [LT K] [DecidableLT K]

/-- Gram–Schmidt reads `v[k]` for `k ≤ j` only -/
theorem mgs_congr (ip : Vec K → Vec K → K) (v v' : FArr (Vec K)) (j : Nat) (H : FArr2 K) (vnew : Vec K)
    (h : ∀ k, k ≤ j → v' k = v k) : mgs ip v' j H vnew = mgs ip v j H vnew := by
  unfold mgs
  apply List.foldl_ext
  intro acc k hk
  have hk' : k ≤ j := by have := List.mem_range.1 hk; omega
  simp only [h k hk']

theorem hessStep_congr (ip : Vec K → Vec K → K) (sqrt : K → K) (v v' : FArr (Vec K)) (j : Nat) (hh : Hess K)
    (vnew : Vec K) (h : ∀ k, k ≤ j → v' k = v k) : hessStep ip sqrt v' j hh vnew = hessStep ip sqrt v j hh vnew := by
  unfold hessStep orth
  rw [mgs_congr ip v v' j hh.H vnew h]

theorem vV_inj : ∀ a b, vV a = vV b → a = b := by
  intro a b h; unfold vV at h; omega

/-- the model states a machine state stands for -/
def decSt (s : St K (GS K)) : Solver.GMRES.St K := ⟨s.scal.iter, s.scal.normR, s.vec vX, workOf s⟩
def decIn (s : St K (GS K)) : Solver.GMRES.In K := ⟨s.scal.j, s.scal.iter, s.scal.innerRes, workOf s⟩

/-- what the statements of a restart cycle leave alone -/
structure Frame (s s' : St K (GS K)) : Prop where
  vf : s'.vec vF = s.vec vF
  vx : s'.vec vX = s.vec vX
  normR : s'.scal.normR = s.scal.normR
  nrhs : s'.scal.nrhs = s.scal.nrhs
  eps : s'.scal.epsT = s.scal.epsT

/-- the state after `preconditioner::spmv(pside, P, A, *v[j], v_new, *r)` -/
def afterP (side : Side) (A : CRS K) (P : Vec K → Vec K) (s : St K (GS K)) : St K (GS K) :=
  let xt := pspmv side P A (s.vec (vV s.scal.j)) (s.vec (vV (s.scal.j + 1))) (s.vec vR)
  { s with vec := upd (upd s.vec vR xt.2) (vV (s.scal.j + 1)) xt.1 }

theorem pspmv_run (side : Side) (ip : Vec K → Vec K → K) (A : CRS K) (P : Vec K → Vec K) (s : St K (GS K)) :
    run A P ip (pspmvProg side) s = afterP side A P s := by
  have h1 : ¬ (3 + (s.scal.j + 1) = 2) := by omega
  cases side <;> simp [pspmvProg, afterP, pspmv, seqs, run, step, R, upd_apply, vV, vR, h1]

theorem afterP_old (side : Side) (A : CRS K) (P : Vec K → Vec K) (s : St K (GS K)) (k : Nat) (hk : k ≤ s.scal.j) :
    (afterP side A P s).vec (vV k) = s.vec (vV k) := by
  have h1 : vV k ≠ vV (s.scal.j + 1) := fun h => by have := vV_inj _ _ h; omega
  have h2 : vV k ≠ vR := by unfold vV vR; omega
  simp only [afterP, upd_apply, if_neg h1, if_neg h2]

theorem step_dec (side : Side) (ip : Vec K → Vec K → K) (sqrt : K → K) (A : CRS K) (P : Vec K → Vec K)
    (s : St K (GS K)) :
    decIn (run A P ip (stepProg side sqrt) s) = Solver.GMRES.step side ip sqrt A P (decIn s) ∧
    Frame s (run A P ip (stepProg side sqrt) s) := by
  have hrun : run A P ip (stepProg side sqrt) s
      = step A P ip (.sset (fun e => { e with j := e.j + 1, iter := e.iter + 1 }))
          (run A P ip (hessProg sqrt vV) (afterP side A P s)) := by
    simp only [stepProg, seqs, run, pspmv_run]
  obtain ⟨k', hk⟩ := hess_run A P ip sqrt vV vV_inj (afterP side A P s)
  rw [hrun, hk]
  have hc := hessStep_congr ip sqrt (decIn s).w.v ⟨fun i => (afterP side A P s).vec (vV i)⟩ s.scal.j s.scal.h
    (pspmv side P A (s.vec (vV s.scal.j)) (s.vec (vV (s.scal.j + 1))) (s.vec vR)).1
    (fun k hk => afterP_old side A P s k hk)
  have e1 : (afterP side A P s).scal = s.scal := rfl
  have e2 : (afterP side A P s).vec (vV (s.scal.j + 1))
      = (pspmv side P A (s.vec (vV s.scal.j)) (s.vec (vV (s.scal.j + 1))) (s.vec vR)).1 := by
    simp only [afterP, upd_apply, if_true]
  have h3 : vX ≠ vV (s.scal.j + 1) := by unfold vX vV; omega
  have h4 : vF ≠ vV (s.scal.j + 1) := by unfold vF vV; omega
  have h5 : vR ≠ vV (s.scal.j + 1) := by unfold vR vV; omega
  refine ⟨?_, ?_⟩
  · have hr : (afterP side A P s).vec vR
        = (pspmv side P A (s.vec (vV s.scal.j)) (s.vec (vV (s.scal.j + 1))) (s.vec vR)).2 := by
      simp only [afterP, upd_apply, if_neg h5, if_true]
    have hv : ∀ X : Vec K, (fun i => if vV i = vV (s.scal.j + 1) then X else (afterP side A P s).vec (vV i))
        = (fun k => if k = s.scal.j + 1 then X else s.vec (vV k)) := by
      intro X
      funext i
      by_cases hi : i = s.scal.j + 1
      · subst hi; simp
      · have h1 : vV i ≠ vV (s.scal.j + 1) := fun h => hi (vV_inj _ _ h)
        have h2 : vV i ≠ vR := by unfold vV vR; omega
        simp only [if_neg h1, if_neg hi, afterP, upd_apply, if_neg h2]
    simp only [e1, e2, hc, step, decIn, workOf, Solver.GMRES.step, upd_apply, if_neg h5, hr, hv, setF]
    rfl
  · have h6 : vF ≠ vR := by decide
    have h7 : vX ≠ vR := by decide
    constructor <;> simp only [step, afterP, upd_apply, if_neg h3, if_neg h4, if_neg h6, if_neg h7]

/-! ### reading `*v[i]` back from an updated register file -/

theorem vV_if_eq (a : Nat) (X : Vec K) (g : Nat → Vec K) :
    (fun i => if vV i = vV a then X else g i) = fun i => if i = a then X else g i := by
  funext i
  by_cases hi : i = a
  · subst hi; simp
  · have h1 : vV i ≠ vV a := fun h => hi (vV_inj _ _ h)
    simp only [if_neg h1, if_neg hi]

theorem vV_if_R (i : Nat) : (vV i = vR) ↔ False := ⟨fun h => by unfold vV vR at h; omega, False.elim⟩
theorem vV_if_X (i : Nat) : (vV i = vX) ↔ False := ⟨fun h => by unfold vV vX at h; omega, False.elim⟩

theorem regs_ne : vF ≠ vR ∧ vX ≠ vR ∧ vF ≠ vX ∧ vR ≠ vX ∧ vF ≠ vV 0 ∧ vX ≠ vV 0 ∧ vR ≠ vV 0 ∧ vV 0 ≠ vR ∧ vV 0 ≠ vX := by
  decide

theorem start_dec (ip : Vec K → Vec K → K) (A : CRS K) (P : Vec K → Vec K) (s : St K (GS K)) :
    decIn (run A P ip startProg s) = Solver.GMRES.cycleStart (decSt s) ∧ Frame s (run A P ip startProg s) := by
  obtain ⟨n1, n2, n3, n4, n5, n6, n7, n8, n9⟩ := regs_ne
  refine ⟨?_, ?_⟩
  · simp only [startProg, seqs, run, step, R, startS, decIn, decSt, workOf, Solver.GMRES.cycleStart, upd_apply,
      if_neg n7, vV_if_eq, setF]
  · constructor <;> simp only [startProg, seqs, run, step, R, startS, upd_apply, if_neg n5, if_neg n6]

theorem upd_dec (side : Side) (ip : Vec K → Vec K → K) (A : CRS K) (P : Vec K → Vec K) (m : St K (GS K))
    (st : Solver.GMRES.St K) (hn : st.normR = m.scal.normR) (hx : st.x = m.vec vX) :
    decSt (run A P ip (updProg side) m) = Solver.GMRES.update side P st (decIn m) ∧
    (run A P ip (updProg side) m).vec vF = m.vec vF ∧
    (run A P ip (updProg side) m).scal.nrhs = m.scal.nrhs ∧
    (run A P ip (updProg side) m).scal.epsT = m.scal.epsT := by
  obtain ⟨n1, n2, n3, n4, n5, n6, n7, n8, n9⟩ := regs_ne
  cases side
  · simp only [updProg, seqs, run, step, R, backS, decIn, decSt, workOf, Solver.GMRES.update, combList, upd_apply,
      if_neg n1, if_neg n2, if_neg n3, if_neg n4, if_true, vV_if_R, vV_if_X, if_false, hn, hx]
    repeat' (first | trivial | rfl | apply And.intro)
  · simp only [updProg, seqs, run, step, R, backS, decIn, decSt, workOf, Solver.GMRES.update, combList, upd_apply,
      if_neg n1, if_neg n2, if_neg n3, if_neg n4, if_neg n5, if_neg n6, if_neg n7, if_neg n8, if_neg n9, if_true,
      vV_if_R, vV_if_X, if_false, vV_if_eq, setF, hn, hx]
    repeat' (first | trivial | rfl | apply And.intro)

theorem head_dec (side : Side) (ip : Vec K → Vec K → K) (sqrt : K → K) (A : CRS K) (P : Vec K → Vec K)
    (s : St K (GS K)) :
    decSt (run A P ip (headProg side sqrt) s) = Solver.GMRES.head side ip sqrt A P (s.vec vF) (decSt s) ∧
    (run A P ip (headProg side sqrt) s).vec vF = s.vec vF ∧
    (run A P ip (headProg side sqrt) s).scal.nrhs = s.scal.nrhs ∧
    (run A P ip (headProg side sqrt) s).scal.epsT = s.scal.epsT := by
  obtain ⟨n1, n2, n3, n4, n5, n6, n7, n8, n9⟩ := regs_ne
  cases side
  · simp only [headProg, seqs, run, step, R, decSt, workOf, Solver.GMRES.head, nrmA, upd_apply,
      if_neg n1, if_neg n2, if_neg n3, if_neg n4, if_neg n5, if_neg n6, if_neg n7, if_neg n8, if_neg n9, if_true,
      vV_if_R, vV_if_X, if_false, vV_if_eq, setF]
    repeat' (first | trivial | rfl | apply And.intro)
  · simp only [headProg, seqs, run, step, R, decSt, workOf, Solver.GMRES.head, nrmA, upd_apply,
      if_neg n1, if_neg n2, if_neg n3, if_neg n4, if_true, vV_if_R, vV_if_X, if_false]
    repeat' (first | trivial | rfl | apply And.intro)

theorem Frame.refl (s : St K (GS K)) : Frame s s := ⟨rfl, rfl, rfl, rfl, rfl⟩

theorem Frame.trans {a b c : St K (GS K)} (h1 : Frame a b) (h2 : Frame b c) : Frame a c :=
  ⟨h2.vf.trans h1.vf, h2.vx.trans h1.vx, h2.normR.trans h1.normR, h2.nrhs.trans h1.nrhs, h2.eps.trans h1.eps⟩

theorem cycle_dec (prm : Solver.GMRES.Params K) (ip : Vec K → Vec K → K) (sqrt : K → K) (A : CRS K)
    (P : Vec K → Vec K) (s : St K (GS K)) :
    decSt (run A P ip (cycleProg prm sqrt) s) = Solver.GMRES.cycle prm ip sqrt A P s.scal.epsT (decSt s) ∧
    (run A P ip (cycleProg prm sqrt) s).vec vF = s.vec vF ∧
    (run A P ip (cycleProg prm sqrt) s).scal.nrhs = s.scal.nrhs ∧
    (run A P ip (cycleProg prm sqrt) s).scal.epsT = s.scal.epsT := by
  have hrun : run A P ip (cycleProg prm sqrt) s = run A P ip (updProg prm.pside)
      (iter (fun m : St K (GS K) => contC prm.maxiter prm.M m.scal) (run A P ip (stepProg prm.pside sqrt)) prm.M
        (run A P ip (stepProg prm.pside sqrt) (run A P ip startProg s))) := by
    simp [cycleProg, seqs, run]
  obtain ⟨hs1, fr1⟩ := start_dec ip A P s
  obtain ⟨hs2, fr2⟩ := step_dec prm.pside ip sqrt A P (run A P ip startProg s)
  have hl := iter_rel (fun (t : Solver.GMRES.In K) (m : St K (GS K)) => decIn m = t ∧ Frame s m)
    (Solver.GMRES.cont prm.maxiter prm.M s.scal.epsT) (fun m : St K (GS K) => contC prm.maxiter prm.M m.scal)
    (Solver.GMRES.step prm.pside ip sqrt A P) (run A P ip (stepProg prm.pside sqrt))
    (fun a b hr => by
      obtain ⟨h1, h2⟩ := hr
      subst h1
      simp only [contC, Solver.GMRES.cont, decIn, h2.eps]
      rfl)
    (fun a b hr _ => by
      obtain ⟨h1, h2⟩ := hr
      subst h1
      obtain ⟨g1, g2⟩ := step_dec prm.pside ip sqrt A P b
      exact ⟨g1, h2.trans g2⟩)
    prm.M _ _ ⟨hs2, fr1.trans fr2⟩
  obtain ⟨hl1, hl2⟩ := hl
  obtain ⟨u1, u2, u3, u4⟩ := upd_dec prm.pside ip A P _ (decSt s) hl2.normR.symm hl2.vx.symm
  rw [hrun, u1, u2, u3, u4, hl1, hs1]
  exact ⟨rfl, hl2.vf, hl2.nrhs, hl2.eps⟩

/-- machine state `s` stands for the model state `st` at the `break` test of the outer loop -/
structure CorrSt (f : Vec K) (nrhs epsT : K) (st : Solver.GMRES.St K) (s : St K (GS K)) : Prop where
  vf : s.vec vF = f
  st : decSt s = st
  eps : s.scal.epsT = epsT
  nrhs : s.scal.nrhs = nrhs

theorem outer_corr (prm : Solver.GMRES.Params K) (ip : Vec K → Vec K → K) (sqrt : K → K) (A : CRS K)
    (P : Vec K → Vec K) (f : Vec K) (nrhs epsT : K) (st : Solver.GMRES.St K) (s : St K (GS K))
    (h : CorrSt f nrhs epsT st s) :
    CorrSt f nrhs epsT (Solver.GMRES.outer prm ip sqrt A P f epsT prm.maxiter
        (Solver.GMRES.head prm.pside ip sqrt A P f st))
      (run A P ip (outerProg prm sqrt) s) := by
  have hrun : run A P ip (outerProg prm sqrt) s
      = iter (fun m : St K (GS K) => goC prm.maxiter m.scal)
          (run A P ip (seqs [cycleProg prm sqrt, headProg prm.pside sqrt])) prm.maxiter
          (run A P ip (headProg prm.pside sqrt) s) := by
    simp [outerProg, seqs, run]
  have hhead : ∀ (st : Solver.GMRES.St K) (s : St K (GS K)), CorrSt f nrhs epsT st s →
      CorrSt f nrhs epsT (Solver.GMRES.head prm.pside ip sqrt A P f st) (run A P ip (headProg prm.pside sqrt) s) := by
    intro st s h
    obtain ⟨g1, g2, g3, g4⟩ := head_dec prm.pside ip sqrt A P s
    exact ⟨g2.trans h.vf, by rw [g1, h.vf, h.st], g4.trans h.eps, g3.trans h.nrhs⟩
  rw [hrun]
  unfold Solver.GMRES.outer
  apply iter_rel (CorrSt f nrhs epsT)
  · intro a b hr
    have h1 : b.scal.iter = a.iter := congrArg Solver.GMRES.St.iter hr.st
    have h2 : b.scal.normR = a.normR := congrArg Solver.GMRES.St.normR hr.st
    simp only [goC, Solver.GMRES.stop, h1, h2, hr.eps]
  · intro a b hr _
    obtain ⟨c1, c2, c3, c4⟩ := cycle_dec prm ip sqrt A P b
    have : CorrSt f nrhs epsT (Solver.GMRES.cycle prm ip sqrt A P epsT a) (run A P ip (cycleProg prm sqrt) b) :=
      ⟨c2.trans hr.vf, by rw [c1, hr.eps, hr.st], c4.trans hr.eps, c3.trans hr.nrhs⟩
    exact hhead _ _ this
  · exact hhead _ _ h

theorem workOf_init (ws : Solver.GMRES.Work K) (f x0 : Vec K) (sc : GS K) (hh : sc.h = ws.h) :
    workOf { vec := (initState ws f x0).vec, scal := sc } = ws := by
  obtain ⟨h, r, v⟩ := ws
  have e : ∀ i, (initState ⟨h, r, v⟩ f x0).vec (vV i) = v i := by
    intro i
    have a1 : vV i ≠ vF := by unfold vV vF; omega
    have a2 : vV i ≠ vX := by unfold vV vX; omega
    have a3 : vV i ≠ vR := by unfold vV vR; omega
    simp only [initState, if_neg a1, if_neg a2, if_neg a3]
    unfold vV; rw [Nat.add_sub_cancel_left]
  have e2 : (initState ⟨h, r, v⟩ f x0).vec vR = r := by
    simp [initState, vR, vF, vX]
  simp only [workOf, e, e2, hh]

theorem main_corr (prm : Solver.GMRES.Params K) (ip : Vec K → Vec K → K) (sqrt : K → K) (A : CRS K)
    (P : Vec K → Vec K) (ws : Solver.GMRES.Work K) (f x0 : Vec K) (s : St K (GS K)) (nrhs : K)
    (hvec : s.vec = (initState ws f x0).vec) (hh : s.scal.h = ws.h) (hnr : s.scal.nrhs = nrhs) :
    CorrSt f nrhs (Solver.maxK (prm.tol * nrhs) prm.abstol)
      (Solver.GMRES.outer prm ip sqrt A P f (Solver.maxK (prm.tol * nrhs) prm.abstol) prm.maxiter
        (Solver.GMRES.init prm ip sqrt A P ws f x0))
      (run A P ip (outerProg prm sqrt)
        (step A P ip (.sset (fun e => { e with epsT := Solver.maxK (prm.tol * e.nrhs) prm.abstol, normR := 0, iter := 0 })) s)) := by
  unfold Solver.GMRES.init
  apply outer_corr
  constructor
  · simp [step, hvec, initState, vF]
  · simp only [decSt, step, hvec]
    rw [workOf_init ws f x0 _ (by exact hh)]
    simp [initState, vX, vF]
  · simp [step, hnr]
  · simp [step, hnr]

/-- **the serial semantics of the GMRES program is `Solver.GMRES.run`**: the same `(iters, residual)`, the same `x`,
the same work arrays (`H, s, cs, sn`, `r`, all `v[i]`) -/
theorem prog_eq_run (prm : Solver.GMRES.Params K) (ip : Vec K → Vec K → K) (sqrt : K → K) (eps : K) (A : CRS K)
    (P : Vec K → Vec K) (ws : Solver.GMRES.Work K) (f x0 : Vec K) :
    Solver.GMRES.run prm ip sqrt eps A P ws f x0
      = (.ok (outOf (run A P ip (prog prm sqrt eps) (initState ws f x0)).scal),
         (run A P ip (prog prm sqrt eps) (initState ws f x0)).vec vX,
         workOf (run A P ip (prog prm sqrt eps) (initState ws f x0))) := by
  have hs1 : step A P ip (.ip (fun e w => { e with nrhs := Solver.absK (sqrt w) }) (R vF) (R vF)) (initState ws f x0)
      = { vec := (initState ws f x0).vec, scal := { (initState ws f x0).scal with nrhs := nrmA ip sqrt f } } := by
    simp [step, R, nrmA, initState, vF]
  unfold Solver.GMRES.run prologueA
  simp only [prog, frame, run, hs1]
  by_cases hlt : nrmA ip sqrt f < eps
  · simp only [hlt, decide_true, if_true]
    cases hns : prm.nsSearch
    · simp only [Bool.false_eq_true, if_false, seqs, run, step, R, outOf]
      rw [show workOf _ = workOf { vec := (initState ws f x0).vec, scal := _ } from by
        simp only [workOf, upd_apply, vV_if_X, if_false]; rfl]
      rw [workOf_init ws f x0 _ (by rfl)]
      simp [upd_apply, initState, vX, vF]
    · simp only [if_true, seqs, run]
      obtain ⟨_, hst, _, hn⟩ := main_corr prm ip sqrt A P ws f x0
        (step A P ip (.sset (fun e => { e with nrhs := 1 }))
          { vec := (initState ws f x0).vec, scal := { (initState ws f x0).scal with nrhs := nrmA ip sqrt f } }) 1
        rfl rfl rfl
      generalize run A P ip (outerProg prm sqrt) _ = X at hst hn ⊢
      rw [← hst]
      simp only [step, outOf, decSt, workOf, hn]
  · simp only [hlt, decide_false, Bool.false_eq_true, if_false, seqs, run]
    obtain ⟨_, hst, _, hn⟩ := main_corr prm ip sqrt A P ws f x0
        { vec := (initState ws f x0).vec, scal := { (initState ws f x0).scal with nrhs := nrmA ip sqrt f } }
        (nrmA ip sqrt f) rfl rfl rfl
    generalize run A P ip (outerProg prm sqrt) _ = X at hst hn ⊢
    rw [← hst]
    simp only [step, outOf, decSt, workOf, hn]

end Amgcl.Lockstep.GMRES
