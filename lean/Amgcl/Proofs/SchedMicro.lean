import Amgcl.Proofs.SchedKernels
import Amgcl.Model.ScheduleMicro
/-!
DRF ⇒ row granularity is adequate: inside a level whose rows are pairwise independent, every interleaving of the
individual loads and stores ends in the state of the row-by-row execution (`micro_eq_rows`); with the barrier,
every load/store-granular execution of the whole kernel equals the serial loop (`micro_exec_eq_serial`).
-/
namespace Amgcl.Sched

section
set_option linter.unusedSectionVars false
variable {K : Type} [Zero K]

theorem remaining_append (a b : List (MThread K)) : remaining (a ++ b) = remaining a ++ remaining b := by
  simp [remaining]
theorem remaining_cons (a : MThread K) (b : List (MThread K)) : remaining (a :: b) = a.rem ++ remaining b := by
  simp [remaining]

/-- value of location `loc` after the level -/
def target (P : RowProg K) (rows : List Nat) (x0 : Vec K) (loc : Nat) : K :=
  if loc ∈ rows then P.result loc ((P.loads loc).map (x0.getD · 0)) else x0.getD loc 0

structure MInv (P : RowProg K) (rows : List Nat) (x0 : Vec K) (s : Vec K × List (MThread K)) : Prop where
  size : s.1.size = x0.size
  nodup : (remaining s.2).Nodup
  sub : ∀ i ∈ remaining s.2, i ∈ rows
  fresh : ∀ i ∈ remaining s.2, ∀ c, (c ∈ P.loads i ∨ c = i) → s.1.getD c 0 = x0.getD c 0
  done : ∀ loc, loc ∉ remaining s.2 → s.1.getD loc 0 = target P rows x0 loc
  cur : ∀ th ∈ s.2, ∀ i cs vs, th.cur = some (i, cs, vs) →
      ∃ pre, P.loads i = pre ++ cs ∧ vs = pre.map (x0.getD · 0)

theorem MInv.step (P : RowProg K) (rows : List Nat) (x0 : Vec K) (hN : ∀ i ∈ rows, i < x0.size)
    (hind : Indep P rows) {s s' : Vec K × List (MThread K)} (h : MStep P s s') (inv : MInv P rows x0 s) :
    MInv P rows x0 s' := by
  cases h with
  | start x pre post i todo =>
    have hrem : remaining (pre ++ (⟨todo, some (i, P.loads i, [])⟩ : MThread K) :: post)
        = remaining (pre ++ (⟨i :: todo, none⟩ : MThread K) :: post) := by
      simp [remaining_append, remaining_cons, MThread.rem]
    refine ⟨inv.size, by rw [hrem]; exact inv.nodup, by rw [hrem]; exact inv.sub, by rw [hrem]; exact inv.fresh,
      by rw [hrem]; exact inv.done, ?_⟩
    intro th hth j cs vs hcur
    rcases List.mem_append.mp hth with hm | hm
    · exact inv.cur th (List.mem_append_left _ hm) j cs vs hcur
    · rcases List.mem_cons.mp hm with e | hm
      · subst e
        simp only [Option.some.injEq, Prod.mk.injEq] at hcur
        obtain ⟨rfl, rfl, rfl⟩ := hcur
        exact ⟨[], by simp, by simp⟩
      · exact inv.cur th (List.mem_append_right _ (List.mem_cons_of_mem _ hm)) j cs vs hcur
  | load x pre post i c cs vs todo =>
    have hrem : remaining (pre ++ (⟨todo, some (i, cs, vs ++ [x.getD c 0])⟩ : MThread K) :: post)
        = remaining (pre ++ (⟨todo, some (i, c :: cs, vs)⟩ : MThread K) :: post) := by
      simp [remaining_append, remaining_cons, MThread.rem]
    have hi : i ∈ remaining (pre ++ (⟨todo, some (i, c :: cs, vs)⟩ : MThread K) :: post) := by
      simp [remaining_append, remaining_cons, MThread.rem]
    refine ⟨inv.size, by rw [hrem]; exact inv.nodup, by rw [hrem]; exact inv.sub, by rw [hrem]; exact inv.fresh,
      by rw [hrem]; exact inv.done, ?_⟩
    intro th hth j cs' vs' hcur
    rcases List.mem_append.mp hth with hm | hm
    · exact inv.cur th (List.mem_append_left _ hm) j cs' vs' hcur
    · rcases List.mem_cons.mp hm with e | hm
      · subst e
        simp only [Option.some.injEq, Prod.mk.injEq] at hcur
        obtain ⟨rfl, rfl, rfl⟩ := hcur
        obtain ⟨p, hp1, hp2⟩ := inv.cur ⟨todo, some (i, c :: cs, vs)⟩ (by simp) i (c :: cs) vs rfl
        refine ⟨p ++ [c], by rw [hp1]; simp, ?_⟩
        have hc : c ∈ P.loads i := by rw [hp1]; simp
        have := inv.fresh i hi c (Or.inl hc)
        simp only at this
        rw [hp2, List.map_append, this]
        rfl
      · exact inv.cur th (List.mem_append_right _ (List.mem_cons_of_mem _ hm)) j cs' vs' hcur
  | store x pre post i vs todo =>
    have hold : remaining (pre ++ (⟨todo, some (i, [], vs)⟩ : MThread K) :: post)
        = remaining pre ++ (i :: (todo ++ remaining post)) := by
      simp [remaining_append, remaining_cons, MThread.rem]
    have hnew : remaining (pre ++ (⟨todo, none⟩ : MThread K) :: post) = remaining pre ++ (todo ++ remaining post) := by
      simp [remaining_append, remaining_cons, MThread.rem]
    have hnd := inv.nodup
    simp only at hnd
    rw [hold] at hnd
    have hsubl : (remaining pre ++ (todo ++ remaining post)).Sublist (remaining pre ++ (i :: (todo ++ remaining post))) :=
      (List.Sublist.refl _).append (List.sublist_cons_self _ _)
    have hi_notin : i ∉ remaining pre ++ (todo ++ remaining post) := by
      have := (List.perm_middle.nodup_iff).mp hnd
      exact (List.nodup_cons.mp this).1
    have hi_old : i ∈ remaining (pre ++ (⟨todo, some (i, [], vs)⟩ : MThread K) :: post) := by rw [hold]; simp
    have hirows : i ∈ rows := inv.sub i hi_old
    have hisz : i < x.size := by have := inv.size; simp only at this; rw [this]; exact hN i hirows
    obtain ⟨p, hp1, hp2⟩ := inv.cur ⟨todo, some (i, [], vs)⟩ (by simp) i [] vs rfl
    simp only [List.append_nil] at hp1
    refine ⟨by simpa using inv.size, by simp only; rw [hnew]; exact hnd.sublist hsubl, ?_, ?_, ?_, ?_⟩
    · intro j hj
      simp only at hj; rw [hnew] at hj
      exact inv.sub j (by simp only; rw [hold]; exact hsubl.subset hj)
    · intro j hj c hc
      simp only at hj ⊢; rw [hnew] at hj
      have hjold : j ∈ remaining (pre ++ (⟨todo, some (i, [], vs)⟩ : MThread K) :: post) := by
        rw [hold]; exact hsubl.subset hj
      have hji : j ≠ i := fun h => hi_notin (h ▸ hj)
      have hci : c ≠ i := by
        rcases hc with hc | hc
        · intro h; subst h
          exact hind j (inv.sub j hjold) c hirows hji hc
        · rw [hc]; exact hji
      rw [getD_set_ne _ _ _ _ _ hci]
      exact inv.fresh j hjold c hc
    · intro loc hloc
      simp only at hloc ⊢; rw [hnew] at hloc
      by_cases hl : loc = i
      · subst hl
        rw [getD_set_eq _ _ _ _ hisz]
        unfold target
        rw [if_pos hirows, hp2, hp1]
      · rw [getD_set_ne _ _ _ _ _ hl]
        apply inv.done loc
        simp only; rw [hold]
        intro h
        rcases List.mem_append.mp h with h | h
        · exact hloc (List.mem_append_left _ h)
        · rcases List.mem_cons.mp h with h | h
          · exact hl h
          · exact hloc (List.mem_append_right _ h)
    · intro th hth j cs' vs' hcur
      rcases List.mem_append.mp hth with hm | hm
      · exact inv.cur th (List.mem_append_left _ hm) j cs' vs' hcur
      · rcases List.mem_cons.mp hm with e | hm
        · subst e; simp at hcur
        · exact inv.cur th (List.mem_append_right _ (List.mem_cons_of_mem _ hm)) j cs' vs' hcur

theorem MInv.steps (P : RowProg K) (rows : List Nat) (x0 : Vec K) (hN : ∀ i ∈ rows, i < x0.size)
    (hind : Indep P rows) {s s' : Vec K × List (MThread K)} (h : MSteps P s s') (inv : MInv P rows x0 s) :
    MInv P rows x0 s' := by
  induction h with
  | refl => exact inv
  | step h1 _ ih => exact ih (MInv.step P rows x0 hN hind h1 inv)

theorem remaining_init (ls : List (List Nat)) : remaining (mInit (K := K) ls) = ls.flatten := by
  induction ls with
  | nil => rfl
  | cons a t ih =>
    have : mInit (K := K) (a :: t) = ⟨a, none⟩ :: mInit t := rfl
    rw [this, remaining_cons, ih]
    simp [MThread.rem]

theorem remaining_final (ths : List (MThread K)) (h : MFinal ths) : remaining ths = [] := by
  induction ths with
  | nil => rfl
  | cons a t ih =>
    rw [remaining_cons, ih (fun th hth => h th (List.mem_cons_of_mem _ hth))]
    obtain ⟨h1, h2⟩ := h a List.mem_cons_self
    simp [MThread.rem, h1, h2]

/-- row-granular sequential execution of independent rows -/
theorem seq_target (P : RowProg K) (upd : Vec K → Nat → Vec K)
    (hupd : ∀ x i, upd x i = x.setIfInBounds i (P.result i ((P.loads i).map (x.getD · 0))))
    (rows : List Nat) (x : Vec K) (hN : ∀ i ∈ rows, i < x.size) (hnd : rows.Nodup) (hind : Indep P rows) :
    (rows.foldl upd x).size = x.size ∧ ∀ loc, (rows.foldl upd x).getD loc 0 = target P rows x loc := by
  induction rows generalizing x with
  | nil => exact ⟨rfl, fun loc => by simp [target]⟩
  | cons r t ih =>
    simp only [List.foldl_cons]
    obtain ⟨hr, hnd'⟩ := List.nodup_cons.mp hnd
    have hx1 : (upd x r).size = x.size := by rw [hupd]; simp
    have hind' : Indep P t := fun i hi j hj => hind i (List.mem_cons_of_mem _ hi) j (List.mem_cons_of_mem _ hj)
    obtain ⟨h1, h2⟩ := ih (upd x r) (fun i hi => by rw [hx1]; exact hN i (List.mem_cons_of_mem _ hi)) hnd' hind'
    refine ⟨by rw [h1, hx1], ?_⟩
    intro loc
    rw [h2 loc]
    unfold target
    by_cases hl : loc ∈ t
    · have hlr : loc ≠ r := fun h => hr (h ▸ hl)
      rw [if_pos hl, if_pos (List.mem_cons_of_mem _ hl)]
      congr 1
      apply List.map_congr_left
      intro c hc
      have hcr : c ≠ r := by
        intro h; subst h
        exact hind loc (List.mem_cons_of_mem _ hl) c List.mem_cons_self hlr hc
      rw [hupd]; exact getD_set_ne _ _ _ _ _ hcr
    · rw [if_neg hl]
      by_cases hlr : loc = r
      · subst hlr
        rw [if_pos List.mem_cons_self, hupd, getD_set_eq _ _ _ _ (hN loc List.mem_cons_self)]
      · rw [if_neg (by simp [hl, hlr]), hupd]; exact getD_set_ne _ _ _ _ _ hlr

/-- **DRF ⇒ row granularity is adequate**: inside one level, every interleaving of the individual loads and stores
of the threads ends in the state that the row-by-row execution in thread order produces. -/
theorem micro_eq_rows (P : RowProg K) (upd : Vec K → Nat → Vec K)
    (hupd : ∀ x i, upd x i = x.setIfInBounds i (P.result i ((P.loads i).map (x.getD · 0))))
    (ls : List (List Nat)) (x0 : Vec K) (hN : ∀ i ∈ ls.flatten, i < x0.size) (hnd : ls.flatten.Nodup)
    (hind : Indep P ls.flatten) (x' : Vec K) (ths' : List (MThread K))
    (hrun : MSteps P (x0, mInit ls) (x', ths')) (hfin : MFinal ths') :
    x' = ls.flatten.foldl upd x0 := by
  have inv0 : MInv P ls.flatten x0 (x0, mInit ls) := by
    refine ⟨rfl, by simp only; rw [remaining_init]; exact hnd, by simp only; rw [remaining_init]; exact fun i h => h,
      fun _ _ _ _ => rfl, ?_, ?_⟩
    · intro loc hloc
      simp only at hloc; rw [remaining_init] at hloc
      simp [target, hloc]
    · intro th hth i cs vs hcur
      simp only [mInit, List.mem_map] at hth
      obtain ⟨l, _, rfl⟩ := hth
      simp at hcur
  have inv := MInv.steps P ls.flatten x0 hN hind hrun inv0
  obtain ⟨hs1, hs2⟩ := seq_target P upd hupd ls.flatten x0 hN hnd hind
  apply Array.ext
  · rw [hs1]; exact inv.size
  · intro j h1 h2
    have hd := inv.done j (by simp only; rw [remaining_final ths' hfin]; simp)
    have e := hd.trans (hs2 j).symm
    simpa [Array.getD, h1, h2] using e
end

section
set_option linter.unusedSectionVars false
variable {K : Type} [Zero K]

theorem Interleave.cons_nil {α : Type} {ls : List (List α)} {σ : List α} (h : Interleave ls σ) :
    Interleave ([] :: ls) σ := by
  induction h with
  | done hall => exact Interleave.done (fun l hl => by
      rcases List.mem_cons.mp hl with e | e
      · exact e
      · exact hall l e)
  | @step pre post l a σ _ ih => exact Interleave.step (pre := [] :: pre) ih

theorem Interleave.cons_list {α : Type} (l : List α) {ls : List (List α)} {σ : List α} (h : Interleave ls σ) :
    Interleave (l :: ls) (l ++ σ) := by
  induction l with
  | nil => exact h.cons_nil
  | cons a t ih => exact Interleave.step (pre := []) ih

/-- thread order is an interleaving -/
theorem Interleave.flatten {α : Type} (ls : List (List α)) : Interleave ls ls.flatten := by
  induction ls with
  | nil => exact Interleave.done (fun _ h => by cases h)
  | cons l t ih => rw [List.flatten_cons]; exact ih.cons_list l

theorem LevelwiseExec.threadOrder (tk : List (List (List Nat))) (levs : List Nat) :
    LevelwiseExec tk levs (levs.flatMap fun lev => (levelTasks tk lev).flatten) := by
  induction levs with
  | nil => exact LevelwiseExec.nil
  | cons lev t ih => rw [List.flatMap_cons]; exact LevelwiseExec.cons (Interleave.flatten _) ih

theorem foldl_upd_size (upd : Vec K → Nat → Vec K) (hsz : ∀ x i, (upd x i).size = x.size) (l : List Nat) (x : Vec K) :
    (l.foldl upd x).size = x.size := by
  induction l generalizing x with
  | nil => rfl
  | cons a t ih => simp only [List.foldl_cons]; rw [ih, hsz]

/-- **Every execution at load/store granularity that respects the barriers yields the serial loop.** -/
theorem micro_exec_eq_serial (P : RowProg K) (upd : Vec K → Nat → Vec K) (reads : Nat → List Nat)
    (hupd : ∀ x i, upd x i = x.setIfInBounds i (P.result i ((P.loads i).map (x.getD · 0))))
    (hloads : ∀ i, ∀ c ∈ P.loads i, c = i ∨ c ∈ reads i)
    (hloc : LocalUpd upd reads) (fwd : Bool) (level : Array Nat) (hdep : RespectsDeps reads fwd level)
    (nt : Nat) (hnt : 0 < nt) (sk : Skeleton) (hsk : sk.levelBarrier = true)
    (x x'' : Vec K) (hx : x.size = level.size)
    (hrun : LevelwiseMicro P (tasks level nt) (List.range (nlev level)) x x'') :
    x'' = (rowOrder fwd level.size).foldl upd x := by
  have hsz : ∀ x i, (upd x i).size = x.size := fun x i => by rw [hupd]; simp
  -- every level, executed at load/store granularity, equals its row-by-row execution in thread order
  have key : ∀ (levs : List Nat) (x x'' : Vec K), x.size = level.size → (∀ lev ∈ levs, lev < nlev level) →
      LevelwiseMicro P (tasks level nt) levs x x'' →
      x'' = (levs.flatMap fun lev => (levelTasks (tasks level nt) lev).flatten).foldl upd x := by
    intro levs x x'' hx hlev h
    induction h with
    | nil x => rfl
    | @cons lev levs x x' x'' ths' hsteps hfin _ ih =>
      have hl : lev < nlev level := hlev lev List.mem_cons_self
      have hflat := levelTasks_flatten level nt hnt lev hl
      have hmem : ∀ i ∈ (levelTasks (tasks level nt) lev).flatten, i < level.size ∧ level.getD i 0 = lev := by
        intro i hi; rw [hflat] at hi; exact (mem_levelRows level lev i).mp hi
      have hx' : x' = (levelTasks (tasks level nt) lev).flatten.foldl upd x := by
        apply micro_eq_rows P upd hupd _ x _ _ _ x' ths' hsteps hfin
        · intro i hi; rw [hx]; exact (hmem i hi).1
        · rw [hflat]; exact levelRows_nodup level lev
        · intro i hi j hj hij hj'
          rcases hloads i j hj' with e | e
          · exact hij e.symm
          · have := hdep i (hmem i hi).1 j e (hmem j hj).1 (Ne.symm hij)
            have h1 := (hmem i hi).2
            have h2 := (hmem j hj).2
            rcases before_total fwd j i (Ne.symm hij) with hb | hb
            · have := this.1 hb; omega
            · have := this.2 hb; omega
      rw [List.flatMap_cons, List.foldl_append, ← hx']
      apply ih
      · rw [hx', foldl_upd_size upd hsz, hx]
      · exact fun l hl' => hlev l (List.mem_cons_of_mem _ hl')
  rw [key _ x x'' hx (fun lev h => List.mem_range.mp h) hrun]
  apply exec_eq_serial upd reads hloc fwd level hdep nt hnt sk hsk
  unfold Exec
  rw [if_pos hsk]
  exact LevelwiseExec.threadOrder _ _

end

/-! ### the two kernels at load/store granularity -/
section progs
set_option linter.unusedSectionVars false
variable {K : Type} [Add K] [Mul K] [Sub K] [Zero K] [One K] [Div K]

theorem gsProg_upd (A : CRS K) (rhs : Vec K) (x : Vec K) (i : Nat) :
    gsRow A rhs x i = x.setIfInBounds i ((gsProg A rhs).result i (((gsProg A rhs).loads i).map (x.getD · 0))) := by
  have h : ∀ (row : Row K) (DX : K × K),
      (row.foldl (fun (st : (K × K) × List K) cv =>
        if cv.1 = i then ((cv.2, st.1.2), st.2) else ((st.1.1, st.1.2 - cv.2 * st.2.headD 0), st.2.tail))
        (DX, ((row.map Prod.fst).filter (fun c => c != i)).map (x.getD · 0))).1
      = row.foldl (fun (DX : K × K) cv => if cv.1 = i then (cv.2, DX.2) else (DX.1, DX.2 - cv.2 * x.getD cv.1 0)) DX := by
    intro row
    induction row with
    | nil => intro DX; rfl
    | cons cv t ih =>
      intro DX
      simp only [List.foldl_cons, List.map_cons]
      by_cases hc : cv.1 = i
      · have : (cv.1 != i) = false := by simp [hc]
        simp only [List.filter_cons, hc, if_true]
        simpa [hc] using ih (cv.2, DX.2)
      · have : (cv.1 != i) = true := by simp [hc]
        simp only [List.filter_cons, this, if_true, hc, if_false, List.map_cons, List.headD_cons, List.tail_cons]
        exact ih _
  unfold gsRow gsVal gsScan gsProg
  simp only [h]

theorem iluProg_upd (lower : Bool) (A : CRS K) (D : Vec K) (x : Vec K) (i : Nat) :
    iluRow lower A D x i
      = x.setIfInBounds i ((iluProg lower A D).result i (((iluProg lower A D).loads i).map (x.getD · 0))) := by
  unfold iluRow iluVal iluProg rowDot
  simp only [List.map_append, List.map_map, List.map_cons, List.map_nil]
  have h1 : ∀ (row : Row K) (rest : List K) (s : K),
      (row.zip (row.map ((fun c => x.getD c 0) ∘ Prod.fst) ++ rest)).foldl (fun s cvv => s + cvv.1.2 * cvv.2) s
        = row.foldl (fun s cv => s + cv.2 * x.getD cv.1 0) s := by
    intro row rest
    induction row with
    | nil => intro s; simp
    | cons cv t ih => intro s; simp only [List.map_cons, List.cons_append, List.zip_cons_cons, List.foldl_cons]; exact ih _
  have h2 : ((List.map ((fun c => x.getD c 0) ∘ Prod.fst) (A.row i) ++ [x.getD i 0]).drop (A.row i).length).headD 0
      = x.getD i 0 := by
    rw [List.drop_append_of_le_length (by simp)]
    simp
  rw [h1, h2]

end progs
end Amgcl.Sched
