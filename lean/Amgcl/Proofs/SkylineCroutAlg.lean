import Mathlib.Algebra.BigOperators.Group.Finset.Basic
import Mathlib.Algebra.BigOperators.Intervals
import Mathlib.Algebra.BigOperators.Ring.Finset
import Mathlib.Algebra.Field.Basic
import Mathlib.Tactic.Ring
import Mathlib.Tactic.FieldSimp
import Mathlib.Tactic.Linarith
/-!
Algebra of Crout's factorisation on index functions (no arrays).  `E` is the matrix being factorised, `ld i j` (`j < i`)
the strictly lower part of `L`, `ud i j` (`i < j`) the strictly upper part of the unit upper `U`, `dd i` the
**inverted** pivots.  `red ld ud dd i j` is the `(i,j)` entry of `L̃·Ũ`.
-/
namespace Amgcl
open Finset
variable {K : Type} [Field K]

/-- entry `(i,j)` of the product of the lower factor (pivots `1/dd` on the diagonal) and the unit upper factor -/
def croutRed (ld ud : Nat → Nat → K) (dd : Nat → K) (i j : Nat) : K :=
  ∑ m ∈ range (min i j), ld i m * ud m j + (if i < j then (dd i)⁻¹ * ud i j else if i = j then (dd i)⁻¹ else ld i j)

/-- the invariant of the main loop: indices `< c` are final, everything else is still raw -/
structure CroutInv (n c : Nat) (E ld ud : Nat → Nat → K) (dd : Nat → K) : Prop where
  done : ∀ i j, i < c → j < c → E i j = croutRed ld ud dd i j
  rawL : ∀ i j, i < n → j < i → c ≤ i → ld i j = E i j
  rawU : ∀ i j, j < n → i < j → c ≤ j → ud i j = E i j
  rawD : ∀ i, i < n → c ≤ i → dd i = E i i
  piv : ∀ i, i < c → dd i ≠ 0

theorem croutInv_init (n : Nat) (E ld ud : Nat → Nat → K) (dd : Nat → K) (h0 : E 0 0 ≠ 0)
    (hL : ∀ i j, i < n → j < i → ld i j = E i j) (hU : ∀ i j, j < n → i < j → ud i j = E i j)
    (hD : ∀ i, i < n → 1 ≤ i → dd i = E i i) (hD0 : dd 0 = 1 / E 0 0) : CroutInv n 1 E ld ud dd := by
  refine ⟨?_, fun i j hi h _ => hL i j hi h, fun i j hj h _ => hU i j hj h, hD, ?_⟩
  · intro i j hi hj
    have : i = 0 := by omega
    have : j = 0 := by omega
    subst_vars
    unfold croutRed
    simp only [Nat.min_self, range_zero, sum_empty, zero_add, lt_irrefl, if_false, if_true]
    rw [hD0]; field_simp
  · intro i hi
    have : i = 0 := by omega
    subst this
    rw [hD0]; exact one_div_ne_zero h0

/-- one iteration of Crout's loop -/
theorem croutInv_step {n c : Nat} {E ld ud ld' ud' : Nat → Nat → K} {dd dd' : Nat → K} (hc : c < n)
    (h : CroutInv n c E ld ud dd)
    (hU : ∀ i, i < c → ud' i c = dd i * (ud i c - ∑ j ∈ range i, ld i j * ud' j c))
    (hL : ∀ j, j < c → ld' c j = ld c j - ∑ m ∈ range j, ld' c m * ud' m j)
    (hpiv : dd c - ∑ m ∈ range c, ld' c m * ud' m c ≠ 0)
    (hD : dd' c = 1 / (dd c - ∑ m ∈ range c, ld' c m * ud' m c))
    (fU : ∀ i j, j < n → j ≠ c → ud' i j = ud i j) (fL : ∀ i j, i < n → i ≠ c → ld' i j = ld i j)
    (fD : ∀ i, i ≠ c → dd' i = dd i) :
    CroutInv n (c + 1) E ld' ud' dd' := by
  refine ⟨?_, ?_, ?_, ?_, ?_⟩
  · intro i j hi hj
    unfold croutRed
    by_cases hic : i = c
    · subst hic
      by_cases hjc : j = i
      · subst hjc
        -- diagonal entry
        simp only [Nat.min_self, lt_irrefl, if_false, if_true]
        rw [hD, one_div, inv_inv, ← h.rawD j hc (le_refl j)]
        ring
      · have hjlt : j < i := by omega
        have e : min i j = j := by omega
        rw [e, if_neg (by omega), if_neg (by omega), hL j hjlt, ← h.rawL i j hc hjlt (le_refl i)]
        ring
    · have hilt : i < c := by omega
      by_cases hjc : j = c
      · subst hjc
        have e : min i j = i := by omega
        rw [e, if_pos hilt, fD i hic, hU i hilt, ← h.rawU i j hc hilt (le_refl j)]
        have hs : ∑ m ∈ range i, ld' i m * ud' m j = ∑ m ∈ range i, ld i m * ud' m j := by
          apply sum_congr rfl; intro m _; rw [fL i m (by omega) hic]
        rw [hs]
        have := h.piv i hilt
        field_simp
        ring
      · have hjlt : j < c := by omega
        rw [h.done i j hilt hjlt]
        unfold croutRed
        have hs : ∑ m ∈ range (min i j), ld' i m * ud' m j = ∑ m ∈ range (min i j), ld i m * ud m j := by
          apply sum_congr rfl; intro m _; rw [fL i m (by omega) hic, fU m j (by omega) hjc]
        rw [hs, fD i hic, fU i j (by omega) hjc, fL i j (by omega) hic]
  · intro i j hi hji hci
    rw [fL i j hi (by omega)]; exact h.rawL i j hi hji (by omega)
  · intro i j hj hij hcj
    rw [fU i j hj (by omega)]; exact h.rawU i j hj hij (by omega)
  · intro i hi hci
    rw [fD i (by omega)]; exact h.rawD i hi (by omega)
  · intro i hi
    by_cases hic : i = c
    · subst hic; rw [hD]; exact one_div_ne_zero hpiv
    · rw [fD i hic]; exact h.piv i (by omega)

end Amgcl
