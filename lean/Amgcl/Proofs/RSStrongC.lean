import Amgcl.Proofs.RSTransfer
/-!
`cfsplit`: what the marks mean.  A point marked `F` by `connect` (no negative coupling) stays `F`; every other `F`
point was created as a strong neighbour of a `C` point and that point stays `C` — so every `F` point that takes part
in the interpolation has a strong `C` neighbour.  Independent of the bucket structure: it holds for whatever order the
main loop visits the variables in.
-/
namespace Amgcl
namespace RS

/-- the transposed pattern only lists rows that flag the column -/
def SpOK (G : SGraph) (sptr scol : Array Nat) : Prop :=
  ∀ i, ∀ c ∈ spRow sptr scol i, ∃ cs ∈ G.row c, cs.2 = true ∧ cs.1 = i

/-- meaning of the marks relative to the marks `cf0` left by `connect` -/
structure MarksOK (G : SGraph) (cf0 : Array CF) (s : Split) : Prop where
  sz : s.cf.size = G.size
  keepF : ∀ c, cf0.getD c CF.U = CF.F → s.M c = CF.F
  strongC : ∀ c, s.M c = CF.F → cf0.getD c CF.U = CF.F ∨ ∃ cs ∈ G.row c, cs.2 = true ∧ s.M cs.1 = CF.C

theorem incLambda_cf (n : Nat) (s : Split) (cs : Nat × Bool) : (incLambda n s cs).cf = s.cf := by
  rw [incLambda_eq]; split <;> rfl

theorem decLambda_cf (s : Split) (cs : Nat × Bool) : (decLambda s cs).cf = s.cf := by
  rw [decLambda_eq]; split <;> rfl

theorem foldl_incLambda_cf (n : Nat) (r : List (Nat × Bool)) (s : Split) : (r.foldl (incLambda n) s).cf = s.cf := by
  induction r generalizing s with
  | nil => rfl
  | cons cs t ih => rw [List.foldl_cons, ih, incLambda_cf]

theorem foldl_decLambda_cf (r : List (Nat × Bool)) (s : Split) : (r.foldl decLambda s).cf = s.cf := by
  induction r generalizing s with
  | nil => rfl
  | cons cs t ih => rw [List.foldl_cons, ih, decLambda_cf]

/-- marks after an update of the `cf` array only: same `M` means same `MarksOK` -/
theorem MarksOK.of_cf_eq {G : SGraph} {cf0 : Array CF} {s s' : Split} (h : MarksOK G cf0 s) (e : s'.cf = s.cf) :
    MarksOK G cf0 s' := by
  have hM : ∀ x, s'.M x = s.M x := fun x => by unfold Split.M; rw [e]
  exact ⟨by rw [e]; exact h.sz, fun c hc => by rw [hM]; exact h.keepF c hc, fun c hc => by
    rw [hM] at hc
    rcases h.strongC c hc with h1 | ⟨cs, h1, h2, h3⟩
    · exact Or.inl h1
    · exact Or.inr ⟨cs, h1, h2, by rw [hM]; exact h3⟩⟩

theorem makeF_marks {G : SGraph} {cf0 : Array CF} {s : Split} (h : MarksOK G cf0 s) (i c : Nat)
    (hi : s.M i = CF.C) (hw : ∃ cs ∈ G.row c, cs.2 = true ∧ cs.1 = i) :
    MarksOK G cf0 (makeF G s c) ∧ (makeF G s c).M i = CF.C := by
  unfold makeF
  by_cases hU : s.cf.getD c CF.U ≠ CF.U
  · rw [if_pos hU]; exact ⟨h, hi⟩
  · rw [if_neg hU]
    have hU' : s.M c = CF.U := by
      unfold Split.M; by_contra hne; exact hU hne
    have hM : ∀ x, ((G.row c).foldl (incLambda G.size) { s with cf := s.cf.setIfInBounds c CF.F }).M x
        = if c = x ∧ c < s.cf.size then CF.F else s.M x := by
      intro x
      unfold Split.M
      rw [foldl_incLambda_cf]
      exact getD_set s.cf c x CF.F CF.U
    have hic : c ≠ i := by
      intro e; rw [e] at hU'; rw [hU'] at hi; cases hi
    refine ⟨⟨by rw [foldl_incLambda_cf]; simp only [Array.size_setIfInBounds]; exact h.sz,
      fun x hx => ?_, fun x hx => ?_⟩, ?_⟩
    · rw [hM x]; split
      · rfl
      · exact h.keepF x hx
    · rw [hM x] at hx
      by_cases hcx : c = x ∧ c < s.cf.size
      · obtain ⟨cs, h1, h2, h3⟩ := hw
        refine Or.inr ⟨cs, by rw [← hcx.1]; exact h1, h2, ?_⟩
        rw [hM cs.1, h3, if_neg (fun e => hic e.1)]; exact hi
      · rw [if_neg hcx] at hx
        rcases h.strongC x hx with h1 | ⟨cs, h1, h2, h3⟩
        · exact Or.inl h1
        · refine Or.inr ⟨cs, h1, h2, ?_⟩
          rw [hM cs.1]
          have : ¬ (c = cs.1 ∧ c < s.cf.size) := by
            intro e; rw [← e.1, hU'] at h3; cases h3
          rw [if_neg this]; exact h3
    · rw [hM i, if_neg (fun e => hic e.1)]; exact hi

theorem foldl_makeF_marks {G : SGraph} {cf0 : Array CF} (i : Nat) (r : List Nat)
    (hr : ∀ c ∈ r, ∃ cs ∈ G.row c, cs.2 = true ∧ cs.1 = i) {s : Split} (h : MarksOK G cf0 s) (hi : s.M i = CF.C) :
    MarksOK G cf0 (r.foldl (makeF G) s) := by
  induction r generalizing s with
  | nil => exact h
  | cons c t ih =>
    rw [List.foldl_cons]
    obtain ⟨h1, h2⟩ := makeF_marks h i c hi (hr c (List.mem_cons_self ..))
    exact ih (fun x hx => hr x (List.mem_cons_of_mem _ hx)) h1 h2

/-- one iteration of the main loop keeps the meaning of the marks (the state after the `break` included) -/
theorem splitStep_marks {G : SGraph} {cf0 : Array CF} (hG : G.WF) (sptr scol : Array Nat) (hsp : SpOK G sptr scol)
    (st : Split × Bool) (top : Nat) (h : MarksOK G cf0 st.1) : MarksOK G cf0 (splitStep G sptr scol st top).1 := by
  unfold splitStep
  by_cases hb : st.2 = true
  · rw [if_pos hb]; exact h
  · rw [if_neg hb]
    simp only
    by_cases hlam : st.1.lambda.getD (st.1.i2n.getD top 0) 0 = 0
    · rw [if_pos hlam]
      -- std::replace(cf, 'U', 'C')
      have hM : ∀ x, ({ st.1 with cf := st.1.cf.map fun m => if m = CF.U then CF.C else m } : Split).M x
          = if st.1.M x = CF.U ∧ x < st.1.cf.size then CF.C else st.1.M x := by
        intro x
        unfold Split.M
        simp only [Array.getD_eq_getD_getElem?, Array.getElem?_map]
        by_cases hx : x < st.1.cf.size
        · simp only [Array.getElem?_eq_getElem hx, Option.map_some, Option.getD_some, hx, and_true]
        · have : st.1.cf[x]? = none := Array.getElem?_eq_none (by omega)
          simp [this, hx]
      refine ⟨by simp only [Array.size_map]; exact h.sz, fun c hc => ?_, fun c hc => ?_⟩
      · rw [hM c]
        have := h.keepF c hc
        rw [this, if_neg (by intro e; cases e.1)]
      · rw [hM c] at hc
        have hcF : st.1.M c = CF.F := by
          split at hc
          · cases hc
          · exact hc
        rcases h.strongC c hcF with h1 | ⟨cs, h1, h2, h3⟩
        · exact Or.inl h1
        · refine Or.inr ⟨cs, h1, h2, ?_⟩
          rw [hM cs.1, h3, if_neg (by intro e; cases e.1)]
    · rw [if_neg hlam]
      have h1 : MarksOK G cf0 { st.1 with cnt := st.1.cnt.modify (st.1.lambda.getD (st.1.i2n.getD top 0) 0) (· - 1) } :=
        h.of_cf_eq rfl
      by_cases hF : st.1.cf.getD (st.1.i2n.getD top 0) CF.U = CF.F
      · rw [if_pos hF]; exact h1
      · rw [if_neg hF]
        apply MarksOK.of_cf_eq _ (foldl_decLambda_cf _ _)
        -- cf[i] = 'C'
        have hM : ∀ x, ({ st.1 with cnt := st.1.cnt.modify (st.1.lambda.getD (st.1.i2n.getD top 0) 0) (· - 1), cf := st.1.cf.setIfInBounds (st.1.i2n.getD top 0) CF.C } : Split).M x
            = if st.1.i2n.getD top 0 = x ∧ st.1.i2n.getD top 0 < st.1.cf.size then CF.C else st.1.M x := by
          intro x; exact getD_set st.1.cf _ x CF.C CF.U
        have h2 : MarksOK G cf0 { st.1 with cnt := st.1.cnt.modify (st.1.lambda.getD (st.1.i2n.getD top 0) 0) (· - 1), cf := st.1.cf.setIfInBounds (st.1.i2n.getD top 0) CF.C } := by
          refine ⟨by simp only [Array.size_setIfInBounds]; exact h.sz, fun c hc => ?_, fun c hc => ?_⟩
          · rw [hM c]
            have hk := h.keepF c hc
            have : ¬ (st.1.i2n.getD top 0 = c ∧ st.1.i2n.getD top 0 < st.1.cf.size) := by
              intro e; rw [← e.1] at hk; exact hF hk
            rw [if_neg this]; exact hk
          · rw [hM c] at hc
            have hcF : st.1.M c = CF.F := by
              split at hc
              · cases hc
              · exact hc
            rcases h.strongC c hcF with h1 | ⟨cs, h1', h2', h3'⟩
            · exact Or.inl h1
            · refine Or.inr ⟨cs, h1', h2', ?_⟩
              rw [hM cs.1]; split
              · rfl
              · exact h3'
        by_cases hin : st.1.i2n.getD top 0 < st.1.cf.size
        · exact foldl_makeF_marks (st.1.i2n.getD top 0) _ (hsp _) h2 (by rw [hM, if_pos ⟨rfl, hin⟩])
        · -- the visited index is outside the arrays: then nothing flags it (the pattern is well-formed)
          have hnil : spRow sptr scol (st.1.i2n.getD top 0) = [] := by
            rw [List.eq_nil_iff_forall_not_mem]
            intro c hc
            obtain ⟨cs, hcs, _, hcs2⟩ := hsp _ c hc
            have := SGraph_row_lt hG c cs hcs
            rw [hcs2, ← h.sz] at this
            exact hin this
          rw [hnil]; exact h2

/-- the meaning of the marks after `cfsplit` -/
theorem cfsplit_marks (G : SGraph) (hG : G.WF) (sptr scol : Array Nat) (hsp : SpOK G sptr scol) (cf0 : Array CF)
    (hsz : cf0.size = G.size) :
    (∀ c, cf0.getD c CF.U = CF.F → (cfsplit G sptr scol cf0).getD c CF.U = CF.F) ∧
    (∀ c, (cfsplit G sptr scol cf0).getD c CF.U = CF.F →
      cf0.getD c CF.U = CF.F ∨ ∃ cs ∈ G.row c, cs.2 = true ∧ (cfsplit G sptr scol cf0).getD cs.1 CF.U = CF.C) := by
  have h0 : MarksOK G cf0 (bucketInit cf0 (lambdaInit sptr scol cf0 G.size)) :=
    ⟨hsz, fun c hc => hc, fun c hc => Or.inl hc⟩
  have : ∀ (l : List Nat) (st : Split × Bool), MarksOK G cf0 st.1 →
      MarksOK G cf0 (l.foldl (splitStep G sptr scol) st).1 := by
    intro l
    induction l with
    | nil => intro st h; exact h
    | cons t r ih => intro st h; rw [List.foldl_cons]; exact ih _ (splitStep_marks hG sptr scol hsp st t h)
  have hf := this (List.range G.size).reverse (bucketInit cf0 (lambdaInit sptr scol cf0 G.size), false) h0
  exact ⟨hf.keepF, hf.strongC⟩

section transfer
variable {K : Type} [Mul K] [Zero K] [LT K] [DecidableLT K]

/-- the transposed pattern produced by `connect` lists only rows that flag the column -/
theorem connect_spOK (g : Garbage K) (norm : K → K) (epsStrong eps : K) (A : CRS K) (hA : A.WF)
    (hsq : A.ncols = A.nrows) :
    SpOK (flagGraph A (connect g norm epsStrong eps A).1.val) (connect g norm epsStrong eps A).1.ptr
      (connect g norm epsStrong eps A).1.col := by
  rw [connect_eq]
  simp only
  have hG := flagGraph_wf norm epsStrong eps A hA hsq
  have hsz := flagGraph_size A (flagsOf norm epsStrong eps A)
  have hz : ∀ k, (Array.replicate (A.nrows + 1) 0).getD k 0 = 0 := fun k => by
    simp only [Array.getD_eq_getD_getElem?, Array.getElem?_replicate]; split <;> rfl
  intro i c hc
  by_cases hi : i < A.nrows
  · rw [transposeFlags_spRow g.scol _ hG _ (by simp [hsz]) hz i (by rw [hsz]; exact hi)] at hc
    exact (mem_bucketE_ents hc).2
  · obtain ⟨t1, _, _, _⟩ := transposeFlags_spec g.scol _ hG (Array.replicate (A.nrows + 1) 0) (by simp [hsz]) hz
    unfold spRow at hc
    have : (transposeFlags g.scol (flagGraph A (flagsOf norm epsStrong eps A)) (Array.replicate (A.nrows + 1) 0)).1.getD
        (i + 1) 0 = 0 := by
      simp only [Array.getD_eq_getD_getElem?]
      rw [Array.getElem?_eq_none (by rw [t1, hsz]; omega)]; rfl
    rw [this, Nat.zero_sub] at hc
    simp at hc

/-- `transfer_operators`: rows without negative coupling stay `F`; every other `F` point has a strong `C` neighbour -/
theorem transferFull_marks [Add K] [Sub K] [Neg K] [Div K] [One K] [LE K] [DecidableLE K]
    (g : Garbage K) (norm : K → K) (epsStrong : K) (doTrunc : Bool) (epsTrunc eps : K) (A : CRS K) (hA : A.WF)
    (hsq : A.ncols = A.nrows) :
    (∀ c, c < A.nrows → (connectRow norm epsStrong eps c (A.row c)).1 = true →
      (transferFull g norm epsStrong doTrunc epsTrunc eps A).cf.getD c CF.U = CF.F) ∧
    (∀ c, (transferFull g norm epsStrong doTrunc epsTrunc eps A).cf.getD c CF.U = CF.F →
      (c < A.nrows ∧ (connectRow norm epsStrong eps c (A.row c)).1 = true) ∨
      ∃ cs ∈ (flagGraph A (transferFull g norm epsStrong doTrunc epsTrunc eps A).S.val).row c,
        cs.2 = true ∧ (transferFull g norm epsStrong doTrunc epsTrunc eps A).cf.getD cs.1 CF.U = CF.C) := by
  have hsp := connect_spOK g norm epsStrong eps A hA hsq
  have hval : (connect g norm epsStrong eps A).1.val = flagsOf norm epsStrong eps A := by rw [connect_eq]
  have hcf0 : (connect g norm epsStrong eps A).2 = cf0Of norm epsStrong eps A := by rw [connect_eq]
  have hG : (flagGraph A (connect g norm epsStrong eps A).1.val).WF := by
    rw [hval]; exact flagGraph_wf norm epsStrong eps A hA hsq
  have hsz : (connect g norm epsStrong eps A).2.size = (flagGraph A (connect g norm epsStrong eps A).1.val).size := by
    rw [hcf0, flagGraph_size]; simp [cf0Of]
  obtain ⟨m1, m2⟩ := cfsplit_marks _ hG _ _ hsp _ hsz
  have hF0 : ∀ c, (connect g norm epsStrong eps A).2.getD c CF.U = CF.F ↔
      (c < A.nrows ∧ (connectRow norm epsStrong eps c (A.row c)).1 = true) := by
    intro c
    rw [hcf0]
    by_cases hc : c < A.nrows
    · simp only [cf0Of, Array.getD_eq_getD_getElem?, Array.getElem?_ofFn, hc, dif_pos, Option.getD_some, true_and]
      split
      · simp [*]
      · simp [*]
    · have : (cf0Of norm epsStrong eps A).getD c CF.U = CF.U := by
        simp only [Array.getD_eq_getD_getElem?]
        rw [Array.getElem?_eq_none (by simp [cf0Of]; omega)]; rfl
      rw [this]; simp [hc]
  refine ⟨fun c hc hr => m1 c ((hF0 c).mpr ⟨hc, hr⟩), fun c hc => ?_⟩
  rcases m2 c hc with h1 | h1
  · exact Or.inl ((hF0 c).mp h1)
  · exact Or.inr h1

end transfer

end RS
end Amgcl
