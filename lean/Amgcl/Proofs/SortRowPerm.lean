import Amgcl.Model.Kernels
import Amgcl.Proofs.RowGet
import Mathlib.Data.List.TakeDrop
import Mathlib.Data.List.Perm.Basic
/-! `detail::sort_row` permutes the row (hence preserves the denotation, length and column multiset). -/
namespace Amgcl
variable {K : Type}

theorem insertFromRight_perm (cv : Nat × K) (pre : Row K) : (insertFromRight cv pre).Perm (pre ++ [cv]) := by
  unfold insertFromRight
  simp only [List.span_eq_takeWhile_dropWhile]
  have h : pre = (pre.reverse.dropWhile (fun e => decide (e.1 > cv.1))).reverse ++
      (pre.reverse.takeWhile (fun e => decide (e.1 > cv.1))).reverse := by
    rw [← List.reverse_append, List.takeWhile_append_dropWhile, List.reverse_reverse]
  conv_rhs => rw [h]
  rw [List.append_assoc]
  apply List.Perm.append_left
  exact (List.perm_append_singleton cv _).symm

theorem sortRow_perm (r : Row K) : (sortRow r).Perm r := by
  unfold sortRow
  suffices h : ∀ pre : Row K, (r.foldl (fun pre cv => insertFromRight cv pre) pre).Perm (pre ++ r) by
    simpa using h []
  induction r with
  | nil => intro pre; simp
  | cons cv t ih =>
    intro pre
    simp only [List.foldl_cons]
    refine (ih _).trans ?_
    have := (insertFromRight_perm cv pre).append_right t
    simpa [List.append_assoc] using this

theorem sortRow_length (r : Row K) : (sortRow r).length = r.length := (sortRow_perm r).length_eq

theorem rowGet_sortRow [AddCommMonoid K] (r : Row K) (j : Nat) : rowGet (sortRow r) j = rowGet r j :=
  rowGet_perm (sortRow_perm r) j

theorem sortRow_cols_perm (r : Row K) : ((sortRow r).map (·.1)).Perm (r.map (·.1)) := (sortRow_perm r).map _

end Amgcl
