import Amgcl.Model.Kernels
import Amgcl.Proofs.RowGet
import Mathlib.Data.Finset.Card
import Mathlib.Data.List.Basic
import Mathlib.Tactic.Ring
/-!
Correctness of the marker-based SpGEMM (`spgemm_saad`).  The heart is `AccInv`: the invariant of the second-pass
inner loops (`marker[c] < row_beg` ⇔ column `c` not yet present in the output row; otherwise the marker is the
absolute position of the column's entry), preserved by every step for **any** clean initial marker array.
-/
namespace Amgcl
open Finset

theorem getD_setIfInBounds_ne (m : Array Int) (i j : Nat) (v d : Int) (h : j ≠ i) :
    (m.setIfInBounds i v).getD j d = m.getD j d := by
  simp only [Array.getD_eq_getD_getElem?, Array.getElem?_setIfInBounds]
  rw [if_neg (Ne.symm h)]

theorem getD_setIfInBounds_eq (m : Array Int) (i : Nat) (v d : Int) (h : i < m.size) :
    (m.setIfInBounds i v).getD i d = v := by
  simp [Array.getD_eq_getD_getElem?, Array.getElem?_setIfInBounds, h]

section
variable {K : Type}

/-- columns of a list of terms -/
abbrev cols (r : Row K) : List Nat := r.map (·.1)

/-- one step of the second-pass inner loop: append a new column or accumulate into the marked position -/
def accStep [Add K] (rowBeg : Nat) (acc : Array (Nat × K) × Array Int) (t : Nat × K) :
    Array (Nat × K) × Array Int :=
  let m := acc.2.getD t.1 (-1)
  if m < (rowBeg : Int) then
    (acc.1.push (t.1, t.2), acc.2.setIfInBounds t.1 ((rowBeg + acc.1.size : Nat) : Int))
  else
    (acc.1.modify (m - (rowBeg : Int)).toNat (fun e => (e.1, e.2 + t.2)), acc.2)

/-- one step of the first-pass inner loop -/
def cntStep (ia : Nat) (acc : Nat × Array Int) (c : Nat) : Nat × Array Int :=
  if acc.2.getD c (-1) != (ia : Int) then (acc.1 + 1, acc.2.setIfInBounds c (ia : Int)) else acc

variable [AddCommMonoid K]

structure AccInv (rowBeg M : Nat) (done : Row K) (out : Array (Nat × K)) (marker : Array Int) : Prop where
  size : marker.size = M
  pos : ∀ c, marker.getD c (-1) < (rowBeg : Int) ∨
      ∃ p e, out.toList[p]? = some e ∧ e.1 = c ∧ marker.getD c (-1) = ((rowBeg + p : Nat) : Int)
  mark : ∀ p e, out.toList[p]? = some e → marker.getD e.1 (-1) = ((rowBeg + p : Nat) : Int)
  get : ∀ j, rowGet out.toList j = rowGet done j
  seen : ∀ c, ¬ marker.getD c (-1) < (rowBeg : Int) ↔ c ∈ cols done
  card : out.size = (cols done).toFinset.card

theorem getElem?_modify_fst (O : Row K) (p q : Nat) (v : K) (f : Nat × K) (hq : O[q]? = some f) :
    ∃ f', (O.modify p (fun e => (e.1, e.2 + v)))[q]? = some f' ∧ f'.1 = f.1 := by
  rw [List.getElem?_modify, hq]
  by_cases h : p = q
  · exact ⟨(f.1, f.2 + v), by simp [h], rfl⟩
  · exact ⟨f, by simp [h], rfl⟩

theorem getElem?_modify_inv (O : Row K) (p q : Nat) (v : K) (f' : Nat × K)
    (h : (O.modify p (fun e => (e.1, e.2 + v)))[q]? = some f') : ∃ f, O[q]? = some f ∧ f.1 = f'.1 := by
  rw [List.getElem?_modify] at h
  cases hO : O[q]? with
  | none => rw [hO] at h; simp at h
  | some f =>
    rw [hO] at h
    refine ⟨f, rfl, ?_⟩
    by_cases hpq : p = q
    · simp [hpq] at h; rw [← h]
    · simp [hpq] at h; rw [h]

theorem AccInv.init (rowBeg M : Nat) (marker : Array Int) (hs : marker.size = M)
    (h : ∀ c, marker.getD c (-1) < (rowBeg : Int)) : AccInv (K := K) rowBeg M [] #[] marker where
  size := hs
  pos := fun c => Or.inl (h c)
  mark := by intro p e he; simp at he
  get := fun _ => rfl
  seen := by
    intro c
    constructor
    · intro hc; exact absurd (h c) hc
    · intro hc; simp at hc
  card := by simp

theorem AccInv.seen' {rowBeg M : Nat} {done : Row K} {out : Array (Nat × K)} {marker : Array Int} {t : Nat × K}
    (I : AccInv rowBeg M done out marker) (hold : t.1 ∈ cols done) :
    ∀ c, ¬ marker.getD c (-1) < (rowBeg : Int) ↔ c ∈ cols (done ++ [t]) := by
  intro c
  rw [I.seen c]
  simp only [List.map_append, List.mem_append, List.map_cons, List.map_nil, List.mem_singleton]
  constructor
  · exact Or.inl
  · rintro (h | h)
    · exact h
    · rw [h]; exact hold

theorem AccInv.step {rowBeg M : Nat} {done : Row K} {out : Array (Nat × K)} {marker : Array Int}
    (I : AccInv rowBeg M done out marker) (t : Nat × K) (ht : t.1 < M) :
    AccInv rowBeg M (done ++ [t]) (accStep rowBeg (out, marker) t).1 (accStep rowBeg (out, marker) t).2 := by
  have htm : t.1 < marker.size := by rw [I.size]; exact ht
  unfold accStep
  by_cases hm : marker.getD t.1 (-1) < (rowBeg : Int)
  · -- a new column: push
    simp only [hm, if_true]
    have hnew : t.1 ∉ cols done := fun h => ((I.seen t.1).mpr h) hm
    refine ⟨by simp [I.size], ?_, ?_, ?_, ?_, ?_⟩
    · intro c
      by_cases hc : c = t.1
      · subst hc
        right
        refine ⟨out.size, (t.1, t.2), ?_, rfl, ?_⟩
        · simp [Array.toList_push]
        · rw [getD_setIfInBounds_eq _ _ _ _ htm]
      · rw [getD_setIfInBounds_ne _ _ _ _ _ hc]
        rcases I.pos c with h | ⟨p, e, hp, he, hmk⟩
        · exact Or.inl h
        · right
          refine ⟨p, e, ?_, he, hmk⟩
          rw [Array.toList_push, List.getElem?_append_left]
          · exact hp
          · exact (List.getElem?_eq_some_iff.mp hp).1
    · intro p e hp
      rw [Array.toList_push] at hp
      by_cases hlt : p < out.toList.length
      · rw [List.getElem?_append_left hlt] at hp
        have hmk := I.mark p e hp
        have hne : e.1 ≠ t.1 := by
          intro h; rw [h] at hmk; rw [hmk] at hm; omega
        rw [getD_setIfInBounds_ne _ _ _ _ _ hne]; exact hmk
      · rw [List.getElem?_append_right (Nat.le_of_not_lt hlt), List.getElem?_singleton] at hp
        by_cases hp0 : p - out.toList.length = 0
        · rw [if_pos hp0] at hp
          have he : e = (t.1, t.2) := by cases hp; rfl
          have hps : p = out.size := by simp at hlt hp0; omega
          subst he; subst hps
          exact getD_setIfInBounds_eq marker t.1 _ (-1) htm
        · rw [if_neg hp0] at hp; cases hp
    · intro j
      rw [Array.toList_push, rowGet_append, rowGet_append, I.get j]
    · intro c
      by_cases hc : c = t.1
      · subst hc
        rw [getD_setIfInBounds_eq _ _ _ _ htm]
        simp
      · rw [getD_setIfInBounds_ne _ _ _ _ _ hc, I.seen c]
        simp [hc]
    · rw [Array.size_push, I.card]
      have : (cols (done ++ [t])).toFinset = insert t.1 (cols done).toFinset := by
        ext x; simp [or_comm]
      rw [this, Finset.card_insert_of_notMem]
      simpa using hnew
  · -- the column is already present: accumulate
    simp only [hm, if_false]
    rcases I.pos t.1 with h | ⟨p, e, hp, he, hmk⟩
    · exact absurd h hm
    have hidx : (marker.getD t.1 (-1) - (rowBeg : Int)).toNat = p := by rw [hmk]; simp
    rw [hidx]
    have hplt : p < out.toList.length := (List.getElem?_eq_some_iff.mp hp).1
    have hold : t.1 ∈ cols done := (I.seen t.1).mp hm
    refine ⟨I.size, ?_, ?_, ?_, I.seen' hold, ?_⟩
    · intro c
      rcases I.pos c with h | ⟨q, f, hq, hf, hmq⟩
      · exact Or.inl h
      · right
        rw [Array.toList_modify]
        obtain ⟨f', hf', hf1⟩ := getElem?_modify_fst out.toList p q t.2 f hq
        exact ⟨q, f', hf', by rw [hf1, hf], hmq⟩
    · intro q f' hq
      rw [Array.toList_modify] at hq
      obtain ⟨f, hf, hf1⟩ := getElem?_modify_inv out.toList p q t.2 f' hq
      rw [← hf1]; exact I.mark q f hf
    · intro j
      rw [Array.toList_modify, rowGet_modify _ _ hplt, rowGet_append, I.get j, rowGet_singleton]
      have : out.toList[p] = e := (List.getElem?_eq_some_iff.mp hp).2
      rw [this, he]
    · rw [Array.size_modify, I.card]
      congr 1
      ext x
      simp only [List.map_append, List.map_cons, List.map_nil, List.toFinset_append, List.toFinset_cons,
        List.toFinset_nil, Finset.mem_union, List.mem_toFinset, Finset.mem_insert, Finset.notMem_empty, or_false]
      constructor
      · exact Or.inl
      · rintro (h | h)
        · exact h
        · rw [h]; exact hold

end
end Amgcl
