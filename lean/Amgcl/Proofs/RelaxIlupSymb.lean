import Amgcl.Model.RelaxIlup
import Amgcl.Proofs.RelaxBasic
import Mathlib.Data.List.Sort
import Mathlib.Data.List.Perm.Basic
import Mathlib.Tactic.Linarith
/-!
`detail::symb_product` of ilup.hpp (`Model/RelaxIlup.lean`): both passes are "first appearance through a marker array" loops.

* `ddStep` / `DDInv` — the generic marker loop: test `isNew marker[c]`, stamp `marker[c] = stamp(#pushed)`; if no stamp is "new"
  and every cell is "new" on entry, the loop pushes every visited column exactly once;
* first pass (`marker[cb] != ia`, stamp `ia`) and second pass (`marker[cb] < row_beg`, stamp `row_end`) are instances; the marker
  carried from row to row satisfies the entry condition of the next row (`marker < ia` resp. `marker < C_ptr[ia]`) — for the second
  pass because the first pass counted the same number of columns;
* `symbProduct_spec` — row `ia` of the product is strictly increasing, its members are exactly the columns of the rows `B[ca]`,
  `ca ∈ A[ia]`, and its length is the width the first pass counted.
-/
set_option linter.unusedSectionVars false
set_option linter.unusedVariables false
namespace Amgcl
namespace Relax

/-! ### `std::sort` -/

theorem ilupIns_eq (a : Nat) (l : List Nat) : ilupIns a l = l.orderedInsert (· ≤ ·) a := by
  induction l with
  | nil => rfl
  | cons b t ih =>
    show (if a ≤ b then a :: b :: t else b :: ilupIns a t) = _
    rw [List.orderedInsert_cons, ih]

theorem ilupSort_eq (l : List Nat) : ilupSort l = l.insertionSort (· ≤ ·) := by
  induction l with
  | nil => rfl
  | cons a t ih =>
    show ilupIns a (ilupSort t) = _
    rw [List.insertionSort_cons, ilupIns_eq, ih]

theorem ilupSort_perm (l : List Nat) : (ilupSort l).Perm l := by
  rw [ilupSort_eq]; exact List.perm_insertionSort _ l

theorem mem_ilupSort (l : List Nat) (c : Nat) : c ∈ ilupSort l ↔ c ∈ l := (ilupSort_perm l).mem_iff

theorem ilupSort_strict (l : List Nat) (h : l.Nodup) : (ilupSort l).Pairwise (· < ·) := by
  have h1 : (ilupSort l).Pairwise (· ≤ ·) := by rw [ilupSort_eq]; exact List.pairwise_insertionSort _ l
  have h2 : (ilupSort l).Pairwise (· ≠ ·) := (ilupSort_perm l).nodup_iff.mpr h
  exact (h1.and h2).imp (fun hab => Nat.lt_of_le_of_ne hab.1 hab.2)

/-! ### the generic marker loop -/

/-- one marker test -/
def ddStep (isNew : Int → Prop) [DecidablePred isNew] (stamp : Nat → Int) (acc : Array Nat × Array Int) (c : Nat) :
    Array Nat × Array Int :=
  if isNew (acc.2.getD c (-1)) then (acc.1.push c, acc.2.setIfInBounds c (stamp acc.1.size)) else acc

structure DDInv (m : Nat) (isNew : Int → Prop) (stamp : Nat → Int) (M0 : Array Int) (acc : Array Nat × Array Int) : Prop where
  size : acc.2.size = m
  nodup : acc.1.toList.Nodup
  lt : ∀ c ∈ acc.1.toList, c < m
  new : ∀ c, c < m → (isNew (acc.2.getD c (-1)) ↔ c ∉ acc.1.toList)
  keep : ∀ c, c ∉ acc.1.toList → acc.2.getD c (-1) = M0.getD c (-1)
  stamped : ∀ c ∈ acc.1.toList, ∃ p, p < acc.1.size ∧ acc.2.getD c (-1) = stamp p

theorem DDInv.init {m : Nat} {isNew : Int → Prop} {stamp : Nat → Int} {M0 : Array Int} (hs : M0.size = m)
    (h0 : ∀ c, c < m → isNew (M0.getD c (-1))) : DDInv m isNew stamp M0 (#[], M0) :=
  ⟨hs, by simp, by simp, fun c hc => ⟨fun _ => by simp, fun _ => h0 c hc⟩, fun _ _ => rfl, by simp⟩

theorem ddStep_inv {m : Nat} {isNew : Int → Prop} [DecidablePred isNew] {stamp : Nat → Int} {M0 : Array Int}
    (hst : ∀ p, ¬ isNew (stamp p)) {acc : Array Nat × Array Int} (h : DDInv m isNew stamp M0 acc) {c : Nat} (hc : c < m) :
    DDInv m isNew stamp M0 (ddStep isNew stamp acc c) ∧
    ∀ d, d ∈ (ddStep isNew stamp acc c).1.toList ↔ d ∈ acc.1.toList ∨ d = c := by
  unfold ddStep
  by_cases hmem : c ∈ acc.1.toList
  · have : ¬ isNew (acc.2.getD c (-1)) := fun hn => ((h.new c hc).mp hn) hmem
    rw [if_neg this]
    refine ⟨h, fun d => ⟨Or.inl, ?_⟩⟩
    rintro (hd | rfl)
    · exact hd
    · exact hmem
  · have : isNew (acc.2.getD c (-1)) := (h.new c hc).mpr hmem
    rw [if_pos this]
    have hl : (acc.1.push c).toList = acc.1.toList ++ [c] := by simp
    have hmemd : ∀ d, d ∈ acc.1.toList ++ [c] ↔ d ∈ acc.1.toList ∨ d = c := by
      intro d; rw [List.mem_append, List.mem_singleton]
    refine ⟨⟨?_, ?_, ?_, ?_, ?_, ?_⟩, ?_⟩
    · show (acc.2.setIfInBounds c _).size = m
      rw [Array.size_setIfInBounds]; exact h.size
    · show (acc.1.push c).toList.Nodup
      rw [hl]
      exact List.Nodup.append h.nodup (List.nodup_singleton c) (by
        intro a ha hb
        rw [List.mem_singleton] at hb
        exact hmem (hb ▸ ha))
    · intro d hd
      change d ∈ (acc.1.push c).toList at hd
      rw [hl, hmemd] at hd
      rcases hd with hd | rfl
      · exact h.lt d hd
      · exact hc
    · intro d hd
      show isNew ((acc.2.setIfInBounds c _).getD d (-1)) ↔ d ∉ (acc.1.push c).toList
      rw [hl, hmemd, getD_setIfInBounds]
      by_cases hcd : c = d
      · subst hcd
        rw [if_pos ⟨rfl, by rw [h.size]; exact hc⟩]
        exact ⟨fun hn => absurd hn (hst _), fun hn => absurd (Or.inr rfl) hn⟩
      · rw [if_neg (fun hh => hcd hh.1), h.new d hd]
        constructor
        · intro hn hh; exact hh.elim hn (fun e => hcd e.symm)
        · intro hn hh; exact hn (Or.inl hh)
    · intro d hd
      show (acc.2.setIfInBounds c _).getD d (-1) = _
      change d ∉ (acc.1.push c).toList at hd
      rw [hl, hmemd] at hd
      have hcd : c ≠ d := fun e => hd (Or.inr e.symm)
      rw [getD_setIfInBounds_ne _ _ _ _ _ hcd]
      exact h.keep d (fun hh => hd (Or.inl hh))
    · intro d hd
      change d ∈ (acc.1.push c).toList at hd
      rw [hl, hmemd] at hd
      show ∃ p, p < (acc.1.push c).size ∧ (acc.2.setIfInBounds c _).getD d (-1) = stamp p
      rw [Array.size_push]
      rcases hd with hd | rfl
      · obtain ⟨p, hp, e⟩ := h.stamped d hd
        have hcd : c ≠ d := fun e => hmem (e ▸ hd)
        exact ⟨p, by omega, by rw [getD_setIfInBounds_ne _ _ _ _ _ hcd]; exact e⟩
      · exact ⟨acc.1.size, by omega, by rw [getD_setIfInBounds_self _ _ _ _ (by rw [h.size]; exact hc)]⟩
    · intro d
      show d ∈ (acc.1.push c).toList ↔ _
      rw [hl, hmemd]

theorem ddFold_inv {m : Nat} {isNew : Int → Prop} [DecidablePred isNew] {stamp : Nat → Int} {M0 : Array Int}
    (hst : ∀ p, ¬ isNew (stamp p)) (l : List Nat) (hl : ∀ c ∈ l, c < m) {acc : Array Nat × Array Int}
    (h : DDInv m isNew stamp M0 acc) :
    DDInv m isNew stamp M0 (l.foldl (ddStep isNew stamp) acc) ∧
    ∀ d, d ∈ (l.foldl (ddStep isNew stamp) acc).1.toList ↔ d ∈ acc.1.toList ∨ d ∈ l := by
  induction l generalizing acc with
  | nil => exact ⟨h, fun d => by simp⟩
  | cons c t ih =>
    obtain ⟨h1, h2⟩ := ddStep_inv hst h (hl c List.mem_cons_self)
    obtain ⟨h3, h4⟩ := ih (fun d hd => hl d (List.mem_cons_of_mem _ hd)) h1
    rw [List.foldl_cons]
    refine ⟨h3, fun d => ?_⟩
    rw [h4 d, h2 d, List.mem_cons]
    tauto

/-- the result of the loop started on a marker all of whose cells are "new" -/
theorem ddFold_spec {m : Nat} {isNew : Int → Prop} [DecidablePred isNew] {stamp : Nat → Int} (hst : ∀ p, ¬ isNew (stamp p))
    (l : List Nat) (hl : ∀ c ∈ l, c < m) (M0 : Array Int) (hs : M0.size = m) (h0 : ∀ c, c < m → isNew (M0.getD c (-1))) :
    DDInv m isNew stamp M0 (l.foldl (ddStep isNew stamp) (#[], M0)) ∧
    ∀ d, d ∈ (l.foldl (ddStep isNew stamp) (#[], M0)).1.toList ↔ d ∈ l := by
  obtain ⟨h1, h2⟩ := ddFold_inv hst l hl (DDInv.init (stamp := stamp) hs h0)
  exact ⟨h1, fun d => by rw [h2 d]; simp⟩

/-! ### the two passes as instances -/

/-- the columns visited for row `ia`, in order -/
def visitedP (A B : Pat) (ia : Nat) : List Nat := (A.getD ia []).flatMap (fun ca => B.getD ca [])

theorem symbRow_eq (A B : Pat) (marker : Array Int) (ia rowBeg : Nat) :
    symbRow A B marker ia rowBeg
      = (visitedP A B ia).foldl (ddStep (fun v => v < (rowBeg : Int)) (fun p => ((rowBeg + p : Nat) : Int))) (#[], marker) := by
  unfold symbRow visitedP
  generalize ((#[], marker) : Array Nat × Array Int) = acc
  generalize A.getD ia [] = r
  induction r generalizing acc with
  | nil => rfl
  | cons c t ih =>
    rw [List.foldl_cons, List.flatMap_cons, List.foldl_append, ← ih]
    rfl

/-- the first pass counts what the generic loop pushes -/
theorem widthFold_eq (ia : Nat) (l : List Nat) (arr : Array Nat) (M : Array Int) :
    l.foldl (fun (acc : Nat × Array Int) cb =>
        if acc.2.getD cb (-1) != (ia : Int) then (acc.1 + 1, acc.2.setIfInBounds cb (ia : Int)) else acc) (arr.size, M)
      = ((l.foldl (ddStep (fun v => (v != (ia : Int)) = true) (fun _ => (ia : Int))) (arr, M)).1.size,
         (l.foldl (ddStep (fun v => (v != (ia : Int)) = true) (fun _ => (ia : Int))) (arr, M)).2) := by
  induction l generalizing arr M with
  | nil => rfl
  | cons c t ih =>
    rw [List.foldl_cons, List.foldl_cons]
    unfold ddStep
    by_cases h : (M.getD c (-1) != (ia : Int)) = true
    · simp only [h, if_true]
      have := ih (arr.push c) (M.setIfInBounds c (ia : Int))
      rw [Array.size_push] at this
      exact this
    · simp only [h]
      exact ih arr M

theorem symbWidthRow_eq (A B : Pat) (marker : Array Int) (ia : Nat) :
    symbWidthRow A B marker ia
      = (((visitedP A B ia).foldl (ddStep (fun v => (v != (ia : Int)) = true) (fun _ => (ia : Int))) (#[], marker)).1.size,
         ((visitedP A B ia).foldl (ddStep (fun v => (v != (ia : Int)) = true) (fun _ => (ia : Int))) (#[], marker)).2) := by
  have key : ∀ (r : List Nat) (acc : Nat × Array Int),
      r.foldl (fun acc ca => (B.getD ca []).foldl (fun (acc : Nat × Array Int) cb =>
        if acc.2.getD cb (-1) != (ia : Int) then (acc.1 + 1, acc.2.setIfInBounds cb (ia : Int)) else acc) acc) acc
      = (r.flatMap (fun ca => B.getD ca [])).foldl (fun (acc : Nat × Array Int) cb =>
        if acc.2.getD cb (-1) != (ia : Int) then (acc.1 + 1, acc.2.setIfInBounds cb (ia : Int)) else acc) acc := by
    intro r
    induction r with
    | nil => intro acc; rfl
    | cons c t ih => intro acc; rw [List.foldl_cons, List.flatMap_cons, List.foldl_append, ← ih]
  unfold symbWidthRow
  rw [key]
  exact widthFold_eq ia (visitedP A B ia) #[] marker

/-- columns in range: every column of `B[ca]`, `ca ∈ A[ia]`, is `< m` -/
def PatOK (A B : Pat) (m : Nat) : Prop := ∀ ia, ∀ c ∈ visitedP A B ia, c < m

/-- the facts about one row of the product -/
structure RowFacts (A B : Pat) (m ia : Nat) (row : List Nat) : Prop where
  strict : row.Pairwise (· < ·)
  mem : ∀ c, c ∈ row ↔ c ∈ visitedP A B ia
  lt : ∀ c ∈ row, c < m

/-- first pass, all rows: after the rows `< k` the marker is `< k` everywhere and the widths are the numbers of distinct columns -/
theorem widths_prefix (A B : Pat) (m : Nat) (hok : PatOK A B m) (k : Nat) :
    ∃ (M : Array Int) (ws : List Nat),
      (List.range k).foldl (fun (acc : List Nat × Array Int) ia =>
        let r := symbWidthRow A B acc.2 ia
        (acc.1 ++ [r.1], r.2)) ([], Array.replicate m (-1)) = (ws, M) ∧
      M.size = m ∧ (∀ c, c < m → M.getD c (-1) < (k : Int)) ∧ ws.length = k ∧
      ∀ ia, ia < k → ∃ l : List Nat, l.Nodup ∧ (∀ c, c ∈ l ↔ c ∈ visitedP A B ia) ∧ ws.getD ia 0 = l.length := by
  induction k with
  | zero =>
    refine ⟨Array.replicate m (-1), [], rfl, by simp, ?_, rfl, fun ia h => absurd h (Nat.not_lt_zero _)⟩
    intro c hc
    simp [Array.getD, hc]
  | succ k ih =>
    obtain ⟨M, ws, e, hs, hlt, hlen, hw⟩ := ih
    rw [List.range_succ, List.foldl_append, e]
    have hnew : ∀ c, c < m → (M.getD c (-1) != (k : Int)) = true := by
      intro c hc
      have := hlt c hc
      simp only [bne_iff_ne, ne_eq]
      omega
    obtain ⟨inv, mem⟩ := ddFold_spec (m := m) (isNew := fun v => (v != (k : Int)) = true) (stamp := fun _ => (k : Int))
      (fun p => by simp) (visitedP A B k) (hok k) M hs hnew
    set r := (visitedP A B k).foldl (ddStep (fun v => (v != (k : Int)) = true) (fun _ => (k : Int))) (#[], M) with hr
    refine ⟨r.2, ws ++ [r.1.size], ?_, inv.size, ?_, by rw [List.length_append, hlen]; rfl, ?_⟩
    · show (ws ++ [(symbWidthRow A B M k).1], (symbWidthRow A B M k).2) = _
      rw [symbWidthRow_eq]
    · intro c hc
      by_cases hcm : c ∈ r.1.toList
      · obtain ⟨p, _, e⟩ := inv.stamped c hcm
        rw [e]; push_cast; omega
      · rw [inv.keep c hcm]
        have := hlt c hc
        push_cast; omega
    · intro ia hia
      by_cases h : ia < k
      · obtain ⟨l, h1, h2, h3⟩ := hw ia h
        refine ⟨l, h1, h2, ?_⟩
        rw [List.getD_eq_getElem?_getD, List.getElem?_append_left (by omega), ← List.getD_eq_getElem?_getD]
        exact h3
      · have : ia = k := by omega
        subst this
        refine ⟨r.1.toList, inv.nodup, mem, ?_⟩
        rw [List.getD_eq_getElem?_getD, List.getElem?_append_right (by omega), hlen]
        simp

theorem symbWidths_spec (A B : Pat) (m : Nat) (hok : PatOK A B m) :
    (symbWidths A B m).length = A.size ∧
    ∀ ia, ia < A.size → ∃ l : List Nat, l.Nodup ∧ (∀ c, c ∈ l ↔ c ∈ visitedP A B ia) ∧ (symbWidths A B m).getD ia 0 = l.length := by
  obtain ⟨M, ws, e, _, _, hlen, hw⟩ := widths_prefix A B m hok A.size
  unfold symbWidths
  rw [e]
  exact ⟨hlen, hw⟩

/-- second pass, all rows -/
theorem product_prefix (A B : Pat) (m : Nat) (hok : PatOK A B m) (k : Nat) (hk : k ≤ A.size) :
    ∃ (rows : Pat) (M : Array Int) (ptr : Nat),
      (List.range k).foldl (fun (acc : Pat × Array Int × Nat) ia =>
        let r := symbRow A B acc.2.1 ia acc.2.2
        (acc.1.push (ilupSort r.1.toList), r.2, acc.2.2 + (symbWidths A B m).getD ia 0)) (#[], Array.replicate m (-1), 0)
        = (rows, M, ptr) ∧
      M.size = m ∧ (∀ c, c < m → M.getD c (-1) < (ptr : Int)) ∧ rows.size = k ∧
      ∀ ia, ia < k → RowFacts A B m ia (rows.getD ia []) ∧ (rows.getD ia []).length = (symbWidths A B m).getD ia 0 := by
  induction k with
  | zero =>
    refine ⟨#[], Array.replicate m (-1), 0, rfl, by simp, ?_, rfl, fun ia h => absurd h (Nat.not_lt_zero _)⟩
    intro c hc
    simp [Array.getD, hc]
  | succ k ih =>
    obtain ⟨rows, M, ptr, e, hs, hlt, hsz, hrows⟩ := ih (by omega)
    rw [List.range_succ, List.foldl_append, e]
    obtain ⟨inv, mem⟩ := ddFold_spec (m := m) (isNew := fun v => v < (ptr : Int)) (stamp := fun p => ((ptr + p : Nat) : Int))
      (fun p => by push_cast; omega) (visitedP A B k) (hok k) M hs hlt
    set r := (visitedP A B k).foldl (ddStep (fun v => v < (ptr : Int)) (fun p => ((ptr + p : Nat) : Int))) (#[], M) with hr
    -- the first pass counted the same number of columns
    obtain ⟨_, hws⟩ := symbWidths_spec A B m hok
    obtain ⟨l, hlnd, hlmem, hlw⟩ := hws k (by omega)
    have hperm : l.Perm r.1.toList := (List.perm_ext_iff_of_nodup hlnd inv.nodup).mpr (fun c => by rw [hlmem, mem])
    have hcount : (symbWidths A B m).getD k 0 = r.1.size := by
      rw [hlw, hperm.length_eq]; simp
    refine ⟨rows.push (ilupSort r.1.toList), r.2, ptr + r.1.size, ?_, inv.size, ?_, by rw [Array.size_push, hsz], ?_⟩
    · show ((rows.push (ilupSort (symbRow A B M k ptr).1.toList)), (symbRow A B M k ptr).2,
        ptr + (symbWidths A B m).getD k 0) = _
      rw [symbRow_eq, hcount]
    · intro c hc
      by_cases hcm : c ∈ r.1.toList
      · obtain ⟨p, hp, e⟩ := inv.stamped c hcm
        rw [e]; push_cast; omega
      · rw [inv.keep c hcm]
        have := hlt c hc
        push_cast; omega
    · intro ia hia
      by_cases h : ia < k
      · have : (rows.push (ilupSort r.1.toList)).getD ia [] = rows.getD ia [] := by
          simp [Array.getD, Array.getElem_push, hsz, h, Nat.lt_succ_of_lt h]
        rw [this]; exact hrows ia h
      · have : ia = k := by omega
        subst this
        have : (rows.push (ilupSort r.1.toList)).getD ia [] = ilupSort r.1.toList := by
          simp [Array.getD, Array.getElem_push, hsz]
        rw [this]
        refine ⟨⟨ilupSort_strict _ inv.nodup, fun c => by rw [mem_ilupSort, mem], fun c hc => ?_⟩, ?_⟩
        · rw [mem_ilupSort] at hc; exact inv.lt c hc
        · rw [(ilupSort_perm _).length_eq, hcount]; simp

/-- **`symb_product`**: the product has the rows of `A`; row `ia` is strictly increasing, consists exactly of the columns of the
rows `B[ca]`, `ca ∈ A[ia]`, all `< m`, and has the width counted by the first pass -/
theorem symbProduct_spec (A B : Pat) (m : Nat) (hok : PatOK A B m) :
    (symbProduct A B m).size = A.size ∧
    ∀ ia, ia < A.size → RowFacts A B m ia ((symbProduct A B m).getD ia []) ∧
      ((symbProduct A B m).getD ia []).length = (symbWidths A B m).getD ia 0 := by
  obtain ⟨rows, M, ptr, e, _, _, hsz, hrows⟩ := product_prefix A B m hok A.size (Nat.le_refl _)
  unfold symbProduct
  simp only []
  rw [e]
  exact ⟨hsz, hrows⟩

end Relax
end Amgcl
