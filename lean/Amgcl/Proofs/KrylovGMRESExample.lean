import Amgcl.Proofs.KrylovGMRESRun
import Amgcl.Model.Rsqrt
import Mathlib.Algebra.Order.Field.Rat
/-!
# The concrete system used for the non-vacuity examples of `Properties/C05b.lean` (GMRES part)

Non-symmetric `A = [[3,0,1],[4,5,2],[0,4,3]]`, identity preconditioner (`backend::copy`), right preconditioning,
`f = (25,0,0)`, `x₀ = 0`, the executable `rsqrt`.  The numbers are chosen such that `rsqrt` is EXACT on every number the
first two passes apply it to (`⟨r,r⟩ = 625`, `⟨w₀,w₀⟩ = ⟨w₁,w₁⟩ = 16`, both rotation arguments `25/16`, and `s₁² = 400`,
`s₂² = 256`): `v₀ = e₁`, `A v₀ = (3,4,0)`, `H̃(0,0) = 3`, `H̃(1,0) = 4`, rotation `(3/5, 4/5)`, `s = (15, −20)`;
`v₁ = e₂`, `A v₁ = (0,5,4)`, rotated column `(4, 3 | 4)`, rotation `(3/5, 4/5)` again, `s = (15, −12, 16)`.
So `|s₁| = 20`, `|s₂| = 16`, and indeed `‖f − A x₂‖² = 256` for the iterate `x₂ = (123/25, −12/5, 0)`.
-/
namespace Amgcl.Krylov.ExG
open Amgcl Amgcl.Solver Amgcl.Solver.GMRES Amgcl.Krylov Amgcl.Energy.Bridge

def Ag : CRS ℚ := ⟨3, #[[(0, 3), (2, 1)], [(0, 4), (1, 5), (2, 2)], [(1, 4), (2, 3)]]⟩
def Pg : Vec ℚ → Vec ℚ := fun v => vcopy v
def fg : Vec ℚ := #[25, 0, 0]
def xg : Vec ℚ := #[0, 0, 0]
def prmg : GMRES.Params ℚ := { maxiter := 2, tol := 0, abstol := 0, nsSearch := false, M := 3, pside := .right }
/-- the state at the first `break` test -/
def stg : GMRES.St ℚ := GMRES.init prmg stdIp Amgcl.rsqrt Ag Pg (GMRES.Work.fresh 3) fg xg

theorem hAg : Ag.WF := by decide
theorem hPg : PDenotes 3 Pg LinearMap.id := pDenotes_copy 3
theorem hstg : CycleStart .right Amgcl.rsqrt Ag Pg fg stg :=
  cycleStart_head .right Amgcl.rsqrt Ag Pg fg _ (by decide +kernel)
/-- `rsqrt` is exact on every number the first two passes apply it to -/
theorem hrootsg : RootsExact .right Amgcl.rsqrt Ag Pg stg 2 := ⟨by decide +kernel, by decide +kernel, by decide +kernel⟩
/-- no breakdown in the first two passes: `H̃(1,0) = H̃(2,1) = 4` -/
theorem hnbg : ∀ i, i < 2 → arnoldiNorm .right Amgcl.rsqrt Ag Pg stg i ≠ 0 := by decide +kernel

end Amgcl.Krylov.ExG
