import Amgcl.Model.IOMM
import Amgcl.Proofs.IOSort
/-!
The counting sort of `mm_reader::operator()` (`assemble`): count, prefix sums, scatter, rotate, sort — equals the
stable bucketing of the kept entries by row.  Helper file for C19.
-/
namespace Amgcl.IO
variable {V : Type}

/-- number of kept entries of row `r` -/
def cntRow (kept : List (Nat × Int × V)) (r : Nat) : Nat := (kept.filter (fun e => decide (e.1 = r))).length
/-- the entries of row `r`, in file order -/
def bucket (kept : List (Nat × Int × V)) (r : Nat) : List (Int × V) :=
  (kept.filter (fun e => decide (e.1 = r))).map (·.2)
/-- start offset of row `r` -/
def offs (f : Nat → Nat) : Nat → Nat
  | 0 => 0
  | r + 1 => offs f r + f r

theorem bucket_length (kept : List (Nat × Int × V)) (r : Nat) : (bucket kept r).length = cntRow kept r := by
  simp [bucket, cntRow]

theorem offs_mono (f : Nat → Nat) {a b : Nat} (h : a ≤ b) : offs f a ≤ offs f b := by
  induction b with
  | zero => have : a = 0 := by omega
            subst this; exact Nat.le_refl _
  | succ b ih =>
    by_cases hab : a = b + 1
    · subst hab; exact Nat.le_refl _
    · have := ih (by omega); simp only [offs]; omega

theorem offs_succ_le (f : Nat → Nat) {a b : Nat} (h : a < b) : offs f a + f a ≤ offs f b := by
  have := offs_mono f (show a + 1 ≤ b from h)
  simpa [offs] using this

theorem cntRow_cons (e : Nat × Int × V) (t : List (Nat × Int × V)) (r : Nat) :
    cntRow (e :: t) r = (if e.1 = r then 1 else 0) + cntRow t r := by
  unfold cntRow
  by_cases h : e.1 = r <;> simp [List.filter_cons, h]; omega

theorem cntRow_append (a b : List (Nat × Int × V)) (r : Nat) : cntRow (a ++ b) r = cntRow a r + cntRow b r := by
  simp [cntRow, List.filter_append]

theorem filter_lt_succ_length (l : List (Nat × Int × V)) (k : Nat) :
    (l.filter (fun e => decide (e.1 < k + 1))).length
      = (l.filter (fun e => decide (e.1 < k))).length + (l.filter (fun e => decide (e.1 = k))).length := by
  induction l with
  | nil => rfl
  | cons e t ih =>
    simp only [List.filter_cons]
    rcases Nat.lt_trichotomy e.1 k with h | h | h
    · rw [if_pos (decide_eq_true (show e.1 < k + 1 by omega)), if_pos (decide_eq_true h),
        if_neg (by simp; omega)]
      simp only [List.length_cons]; omega
    · rw [if_pos (decide_eq_true (show e.1 < k + 1 by omega)), if_neg (by simp; omega),
        if_pos (decide_eq_true h)]
      simp only [List.length_cons]; omega
    · rw [if_neg (by simp; omega), if_neg (by simp; omega), if_neg (by simp; omega)]
      exact ih

/-- `offs` of the row counts up to `k` counts the entries with row `< k` -/
theorem offs_cnt_eq (kept : List (Nat × Int × V)) (k : Nat) :
    offs (cntRow kept) k = (kept.filter (fun e => decide (e.1 < k))).length := by
  induction k with
  | zero =>
    simp only [offs, Nat.not_lt_zero, decide_false]
    induction kept with
    | nil => rfl
    | cons e t ih => simpa [List.filter_cons] using ih
  | succ k ih => rw [filter_lt_succ_length, ← ih]; rfl

theorem offs_cnt_total (kept : List (Nat × Int × V)) (chunk : Nat) (h : ∀ e ∈ kept, e.1 < chunk) :
    offs (cntRow kept) chunk = kept.length := by
  rw [offs_cnt_eq]
  congr 1
  rw [List.filter_eq_self]
  intro e he; simpa using h e he

/-! ### counting phase -/

theorem count_phase (kept : List (Nat × Int × V)) (l : List Int) (h : ∀ e ∈ kept, e.1 + 1 < l.length) :
    ∃ l', foldlOpt (fun p (e : Nat × Int × V) => incrAt p (e.1 + 1)) l kept = some l' ∧ l'.length = l.length ∧
      ∀ k, l'[k]? = l[k]?.map (fun x => x + ((kept.filter (fun e => decide (e.1 + 1 = k))).length : Int)) := by
  induction kept generalizing l with
  | nil => exact ⟨l, rfl, rfl, fun k => by simp⟩
  | cons e t ih =>
    have hj : e.1 + 1 < l.length := h e (by simp)
    have hstep : incrAt l (e.1 + 1) = some (l.set (e.1 + 1) (l[e.1 + 1] + 1)) := by
      unfold incrAt; rw [dif_pos hj]
    obtain ⟨l', h1, h2, h3⟩ := ih (l.set (e.1 + 1) (l[e.1 + 1] + 1))
      (fun x hx => by rw [List.length_set]; exact h x (by simp [hx]))
    refine ⟨l', ?_, ?_, ?_⟩
    · simp only [foldlOpt, hstep]; exact h1
    · rw [h2, List.length_set]
    · intro k
      rw [h3 k, List.getElem?_set]
      by_cases hk : e.1 + 1 = k
      · subst hk
        simp only [if_true, hj, List.filter_cons, List.getElem?_eq_getElem hj, Option.map_some, decide_true,
          List.length_cons]
        congr 1; push_cast; omega
      · simp only [hk, if_false, List.filter_cons, decide_false]
        rfl

/-! ### prefix sums -/

theorem partialSumFrom_getElem? (c : List Int) (acc : Int) (k : Nat) :
    (partialSumFrom acc c)[k]? = if k < c.length then some (acc + (c.take (k + 1)).sum) else none := by
  induction c generalizing acc k with
  | nil => simp [partialSumFrom]
  | cons x t ih =>
    cases k with
    | zero => simp [partialSumFrom]
    | succ k =>
      simp only [partialSumFrom, List.getElem?_cons_succ, ih, List.length_cons, List.take_succ_cons, List.sum_cons]
      by_cases hk : k < t.length
      · have : k + 1 < t.length + 1 := by omega
        simp [hk, this]; omega
      · have : ¬ k + 1 < t.length + 1 := by omega
        simp [hk, this]

theorem partialSumFrom_length (c : List Int) (acc : Int) : (partialSumFrom acc c).length = c.length := by
  induction c generalizing acc with
  | nil => rfl
  | cons x t ih => simp [partialSumFrom, ih]

/-- the canonical row-pointer array `[offs 0, …, offs n]` -/
def offsList (f : Nat → Nat) (n : Nat) : List Int := (List.range (n + 1)).map (fun k => (offs f k : Int))

theorem offsList_length (f : Nat → Nat) (n : Nat) : (offsList f n).length = n + 1 := by simp [offsList]

theorem offsList_getElem? (f : Nat → Nat) (n k : Nat) :
    (offsList f n)[k]? = if k ≤ n then some (offs f k : Int) else none := by
  unfold offsList
  rw [List.getElem?_map]
  by_cases h : k ≤ n
  · rw [List.getElem?_range (by omega), if_pos h]; rfl
  · rw [List.getElem?_eq_none (by simp; omega), if_neg h]; rfl

theorem eq_offsList (f : Nat → Nat) (n : Nat) (l : List Int) (hl : l.length = n + 1)
    (h : ∀ k, k ≤ n → l[k]? = some (offs f k : Int)) : l = offsList f n := by
  apply List.ext_getElem?
  intro k
  rw [offsList_getElem?]
  by_cases hk : k ≤ n
  · rw [if_pos hk, h k hk]
  · rw [if_neg hk, List.getElem?_eq_none (by omega)]

/-- sums of the first `k+1` counters, when `c = [0, f 0, f 1, …]` -/
theorem take_sum_counts (f : Nat → Nat) (c : List Int) (n : Nat) (hl : c.length = n + 1)
    (h0 : c[0]? = some 0) (hc : ∀ r, r < n → c[r + 1]? = some (f r : Int)) (k : Nat) (hk : k ≤ n) :
    (c.take (k + 1)).sum = (offs f k : Int) := by
  induction k with
  | zero =>
    rw [List.take_add_one]; simp [h0, offs]
  | succ k ih =>
    rw [List.take_add_one, List.sum_append, ih (by omega), hc k (by omega)]
    simp [offs]

theorem prefix_phase (kept : List (Nat × Int × V)) (chunk : Nat) (c : List Int) (hl : c.length = chunk + 1)
    (hc : ∀ k, c[k]? = ((List.replicate (chunk + 1) (0 : Int))[k]?).map
      (fun x => x + ((kept.filter (fun e => decide (e.1 + 1 = k))).length : Int))) :
    partialSum c = offsList (cntRow kept) chunk := by
  apply eq_offsList _ _ _ (by rw [partialSum, partialSumFrom_length, hl])
  intro k hk
  unfold partialSum
  rw [partialSumFrom_getElem?, if_pos (by omega)]
  congr 1
  rw [Int.zero_add]
  apply take_sum_counts (cntRow kept) c chunk hl
  · rw [hc 0]
    simp [List.filter_eq_nil_iff]
  · intro r hr
    rw [hc (r + 1), List.getElem?_replicate, if_pos (by omega)]
    simp [cntRow]
  · exact hk

/-! ### scatter phase -/

structure ScInv (kept pre : List (Nat × Int × V)) (chunk : Nat) (st : List Int × List (Int × V)) : Prop where
  plen : st.1.length = chunk + 1
  pval : ∀ k, k ≤ chunk → st.1[k]? = some ((offs (cntRow kept) k + cntRow pre k : Nat) : Int)
  clen : st.2.length = kept.length
  cval : ∀ r t, t < cntRow pre r → st.2[offs (cntRow kept) r + t]? = (bucket pre r)[t]?

theorem bucket_append (a b : List (Nat × Int × V)) (r : Nat) : bucket (a ++ b) r = bucket a r ++ bucket b r := by
  simp [bucket, List.filter_append]

theorem scatter_phase (kept : List (Nat × Int × V)) (chunk : Nat) (hk : ∀ e ∈ kept, e.1 < chunk)
    (suf pre : List (Nat × Int × V)) (st : List Int × List (Int × V)) (hsplit : kept = pre ++ suf)
    (inv : ScInv kept pre chunk st) :
    ∃ st', foldlOpt scatterStep st suf = some st' ∧ ScInv kept kept chunk st' := by
  induction suf generalizing pre st with
  | nil =>
    have : kept = pre := by simpa using hsplit
    subst this
    exact ⟨st, rfl, inv⟩
  | cons e suf' ih =>
    have hr : e.1 < chunk := hk e (by rw [hsplit]; simp)
    have hcnt : cntRow kept e.1 = cntRow pre e.1 + 1 + cntRow suf' e.1 := by
      rw [hsplit, cntRow_append, cntRow_cons]; simp; omega
    have htot := offs_cnt_total kept chunk hk
    have hle := offs_succ_le (cntRow kept) hr
    have hp := inv.pval e.1 (by omega)
    have hstep : scatterStep st e = some (st.1.set e.1 (((offs (cntRow kept) e.1 + cntRow pre e.1 : Nat) : Int) + 1),
        st.2.set (offs (cntRow kept) e.1 + cntRow pre e.1) e.2) := by
      unfold scatterStep
      rw [hp]
      simp only []
      rw [if_pos]
      · simp only [Int.toNat_natCast]
      · constructor
        · omega
        · rw [Int.toNat_natCast, inv.clen]; omega
    have inv' : ScInv kept (pre ++ [e]) chunk
        (st.1.set e.1 (((offs (cntRow kept) e.1 + cntRow pre e.1 : Nat) : Int) + 1),
         st.2.set (offs (cntRow kept) e.1 + cntRow pre e.1) e.2) := by
      refine ⟨?_, ?_, ?_, ?_⟩
      · simp [inv.plen]
      · intro k hk'
        simp only [List.getElem?_set]
        by_cases hrk : e.1 = k
        · subst hrk
          rw [if_pos rfl, if_pos (by rw [inv.plen]; omega), cntRow_append, cntRow_cons]
          simp [cntRow]; omega
        · rw [if_neg hrk, inv.pval k hk', cntRow_append, cntRow_cons]
          simp [hrk, cntRow]
      · simp [inv.clen]
      · intro r t ht
        simp only [List.getElem?_set]
        rw [bucket_append]
        by_cases hrr : e.1 = r
        · subst hrr
          have hb : bucket [e] e.1 = [e.2] := by simp [bucket]
          have hc1 : cntRow (pre ++ [e]) e.1 = cntRow pre e.1 + 1 := by
            rw [cntRow_append, cntRow_cons]; simp [cntRow]
          rw [hc1] at ht
          by_cases htt : t = cntRow pre e.1
          · subst htt
            rw [if_pos rfl, if_pos (by rw [inv.clen]; omega), hb,
              List.getElem?_append_right (by rw [bucket_length]; exact Nat.le_refl _), bucket_length]
            simp
          · rw [if_neg (by omega), inv.cval e.1 t (by omega),
              List.getElem?_append_left (by rw [bucket_length]; omega)]
        · have hb : bucket [e] r = [] := by simp [bucket, hrr]
          have hc1 : cntRow (pre ++ [e]) r = cntRow pre r := by
            rw [cntRow_append, cntRow_cons]; simp [hrr, cntRow]
          rw [hc1] at ht
          have hcr : cntRow pre r ≤ cntRow kept r := by rw [hsplit, cntRow_append]; omega
          have hne : offs (cntRow kept) e.1 + cntRow pre e.1 ≠ offs (cntRow kept) r + t := by
            rcases Nat.lt_or_gt_of_ne hrr with h | h
            · have := offs_succ_le (cntRow kept) h; omega
            · have := offs_succ_le (cntRow kept) h; omega
          rw [if_neg hne, hb, List.append_nil, inv.cval r t ht]
    obtain ⟨st', h1, h2⟩ := ih (pre ++ [e]) _ (by rw [hsplit]; simp) inv'
    exact ⟨st', by simp only [foldlOpt, hstep]; exact h1, h2⟩

/-- a list that agrees segment-wise with the rows `f 0, …, f (n-1)` is their concatenation -/
theorem eq_flatten_of_segments {α : Type} (f : Nat → List α) (n : Nat) (L : List α)
    (hlen : L.length = offs (fun r => (f r).length) n)
    (h : ∀ r t, r < n → t < (f r).length → L[offs (fun r => (f r).length) r + t]? = (f r)[t]?) :
    L = ((List.range n).map f).flatten := by
  induction n generalizing L with
  | zero =>
    simp only [offs] at hlen
    simp [List.eq_nil_of_length_eq_zero hlen]
  | succ n ih =>
    rw [List.range_succ, List.map_append, List.flatten_append]
    simp only [List.map_cons, List.map_nil, List.flatten_cons, List.flatten_nil, List.append_nil]
    simp only [offs] at hlen
    rw [← List.take_append_drop (offs (fun r => (f r).length) n) L]
    congr 1
    · apply ih
      · rw [List.length_take]; omega
      · intro r t hr ht
        rw [List.getElem?_take, if_pos]
        · exact h r t (by omega) ht
        · have := offs_succ_le (fun r => (f r).length) hr; omega
    · apply List.ext_getElem?
      intro t
      rw [List.getElem?_drop]
      by_cases ht : t < (f n).length
      · exact h n t (by omega) ht
      · rw [List.getElem?_eq_none (by omega), List.getElem?_eq_none (by omega)]

theorem ptrFrom_length (a : Int) (ls : List Nat) : (ptrFrom a ls).length = ls.length + 1 := by
  induction ls generalizing a with
  | nil => rfl
  | cons x t ih => simp [ptrFrom, ih]

theorem ptrFrom_getElem? (a : Int) (ls : List Nat) (k : Nat) :
    (ptrFrom a ls)[k]? = if k ≤ ls.length then some (a + (((ls.take k).sum : Nat) : Int)) else none := by
  induction ls generalizing a k with
  | nil => cases k <;> simp [ptrFrom]
  | cons x t ih =>
    cases k with
    | zero => simp [ptrFrom]
    | succ k =>
      simp only [ptrFrom, List.getElem?_cons_succ, ih, List.length_cons, List.take_succ_cons, List.sum_cons]
      by_cases hk : k ≤ t.length
      · rw [if_pos hk, if_pos (by omega)]; congr 1; push_cast; omega
      · rw [if_neg hk, if_neg (by omega)]

theorem take_map_range_sum (f : Nat → Nat) (n k : Nat) (hk : k ≤ n) :
    (((List.range n).map f).take k).sum = offs f k := by
  induction k with
  | zero => simp [offs]
  | succ k ih =>
    rw [List.take_add_one, List.sum_append, ih (by omega), List.getElem?_map, List.getElem?_range (by omega)]
    simp [offs]

theorem ptrFrom_eq_offsList (f : Nat → Nat) (n : Nat) : ptrFrom 0 ((List.range n).map f) = offsList f n := by
  apply eq_offsList _ _ _ (by simp [ptrFrom_length])
  intro k hk
  rw [ptrFrom_getElem?, if_pos (by simpa using hk), take_map_range_sum f n k hk]
  simp

/-- **the counting sort is the stable bucketing by row, each bucket sorted by `sort_row`** -/
theorem assemble_eq (zero : V) (chunk ncols : Nat) (kept : List (Nat × Int × V)) (hk : ∀ e ∈ kept, e.1 < chunk) :
    assemble zero chunk ncols kept = .ok
      ⟨chunk, ncols, offsList (cntRow kept) chunk,
       ((((List.range chunk).map (bucket kept)).map (sortRowN wrap32)).flatten).map (·.1),
       ((((List.range chunk).map (bucket kept)).map (sortRowN wrap32)).flatten).map (·.2)⟩ := by
  unfold assemble
  obtain ⟨cnt, hc1, hc2, hc3⟩ := count_phase kept (List.replicate (chunk + 1) (0 : Int))
    (fun e he => by rw [List.length_replicate]; have := hk e he; omega)
  rw [hc1]
  simp only []
  have hptr : partialSum cnt = offsList (cntRow kept) chunk :=
    prefix_phase kept chunk cnt (by rw [hc2, List.length_replicate]) hc3
  rw [hptr]
  have htot := offs_cnt_total kept chunk hk
  have hlast : (offsList (cntRow kept) chunk).getLast? = some ((kept.length : Nat) : Int) := by
    rw [List.getLast?_eq_getElem?, offsList_length, Nat.add_sub_cancel, offsList_getElem?, if_pos (Nat.le_refl _), htot]
  rw [hlast]
  simp only []
  rw [if_neg (by omega), Int.toNat_natCast, if_neg (by omega), List.take_length]
  have inv0 : ScInv kept [] chunk (offsList (cntRow kept) chunk, List.replicate kept.length ((0 : Int), zero)) := by
    refine ⟨offsList_length _ _, ?_, by simp, ?_⟩
    · intro k hk'
      rw [offsList_getElem?, if_pos hk']; simp [cntRow]
    · intro r t ht; simp [cntRow] at ht
  obtain ⟨st', hs1, inv⟩ := scatter_phase kept chunk hk kept [] _ (by simp) inv0
  rw [hs1]
  obtain ⟨ptr', cv⟩ := st'
  simp only []
  have hrot : (0 : Int) :: ptr'.dropLast = offsList (cntRow kept) chunk := by
    apply eq_offsList _ _ _ (by simp [inv.plen])
    intro k hk'
    cases k with
    | zero => simp [offs]
    | succ k =>
      rw [List.getElem?_cons_succ, List.dropLast_eq_take, List.getElem?_take, inv.plen, if_pos (by omega),
        inv.pval k (by omega)]
      simp [offs]
  rw [hrot]
  have hfun : (fun r => (bucket kept r).length) = cntRow kept := funext (bucket_length kept)
  have hcv : cv = ((List.range chunk).map (bucket kept)).flatten := by
    apply eq_flatten_of_segments
    · rw [hfun, htot]; exact inv.clen
    · intro r t _ ht
      rw [hfun]
      exact inv.cval r t (by rw [← bucket_length]; exact ht)
  have hsort := sortRows_flat wrap32 wrap32_le ((List.range chunk).map (bucket kept)) [] []
  simp only [List.nil_append, List.append_nil, List.length_nil, List.map_map] at hsort
  have hlens : (List.range chunk).map (List.length ∘ bucket kept) = (List.range chunk).map (cntRow kept) := by
    apply List.map_congr_left; intro r _; exact bucket_length kept r
  rw [hlens] at hsort
  have h0 : ((0 : Nat) : Int) = 0 := rfl
  rw [h0, ptrFrom_eq_offsList] at hsort
  rw [hcv, hsort]
  simp only [List.map_map]

/-- the rows the reader produces: bucket by row, each bucket through `sort_row` -/
def rowsOfN (narrow : Int → Int) (kept : List (Nat × Int × V)) (chunk : Nat) : List (List (Int × V)) :=
  ((List.range chunk).map (bucket kept)).map (sortRowN narrow)
def rowsOf (kept : List (Nat × Int × V)) (chunk : Nat) : List (List (Int × V)) := rowsOfN wrap32 kept chunk

theorem rowsOf_lengths (narrow : Int → Int) (kept : List (Nat × Int × V)) (chunk : Nat) :
    (((List.range chunk).map (bucket kept)).map (sortRowN narrow)).map List.length
      = (List.range chunk).map (cntRow kept) := by
  rw [List.map_map, List.map_map]; apply List.map_congr_left; intro r _
  simp only [Function.comp, sortRowN_length, bucket_length]

theorem assemble_eq_ofRows (zero : V) (chunk ncols : Nat) (kept : List (Nat × Int × V))
    (hk : ∀ e ∈ kept, e.1 < chunk) :
    assemble zero chunk ncols kept = .ok (RawCRS.ofRows chunk ncols (rowsOf kept chunk)) := by
  rw [assemble_eq zero chunk ncols kept hk]
  unfold RawCRS.ofRows rowsOf rowsOfN
  rw [rowsOf_lengths, ptrFrom_eq_offsList]

end Amgcl.IO
