import Amgcl.Model.Adapters
import Amgcl.Proofs.Primitives
import Amgcl.Proofs.KernelsCommon
import Mathlib.Algebra.BigOperators.Group.List.Basic
import Mathlib.Tactic.Ring
/-!
`unblock_matrix` and the block SpMV (C13): shape, rows, denotation, and
"block SpMV on reinterpreted scalar vectors = scalar SpMV of the unblocked matrix".
-/
namespace Amgcl.Adapters
open Amgcl Amgcl.K2

section shape
variable {K : Type} [Zero K]

theorem unblock_nrows (b : Nat) (B : CRS (Blk K)) : (unblock b B).nrows = B.nrows * b := by
  simp [unblock, CRS.nrows]

theorem unblock_ncols (b : Nat) (B : CRS (Blk K)) : (unblock b B).ncols = B.ncols * b := rfl

theorem unblock_row (b : Nat) (B : CRS (Blk K)) (ia : Nat) (h : ia < B.nrows * b) :
    (unblock b B).row ia = unblockRow b (ia % b) (B.row (ia / b)) := by
  have h' : ia < (unblock b B).rows.size := by simpa [unblock, CRS.nrows] using h
  rw [row_eq_getElem _ h']
  simp [unblock]

theorem unblock_row_block (b : Nat) (hb : 0 < b) (B : CRS (Blk K)) (I i : Nat) (hI : I < B.nrows) (hi : i < b) :
    (unblock b B).row (I * b + i) = unblockRow b i (B.row I) := by
  have h : I * b + i < B.nrows * b := by
    calc I * b + i < I * b + b := by omega
      _ = (I + 1) * b := by ring
      _ ≤ B.nrows * b := Nat.mul_le_mul_right b hI
  rw [unblock_row b B _ h]
  have e1 : (I * b + i) % b = i := by rw [Nat.add_comm, Nat.add_mul_mod_self_right, Nat.mod_eq_of_lt hi]
  have e2 : (I * b + i) / b = I := by
    rw [Nat.add_comm, Nat.add_mul_div_right _ _ hb, Nat.div_eq_of_lt hi, Nat.zero_add]
  rw [e1, e2]

theorem unblockRow_nil (b i : Nat) : unblockRow b i ([] : Row (Blk K)) = [] := rfl

theorem unblockRow_cons (b i : Nat) (cv : Nat × Blk K) (t : Row (Blk K)) :
    unblockRow b i (cv :: t)
      = (List.range b).map (fun j => (cv.1 * b + j, cv.2.getD (i * b + j) 0)) ++ unblockRow b i t := by
  unfold unblockRow; rw [List.flatMap_cons]

theorem unblockRow_length (b i : Nat) (r : Row (Blk K)) : (unblockRow b i r).length = b * r.length := by
  induction r with
  | nil => simp [unblockRow_nil]
  | cons cv t ih => rw [unblockRow_cons, List.length_append, ih]; simp [Nat.mul_succ, Nat.add_comm]

/-- columns of the unblocked matrix are in range -/
theorem unblock_wf (b : Nat) (B : CRS (Blk K)) (hB : B.WF) : (unblock b B).WF := by
  rw [wf_iff_row]
  intro ia hia cv hcv
  rw [unblock_nrows] at hia
  rw [unblock_row b B ia hia] at hcv
  unfold unblockRow at hcv
  obtain ⟨e, he, hcv'⟩ := List.mem_flatMap.1 hcv
  obtain ⟨j, hj, rfl⟩ := List.mem_map.1 hcv'
  have hj' : j < b := List.mem_range.1 hj
  have hc : e.1 < B.ncols := row_col_lt hB _ he
  show e.1 * b + j < B.ncols * b
  calc e.1 * b + j < e.1 * b + b := by omega
    _ = (e.1 + 1) * b := by ring
    _ ≤ B.ncols * b := Nat.mul_le_mul_right b hc

end shape

/-! ## denotation of an unblocked row -/
section denote
variable {K : Type} [AddCommMonoid K]

/-- the entries of one block spread over the scalar row -/
theorem rowGet_block_entries (b : Nat) (hb : 0 < b) (C : Nat) (g : Nat → K) (c : Nat) :
    rowGet ((List.range b).map (fun j => (C * b + j, g j))) c = if C = c / b then g (c % b) else 0 := by
  -- every column `C*b + j`, `j < b`, occurs exactly once
  have key : ∀ (n : Nat), n ≤ b →
      rowGet ((List.range n).map (fun j => (C * b + j, g j))) c
        = if C = c / b ∧ c % b < n then g (c % b) else 0 := by
    intro n
    induction n with
    | zero => intro _; simp
    | succ n ih =>
      intro hn
      rw [List.range_succ, List.map_append, rowGet_append, ih (by omega), List.map_singleton, rowGet_singleton]
      by_cases h1 : C * b + n = c
      · have hq : c / b = C := by
          rw [← h1, Nat.add_comm, Nat.add_mul_div_right _ _ hb, Nat.div_eq_of_lt (by omega), Nat.zero_add]
        have hr : c % b = n := by
          rw [← h1, Nat.add_comm, Nat.add_mul_mod_self_right, Nat.mod_eq_of_lt (by omega)]
        rw [if_pos h1, if_neg (by rw [hr]; omega), zero_add, if_pos ⟨hq.symm, by omega⟩, hr]
      · have : ¬ (C = c / b ∧ c % b = n) := by
          rintro ⟨e1, e2⟩
          apply h1
          rw [e1, ← e2, Nat.mul_comm]; exact Nat.div_add_mod c b
        rw [if_neg h1, add_zero]
        by_cases h2 : C = c / b ∧ c % b < n
        · rw [if_pos h2, if_pos ⟨h2.1, by omega⟩]
        · rw [if_neg h2, if_neg]
          rintro ⟨e1, e2⟩
          exact h2 ⟨e1, by have : c % b ≠ n := fun e => this ⟨e1, e⟩; omega⟩
  rw [key b (Nat.le_refl b)]
  have : c % b < b := Nat.mod_lt c hb
  simp [this]

variable [Zero K]

/-- **denotation of `unblock_matrix`**: entry `(I*b+i, c)` is the sum over the stored blocks of block row `I` with
block column `c / b` of their `(i, c % b)` component -/
theorem rowGet_unblockRow {K : Type} [AddCommMonoid K] (b : Nat) (hb : 0 < b) (i : Nat) (r : Row (Blk K)) (c : Nat) :
    rowGet (unblockRow b i r) c
      = rowGet (r.map (fun cv => (cv.1, cv.2.getD (i * b + c % b) 0))) (c / b) := by
  induction r with
  | nil => rfl
  | cons cv t ih =>
    rw [unblockRow_cons, rowGet_append, ih, List.map_cons, rowGet_cons',
      rowGet_block_entries b hb cv.1 (fun j => cv.2.getD (i * b + j) 0) c]

end denote

/-! ## block SpMV = scalar SpMV of the unblocked matrix -/
section spmv
variable {K : Type} [CommRing K]

theorem foldl_add_eq_sum {α : Type} (l : List α) (f : α → K) (s : K) :
    l.foldl (fun s a => s + f a) s = s + (l.map f).sum := by
  induction l generalizing s with
  | nil => simp
  | cons a t ih => simp only [List.foldl_cons, List.map_cons, List.sum_cons]; rw [ih]; ring

theorem blkRowDot_eq (b : Nat) (r : Row (Blk K)) (x : Vec K) (i : Nat) :
    blkRowDot b r x i = rowDot (unblockRow b i r) x := by
  unfold blkRowDot
  rw [rowDot_eq_listSum, foldl_add_eq_sum, zero_add]
  induction r with
  | nil => rfl
  | cons cv t ih =>
    rw [List.map_cons, List.sum_cons, ih, unblockRow_cons, List.map_append, List.sum_append, foldl_add_eq_sum,
      zero_add, List.map_map]
    rfl

variable [DecidableEq K]

/-- **`unblock_spmv`**: `spmv(α, B, x, β, y)` at the block value type on the reinterpreted scalar vectors gives, entry
by entry, the same vector as the scalar `spmv(α, unblock_matrix(B), x, β, y)`. -/
theorem blockSpmv_eq_spmv_unblock (b : Nat) (α β : K) (B : CRS (Blk K)) (x y : Vec K) :
    blockSpmv b α B x β y = spmv α (unblock b B) x β y := by
  unfold blockSpmv spmv
  have hn : (unblock b B).nrows = B.nrows * b := unblock_nrows b B
  by_cases hβ : β = 0
  · rw [if_pos hβ, if_pos hβ]
    apply Vec.ext_getD (0 : K) (by simp [hn])
    intro ia hia
    have h1 : ia < B.nrows * b := by simpa using hia
    have h2 : ia < (unblock b B).nrows := by rw [hn]; exact h1
    rw [getD_ofFn_lt _ _ _ h1, getD_ofFn_lt _ _ _ h2, blkRowDot_eq, unblock_row b B ia h1]
    ring
  · rw [if_neg hβ, if_neg hβ]
    apply Vec.ext_getD (0 : K) (by simp [hn])
    intro ia hia
    have h1 : ia < B.nrows * b := by simpa using hia
    have h2 : ia < (unblock b B).nrows := by rw [hn]; exact h1
    rw [getD_ofFn_lt _ _ _ h1, getD_ofFn_lt _ _ _ h2, blkRowDot_eq, unblock_row b B ia h1]
    ring

end spmv

end Amgcl.Adapters
