import Amgcl.Model.LockstepIDRs
import Amgcl.Proofs.LockstepHess
/-!
The serial semantics of the IDR(s) CONSTRUCTOR program `Lockstep.IDRs.ctorProg` (idrs.hpp:205-216) is the model's
`Solver.IDRs.makeP`: the registers `vP i` end up holding `makeP raw`, every other register is untouched.
-/
namespace Amgcl.Lockstep.IDRs
open Amgcl Amgcl.Solver Amgcl.Lockstep

variable {K : Type} [Add K] [Mul K] [Sub K] [Neg K] [Zero K] [One K] [Div K] [DecidableEq K] [LT K] [DecidableLT K]

theorem vP_inj : ∀ a b, vP a = vP b → a = b := by
  intro a b h; unfold vP at h; omega

/-- the body of `for(k = 0; k < j; ++k)` -/
def gsInner : Prog K (S K) := seqs [
  .prim (.ip (fun e w => { e with alpha := w }) (fun e => vP e.k) (fun e => vP e.j)),
  .prim (.axpby (fun e => -e.alpha) (fun e => vP e.k) (fun _ => 1) (fun e => vP e.j))]

/-- the body of `for(j = 0; j < s; ++j)` -/
def gsOuter (sqrt : K → K) : Prog K (S K) := seqs [
  .forN (fun e => e.j) (fun e k => { e with k := k }) gsInner,
  .prim (.ip (fun e w => { e with tmp := Solver.absK (sqrt w) }) (fun e => vP e.j) (fun e => vP e.j)),
  .prim (.axpby (fun e => inv1 e.tmp) (fun e => vP e.j) (fun _ => 0) (fun e => vP e.j))]

theorem ctorProg_eq (s : Nat) (sqrt : K → K) :
    ctorProg s sqrt = .forN (fun _ => s) (fun e j => { e with j := j }) (gsOuter sqrt) := rfl

/-- the first `n` passes of the inner loop on `*P[j]` -/
def gsAcc (ip : Vec K → Vec K → K) (vec : Nat → Vec K) (j n : Nat) : Vec K :=
  (List.range n).foldl (fun pj k => axpby (-(ip (vec (vP k)) pj)) (vec (vP k)) 1 pj) (vec (vP j))

theorem gsAcc_succ (ip : Vec K → Vec K → K) (vec : Nat → Vec K) (j n : Nat) :
    gsAcc ip vec j (n + 1)
      = axpby (-(ip (vec (vP n)) (gsAcc ip vec j n))) (vec (vP n)) 1 (gsAcc ip vec j n) := by
  unfold gsAcc
  rw [List.range_succ, List.foldl_append]
  rfl

theorem inner_fold (A : CRS K) (P : Vec K → Vec K) (ip : Vec K → Vec K → K) (m : St K (S K)) :
    ∀ n, n ≤ m.scal.j → ∃ sc : S K, sc.j = m.scal.j ∧
      (List.range n).foldl (fun s k => run A P ip gsInner { s with scal := { s.scal with k := k } }) m
        = { vec := upd m.vec (vP m.scal.j) (gsAcc ip m.vec m.scal.j n), scal := sc } := by
  intro n
  induction n with
  | zero =>
    intro _
    refine ⟨m.scal, rfl, ?_⟩
    simp only [List.range_zero, List.foldl_nil, gsAcc]
    rw [GMRES.upd_self]
  | succ n ih =>
    intro hn
    obtain ⟨sc, hj, hk⟩ := ih (by omega)
    have hne : vP n ≠ vP m.scal.j := fun h => by have := vP_inj _ _ h; omega
    refine ⟨{ sc with k := n, alpha := ip (m.vec (vP n)) (gsAcc ip m.vec m.scal.j n) }, hj, ?_⟩
    rw [List.range_succ, List.foldl_append, hk, gsAcc_succ]
    simp only [List.foldl_cons, List.foldl_nil, gsInner, seqs, run, step, hj, upd_apply, if_neg hne, if_true,
      GMRES.upd_upd]

/-- one pass `j` of the outer loop on the shadow space -/
def gsStep (ip : Vec K → Vec K → K) (sqrt : K → K) (Pv : FArr (Vec K)) (j : Nat) : FArr (Vec K) :=
  let pj := (List.range j).foldl (fun pj k => axpby (-(ip (Pv k) pj)) (Pv k) 1 pj) (Pv j)
  setF Pv j (axpby (inv1 (nrmA ip sqrt pj)) pj 0 pj)

theorem makeP_eq_fold (ip : Vec K → Vec K → K) (sqrt : K → K) (s : Nat) (raw : FArr (Vec K)) :
    Solver.IDRs.makeP ip sqrt s raw = (List.range s).foldl (gsStep ip sqrt) raw := rfl

theorem outer_run (A : CRS K) (P : Vec K → Vec K) (ip : Vec K → Vec K → K) (sqrt : K → K) (m : St K (S K)) :
    shadowOf (run A P ip (gsOuter sqrt) m) = gsStep ip sqrt (shadowOf m) m.scal.j ∧
    ∀ v, (∀ i, v ≠ vP i) → (run A P ip (gsOuter sqrt) m).vec v = m.vec v := by
  obtain ⟨sc, hj, hk⟩ := inner_fold A P ip m m.scal.j (Nat.le_refl _)
  have hrun : run A P ip (gsOuter sqrt) m
      = { vec := upd m.vec (vP m.scal.j)
            (axpby (inv1 (nrmA ip sqrt (gsAcc ip m.vec m.scal.j m.scal.j))) (gsAcc ip m.vec m.scal.j m.scal.j) 0
              (gsAcc ip m.vec m.scal.j m.scal.j)),
          scal := { sc with tmp := nrmA ip sqrt (gsAcc ip m.vec m.scal.j m.scal.j) } } := by
    simp only [gsOuter, seqs, run, hk, step, hj, upd_apply, if_true, GMRES.upd_upd, nrmA]
  rw [hrun]
  refine ⟨?_, fun v hv => ?_⟩
  · simp only [shadowOf, gsStep, setF, upd_apply]
    congr 1
    funext i
    by_cases hi : i = m.scal.j
    · subst hi; simp only [if_true]; rfl
    · have h1 : vP i ≠ vP m.scal.j := fun h => hi (vP_inj _ _ h)
      simp only [if_neg h1, if_neg hi]
  · simp only [upd_apply, if_neg (hv _)]

theorem ctor_fold (A : CRS K) (P : Vec K → Vec K) (ip : Vec K → Vec K → K) (sqrt : K → K) (m : St K (S K)) :
    ∀ n, shadowOf ((List.range n).foldl
          (fun s j => run A P ip (gsOuter sqrt) { s with scal := { s.scal with j := j } }) m)
        = (List.range n).foldl (gsStep ip sqrt) (shadowOf m) ∧
      ∀ v, (∀ i, v ≠ vP i) → ((List.range n).foldl
          (fun s j => run A P ip (gsOuter sqrt) { s with scal := { s.scal with j := j } }) m).vec v = m.vec v := by
  intro n
  induction n with
  | zero => exact ⟨rfl, fun _ _ => rfl⟩
  | succ n ih =>
    obtain ⟨h1, h2⟩ := ih
    rw [List.range_succ, List.foldl_append, List.foldl_append]
    simp only [List.foldl_cons, List.foldl_nil]
    obtain ⟨g1, g2⟩ := outer_run A P ip sqrt
      { ((List.range n).foldl (fun s j => run A P ip (gsOuter sqrt) { s with scal := { s.scal with j := j } }) m) with
        scal := { ((List.range n).foldl
          (fun s j => run A P ip (gsOuter sqrt) { s with scal := { s.scal with j := j } }) m).scal with j := n } }
    refine ⟨?_, fun v hv => ?_⟩
    · rw [g1, ← h1]; rfl
    · rw [g2 v hv]; exact h2 v hv

/-- **the serial semantics of the constructor program is `Solver.IDRs.makeP`**: the shadow-space registers hold
`makeP raw`, every other register keeps its content -/
theorem ctor_eq_makeP (A : CRS K) (P : Vec K → Vec K) (ip : Vec K → Vec K → K) (sqrt : K → K) (s : Nat)
    (m : St K (S K)) :
    shadowOf (run A P ip (ctorProg s sqrt) m) = Solver.IDRs.makeP ip sqrt s (shadowOf m) ∧
    ∀ v, (∀ i, v ≠ vP i) → (run A P ip (ctorProg s sqrt) m).vec v = m.vec v := by
  rw [ctorProg_eq, makeP_eq_fold]
  exact ctor_fold A P ip sqrt m s

/-- the shadow-space registers of the initial program state are the given vectors -/
theorem shadowOf_init (Pv : FArr (Vec K)) (ws : Solver.IDRs.Work K) (f x0 : Vec K) :
    shadowOf (initState Pv ws f x0) = Pv := by
  obtain ⟨g⟩ := Pv
  unfold shadowOf
  congr 1
  funext i
  have h1 : vP i ≠ vF := by unfold vP vF; omega
  have h2 : vP i ≠ vX := by unfold vP vX; omega
  have h3 : vP i ≠ vRr := by unfold vP vRr; omega
  have h4 : vP i ≠ vV := by unfold vP vV; omega
  have h5 : vP i ≠ vT := by unfold vP vT; omega
  have h6 : vP i ≠ vXs := by unfold vP vXs; omega
  have h7 : vP i ≠ vRs := by unfold vP vRs; omega
  have h8 : ¬ (vP i % 3 = 1) := by unfold vP; omega
  have h9 : ¬ (vP i % 3 = 2) := by unfold vP; omega
  have h10 : (vP i - 9) / 3 = i := by unfold vP; omega
  simp only [initState, if_neg h1, if_neg h2, if_neg h3, if_neg h4, if_neg h5, if_neg h6, if_neg h7, if_neg h8,
    if_neg h9, h10]

end Amgcl.Lockstep.IDRs
