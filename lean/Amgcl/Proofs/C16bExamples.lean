import Amgcl.Proofs.QRCompute
import Amgcl.Model.Rsqrt
import Mathlib.Algebra.Order.Field.Rat
import Mathlib.LinearAlgebra.Matrix.Determinant.Basic
import Mathlib.Tactic.NormNum
import Mathlib.Tactic.FinCases
import Mathlib.Tactic.Linarith
/-!
Concrete data over `ℚ` for the non-vacuity examples of `Properties/C16b.lean` (Householder QR with the executable `rsqrt`):
the numbers are chosen such that every square root taken is exact (`3² + 4² = 5²` twice).

* `exTallRM` / `exTallCM` — the `3×2` matrix `[[3,0],[4,5],[0,4]]` in row-major / column-major storage;
* `exWideRM` — the `2×3` matrix `[[3,1,2],[4,0,1]]` (`exTallCM` read row-major is the `2×3` matrix `[[3,4,0],[0,5,4]]`, whose
  transpose is the tall example: used for the wide branch of `solve`); `exSq` — the `2×2` matrix `[[3,1],[4,2]]`;
* `exCol` — the column `(3,4,0)` for the reflector lemma.
-/
namespace Amgcl.C16bEx
open Amgcl Amgcl.QRModel

abbrev exCol : Array ℚ := #[3, 4, 0]
abbrev exTallRM : Array ℚ := #[3, 0, 4, 5, 0, 4]
abbrev exTallCM : Array ℚ := #[3, 4, 0, 0, 5, 4]
abbrev exWideRM : Array ℚ := #[3, 1, 2, 4, 0, 1]
abbrev exSq : Array ℚ := #[3, 1, 4, 2]

theorem exTallRM_roots : ExactRoots Amgcl.rsqrt 3 2 2 1 exTallRM #[] := by decide +kernel
theorem exTallCM_roots : ExactRoots Amgcl.rsqrt 3 2 1 3 exTallCM #[] := by decide +kernel
theorem exWideRM_roots : ExactRoots Amgcl.rsqrt 2 3 3 1 exWideRM #[] := by decide +kernel
theorem exSq_roots : ExactRoots Amgcl.rsqrt 2 2 2 1 exSq #[] := by decide +kernel

theorem exTallRM_rank : ∀ y : Fin 2 → ℚ, Matrix.mulVec (matOf exTallRM 2 1 3 2) y = 0 → y = 0 := by
  intro y hy
  have h0 := congrFun hy 0
  have h1 := congrFun hy 1
  simp [matOf, Matrix.mulVec, dotProduct, Fin.sum_univ_two, Array.getD] at h0 h1
  funext l
  fin_cases l
  · simpa using h0
  · have : y 0 = 0 := h0
    rw [this] at h1
    simpa using h1

/-- `exTallCM` read as the row-major `2×3` matrix `[[3,4,0],[0,5,4]]` has linearly independent rows -/
theorem exWide_rank : ∀ y : Fin 2 → ℚ, Matrix.mulVec (matOf exTallCM 3 1 2 3).transpose y = 0 → y = 0 := by
  intro y hy
  have h0 := congrFun hy 0
  have h1 := congrFun hy 1
  simp [matOf, Matrix.mulVec, dotProduct, Fin.sum_univ_two, Array.getD] at h0 h1
  funext l
  fin_cases l
  · simpa using h0
  · have : y 0 = 0 := h0
    rw [this] at h1
    simpa using h1

theorem exSq_det : (matOf exSq 2 1 2 2).det ≠ 0 := by
  rw [Matrix.det_fin_two]; norm_num [matOf, Array.getD]

end Amgcl.C16bEx
