import Amgcl.Proofs.SolverGMRES
import Amgcl.Proofs.SolverFGMRES
import Mathlib.Tactic.FieldSimp
/-!
One-step convergence of GMRES / FGMRES with an exact (right) preconditioner, assuming the square root is exact on
the one number `⟨r₀,r₀⟩` it is applied to (C05).  The proof follows the code through its first Arnoldi step:
`v₀ = r₀/‖r₀‖`, `A P v₀ = v₀`, `H(0,0) = ⟨v₀,v₀⟩ = 1`, `v_new = 0`, `H(1,0) = 0`, rotation `(1, 0)`,
`s = (‖r₀‖, 0)`, `inner_res = 0`, back substitution `s₀ = ‖r₀‖`, `dx = ‖r₀‖·v₀ = r₀`, `x = x₀ + P r₀`.
-/
namespace Amgcl.Solver
open Amgcl
set_option linter.unusedSectionVars false
set_option linter.unusedSimpArgs false

variable {K : Type} [Field K] [DecidableEq K] [LT K] [DecidableLT K]

theorem absK_mul_self (x : K) : absK x * absK x = x * x := by
  unfold absK; split <;> ring

/-- `‖r‖² = ⟨r,r⟩` when the root is exact on `⟨r,r⟩` -/
theorem nrmA_sq (ip : Vec K → Vec K → K) (sqrt : K → K) (r : Vec K)
    (hroot : sqrt (ip r r) * sqrt (ip r r) = ip r r) : nrmA ip sqrt r * nrmA ip sqrt r = ip r r := by
  unfold nrmA; rw [absK_mul_self, hroot]

/-- the normalised vector `r/‖r‖` has `⟨v,v⟩ = 1` (inner product homogeneous, exact root, `⟨r,r⟩ ≠ 0`) -/
theorem ip_normalised (ip : Vec K → Vec K → K) (sqrt : K → K) (r z z' : Vec K)
    (hip : ∀ (a : K) (u z z' : Vec K), ip (axpby a u 0 z) (axpby a u 0 z') = a * a * ip u u)
    (hroot : sqrt (ip r r) * sqrt (ip r r) = ip r r) (hne : ip r r ≠ 0) :
    ip (axpby (inv1 (nrmA ip sqrt r)) r 0 z) (axpby (inv1 (nrmA ip sqrt r)) r 0 z') = 1 := by
  rw [hip]
  have h := nrmA_sq ip sqrt r hroot
  have hn : nrmA ip sqrt r ≠ 0 := by
    intro h0; rw [h0] at h; simp at h; exact hne h.symm
  unfold inv1
  rw [← h]; field_simp

/-- `‖r‖ · (r/‖r‖) = r` -/
theorem scale_back (ip : Vec K → Vec K → K) (sqrt : K → K) (r z z' : Vec K)
    (hn : nrmA ip sqrt r ≠ 0) :
    axpby (nrmA ip sqrt r) (axpby (inv1 (nrmA ip sqrt r)) r 0 z) 0 z' = r := by
  apply Vec.ext_getD (0 : K)
  · rw [axpby_size, axpby_size]
  · intro i hi
    rw [axpby_size, axpby_size] at hi
    rw [axpby_getD _ _ _ _ _ (by rw [axpby_size]; exact hi), axpby_getD _ _ _ _ _ hi]
    unfold inv1; field_simp; ring

/-- the first Hessenberg step when `v_new = v[0]` and `⟨v[0],v[0]⟩ = 1`: `H(0,0) = 1`, `s[0]` unchanged,
`inner_res = 0` -/
theorem hessStep_first (ip : Vec K → Vec K → K) (sqrt : K → K) (v : FArr (Vec K)) (h : Hess K) (nr : K)
    (hs : h.s = sInit nr) (h1 : ip (v.get 0) (v.get 0) = 1)
    (hz : nrmA ip sqrt (vclear (v.get 0).size) = 0) :
    (hessStep ip sqrt v 0 h (v.get 0)).1.H.get 0 0 = 1 ∧ (hessStep ip sqrt v 0 h (v.get 0)).1.s.get 0 = nr ∧
    (hessStep ip sqrt v 0 h (v.get 0)).2.2 = 0 := by
  have hm : mgs ip v 0 h.H (v.get 0) = (setF2 h.H 0 0 1, vclear (v.get 0).size) := by
    unfold mgs
    simp only [List.range_succ, List.range_zero, List.nil_append, List.foldl_cons, List.foldl_nil, h1,
      setF2_same]
    rw [axpby_cancel]
  have ho : orth ip sqrt v 0 h.H (v.get 0)
      = (setF2 (setF2 h.H 0 0 1) 1 0 0,
         axpby (inv1 0) (vclear (v.get 0).size) 0 (vclear (v.get 0).size)) := by
    unfold orth
    simp only [hm, hz, setF2_same]
  unfold hessStep
  simp only [ho]
  unfold rotate rotCol
  simp only [List.range_zero, List.foldl_nil, hs]
  have e00 : (setF2 (setF2 h.H 0 0 (1 : K)) 1 0 0).get 0 0 = 1 := by simp [setF2_get]
  have e10 : (setF2 (setF2 h.H 0 0 (1 : K)) 1 0 0).get 1 0 = 0 := by simp [setF2_get]
  have s0 : (sInit nr).get 0 = nr := by simp [sInit, setF_get]
  have s1 : (sInit nr).get 1 = 0 := by simp [sInit, setF_get]
  simp only [e00, e10, s0, s1, genRot, applyRot, setF_same, setF2_same, if_true]
  refine ⟨by ring, ?_, ?_⟩
  · simp [setF_get]
  · simp [setF_get, absK_zero]

theorem backSubst_one (H : FArr2 K) (s : FArr K) : (backSubst 1 H s).get 0 = s.get 0 / H.get 0 0 := by
  simp [backSubst, setF_get]

theorem combList_one (c : Nat → K) (v : Nat → Vec K) : combList 1 c v = [(c 0, v 0)] := by
  simp [combList]

/-- the true residual after the update `x₀ + P r₀` with an exact right preconditioner is zero -/
theorem residual_after_exact (A : CRS K) (hA : A.WF) (P : Vec K → Vec K) (hP : ∀ v, (P v).size = A.ncols)
    (hAP : ∀ v z, v.size = A.nrows → spmv 1 A (P v) 0 z = v) (f x0 : Vec K) :
    residual f A (axpby 1 (P (residual f A x0)) 1 x0) = vclear A.nrows := by
  rw [← paired_update_inv f A hA 1 (P (residual f A x0)) x0 x0 (by rw [hP]),
    hAP _ _ (residual_size' f A x0), axpby_cancel, residual_size']

namespace GMRES

/-- hypotheses of the exact-preconditioner statements, collected -/
structure ExactHyp (ip : Vec K → Vec K → K) (sqrt : K → K) (A : CRS K) (P : Vec K → Vec K) (r0 : Vec K)
    (epsT : K) : Prop where
  wf : A.WF
  psize : ∀ v, (P v).size = A.ncols
  exact : ∀ v z, v.size = A.nrows → spmv 1 A (P v) 0 z = v
  ip_smul : ∀ (a : K) (u z z' : Vec K), ip (axpby a u 0 z) (axpby a u 0 z') = a * a * ip u u
  root : sqrt (ip r0 r0) * sqrt (ip r0 r0) = ip r0 r0
  ne : ip r0 r0 ≠ 0
  zero : nrmA ip sqrt (vclear A.nrows) = 0
  start : ¬ nrmA ip sqrt r0 < epsT
  eps_nonneg : ¬ epsT < 0
  eps_pos : 0 < epsT

theorem nr_ne (ip : Vec K → Vec K → K) (sqrt : K → K) (r : Vec K)
    (hroot : sqrt (ip r r) * sqrt (ip r r) = ip r r) (hne : ip r r ≠ 0) : nrmA ip sqrt r ≠ 0 := by
  intro h0
  have h := nrmA_sq ip sqrt r hroot
  rw [h0] at h; simp at h; exact hne h.symm

/-- the first inner step from the state at the first `break` test (right preconditioning, exact `P`) -/
theorem first_step (prm : Params K) (hside : prm.pside = .right) (ip : Vec K → Vec K → K) (sqrt : K → K)
    (A : CRS K) (P : Vec K → Vec K) (ws : Work K) (f x0 : Vec K) (epsT : K)
    (hy : ExactHyp ip sqrt A P (residual f A x0) epsT) :
    let st0 := init prm ip sqrt A P ws f x0
    let t1 := step .right ip sqrt A P (cycleStart st0)
    t1.j = 1 ∧ t1.iter = 1 ∧ t1.innerRes = 0 ∧ t1.w.h.H.get 0 0 = 1 ∧
    t1.w.h.s.get 0 = nrmA ip sqrt (residual f A x0) ∧
    t1.w.v.get 0 = axpby (inv1 (nrmA ip sqrt (residual f A x0))) (residual f A x0) 0 (ws.v.get 0) := by
  intro st0 t1
  have hr : st0.w.r = residual f A x0 := by
    show (init prm ip sqrt A P ws f x0).w.r = _
    unfold init; rw [head_r, hside]; rfl
  have hn : st0.normR = nrmA ip sqrt (residual f A x0) := by
    show (init prm ip sqrt A P ws f x0).normR = _
    unfold init; rw [head_normR, hside]; rfl
  have hv : st0.w.v = ws.v := by
    show (init prm ip sqrt A P ws f x0).w.v = _
    unfold init; rw [hside]; rfl
  have hit : st0.iter = 0 := init_iter prm ip sqrt A P ws f x0
  set v0 := axpby (inv1 (nrmA ip sqrt (residual f A x0))) (residual f A x0) 0 (ws.v.get 0) with hv0
  have hcv : (cycleStart st0).w.v.get 0 = v0 := by
    simp only [cycleStart, setF_same, hn, hr, hv, hv0]
  have hcs : (cycleStart st0).w.h.s = sInit (nrmA ip sqrt (residual f A x0)) := by
    simp only [cycleStart, hn]
  have hsz : v0.size = A.nrows := by rw [hv0, axpby_size, residual_size']
  have h1 : ip ((cycleStart st0).w.v.get 0) ((cycleStart st0).w.v.get 0) = 1 := by
    rw [hcv, hv0]; exact ip_normalised ip sqrt _ _ _ hy.ip_smul hy.root hy.ne
  have hz : nrmA ip sqrt (vclear ((cycleStart st0).w.v.get 0).size) = 0 := by rw [hcv, hsz]; exact hy.zero
  have hx : (pspmv .right P A ((cycleStart st0).w.v.get 0) ((cycleStart st0).w.v.get (0 + 1)) (cycleStart st0).w.r).1
      = (cycleStart st0).w.v.get 0 := by
    simp only [pspmv]
    rw [hcv]; exact hy.exact v0 _ hsz
  obtain ⟨g1, g2, g3⟩ := hessStep_first ip sqrt (cycleStart st0).w.v (cycleStart st0).w.h _ hcs h1 hz
  have hj : (cycleStart st0).j = 0 := rfl
  refine ⟨rfl, ?_, ?_, ?_, ?_, ?_⟩
  · show (cycleStart st0).iter + 1 = 1
    show st0.iter + 1 = 1
    rw [hit]
  · show (hessStep ip sqrt (cycleStart st0).w.v (cycleStart st0).j (cycleStart st0).w.h
      (pspmv .right P A ((cycleStart st0).w.v.get (cycleStart st0).j)
        ((cycleStart st0).w.v.get ((cycleStart st0).j + 1)) (cycleStart st0).w.r).1).2.2 = 0
    rw [hj, hx]; exact g3
  · show (hessStep ip sqrt (cycleStart st0).w.v (cycleStart st0).j (cycleStart st0).w.h
      (pspmv .right P A ((cycleStart st0).w.v.get (cycleStart st0).j)
        ((cycleStart st0).w.v.get ((cycleStart st0).j + 1)) (cycleStart st0).w.r).1).1.H.get 0 0 = 1
    rw [hj, hx]; exact g1
  · show (hessStep ip sqrt (cycleStart st0).w.v (cycleStart st0).j (cycleStart st0).w.h
      (pspmv .right P A ((cycleStart st0).w.v.get (cycleStart st0).j)
        ((cycleStart st0).w.v.get ((cycleStart st0).j + 1)) (cycleStart st0).w.r).1).1.s.get 0 = _
    rw [hj, hx]; exact g2
  · show (setF (cycleStart st0).w.v ((cycleStart st0).j + 1) _).get 0 = v0
    rw [setF_other _ _ _ _ (by rw [hj]; omega)]; exact hcv

/-- the whole first cycle: one iteration, `x = x₀ + P r₀` -/
theorem first_cycle (prm : Params K) (hside : prm.pside = .right) (ip : Vec K → Vec K → K) (sqrt : K → K)
    (A : CRS K) (P : Vec K → Vec K) (ws : Work K) (f x0 : Vec K) (epsT : K)
    (hy : ExactHyp ip sqrt A P (residual f A x0) epsT) :
    (cycle prm ip sqrt A P epsT (init prm ip sqrt A P ws f x0)).iter = 1 ∧
    (cycle prm ip sqrt A P epsT (init prm ip sqrt A P ws f x0)).x = axpby 1 (P (residual f A x0)) 1 x0 := by
  obtain ⟨t_j, t_it, t_res, t_H, t_s, t_v⟩ := first_step prm hside ip sqrt A P ws f x0 epsT hy
  have hin : inner prm ip sqrt A P epsT (init prm ip sqrt A P ws f x0)
      = step .right ip sqrt A P (cycleStart (init prm ip sqrt A P ws f x0)) := by
    unfold inner doWhile
    rw [hside]
    apply loopN_of_not_cond
    simp only [cont, t_res, Bool.not_eq_false', Bool.or_eq_true, Bool.not_eq_true', decide_eq_true_eq,
      decide_eq_false_iff_not]
    exact Or.inr hy.eps_nonneg
  unfold cycle
  rw [hin, update_iter, hside]
  refine ⟨t_it, ?_⟩
  have hx0 : (init prm ip sqrt A P ws f x0).x = x0 := init_x prm ip sqrt A P ws f x0
  show axpby 1 (P (linComb (combList _ (backSubst _ _ _).get _) 0 _)) 1 (init prm ip sqrt A P ws f x0).x = _
  rw [hx0, t_j, combList_one, backSubst_one, t_H, t_s, t_v, div_one]
  simp only [linComb, linCombTail]
  rw [scale_back ip sqrt _ _ _ (nr_ne ip sqrt _ hy.root hy.ne)]

/-- **the state at the `break`**: exactly one iteration, `norm_r = 0`, `x = x₀ + P r₀` -/
theorem exact_final (prm : Params K) (hside : prm.pside = .right) (ip : Vec K → Vec K → K) (sqrt : K → K)
    (A : CRS K) (P : Vec K → Vec K) (ws : Work K) (f x0 : Vec K) (nf : K) (hmax : 1 ≤ prm.maxiter)
    (hy : ExactHyp ip sqrt A P (residual f A x0) (epsTol prm nf)) :
    (final prm ip sqrt A P ws f x0 nf).iter = 1 ∧ (final prm ip sqrt A P ws f x0 nf).normR = 0 ∧
    (final prm ip sqrt A P ws f x0 nf).x = axpby 1 (P (residual f A x0)) 1 x0 := by
  obtain ⟨c1, c2⟩ := first_cycle prm hside ip sqrt A P ws f x0 (epsTol prm nf) hy
  obtain ⟨m, hm⟩ : ∃ m, prm.maxiter = m + 1 := ⟨prm.maxiter - 1, by omega⟩
  have hn0 : (init prm ip sqrt A P ws f x0).normR = nrmA ip sqrt (residual f A x0) := by
    unfold init; rw [head_normR, hside]; rfl
  have hc0 : (!stop prm.maxiter (epsTol prm nf) (init prm ip sqrt A P ws f x0)) = true := by
    simp only [stop, hn0, init_iter, Bool.not_eq_true', Bool.or_eq_false_iff, decide_eq_false_iff_not]
    exact ⟨hy.start, by omega⟩
  set st1 := head prm.pside ip sqrt A P f (cycle prm ip sqrt A P (epsTol prm nf) (init prm ip sqrt A P ws f x0))
    with hst1
  have hx1 : st1.x = axpby 1 (P (residual f A x0)) 1 x0 := by rw [hst1, head_x, c2]
  have hi1 : st1.iter = 1 := by rw [hst1, head_iter, c1]
  have hn1 : st1.normR = 0 := by
    rw [hst1, head_normR, c2, hside]
    show nrmA ip sqrt (residual f A _) = 0
    rw [residual_after_exact A hy.wf P hy.psize hy.exact, hy.zero]
  have hfin : final prm ip sqrt A P ws f x0 nf = st1 := by
    unfold final outer
    rw [hm, loopN, ← hm, if_pos hc0]
    apply loopN_of_not_cond
    simp only [stop, Bool.not_eq_false', Bool.or_eq_true, decide_eq_true_eq]
    left; rw [← hst1, hn1]; exact hy.eps_pos
  rw [hfin]
  exact ⟨hi1, hn1, hx1⟩

end GMRES

namespace FGMRES

abbrev ExactHyp := @GMRES.ExactHyp

/-- `r − ‖r‖·(r/‖r‖) = 0` -/
theorem cancel_scaled (ip : Vec K → Vec K → K) (sqrt : K → K) (r z : Vec K) (hn : nrmA ip sqrt r ≠ 0) :
    axpby (-(nrmA ip sqrt r)) (axpby (inv1 (nrmA ip sqrt r)) r 0 z) 1 r = vclear r.size := by
  apply Vec.ext_getD (0 : K)
  · rw [axpby_size, axpby_size]; simp [vclear]
  · intro i hi
    rw [axpby_size, axpby_size] at hi
    rw [axpby_getD _ _ _ _ _ (by rw [axpby_size]; exact hi), axpby_getD _ _ _ _ _ hi, vclear_getD]
    unfold inv1; field_simp; ring

theorem first_step (ip : Vec K → Vec K → K) (sqrt : K → K)
    (A : CRS K) (P : Vec K → Vec K) (ws : Work K) (f x0 : Vec K) (epsT : K)
    (hy : ExactHyp ip sqrt A P (residual f A x0) epsT) :
    let st0 := init ip sqrt A ws f x0
    let t1 := step ip sqrt A P (cycleStart st0)
    t1.j = 1 ∧ t1.iter = 1 ∧ t1.innerRes = 0 ∧ t1.w.h.H.get 0 0 = 1 ∧
    t1.w.h.s.get 0 = nrmA ip sqrt (residual f A x0) ∧
    t1.w.z.get 0 = P (axpby (inv1 (nrmA ip sqrt (residual f A x0))) (residual f A x0) 0 (residual f A x0)) := by
  intro st0 t1
  have hn : st0.normR = nrmA ip sqrt (residual f A x0) := rfl
  have hv : st0.w.v.get 0 = residual f A x0 := by
    show (init ip sqrt A ws f x0).w.v.get 0 = _
    exact head_r ip sqrt A f _
  have hit : st0.iter = 0 := init_iter ip sqrt A ws f x0
  set v0 := axpby (inv1 (nrmA ip sqrt (residual f A x0))) (residual f A x0) 0 (residual f A x0) with hv0
  have hcv : (cycleStart st0).w.v.get 0 = v0 := by
    simp only [cycleStart, setF_same, hn, hv, hv0]
  have hcs : (cycleStart st0).w.h.s = sInit (nrmA ip sqrt (residual f A x0)) := by
    simp only [cycleStart, hn]
  have hsz : v0.size = A.nrows := by rw [hv0, axpby_size, residual_size']
  have h1 : ip ((cycleStart st0).w.v.get 0) ((cycleStart st0).w.v.get 0) = 1 := by
    rw [hcv, hv0]; exact ip_normalised ip sqrt _ _ _ hy.ip_smul hy.root hy.ne
  have hz : nrmA ip sqrt (vclear ((cycleStart st0).w.v.get 0).size) = 0 := by rw [hcv, hsz]; exact hy.zero
  have hx : spmv 1 A (P ((cycleStart st0).w.v.get 0)) 0 ((cycleStart st0).w.v.get (0 + 1))
      = (cycleStart st0).w.v.get 0 := by
    rw [hcv]; exact hy.exact v0 _ hsz
  obtain ⟨g1, g2, g3⟩ := hessStep_first ip sqrt (cycleStart st0).w.v (cycleStart st0).w.h _ hcs h1 hz
  have hj : (cycleStart st0).j = 0 := rfl
  refine ⟨rfl, ?_, ?_, ?_, ?_, ?_⟩
  · show st0.iter + 1 = 1
    rw [hit]
  · show (hessStep ip sqrt (cycleStart st0).w.v (cycleStart st0).j (cycleStart st0).w.h
      (spmv 1 A (P ((cycleStart st0).w.v.get (cycleStart st0).j)) 0
        ((cycleStart st0).w.v.get ((cycleStart st0).j + 1)))).2.2 = 0
    rw [hj, hx]; exact g3
  · show (hessStep ip sqrt (cycleStart st0).w.v (cycleStart st0).j (cycleStart st0).w.h
      (spmv 1 A (P ((cycleStart st0).w.v.get (cycleStart st0).j)) 0
        ((cycleStart st0).w.v.get ((cycleStart st0).j + 1)))).1.H.get 0 0 = 1
    rw [hj, hx]; exact g1
  · show (hessStep ip sqrt (cycleStart st0).w.v (cycleStart st0).j (cycleStart st0).w.h
      (spmv 1 A (P ((cycleStart st0).w.v.get (cycleStart st0).j)) 0
        ((cycleStart st0).w.v.get ((cycleStart st0).j + 1)))).1.s.get 0 = _
    rw [hj, hx]; exact g2
  · show (setF (cycleStart st0).w.z (cycleStart st0).j (P ((cycleStart st0).w.v.get (cycleStart st0).j))).get 0 = P v0
    rw [hj, setF_same, hcv]

theorem first_cycle (prm : Params K) (ip : Vec K → Vec K → K) (sqrt : K → K)
    (A : CRS K) (P : Vec K → Vec K) (ws : Work K) (f x0 : Vec K) (epsT : K)
    (hy : ExactHyp ip sqrt A P (residual f A x0) epsT) :
    (cycle prm ip sqrt A P epsT (init ip sqrt A ws f x0)).iter = 1 ∧
    (cycle prm ip sqrt A P epsT (init ip sqrt A ws f x0)).x
      = axpby (nrmA ip sqrt (residual f A x0))
          (P (axpby (inv1 (nrmA ip sqrt (residual f A x0))) (residual f A x0) 0 (residual f A x0))) 1 x0 := by
  obtain ⟨t_j, t_it, t_res, t_H, t_s, t_z⟩ := first_step ip sqrt A P ws f x0 epsT hy
  have hin : inner prm ip sqrt A P epsT (init ip sqrt A ws f x0)
      = step ip sqrt A P (cycleStart (init ip sqrt A ws f x0)) := by
    unfold inner doWhile
    apply loopN_of_not_cond
    simp only [cont, t_res, Bool.not_eq_false', Bool.or_eq_true, Bool.not_eq_true', decide_eq_true_eq,
      decide_eq_false_iff_not]
    exact Or.inr hy.eps_nonneg
  unfold cycle
  rw [hin, update_iter]
  refine ⟨t_it, ?_⟩
  have hx0 : (init ip sqrt A ws f x0).x = x0 := init_x ip sqrt A ws f x0
  have hux : ∀ (st : St K) (t : In K), (update st t).x
      = linComb (combList t.j (backSubst t.j t.w.h.H t.w.h.s).get t.w.z.get) 1 st.x := fun _ _ => rfl
  rw [hux, hx0, t_j, combList_one, backSubst_one, t_H, t_s, t_z, div_one]
  simp only [linComb, linCombTail]

/-- **FGMRES with an exact preconditioner**: one iteration, `norm_r = 0`, the residual of the returned `x` is zero -/
theorem exact_final (prm : Params K) (ip : Vec K → Vec K → K) (sqrt : K → K)
    (A : CRS K) (P : Vec K → Vec K) (ws : Work K) (f x0 : Vec K) (nf : K) (hmax : 1 ≤ prm.maxiter)
    (hy : ExactHyp ip sqrt A P (residual f A x0) (epsTol prm nf)) :
    (final prm ip sqrt A P ws f x0 nf).iter = 1 ∧ (final prm ip sqrt A P ws f x0 nf).normR = 0 ∧
    residual f A (final prm ip sqrt A P ws f x0 nf).x = vclear A.nrows := by
  obtain ⟨c1, c2⟩ := first_cycle prm ip sqrt A P ws f x0 (epsTol prm nf) hy
  obtain ⟨m, hm⟩ : ∃ m, prm.maxiter = m + 1 := ⟨prm.maxiter - 1, by omega⟩
  have hn0 : (init ip sqrt A ws f x0).normR = nrmA ip sqrt (residual f A x0) := rfl
  have hc0 : (!stop prm.maxiter (epsTol prm nf) (init ip sqrt A ws f x0)) = true := by
    simp only [stop, hn0, init_iter, Bool.not_eq_true', Bool.or_eq_false_iff, decide_eq_false_iff_not]
    exact ⟨hy.start, by omega⟩
  set st1 := head ip sqrt A f (cycle prm ip sqrt A P (epsTol prm nf) (init ip sqrt A ws f x0)) with hst1
  have hres : residual f A st1.x = vclear A.nrows := by
    rw [hst1, head_x, c2]
    set nr := nrmA ip sqrt (residual f A x0)
    set v0 := axpby (inv1 nr) (residual f A x0) 0 (residual f A x0) with hv0
    have hsz : v0.size = A.nrows := by rw [hv0, axpby_size, residual_size']
    rw [← paired_update_inv f A hy.wf nr (P v0) x0 x0 (by rw [hy.psize]), hy.exact v0 _ hsz, hv0,
      cancel_scaled ip sqrt _ _ (GMRES.nr_ne ip sqrt _ hy.root hy.ne), residual_size']
  have hi1 : st1.iter = 1 := by rw [hst1, head_iter, c1]
  have hn1 : st1.normR = 0 := by
    have : st1.normR = nrmA ip sqrt (residual f A st1.x) := by rw [hst1, head_normR, head_x]
    rw [this, hres, hy.zero]
  have hfin : final prm ip sqrt A P ws f x0 nf = st1 := by
    unfold final outer
    rw [hm, loopN, ← hm, if_pos hc0]
    apply loopN_of_not_cond
    simp only [stop, Bool.not_eq_false', Bool.or_eq_true, decide_eq_true_eq]
    left; rw [← hst1, hn1]; exact hy.eps_pos
  rw [hfin]
  exact ⟨hi1, hn1, hres⟩

end FGMRES

/-! ### the standard inner product satisfies the homogeneity hypothesis `ip_smul` -/

theorem axpby_b0_toList (a : K) (u z : Vec K) : (axpby a u 0 z).toList = u.toList.map (a * ·) := by
  unfold axpby
  simp only [if_true]
  apply List.ext_getElem
  · simp
  · intro i h1 h2
    simp at h1
    simp [Array.getD, h1]

theorem stdIp_eq_sum (x y : Vec K) : stdIp x y = ((x.toList.zip y.toList).map (fun p => p.1 * p.2)).sum := by
  unfold stdIp innerProductSerial
  rw [kahan_foldl]; simp

theorem stdIp_smul (a : K) (u z z' : Vec K) :
    stdIp (axpby a u 0 z) (axpby a u 0 z') = a * a * stdIp u u := by
  rw [stdIp_eq_sum, stdIp_eq_sum, axpby_b0_toList, axpby_b0_toList, ← List.sum_map_mul_left]
  simp only [List.zip_map_left, List.zip_map_right, List.map_map]
  congr 1; apply List.map_congr_left; intro p _; simp; ring

end Amgcl.Solver
