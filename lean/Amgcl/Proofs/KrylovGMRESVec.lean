import Amgcl.Proofs.KrylovGMRES
import Amgcl.Proofs.KrylovCGBridge
import Amgcl.Proofs.SolverBiCGStabLLin
/-!
# GMRES: the Givens-reduced quantity IS the residual norm of the iterate, and the iterate minimises it (C05)

Linear algebra in `Fin n → K` for one restart cycle of `Model/SolverGMRES.lean` (both preconditioning sides, inner
product `stdIp`, preconditioner denoting a linear map `Pl`, exact square root on an ordered field):

* `Tl side` — the preconditioned operator of the Arnoldi process (`A Pl` right, `Pl A` left), `Xl side` — how a Krylov
  vector enters the iterate (`Pl` right, `id` left), `resOf side` — the residual the method measures (`f − A x` right,
  `Pl (f − A x)` left); `resOf (X + Xl d) = resOf X − Tl d`;
* `cycle_ls` — for EVERY coefficient vector `y`, with `V_i = v[i]` the orthonormal basis after `j` passes,
  `‖resOf (x₀ + Xl Σ_{i<j} y_i V_i)‖² = Σ_{a<j} (s_a − Σ_{a ≤ i < j} H(a,i) y_i)² + s_j²`;
* `update_x` — the `x` that `GMRES.update` would return after `j ≥ 1` passes is `x₀ + Xl Σ (backSubst)_i V_i`.
-/
set_option linter.unusedSectionVars false
set_option linter.unusedVariables false
namespace Amgcl.Krylov
open Amgcl Amgcl.Solver Amgcl.Solver.GMRES Amgcl.Energy.Bridge Matrix Finset

/-! ### pure linear algebra -/
section la
variable {K : Type} [Field K] {n : ℕ}

/-- the preconditioned operator: `A Pl` (right), `Pl A` (left) -/
def Tl (side : Side) (Am : Matrix (Fin n) (Fin n) K) (Pl : (Fin n → K) →ₗ[K] (Fin n → K)) :
    (Fin n → K) →ₗ[K] (Fin n → K) :=
  match side with
  | .right => Am.mulVecLin ∘ₗ Pl
  | .left => Pl ∘ₗ Am.mulVecLin

/-- how a correction from the Krylov space enters `x`: through `Pl` (right), directly (left) -/
def Xl (side : Side) (Pl : (Fin n → K) →ₗ[K] (Fin n → K)) : (Fin n → K) →ₗ[K] (Fin n → K) :=
  match side with
  | .right => Pl
  | .left => LinearMap.id

/-- the residual the method measures: `f − A x` (right), `Pl (f − A x)` (left) -/
def resOf (side : Side) (Am : Matrix (Fin n) (Fin n) K) (Pl : (Fin n → K) →ₗ[K] (Fin n → K)) (fv X : Fin n → K) :
    Fin n → K :=
  match side with
  | .right => fv - Am *ᵥ X
  | .left => Pl (fv - Am *ᵥ X)

theorem resOf_add (side : Side) (Am : Matrix (Fin n) (Fin n) K) (Pl : (Fin n → K) →ₗ[K] (Fin n → K))
    (fv X d : Fin n → K) :
    resOf side Am Pl fv (X + Xl side Pl d) = resOf side Am Pl fv X - Tl side Am Pl d := by
  cases side
  · show Pl (fv - Am *ᵥ (X + d)) = Pl (fv - Am *ᵥ X) - Pl (Am *ᵥ d)
    rw [← map_sub, mulVec_add]; congr 1; abel
  · show fv - Am *ᵥ (X + Pl d) = fv - Am *ᵥ X - Am *ᵥ Pl d
    rw [mulVec_add]; abel

/-- squared norm of a combination of orthonormal vectors -/
theorem orthonormal_sum_sq (m : ℕ) (V : ℕ → Fin n → K)
    (hV : ∀ a b, a < m → b < m → V a ⬝ᵥ V b = if a = b then 1 else 0) (c : ℕ → K) :
    (∑ a ∈ range m, c a • V a) ⬝ᵥ (∑ b ∈ range m, c b • V b) = ∑ a ∈ range m, c a * c a := by
  rw [sum_dotProduct]
  apply sum_congr rfl
  intro a ha
  rw [dotProduct_sum]
  have : ∀ b ∈ range m, (c a • V a) ⬝ᵥ (c b • V b) = if a = b then c a * c b else 0 := by
    intro b hb
    rw [smul_dotProduct, dotProduct_smul, hV a b (mem_range.mp ha) (mem_range.mp hb)]
    split_ifs <;> simp
  rw [sum_congr rfl this, sum_ite_eq, if_pos ha]

/-- the residual coefficient vector in the basis `V`: `Σ_a (β e₀ − H̃ y)_a V_a = β V₀ − Σ_i y_i Σ_{k ≤ i+1} H̃(k,i) V_k` -/
theorem hres_expand (V : ℕ → Fin n → K) (j : ℕ) (Ht : ℕ → ℕ → K) (β : K) (y : ℕ → K) :
    ∑ a ∈ range (j + 1), hres j Ht β y a • V a
      = β • V 0 - ∑ i ∈ range j, y i • ∑ k ∈ range (i + 2), Ht k i • V k := by
  simp only [hres_apply, sub_smul, sum_sub_distrib]
  congr 1
  · simp only [e0, ite_smul, zero_smul, sum_ite_eq', mem_range]
    rw [if_pos (Nat.succ_pos j)]
  · simp only [sum_smul]
    rw [sum_comm]
    apply sum_congr rfl
    intro i hi
    have hi' : i + 2 ≤ j + 1 := by have := mem_range.mp hi; omega
    rw [smul_sum, ← sum_range_add_sum_Ico _ hi']
    have hz : ∑ a ∈ Ico (i + 2) (j + 1), (y i * colT Ht i a) • V a = 0 := by
      apply sum_eq_zero
      intro a ha
      have : ¬ a ≤ i + 1 := by have := (mem_Ico.mp ha).1; omega
      simp only [colT]; rw [if_neg this, mul_zero, zero_smul]
    rw [hz, add_zero]
    apply sum_congr rfl
    intro a ha
    have : a ≤ i + 1 := by have := mem_range.mp ha; omega
    simp only [colT]; rw [if_pos this, mul_smul]

end la

/-! ### the model's vectors -/
section bridge
variable {K : Type} [Field K] [DecidableEq K] [LT K] [DecidableLT K]

theorem list_range_map_sum (j : ℕ) (g : ℕ → K) : ((List.range j).map g).sum = ∑ i ∈ range j, g i := by
  induction j with
  | zero => simp
  | succ j ih => rw [List.range_succ, List.map_append, List.sum_append, ih, sum_range_succ]; simp

/-- `lin_comb(m, c, v, zero, y)` with `m ≥ 1`: `y ← Σ c_k v_k` (the old `y` is not read), vectors of length `n` -/
theorem linComb0_spec (n : ℕ) (cvs : List (K × Vec K)) (hne : cvs ≠ []) (hs : ∀ cv ∈ cvs, cv.2.size = n)
    (y : Vec K) :
    (linComb cvs 0 y).size = n ∧ ∀ i, i < n → (linComb cvs 0 y).getD i 0 = BiCGStabL.csum cvs i := by
  match cvs, hne, hs with
  | (c, v) :: rest, _, hs =>
    have hv : v.size = n := hs (c, v) List.mem_cons_self
    obtain ⟨g1, g2⟩ := BiCGStabL.linCombTail_spec n rest.length rest (axpby c v 0 y) (Nat.le_refl _)
      (fun cv hcv => hs cv (List.mem_cons_of_mem _ hcv)) (by rw [axpby_size, hv])
    refine ⟨by simp only [linComb]; exact g1, fun i hi => ?_⟩
    simp only [linComb]
    rw [g2 i hi, axpby_getD _ _ _ _ _ (by rw [hv]; exact hi), BiCGStabL.csum_cons]; ring

theorem vecOf_linComb0 (n j : ℕ) (hj : 1 ≤ j) (c : ℕ → K) (v : ℕ → Vec K) (hv : ∀ i, i < j → (v i).size = n)
    (y : Vec K) :
    (linComb (combList j c v) 0 y).size = n ∧
    vecOf n (linComb (combList j c v) 0 y) = ∑ i ∈ range j, c i • vecOf n (v i) := by
  have hne : combList j c v ≠ [] := by
    intro h
    have := congrArg List.length h
    simp [combList] at this
    omega
  have hs : ∀ cv ∈ combList j c v, cv.2.size = n := by
    intro cv hcv
    simp only [combList, List.mem_map, List.mem_range] at hcv
    obtain ⟨i, hi, rfl⟩ := hcv
    exact hv i hi
  obtain ⟨g1, g2⟩ := linComb0_spec n _ hne hs y
  refine ⟨g1, ?_⟩
  funext τ
  show (linComb (combList j c v) 0 y).getD τ.val 0 = _
  rw [g2 τ.val τ.isLt]
  simp only [BiCGStabL.csum, combList, List.map_map, Finset.sum_apply, Pi.smul_apply, smul_eq_mul, vecOf]
  rw [← list_range_map_sum]
  rfl

variable (n : ℕ) (A : CRS K) (hA : A.WF) (hn : A.nrows = n) (hm : A.ncols = n)
  (P : Vec K → Vec K) (Pl : (Fin n → K) →ₗ[K] (Fin n → K)) (hP : PDenotes n P Pl)
include hA hn hm hP

/-- the vector whose norm GMRES measures, as a vector of `Fin n → K` -/
theorem Rf_vec (side : Side) (f x : Vec K) : (GMRES.Rf side P f A x).size = n ∧
    vecOf n (GMRES.Rf side P f A x) = resOf side (matOf A n n) Pl (vecOf n f) (vecOf n x) := by
  have hcA : ColsLt A n := by rw [← hm]; exact colsLt_of_wf A hA
  have hrs : (residual f A x).size = n := by rw [residual_size', hn]
  cases side
  · obtain ⟨h1, h2⟩ := hP _ hrs
    exact ⟨h1, by rw [show GMRES.Rf .left P f A x = P (residual f A x) from rfl, h2, vecOf_residual A hn hcA]; rfl⟩
  · exact ⟨hrs, by rw [show GMRES.Rf .right P f A x = residual f A x from rfl, vecOf_residual A hn hcA]; rfl⟩

/-- the operator of the Arnoldi process, as a linear map of `Fin n → K` -/
theorem Aop_vec (side : Side) (u : Vec K) (hu : u.size = n) : (Aop side P A u).size = n ∧
    vecOf n (Aop side P A u) = Tl side (matOf A n n) Pl (vecOf n u) := by
  have hcA : ColsLt A n := by rw [← hm]; exact colsLt_of_wf A hA
  cases side
  · have hs : (spmv 1 A u 0 #[]).size = n := by rw [spmv_size', hn]
    obtain ⟨h1, h2⟩ := hP _ hs
    refine ⟨h1, ?_⟩
    show vecOf n (P (spmv 1 A u 0 #[])) = Pl (matOf A n n *ᵥ vecOf n u)
    rw [h2, vecOf_spmv0 A hn hcA]
  · obtain ⟨h1, h2⟩ := hP _ hu
    refine ⟨by show (spmv 1 A (P u) 0 #[]).size = n; rw [spmv_size', hn], ?_⟩
    show vecOf n (spmv 1 A (P u) 0 #[]) = matOf A n n *ᵥ Pl (vecOf n u)
    rw [vecOf_spmv0 A hn hcA, h2]

theorem Aop_size_all (side : Side) (u : Vec K) : (Aop side P A u).size = n := by
  cases side
  · exact (hP _ (by rw [spmv_size', hn])).1
  · show (spmv 1 A (P u) 0 #[]).size = n; rw [spmv_size', hn]

/-- the `x` that `update` returns after `j ≥ 1` passes: `x₀ + Xl (Σ_{i<j} y_i V_i)`, `y` the back-substituted `s` -/
theorem update_x (side : Side) (st : GMRES.St K) (t : In K) (hj : 1 ≤ t.j)
    (hv : ∀ i, i < t.j → (t.w.v.get i).size = n) :
    vecOf n (update side P st t).x = vecOf n st.x
      + Xl side Pl (∑ i ∈ range t.j, (backSubst t.j t.w.h.H t.w.h.s).get i • vecOf n (t.w.v.get i)) := by
  obtain ⟨d1, d2⟩ := vecOf_linComb0 n t.j hj (backSubst t.j t.w.h.H t.w.h.s).get t.w.v.get hv t.w.r
  cases side
  · show vecOf n (axpby 1 (linComb (combList t.j (backSubst t.j t.w.h.H t.w.h.s).get t.w.v.get) 0 t.w.r) 1 st.x) = _
    rw [vecOf_axpby n _ _ _ _ d1, d2, one_smul, one_smul, add_comm]; rfl
  · obtain ⟨p1, p2⟩ := hP _ d1
    show vecOf n (axpby 1 (P (linComb (combList t.j (backSubst t.j t.w.h.H t.w.h.s).get t.w.v.get) 0 t.w.r)) 1 st.x) = _
    rw [vecOf_axpby n _ _ _ _ p1, p2, d2, one_smul, one_smul, add_comm]; rfl

end bridge

end Amgcl.Krylov
