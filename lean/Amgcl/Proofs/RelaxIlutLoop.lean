import Amgcl.Proofs.RelaxIlutSplit
/-!
# ILUT as written: the row loop and the residual identity `(I+L)(D⁻¹+U) + R = A`

`IlutInv` is the invariant of the constructor loop of `ilut.hpp` (model `ilutLoopT`, whose first component is
`ilutLoop`): strict triangularity and the two row equations of `IlutRowInv` for every finished row, written with the
stored rows and the record of discarded entries.  `ilutFactorT_identity` turns them into the entrywise identity in
the vocabulary of `lowEntry` / `upEntry` / `ilutResid`.
-/
set_option linter.unusedSectionVars false
namespace Amgcl
namespace Relax
open Finset

section loop
variable {K : Type} [Field K] [DecidableEq K] [LT K] [DecidableLT K]

/-- the invariant of the row loop after `i` rows -/
structure IlutInv (A : CRS K) (S : IlutState K) (Dr : Array (IlutDrop K)) (i : Nat) : Prop where
  sizeL : S.L.size = i
  sizeU : S.U.size = i
  sizeD : S.D.size = i
  sizeR : Dr.size = i
  lower : ∀ k, k < i → ∀ cv ∈ S.L.getD k [], cv.1 < k
  upper : ∀ k, k < i → ∀ e ∈ S.U.getD k [], k < e.1 ∧ e.1 < A.nrows
  rowHi : ∀ k, k < i → ∀ j, k ≤ j → j < A.nrows →
    (if j = k then 1 / S.D.getD k 0 else 0) + rowGet (S.U.getD k []) j + rowGet (Dr.getD k ⟨[], [], []⟩).dropU j
      + ∑ c ∈ range k, (rowGet (S.L.getD k []) c + rowGet (Dr.getD k ⟨[], [], []⟩).cutL c) * rowGet (S.U.getD c []) j
      = rowGet (A.row k) j
  rowLo : ∀ k, k < i → ∀ j, j < k →
    rowGet (S.L.getD k []) j + rowGet (Dr.getD k ⟨[], [], []⟩).cutL j + rowGet (Dr.getD k ⟨[], [], []⟩).skipped j
      = (rowGet (A.row k) j
          - ∑ c ∈ range k, (rowGet (S.L.getD k []) c + rowGet (Dr.getD k ⟨[], [], []⟩).cutL c) * rowGet (S.U.getD c []) j)
        * S.D.getD j 0
  skipZ : ∀ k, k < i → ∀ j, k ≤ j → rowGet (Dr.getD k ⟨[], [], []⟩).skipped j = 0
  cutZ : ∀ k, k < i → ∀ j, k ≤ j → rowGet (Dr.getD k ⟨[], [], []⟩).cutL j = 0
  dropZ : ∀ k, k < i → ∀ j, j ≤ k → rowGet (Dr.getD k ⟨[], [], []⟩).dropU j = 0

theorem IlutInv.zero (A : CRS K) : IlutInv A ({ L := #[], U := #[], D := #[] } : IlutState K) #[] 0 :=
  ⟨rfl, rfl, rfl, rfl, fun k hk => absurd hk (by omega), fun k hk => absurd hk (by omega),
   fun k hk => absurd hk (by omega), fun k hk => absurd hk (by omega), fun k hk => absurd hk (by omega),
   fun k hk => absurd hk (by omega), fun k hk => absurd hk (by omega)⟩

/-- one more row keeps the invariant -/
theorem IlutInv.step (P : IlutParams K) (A : CRS K) (hwf : ∀ i, ∀ cv ∈ A.row i, cv.1 < A.nrows)
    (hnd : ∀ i, ((A.row i).map (·.1)).Nodup)
    (S : IlutState K) (Dr : Array (IlutDrop K)) (i : Nat) (hi : i < A.nrows) (hinv : IlutInv A S Dr i)
    (l : Row K) (d : K) (u : Row K) (dr : IlutDrop K)
    (h : ilutRowFull P A.nrows S.U S.D i (A.row i) = .ok (l, d, u, dr)) :
    IlutInv A { L := S.L.push l, U := S.U.push u, D := S.D.push d } (Dr.push dr) (i + 1) := by
  have hU : ∀ c, ∀ e ∈ S.U.getD c [], c < e.1 ∧ e.1 < A.nrows := by
    intro c e he
    by_cases hc : c < i
    · exact hinv.upper c hc e he
    · rw [getD_of_size_le _ _ _ (by rw [hinv.sizeU]; omega)] at he; cases he
  have inv := ilutWork_inv P A.nrows S.U S.D i (A.row i) (hwf i) (hnd i) (Nat.le_of_lt hi) hU
  obtain ⟨hd, hL, hS, hUu, hlm, hum⟩ := ilutRowFull_spec P A.nrows S.U S.D i (A.row i) l d u dr h
  -- reading the pushed arrays
  have eLlt : ∀ k, k < i → (S.L.push l).getD k [] = S.L.getD k [] :=
    fun k hk => getD_push_lt _ _ _ _ (by rw [hinv.sizeL]; exact hk)
  have eUlt : ∀ k, k < i → (S.U.push u).getD k [] = S.U.getD k [] :=
    fun k hk => getD_push_lt _ _ _ _ (by rw [hinv.sizeU]; exact hk)
  have eDlt : ∀ k, k < i → (S.D.push d).getD k 0 = S.D.getD k 0 :=
    fun k hk => getD_push_lt _ _ _ _ (by rw [hinv.sizeD]; exact hk)
  have eRlt : ∀ k, k < i → (Dr.push dr).getD k ⟨[], [], []⟩ = Dr.getD k ⟨[], [], []⟩ :=
    fun k hk => getD_push_lt _ _ _ _ (by rw [hinv.sizeR]; exact hk)
  have eL : (S.L.push l).getD i [] = l := by have := getD_push_eq S.L l []; rwa [hinv.sizeL] at this
  have eU : (S.U.push u).getD i [] = u := by have := getD_push_eq S.U u []; rwa [hinv.sizeU] at this
  have eD : (S.D.push d).getD i 0 = d := by have := getD_push_eq S.D d 0; rwa [hinv.sizeD] at this
  have eR : (Dr.push dr).getD i ⟨[], [], []⟩ = dr := by
    have := getD_push_eq Dr dr ⟨[], [], []⟩; rwa [hinv.sizeR] at this
  have hsumlt : ∀ k, k < i → ∀ j, ∑ c ∈ range k,
        (rowGet ((S.L.push l).getD k []) c + rowGet ((Dr.push dr).getD k ⟨[], [], []⟩).cutL c)
          * rowGet ((S.U.push u).getD c []) j
      = ∑ c ∈ range k, (rowGet (S.L.getD k []) c + rowGet (Dr.getD k ⟨[], [], []⟩).cutL c)
          * rowGet (S.U.getD c []) j := by
    intro k hk j
    apply sum_congr rfl
    intro c hc
    rw [eLlt k hk, eRlt k hk, eUlt c (by have := mem_range.mp hc; omega)]
  have hsumi : ∀ j, ∑ c ∈ range i,
        (rowGet ((S.L.push l).getD i []) c + rowGet ((Dr.push dr).getD i ⟨[], [], []⟩).cutL c)
          * rowGet ((S.U.push u).getD c []) j
      = ∑ c ∈ range i, ilutM P.norm (ilutTol P i (A.row i)) (ival (ilutWork P A.nrows S.U S.D i (A.row i)) c)
          * rowGet (S.U.getD c []) j := by
    intro j
    apply sum_congr rfl
    intro c hc
    have hc' := mem_range.mp hc
    rw [eL, eR, eUlt c hc', hL c, if_pos hc']
  refine ⟨by simp [hinv.sizeL], by simp [hinv.sizeU], by simp [hinv.sizeD], by simp [hinv.sizeR], ?_, ?_, ?_, ?_, ?_, ?_, ?_⟩
  · intro k hk cv hcv
    rcases Nat.lt_or_eq_of_le (Nat.le_of_lt_succ hk) with hlt | heq
    · rw [eLlt k hlt] at hcv; exact hinv.lower k hlt cv hcv
    · subst heq; rw [eL] at hcv; exact hlm cv hcv
  · intro k hk e he
    rcases Nat.lt_or_eq_of_le (Nat.le_of_lt_succ hk) with hlt | heq
    · rw [eUlt k hlt] at he; exact hinv.upper k hlt e he
    · subst heq; rw [eU] at he; exact hum e he
  · intro k hk j hkj hjn
    rcases Nat.lt_or_eq_of_le (Nat.le_of_lt_succ hk) with hlt | heq
    · rw [hsumlt k hlt j, eDlt k hlt, eUlt k hlt, eRlt k hlt]
      exact hinv.rowHi k hlt j hkj hjn
    · subst heq
      rw [hsumi j, eD, eU, eR]
      have h1 := inv.hi j hkj
      unfold ilutE at h1
      have h2 := hUu j
      rcases Nat.lt_or_eq_of_le hkj with hlt | heq
      · rw [if_pos ⟨hlt, hjn⟩] at h2
        rw [if_neg (by omega)]
        linear_combination h2 + h1
      · subst heq
        rw [if_neg (fun hh => Nat.lt_irrefl _ hh.1)] at h2
        rw [if_pos rfl, hd, one_div_one_div]
        linear_combination h2 + h1
  · intro k hk j hjk
    rcases Nat.lt_or_eq_of_le (Nat.le_of_lt_succ hk) with hlt | heq
    · rw [hsumlt k hlt j, eDlt j (by omega), eLlt k hlt, eRlt k hlt]
      exact hinv.rowLo k hlt j hjk
    · subst heq
      rw [hsumi j, eDlt j hjk, eL, eR]
      have h1 := inv.lo j hjk
      unfold ilutE at h1
      have h2 := hL j
      have h3 := hS j
      rw [if_pos hjk] at h2 h3
      rw [← h1]
      linear_combination h2 + h3
  · intro k hk j hkj
    rcases Nat.lt_or_eq_of_le (Nat.le_of_lt_succ hk) with hlt | heq
    · rw [eRlt k hlt]; exact hinv.skipZ k hlt j hkj
    · subst heq
      rw [eR, hS j, if_neg (by omega)]
  · intro k hk j hkj
    rcases Nat.lt_or_eq_of_le (Nat.le_of_lt_succ hk) with hlt | heq
    · rw [eRlt k hlt]; exact hinv.cutZ k hlt j hkj
    · subst heq
      rw [eR]
      have h2 := hL j
      rw [if_neg (by omega)] at h2
      have h3 : rowGet l j = 0 := by
        apply rowGet_eq_zero_of_not_mem
        intro hm
        obtain ⟨e, he, heq⟩ := List.mem_map.mp hm
        have := hlm e he
        omega
      rw [h3, zero_add] at h2
      exact h2
  · intro k hk j hjk
    rcases Nat.lt_or_eq_of_le (Nat.le_of_lt_succ hk) with hlt | heq
    · rw [eRlt k hlt]; exact hinv.dropZ k hlt j hjk
    · subst heq
      rw [eR]
      have h2 := hUu j
      rw [if_neg (fun hh => by omega)] at h2
      have h3 : rowGet u j = 0 := by
        apply rowGet_eq_zero_of_not_mem
        intro hm
        obtain ⟨e, he, heq⟩ := List.mem_map.mp hm
        have := (hum e he).1
        omega
      rw [h3, zero_add] at h2
      exact h2

theorem ilutLoopT_spec (P : IlutParams K) (A : CRS K) (hwf : ∀ i, ∀ cv ∈ A.row i, cv.1 < A.nrows)
    (hnd : ∀ i, ((A.row i).map (·.1)).Nodup)
    (len i : Nat) (hlen : i + len ≤ A.nrows) (S S' : IlutState K) (R R' : Array (IlutDrop K))
    (hinv : IlutInv A S R i) (h : ilutLoopT P A (List.range' i len) S R = .ok (S', R')) :
    IlutInv A S' R' (i + len) := by
  induction len generalizing i S R with
  | zero =>
    simp only [List.range'_zero, ilutLoopT] at h
    injection h with h
    injection h with h1 h2
    subst h1; subst h2; exact hinv
  | succ m ih =>
    rw [List.range'_succ] at h
    unfold ilutLoopT at h
    cases hr : ilutRowFull P A.nrows S.U S.D i (A.row i) with
    | tie => rw [hr] at h; exact absurd h (by simp)
    | undefinedInput => rw [hr] at h; exact absurd h (by simp)
    | ok q =>
      obtain ⟨l, d, u, dr⟩ := q
      rw [hr] at h
      simp only [] at h
      have := ih (i + 1) (by omega) _ _ (IlutInv.step P A hwf hnd S R i (by omega) hinv l d u dr hr) h
      rw [show i + (m + 1) = i + 1 + m by omega]; exact this

end loop

/-! ### the traced run is the run -/
section fst
variable {K : Type} [Add K] [Mul K] [Sub K] [Zero K] [One K] [Div K] [LT K] [DecidableLT K]

theorem ilutLoopT_fst (P : IlutParams K) (A : CRS K) (l : List Nat) (S : IlutState K) (R : Array (IlutDrop K)) :
    ilutLoop P A l S
      = match ilutLoopT P A l S R with
        | .ok SR => .ok SR.1
        | .tie => .tie
        | .undefinedInput => .undefinedInput := by
  induction l generalizing S R with
  | nil => rfl
  | cons i t ih =>
    unfold ilutLoop ilutLoopT ilutRow
    cases hr : ilutRowFull P A.nrows S.U S.D i (A.row i) with
    | tie => rfl
    | undefinedInput => rfl
    | ok q =>
      obtain ⟨l, d, u, dr⟩ := q
      exact ih _ _

/-- **the traced constructor is the constructor** -/
theorem ilutFactorT_fst (P : IlutParams K) (A : CRS K) :
    ilutFactor P A
      = match ilutFactorT P A with
        | .ok FR => .ok FR.1
        | .tie => .tie
        | .undefinedInput => .undefinedInput := by
  unfold ilutFactor ilutFactorT
  rw [ilutLoopT_fst P A _ _ #[]]
  cases ilutLoopT P A (List.range A.nrows) { L := #[], U := #[], D := #[] } #[] with
  | tie => rfl
  | undefinedInput => rfl
  | ok SR => rfl

theorem ilutFactorT_of_factor (P : IlutParams K) (A : CRS K) (F : IluFactors K) (h : ilutFactor P A = .ok F) :
    ∃ R, ilutFactorT P A = .ok (F, R) := by
  rw [ilutFactorT_fst] at h
  cases hT : ilutFactorT P A with
  | tie => rw [hT] at h; cases h
  | undefinedInput => rw [hT] at h; cases h
  | ok FR =>
    rw [hT] at h
    injection h with h
    exact ⟨FR.2, by rw [← h]⟩

theorem ilutFactor_of_factorT (P : IlutParams K) (A : CRS K) (F : IluFactors K) (R : Array (IlutDrop K))
    (h : ilutFactorT P A = .ok (F, R)) : ilutFactor P A = .ok F := by
  rw [ilutFactorT_fst, h]

end fst

section final
variable {K : Type} [Field K] [DecidableEq K] [LT K] [DecidableLT K]

theorem foldl_range_add (f : Nat → K) (m : Nat) :
    (List.range m).foldl (fun s c => s + f c) 0 = ∑ c ∈ range m, f c := by
  induction m with
  | zero => simp
  | succ m ih => rw [List.range_succ, List.foldl_append, ih, sum_range_succ]; rfl

theorem noRepeat_of_b (A : CRS K) (h : noRepeatb A = true) (i : Nat) : ((A.row i).map (·.1)).Nodup := by
  unfold noRepeatb at h
  rw [Array.all_eq_true] at h
  unfold CRS.row Array.getD
  split
  · rename_i hi; simpa using h i hi
  · simp

/-- nothing recorded ⟹ the residual matrix vanishes -/
theorem ilutResid_eq_zero (F : IluFactors K) (R : Array (IlutDrop K)) (h : R.all (fun d => d.isEmpty) = true)
    (i j : Nat) : ilutResid F R i j = 0 := by
  have hd : (R.getD i ⟨[], [], []⟩).skipped = [] ∧ (R.getD i ⟨[], [], []⟩).cutL = []
      ∧ (R.getD i ⟨[], [], []⟩).dropU = [] := by
    rw [Array.all_eq_true] at h
    unfold Array.getD
    split
    · rename_i hi
      have := h i hi
      unfold IlutDrop.isEmpty at this
      simp only [Bool.and_eq_true, List.isEmpty_iff] at this
      exact ⟨this.1.1, this.1.2, this.2⟩
    · exact ⟨rfl, rfl, rfl⟩
  unfold ilutResid
  simp only []
  rw [hd.1, hd.2.1, hd.2.2, foldl_range_add]
  simp

/-- everything the traced constructor guarantees when it succeeds -/
theorem ilutFactorT_inv (P : IlutParams K) (A : CRS K) (hA : A.WF) (hsq : A.ncols = A.nrows)
    (hnd : ∀ i, ((A.row i).map (·.1)).Nodup) (F : IluFactors K) (R : Array (IlutDrop K))
    (h : ilutFactorT P A = .ok (F, R)) :
    ∃ S : IlutState K, IlutInv A S R A.nrows ∧ F = { L := ⟨A.nrows, S.L⟩, U := ⟨A.nrows, S.U⟩, D := S.D } := by
  have hwf : ∀ i, ∀ cv ∈ A.row i, cv.1 < A.nrows := by
    intro i cv hcv; rw [← hsq]; exact K2.row_col_lt hA i hcv
  unfold ilutFactorT at h
  cases hl : ilutLoopT P A (List.range A.nrows) { L := #[], U := #[], D := #[] } #[] with
  | tie => rw [hl] at h; cases h
  | undefinedInput => rw [hl] at h; cases h
  | ok SR =>
    obtain ⟨S, R'⟩ := SR
    rw [hl] at h
    simp only [] at h
    injection h with h
    injection h with h1 h2
    rw [List.range_eq_range'] at hl
    have := ilutLoopT_spec P A hwf hnd A.nrows 0 (by omega) _ S _ R' (IlutInv.zero A) hl
    rw [Nat.zero_add] at this
    refine ⟨S, ?_, h1.symm⟩
    rw [← h2]; exact this

/-- the structural facts about the factors of a successful ILUT -/
theorem ilutFactorT_wf (P : IlutParams K) (A : CRS K) (hA : A.WF) (hsq : A.ncols = A.nrows)
    (hnd : ∀ i, ((A.row i).map (·.1)).Nodup) (F : IluFactors K) (R : Array (IlutDrop K))
    (h : ilutFactorT P A = .ok (F, R)) :
    strictLowerb F.L = true ∧ strictUpperb F.U = true ∧ F.L.WF ∧ F.U.WF ∧ F.L.nrows = A.nrows ∧ F.L.ncols = A.nrows
    ∧ F.U.nrows = A.nrows ∧ F.U.ncols = A.nrows ∧ F.D.size = A.nrows ∧ R.size = A.nrows := by
  obtain ⟨S, inv, hF⟩ := ilutFactorT_inv P A hA hsq hnd F R h
  subst hF
  have hLn : (⟨A.nrows, S.L⟩ : CRS K).nrows = A.nrows := inv.sizeL
  have hUn : (⟨A.nrows, S.U⟩ : CRS K).nrows = A.nrows := inv.sizeU
  refine ⟨?_, ?_, ?_, ?_, hLn, rfl, hUn, rfl, inv.sizeD, inv.sizeR⟩
  · unfold strictLowerb
    rw [List.all_eq_true]; intro i hi
    rw [List.all_eq_true]; intro cv hcv
    have hi' : i < A.nrows := by rw [← hLn]; exact List.mem_range.mp hi
    simpa using inv.lower i hi' cv hcv
  · unfold strictUpperb
    rw [List.all_eq_true]; intro i hi
    rw [List.all_eq_true]; intro cv hcv
    have hi' : i < A.nrows := by rw [← hUn]; exact List.mem_range.mp hi
    simpa using (inv.upper i hi' cv hcv).1
  · rw [K2.wf_iff_row]
    intro i hi cv hcv
    have hi' : i < A.nrows := by rw [← hLn]; exact hi
    have := inv.lower i hi' cv hcv
    show cv.1 < A.nrows
    omega
  · rw [K2.wf_iff_row]
    intro i hi cv hcv
    have hi' : i < A.nrows := by rw [← hUn]; exact hi
    exact (inv.upper i hi' cv hcv).2

/-- **`(I+L)(D⁻¹+U) + R = A`**, entry by entry.  Positions right of or on the diagonal need nothing; a position
`(i, j)` left of the diagonal needs the stored pivot `D_j` to be non-zero. -/
theorem ilutFactorT_identity (P : IlutParams K) (A : CRS K) (hA : A.WF) (hsq : A.ncols = A.nrows)
    (hnd : ∀ i, ((A.row i).map (·.1)).Nodup) (F : IluFactors K) (R : Array (IlutDrop K))
    (h : ilutFactorT P A = .ok (F, R)) (i j : Nat) (hi : i < A.nrows) (hj : j < A.nrows)
    (hD : j < i → F.D.getD j 0 ≠ 0) :
    ∑ k ∈ range A.nrows, lowEntry F i k * upEntry F k j + ilutResid F R i j = A.get i j := by
  obtain ⟨S, inv, hF⟩ := ilutFactorT_inv P A hA hsq hnd F R h
  subst hF
  set F : IluFactors K := { L := ⟨A.nrows, S.L⟩, U := ⟨A.nrows, S.U⟩, D := S.D } with hF
  have hLget : ∀ i' k, F.L.get i' k = rowGet (S.L.getD i' []) k := fun _ _ => rfl
  have hUget : ∀ k c, F.U.get k c = rowGet (S.U.getD k []) c := fun _ _ => rfl
  have hLz : ∀ k, i ≤ k → F.L.get i k = 0 := by
    intro k hk
    rw [hLget]
    apply rowGet_eq_zero_of_not_mem
    intro hm
    obtain ⟨e, he, heq⟩ := List.mem_map.mp hm
    have := inv.lower i hi e he
    omega
  have hUz : ∀ k c, k < A.nrows → c ≤ k → F.U.get k c = 0 := by
    intro k c hk hc
    rw [hUget]
    apply rowGet_eq_zero_of_not_mem
    intro hm
    obtain ⟨e, he, heq⟩ := List.mem_map.mp hm
    have := (inv.upper k hk e he).1
    omega
  have hexp : ∀ k ∈ range A.nrows, lowEntry F i k * upEntry F k j
      = (if i = k then upEntry F k j else 0)
        + (if k = j then F.L.get i k * (1 / F.D.getD k 0) else 0)
        + F.L.get i k * F.U.get k j := by
    intro k _
    unfold lowEntry upEntry
    by_cases h1 : i = k
    · by_cases h2 : k = j
      · simp only [if_pos h1, if_pos h2]; ring
      · simp only [if_pos h1, if_neg h2]; ring
    · by_cases h2 : k = j
      · simp only [if_neg h1, if_pos h2]; ring
      · simp only [if_neg h1, if_neg h2]; ring
  rw [sum_congr rfl hexp, sum_add_distrib, sum_add_distrib, sum_ite_eq, if_pos (mem_range.mpr hi),
    sum_ite_eq', if_pos (mem_range.mpr hj)]
  rw [sum_range_restrict (fun k => F.L.get i k * F.U.get k j) i A.nrows (Nat.le_of_lt hi)
    (fun k hk _ => by rw [hLz k hk]; ring)]
  -- the residual, with the fold turned into a sum
  have hres : ilutResid F R i j
      = rowGet (R.getD i ⟨[], [], []⟩).skipped j * (1 / S.D.getD j 0)
        + rowGet (R.getD i ⟨[], [], []⟩).cutL j * (1 / S.D.getD j 0)
        + ∑ c ∈ range i, rowGet (R.getD i ⟨[], [], []⟩).cutL c * rowGet (S.U.getD c []) j
        + rowGet (R.getD i ⟨[], [], []⟩).dropU j := by
    unfold ilutResid
    simp only []
    rw [foldl_range_add]
    rfl
  rw [hres]
  show _ = rowGet (A.row i) j
  have hsum : ∑ c ∈ range i, (rowGet (S.L.getD i []) c + rowGet (R.getD i ⟨[], [], []⟩).cutL c) * rowGet (S.U.getD c []) j
      = ∑ k ∈ range i, F.L.get i k * F.U.get k j
        + ∑ c ∈ range i, rowGet (R.getD i ⟨[], [], []⟩).cutL c * rowGet (S.U.getD c []) j := by
    rw [← sum_add_distrib]
    apply sum_congr rfl; intro k _; rw [hLget, hUget]; ring
  unfold upEntry
  rw [hUget i j]
  by_cases hij : i ≤ j
  · have h1 := inv.rowHi i hi j hij hj
    rw [hsum] at h1
    rw [hLz j hij]
    have e1 : (if i = j then 1 / F.D.getD i 0 else 0) = (if j = i then 1 / S.D.getD i 0 else 0) := by
      by_cases h : i = j
      · rw [if_pos h, if_pos h.symm]
      · rw [if_neg h, if_neg (fun e => h e.symm)]
    rw [e1]
    have hz1 : rowGet (R.getD i ⟨[], [], []⟩).skipped j = 0 := inv.skipZ i hi j hij
    have hz2 : rowGet (R.getD i ⟨[], [], []⟩).cutL j = 0 := inv.cutZ i hi j hij
    rw [hz1, hz2]
    linear_combination h1
  · have hji : j < i := Nat.lt_of_not_le hij
    have h1 := inv.rowLo i hi j hji
    rw [hsum] at h1
    have hDj : S.D.getD j 0 ≠ 0 := hD hji
    rw [if_neg (by omega)]
    have huz : rowGet (S.U.getD i []) j = 0 := by rw [← hUget]; exact hUz i j hi (Nat.le_of_lt hji)
    have hdz : rowGet (R.getD i ⟨[], [], []⟩).dropU j = 0 := inv.dropZ i hi j (Nat.le_of_lt hji)
    rw [huz, hdz, hLget i j]
    show _ + rowGet (S.L.getD i []) j * (1 / S.D.getD j 0) + _ + _ = _
    field_simp
    linear_combination h1

end final

end Relax
end Amgcl
