import Amgcl.Proofs.RelaxScaleIlu
import Amgcl.Proofs.RelaxCheb
import Amgcl.Proofs.KernelsGershgorin
/-!
# Chebyshev smoother of `c·A`

* `gershgorin false (c·A) = |c| · gershgorin false A`; `gershgorin true (c·A) = gershgorin true A` (`c ≠ 0`, every row
  stores its diagonal);
* hence (`c > 0`, `scale = false`) the ellipse of `c·A` is `(c·c₀, c·d₀)`, and (`scale = true`) the ellipse is unchanged and
  the stored inverted diagonal is multiplied by `c⁻¹`;
* the recurrence of `solve` run on `(c·A, c·b)` produces the iterates of the run on `(A, b)` (`alpha` is `c⁻¹ ·`, `beta`
  equal, `p` equal): `N(cA) = c⁻¹ N(A)` in both modes.
-/
namespace Amgcl
namespace Relax
open Amgcl.K2

section gersh
variable {K : Type} [Field K] [LinearOrder K] [IsStrictOrderedRing K]

theorem absRowSum_srow (c : K) (r : Row K) : absRowSum (srow c r) = |c| * absRowSum r := by
  unfold absRowSum srow
  rw [List.map_map, ← List.sum_map_mul_left]
  congr 1
  apply List.map_congr_left
  intro cv _
  simp only [Function.comp]
  rw [abs_mul, mul_comm]

theorem foldl_max_mul (a : K) (ha : 0 ≤ a) (f : Nat → K) (l : List Nat) (m0 : K) :
    l.foldl (fun m i => max m (a * f i)) (a * m0) = a * l.foldl (fun m i => max m (f i)) m0 := by
  induction l generalizing m0 with
  | nil => rfl
  | cons i t ih =>
    simp only [List.foldl_cons]
    rw [← mul_max_of_nonneg _ _ ha, ih]

/-- **Gershgorin bound of `c·A`, unscaled**: `|c|` times the bound of `A` (for every `c`) -/
theorem gershgorin_false_scale (c : K) (A : CRS K) : gershgorin false (scale A c) = |c| * gershgorin false A := by
  rw [gershgorin_unscaled_eq, gershgorin_unscaled_eq, scale_nrows']
  have : (fun (m : K) i => max m (absRowSum ((scale A c).row i))) = fun m i => max m (|c| * absRowSum (A.row i)) := by
    funext m i; rw [scale_row', absRowSum_srow]
  rw [this]
  have h := foldl_max_mul |c| (abs_nonneg c) (fun i => absRowSum (A.row i)) (List.range A.nrows) 0
  rw [mul_zero] at h
  exact h

theorem lastDiag_srow (c : K) (i : Nat) (r : Row K) (d0 : K) : K2.lastDiag i (srow c r) (d0 * c) = K2.lastDiag i r d0 * c := by
  induction r generalizing d0 with
  | nil => rfl
  | cons cv t ih =>
    show K2.lastDiag i ((cv.1, cv.2 * c) :: srow c t) (d0 * c) = _
    rw [K2.lastDiag_cons, K2.lastDiag_cons]
    by_cases h : cv.1 = i
    · simp only [h, if_true]; exact ih _
    · simp only [h, if_false]; exact ih _

/-- **Gershgorin bound of `c·A`, scaled by the diagonal**: unchanged (`c ≠ 0`, every row stores its diagonal) -/
theorem gershgorin_true_scale (c : K) (hc : c ≠ 0) (A : CRS K) (hdiag : ∀ i < A.nrows, i ∈ (A.row i).map (·.1)) :
    gershgorin true (scale A c) = gershgorin true A := by
  have hdiag' : ∀ i < (scale A c).nrows, i ∈ ((scale A c).row i).map (·.1) := by
    intro i hi
    rw [scale_row', srow_cols]
    exact hdiag i (by rwa [scale_nrows'] at hi)
  rw [gershgorin_scaled_eq _ hdiag', gershgorin_scaled_eq _ hdiag, scale_nrows']
  apply List.foldl_ext
  intro m i hi
  have hi' : i < A.nrows := List.mem_range.mp hi
  rw [scale_row', absRowSum_srow]
  have h1 : K2.lastDiag i (srow c (A.row i)) 1 = K2.lastDiag i (A.row i) 1 * c := by
    rw [K2.lastDiag_of_mem i (srow c (A.row i)) 1 (1 * c) (by rw [srow_cols]; exact hdiag i hi'), lastDiag_srow]
  rw [h1, mul_inv, abs_mul, abs_inv c]
  have : |c| ≠ 0 := abs_ne_zero.mpr hc
  congr 1
  field_simp

end gersh

section diag
variable {K : Type} [Field K] [DecidableEq K]

theorem firstDiag_srow (c : K) (r : Row K) (i : Nat) : firstDiag (srow c r) i = (firstDiag r i).map (· * c) := by
  unfold firstDiag srow
  induction r with
  | nil => rfl
  | cons cv t ih =>
    simp only [List.map_cons, List.find?_cons]
    by_cases h : (cv.1 == i) = true
    · simp [h]
    · simp only [h]; exact ih

/-- the inverted diagonal of `c·A` is `c⁻¹ ·` that of `A` when no (first stored) diagonal entry is zero
(`backend::diagonal(A, invert = true)` replaces the inverse of a zero by `1`, which does not scale) -/
theorem diagInv_scale (c : K) (hc : c ≠ 0) (A : CRS K) (hnz : ∀ i < A.nrows, firstDiag (A.row i) i ≠ some 0) :
    diagInv (scale A c) = vsmul c⁻¹ (diagInv A) := by
  apply Vec.ext_getD (0 : K) (by simp [diagInv, scale_nrows'])
  intro i hi
  have hi' : i < A.nrows := by simpa [diagInv, scale_nrows'] using hi
  rw [getD_vsmul]
  unfold diagInv
  rw [getD_ofFn_lt _ _ _ (by rw [scale_nrows']; exact hi'), getD_ofFn_lt _ _ _ hi']
  simp only [scale_row', firstDiag_srow]
  cases hd : firstDiag (A.row i) i with
  | none => simp
  | some d =>
    have hd0 : d ≠ 0 := by intro h; exact hnz i hi' (by rw [hd, h])
    simp only [Option.map_some]
    rw [if_neg hd0, if_neg (mul_ne_zero hd0 hc)]
    field_simp

end diag

section solve
variable {K : Type} [Field K] [DecidableEq K]

theorem axpby_vsmul (γ : K) (hγ : γ ≠ 0) (a β : K) (r p : Vec K) :
    axpby (γ⁻¹ * a) (vsmul γ r) β p = axpby a r β p := by
  unfold axpby
  split
  · apply ext_getD' (0 : K) (by simp)
    intro i; rw [getD_ofFn, getD_ofFn]
    by_cases hi : i < r.size
    · simp only [vsmul_size, hi, dite_true]; rw [getD_vsmul]; field_simp
    · simp [hi]
  · apply ext_getD' (0 : K) (by simp)
    intro i; rw [getD_ofFn, getD_ofFn]
    by_cases hi : i < r.size
    · simp only [vsmul_size, hi, dite_true]; rw [getD_vsmul]; field_simp
    · simp [hi]

theorem chebCoef_scale (γ : K) (hγ : γ ≠ 0) (s s' : ChebState K) (hd : s'.d = γ * s.d) (hcc : s'.c = γ * s.c)
    (α : K) (k : Nat) :
    chebCoef s' (γ⁻¹ * α) k = (γ⁻¹ * (chebCoef s α k).1, (chebCoef s α k).2) := by
  unfold chebCoef
  rw [hd, hcc]
  by_cases h0 : k = 0
  · simp only [h0, if_true]
    congr 1
    by_cases hd0 : s.d = 0
    · simp [hd0]
    · field_simp
  · simp only [h0, if_false]
    by_cases h1 : k = 1
    · simp only [h1, if_true]
      have e : (1 + 1) * (γ * s.d) * (1 / ((1 + 1) * (γ * s.d) * (γ * s.d) - γ * s.c * (γ * s.c)))
          = γ⁻¹ * ((1 + 1) * s.d * (1 / ((1 + 1) * s.d * s.d - s.c * s.c))) := by
        by_cases hz : (1 + 1) * s.d * s.d - s.c * s.c = 0
        · have hz' : (1 + 1) * (γ * s.d) * (γ * s.d) - γ * s.c * (γ * s.c) = 0 := by
            have : (1 + 1) * (γ * s.d) * (γ * s.d) - γ * s.c * (γ * s.c) = γ * γ * ((1 + 1) * s.d * s.d - s.c * s.c) := by
              ring
            rw [this, hz]; ring
          rw [hz, hz']; simp
        · have hz' : (1 + 1) * (γ * s.d) * (γ * s.d) - γ * s.c * (γ * s.c) ≠ 0 := by
            have : (1 + 1) * (γ * s.d) * (γ * s.d) - γ * s.c * (γ * s.c) = γ * γ * ((1 + 1) * s.d * s.d - s.c * s.c) := by
              ring
            rw [this]; exact mul_ne_zero (mul_ne_zero hγ hγ) hz
          field_simp
      refine Prod.ext e ?_
      simp only []
      rw [e]; field_simp
    · simp only [h1, if_false]
      have e : 1 / (γ * s.d - 1 / ((1 + 1) * (1 + 1)) * (γ⁻¹ * α) * (γ * s.c) * (γ * s.c))
          = γ⁻¹ * (1 / (s.d - 1 / ((1 + 1) * (1 + 1)) * α * s.c * s.c)) := by
        have : γ * s.d - 1 / ((1 + 1) * (1 + 1)) * (γ⁻¹ * α) * (γ * s.c) * (γ * s.c)
            = γ * (s.d - 1 / ((1 + 1) * (1 + 1)) * α * s.c * s.c) := by
          field_simp
        rw [this]; simp only [one_div, mul_inv]
      refine Prod.ext e ?_
      simp only []
      rw [e]; field_simp

/-- invariant of the recurrence: same `x`, same `p`, `alpha` scaled by `γ⁻¹` -/
structure ChebRel (γ : K) (st st' : ChebIter K) : Prop where
  x : st'.x = st.x
  p : st'.p = st.p
  alpha : st'.alpha = γ⁻¹ * st.alpha

theorem chebStep_scale (γ : K) (hγ : γ ≠ 0) (s s' : ChebState K) (hd : s'.d = γ * s.d) (hcc : s'.c = γ * s.c)
    (A A' : CRS K) (b b' : Vec K) (hres : ∀ x, chebResid s' A' b' x = vsmul γ (chebResid s A b x))
    (st st' : ChebIter K) (h : ChebRel γ st st') (k : Nat) :
    ChebRel γ (chebStep s A b st k) (chebStep s' A' b' st' k) := by
  rw [chebStep_eq, chebStep_eq]
  simp only []
  rw [h.alpha, chebCoef_scale γ hγ s s' hd hcc, h.x, h.p, hres]
  simp only []
  rw [axpby_vsmul γ hγ]
  exact ⟨rfl, rfl, rfl⟩

/-- **generic form**: if the ellipse of `s'` is `γ ·` that of `s` and the (possibly diagonally scaled) residuals are
`γ ·` each other for every iterate, `solve` returns the same `x` (and the same member `p`) -/
theorem chebSolve_scale (γ : K) (hγ : γ ≠ 0) (s s' : ChebState K) (hdeg : s'.degree = s.degree)
    (hd : s'.d = γ * s.d) (hcc : s'.c = γ * s.c)
    (A A' : CRS K) (b b' : Vec K) (hres : ∀ x, chebResid s' A' b' x = vsmul γ (chebResid s A b x))
    (x p r r' : Vec K) :
    (chebSolve s' A' b' x p r').1 = (chebSolve s A b x p r).1 := by
  unfold chebSolve
  rw [hdeg]
  have key : ∀ (l : List Nat) (st st' : ChebIter K), ChebRel γ st st' →
      ChebRel γ (l.foldl (chebStep s A b) st) (l.foldl (chebStep s' A' b') st') := by
    intro l
    induction l with
    | nil => intro st st' h; exact h
    | cons k t ih =>
      intro st st' h
      simp only [List.foldl_cons]
      exact ih _ _ (chebStep_scale γ hγ s s' hd hcc A A' b b' hres st st' h k)
  exact (key _ { x := x, p := p, r := r, alpha := 0, beta := 0 } { x := x, p := p, r := r', alpha := 0, beta := 0 }
    ⟨rfl, rfl, by simp⟩).x

theorem chebResid_scale_unscaled (c : K) (s s' : ChebState K) (hs : s.scale = false) (hs' : s'.scale = false)
    (A : CRS K) (b x : Vec K) :
    chebResid s' (scale A c) (vsmul c b) x = vsmul c (chebResid s A b x) := by
  unfold chebResid
  simp only [hs, hs']
  exact residual_scale c A b x

theorem chebResid_scale_scaled (c : K) (hc : c ≠ 0) (s s' : ChebState K) (hs : s.scale = true) (hs' : s'.scale = true)
    (A : CRS K) (hM : s.M.size = A.nrows) (hM' : s'.M = vsmul c⁻¹ s.M) (b x : Vec K) :
    chebResid s' (scale A c) (vsmul c b) x = vsmul 1 (chebResid s A b x) := by
  unfold chebResid
  simp only [hs, hs', if_true]
  rw [residual_scale, hM']
  apply ext_getD' (0 : K) (by simp)
  intro i
  rw [getD_vsmul]
  by_cases hi : i < s.M.size
  · rw [getD_vmul _ _ _ _ _ _ (by simpa using hi), getD_vmul _ _ _ _ _ _ hi, getD_vsmul, getD_vsmul]
    field_simp
    ring
  · rw [getD_of_size_le _ _ _ (by simp; omega), getD_of_size_le _ _ _ (by simp; omega)]; ring

end solve

end Relax
end Amgcl
