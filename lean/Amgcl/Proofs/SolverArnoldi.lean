import Amgcl.Proofs.SolverGMRESExact
import Amgcl.Proofs.SolverGivens
import Mathlib.Tactic.FieldSimp
import Mathlib.Tactic.Ring
import Mathlib.Algebra.BigOperators.Group.Finset.Basic
/-!
The Arnoldi process as the code runs it (C05): one modified Gram–Schmidt step `orth` (gmres.hpp:219-225, shared by
GMRES / FGMRES / LGMRES) against an orthonormal list `v[0..j]`

* makes the new vector orthogonal to every `v[i]`, `i ≤ j` (`orth_orthogonal`) — for ANY `sqrt`,
* normalises it when the root is exact on the one number `⟨w,w⟩` it is applied to and there is no breakdown
  (`orth_normalised`),
* and records in column `j` of `H` the coefficients of the Arnoldi relation
  `v_new = Σ_{k ≤ j} H(k,j) v[k] + H(j+1,j) v[j+1]` (`orth_arnoldi`; `orth_arnoldi_breakdown` for `H(j+1,j) = 0`).

The inner product is a parameter; what is used of it is collected in `IpOK ip n` (symmetric, additive and
homogeneous in the first argument in the two forms `axpby(a,u,1,w)`, `axpby(a,u,0,w)` the code produces, on vectors
of length `n`).  `stdIp_ipOK` shows that the backend's serial inner product satisfies it.
-/
namespace Amgcl.Solver
open Amgcl
set_option linter.unusedSectionVars false
set_option linter.unusedSimpArgs false
set_option linter.unusedVariables false

variable {K : Type} [Field K] [DecidableEq K] [LT K] [DecidableLT K]

/-- what the Arnoldi proofs use of the inner product, on vectors of length `n` -/
structure IpOK (ip : Vec K → Vec K → K) (n : Nat) : Prop where
  symm : ∀ u w : Vec K, u.size = n → w.size = n → ip u w = ip w u
  add : ∀ (a : K) (u w z : Vec K), u.size = n → w.size = n → z.size = n →
    ip (axpby a u 1 w) z = a * ip u z + ip w z
  smul : ∀ (a : K) (u w z : Vec K), u.size = n → z.size = n → ip (axpby a u 0 w) z = a * ip u z

/-- `v[0..j]` is an orthonormal list of vectors of length `n` -/
def Orthonormal (ip : Vec K → Vec K → K) (n : Nat) (v : FArr (Vec K)) (j : Nat) : Prop :=
  (∀ a, a ≤ j → (v.get a).size = n) ∧
  ∀ a b, a ≤ j → b ≤ j → ip (v.get a) (v.get b) = if a = b then 1 else 0

/-! ### the Gram–Schmidt loop -/

/-- invariant of `mgs` after the passes `0..k-1`: the current vector `w` has length `n`, is orthogonal to
`v[0..k-1]`, and `v_new = Σ_{i<k} H(i,j) v[i] + w` -/
theorem mgs_inv (ip : Vec K → Vec K → K) (n : Nat) (hip : IpOK ip n) (v : FArr (Vec K)) (j : Nat) (H : FArr2 K)
    (vnew : Vec K) (hv : Orthonormal ip n v j) (hn : vnew.size = n) :
    (mgs ip v j H vnew).2.size = n ∧
    (∀ i, i ≤ j → ip (mgs ip v j H vnew).2 (v.get i) = 0) ∧
    ∀ t, t < n → vnew.getD t 0
      = (∑ i ∈ Finset.range (j + 1), (mgs ip v j H vnew).1.get i j * (v.get i).getD t 0)
        + (mgs ip v j H vnew).2.getD t 0 := by
  obtain ⟨hsz, hon⟩ := hv
  have h := foldl_range_inv
    (fun (acc : FArr2 K × Vec K) k =>
      ((setF2 acc.1 k j (ip acc.2 (v.get k))),
        axpby (-((setF2 acc.1 k j (ip acc.2 (v.get k))).get k j)) (v.get k) 1 acc.2))
    (fun k (s : FArr2 K × Vec K) => s.2.size = n ∧ (∀ i, i < k → ip s.2 (v.get i) = 0) ∧
      ∀ t, t < n → vnew.getD t 0 = (∑ i ∈ Finset.range k, s.1.get i j * (v.get i).getD t 0) + s.2.getD t 0)
    (j + 1) (H, vnew)
    ⟨hn, fun i hi => absurd hi (Nat.not_lt_zero i), fun t _ => by simp⟩
    (by
      intro k s hk ⟨h1, h2, h3⟩
      have hkj : k ≤ j := Nat.le_of_lt_succ hk
      have hvk : (v.get k).size = n := hsz k hkj
      simp only [setF2_same]
      refine ⟨?_, ?_, ?_⟩
      · rw [axpby_size]; exact hvk
      · intro i hi
        have hij : i ≤ j := by omega
        rw [hip.add _ _ _ _ hvk h1 (hsz i hij), hon k i hkj hij]
        by_cases hik : i = k
        · subst hik; simp
        · have hki : ¬ k = i := fun e => hik e.symm
          rw [if_neg hki, h2 i (by omega)]; ring
      · intro t ht
        rw [Finset.sum_range_succ, setF2_same, axpby_getD _ _ _ _ _ (by rw [hvk]; exact ht), h3 t ht]
        have hsum : ∑ i ∈ Finset.range k, (setF2 s.1 k j (ip s.2 (v.get k))).get i j * (v.get i).getD t 0
            = ∑ i ∈ Finset.range k, s.1.get i j * (v.get i).getD t 0 := by
          apply Finset.sum_congr rfl
          intro i hi
          have hik : i ≠ k := by have := Finset.mem_range.mp hi; omega
          simp only [setF2_get, hik, false_and, if_false]
        rw [hsum]; ring)
  exact ⟨h.1, fun i hi => h.2.1 i (Nat.lt_succ_of_le hi), h.2.2⟩

/-! ### `orth` -/

theorem orth_snd (ip : Vec K → Vec K → K) (sqrt : K → K) (v : FArr (Vec K)) (j : Nat) (H : FArr2 K)
    (vnew : Vec K) :
    (orth ip sqrt v j H vnew).2
      = axpby (inv1 (nrmA ip sqrt (mgs ip v j H vnew).2)) (mgs ip v j H vnew).2 0 (mgs ip v j H vnew).2 := by
  show axpby (inv1 ((setF2 (mgs ip v j H vnew).1 (j + 1) j (nrmA ip sqrt (mgs ip v j H vnew).2)).get (j + 1) j))
      (mgs ip v j H vnew).2 0 (mgs ip v j H vnew).2 = _
  rw [setF2_same]

/-- `H(j+1,j) = ‖w‖` for the orthogonalised vector `w` -/
theorem orth_sub (ip : Vec K → Vec K → K) (sqrt : K → K) (v : FArr (Vec K)) (j : Nat) (H : FArr2 K)
    (vnew : Vec K) : (orth ip sqrt v j H vnew).1.get (j + 1) j = nrmA ip sqrt (mgs ip v j H vnew).2 := by
  show (setF2 (mgs ip v j H vnew).1 (j + 1) j (nrmA ip sqrt (mgs ip v j H vnew).2)).get (j + 1) j = _
  rw [setF2_same]

/-- the Gram–Schmidt coefficients `H(k,j)`, `k ≤ j`, are those of `mgs` -/
theorem orth_col (ip : Vec K → Vec K → K) (sqrt : K → K) (v : FArr (Vec K)) (j : Nat) (H : FArr2 K)
    (vnew : Vec K) (k : Nat) (hk : k ≤ j) :
    (orth ip sqrt v j H vnew).1.get k j = (mgs ip v j H vnew).1.get k j := by
  show (setF2 (mgs ip v j H vnew).1 (j + 1) j (nrmA ip sqrt (mgs ip v j H vnew).2)).get k j = _
  have : ¬ (k = j + 1) := by omega
  simp only [setF2_get, this, false_and, if_false]

theorem orth_size (ip : Vec K → Vec K → K) (sqrt : K → K) (n : Nat) (hip : IpOK ip n) (v : FArr (Vec K)) (j : Nat)
    (H : FArr2 K) (vnew : Vec K) (hv : Orthonormal ip n v j) (hn : vnew.size = n) :
    (orth ip sqrt v j H vnew).2.size = n := by
  rw [orth_snd, axpby_size]
  exact (mgs_inv ip n hip v j H vnew hv hn).1

/-- **modified Gram–Schmidt orthogonalises**: the vector `orth` returns is orthogonal to every `v[i]`, `i ≤ j` — for
every `sqrt`, with or without breakdown -/
theorem orth_orthogonal (ip : Vec K → Vec K → K) (sqrt : K → K) (n : Nat) (hip : IpOK ip n) (v : FArr (Vec K))
    (j : Nat) (H : FArr2 K) (vnew : Vec K) (hv : Orthonormal ip n v j) (hn : vnew.size = n) (i : Nat)
    (hi : i ≤ j) : ip (orth ip sqrt v j H vnew).2 (v.get i) = 0 := by
  obtain ⟨m1, m2, _⟩ := mgs_inv ip n hip v j H vnew hv hn
  rw [orth_snd, hip.smul _ _ _ _ m1 (hv.1 i hi), m2 i hi, mul_zero]

/-- **the new basis vector has norm one** when there is no breakdown (`H(j+1,j) ≠ 0`) and the root is exact on the
one number `⟨w,w⟩` it is applied to (`w` the orthogonalised, not yet normalised vector) -/
theorem orth_normalised (ip : Vec K → Vec K → K) (sqrt : K → K) (n : Nat) (hip : IpOK ip n) (v : FArr (Vec K))
    (j : Nat) (H : FArr2 K) (vnew : Vec K) (hv : Orthonormal ip n v j) (hn : vnew.size = n)
    (hroot : sqrt (ip (mgs ip v j H vnew).2 (mgs ip v j H vnew).2)
        * sqrt (ip (mgs ip v j H vnew).2 (mgs ip v j H vnew).2)
      = ip (mgs ip v j H vnew).2 (mgs ip v j H vnew).2)
    (hne : (orth ip sqrt v j H vnew).1.get (j + 1) j ≠ 0) :
    ip (orth ip sqrt v j H vnew).2 (orth ip sqrt v j H vnew).2 = 1 := by
  obtain ⟨m1, _, _⟩ := mgs_inv ip n hip v j H vnew hv hn
  rw [orth_sub] at hne
  have hsq := nrmA_sq ip sqrt _ hroot
  have hsz : (orth ip sqrt v j H vnew).2.size = n := orth_size ip sqrt n hip v j H vnew hv hn
  rw [orth_snd] at hsz ⊢
  rw [hip.smul _ _ _ _ m1 hsz, hip.symm _ _ m1 hsz, hip.smul _ _ _ _ m1 m1, ← hsq]
  unfold inv1
  field_simp

/-- **the Arnoldi relation of one step**, entrywise: `v_new = Σ_{k ≤ j} H(k,j)·v[k] + H(j+1,j)·v[j+1]` with the
column of `H` and the vector `v[j+1]` that `orth` returns (no breakdown) -/
theorem orth_arnoldi (ip : Vec K → Vec K → K) (sqrt : K → K) (n : Nat) (hip : IpOK ip n) (v : FArr (Vec K))
    (j : Nat) (H : FArr2 K) (vnew : Vec K) (hv : Orthonormal ip n v j) (hn : vnew.size = n)
    (hne : (orth ip sqrt v j H vnew).1.get (j + 1) j ≠ 0) (t : Nat) (ht : t < n) :
    vnew.getD t 0
      = (∑ k ∈ Finset.range (j + 1), (orth ip sqrt v j H vnew).1.get k j * (v.get k).getD t 0)
        + (orth ip sqrt v j H vnew).1.get (j + 1) j * (orth ip sqrt v j H vnew).2.getD t 0 := by
  obtain ⟨m1, _, m3⟩ := mgs_inv ip n hip v j H vnew hv hn
  rw [orth_sub] at hne
  have hsum : ∑ k ∈ Finset.range (j + 1), (orth ip sqrt v j H vnew).1.get k j * (v.get k).getD t 0
      = ∑ k ∈ Finset.range (j + 1), (mgs ip v j H vnew).1.get k j * (v.get k).getD t 0 := by
    apply Finset.sum_congr rfl
    intro k hk
    rw [orth_col ip sqrt v j H vnew k (by have := Finset.mem_range.mp hk; omega)]
  rw [hsum, orth_sub, orth_snd, axpby_getD _ _ _ _ _ (by rw [m1]; exact ht), m3 t ht]
  unfold inv1
  field_simp
  ring

/-- the breakdown case `H(j+1,j) = 0`: `v_new = Σ_{k ≤ j} H(k,j)·v[k] + w` where the remainder `w` has
`⟨w,w⟩ = 0` (root exact on that number) -/
theorem orth_arnoldi_breakdown (ip : Vec K → Vec K → K) (sqrt : K → K) (n : Nat) (hip : IpOK ip n)
    (v : FArr (Vec K)) (j : Nat) (H : FArr2 K) (vnew : Vec K) (hv : Orthonormal ip n v j) (hn : vnew.size = n)
    (hroot : sqrt (ip (mgs ip v j H vnew).2 (mgs ip v j H vnew).2)
        * sqrt (ip (mgs ip v j H vnew).2 (mgs ip v j H vnew).2)
      = ip (mgs ip v j H vnew).2 (mgs ip v j H vnew).2)
    (hz : (orth ip sqrt v j H vnew).1.get (j + 1) j = 0) :
    ip (mgs ip v j H vnew).2 (mgs ip v j H vnew).2 = 0 ∧
    ∀ t, t < n → vnew.getD t 0
      = (∑ k ∈ Finset.range (j + 1), (orth ip sqrt v j H vnew).1.get k j * (v.get k).getD t 0)
        + (mgs ip v j H vnew).2.getD t 0 := by
  obtain ⟨m1, _, m3⟩ := mgs_inv ip n hip v j H vnew hv hn
  rw [orth_sub] at hz
  refine ⟨?_, ?_⟩
  · have hsq := nrmA_sq ip sqrt _ hroot
    rw [hz, mul_zero] at hsq
    exact hsq.symm
  · intro t ht
    have hsum : ∑ k ∈ Finset.range (j + 1), (orth ip sqrt v j H vnew).1.get k j * (v.get k).getD t 0
        = ∑ k ∈ Finset.range (j + 1), (mgs ip v j H vnew).1.get k j * (v.get k).getD t 0 := by
      apply Finset.sum_congr rfl
      intro k hk
      rw [orth_col ip sqrt v j H vnew k (by have := Finset.mem_range.mp hk; omega)]
    rw [hsum]; exact m3 t ht

/-- after the step the list `v[0..j+1]` (with the new vector stored at `j+1`) is orthonormal again -/
theorem orth_orthonormal_succ (ip : Vec K → Vec K → K) (sqrt : K → K) (n : Nat) (hip : IpOK ip n)
    (v : FArr (Vec K)) (j : Nat) (H : FArr2 K) (vnew : Vec K) (hv : Orthonormal ip n v j) (hn : vnew.size = n)
    (hroot : sqrt (ip (mgs ip v j H vnew).2 (mgs ip v j H vnew).2)
        * sqrt (ip (mgs ip v j H vnew).2 (mgs ip v j H vnew).2)
      = ip (mgs ip v j H vnew).2 (mgs ip v j H vnew).2)
    (hne : (orth ip sqrt v j H vnew).1.get (j + 1) j ≠ 0) :
    Orthonormal ip n (setF v (j + 1) (orth ip sqrt v j H vnew).2) (j + 1) := by
  have hsz := orth_size ip sqrt n hip v j H vnew hv hn
  have h1 := orth_normalised ip sqrt n hip v j H vnew hv hn hroot hne
  have h0 := orth_orthogonal ip sqrt n hip v j H vnew hv hn
  refine ⟨?_, ?_⟩
  · intro a ha
    rw [setF_get]
    by_cases haj : a = j + 1
    · rw [if_pos haj]; exact hsz
    · rw [if_neg haj]; exact hv.1 a (by omega)
  · intro a b ha hb
    rw [setF_get, setF_get]
    by_cases haj : a = j + 1
    · by_cases hbj : b = j + 1
      · rw [if_pos haj, if_pos hbj, h1, if_pos (by omega)]
      · rw [if_pos haj, if_neg hbj, h0 b (by omega), if_neg (by omega)]
    · by_cases hbj : b = j + 1
      · rw [if_neg haj, if_pos hbj, hip.symm _ _ (hv.1 a (by omega)) hsz, h0 a (by omega), if_neg (by omega)]
      · rw [if_neg haj, if_neg hbj]; exact hv.2 a b (by omega) (by omega)

/-! ### the backend's serial inner product satisfies `IpOK` -/

theorem zip_sum_eq_finsum (l1 l2 : List K) (h : l1.length = l2.length) :
    ((l1.zip l2).map (fun p => p.1 * p.2)).sum = ∑ i ∈ Finset.range l1.length, l1.getD i 0 * l2.getD i 0 := by
  induction l1 generalizing l2 with
  | nil => simp
  | cons a t ih =>
    cases l2 with
    | nil => simp at h
    | cons b t2 =>
      have h' : t.length = t2.length := by simpa using h
      simp only [List.zip_cons_cons, List.map_cons, List.sum_cons, List.length_cons]
      rw [Finset.sum_range_succ', ih t2 h']
      simp only [List.getD_cons_succ, List.getD_cons_zero]
      ring

theorem stdIp_eq_finsum (n : Nat) (x y : Vec K) (hx : x.size = n) (hy : y.size = n) :
    stdIp x y = ∑ i ∈ Finset.range n, x.getD i 0 * y.getD i 0 := by
  rw [stdIp_eq_sum, zip_sum_eq_finsum x.toList y.toList (by simp [hx, hy])]
  simp only [Array.length_toList, hx]
  apply Finset.sum_congr rfl
  intro i _
  simp [Array.getD_eq_getD_getElem?, List.getD_eq_getElem?_getD]

/-- non-vacuity of the hypotheses on the inner product: `detail::default_inner_product` (serial) has them -/
theorem stdIp_ipOK (n : Nat) : IpOK (stdIp : Vec K → Vec K → K) n := by
  refine ⟨?_, ?_, ?_⟩
  · intro u w hu hw
    rw [stdIp_eq_finsum n u w hu hw, stdIp_eq_finsum n w u hw hu]
    apply Finset.sum_congr rfl
    intro i _; ring
  · intro a u w z hu hw hz
    rw [stdIp_eq_finsum n _ z (by rw [axpby_size, hu]) hz, stdIp_eq_finsum n u z hu hz,
      stdIp_eq_finsum n w z hw hz, Finset.mul_sum, ← Finset.sum_add_distrib]
    apply Finset.sum_congr rfl
    intro i hi
    rw [axpby_getD _ _ _ _ _ (by rw [hu]; exact Finset.mem_range.mp hi)]
    ring
  · intro a u w z hu hz
    rw [stdIp_eq_finsum n _ z (by rw [axpby_size, hu]) hz, stdIp_eq_finsum n u z hu hz, Finset.mul_sum]
    apply Finset.sum_congr rfl
    intro i hi
    rw [axpby_getD _ _ _ _ _ (by rw [hu]; exact Finset.mem_range.mp hi)]
    ring

end Amgcl.Solver
