import Amgcl.Model.CoarseningChecks
import Amgcl.Proofs.Primitives
import Mathlib.Order.Defs.LinearOrder
/-!
Soundness of the V-grade predicates of C04: a `true` verdict implies the denotational statement about the checked
output.
-/
namespace Amgcl
namespace Coarsening
open Finset

theorem wf_of_wfb {K : Type} (A : CRS K) (h : A.wfb = true) : A.WF := by
  intro r hr cv hcv
  unfold CRS.wfb at h
  rw [List.all_eq_true] at h
  have h1 := h r hr
  rw [List.all_eq_true] at h1
  simpa using h1 cv hcv

section
variable {K : Type} [CommRing K]

/-- a weighted row sum over the stored entries is the weighted sum of the denoted row -/
theorem foldl_weighted (w : Nat → K) (r : Row K) (m : Nat) (h : ∀ cv ∈ r, cv.1 < m) :
    r.foldl (fun s cv => s + cv.2 * w cv.1) 0 = ∑ c ∈ range m, rowGet r c * w c := by
  have hgen : ∀ (s0 : K), r.foldl (fun s cv => s + cv.2 * w cv.1) s0 = s0 + ∑ c ∈ range m, rowGet r c * w c := by
    induction r with
    | nil => intro s0; simp
    | cons cv t ih =>
      intro s0
      rw [List.foldl_cons, ih (fun c hc => h c (List.mem_cons_of_mem _ hc))]
      have hcv : cv.1 < m := h cv List.mem_cons_self
      have : ∑ c ∈ range m, rowGet (cv :: t) c * w c = cv.2 * w cv.1 + ∑ c ∈ range m, rowGet t c * w c := by
        simp only [rowGet_cons]
        have : ∀ c ∈ range m, (if cv.1 = c then cv.2 + rowGet t c else rowGet t c) * w c =
            (if cv.1 = c then cv.2 * w c else 0) + rowGet t c * w c := by
          intro c _; split <;> ring
        rw [sum_congr rfl this, sum_add_distrib, sum_ite_eq, if_pos (mem_range.2 hcv)]
      rw [this]; ring
  rw [hgen 0]; ring

theorem rowSumList_eq_sum (r : Row K) (m : Nat) (h : ∀ cv ∈ r, cv.1 < m) :
    rowSumList r = ∑ c ∈ range m, rowGet r c := by
  have := foldl_weighted (fun _ => (1 : K)) r m h
  simp only [mul_one] at this
  exact this

theorem foldl_range_sum (f : Nat → K) (n : Nat) :
    (List.range n).foldl (fun s i => s + f i) 0 = ∑ i ∈ range n, f i := by
  induction n with
  | zero => simp
  | succ n ih => rw [List.range_succ, List.foldl_append, ih, sum_range_succ]; simp

end
end Coarsening
end Amgcl
