import Amgcl.Model.KernelsValue
/-!
# `pointwiseMatrixV` (norms taken first, `Model/KernelsValue.lean`) against `pointwiseMatrix` (norm taken inside the scan,
`Model/PointwiseMatrix.lean`): the scan touches a value only through `norm`, so mapping the values first changes nothing.
-/
namespace Amgcl.KV
open Amgcl Amgcl.Coarsening

section
variable {V S : Type}

/-- the value map on a row -/
def mapRow (f : V → S) (r : Row V) : Row S := r.map (fun cv => (cv.1, f cv.2))

theorem mapVals_row (f : V → S) (A : CRS V) (i : Nat) : (A.mapVals f).row i = mapRow f (A.row i) := by
  unfold CRS.mapVals CRS.row mapRow
  simp only [Array.getD_eq_getD_getElem?, Array.getElem?_map]
  cases A.rows[i]? <;> simp

theorem mapVals_nrows (f : V → S) (A : CRS V) : (A.mapVals f).nrows = A.nrows := by
  simp [CRS.mapVals, CRS.nrows]

end

section scalar
variable {K : Type} [Zero K] [LT K] [DecidableLT K]

theorem pwScan_map (f : K → K) (colEnd : Nat) (r : Row K) (s : PwRound K) :
    pwScan id colEnd (mapRow f r) s = ((pwScan f colEnd r s).1, mapRow f (pwScan f colEnd r s).2) := by
  induction r generalizing s with
  | nil => simp [mapRow, pwScan]
  | cons cv t ih =>
    obtain ⟨c, v⟩ := cv
    by_cases h : c ≥ colEnd
    · simp [mapRow, pwScan, h]
    · have ih' := ih (s.val (f v))
      simp only [mapRow, List.map_cons] at ih' ⊢
      simp only [pwScan, h, if_false, id]
      exact ih'

theorem pwRoundRows_map_aux (f : K → K) (colEnd : Nat) (rows : List (Row K)) (s : PwRound K) (acc : List (Row K)) :
    (rows.map (mapRow f)).foldl (fun (a : PwRound K × List (Row K)) r =>
        let res := pwScan id colEnd r a.1
        (res.1, a.2 ++ [res.2])) (s, acc.map (mapRow f))
      = ((rows.foldl (fun (a : PwRound K × List (Row K)) r =>
            let res := pwScan f colEnd r a.1
            (res.1, a.2 ++ [res.2])) (s, acc)).1,
         (rows.foldl (fun (a : PwRound K × List (Row K)) r =>
            let res := pwScan f colEnd r a.1
            (res.1, a.2 ++ [res.2])) (s, acc)).2.map (mapRow f)) := by
  induction rows generalizing s acc with
  | nil => simp
  | cons r t ih =>
    simp only [List.map_cons, List.foldl_cons]
    rw [pwScan_map]
    have := ih (pwScan f colEnd r s).1 (acc ++ [(pwScan f colEnd r s).2])
    simp only [List.map_append, List.map_cons, List.map_nil] at this
    exact this

theorem pwRoundRows_map (f : K → K) (colEnd : Nat) (rows : List (Row K)) (s : PwRound K) :
    pwRoundRows id colEnd (rows.map (mapRow f)) s
      = ((pwRoundRows f colEnd rows s).1, (pwRoundRows f colEnd rows s).2.map (mapRow f)) := by
  have := pwRoundRows_map_aux f colEnd rows s []
  simpa [pwRoundRows] using this

theorem pwWhile_map (f : K → K) (b fuel : Nat) (done : Bool) (curCol : Nat) (rows : List (Row K)) (acc : Row K) :
    pwWhile id b fuel done curCol (rows.map (mapRow f)) acc = pwWhile f b fuel done curCol rows acc := by
  induction fuel generalizing done curCol rows acc with
  | zero => simp [pwWhile]
  | succ n ih =>
    unfold pwWhile
    cases done
    · simp only [Bool.false_eq_true, if_false]
      rw [pwRoundRows_map]
      exact ih _ _ _ _
    · simp

theorem pwInit_map_aux (f : K → K) (rows : List (Row K)) (s : PwRound K) :
    (rows.map (mapRow f)).foldl (fun (s : PwRound K) r =>
        match r with
        | [] => s
        | (c, _) :: _ => s.see c) s
      = rows.foldl (fun (s : PwRound K) r =>
        match r with
        | [] => s
        | (c, _) :: _ => s.see c) s := by
  induction rows generalizing s with
  | nil => rfl
  | cons r t ih =>
    simp only [List.map_cons, List.foldl_cons]
    cases r with
    | nil => simpa [mapRow] using ih s
    | cons cv r' => obtain ⟨c, v⟩ := cv; simpa [mapRow] using ih (s.see c)

theorem pwInit_map (f : K → K) (rows : List (Row K)) : pwInit (rows.map (mapRow f)) = pwInit rows :=
  pwInit_map_aux f rows _

theorem fuel_map_aux (f : K → K) (rows : List (Row K)) (n : Nat) :
    (rows.map (mapRow f)).foldl (fun n r => n + r.length) n = rows.foldl (fun n r => n + r.length) n := by
  induction rows generalizing n with
  | nil => rfl
  | cons r t ih => simp only [List.map_cons, List.foldl_cons]; rw [ih]; simp [mapRow]

theorem pwBlockRow_map (f : K → K) (b : Nat) (rows : List (Row K)) :
    pwBlockRow id b (rows.map (mapRow f)) = pwBlockRow f b rows := by
  unfold pwBlockRow
  rw [pwInit_map, fuel_map_aux, pwWhile_map]

/-- **`pointwiseMatrixV` at a scalar value type is `pointwiseMatrix`** -/
theorem pointwiseMatrixV_eq (f : K → K) (A : CRS K) (b : Nat) :
    pointwiseMatrixV f A b = pointwiseMatrix f A b := by
  unfold pointwiseMatrixV pointwiseMatrix
  rw [mapVals_nrows]
  have hc : (A.mapVals f).ncols = A.ncols := rfl
  rw [hc]
  by_cases hb : b = 0
  · simp [hb]
  · simp only [hb, if_false]
    by_cases hd : A.nrows / b * b ≠ A.nrows
    · simp [hd]
    · simp only [hd, if_false]
      congr 2
      congr 1
      funext ip
      have : ((List.range b).map fun k => (A.mapVals f).row (ip.val * b + k))
          = ((List.range b).map fun k => A.row (ip.val * b + k)).map (mapRow f) := by
        rw [List.map_map]; apply List.map_congr_left; intro k _; exact mapVals_row f A _
      rw [this, pwBlockRow_map]

end scalar

end Amgcl.KV
