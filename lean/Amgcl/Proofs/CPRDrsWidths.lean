import Amgcl.Proofs.CPRDrsWeights
import Amgcl.Proofs.CPRWidths
/-!
`cpr_drs::first_scalar_pass(K, get_app = true)` counts one `App` entry per visited block column, the second pass of
`init` writes one entry per visited block column; both loops walk the same iterators with the same rule, so the counts
of the first pass are the row lengths the second pass produces — for every input (no hypothesis on the rows).
-/
set_option linter.unusedSectionVars false
namespace Amgcl.CPRDrs
open Amgcl Amgcl.CPR

section widths
variable {K : Type} [Field K] [LinearOrder K]

theorem passLoop_cnt (B N ip : Nat) (d : Array K) :
    ∀ (fuel : Nat) (s : PassState K),
      (passLoop B N ip true fuel s).cnt = s.cnt + (appLoop B N d fuel s.ks []).length := by
  intro fuel
  induction fuel with
  | zero => intro s; simp [passLoop, appLoop]
  | succ fuel ih =>
    intro s
    unfold passLoop appLoop
    cases hc : curCol B N s.ks with
    | none => simp
    | some cur =>
      simp only
      rw [ih, appLoop_length B N d fuel _ ([] ++ _)]
      simp only [List.nil_append, List.length_cons, List.length_nil, if_true]
      omega

theorem passRow0_cnt (A : CRS K) (p : Params K) (N ip : Nat) (d : Array K) :
    (passRow0 A p N ip true).cnt = (appRow A p.B N ip d).length := by
  unfold passRow0 passRow appRow
  simp only
  rw [passLoop_cnt p.B N ip d]
  simp

theorem scalarState_widths (A : CRS K) (p : Params K) :
    (scalarState A p).appWidths =
      (List.range (scalarState A p).np).map (fun ip => ((scalarState A p).App.row ip).length) := by
  have hnp : (scalarState A p).np = (if p.activeRows = 0 then A.nrows else p.activeRows) / p.B := rfl
  have hw : (scalarState A p).appWidths = ((firstScalarPass A p A.nrows true (Acc.zero p.B)).1).map (·.cnt) := rfl
  rw [hw, scalar_rs, List.map_map, hnp]
  apply List.map_congr_left
  intro ip hip
  have hlt := List.mem_range.1 hip
  rw [scalarState_App_row A p ip hlt]
  exact passRow0_cnt A p _ ip _

end widths

end Amgcl.CPRDrs
