import Amgcl.Model.Primitives
import Mathlib.Algebra.BigOperators.Group.Finset.Basic
import Mathlib.Algebra.BigOperators.Ring.Finset
import Mathlib.Tactic.Ring
import Mathlib.Tactic.Linarith
/-!
Helper lemmas for the backend primitives: the row product is the sum over the
denoted row, `getD` of the `Array.ofFn` results, Kahan summation in a ring.
-/
namespace Amgcl
open Finset

section getD
variable {α : Type}

theorem getD_ofFn {n : Nat} (f : Fin n → α) (i : Nat) (d : α) :
    (Array.ofFn f).getD i d = if h : i < n then f ⟨i, h⟩ else d := by
  unfold Array.getD
  by_cases h : i < n <;> simp [h]

theorem getD_ofFn_lt {n : Nat} (f : Fin n → α) (i : Nat) (d : α) (h : i < n) :
    (Array.ofFn f).getD i d = f ⟨i, h⟩ := by
  rw [getD_ofFn]; simp [h]

theorem Vec.ext_getD {x y : Array α} (d : α) (hs : x.size = y.size)
    (h : ∀ i, i < x.size → x.getD i d = y.getD i d) : x = y := by
  apply Array.ext hs
  intro i h1 h2
  have := h i h1
  simpa [Array.getD, h1, h2] using this

end getD

section ring
variable {K : Type} [CommRing K]

theorem foldl_add_mul (r : Row K) (x : Vec K) (s : K) :
    r.foldl (fun s cv => s + cv.2 * x.getD cv.1 0) s
      = s + (r.map (fun cv => cv.2 * x.getD cv.1 0)).sum := by
  induction r generalizing s with
  | nil => simp
  | cons cv t ih => simp only [List.foldl_cons, List.map_cons, List.sum_cons]; rw [ih]; ring

theorem rowDot_eq_listSum (r : Row K) (x : Vec K) :
    rowDot r x = (r.map (fun cv => cv.2 * x.getD cv.1 0)).sum := by
  unfold rowDot; rw [foldl_add_mul]; ring

@[simp] theorem rowGet_nil (j : Nat) : rowGet ([] : Row K) j = 0 := rfl
theorem rowGet_cons (cv : Nat × K) (t : Row K) (j : Nat) :
    rowGet (cv :: t) j = if cv.1 = j then cv.2 + rowGet t j else rowGet t j := rfl

/-- the row product is the dot product of the denoted (dense) row with `x` -/
theorem rowDot_eq_sum (r : Row K) (x : Vec K) (m : Nat) (h : ∀ cv ∈ r, cv.1 < m) :
    rowDot r x = ∑ j ∈ range m, rowGet r j * x.getD j 0 := by
  rw [rowDot_eq_listSum]
  induction r with
  | nil => simp
  | cons cv t ih =>
    have hcv : cv.1 < m := h cv (List.mem_cons_self)
    have ht : ∀ c ∈ t, c.1 < m := fun c hc => h c (List.mem_cons_of_mem _ hc)
    simp only [List.map_cons, List.sum_cons, rowGet_cons]
    rw [ih ht]
    have : ∑ j ∈ range m, (if cv.1 = j then cv.2 + rowGet t j else rowGet t j) * x.getD j 0
        = ∑ j ∈ range m, ((if cv.1 = j then cv.2 * x.getD j 0 else 0) + rowGet t j * x.getD j 0) := by
      apply sum_congr rfl; intro j _; split <;> ring
    rw [this, sum_add_distrib, sum_ite_eq]
    simp [hcv]

end ring

end Amgcl

namespace Amgcl
section kahan
variable {K : Type} [CommRing K]

theorem kahan_foldl (conj : K → K) (l : List (K × K)) (s : K) :
    l.foldl (kahanStep conj) (s, 0) = (s + (l.map (fun p => p.1 * conj p.2)).sum, 0) := by
  induction l generalizing s with
  | nil => simp
  | cons p t ih =>
    simp only [List.foldl_cons, List.map_cons, List.sum_cons]
    have : kahanStep conj (s, 0) p = (s + p.1 * conj p.2, 0) := by
      unfold kahanStep; simp
    rw [this, ih]; congr 1; ring

/-- contiguous chunk boundaries of libgomp's static schedule -/
def bnd (n nt t : Nat) : Nat :=
  if t < n % nt then t * (n / nt + 1) else t * (n / nt) + n % nt

theorem staticChunk_eq (n nt t : Nat) :
    staticChunk n nt t = (bnd n nt t, bnd n nt (t + 1)) := by
  unfold staticChunk bnd
  by_cases h1 : t < n % nt
  · by_cases h2 : t + 1 < n % nt
    · simp [h1, h2]; ring
    · have : t + 1 = n % nt := by omega
      simp only [h1, if_true, h2, if_false]
      rw [← this]; congr 1; ring
  · have h2 : ¬ t + 1 < n % nt := by omega
    simp only [h1, h2, if_false]; congr 1; ring

theorem bnd_zero (n nt : Nat) : bnd n nt 0 = 0 := by
  unfold bnd; split <;> simp_all

theorem bnd_last (n nt : Nat) (hnt : 0 < nt) : bnd n nt nt = n := by
  unfold bnd
  have : ¬ nt < n % nt := by have := Nat.mod_lt n hnt; omega
  simp only [this, if_false]
  exact Nat.div_add_mod n nt

theorem bnd_mono (n nt t : Nat) : bnd n nt t ≤ bnd n nt (t + 1) := by
  unfold bnd
  generalize n / nt = q
  have e1 : (t + 1) * q = t * q + q := Nat.succ_mul t q
  have e2 : t * (q + 1) = t * q + t := Nat.mul_succ t q
  have e3 : (t + 1) * (q + 1) = t * q + t + q + 1 := by ring
  by_cases h1 : t < n % nt
  · by_cases h2 : t + 1 < n % nt
    · simp only [h1, h2, if_true]; omega
    · simp only [h1, if_true, h2, if_false]; omega
  · have h2 : ¬ t + 1 < n % nt := by omega
    simp only [h1, h2, if_false]; omega

theorem chunk_sum (l : List K) (b : Nat → Nat) (hb0 : b 0 = 0) (hmono : ∀ t, b t ≤ b (t + 1)) (nt : Nat) :
    (List.range nt).foldl (fun acc t => acc + ((l.drop (b t)).take (b (t + 1) - b t)).sum) 0
      = (l.take (b nt)).sum := by
  induction nt with
  | zero => simp [hb0]
  | succ k ih =>
    rw [List.range_succ, List.foldl_append, ih]
    simp only [List.foldl_cons, List.foldl_nil]
    have h := hmono k
    have : l.take (b (k + 1)) = l.take (b k) ++ (l.drop (b k)).take (b (k + 1) - b k) := by
      have e : b (k + 1) = b k + (b (k + 1) - b k) := by omega
      conv_lhs => rw [e]
      rw [List.take_add]
    rw [this, List.sum_append]

end kahan
end Amgcl
