import Amgcl.Proofs.RelaxIlukRow
/-!
# ILU(k) as written: the row loop, and the residual identity `(I+L)(D⁻¹+U) + R = A`

`IlukInv` is the invariant of the constructor loop of `iluk.hpp` (model `ilukLoopT`, whose first component is
`ilukLoop`): strict triangularity, levels of the finished `U` rows (`lev_kj ≤ k`), "rows `k ≤ lfil` discard nothing",
and the two row equations of `RowInv` for every finished row.  `ilukFactorT_identity` turns them into the entrywise
identity in the vocabulary of `lowEntry` / `upEntry`.
-/
set_option linter.unusedSectionVars false
namespace Amgcl
namespace Relax
open Finset

section loop
variable {K : Type} [Field K]

/-- the invariant of the row loop after `i` rows -/
structure IlukInv (lfil : Nat) (A : CRS K) (S : IlukState K) (R : Array (Row K)) (i : Nat) : Prop where
  sizeL : S.L.size = i
  sizeU : S.U.size = i
  sizeD : S.D.size = i
  sizeR : R.size = i
  lower : ∀ k, k < i → ∀ cv ∈ S.L.getD k [], cv.1 < k
  upper : ∀ k, k < i → ∀ e ∈ S.U.getD k [], k < e.1 ∧ e.1 < A.nrows
  lev : ∀ k, k < i → ∀ e ∈ S.U.getD k [], e.2.2 ≤ k
  nodrop : ∀ k, k < i → k ≤ lfil → R.getD k [] = []
  rowHi : ∀ k, k < i → ∀ j, k ≤ j →
    (if j = k then 1 / S.D.getD k 0 else 0) + uval S.U k j
      + ∑ c ∈ range k, rowGet (S.L.getD k []) c * uval S.U c j + rowGet (R.getD k []) j = rowGet (A.row k) j
  rowLo : ∀ k, k < i → ∀ j, j < k →
    rowGet (S.L.getD k []) j
      = (rowGet (A.row k) j - rowGet (R.getD k []) j - ∑ c ∈ range k, rowGet (S.L.getD k []) c * uval S.U c j)
        * S.D.getD j 0

theorem uval_push_lt (U : Array (IlukURow K)) (x : IlukURow K) (k c : Nat) (h : k < U.size) :
    uval (U.push x) k c = uval U k c := by
  unfold uval; rw [getD_push_lt _ _ _ _ h]

theorem IlukInv.zero (lfil : Nat) (A : CRS K) :
    IlukInv lfil A ({ L := #[], U := #[], D := #[] } : IlukState K) #[] 0 :=
  ⟨rfl, rfl, rfl, rfl, fun k hk => absurd hk (by omega), fun k hk => absurd hk (by omega),
   fun k hk => absurd hk (by omega), fun k hk => absurd hk (by omega), fun k hk => absurd hk (by omega),
   fun k hk => absurd hk (by omega)⟩

/-- one more row keeps the invariant -/
theorem IlukInv.step (lfil : Nat) (A : CRS K) (hwf : ∀ i, ∀ cv ∈ A.row i, cv.1 < A.nrows)
    (S : IlukState K) (R : Array (Row K)) (i : Nat) (hi : i < A.nrows) (hinv : IlukInv lfil A S R i)
    (S' : IlukState K) (h : ilukRow lfil A.nrows S i (A.row i) = .ok S') :
    IlukInv lfil A S' (R.push (ilukRowT lfil A.nrows S i (A.row i)).2) (i + 1) := by
  have hU : ∀ c, ∀ e ∈ S.U.getD c [], c < e.1 ∧ e.1 < A.nrows := by
    intro c e he
    by_cases hc : c < i
    · exact hinv.upper c hc e he
    · rw [getD_of_size_le _ _ _ (by rw [hinv.sizeU]; omega)] at he; cases he
  have hUl : ∀ c, ∀ e ∈ S.U.getD c [], e.2.2 ≤ c := by
    intro c e he
    by_cases hc : c < i
    · exact hinv.lev c hc e he
    · rw [getD_of_size_le _ _ _ (by rw [hinv.sizeU]; omega)] at he; cases he
  have rinv := ilukRowT_inv lfil A.nrows S i (A.row i) (hwf i) (Nat.le_of_lt hi) hU
  obtain ⟨rlev, rdrop⟩ := ilukRowT_lev lfil A.nrows S i (A.row i) (hwf i) hUl
  rw [ilukRow_eq] at h
  set w := (ilukRowT lfil A.nrows S i (A.row i)).1 with hw
  set dl := (ilukRowT lfil A.nrows S i (A.row i)).2 with hdl
  cases hwi : w.getD i none with
  | none => rw [hwi] at h; cases h
  | some dd =>
    obtain ⟨d, lv⟩ := dd
    rw [hwi] at h
    simp only [] at h
    injection h with h
    subst h
    have hd : wval w i = d := by unfold wval; rw [hwi]
    set l := ilukLrow i w with hl
    set u := ilukUrow A.nrows i w with hu
    have eL : ∀ k, k < i → (S.L.push l).getD k [] = S.L.getD k [] :=
      fun k hk => getD_push_lt _ _ _ _ (by rw [hinv.sizeL]; exact hk)
    have eU : ∀ k, k < i → (S.U.push u).getD k [] = S.U.getD k [] :=
      fun k hk => getD_push_lt _ _ _ _ (by rw [hinv.sizeU]; exact hk)
    have eD : ∀ k, k < i → (S.D.push (1 / d)).getD k 0 = S.D.getD k 0 :=
      fun k hk => getD_push_lt _ _ _ _ (by rw [hinv.sizeD]; exact hk)
    have eR : ∀ k, k < i → (R.push dl).getD k [] = R.getD k [] :=
      fun k hk => getD_push_lt _ _ _ _ (by rw [hinv.sizeR]; exact hk)
    have eLi : (S.L.push l).getD i [] = l := by rw [← hinv.sizeL]; exact getD_push_eq _ _ _
    have eUi : (S.U.push u).getD i [] = u := by rw [← hinv.sizeU]; exact getD_push_eq _ _ _
    have eDi : (S.D.push (1 / d)).getD i 0 = 1 / d := by rw [← hinv.sizeD]; exact getD_push_eq _ _ _
    have eRi : (R.push dl).getD i [] = dl := by rw [← hinv.sizeR]; exact getD_push_eq _ _ _
    have eug : ∀ k c, k < i → uval (S.U.push u) k c = uval S.U k c :=
      fun k c hk => uval_push_lt _ _ _ _ (by rw [hinv.sizeU]; exact hk)
    have eui : ∀ j, uval (S.U.push u) i j = if i < j then wval w j else 0 := by
      intro j; unfold uval; rw [eUi]; exact rowGet_ilukUrow A.nrows i w rinv.size j
    refine ⟨by simp [hinv.sizeL], by simp [hinv.sizeU], by simp [hinv.sizeD], by simp [hinv.sizeR],
      ?_, ?_, ?_, ?_, ?_, ?_⟩
    · intro k hk cv hcv
      rcases Nat.lt_or_eq_of_le (Nat.le_of_lt_succ hk) with hk' | hk'
      · simp only [] at hcv; rw [eL k hk'] at hcv; exact hinv.lower k hk' cv hcv
      · subst hk'; simp only [] at hcv; rw [eLi] at hcv; exact mem_ilukLrow _ _ cv hcv
    · intro k hk e he
      rcases Nat.lt_or_eq_of_le (Nat.le_of_lt_succ hk) with hk' | hk'
      · simp only [] at he; rw [eU k hk'] at he; exact hinv.upper k hk' e he
      · subst hk'; simp only [] at he; rw [eUi] at he
        have := mem_ilukUrow _ _ _ e he
        exact ⟨this.1, this.2.1⟩
    · intro k hk e he
      rcases Nat.lt_or_eq_of_le (Nat.le_of_lt_succ hk) with hk' | hk'
      · simp only [] at he; rw [eU k hk'] at he; exact hinv.lev k hk' e he
      · subst hk'; simp only [] at he; rw [eUi] at he
        have := (mem_ilukUrow _ _ _ e he).2.2
        exact rlev e.1 _ this
    · intro k hk hkl
      rcases Nat.lt_or_eq_of_le (Nat.le_of_lt_succ hk) with hk' | hk'
      · rw [eR k hk']; exact hinv.nodrop k hk' hkl
      · subst hk'; rw [eRi]; exact rdrop hkl
    · intro k hk j hj
      simp only []
      rcases Nat.lt_or_eq_of_le (Nat.le_of_lt_succ hk) with hk' | hk'
      · rw [eD k hk', eL k hk', eR k hk', eug k j hk', ← hinv.rowHi k hk' j hj]
        congr 2
        apply sum_congr rfl
        intro c hc
        rw [eug c j (by have := mem_range.mp hc; omega)]
      · subst hk'
        rw [eDi, eLi, eRi, eui j]
        have h1 := rinv.hi j hj
        unfold rowE at h1
        have hs : ∑ c ∈ range k, rowGet l c * uval (S.U.push u) c j = ∑ c ∈ range k, wval w c * uval S.U c j := by
          apply sum_congr rfl
          intro c hc
          have hc' := mem_range.mp hc
          rw [eug c j hc', hl, rowGet_ilukLrow, if_pos hc']
        rw [hs]
        rcases Nat.lt_or_eq_of_le hj with hlt | heq
        · rw [if_neg (by omega), if_pos hlt]
          linear_combination h1
        · subst heq
          rw [if_pos rfl, if_neg (Nat.lt_irrefl _), one_div_one_div]
          rw [hd] at h1
          linear_combination h1
    · intro k hk j hj
      simp only []
      rcases Nat.lt_or_eq_of_le (Nat.le_of_lt_succ hk) with hk' | hk'
      · rw [eD j (by omega), eL k hk', eR k hk', hinv.rowLo k hk' j hj]
        congr 2
        apply sum_congr rfl
        intro c hc
        rw [eug c j (by have := mem_range.mp hc; omega)]
      · subst hk'
        rw [eD j hj, eLi, eRi]
        have h1 := rinv.lo j hj
        unfold rowE at h1
        have hs : ∑ c ∈ range k, rowGet l c * uval (S.U.push u) c j = ∑ c ∈ range k, wval w c * uval S.U c j := by
          apply sum_congr rfl
          intro c hc
          have hc' := mem_range.mp hc
          rw [eug c j hc', hl, rowGet_ilukLrow, if_pos hc']
        rw [hs, hl, rowGet_ilukLrow, if_pos hj, h1]

theorem ilukLoopT_spec (lfil : Nat) (A : CRS K) (hwf : ∀ i, ∀ cv ∈ A.row i, cv.1 < A.nrows)
    (len i : Nat) (hlen : i + len ≤ A.nrows) (S S' : IlukState K) (R R' : Array (Row K))
    (hinv : IlukInv lfil A S R i) (h : ilukLoopT lfil A (List.range' i len) S R = .ok (S', R')) :
    IlukInv lfil A S' R' (i + len) := by
  induction len generalizing i S R with
  | zero =>
    simp only [List.range'_zero, ilukLoopT] at h
    injection h with h
    injection h with h1 h2
    subst h1; subst h2; exact hinv
  | succ m ih =>
    rw [List.range'_succ] at h
    unfold ilukLoopT at h
    cases hr : ilukRow lfil A.nrows S i (A.row i) with
    | precondition => rw [hr] at h; exact absurd h (by simp)
    | undefinedInput => rw [hr] at h; exact absurd h (by simp)
    | ok S1 =>
      rw [hr] at h
      simp only [] at h
      have := ih (i + 1) (by omega) _ _ (IlukInv.step lfil A hwf S R i (by omega) hinv S1 hr) h
      rw [show i + (m + 1) = i + 1 + m by omega]; exact this

/-- the traced loop is the loop -/
theorem ilukLoopT_fst (lfil : Nat) (A : CRS K) (l : List Nat) (S : IlukState K) (R : Array (Row K)) :
    ilukLoop lfil A l S
      = match ilukLoopT lfil A l S R with
        | .ok SR => .ok SR.1
        | .precondition => .precondition
        | .undefinedInput => .undefinedInput := by
  induction l generalizing S R with
  | nil => rfl
  | cons i t ih =>
    unfold ilukLoop ilukLoopT
    cases hr : ilukRow lfil A.nrows S i (A.row i) with
    | precondition => rfl
    | undefinedInput => rfl
    | ok S1 => exact ih S1 _

/-- **the traced constructor is the constructor** -/
theorem ilukFactorT_fst (lfil : Nat) (A : CRS K) :
    ilukFactor lfil A
      = match ilukFactorT lfil A with
        | .ok FR => .ok FR.1
        | .precondition => .precondition
        | .undefinedInput => .undefinedInput := by
  unfold ilukFactor ilukFactorT
  rw [ilukLoopT_fst lfil A _ _ #[]]
  cases ilukLoopT lfil A (List.range A.nrows) { L := #[], U := #[], D := #[] } #[] with
  | precondition => rfl
  | undefinedInput => rfl
  | ok SR => rfl

theorem ilukFactorT_of_factor (lfil : Nat) (A : CRS K) (F : IluFactors K) (h : ilukFactor lfil A = .ok F) :
    ∃ R, ilukFactorT lfil A = .ok (F, R) := by
  rw [ilukFactorT_fst] at h
  cases hT : ilukFactorT lfil A with
  | precondition => rw [hT] at h; cases h
  | undefinedInput => rw [hT] at h; cases h
  | ok FR =>
    rw [hT] at h
    injection h with h
    exact ⟨FR.2, by rw [← h]⟩

theorem ilukFactor_of_factorT (lfil : Nat) (A : CRS K) (F : IluFactors K) (R : CRS K)
    (h : ilukFactorT lfil A = .ok (F, R)) : ilukFactor lfil A = .ok F := by
  rw [ilukFactorT_fst, h]

/-- everything the traced constructor guarantees when it succeeds -/
theorem ilukFactorT_inv (lfil : Nat) (A : CRS K) (hA : A.WF) (hsq : A.ncols = A.nrows) (F : IluFactors K) (R : CRS K)
    (h : ilukFactorT lfil A = .ok (F, R)) :
    ∃ S : IlukState K, IlukInv lfil A S R.rows A.nrows
      ∧ F = { L := ⟨A.nrows, S.L⟩, U := ⟨A.nrows, S.U.map (fun r => r.map (fun e => (e.1, e.2.1)))⟩, D := S.D }
      ∧ R.ncols = A.nrows := by
  have hwf : ∀ i, ∀ cv ∈ A.row i, cv.1 < A.nrows := by
    intro i cv hcv; rw [← hsq]; exact K2.row_col_lt hA i hcv
  unfold ilukFactorT at h
  cases hl : ilukLoopT lfil A (List.range A.nrows) { L := #[], U := #[], D := #[] } #[] with
  | precondition => rw [hl] at h; cases h
  | undefinedInput => rw [hl] at h; cases h
  | ok SR =>
    obtain ⟨S, R'⟩ := SR
    rw [hl] at h
    simp only [] at h
    injection h with h
    injection h with h1 h2
    rw [List.range_eq_range'] at hl
    have := ilukLoopT_spec lfil A hwf A.nrows 0 (by omega) _ S _ R' (IlukInv.zero lfil A) hl
    rw [Nat.zero_add] at this
    refine ⟨S, ?_, h1.symm, by rw [← h2]⟩
    rw [← h2]; exact this

end loop

/-! ### the identity in the vocabulary of `lowEntry` / `upEntry` -/
section final
variable {K : Type} [Field K] [DecidableEq K]

theorem getD_map_list {α β : Type} (a : Array (List α)) (f : α → β) (k : Nat) :
    (a.map (fun r => r.map f)).getD k [] = (a.getD k []).map f := by
  unfold Array.getD
  by_cases h : k < a.size
  · simp [h]
  · simp [h]

/-- the structural facts about the factors of a successful ILU(k) -/
theorem ilukFactorT_wf (lfil : Nat) (A : CRS K) (hA : A.WF) (hsq : A.ncols = A.nrows) (F : IluFactors K) (R : CRS K)
    (h : ilukFactorT lfil A = .ok (F, R)) :
    strictLowerb F.L = true ∧ strictUpperb F.U = true ∧ F.L.WF ∧ F.U.WF ∧ F.L.nrows = A.nrows ∧ F.L.ncols = A.nrows
    ∧ F.U.nrows = A.nrows ∧ F.U.ncols = A.nrows ∧ F.D.size = A.nrows ∧ R.nrows = A.nrows ∧ R.ncols = A.nrows := by
  obtain ⟨S, inv, hF, hRc⟩ := ilukFactorT_inv lfil A hA hsq F R h
  subst hF
  have hLn : (⟨A.nrows, S.L⟩ : CRS K).nrows = A.nrows := inv.sizeL
  have hUn : (⟨A.nrows, S.U.map (fun r => r.map (fun e => (e.1, e.2.1)))⟩ : CRS K).nrows = A.nrows := by
    show (S.U.map _).size = _
    rw [Array.size_map]; exact inv.sizeU
  have hUrow : ∀ i, (⟨A.nrows, S.U.map (fun r => r.map (fun e => (e.1, e.2.1)))⟩ : CRS K).row i
      = (S.U.getD i []).map (fun e => (e.1, e.2.1)) := fun i => getD_map_list S.U _ i
  refine ⟨?_, ?_, ?_, ?_, hLn, rfl, hUn, rfl, inv.sizeD, inv.sizeR, hRc⟩
  · unfold strictLowerb
    rw [List.all_eq_true]; intro i hi
    rw [List.all_eq_true]; intro cv hcv
    have hi' : i < A.nrows := by rw [← hLn]; exact List.mem_range.mp hi
    simpa using inv.lower i hi' cv hcv
  · unfold strictUpperb
    rw [List.all_eq_true]; intro i hi
    rw [List.all_eq_true]; intro cv hcv
    have hi' : i < A.nrows := by rw [← hUn]; exact List.mem_range.mp hi
    rw [hUrow] at hcv
    obtain ⟨e, he, rfl⟩ := List.mem_map.mp hcv
    simpa using (inv.upper i hi' e he).1
  · rw [K2.wf_iff_row]
    intro i hi cv hcv
    have hi' : i < A.nrows := by rw [← hLn]; exact hi
    have := inv.lower i hi' cv hcv
    show cv.1 < A.nrows
    omega
  · rw [K2.wf_iff_row]
    intro i hi cv hcv
    have hi' : i < A.nrows := by rw [← hUn]; exact hi
    rw [hUrow] at hcv
    obtain ⟨e, he, rfl⟩ := List.mem_map.mp hcv
    exact (inv.upper i hi' e he).2

/-- **`(I+L)(D⁻¹+U) + R = A`**, entry by entry.  Positions right of or on the diagonal need nothing; a position
`(i, j)` left of the diagonal needs the stored pivot `D_j` to be non-zero (with `D_j = 0` the multiplier `l_ij` is
`0` whatever the row contained). -/
theorem ilukFactorT_identity (lfil : Nat) (A : CRS K) (hA : A.WF) (hsq : A.ncols = A.nrows) (F : IluFactors K)
    (R : CRS K) (h : ilukFactorT lfil A = .ok (F, R)) (i j : Nat) (hi : i < A.nrows) (hj : j < A.nrows)
    (hD : j < i → F.D.getD j 0 ≠ 0) :
    ∑ k ∈ range A.nrows, lowEntry F i k * upEntry F k j + R.get i j = A.get i j := by
  obtain ⟨S, inv, hF, _⟩ := ilukFactorT_inv lfil A hA hsq F R h
  subst hF
  set F : IluFactors K :=
    { L := ⟨A.nrows, S.L⟩, U := ⟨A.nrows, S.U.map (fun r => r.map (fun e => (e.1, e.2.1)))⟩, D := S.D } with hF
  have hLget : ∀ i' k, F.L.get i' k = rowGet (S.L.getD i' []) k := fun _ _ => rfl
  have hUget : ∀ k c, F.U.get k c = uval S.U k c := by
    intro k c
    show rowGet ((S.U.map (fun r => r.map (fun e => (e.1, e.2.1)))).getD k []) c = _
    rw [getD_map_list]; rfl
  have hLz : ∀ k, i ≤ k → F.L.get i k = 0 := by
    intro k hk
    rw [hLget]
    apply Amgcl.rowGet_eq_zero_of_not_mem
    intro e he heq
    have := inv.lower i hi e he
    omega
  have hUz : ∀ k c, k < A.nrows → c ≤ k → F.U.get k c = 0 := by
    intro k c hk hc
    rw [hUget]
    apply uval_zero
    intro e he
    have := (inv.upper k hk e he).1
    omega
  have hexp : ∀ k ∈ range A.nrows, lowEntry F i k * upEntry F k j
      = (if i = k then upEntry F k j else 0)
        + (if k = j then F.L.get i k * (1 / F.D.getD k 0) else 0)
        + F.L.get i k * F.U.get k j := by
    intro k _
    unfold lowEntry upEntry
    by_cases h1 : i = k
    · by_cases h2 : k = j
      · simp only [if_pos h1, if_pos h2]; ring
      · simp only [if_pos h1, if_neg h2]; ring
    · by_cases h2 : k = j
      · simp only [if_neg h1, if_pos h2]; ring
      · simp only [if_neg h1, if_neg h2]; ring
  rw [sum_congr rfl hexp, sum_add_distrib, sum_add_distrib, sum_ite_eq, if_pos (mem_range.mpr hi),
    sum_ite_eq', if_pos (mem_range.mpr hj)]
  rw [sum_range_restrict (fun k => F.L.get i k * F.U.get k j) i A.nrows (Nat.le_of_lt hi)
    (fun k hk _ => by rw [hLz k hk]; ring)]
  have hsum : ∑ k ∈ range i, F.L.get i k * F.U.get k j
      = ∑ c ∈ range i, rowGet (S.L.getD i []) c * uval S.U c j := by
    apply sum_congr rfl; intro k _; rw [hLget, hUget]
  rw [hsum]
  show _ + rowGet (R.rows.getD i []) j = rowGet (A.row i) j
  unfold upEntry
  rw [hUget i j]
  by_cases hij : i ≤ j
  · have h1 := inv.rowHi i hi j hij
    rw [hLz j hij]
    have e1 : (if i = j then 1 / F.D.getD i 0 else 0) = (if j = i then 1 / S.D.getD i 0 else 0) := by
      by_cases h : i = j
      · rw [if_pos h, if_pos h.symm]
      · rw [if_neg h, if_neg (fun e => h e.symm)]
    rw [e1]
    linear_combination h1
  · have hji : j < i := Nat.lt_of_not_le hij
    have h1 := inv.rowLo i hi j hji
    have hDj : S.D.getD j 0 ≠ 0 := hD hji
    rw [if_neg (by omega)]
    have huz : uval S.U i j = 0 := by rw [← hUget]; exact hUz i j hi (Nat.le_of_lt hji)
    rw [huz, hLget i j, h1]
    show _ + _ * S.D.getD j 0 * (1 / S.D.getD j 0) + _ + _ = _
    field_simp
    ring

end final

end Relax
end Amgcl
