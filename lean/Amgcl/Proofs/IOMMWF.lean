import Amgcl.Proofs.IOAssemble
/-!
Structural validity of everything the repaired MatrixMarket reader returns (helper file for C19).
-/
namespace Amgcl.IO
variable {V : Type}

theorem monotone_of_adjacent (l : List Int) (h : ∀ k (h1 : k + 1 < l.length), l[k] ≤ l[k + 1]) : monotone l = true := by
  induction l with
  | nil => rfl
  | cons a t ih =>
    cases t with
    | nil => rfl
    | cons b t' =>
      simp only [monotone, Bool.and_eq_true, decide_eq_true_eq]
      constructor
      · exact h 0 (by simp)
      · apply ih
        intro k hk
        have := h (k + 1) (by simp at hk ⊢; omega)
        simpa using this

theorem offsList_monotone (f : Nat → Nat) (n : Nat) : monotone (offsList f n) = true := by
  apply monotone_of_adjacent
  intro k hk
  rw [offsList_length] at hk
  have h1 : (offsList f n)[k]? = some (offs f k : Int) := by rw [offsList_getElem?, if_pos (by omega)]
  have h2 : (offsList f n)[k + 1]? = some (offs f (k + 1) : Int) := by rw [offsList_getElem?, if_pos (by omega)]
  rw [List.getElem?_eq_getElem (by rw [offsList_length]; omega)] at h1 h2
  injection h1 with h1; injection h2 with h2
  rw [h1, h2]; simp only [offs]; push_cast; omega

theorem flatten_sorted_length (narrow : Int → Int) (kept : List (Nat × Int × V)) (chunk : Nat) :
    ((((List.range chunk).map (bucket kept)).map (sortRowN narrow)).flatten).length = offs (cntRow kept) chunk := by
  rw [List.length_flatten, List.map_map, List.map_map]
  have hc : (List.range chunk).map ((List.length ∘ sortRowN narrow) ∘ bucket kept)
      = (List.range chunk).map (cntRow kept) := by
    apply List.map_congr_left; intro r _
    simp only [Function.comp, sortRowN_length, bucket_length]
  rw [hc]
  have := take_map_range_sum (cntRow kept) chunk chunk (Nat.le_refl _)
  rwa [List.take_of_length_le (by simp)] at this

theorem mem_flatten_sorted (narrow : Int → Int) (kept : List (Nat × Int × V)) (chunk : Nat) (x : Int × V)
    (hx : x ∈ (((List.range chunk).map (bucket kept)).map (sortRowN narrow)).flatten) :
    ∃ e ∈ kept, e.2 = x := by
  rw [List.mem_flatten] at hx
  obtain ⟨l, hl, hxl⟩ := hx
  rw [List.mem_map] at hl
  obtain ⟨b, hb, rfl⟩ := hl
  rw [List.mem_map] at hb
  obtain ⟨r, _, rfl⟩ := hb
  have := (sortRowN_perm narrow (bucket kept r)).mem_iff.mp hxl
  unfold bucket at this
  rw [List.mem_map] at this
  obtain ⟨e, he, rfl⟩ := this
  exact ⟨e, (List.mem_filter.mp he).1, rfl⟩

/-- the assembly of range-checked entries never leaves its buffers and yields a structurally valid matrix -/
theorem assemble_wf (zero : V) (chunk ncols : Nat) (kept : List (Nat × Int × V))
    (hk : ∀ e ∈ kept, e.1 < chunk ∧ 0 ≤ e.2.1 ∧ e.2.1 < (ncols : Int)) :
    ∃ A, assemble zero chunk ncols kept = .ok A ∧ A.WF ∧ A.nrows = chunk ∧ A.ncols = ncols := by
  refine ⟨_, assemble_eq zero chunk ncols kept (fun e he => (hk e he).1), ?_, rfl, rfl⟩
  refine ⟨⟨?_, ?_, ?_, ?_, ?_⟩, ?_⟩
  · exact offsList_length _ _
  · simp only [List.head?_eq_getElem?, offsList_getElem?, Nat.zero_le, if_true, offs]; rfl
  · exact offsList_monotone _ _
  · simp only [List.getLast?_eq_getElem?, offsList_length, Nat.add_sub_cancel, offsList_getElem?, Nat.le_refl,
      if_true, List.length_map, flatten_sorted_length]
  · simp only [List.length_map]
  · intro c hc
    simp only [List.mem_map] at hc
    obtain ⟨x, hx, rfl⟩ := hc
    obtain ⟨e, he, rfl⟩ := mem_flatten_sorted wrap32 kept chunk x hx
    exact (hk e he).2

end Amgcl.IO
