import Mathlib.Data.Matrix.Mul
import Mathlib.Algebra.Algebra.Basic
import Mathlib.Tactic.NoncommRing
/-!
# The Chebyshev recurrence on matrices keeps symmetry

`chebMatStep` is iteration `k` of `chebyshev::solve` written for the matrices `X_k` (`f ↦ x_k` from `x₀ = 0`) and `P_k`
(`f ↦ p_k`): `R = Dm (1 − A X)`, `P' = α R + β P`, `X' = X + P'`, `Dm` the inverted diagonal of `relax.scale` (`1`
otherwise).  Invariant: `X`, `P` symmetric and `X A Dm = Dm A X`, `P A Dm = Dm A P`.
-/
namespace Amgcl.Energy
open Matrix

variable {K : Type} [Field K] {n : Type} [Fintype n] [DecidableEq n]

/-- one iteration of `chebyshev::solve` on matrices: `X` maps `f` to the iterate (from `x₀ = 0`), `P` to the member `p`;
`Dm` is the inverted diagonal (`1` without `relax.scale`) -/
def chebMatStep (A Dm : Matrix n n K) (XP : Matrix n n K × Matrix n n K) (ab : K × K) : Matrix n n K × Matrix n n K :=
  let R := Dm * (1 - A * XP.1)
  let P := ab.1 • R + ab.2 • XP.2
  (XP.1 + P, P)

structure ChebSymInv (A Dm X P : Matrix n n K) : Prop where
  x : Xᵀ = X
  p : Pᵀ = P
  ax : X * A * Dm = Dm * A * X
  ap : P * A * Dm = Dm * A * P

theorem chebMatStep_inv (A Dm : Matrix n n K) (hA : Aᵀ = A) (hD : Dmᵀ = Dm) (X P : Matrix n n K)
    (h : ChebSymInv A Dm X P) (ab : K × K) :
    ChebSymInv A Dm (chebMatStep A Dm (X, P) ab).1 (chebMatStep A Dm (X, P) ab).2 := by
  have hR : (Dm * (1 - A * X))ᵀ = Dm * (1 - A * X) := by
    rw [transpose_mul, transpose_sub, transpose_one, transpose_mul, hA, hD, h.x]
    have : (1 - X * A) * Dm = Dm - X * A * Dm := by noncomm_ring
    rw [this, h.ax]; noncomm_ring
  have hRa : Dm * (1 - A * X) * A * Dm = Dm * A * (Dm * (1 - A * X)) := by
    have e1 : Dm * (1 - A * X) * A * Dm = Dm * A * Dm - Dm * A * (X * A * Dm) := by noncomm_ring
    rw [e1, h.ax]; noncomm_ring
  have hP : (ab.1 • (Dm * (1 - A * X)) + ab.2 • P)ᵀ = ab.1 • (Dm * (1 - A * X)) + ab.2 • P := by
    rw [transpose_add, transpose_smul, transpose_smul, hR, h.p]
  have hPa : (ab.1 • (Dm * (1 - A * X)) + ab.2 • P) * A * Dm = Dm * A * (ab.1 • (Dm * (1 - A * X)) + ab.2 • P) := by
    rw [add_mul, add_mul, mul_add, smul_mul_assoc, smul_mul_assoc, smul_mul_assoc, smul_mul_assoc, hRa, h.ap,
      mul_smul_comm, mul_smul_comm]
  refine ⟨?_, hP, ?_, hPa⟩
  · show (X + _)ᵀ = X + _
    rw [transpose_add, h.x, hP]
  · show (X + _) * A * Dm = Dm * A * (X + _)
    rw [add_mul, add_mul, mul_add, h.ax, hPa]

end Amgcl.Energy
