import Amgcl.Proofs.RSInv
/-!
`cfsplit`: the position swap (`n2i[i2n[old]] = new; n2i[i2n[new]] = old; std::swap(i2n[old], i2n[new])`) keeps
`i2n` / `n2i` mutually inverse, and the views of the state after `swapPos`.
-/
namespace Amgcl
namespace RS

/-- swapping two positions of a permutation given with its inverse -/
theorem swap_perm {n : Nat} {I N I' N' : Nat → Nat} {o w : Nat} (ho : o < n) (hw : w < n)
    (p1 : ∀ p, p < n → I p < n ∧ N (I p) = p) (p2 : ∀ i, i < n → N i < n ∧ I (N i) = i)
    (hI : ∀ q, I' q = if q = w then I o else if q = o then I w else I q)
    (hN : ∀ x, N' x = if x = I w then o else if x = I o then w else N x) :
    (∀ p, p < n → I' p < n ∧ N' (I' p) = p) ∧ (∀ i, i < n → N' i < n ∧ I' (N' i) = i) := by
  have inj : ∀ q q', q < n → q' < n → I q = I q' → q = q' := by
    intro q q' hq hq' h
    have := (p1 q hq).2; rw [h, (p1 q' hq').2] at this; exact this.symm
  constructor
  · intro p hp
    rw [hI p]
    by_cases h1 : p = w
    · subst h1
      rw [if_pos rfl]
      refine ⟨(p1 o ho).1, ?_⟩
      rw [hN]
      by_cases h2 : I o = I p
      · rw [if_pos h2]; exact inj o p ho hp h2
      · rw [if_neg h2, if_pos rfl]
    · rw [if_neg h1]
      by_cases h2 : p = o
      · subst h2
        rw [if_pos rfl]
        refine ⟨(p1 w hw).1, ?_⟩
        rw [hN, if_pos rfl]
      · rw [if_neg h2]
        refine ⟨(p1 p hp).1, ?_⟩
        rw [hN]
        have h3 : I p ≠ I w := fun h => h1 (inj p w hp hw h)
        have h4 : I p ≠ I o := fun h => h2 (inj p o hp ho h)
        rw [if_neg h3, if_neg h4]
        exact (p1 p hp).2
  · intro i hi
    rw [hN i]
    by_cases h1 : i = I w
    · rw [if_pos h1]
      refine ⟨ho, ?_⟩
      rw [hI]
      by_cases h2 : o = w
      · rw [if_pos h2, h1, h2]
      · rw [if_neg h2, if_pos rfl, h1]
    · rw [if_neg h1]
      by_cases h2 : i = I o
      · rw [if_pos h2]
        refine ⟨hw, ?_⟩
        rw [hI, if_pos rfl, h2]
      · rw [if_neg h2]
        refine ⟨(p2 i hi).1, ?_⟩
        rw [hI]
        have h3 : N i ≠ w := fun h => h1 (by rw [← h, (p2 i hi).2])
        have h4 : N i ≠ o := fun h => h2 (by rw [← h, (p2 i hi).2])
        rw [if_neg h3, if_neg h4]
        exact (p2 i hi).2

/-- the views after `swapPos` -/
theorem swapPos_views (s : Split) (n o w : Nat) (hi : s.i2n.size = n) (hn : s.n2i.size = n) (ho : o < n) (hw : w < n)
    (ha : s.I2N o < n) (hb : s.I2N w < n) :
    (∀ q, (swapPos s o w).I2N q = if q = w then s.I2N o else if q = o then s.I2N w else s.I2N q) ∧
    (∀ x, (swapPos s o w).N2I x = if x = s.I2N w then o else if x = s.I2N o then w else s.N2I x) ∧
    (swapPos s o w).cf = s.cf ∧ (swapPos s o w).lambda = s.lambda ∧ (swapPos s o w).ptr = s.ptr ∧
    (swapPos s o w).cnt = s.cnt ∧ (swapPos s o w).i2n.size = n ∧ (swapPos s o w).n2i.size = n := by
  refine ⟨fun q => ?_, fun x => ?_, rfl, rfl, rfl, rfl, by simp [swapPos, hi], by simp [swapPos, hn]⟩
  · show ((s.i2n.setIfInBounds o (s.i2n.getD w 0)).setIfInBounds w (s.i2n.getD o 0)).getD q 0
      = if q = w then s.i2n.getD o 0 else if q = o then s.i2n.getD w 0 else s.i2n.getD q 0
    rw [getD_set, getD_set, Array.size_setIfInBounds, hi]
    by_cases h1 : q = w
    · subst h1; rw [if_pos ⟨rfl, hw⟩, if_pos rfl]
    · have : ¬ (w = q ∧ w < n) := fun h => h1 h.1.symm
      rw [if_neg this, if_neg h1]
      by_cases h2 : q = o
      · subst h2; rw [if_pos ⟨rfl, ho⟩, if_pos rfl]
      · have : ¬ (o = q ∧ o < n) := fun h => h2 h.1.symm
        rw [if_neg this, if_neg h2]
  · have ha' : s.i2n.getD o 0 < n := ha
    have hb' : s.i2n.getD w 0 < n := hb
    show ((s.n2i.setIfInBounds (s.i2n.getD o 0) w).setIfInBounds (s.i2n.getD w 0) o).getD x 0
      = if x = s.i2n.getD w 0 then o else if x = s.i2n.getD o 0 then w else s.n2i.getD x 0
    rw [getD_set, getD_set, Array.size_setIfInBounds, hn]
    by_cases h1 : x = s.i2n.getD w 0
    · rw [if_pos ⟨h1.symm, hb'⟩, if_pos h1]
    · have : ¬ (s.i2n.getD w 0 = x ∧ s.i2n.getD w 0 < n) := fun h => h1 h.1.symm
      rw [if_neg this, if_neg h1]
      by_cases h2 : x = s.i2n.getD o 0
      · rw [if_pos ⟨h2.symm, ha'⟩, if_pos h2]
      · have : ¬ (s.i2n.getD o 0 = x ∧ s.i2n.getD o 0 < n) := fun h => h2 h.1.symm
        rw [if_neg this, if_neg h2]

end RS
end Amgcl
