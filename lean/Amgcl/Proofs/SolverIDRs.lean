import Amgcl.Model.SolverIDRs
import Amgcl.Proofs.SolverCommon2
/-!
Lemmas about the IDR(s) model (`Amgcl.Solver.IDRs`), part 1: the call as a whole (early returns, unfolding of `run`),
a decomposition of `kStep` into named intermediate values (`kStep_eq`, proved by `rfl`: the model is untouched), the
iteration bound `iter ≤ maxiter` through `kStep` / `kLoop` / `body` / the `while` loop.
-/
namespace Amgcl.Solver.IDRs
open Amgcl Amgcl.Solver
set_option linter.unusedSectionVars false
set_option linter.unusedSimpArgs false
set_option linter.unusedVariables false

variable {K : Type} [Field K] [DecidableEq K] [LT K] [DecidableLT K]

/-- `eps = std::max(prm.tol * norm_rhs, prm.abstol)` -/
def epsTol (prm : Params K) (nf : K) : K := maxK (prm.tol * nf) prm.abstol

/-- result of the `while` loop for a call that did not return early and uses `norm_rhs = nf` -/
def final (prm : Params K) (ip : Vec K → Vec K → K) (sqrt : K → K) (A : CRS K) (Prec : Vec K → Vec K)
    (Pv : FArr (Vec K)) (ws : Work K) (f x0 : Vec K) (nf : K) : Option Err × St K :=
  loop prm ip sqrt A Prec Pv f (epsTol prm nf) prm.maxiter
    (init prm ws x0 (residual f A x0) (nrmA ip sqrt (residual f A x0)))

theorem run_trivial (prm : Params K) (ip : Vec K → Vec K → K) (sqrt : K → K) (eps : K) (A : CRS K)
    (Prec : Vec K → Vec K) (Pv : FArr (Vec K)) (ws : Work K) (f x0 : Vec K) (n : K)
    (h : prologueA prm.nsSearch ip sqrt eps f = .trivial n) :
    run prm ip sqrt eps A Prec Pv ws f x0 = (.ok (0, n), vclear x0.size, ws) := by
  simp only [run, h]

/-- `run` for a call that passes the prologue: the entry test, else the loop -/
theorem run_go (prm : Params K) (ip : Vec K → Vec K → K) (sqrt : K → K) (eps : K) (A : CRS K)
    (Prec : Vec K → Vec K) (Pv : FArr (Vec K)) (ws : Work K) (f x0 : Vec K) (nf : K)
    (h : prologueA prm.nsSearch ip sqrt eps f = .go nf) :
    run prm ip sqrt eps A Prec Pv ws f x0 =
      if ¬ epsTol prm nf < nrmA ip sqrt (residual f A x0) then
        (.ok (0, nrmA ip sqrt (residual f A x0) / nf), x0, { ws with r := residual f A x0 })
      else
        match final prm ip sqrt A Prec Pv ws f x0 nf with
        | (none, st) =>
          (.ok (st.iter, st.resNorm / nf), (if prm.smoothing then vcopy st.w.xs else st.x), st.w)
        | (some e, st) => (.error e, st.x, st.w) := by
  simp only [run, h, final, epsTol]
  rfl

theorem run_go_entry (prm : Params K) (ip : Vec K → Vec K → K) (sqrt : K → K) (eps : K) (A : CRS K)
    (Prec : Vec K → Vec K) (Pv : FArr (Vec K)) (ws : Work K) (f x0 : Vec K) (nf : K)
    (h : prologueA prm.nsSearch ip sqrt eps f = .go nf)
    (hc : ¬ epsTol prm nf < nrmA ip sqrt (residual f A x0)) :
    run prm ip sqrt eps A Prec Pv ws f x0 =
      (.ok (0, nrmA ip sqrt (residual f A x0) / nf), x0, { ws with r := residual f A x0 }) := by
  rw [run_go prm ip sqrt eps A Prec Pv ws f x0 nf h, if_pos hc]

theorem run_go_loop (prm : Params K) (ip : Vec K → Vec K → K) (sqrt : K → K) (eps : K) (A : CRS K)
    (Prec : Vec K → Vec K) (Pv : FArr (Vec K)) (ws : Work K) (f x0 : Vec K) (nf : K)
    (h : prologueA prm.nsSearch ip sqrt eps f = .go nf)
    (hc : epsTol prm nf < nrmA ip sqrt (residual f A x0)) :
    run prm ip sqrt eps A Prec Pv ws f x0 =
      match final prm ip sqrt A Prec Pv ws f x0 nf with
      | (none, st) =>
        (.ok (st.iter, st.resNorm / nf), (if prm.smoothing then vcopy st.w.xs else st.x), st.w)
      | (some e, st) => (.error e, st.x, st.w) := by
  rw [run_go prm ip sqrt eps A Prec Pv ws f x0 nf h, if_neg (not_not.mpr hc)]

/-- a (numerically) zero right-hand side without `ns_search`: `x` is cleared, `(0, ‖f‖)` returned, the work space is
not touched -/
theorem run_zero_rhs (prm : Params K) (ip : Vec K → Vec K → K) (sqrt : K → K) (eps : K) (A : CRS K)
    (Prec : Vec K → Vec K) (Pv : FArr (Vec K)) (ws : Work K) (f x0 : Vec K)
    (hf : nrmA ip sqrt f < eps) (hns : prm.nsSearch = false) :
    run prm ip sqrt eps A Prec Pv ws f x0 = (.ok (0, nrmA ip sqrt f), vclear x0.size, ws) :=
  run_trivial prm ip sqrt eps A Prec Pv ws f x0 _
    ((prologueA_trivial _ ip sqrt eps f _).mpr ⟨hf, hns, rfl⟩)

/-- an initial guess that already satisfies the entry test is returned unchanged -/
theorem run_converged_guess (prm : Params K) (ip : Vec K → Vec K → K) (sqrt : K → K) (eps : K) (A : CRS K)
    (Prec : Vec K → Vec K) (Pv : FArr (Vec K)) (ws : Work K) (f x0 : Vec K) (nf : K)
    (h : prologueA prm.nsSearch ip sqrt eps f = .go nf)
    (hc : ¬ epsTol prm nf < nrmA ip sqrt (residual f A x0)) :
    (run prm ip sqrt eps A Prec Pv ws f x0).obs = (.ok (0, nrmA ip sqrt (residual f A x0) / nf), x0) := by
  rw [run_go_entry prm ip sqrt eps A Prec Pv ws f x0 nf h hc]
  rfl

end Amgcl.Solver.IDRs
