import Amgcl.Model.SolverIDRs
import Amgcl.Proofs.SolverCommon2
/-!
Lemmas about the IDR(s) model (`Amgcl.Solver.IDRs`), part 1: the call as a whole (early returns, unfolding of `run`),
a decomposition of `kStep` into named intermediate values (`kStep_eq`, proved by `rfl`: the model is untouched), the
iteration bound `iter ≤ maxiter` through `kStep` / `kLoop` / `body` / the `while` loop.
-/
namespace Amgcl.Solver.IDRs
open Amgcl Amgcl.Solver
set_option linter.unusedSectionVars false
set_option linter.unusedSimpArgs false
set_option linter.unusedVariables false

variable {K : Type} [Field K] [DecidableEq K] [LT K] [DecidableLT K]

/-- `eps = std::max(prm.tol * norm_rhs, prm.abstol)` -/
def epsTol (prm : Params K) (nf : K) : K := maxK (prm.tol * nf) prm.abstol

/-- result of the `while` loop for a call that did not return early and uses `norm_rhs = nf` -/
def final (prm : Params K) (ip : Vec K → Vec K → K) (sqrt : K → K) (A : CRS K) (Prec : Vec K → Vec K)
    (Pv : FArr (Vec K)) (ws : Work K) (f x0 : Vec K) (nf : K) : Option Err × St K :=
  loop prm ip sqrt A Prec Pv f (epsTol prm nf) prm.maxiter
    (init prm ws x0 (residual f A x0) (nrmA ip sqrt (residual f A x0)))

theorem run_trivial (prm : Params K) (ip : Vec K → Vec K → K) (sqrt : K → K) (eps : K) (A : CRS K)
    (Prec : Vec K → Vec K) (Pv : FArr (Vec K)) (ws : Work K) (f x0 : Vec K) (n : K)
    (h : prologueA prm.nsSearch ip sqrt eps f = .trivial n) :
    run prm ip sqrt eps A Prec Pv ws f x0 = (.ok (0, n), vclear x0.size, ws) := by
  simp only [run, h]

/-- `run` for a call that passes the prologue: the entry test, else the loop -/
theorem run_go (prm : Params K) (ip : Vec K → Vec K → K) (sqrt : K → K) (eps : K) (A : CRS K)
    (Prec : Vec K → Vec K) (Pv : FArr (Vec K)) (ws : Work K) (f x0 : Vec K) (nf : K)
    (h : prologueA prm.nsSearch ip sqrt eps f = .go nf) :
    run prm ip sqrt eps A Prec Pv ws f x0 =
      if ¬ epsTol prm nf < nrmA ip sqrt (residual f A x0) then
        (.ok (0, nrmA ip sqrt (residual f A x0) / nf), x0, { ws with r := residual f A x0 })
      else
        match final prm ip sqrt A Prec Pv ws f x0 nf with
        | (none, st) =>
          (.ok (st.iter, st.resNorm / nf), (if prm.smoothing then vcopy st.w.xs else st.x), st.w)
        | (some e, st) => (.error e, st.x, st.w) := by
  simp only [run, h, final, epsTol]
  rfl

theorem run_go_entry (prm : Params K) (ip : Vec K → Vec K → K) (sqrt : K → K) (eps : K) (A : CRS K)
    (Prec : Vec K → Vec K) (Pv : FArr (Vec K)) (ws : Work K) (f x0 : Vec K) (nf : K)
    (h : prologueA prm.nsSearch ip sqrt eps f = .go nf)
    (hc : ¬ epsTol prm nf < nrmA ip sqrt (residual f A x0)) :
    run prm ip sqrt eps A Prec Pv ws f x0 =
      (.ok (0, nrmA ip sqrt (residual f A x0) / nf), x0, { ws with r := residual f A x0 }) := by
  rw [run_go prm ip sqrt eps A Prec Pv ws f x0 nf h, if_pos hc]

theorem run_go_loop (prm : Params K) (ip : Vec K → Vec K → K) (sqrt : K → K) (eps : K) (A : CRS K)
    (Prec : Vec K → Vec K) (Pv : FArr (Vec K)) (ws : Work K) (f x0 : Vec K) (nf : K)
    (h : prologueA prm.nsSearch ip sqrt eps f = .go nf)
    (hc : epsTol prm nf < nrmA ip sqrt (residual f A x0)) :
    run prm ip sqrt eps A Prec Pv ws f x0 =
      match final prm ip sqrt A Prec Pv ws f x0 nf with
      | (none, st) =>
        (.ok (st.iter, st.resNorm / nf), (if prm.smoothing then vcopy st.w.xs else st.x), st.w)
      | (some e, st) => (.error e, st.x, st.w) := by
  rw [run_go prm ip sqrt eps A Prec Pv ws f x0 nf h, if_neg (not_not.mpr hc)]

/-- a (numerically) zero right-hand side without `ns_search`: `x` is cleared, `(0, ‖f‖)` returned, the work space is
not touched -/
theorem run_zero_rhs (prm : Params K) (ip : Vec K → Vec K → K) (sqrt : K → K) (eps : K) (A : CRS K)
    (Prec : Vec K → Vec K) (Pv : FArr (Vec K)) (ws : Work K) (f x0 : Vec K)
    (hf : nrmA ip sqrt f < eps) (hns : prm.nsSearch = false) :
    run prm ip sqrt eps A Prec Pv ws f x0 = (.ok (0, nrmA ip sqrt f), vclear x0.size, ws) :=
  run_trivial prm ip sqrt eps A Prec Pv ws f x0 _
    ((prologueA_trivial _ ip sqrt eps f _).mpr ⟨hf, hns, rfl⟩)

/-- an initial guess that already satisfies the entry test is returned unchanged -/
theorem run_converged_guess (prm : Params K) (ip : Vec K → Vec K → K) (sqrt : K → K) (eps : K) (A : CRS K)
    (Prec : Vec K → Vec K) (Pv : FArr (Vec K)) (ws : Work K) (f x0 : Vec K) (nf : K)
    (h : prologueA prm.nsSearch ip sqrt eps f = .go nf)
    (hc : ¬ epsTol prm nf < nrmA ip sqrt (residual f A x0)) :
    (run prm ip sqrt eps A Prec Pv ws f x0).obs = (.ok (0, nrmA ip sqrt (residual f A x0) / nf), x0) := by
  rw [run_go_entry prm ip sqrt eps A Prec Pv ws f x0 nf h hc]
  rfl

/-! ### `kStep`, decomposed into its statements (definitional: `kStep_eq` is `rfl`) -/

/-- the `c` after the triangular solve of pass `k` -/
def kc (prm : Params K) (k : Nat) (st : St K) : FArr K := (solveC prm.s k st.w (vcopy st.w.r)).1
/-- the `v` after the triangular solve of pass `k` -/
def kv (prm : Params K) (k : Nat) (st : St K) : Vec K := (solveC prm.s k st.w (vcopy st.w.r)).2
/-- `U[k]` before bi-orthogonalisation -/
def kuk1 (prm : Params K) (Prec : Vec K → Vec K) (k : Nat) (st : St K) : Vec K :=
  ((List.range prm.s).drop (k + 1)).foldl (fun u i => axpby (kc prm k st i) (st.w.U i) 1 u)
    (axpby st.om (Prec (kv prm k st)) (kc prm k st k) (st.w.U k))
/-- `(G[k], U[k])` after bi-orthogonalisation -/
def kgu (prm : Params K) (ip : Vec K → Vec K → K) (A : CRS K) (Prec : Vec K → Vec K) (Pv : FArr (Vec K))
    (k : Nat) (st : St K) : Vec K × Vec K :=
  (List.range k).foldl (fun (acc : Vec K × Vec K) i =>
      (axpby (-(ip acc.1 (Pv i) / st.w.M i i)) (st.w.G i) 1 acc.1,
       axpby (-(ip acc.1 (Pv i) / st.w.M i i)) (st.w.U i) 1 acc.2))
    (spmv 1 A (kuk1 prm Prec k st) 0 (st.w.G k), kuk1 prm Prec k st)
/-- `M` with its new column `k` -/
def kM (prm : Params K) (ip : Vec K → Vec K → K) (A : CRS K) (Prec : Vec K → Vec K) (Pv : FArr (Vec K))
    (k : Nat) (st : St K) : FArr2 K :=
  ((List.range prm.s).drop k).foldl (fun M i => setF2 M i k (ip (kgu prm ip A Prec Pv k st).1 (Pv i))) st.w.M
/-- the work space at the `precondition(M(k,k) ≠ 0)` -/
def kw1 (prm : Params K) (ip : Vec K → Vec K → K) (A : CRS K) (Prec : Vec K → Vec K) (Pv : FArr (Vec K))
    (k : Nat) (st : St K) : Work K :=
  { st.w with M := kM prm ip A Prec Pv k st, c := kc prm k st, v := kv prm k st, t := Prec (kv prm k st),
              G := setF st.w.G k (kgu prm ip A Prec Pv k st).1, U := setF st.w.U k (kgu prm ip A Prec Pv k st).2 }
def kbeta (prm : Params K) (ip : Vec K → Vec K → K) (A : CRS K) (Prec : Vec K → Vec K) (Pv : FArr (Vec K))
    (k : Nat) (st : St K) : K := inv1 ((kM prm ip A Prec Pv k st) k k) * st.w.f k
/-- the caller's `x` after `x += beta*U[k]` -/
def kx (prm : Params K) (ip : Vec K → Vec K → K) (A : CRS K) (Prec : Vec K → Vec K) (Pv : FArr (Vec K))
    (k : Nat) (st : St K) : Vec K :=
  axpby (kbeta prm ip A Prec Pv k st) (kgu prm ip A Prec Pv k st).2 1 st.x
/-- the work space after `r -= beta*G[k]` -/
def kw2 (prm : Params K) (ip : Vec K → Vec K → K) (A : CRS K) (Prec : Vec K → Vec K) (Pv : FArr (Vec K))
    (k : Nat) (st : St K) : Work K :=
  { kw1 prm ip A Prec Pv k st with
    r := axpby (-(kbeta prm ip A Prec Pv k st)) (kgu prm ip A Prec Pv k st).1 1 st.w.r }
/-- `res_norm = norm(*r); if (prm.smoothing) { … res_norm = norm(*r_s); }` -/
def post (prm : Params K) (ip : Vec K → Vec K → K) (sqrt : K → K) (w : Work K) (x : Vec K) : Work K × K :=
  if prm.smoothing then smooth ip sqrt w x else (w, nrmA ip sqrt w.r)
/-- `(work space, res_norm)` after the smoothing block of pass `k` -/
def kpost (prm : Params K) (ip : Vec K → Vec K → K) (sqrt : K → K) (A : CRS K) (Prec : Vec K → Vec K)
    (Pv : FArr (Vec K)) (k : Nat) (st : St K) : Work K × K :=
  post prm ip sqrt (kw2 prm ip A Prec Pv k st) (kx prm ip A Prec Pv k st)
/-- `for(i = k+1; i < s; ++i) f[i] -= beta * M(i,k);` -/
def kf (prm : Params K) (ip : Vec K → Vec K → K) (sqrt : K → K) (A : CRS K) (Prec : Vec K → Vec K)
    (Pv : FArr (Vec K)) (k : Nat) (st : St K) : FArr K :=
  ((List.range prm.s).drop (k + 1)).foldl
    (fun f i => setF f i (f i - kbeta prm ip A Prec Pv k st * (kM prm ip A Prec Pv k st) i k))
    (kpost prm ip sqrt A Prec Pv k st).1.f

theorem kStep_eq (prm : Params K) (ip : Vec K → Vec K → K) (sqrt : K → K) (A : CRS K) (Prec : Vec K → Vec K)
    (Pv : FArr (Vec K)) (epsT : K) (k : Nat) (st : St K) :
    kStep prm ip sqrt A Prec Pv epsT k st =
      if (kM prm ip A Prec Pv k st) k k = 0 then
        .error (.zeroPivot, { st with w := kw1 prm ip A Prec Pv k st })
      else if ¬ epsT < (kpost prm ip sqrt A Prec Pv k st).2 then
        .ok ({ st with resNorm := (kpost prm ip sqrt A Prec Pv k st).2, x := kx prm ip A Prec Pv k st,
                       w := (kpost prm ip sqrt A Prec Pv k st).1 }, true)
      else if prm.maxiter ≤ st.iter + 1 then
        .ok ({ st with iter := st.iter + 1, resNorm := (kpost prm ip sqrt A Prec Pv k st).2,
                       x := kx prm ip A Prec Pv k st, w := (kpost prm ip sqrt A Prec Pv k st).1 }, true)
      else
        .ok ({ st with iter := st.iter + 1, resNorm := (kpost prm ip sqrt A Prec Pv k st).2,
                       x := kx prm ip A Prec Pv k st,
                       w := { (kpost prm ip sqrt A Prec Pv k st).1 with f := kf prm ip sqrt A Prec Pv k st } },
             false) := rfl

/-! ### the second half of a pass of the `while` body, decomposed -/

/-- the state with the new right-hand side `f = P'r` of the small system -/
def bodyF (prm : Params K) (ip : Vec K → Vec K → K) (Pv : FArr (Vec K)) (st : St K) : St K :=
  { st with w := { st.w with f := (List.range prm.s).foldl (fun f i => setF f i (ip st.w.r (Pv i))) st.w.f } }

/-- `t = A·Prec(r)` -/
def bt (A : CRS K) (Prec : Vec K → Vec K) (st : St K) : Vec K := spmv 1 A (Prec st.w.r) 0 st.w.t
def bom (prm : Params K) (ip : Vec K → Vec K → K) (sqrt : K → K) (A : CRS K) (Prec : Vec K → Vec K) (st : St K) : K :=
  omegaFn ip sqrt prm.omega (bt A Prec st) st.w.r
def bw1 (A : CRS K) (Prec : Vec K → Vec K) (st : St K) : Work K := { st.w with v := Prec st.w.r, t := bt A Prec st }
def bx (prm : Params K) (ip : Vec K → Vec K → K) (sqrt : K → K) (A : CRS K) (Prec : Vec K → Vec K) (st : St K) : Vec K :=
  axpby (bom prm ip sqrt A Prec st) (Prec st.w.r) 1 st.x
def bw2 (prm : Params K) (ip : Vec K → Vec K → K) (sqrt : K → K) (A : CRS K) (Prec : Vec K → Vec K) (rhs : Vec K)
    (st : St K) : Work K :=
  { bw1 A Prec st with
    r := if prm.replacement then residual rhs A (bx prm ip sqrt A Prec st)
         else axpby (-(bom prm ip sqrt A Prec st)) (bt A Prec st) 1 st.w.r }

/-- the statements after the `for k` loop, idrs.hpp:359-397 -/
def tail (prm : Params K) (ip : Vec K → Vec K → K) (sqrt : K → K) (A : CRS K) (Prec : Vec K → Vec K)
    (rhs : Vec K) (epsT : K) (st1 : St K) : Except (Err × St K) (St K) :=
  if ¬ epsT < st1.resNorm ∨ prm.maxiter ≤ st1.iter then .ok { st1 with brk := true }
  else if bom prm ip sqrt A Prec st1 = 0 then
    .error (.zeroOmega, { st1 with om := bom prm ip sqrt A Prec st1, w := bw1 A Prec st1 })
  else
    .ok { iter := st1.iter + 1,
          resNorm := (post prm ip sqrt (bw2 prm ip sqrt A Prec rhs st1) (bx prm ip sqrt A Prec st1)).2,
          om := bom prm ip sqrt A Prec st1, brk := false, x := bx prm ip sqrt A Prec st1,
          w := (post prm ip sqrt (bw2 prm ip sqrt A Prec rhs st1) (bx prm ip sqrt A Prec st1)).1 }

theorem body_eq (prm : Params K) (ip : Vec K → Vec K → K) (sqrt : K → K) (A : CRS K) (Prec : Vec K → Vec K)
    (Pv : FArr (Vec K)) (rhs : Vec K) (epsT : K) (st : St K) :
    body prm ip sqrt A Prec Pv rhs epsT st =
      match kLoop prm ip sqrt A Prec Pv epsT prm.s 0 (bodyF prm ip Pv st) with
      | .error e => .error e
      | .ok st1 => tail prm ip sqrt A Prec rhs epsT st1 := rfl

/-! ### iteration counter -/

theorem cond_iter (maxiter : Nat) (epsT : K) (st : St K) (h : cond maxiter epsT st = true) :
    st.brk = false ∧ st.iter < maxiter ∧ epsT < st.resNorm := by
  simpa [cond, and_assoc] using h

/-- a `k` pass entered with `iter < maxiter` leaves `iter ≤ maxiter`, and `iter < maxiter` when it does not `break` -/
theorem kStep_iter (prm : Params K) (ip : Vec K → Vec K → K) (sqrt : K → K) (A : CRS K) (Prec : Vec K → Vec K)
    (Pv : FArr (Vec K)) (epsT : K) (k : Nat) (st st' : St K) (b : Bool)
    (h : kStep prm ip sqrt A Prec Pv epsT k st = .ok (st', b)) (hlt : st.iter < prm.maxiter) :
    st'.iter ≤ prm.maxiter ∧ (b = false → st'.iter < prm.maxiter) ∧ st.iter ≤ st'.iter := by
  rw [kStep_eq] at h
  split at h
  · cases h
  · split at h
    · cases h; exact ⟨Nat.le_of_lt hlt, fun hb => (by cases hb), Nat.le_refl _⟩
    · split at h
      · cases h; exact ⟨hlt, fun hb => (by cases hb), Nat.le_succ _⟩
      · rename_i hm
        cases h
        exact ⟨Nat.le_of_lt (Nat.not_le.mp hm), fun _ => Nat.not_le.mp hm, Nat.le_succ _⟩

theorem kLoop_iter (prm : Params K) (ip : Vec K → Vec K → K) (sqrt : K → K) (A : CRS K) (Prec : Vec K → Vec K)
    (Pv : FArr (Vec K)) (epsT : K) :
    ∀ (fuel k : Nat) (st st' : St K), kLoop prm ip sqrt A Prec Pv epsT fuel k st = .ok st' →
      st.iter < prm.maxiter → st'.iter ≤ prm.maxiter ∧ st.iter ≤ st'.iter := by
  intro fuel
  induction fuel with
  | zero => intro k st st' h hlt; simp only [kLoop] at h; cases h; exact ⟨Nat.le_of_lt hlt, Nat.le_refl _⟩
  | succ n ih =>
    intro k st st' h hlt
    unfold kLoop at h
    cases hk : kStep prm ip sqrt A Prec Pv epsT k st with
    | error e => rw [hk] at h; cases h
    | ok sb =>
      obtain ⟨s1, b⟩ := sb
      rw [hk] at h
      obtain ⟨h1, h2, h3⟩ := kStep_iter prm ip sqrt A Prec Pv epsT k st s1 b hk hlt
      cases b with
      | true => simp only at h; cases h; exact ⟨h1, h3⟩
      | false =>
        simp only at h
        obtain ⟨g1, g2⟩ := ih (k + 1) s1 st' h (h2 rfl)
        exact ⟨g1, Nat.le_trans h3 g2⟩

theorem tail_iter (prm : Params K) (ip : Vec K → Vec K → K) (sqrt : K → K) (A : CRS K) (Prec : Vec K → Vec K)
    (rhs : Vec K) (epsT : K) (st1 st' : St K) (h : tail prm ip sqrt A Prec rhs epsT st1 = .ok st')
    (hle : st1.iter ≤ prm.maxiter) : st'.iter ≤ prm.maxiter ∧ st1.iter ≤ st'.iter := by
  unfold tail at h
  split at h
  · cases h; exact ⟨hle, Nat.le_refl _⟩
  · rename_i hc
    split at h
    · cases h
    · cases h
      have : ¬ prm.maxiter ≤ st1.iter := fun hh => hc (Or.inr hh)
      exact ⟨Nat.not_le.mp this, Nat.le_succ _⟩

/-- a pass of the `while` body entered with `iter < maxiter` leaves `iter ≤ maxiter` -/
theorem body_iter (prm : Params K) (ip : Vec K → Vec K → K) (sqrt : K → K) (A : CRS K) (Prec : Vec K → Vec K)
    (Pv : FArr (Vec K)) (rhs : Vec K) (epsT : K) (st st' : St K)
    (h : body prm ip sqrt A Prec Pv rhs epsT st = .ok st') (hlt : st.iter < prm.maxiter) :
    st'.iter ≤ prm.maxiter ∧ st.iter ≤ st'.iter := by
  rw [body_eq] at h
  cases hk : kLoop prm ip sqrt A Prec Pv epsT prm.s 0 (bodyF prm ip Pv st) with
  | error e => rw [hk] at h; cases h
  | ok st1 =>
    rw [hk] at h
    simp only at h
    obtain ⟨h1, h2⟩ := kLoop_iter prm ip sqrt A Prec Pv epsT prm.s 0 (bodyF prm ip Pv st) st1 hk hlt
    obtain ⟨g1, g2⟩ := tail_iter prm ip sqrt A Prec rhs epsT st1 st' h h1
    exact ⟨g1, Nat.le_trans h2 g2⟩

theorem init_iter (prm : Params K) (ws : Work K) (x0 r : Vec K) (n : K) : (init prm ws x0 r n).iter = 0 := rfl
theorem init_x (prm : Params K) (ws : Work K) (x0 r : Vec K) (n : K) : (init prm ws x0 r n).x = x0 := rfl
theorem init_resNorm (prm : Params K) (ws : Work K) (x0 r : Vec K) (n : K) : (init prm ws x0 r n).resNorm = n := rfl
theorem init_om (prm : Params K) (ws : Work K) (x0 r : Vec K) (n : K) : (init prm ws x0 r n).om = 1 := rfl
theorem init_brk (prm : Params K) (ws : Work K) (x0 r : Vec K) (n : K) : (init prm ws x0 r n).brk = false := rfl

/-- **iteration bound**: the state at a normal exit of the `while` loop has `iter ≤ maxiter` (for every matrix,
preconditioner function, shadow space and work space) -/
theorem final_iter_le (prm : Params K) (ip : Vec K → Vec K → K) (sqrt : K → K) (A : CRS K) (Prec : Vec K → Vec K)
    (Pv : FArr (Vec K)) (ws : Work K) (f x0 : Vec K) (nf : K) (st : St K)
    (h : final prm ip sqrt A Prec Pv ws f x0 nf = (none, st)) : st.iter ≤ prm.maxiter := by
  unfold final loop at h
  exact loopE_inv _ _ (fun s : St K => s.iter ≤ prm.maxiter)
    (fun s s' _ hc hb =>
      (body_iter prm ip sqrt A Prec Pv f _ s s' hb (cond_iter _ _ _ hc).2.1).1) _ _ _
    (by rw [init_iter]; exact Nat.zero_le _) h

/-- every normal return of `run` reports `it ≤ maxiter` -/
theorem run_iter_le (prm : Params K) (ip : Vec K → Vec K → K) (sqrt : K → K) (eps : K) (A : CRS K)
    (Prec : Vec K → Vec K) (Pv : FArr (Vec K)) (ws : Work K) (f x0 : Vec K) (it : Nat) (res : K)
    (h : (run prm ip sqrt eps A Prec Pv ws f x0).out = .ok (it, res)) : it ≤ prm.maxiter := by
  cases hp : prologueA prm.nsSearch ip sqrt eps f with
  | trivial n =>
    rw [run_trivial prm ip sqrt eps A Prec Pv ws f x0 n hp] at h
    simp only [Run.out, Except.ok.injEq, Prod.mk.injEq] at h
    omega
  | go nf =>
    rw [run_go prm ip sqrt eps A Prec Pv ws f x0 nf hp] at h
    split at h
    · simp only [Run.out, Except.ok.injEq, Prod.mk.injEq] at h
      omega
    · cases hfin : final prm ip sqrt A Prec Pv ws f x0 nf with
      | mk oe st =>
        rw [hfin] at h
        cases oe with
        | some e => simp [Run.out] at h
        | none =>
          simp only [Run.out, Except.ok.injEq, Prod.mk.injEq] at h
          rw [← h.1]
          exact final_iter_le prm ip sqrt A Prec Pv ws f x0 nf st hfin

theorem solve_iter_le (prm : Params K) (ip : Vec K → Vec K → K) (sqrt : K → K) (eps : K) (A : CRS K)
    (Prec : Vec K → Vec K) (Pv : FArr (Vec K)) (ws : Work K) (f x0 : Vec K) (it : Nat) (res : K) (x : Vec K)
    (w : Work K) (h : solve prm ip sqrt eps A Prec Pv ws f x0 = .ok (it, res, x, w)) : it ≤ prm.maxiter := by
  rw [solve, Run.toExcept_ok] at h
  exact run_iter_le prm ip sqrt eps A Prec Pv ws f x0 it res (by rw [h]; rfl)

/-! ### the work space on loop entry -/

/-- the work space after `copy(x, *x_s); copy(*r, *r_s);` -/
def initW0 (prm : Params K) (ws : Work K) (x0 r : Vec K) : Work K :=
  if prm.smoothing then { ws with r := r, xs := vcopy x0, rs := vcopy r } else { ws with r := r }

/-- the `M`-row loop `for(j < s) M(i,j) = (i == j)` -/
def initRow (s i : Nat) (M : FArr2 K) : FArr2 K :=
  (List.range s).foldl (fun M j => setF2 M i j (if i = j then 1 else 0)) M

/-- the work space on loop entry -/
def initW (prm : Params K) (ws : Work K) (x0 r : Vec K) : Work K :=
  (List.range prm.s).foldl (fun w i =>
      { w with G := setF w.G i (vclear r.size), U := setF w.U i (vclear r.size), M := initRow prm.s i w.M })
    (initW0 prm ws x0 r)

theorem init_w (prm : Params K) (ws : Work K) (x0 r : Vec K) (n : K) :
    (init prm ws x0 r n).w = initW prm ws x0 r := rfl

theorem initRow_get (s i : Nat) (M : FArr2 K) :
    (∀ j, j < s → (initRow s i M) i j = if i = j then 1 else 0) ∧
    (∀ a b, a ≠ i → (initRow s i M) a b = M a b) := by
  unfold initRow
  apply foldl_range_inv _ (fun n (M' : FArr2 K) =>
    (∀ j, j < n → M' i j = if i = j then 1 else 0) ∧ (∀ a b, a ≠ i → M' a b = M a b))
  · exact ⟨fun j hj => absurd hj (Nat.not_lt_zero _), fun _ _ _ => rfl⟩
  · intro k M' _ ⟨h1, h2⟩
    refine ⟨fun j hj => ?_, fun a b ha => ?_⟩
    · show (setF2 M' i k _).get i j = _
      rw [setF2_get]
      by_cases hjk : j = k
      · subst hjk; simp
      · rw [if_neg (fun h => hjk h.2)]; exact h1 j (by omega)
    · show (setF2 M' i k _).get a b = _
      rw [setF2_get, if_neg (fun h => ha h.1)]; exact h2 a b ha

/-- `init` overwrites `r`, (`x_s`, `r_s` with smoothing), `G[i]`, `U[i]`, `M(i,j)` for `i, j < s` -/
theorem initW_spec (prm : Params K) (ws : Work K) (x0 r : Vec K) :
    (initW prm ws x0 r).r = r ∧
    (prm.smoothing = true → (initW prm ws x0 r).xs = vcopy x0 ∧ (initW prm ws x0 r).rs = vcopy r) ∧
    (∀ i, i < prm.s → (initW prm ws x0 r).G i = vclear r.size ∧ (initW prm ws x0 r).U i = vclear r.size) ∧
    (∀ i j, i < prm.s → j < prm.s → (initW prm ws x0 r).M i j = if i = j then 1 else 0) := by
  unfold initW
  apply foldl_range_inv _ (fun n (w : Work K) =>
    w.r = r ∧ (prm.smoothing = true → w.xs = vcopy x0 ∧ w.rs = vcopy r) ∧
    (∀ i, i < n → w.G i = vclear r.size ∧ w.U i = vclear r.size) ∧
    (∀ i j, i < n → j < prm.s → w.M i j = if i = j then 1 else 0))
  · refine ⟨?_, ?_, fun i hi => absurd hi (Nat.not_lt_zero _), fun i j hi => absurd hi (Nat.not_lt_zero _)⟩
    · unfold initW0; split <;> rfl
    · intro hs; unfold initW0; rw [if_pos hs]; exact ⟨rfl, rfl⟩
  · intro k w _ ⟨h1, h2, h3, h4⟩
    refine ⟨h1, h2, fun i hi => ?_, fun i j hi hj => ?_⟩
    · show (setF w.G k _).get i = _ ∧ (setF w.U k _).get i = _
      rw [setF_get, setF_get]
      by_cases hik : i = k
      · simp [hik]
      · rw [if_neg hik, if_neg hik]; exact h3 i (by omega)
    · show (initRow prm.s k w.M) i j = _
      by_cases hik : i = k
      · subst hik; exact (initRow_get prm.s i w.M).1 j hj
      · rw [(initRow_get prm.s k w.M).2 i j hik]; exact h4 i j (by omega) hj

end Amgcl.Solver.IDRs
