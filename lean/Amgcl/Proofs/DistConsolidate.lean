import Amgcl.Model.DistConsolidate
import Amgcl.Proofs.DistPattern
/-!
Index arithmetic of the master/slave consolidation (`solver_base::init`): a master and its slaves are consecutive
ACTIVE ranks, the ranks between them own nothing, hence the consolidated chunk is a contiguous range of global
rows in global order and the two ways the code addresses a slave's rows (`shift` and `domain[i] - d0`) agree.
-/
namespace Amgcl.Dist

theorem activeRanks_sorted (cnt : List Nat) : (activeRanks cnt).Pairwise (· < ·) :=
  (range_pairwise_lt _).filter _

theorem mem_activeRanks (cnt : List Nat) (i : Nat) : i ∈ activeRanks cnt ↔ i < cnt.length ∧ 0 < cnt.getD i 0 := by
  unfold activeRanks; simp [List.mem_filter]

/-- between two consecutive active ranks nobody owns a row -/
theorem dom_next_active (cnt : List Nat) (pre post : List Nat) (a b : Nat)
    (h : activeRanks cnt = pre ++ a :: b :: post) : dom cnt b = dom cnt (a + 1) := by
  have hs := activeRanks_sorted cnt
  rw [h] at hs
  have hb : b ∈ activeRanks cnt := by rw [h]; simp
  have hbl := ((mem_activeRanks cnt b).1 hb).1
  have hab : a < b := by
    have := (List.pairwise_append.1 hs).2.1
    exact (List.pairwise_cons.1 this).1 b List.mem_cons_self
  have hzero : ∀ i, a < i → i < b → cnt.getD i 0 = 0 := by
    intro i h1 h2
    by_contra hne
    have hi : i ∈ activeRanks cnt := (mem_activeRanks cnt i).2 ⟨by omega, Nat.pos_of_ne_zero hne⟩
    rw [h] at hi
    rcases List.mem_append.1 hi with hp | hp
    · have := (List.pairwise_append.1 hs).2.2 i hp a List.mem_cons_self; omega
    · rcases List.mem_cons.1 hp with e | hp
      · omega
      · rcases List.mem_cons.1 hp with e | hp
        · omega
        · have h3 := (List.pairwise_cons.1 (List.pairwise_append.1 hs).2.1).2
          have := (List.pairwise_cons.1 h3).1 i hp; omega
  have key : ∀ k, a + 1 + k ≤ b → dom cnt (a + 1 + k) = dom cnt (a + 1) := by
    intro k
    induction k with
    | zero => intro _; rfl
    | succ k ih =>
      intro hk
      rw [show a + 1 + (k + 1) = (a + 1 + k) + 1 by omega, dom_succ cnt _ (by omega), hzero _ (by omega) (by omega),
        Nat.add_zero]
      exact ih (by omega)
  have := key (b - (a + 1)) (by omega)
  rw [show a + 1 + (b - (a + 1)) = b by omega] at this
  exact this

theorem ownRows_eq (cnt : List Nat) (r : Nat) : ownRows cnt r = (List.range (dom cnt (r + 1) - dom cnt r)).map (dom cnt r + ·) := rfl

/-- a master followed by consecutive active ranks: contiguous rows, and `domain[i] - d0` is the running `shift` -/
theorem chain_rows (cnt : List Nat) : ∀ (S : List Nat) (m : Nat) (pre post : List Nat),
    activeRanks cnt = pre ++ m :: S ++ post →
    (∃ L, ownRows cnt m ++ S.flatMap (ownRows cnt) = (List.range L).map (dom cnt m + ·) ∧
          dom cnt m + L = dom cnt ((m :: S).getLast (List.cons_ne_nil _ _) + 1)) ∧
    ∀ j, j < S.length →
      domainRow cnt m (S.getD j 0)
        = shiftRow (dom cnt (m + 1) - dom cnt m) (S.map (fun i => dom cnt (i + 1) - dom cnt i)) j := by
  intro S
  induction S with
  | nil =>
    intro m pre post h
    have hm : m < cnt.length := ((mem_activeRanks cnt m).1 (by rw [h]; simp)).1
    refine ⟨⟨dom cnt (m + 1) - dom cnt m, by simp [ownRows_eq], ?_⟩, fun j hj => absurd hj (Nat.not_lt_zero _)⟩
    have := dom_mono cnt (show m ≤ m + 1 by omega) hm
    simp only [List.getLast_singleton]; omega
  | cons b S ih =>
    intro m pre post h
    have hm : m < cnt.length := ((mem_activeRanks cnt m).1 (by rw [h]; simp)).1
    have hnext : dom cnt b = dom cnt (m + 1) := dom_next_active cnt pre (S ++ post) m b (by rw [h]; simp)
    have hmono : dom cnt m ≤ dom cnt (m + 1) := dom_mono cnt (show m ≤ m + 1 by omega) hm
    obtain ⟨⟨L, hL, hLe⟩, hsh⟩ := ih b (pre ++ [m]) post (by rw [h]; simp)
    refine ⟨⟨(dom cnt (m + 1) - dom cnt m) + L, ?_, ?_⟩, ?_⟩
    · rw [List.flatMap_cons, ← List.append_assoc, List.append_assoc, hL, ownRows_eq, List.range_add, List.map_append,
        List.map_map]
      congr 1
      apply List.map_congr_left
      intro i _
      simp only [Function.comp]
      rw [hnext]; omega
    · rw [List.getLast_cons (List.cons_ne_nil _ _), ← hLe, hnext]; omega
    · intro j hj
      cases j with
      | zero =>
        simp only [List.getD_cons_zero, domainRow, shiftRow, List.take_zero, List.sum_nil, Nat.add_zero]
        rw [hnext]
      | succ j =>
        have hj' : j < S.length := by simpa using hj
        have := hsh j hj'
        simp only [List.getD_cons_succ, domainRow, shiftRow, List.map_cons, List.take_succ_cons, List.sum_cons] at this ⊢
        have hb : b < cnt.length := ((mem_activeRanks cnt b).1 (by rw [h]; simp)).1
        have hmb : dom cnt b ≤ dom cnt (b + 1) := dom_mono cnt (show b ≤ b + 1 by omega) hb
        have hsj : S.getD j 0 ∈ S := by
          rw [List.getD_eq_getElem _ _ hj']; exact List.getElem_mem hj'
        have hsjl : S.getD j 0 < cnt.length := ((mem_activeRanks cnt _).1 (by
          rw [h]
          exact List.mem_append_left _ (List.mem_append_right _
            (List.mem_cons_of_mem _ (List.mem_cons_of_mem _ hsj))))).1
        have hlt : b < S.getD j 0 := by
          have hs := activeRanks_sorted cnt
          rw [h] at hs
          simp only [List.append_assoc, List.cons_append] at hs
          have h3 := (List.pairwise_cons.1 (List.pairwise_append.1 hs).2.1).2
          exact (List.pairwise_cons.1 h3).1 _ (List.mem_append_left _ hsj)
        have hle : dom cnt (b + 1) ≤ dom cnt (S.getD j 0) := dom_mono cnt (by omega) (Nat.le_of_lt hsjl)
        omega

/-- the group a rank computes is a block of consecutive active ranks -/
theorem groupOf_block (cnt : List Nat) (commSize rank : Nat) (hr : rank ∈ activeRanks cnt) :
    ∃ pre post, activeRanks cnt = pre ++ (groupOf cnt commSize rank).master :: (groupOf cnt commSize rank).slaves ++ post := by
  unfold groupOf
  simp only
  generalize hact : activeRanks cnt = act at hr
  generalize hspm : (act.length + min act.length commSize - 1) / min act.length commSize = spm
  have har : act.idxOf rank < act.length := List.idxOf_lt_length_iff.2 hr
  have hgb : act.idxOf rank / spm * spm < act.length := Nat.lt_of_le_of_lt (Nat.div_mul_le_self _ _) har
  generalize act.idxOf rank / spm * spm = gb at hgb
  refine ⟨act.take gb, (act.drop (gb + 1)).drop (min (gb + spm) act.length - (gb + 1)), ?_⟩
  have h1 : act = act.take gb ++ act.drop gb := (List.take_append_drop gb act).symm
  have h2 : act.drop gb = act.getD gb 0 :: act.drop (gb + 1) := by
    rw [List.getD_eq_getElem _ _ hgb]; exact (List.getElem_cons_drop_succ_eq_drop hgb).symm
  conv_lhs => rw [h1, h2]
  rw [List.append_assoc, List.cons_append, List.take_append_drop]

end Amgcl.Dist
