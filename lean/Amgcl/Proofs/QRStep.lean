import Amgcl.Proofs.QRArray
import Amgcl.Proofs.QRHouse
/-!
One step of `QR::compute` (ZGEQR2, `Model/QR.lean: computeS`) described on the cells of a buffer addressed through a
`Layout` (the cells `i·rs + j·cs`, `i < m`, `j < n`, are in bounds and pairwise distinct — this covers both storage orders).

`computeStep_spec`: step `i` leaves the columns `< i` alone, turns column `i` into `(…, beta, v)` and applies the reflector
`H_i = 1 - tau_i·w·wᵀ` (`w = (0,…,0,1,v)`) to the columns `> i`; `H_i` maps the old column `i` to `(…, beta, 0)` and satisfies
`tau_i·(2 - tau_i·wᵀw) = 0`.  The only hypothesis on `sqrt` is that it returns an exact root of the one number it is applied
to in this step (`SqrtExactStep`).
-/
set_option linter.unusedSectionVars false
namespace Amgcl
namespace QRModel
open Finset Arr2

/-- the cells `i·rs + j·cs` (`i < m`, `j < n`) lie inside a buffer of size `sz` and are pairwise distinct -/
structure Layout (m n rs cs sz : Nat) : Prop where
  lt : ∀ i j, i < m → j < n → i * rs + j * cs < sz
  inj : ∀ i j i' j', i < m → j < n → i' < m → j' < n → i * rs + j * cs = i' * rs + j' * cs → i = i' ∧ j = j'

theorem Layout.rowMajor (m n : Nat) : Layout m n n 1 (m * n) := by
  constructor
  · intro i j hi hj
    calc i * n + j * 1 < i * n + n := by omega
      _ = (i + 1) * n := by rw [Nat.add_mul, Nat.one_mul]
      _ ≤ m * n := Nat.mul_le_mul_right n hi
  · intro i j i' j' _ hj _ hj' e
    exact idx2_inj hj hj' (by simpa using e)

theorem Layout.colMajor (m n : Nat) : Layout m n 1 m (m * n) := by
  constructor
  · intro i j hi hj
    calc i * 1 + j * m < m + j * m := by omega
      _ = (j + 1) * m := by rw [Nat.add_mul, Nat.one_mul, Nat.add_comm]
      _ ≤ n * m := Nat.mul_le_mul_right m hj
      _ = m * n := Nat.mul_comm _ _
  · intro i j i' j' hi _ hi' _ e
    have := idx2_inj (n := m) (i := j) (j := i) (i' := j') (j' := i') hi hi' (by omega)
    exact ⟨this.2, this.1⟩

theorem Layout.transpose {m n rs cs sz : Nat} (L : Layout m n rs cs sz) : Layout n m cs rs sz := by
  constructor
  · intro i j hi hj
    rw [Nat.add_comm]; exact L.lt j i hj hi
  · intro i j i' j' hi hj hi' hj' e
    have := L.inj j i j' i' hj hi hj' hi' (by omega)
    exact ⟨this.2, this.1⟩

theorem Layout.mono {m n rs cs sz sz' : Nat} (L : Layout m n rs cs sz) (h : sz ≤ sz') : Layout m n rs cs sz' :=
  ⟨fun i j hi hj => Nat.lt_of_lt_of_le (L.lt i j hi hj) h, L.inj⟩

section
variable {K : Type} [Field K] [LinearOrder K] [IsStrictOrderedRing K]

/-- the body of the loop of `compute` (step `i`, state = buffer and `tau`) -/
def computeStep (sqrt : K → K) (m n rs cs : Nat) (st : Array K × Array K) (i : Nat) : Array K × Array K :=
  let g := genReflector sqrt (m - i) st.1 (i * (rs + cs)) (i * (rs + cs) + rs) rs
  let tau := st.2.setIfInBounds i g.1
  (if i + 1 < n then applyReflector (m - i) (n - i - 1) g.2 (i * (rs + cs)) rs (tau.getD i 0) g.2 (i * (rs + cs) + cs) rs cs
    else g.2, tau)

theorem computeS_eq (sqrt : K → K) (m n rs cs : Nat) (A tau0 : Array K) :
    computeS sqrt m n rs cs A tau0 = if min m n = 0 then (A, tau0) else
      (List.range (min m n)).foldl (computeStep sqrt m n rs cs) (A, resizeZ tau0 (min m n)) := rfl

/-- the state of `compute` after `i` steps (buffer, `tau`) -/
def stateAt (sqrt : K → K) (m n rs cs : Nat) (A tau0 : Array K) (i : Nat) : Array K × Array K :=
  (List.range i).foldl (computeStep sqrt m n rs cs) (A, resizeZ tau0 (min m n))

theorem stateAt_succ (sqrt : K → K) (m n rs cs : Nat) (A tau0 : Array K) (i : Nat) :
    stateAt sqrt m n rs cs A tau0 (i + 1) = computeStep sqrt m n rs cs (stateAt sqrt m n rs cs A tau0 i) i := by
  unfold stateAt
  rw [List.range_succ, List.foldl_append]; rfl

/-- `sqrt` returns an exact root of the number `gen_reflector` applies it to in step `i` on the buffer `B` (no demand when
`gen_reflector` returns before taking the root: last row, or the column is already zero below the diagonal) -/
def SqrtExactStep (sqrt : K → K) (m rs cs : Nat) (B : Array K) (i : Nat) : Prop :=
  ¬ GenTrivial (m - i) B (i * (rs + cs) + rs) rs →
    sqrt (sqrtArg (m - i) B (i * (rs + cs)) (i * (rs + cs) + rs) rs) * sqrt (sqrtArg (m - i) B (i * (rs + cs)) (i * (rs + cs) + rs) rs)
      = sqrtArg (m - i) B (i * (rs + cs)) (i * (rs + cs) + rs) rs

/-- the reflector vector of step `i` as stored in the buffer `F`: `(0,…,0,1,F(i+1,i),…)` -/
def wnat (F : Array K) (rs cs i : Nat) (r : Nat) : K :=
  if r < i then 0 else if r = i then 1 else F.getD (r * rs + i * cs) 0

theorem sum_range_shift (m i : Nat) (hi : i ≤ m) (F : Nat → K) (h0 : ∀ r, r < i → F r = 0) :
    ∑ r ∈ range m, F r = ∑ l ∈ range (m - i), F (i + l) := by
  rw [Finset.range_eq_Ico, ← Finset.sum_Ico_consecutive F (Nat.zero_le i) hi]
  rw [Finset.sum_eq_zero (fun r hr => h0 r (Finset.mem_Ico.mp hr).2), zero_add, Finset.sum_Ico_eq_sum_range]

theorem addr_ii (i rs cs : Nat) : i * (rs + cs) = i * rs + i * cs := Nat.mul_add _ _ _
theorem addr_x (i l rs cs : Nat) : i * (rs + cs) + rs + l * rs = (i + 1 + l) * rs + i * cs := by ring
theorem addr_c (i i' j rs cs : Nat) : i * (rs + cs) + cs + i' * cs + j * rs = (i + j) * rs + (i + 1 + i') * cs := by ring
theorem addr_v (i j rs cs : Nat) : i * (rs + cs) + j * rs = (i + j) * rs + i * cs := by ring

/-- what `gen_reflector` does in step `i` -/
theorem genStep_spec (sqrt : K → K) (m n rs cs : Nat) (B : Array K) (i : Nat)
    (L : Layout m n rs cs B.size) (him : i < m) (hin : i < n) :
    let g := genReflector sqrt (m - i) B (i * (rs + cs)) (i * (rs + cs) + rs) rs
    let beta := betaOf sqrt (m - i) B (i * (rs + cs)) (i * (rs + cs) + rs) rs
    g.2.size = B.size ∧
    (∀ l c, l < m → c < n → c ≠ i → g.2.getD (l * rs + c * cs) 0 = B.getD (l * rs + c * cs) 0) ∧
    (∀ l, l < i → g.2.getD (l * rs + i * cs) 0 = B.getD (l * rs + i * cs) 0) ∧
    (GenTrivial (m - i) B (i * (rs + cs) + rs) rs → g = (0, B)) ∧
    (¬ GenTrivial (m - i) B (i * (rs + cs) + rs) rs →
      g.1 = 1 - (1 / beta) * B.getD (i * rs + i * cs) 0 ∧ g.2.getD (i * rs + i * cs) 0 = beta ∧
      ∀ l, i < l → l < m → g.2.getD (l * rs + i * cs) 0
        = (1 / (B.getD (i * rs + i * cs) 0 - beta)) * B.getD (l * rs + i * cs) 0) := by
  intro g beta
  by_cases ht : GenTrivial (m - i) B (i * (rs + cs) + rs) rs
  · have hg : g = (0, B) := genReflector_trivial sqrt _ B _ _ _ ht
    rw [hg]
    exact ⟨rfl, fun _ _ _ _ _ => rfl, fun _ _ => rfl, fun _ => rfl, fun h => absurd ht h⟩
  · have hlt : ∀ l, l < m - i - 1 → i * (rs + cs) + rs + l * rs < B.size := by
      intro l hl; rw [addr_x]; exact L.lt _ _ (by omega) hin
    obtain ⟨h1, h2, h3, h4, h5⟩ := genReflector_spec sqrt (m - i) B (i * (rs + cs)) (i * (rs + cs) + rs) rs ht
      (by rw [addr_ii]; exact L.lt i i him hin) hlt
      (by
        intro l hl e
        rw [addr_x, addr_ii] at e
        have := (L.inj _ _ _ _ (by omega) hin him hin e).1
        omega)
      (by
        intro l l' hl hl' e
        rw [addr_x, addr_x] at e
        have := (L.inj _ _ _ _ (by omega) hin (by omega) hin e).1
        omega)
    refine ⟨h2, ?_, ?_, fun h => absurd h ht, fun _ => ⟨?_, ?_, ?_⟩⟩
    · intro l c hl hc hci
      apply h5
      · rw [addr_ii]; intro e
        exact hci (L.inj _ _ _ _ hl hc him hin e).2
      · intro l' hl' e
        rw [addr_x] at e
        exact hci (L.inj _ _ _ _ hl hc (by omega) hin e).2
    · intro l hl
      apply h5
      · rw [addr_ii]; intro e
        have := (L.inj _ _ _ _ (by omega) hin him hin e).1
        omega
      · intro l' hl' e
        rw [addr_x] at e
        have := (L.inj _ _ _ _ (by omega) hin (by omega) hin e).1
        omega
    · rw [← addr_ii]; exact h1
    · rw [← addr_ii]; exact h3
    · intro l hil hlm
      have := h4 (l - i - 1) (by omega)
      rw [addr_x, show i + 1 + (l - i - 1) = l by omega] at this
      rw [← addr_ii]; exact this

/-- the dot product of `apply_reflector` in step `i`, column `c` (reflector read from `V`, block in `C`):
`Σ_{r<m} w(r)·C(r,c)` -/
theorem colDot_step (m rs cs : Nat) (V C : Array K) (i c' : Nat) (him : i < m) :
    colDot (m - i) V (i * (rs + cs)) rs rs C (i * (rs + cs) + cs + c' * cs)
      = ∑ r ∈ range m, wnat V rs cs i r * C.getD (r * rs + (i + 1 + c') * cs) 0 := by
  rw [sum_range_shift m i (Nat.le_of_lt him) _ (fun r hr => by simp [wnat, hr])]
  unfold colDot
  refine Finset.sum_congr rfl (fun l _ => ?_)
  rw [show i * (rs + cs) + cs + c' * cs + l * rs = (i + l) * rs + (i + 1 + c') * cs by ring]
  congr 1
  unfold vv wnat
  by_cases hl : l = 0
  · subst hl; simp
  · rw [if_neg hl, if_neg (by omega), if_neg (by omega), addr_v]

theorem vv_step (rs cs : Nat) (A : Array K) (i j : Nat) : vv A (i * (rs + cs)) rs j = wnat A rs cs i (i + j) := by
  unfold vv wnat
  by_cases hl : j = 0
  · subst hl; simp
  · rw [if_neg hl, if_neg (by omega), if_neg (by omega), addr_v]

/-- step `i` of `compute`: frame, the update of the trailing columns, the reflector identities -/
theorem computeStep_spec (sqrt : K → K) (m n rs cs : Nat) (B T : Array K) (i : Nat)
    (L : Layout m n rs cs B.size) (him : i < m) (hin : i < n) (hT : i < T.size)
    (hsq : SqrtExactStep sqrt m rs cs B i) :
    let st' := computeStep sqrt m n rs cs (B, T) i
    let w := wnat st'.1 rs cs i
    let t := st'.2.getD i 0
    st'.1.size = B.size ∧ st'.2.size = T.size ∧ (∀ j, j ≠ i → st'.2.getD j 0 = T.getD j 0) ∧
    (∀ l c, l < m → c < i → st'.1.getD (l * rs + c * cs) 0 = B.getD (l * rs + c * cs) 0) ∧
    (∀ l, l < i → st'.1.getD (l * rs + i * cs) 0 = B.getD (l * rs + i * cs) 0) ∧
    (∀ l c, l < m → i < c → c < n → st'.1.getD (l * rs + c * cs) 0
        = B.getD (l * rs + c * cs) 0 - w l * (t * ∑ r ∈ range m, w r * B.getD (r * rs + c * cs) 0)) ∧
    (∀ l, l < m → B.getD (l * rs + i * cs) 0 - w l * (t * ∑ r ∈ range m, w r * B.getD (r * rs + i * cs) 0)
        = if l < i then B.getD (l * rs + i * cs) 0 else if l = i then st'.1.getD (i * rs + i * cs) 0 else 0) ∧
    t * (2 - t * ∑ r ∈ range m, w r * w r) = 0 := by
  intro st' w t
  obtain ⟨g1, g2, g3, g4, g5⟩ := genStep_spec sqrt m n rs cs B i L him hin
  set g := genReflector sqrt (m - i) B (i * (rs + cs)) (i * (rs + cs) + rs) rs with hg
  set beta := betaOf sqrt (m - i) B (i * (rs + cs)) (i * (rs + cs) + rs) rs with hbeta
  have hst2 : st'.2 = T.setIfInBounds i g.1 := rfl
  have ht : t = g.1 := by
    show (st'.2).getD i 0 = _
    rw [hst2, getD_setIfInBounds_self _ _ _ hT]
  have hst1 : st'.1 = if i + 1 < n then
      applyReflector (m - i) (n - i - 1) g.2 (i * (rs + cs)) rs t g.2 (i * (rs + cs) + cs) rs cs else g.2 := rfl
  -- the apply_reflector call
  have happ := applyReflector_spec (m - i) (n - i - 1) (by omega) g.2 (i * (rs + cs)) rs t g.2 (i * (rs + cs) + cs) rs cs
    (by
      intro i' j hi' hj
      rw [addr_c, g1]; exact L.lt _ _ (by omega) (by omega))
    (by
      intro i' j i'' j' hi' hj hi'' hj' e
      rw [addr_c, addr_c] at e
      have := L.inj _ _ _ _ (by omega) (by omega) (by omega) (by omega) e
      omega)
  obtain ⟨a1, a2, a3⟩ := happ
  -- column `≤ i` cells are not touched by apply_reflector
  have hkeep : ∀ l c, l < m → c ≤ i → st'.1.getD (l * rs + c * cs) 0 = g.2.getD (l * rs + c * cs) 0 := by
    intro l c hl hc
    rw [hst1]
    split
    · apply a3
      intro i' j hi' hj e
      rw [addr_c] at e
      have := (L.inj _ _ _ _ hl (by omega) (by omega) (by omega) e).2
      omega
    · rfl
  have hsize : st'.1.size = B.size := by
    rw [hst1]; split
    · rw [a1, g1]
    · exact g1
  have hw : ∀ r, r < m → w r = wnat g.2 rs cs i r := by
    intro r hr
    show wnat st'.1 rs cs i r = _
    unfold wnat
    rw [hkeep r i hr (Nat.le_refl i)]
  have hw0 : ∀ r, r < i → w r = 0 := fun r hr => by show wnat st'.1 rs cs i r = 0; simp [wnat, hr]
  have hwi : w i = 1 := by show wnat st'.1 rs cs i i = 1; simp [wnat]
  refine ⟨hsize, by rw [hst2, Array.size_setIfInBounds], ?_, ?_, ?_, ?_, ?_⟩
  · intro j hj
    rw [hst2, getD_setIfInBounds_ne _ _ _ (Ne.symm hj)]
  · intro l c hl hc
    rw [hkeep l c hl (by omega), g2 l c hl (by omega) (by omega)]
  · intro l hl
    rw [hkeep l i (by omega) (Nat.le_refl i), g3 l hl]
  · intro l c hl hic hcn
    have hn1 : i + 1 < n := by omega
    rw [hst1, if_pos hn1]
    by_cases hli : l < i
    · rw [hw0 l hli, zero_mul, sub_zero, ← g2 l c hl hcn (by omega)]
      apply a3
      intro i' j hi' hj e
      rw [addr_c] at e
      have := (L.inj _ _ _ _ hl hcn (by omega) (by omega) e).1
      omega
    · have e1 := a2 (c - i - 1) (l - i) (by omega) (by omega)
      rw [addr_c, show i + (l - i) = l by omega, show i + 1 + (c - i - 1) = c by omega] at e1
      rw [e1, g2 l c hl hcn (by omega), colDot_step m rs cs g.2 g.2 i (c - i - 1) him, vv_step,
        show i + (l - i) = l by omega, show i + 1 + (c - i - 1) = c by omega, hw l hl]
      congr 3
      refine Finset.sum_congr rfl (fun r hr => ?_)
      have hr' := Finset.mem_range.mp hr
      rw [hw r hr', g2 r c hr' hcn (by omega)]
  -- the reflector identities
  by_cases htr : GenTrivial (m - i) B (i * (rs + cs) + rs) rs
  · have hg0 : g = (0, B) := g4 htr
    have ht0 : t = 0 := by rw [ht, hg0]
    refine ⟨?_, by rw [ht0, zero_mul]⟩
    intro l hl
    rw [ht0, zero_mul, mul_zero, sub_zero]
    by_cases h1 : l < i
    · rw [if_pos h1]
    · rw [if_neg h1]
      by_cases h2 : l = i
      · rw [if_pos h2, h2, hkeep i i him (Nat.le_refl i), hg0]
      · rw [if_neg h2]
        rcases htr with h | h
        · omega
        · rw [xnorm2_eq] at h
          have := sq_sum_eq_zero _ _ h (l - i - 1) (Finset.mem_range.mpr (by omega))
          rw [addr_x, show i + 1 + (l - i - 1) = l by omega] at this
          exact this
  · obtain ⟨n1, n2, n3⟩ := g5 htr
    have hS : xnorm2 B (i * (rs + cs) + rs) rs (m - i - 1)
        = ∑ l ∈ range (m - i - 1), B.getD ((i + 1 + l) * rs + i * cs) 0 * B.getD ((i + 1 + l) * rs + i * cs) 0 := by
      rw [xnorm2_eq]
      exact Finset.sum_congr rfl (fun l _ => by rw [addr_x])
    set S := xnorm2 B (i * (rs + cs) + rs) rs (m - i - 1) with hSdef
    set alpha := B.getD (i * rs + i * cs) 0 with halpha
    have hS0 : 0 ≤ S := by rw [hS]; exact Finset.sum_nonneg (fun l _ => mul_self_nonneg _)
    have hSne : S ≠ 0 := fun h => htr (Or.inr h)
    have hb : beta * beta = alpha * alpha + S := by
      have := hsq htr
      rw [hbeta, betaOf_mul_self, this]
      unfold sqrtArg
      rw [sqrQ_absQ, halpha, hSdef, addr_ii]
    have hb0 : beta ≠ 0 := larfg_beta_ne hb hSne hS0
    have hab : alpha - beta ≠ 0 := larfg_alpha_ne hb hSne
    have hwl : ∀ l, l < m - i - 1 → w (i + 1 + l) = (1 / (alpha - beta)) * B.getD ((i + 1 + l) * rs + i * cs) 0 := by
      intro l hl
      rw [hw _ (by omega)]
      unfold wnat
      rw [if_neg (by omega), if_neg (by omega), n3 _ (by omega) (by omega)]
    have hww : ∑ r ∈ range m, w r * w r = 1 + (1 / (alpha - beta)) * (1 / (alpha - beta)) * S := by
      rw [sum_range_split m i him _ (fun r hr => by rw [hw0 r hr, zero_mul]), hwi, one_mul, hS, Finset.mul_sum]
      congr 1
      refine Finset.sum_congr rfl (fun l hl => ?_)
      rw [hwl l (Finset.mem_range.mp hl)]; ring
    have hwx : ∑ r ∈ range m, w r * B.getD (r * rs + i * cs) 0 = alpha + (1 / (alpha - beta)) * S := by
      rw [sum_range_split m i him _ (fun r hr => by rw [hw0 r hr, zero_mul]), hwi, one_mul, hS, Finset.mul_sum]
      congr 1
      refine Finset.sum_congr rfl (fun l hl => ?_)
      rw [hwl l (Finset.mem_range.mp hl)]; ring
    have ht' : t = 1 - 1 / beta * alpha := by rw [ht, n1]
    refine ⟨?_, ?_⟩
    · intro l hl
      rw [hwx, ht', larfg_tau_dot hb hSne hb0]
      by_cases h1 : l < i
      · rw [if_pos h1, hw0 l h1, zero_mul, sub_zero]
      · rw [if_neg h1]
        by_cases h2 : l = i
        · rw [if_pos h2, h2, hwi, hkeep i i him (Nat.le_refl i), n2]; ring
        · rw [if_neg h2]
          have := hwl (l - i - 1) (by omega)
          rw [show i + 1 + (l - i - 1) = l by omega] at this
          rw [this]
          field_simp
          ring
    · rw [hww, ht', larfg_tau_norm hb hSne hb0]; ring

end
end QRModel
end Amgcl
