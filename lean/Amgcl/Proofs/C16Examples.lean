import Amgcl.Proofs.InverseMatrix
import Amgcl.Proofs.SkylineMatrix
import Amgcl.Proofs.SkylineCrout
import Amgcl.Proofs.SkylineEmbed
import Amgcl.Proofs.DenseCheck
import Mathlib.Algebra.Order.Field.Rat
import Mathlib.LinearAlgebra.Matrix.Determinant.Basic
import Mathlib.Tactic.NormNum
import Mathlib.Tactic.FinCases
import Mathlib.Tactic.IntervalCases
/-!
Concrete data over `ℚ` for the non-vacuity examples of `Properties/C16.lean`: the matrix `[[3,1],[1,2]]`, its raw
skyline storage `exRaw` (= what the constructor writes for the identity ordering), the factorised storage `exFac`,
and the singular storage `exSing` of `[[1,1],[1,1]]`.
-/
namespace Amgcl.C16Ex
open Amgcl Amgcl.Skyline

abbrev exA : CRS ℚ := ⟨2, #[[(1, 1), (0, 3)], [(0, 1), (1, 2)]]⟩
abbrev exRaw : Skyline ℚ ℚ := ⟨2, #[0, 1], #[0, 0, 1], #[1], #[1], #[3, 2], #[0, 0]⟩
abbrev exFac : Skyline ℚ ℚ := ⟨2, #[0, 1], #[0, 0, 1], #[1], #[1/3], #[1/3, 3/5], #[0, 0]⟩
abbrev exSing : Skyline ℚ ℚ := ⟨2, #[0, 1], #[0, 0, 1], #[1], #[1], #[1, 1], #[0, 0]⟩
/-- the dense matrix denoted by `exA` -/
def exDense (i j : Nat) : ℚ := if i = 0 then (if j = 0 then 3 else 1) else (if j = 0 then 1 else 2)

theorem exRaw_storage : exRaw.StorageWF := by
  refine ⟨?_, rfl, rfl, rfl⟩
  intro i hi
  have : i < 2 := hi
  interval_cases i <;> simp [Skyline.P]

theorem exFac_wf : exFac.WFProfile := by
  intro i hi
  have : i < 2 := hi
  interval_cases i <;> simp [Skyline.P]

theorem ex_perm : PermOn 2 #[0, 1] := isPermB_permOn 2 #[0, 1] (by decide)

theorem ex_build : build (R := ℚ) (fun v : ℚ => decide (v = 0)) exA #[0, 1] = exRaw := by
  simp [build, invPerm, profileLens, prefixPtr, fillLUD, CRS.row, CRS.nrows, List.range, List.range.loop,
    List.range'_succ, Array.replicate_succ, Array.setIfInBounds, Array.getD]

theorem ex_factorize : factorize (fun v : ℚ => decide (v = 0)) (fun v => 1 / v) exRaw = .ok exFac := by
  simp [factorize, factorLoop, factorStep, factorStepLU, factorColU, factorRowL, pivotSum, dotSub, Skyline.P,
    List.range, List.range.loop]
  norm_num

theorem ex_emb : ∀ i j, i < 2 → j < 2 → exDense ((#[0, 1] : Array Nat).getD i 0) ((#[0, 1] : Array Nat).getD j 0) = Emb exRaw i j := by
  intro i j hi hj
  interval_cases i <;> interval_cases j <;> simp [exDense, Emb, Ld, Ud, Dd, Skyline.P]

theorem exA_nodup : ∀ i, ((exA.row i).map (·.1)).Nodup := by
  intro i
  rcases Nat.lt_or_ge i 2 with h | h
  · interval_cases i <;> simp [CRS.row]
  · have : exA.row i = [] := by
      unfold CRS.row; simp [Array.getD]; omega
    rw [this]; simp

theorem exA_wf : exA.WF := by decide

theorem exFac_D : ∀ i, i < exFac.n → Dd exFac i ≠ 0 := by
  intro i hi
  have : i < 2 := hi
  interval_cases i <;> simp [Dd]

theorem exFac_identity : (!![3, 1; 1, 2] : Matrix (Fin 2) (Fin 2) ℚ).submatrix (ex_perm : PermOn exFac.n exFac.perm).equiv
    (ex_perm : PermOn exFac.n exFac.perm).equiv = Lmat exFac * Umat exFac := by
  ext i j
  have hi : ∀ a : Fin exFac.n, (ex_perm : PermOn exFac.n exFac.perm).equiv a = a := by
    intro a; apply Fin.ext; rw [PermOn.equiv_apply]
    have : a.val < 2 := a.isLt
    interval_cases h : a.val <;> simp
  rw [Matrix.submatrix_apply, hi, hi, Matrix.mul_apply]
  fin_cases i <;> fin_cases j <;>
    simp [Lmat, Umat, Lt, Ut, Ld, Ud, Dd, Skyline.P, Fin.sum_univ_two] <;> norm_num

theorem exSing_pivot : (fun v : ℚ => decide (v = 0)) (pivotSum (factorStepLU
    { exSing with D := exSing.D.setIfInBounds 0 ((fun v : ℚ => 1 / v) (exSing.D.getD 0 0)) } 0) 0) = true := by
  simp [factorStepLU, factorColU, factorRowL, pivotSum, dotSub, Skyline.P, List.range, List.range.loop]

theorem ex_det : (matOf 2 (#[0, 1, 2, 3] : Array ℚ)).det ≠ 0 := by
  rw [Matrix.det_fin_two]; norm_num [matOf, get2]

theorem ex_qr : Dense.qrExact (⟨2, 2, #[0, 2, 1, 3]⟩ : Dense ℚ) ⟨2, 2, #[0, 1, 1, 0]⟩ ⟨2, 2, #[1, 3, 0, 2]⟩ = true := by
  simp [Dense.qrExact, Dense.shapesOk, Dense.WF, Dense.prodEq, Dense.orthoEq, Dense.upperTri, Dense.allIdx, Dense.mulGet,
    Dense.gramGet, Dense.get, List.range, List.range.loop]

end Amgcl.C16Ex
