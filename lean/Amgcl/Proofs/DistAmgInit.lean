import Amgcl.Proofs.DistAmgIndep
import Amgcl.Proofs.DistSort
import Amgcl.Proofs.DistProductWF
/-!
The output of the hierarchy constructor `DistAmg.dinit` (`mpi::amg::init` without repartitioning) satisfies the
hypotheses `DHierOK` / `DHierFull` of the cycle theorems (C12b), for every coarsening policy that returns well-formed
blocks whose partitions chain (`PolicyOK`).
-/
namespace Amgcl.DistAmg
open Amgcl Amgcl.Dist Amgcl.Lockstep

section
variable {K S : Type} [CommRing K] [DecidableEq K]

/-- `mpi::sort_rows` keeps a distributed matrix well formed -/
theorem distOK_sortRows (Ds : List (DistMat K)) (rp cp : List Nat) (h : DistOK Ds rp cp) :
    DistOK (distSortRows Ds) rp cp := by
  obtain ⟨⟨len, lenc, locRows, remRows, locCols, remCols, locLt, remOut⟩, remLt⟩ := h
  have hg : ∀ r, r < rp.length → (distSortRows Ds).getD r default
      = { loc := sortRows (Ds.getD r default).loc, rem := sortRows (Ds.getD r default).rem } :=
    fun r hr => distSortRows_getD Ds r (by rw [len]; exact hr)
  refine ⟨⟨by unfold distSortRows; rw [List.length_map, len], lenc, ?_, ?_, ?_, ?_, ?_, ?_⟩, ?_⟩
  · intro r hr; rw [hg r hr]; show (sortRows _).nrows = _; rw [Amg.sortRows_nrows]; exact locRows r hr
  · intro r hr; rw [hg r hr]; show (sortRows _).nrows = _; rw [Amg.sortRows_nrows]; exact remRows r hr
  · intro r hr; rw [hg r hr]; exact locCols r hr
  · intro r hr; rw [hg r hr]; exact remCols r hr
  · intro r hr i cv hcv
    rw [hg r hr] at hcv
    simp only [K2.sortRows_row] at hcv
    exact locLt r hr i cv ((sortRow_perm _).mem_iff.1 hcv)
  · intro r hr i cv hcv
    rw [hg r hr] at hcv
    simp only [K2.sortRows_row] at hcv
    exact remOut r hr i cv ((sortRow_perm _).mem_iff.1 hcv)
  · intro r hr i cv hcv
    rw [hg r hr] at hcv
    simp only [K2.sortRows_row] at hcv
    exact remLt r hr i cv ((sortRow_perm _).mem_iff.1 hcv)

/-- what is assumed of the coarsening policy.  `Good lvl As p` describes the level inputs the policy is meant for (e.g.
`True` for a coarsening that works on every matrix; `p = parts[lvl]` for a policy handing out GIVEN transfer operators);
it must hold for the sorted finest matrix and be propagated by the coarse operator.  On such an input with more than
`ce = coarse_enough` rows (the only ones `init` coarsens) the policy
returns well-formed `P` (rows by the level's partition, columns by the new partition `np`), `R` (the other way round),
a non-empty coarse level, and a well-formed coarse operator partitioned by `np`. -/
structure PolicyOK (pol : DPolicy K) (Good : Nat → List (DistMat K) → List Nat → Prop) (ce : Nat) : Prop where
  transfer : ∀ lvl As p P R np, Good lvl As p → ce < p.sum → DistOK As p p → pol.transfer lvl As p = (P, R, np) →
    DistOK P p np ∧ DistOK R np p ∧ np.sum ≠ 0
  coarse : ∀ lvl As p P R np, Good lvl As p → ce < p.sum → DistOK As p p → pol.transfer lvl As p = (P, R, np) →
    DistOK (pol.coarseOp As (distSortRows P) (distSortRows R) p np) np np ∧
    Good (lvl + 1) (distSortRows (pol.coarseOp As (distSortRows P) (distSortRows R) p np)) np

/-- the levels built so far are well formed provided the NEXT level is partitioned by `np` -/
def DHierOKTo (dsm : DSmoother K S) (direct : CRS K → Vec K → Vec K) : List (DLevel K S) → List Nat → Prop
  | [], _ => True
  | d :: ds, np => DLevelOK dsm direct d (match ds with | [] => np | nxt :: _ => nxt.part) ∧ DHierOKTo dsm direct ds np

/-- inner levels: `A`, `relax`, `P`, `R` are all there -/
def AllInner (l : List (DLevel K S)) : Prop :=
  ∀ lv ∈ l, lv.A.isSome ∧ lv.relax.isSome ∧ lv.P.isSome ∧ lv.R.isSome

theorem dHierOKTo_snoc (dsm : DSmoother K S) (direct : CRS K → Vec K → Vec K) (lv : DLevel K S) (np : List Nat) :
    ∀ ls : List (DLevel K S), DHierOKTo dsm direct ls lv.part → DLevelOK dsm direct lv np →
      DHierOKTo dsm direct (ls ++ [lv]) np
  | [], _, h => ⟨h, trivial⟩
  | [d], h1, h => ⟨h1.1, h, trivial⟩
  | d :: nxt :: ds, h1, h => ⟨h1.1, dHierOKTo_snoc dsm direct lv np (nxt :: ds) h1.2 h⟩

/-- a level without `P`, `R` is well formed whatever the next partition is -/
theorem dLevelOK_noPR (dsm : DSmoother K S) (direct : CRS K → Vec K → Vec K) (lv : DLevel K S) (np np' : List Nat)
    (h : DLevelOK dsm direct lv np) (hP : lv.P = none) (hR : lv.R = none) : DLevelOK dsm direct lv np' :=
  ⟨h.A, fun dP e => (by rw [hP] at e; cases e), fun dR e => (by rw [hR] at e; cases e), h.solve, h.relax⟩

theorem dHierOK_of_to (dsm : DSmoother K S) (direct : CRS K → Vec K → Vec K) (lv : DLevel K S) (np : List Nat)
    (hP : lv.P = none) (hR : lv.R = none) :
    ∀ ls : List (DLevel K S), DHierOKTo dsm direct (ls ++ [lv]) np → DHierOK dsm direct (ls ++ [lv])
  | [], h => ⟨dLevelOK_noPR dsm direct lv _ _ h.1 hP hR, trivial⟩
  | [d], h => ⟨h.1, dHierOK_of_to dsm direct lv np hP hR [] h.2⟩
  | d :: nxt :: ds, h => ⟨h.1, dHierOK_of_to dsm direct lv np hP hR (nxt :: ds) h.2⟩

theorem dHierFull_snoc (lv : DLevel K S)
    (hl : lv.solve.isSome ∨ (lv.solve = none ∧ lv.A.isSome ∧ lv.relax.isSome)) :
    ∀ ls : List (DLevel K S), AllInner ls → DHierFull (ls ++ [lv])
  | [], _ => hl
  | [d], h => by
    obtain ⟨a, b, c, e⟩ := h d (by simp)
    exact ⟨a, b, c, e, hl⟩
  | d :: nxt :: ds, h => by
    obtain ⟨a, b, c, e⟩ := h d (by simp)
    exact ⟨a, b, c, e, dHierFull_snoc lv hl (nxt :: ds) (fun x hx => h x (by simp [List.mem_cons] at hx ⊢; tauto))⟩

/-- the level constructor `level(a, prm, bprm, direct)` -/
theorem dmkLevel_ok (dsm : DSmoother K S) (directOk : CRS K → Bool) (direct : CRS K → Vec K → Vec K)
    (hdir : ∀ M f, (direct M f).size = f.size) (dflag : Bool) (A : List (DistMat K)) (part : List Nat)
    (hA : DistOK A part part) (lv : DLevel K S) (As : List (DistMat K))
    (h : dmkLevel dsm directOk dflag A part = .ok (lv, As)) :
    As = distSortRows A ∧ DistOK As part part ∧ lv.part = part ∧ lv.P = none ∧ lv.R = none ∧
    (∀ np, DLevelOK dsm direct lv np) ∧
    (lv.solve.isSome ∨ (lv.solve = none ∧ lv.A.isSome ∧ lv.relax.isSome)) ∧
    (dflag = false → lv.A = some As ∧ lv.relax.isSome) := by
  have hs := distOK_sortRows A part part hA
  unfold dmkLevel at h
  simp only at h
  cases dflag with
  | true =>
    simp only [if_true] at h
    split at h
    · simp only [Except.ok.injEq, Prod.mk.injEq] at h
      obtain ⟨h1, h2⟩ := h
      subst h1 h2
      refine ⟨rfl, hs, rfl, rfl, rfl, fun np => ?_, Or.inl rfl, fun e => by cases e⟩
      exact ⟨fun dA e => (by cases e), fun dP e => (by cases e), fun dR e => (by cases e),
        fun st e => (by
          cases e
          exact ⟨_, hs, rfl, fun f hf => by rw [hdir, hf]⟩),
        fun ss e => (by cases e)⟩
    · cases h
  | false =>
    simp only [Bool.false_eq_true, if_false] at h
    split at h
    · next s hset =>
      simp only [Except.ok.injEq, Prod.mk.injEq] at h
      obtain ⟨h1, h2⟩ := h
      subst h1 h2
      refine ⟨rfl, hs, rfl, rfl, rfl, fun np => ?_, Or.inr ⟨rfl, rfl, rfl⟩, fun _ => ⟨rfl, rfl⟩⟩
      exact ⟨fun dA e => (by cases e; exact hs), fun dP e => (by cases e), fun dR e => (by cases e),
        fun st e => (by cases e),
        fun ss e => (by cases e; exact ⟨_, rfl, hset⟩)⟩
    · cases h
    · cases h

/-- what the `while` loop of `mpi::amg::init` leaves behind -/
def LoopPost (prm : Amg.Params) (dsm : DSmoother K S) (direct : CRS K → Vec K → Vec K)
    (res : List (DLevel K S) × Option (List (DistMat K) × List Nat)) : Prop :=
  match res with
  | (_, none) => False
  | (lvls, some (Ac, pc)) => DistOK Ac pc pc ∧
      ((pc.sum ≤ prm.coarse_enough ∧ DHierOKTo dsm direct lvls pc ∧ AllInner lvls) ∨
       (prm.coarse_enough < pc.sum ∧ DHierOK dsm direct lvls ∧ DHierFull lvls))

theorem dinitLoop_ok (prm : Amg.Params) (pol : DPolicy K) (dsm : DSmoother K S) (directOk : CRS K → Bool)
    (direct : CRS K → Vec K → Vec K) (Good : Nat → List (DistMat K) → List Nat → Prop) (hpol : PolicyOK pol Good prm.coarse_enough)
    (hdir : ∀ M f, (direct M f).size = f.size) :
    ∀ (fuel : Nat) (levels : List (DLevel K S)) (A : List (DistMat K)) (part : List Nat)
      (res : List (DLevel K S) × Option (List (DistMat K) × List Nat)),
      DistOK A part part → Good levels.length (distSortRows A) part → DHierOKTo dsm direct levels part →
      AllInner levels →
      dinitLoop prm pol dsm directOk fuel levels A part = .ok res → LoopPost prm dsm direct res := by
  intro fuel
  induction fuel with
  | zero => intro levels A part res _ _ _ _ h; simp [dinitLoop] at h
  | succ n ih =>
    intro levels A part res hA hG hL hI h
    unfold dinitLoop at h
    by_cases hce : part.sum > prm.coarse_enough
    · simp only [hce, if_true] at h
      cases hmk : dmkLevel dsm directOk false A part with
      | error e => rw [hmk] at h; cases h
      | ok lvAs =>
        obtain ⟨lv, As⟩ := lvAs
        rw [hmk] at h
        obtain ⟨hAse, hAs, hpart, hP, hR, hOK, hlast, hin⟩ := dmkLevel_ok dsm directOk direct hdir false A part hA lv As hmk
        rw [← hAse] at hG
        obtain ⟨hlvA, hlvR⟩ := hin rfl
        by_cases hmax : levels.length + 1 ≥ prm.max_levels
        · simp only [hmax, if_true, Except.ok.injEq] at h
          subst h
          have hto : DHierOKTo dsm direct (levels ++ [lv]) part :=
            dHierOKTo_snoc dsm direct lv part levels (by rw [hpart]; exact hL) (hOK part)
          exact ⟨hAs, Or.inr ⟨hce, dHierOK_of_to dsm direct lv part hP hR levels hto,
            dHierFull_snoc lv hlast levels hI⟩⟩
        · rcases htr : pol.transfer levels.length As part with ⟨P, R, np⟩
          simp only [hmax, if_false, htr] at h
          obtain ⟨hPok, hRok, hne⟩ := hpol.transfer _ As part P R np hG hce hAs htr
          obtain ⟨hCok, hCg⟩ := hpol.coarse _ As part P R np hG hce hAs htr
          simp only [hne, if_false] at h
          have hPs := distOK_sortRows P part np hPok
          have hRs := distOK_sortRows R np part hRok
          have hlv' : DLevelOK dsm direct { lv with P := some (distSortRows P), R := some (distSortRows R) } np := by
            have h0 := hOK np
            exact ⟨h0.A, fun dP e => (by cases e; rw [hpart]; exact hPs), fun dR e => (by cases e; rw [hpart]; exact hRs),
              h0.solve, h0.relax⟩
          refine ih _ _ np res hCok (by rw [List.length_append]; exact hCg) ?_ ?_ h
          · exact dHierOKTo_snoc dsm direct _ np levels (by show DHierOKTo dsm direct levels lv.part; rw [hpart]; exact hL) hlv'
          · intro x hx
            rcases List.mem_append.1 hx with hx | hx
            · exact hI x hx
            · rw [List.mem_singleton] at hx
              subst hx
              exact ⟨by show lv.A.isSome = true; rw [hlvA]; rfl, hlvR, rfl, rfl⟩
    · simp only [hce, if_false, Except.ok.injEq] at h
      subst h
      exact ⟨hA, Or.inl ⟨Nat.le_of_not_gt hce, hL, hI⟩⟩

/-- **the output of `DistAmg.dinit` satisfies the hypotheses of the cycle theorems**: for every well-formed input
matrix (rows and columns partitioned alike, empty ranks allowed), every coarsening policy that returns well-formed
operators whose partitions chain, and every serial coarse solver that returns vectors of the size of its right-hand
side, a hierarchy built by the model constructor is `DHierOK` and `DHierFull` — so `dist_amg_cycle_eq_gathered`,
`dist_apply_scratch_indep`, `mpi_amg_setup` apply to it without further assumptions. -/
theorem dinit_ok (prm : Amg.Params) (pol : DPolicy K) (dsm : DSmoother K S) (directOk : CRS K → Bool)
    (direct : CRS K → Vec K → Vec K) (Good : Nat → List (DistMat K) → List Nat → Prop) (hpol : PolicyOK pol Good prm.coarse_enough)
    (hdir : ∀ M f, (direct M f).size = f.size)
    (A : List (DistMat K)) (part : List Nat) (hA : DistOK A part part) (hG : Good 0 (distSortRows A) part)
    (dls : List (DLevel K S))
    (h : dinit prm pol dsm directOk A part = .ok dls) : DHierOK dsm direct dls ∧ DHierFull dls := by
  unfold dinit at h
  cases hl : dinitLoop prm pol dsm directOk (part.sum + 2) [] A part with
  | error e => rw [hl] at h; cases h
  | ok res =>
    rw [hl] at h
    have hpost := dinitLoop_ok prm pol dsm directOk direct Good hpol hdir _ [] A part res hA hG trivial
      (fun x hx => by cases hx) hl
    obtain ⟨lvls, oc⟩ := res
    cases oc with
    | none => exact hpost.elim
    | some Acpc =>
      obtain ⟨Ac, pc⟩ := Acpc
      obtain ⟨hAc, hcase⟩ := hpost
      simp only at h
      by_cases hce : pc.sum > prm.coarse_enough
      · simp only [hce, if_true, Except.ok.injEq] at h
        subst h
        rcases hcase with ⟨hle, _, _⟩ | ⟨_, h1, h2⟩
        · omega
        · exact ⟨h1, h2⟩
      · simp only [hce, if_false] at h
        rcases hcase with ⟨_, hto, hin⟩ | ⟨hlt, _, _⟩
        · cases hmk : dmkLevel dsm directOk prm.direct_coarse Ac pc with
          | error e => rw [hmk] at h; cases h
          | ok lvAs =>
            obtain ⟨lv, As⟩ := lvAs
            rw [hmk] at h
            simp only [Except.ok.injEq] at h
            subst h
            obtain ⟨_, _, hpart, hP, hR, hOK, hlast, _⟩ :=
              dmkLevel_ok dsm directOk direct hdir prm.direct_coarse Ac pc hAc lv As hmk
            have hto' : DHierOKTo dsm direct (lvls ++ [lv]) pc :=
              dHierOKTo_snoc dsm direct lv pc lvls (by rw [hpart]; exact hto) (hOK pc)
            exact ⟨dHierOK_of_to dsm direct lv pc hP hR lvls hto', dHierFull_snoc lv hlast lvls hin⟩
        · omega

/-! ### the Galerkin operator and the policy of given transfer operators -/

/-- `coarsening::detail::galerkin(A, P, R) = R·(A·P)` through `mpi::product` is well formed -/
theorem distOK_galerkin (As P R : List (DistMat K)) (p np : List Nat) (hA : DistOK As p p) (hP : DistOK P p np)
    (hR : DistOK R np p) : DistOK (dgalerkin As P R p np) np np :=
  distOK_product R _ np p np hR (distOK_product As P p p np hA hP)

/-- the policy that hands out the given operators `trs[l] = (P_l, R_l)` distributed by `parts[l]`, `parts[l+1]` is
`PolicyOK` whenever the shapes chain, no given coarse level is empty, and every level that `init` still coarsens
(more than `ce` rows) has its operators -/
theorem givenPolicy_ok (trs : List (CRS K × CRS K)) (parts : List (List Nat)) (ce : Nat)
    (hshape : ∀ l P R, trs[l]? = some (P, R) →
      PartOK P (parts.getD l []) (parts.getD (l + 1) []) ∧ PartOK R (parts.getD (l + 1) []) (parts.getD l []) ∧
      (parts.getD (l + 1) []).sum ≠ 0)
    (hlast : ∀ l, ce < (parts.getD l []).sum → l < trs.length) :
    PolicyOK (givenPolicy trs parts) (fun l _ p => p = parts.getD l []) ce := by
  have key : ∀ lvl As p P R np, p = parts.getD lvl [] → ce < p.sum →
      (givenPolicy trs parts).transfer lvl As p = (P, R, np) →
      DistOK P p np ∧ DistOK R np p ∧ np.sum ≠ 0 ∧ np = parts.getD (lvl + 1) [] := by
    intro lvl As p P R np hp hce htr
    have hl : lvl < trs.length := hlast lvl (by rw [← hp]; exact hce)
    have hget : trs[lvl]? = some trs[lvl] := List.getElem?_eq_getElem hl
    rcases hpr : trs[lvl] with ⟨Pm, Rm⟩
    rw [hpr] at hget
    obtain ⟨s1, s2, s3⟩ := hshape lvl Pm Rm hget
    simp only [givenPolicy, hget, Prod.mk.injEq] at htr
    obtain ⟨e1, e2, e3⟩ := htr
    subst e1 e2 e3 hp
    exact ⟨distOK_split _ _ _ s1, distOK_split _ _ _ s2, s3, rfl⟩
  refine ⟨fun lvl As p P R np hG hce _ htr => ?_, fun lvl As p P R np hG hce hAs htr => ?_⟩
  · obtain ⟨a, b, c, _⟩ := key lvl As p P R np hG hce htr
    exact ⟨a, b, c⟩
  · obtain ⟨a, b, _, d⟩ := key lvl As p P R np hG hce htr
    exact ⟨distOK_galerkin As _ _ p np hAs (distOK_sortRows _ _ _ a) (distOK_sortRows _ _ _ b), d⟩

end
end Amgcl.DistAmg
