import Amgcl.Proofs.RelaxIlukTrace
/-!
# ILU(k) as written: the invariant of one row

With `a_j` the denoted row of `A`, `R_j` the discarded contributions of the row so far and `u_cj` the finished rows
of `U`, after the pivots `0 .. c-1` the working row satisfies

    w_j = a_j − R_j − Σ_{c' < c} w_c' u_c'j            (j ≥ c)
    w_j = (a_j − R_j − Σ_{c' < c} w_c' u_c'j) · D_j    (j < c: the multipliers)

(`RowInv`), for every column `j`, slot or no slot (`w_j = 0` without a slot).  `ilukRowT_inv` establishes it for the
finished row, `rowGet_ilukLrow` / `uval_ilukUrow` read the stored rows off the working row.
-/
set_option linter.unusedSectionVars false
namespace Amgcl
namespace Relax
open Finset

section rowinv
variable {K : Type} [Field K]

/-- `a_j − R_j − Σ_{c' < c} w_c' u_c'j` -/
def rowE (U : Array (IlukURow K)) (r : Row K) (s : IlukRow K × Row K) (c j : Nat) : K :=
  rowGet r j - rowGet s.2 j - ∑ c' ∈ range c, wval s.1 c' * uval U c' j

structure RowInv (U : Array (IlukURow K)) (D : Vec K) (r : Row K) (n c : Nat) (s : IlukRow K × Row K) : Prop where
  size : s.1.size = n
  hi : ∀ j, c ≤ j → wval s.1 j = rowE U r s c j
  lo : ∀ j, j < c → wval s.1 j = rowE U r s c j * D.getD j 0

/-- the scatter of the row of `A` as a sequence of `add`s -/
theorem ilukRowT_init_eq (lfil n : Nat) (r : Row K) :
    r.foldl (fun s cv => ilukAddT lfil s cv.1 cv.2 0) ((Array.replicate n none : IlukRow K), ([] : Row K))
      = ilukAddsT lfil (Array.replicate n none, []) (r.map (fun cv => (cv.1, cv.2, 0))) := by
  simp only [ilukAddsT, List.foldl_map]

theorem wval_replicate (n j : Nat) : wval (Array.replicate n none : IlukRow K) j = 0 := by
  unfold wval
  have : (Array.replicate n (none : Option (K × Nat))).getD j none = none := by
    unfold Array.getD; split <;> simp
  rw [this]

/-- after the scatter: `w_j = a_j`, nothing discarded, all levels `0` -/
theorem ilukRowT_init (lfil n : Nat) (U : Array (IlukURow K)) (D : Vec K) (r : Row K) (hr : ∀ cv ∈ r, cv.1 < n) :
    let s0 := ilukAddsT lfil ((Array.replicate n none : IlukRow K), ([] : Row K)) (r.map (fun cv => (cv.1, cv.2, 0)))
    RowInv U D r n 0 s0 ∧ s0.2 = [] ∧ LevLe s0.1 0 := by
  intro s0
  have hsz : s0.1.size = n := by rw [ilukAddsT_size]; simp
  have hd : s0.2 = [] := by
    apply ilukAddsT_nodrop
    intro t ht
    obtain ⟨cv, _, rfl⟩ := List.mem_map.mp ht
    exact Nat.zero_le _
  refine ⟨⟨hsz, ?_, fun j hj => absurd hj (Nat.not_lt_zero j)⟩, hd, ?_⟩
  · intro j _
    have h := ilukAddsT_total lfil ((Array.replicate n none : IlukRow K), ([] : Row K))
      (r.map (fun cv => (cv.1, cv.2, 0)))
      (fun t ht => by
        obtain ⟨cv, hcv, rfl⟩ := List.mem_map.mp ht
        simpa using hr cv hcv) j
    rw [List.map_map] at h
    have hid : r.map ((fun t : Nat × K × Nat => (t.1, t.2.1)) ∘ fun cv : Nat × K => (cv.1, cv.2, 0)) = r := by
      conv_rhs => rw [← List.map_id r]
      apply List.map_congr_left
      intro cv _; rfl
    rw [hid, wval_replicate] at h
    unfold rowE
    rw [range_zero, sum_empty]
    simp only [rowGet_nil] at h
    linear_combination h
  · apply ilukAddsT_levLe
    · intro j e he
      have : (Array.replicate n (none : Option (K × Nat))).getD j none = none := by
        unfold Array.getD; split <;> simp
      rw [this] at he; cases he
    · intro t ht
      obtain ⟨cv, _, rfl⟩ := List.mem_map.mp ht
      exact Nat.le_refl _

/-- one pivot step keeps the invariant -/
theorem RowInv.step (lfil : Nat) (U : Array (IlukURow K)) (D : Vec K) (r : Row K) (n c : Nat)
    (s : IlukRow K × Row K) (inv : RowInv U D r n c s) (hc : c < n)
    (hU : ∀ c, ∀ e ∈ U.getD c [], c < e.1 ∧ e.1 < n) :
    RowInv U D r n (c + 1) (ilukPivotT lfil U D s c) := by
  obtain ⟨p1, p2, p3, p4, p5⟩ := ilukPivotT_spec lfil U D s c (by rw [inv.size]; exact hc)
    (fun e he => by rw [inv.size]; exact hU c e he)
  set s' := ilukPivotT lfil U D s c with hs'
  have hsum : ∀ j, ∑ c' ∈ range c, wval s'.1 c' * uval U c' j = ∑ c' ∈ range c, wval s.1 c' * uval U c' j := by
    intro j
    apply sum_congr rfl
    intro c' hc'
    rw [wval_of_getD_eq (p4 c' (mem_range.mp hc')).1]
  have hE : ∀ j, rowE U r s' (c + 1) j
      = rowGet r j - rowGet s'.2 j - ∑ c' ∈ range c, wval s.1 c' * uval U c' j - wval s'.1 c * uval U c j := by
    intro j
    unfold rowE
    rw [sum_range_succ, hsum j]; ring
  have huz : ∀ j, j ≤ c → uval U c j = 0 := by
    intro j hj
    apply uval_zero
    intro e he
    have := (hU c e he).1
    omega
  refine ⟨by rw [p1, inv.size], ?_, ?_⟩
  · intro j hj
    have hne : j ≠ c := by omega
    have h1 := p5 j hne
    have h2 := inv.hi j (by omega)
    unfold rowE at h2
    rw [hE j, p2]
    linear_combination h1 + h2
  · intro j hj
    rcases Nat.lt_or_eq_of_le (Nat.le_of_lt_succ hj) with hlt | heq
    · have h2 := inv.lo j hlt
      unfold rowE at h2
      rw [hE j, huz j (Nat.le_of_lt hlt), (p4 j hlt).2, wval_of_getD_eq (p4 j hlt).1, h2]
      ring
    · subst heq
      have h2 := inv.hi j (Nat.le_refl j)
      unfold rowE at h2
      rw [hE j, huz j (Nat.le_refl j), p3, p2, h2]
      ring

/-- the invariant of the pivot loop -/
theorem RowInv.fold (lfil : Nat) (U : Array (IlukURow K)) (D : Vec K) (r : Row K) (n : Nat)
    (hU : ∀ c, ∀ e ∈ U.getD c [], c < e.1 ∧ e.1 < n)
    (s0 : IlukRow K × Row K) (h0 : RowInv U D r n 0 s0) (c : Nat) (hc : c ≤ n) :
    RowInv U D r n c ((List.range c).foldl (ilukPivotT lfil U D) s0) := by
  induction c with
  | zero => exact h0
  | succ m ih =>
    rw [List.range_succ, List.foldl_append]
    exact RowInv.step lfil U D r n m _ (ih (by omega)) (by omega) hU

/-- levels and drop list along the pivot loop -/
theorem ilukPivotT_fold_lev (lfil : Nat) (U : Array (IlukURow K)) (D : Vec K)
    (hU : ∀ c, ∀ e ∈ U.getD c [], e.2.2 ≤ c) (s0 : IlukRow K × Row K) (h0 : LevLe s0.1 0) (c : Nat) :
    LevLe ((List.range c).foldl (ilukPivotT lfil U D) s0).1 c
    ∧ (c ≤ lfil → ((List.range c).foldl (ilukPivotT lfil U D) s0).2 = s0.2) := by
  induction c with
  | zero => exact ⟨h0, fun _ => rfl⟩
  | succ m ih =>
    rw [List.range_succ, List.foldl_append]
    obtain ⟨h1, h2⟩ := ilukPivotT_lev lfil U D ((List.range m).foldl (ilukPivotT lfil U D) s0) m ih.1 (hU m)
    exact ⟨h1, fun hle => by
      show (ilukPivotT lfil U D ((List.range m).foldl (ilukPivotT lfil U D) s0) m).2 = s0.2
      rw [h2 hle, ih.2 (by omega)]⟩

/-- **the finished working row of row `i`** -/
theorem ilukRowT_inv (lfil n : Nat) (S : IlukState K) (i : Nat) (r : Row K) (hr : ∀ cv ∈ r, cv.1 < n) (hi : i ≤ n)
    (hU : ∀ c, ∀ e ∈ S.U.getD c [], c < e.1 ∧ e.1 < n) :
    RowInv S.U S.D r n i (ilukRowT lfil n S i r) := by
  unfold ilukRowT
  simp only []
  rw [ilukRowT_init_eq]
  exact RowInv.fold lfil S.U S.D r n hU _ (ilukRowT_init lfil n S.U S.D r hr).1 i hi

theorem ilukRowT_lev (lfil n : Nat) (S : IlukState K) (i : Nat) (r : Row K) (hr : ∀ cv ∈ r, cv.1 < n)
    (hU : ∀ c, ∀ e ∈ S.U.getD c [], e.2.2 ≤ c) :
    LevLe (ilukRowT lfil n S i r).1 i ∧ (i ≤ lfil → (ilukRowT lfil n S i r).2 = []) := by
  unfold ilukRowT
  simp only []
  rw [ilukRowT_init_eq]
  obtain ⟨_, h2, h3⟩ := ilukRowT_init lfil n S.U S.D r hr
  obtain ⟨g1, g2⟩ := ilukPivotT_fold_lev lfil S.U S.D hU _ h3 i
  exact ⟨g1, fun hle => by rw [g2 hle]; exact h2⟩

end rowinv

/-! ### reading the stored rows off the working row -/
section read
variable {K : Type} [Field K]

theorem rowGet_filterMap_range (f : Nat → Option K) (m j : Nat) :
    rowGet ((List.range m).filterMap (fun c => (f c).map (fun v => (c, v)))) j
      = if j < m then (f j).getD 0 else 0 := by
  induction m with
  | zero => simp
  | succ m ih =>
    rw [List.range_succ, List.filterMap_append, rowGet_append, ih]
    have hlast : rowGet (List.filterMap (fun c => (f c).map (fun v => (c, v))) [m]) j
        = if j = m then (f j).getD 0 else 0 := by
      by_cases hj : j = m
      · subst hj
        cases hf : f j with
        | none => simp [hf]
        | some v => simp [hf, rowGet_cons]
      · cases hf : f m with
        | none => simp [hf, hj]
        | some v =>
          simp only [List.filterMap_cons, hf, Option.map_some, List.filterMap_nil, rowGet_cons, rowGet_nil]
          rw [if_neg (fun h => hj h.symm), if_neg hj]
    rw [hlast]
    by_cases h1 : j < m
    · rw [if_pos h1, if_neg (by omega), if_pos (by omega)]; ring
    · by_cases h2 : j = m
      · rw [if_neg h1, if_pos h2, if_pos (by omega)]; ring
      · rw [if_neg h1, if_neg h2, if_neg (by omega)]; ring

theorem rowGet_ilukLrow (i : Nat) (w : IlukRow K) (j : Nat) :
    rowGet (ilukLrow i w) j = if j < i then wval w j else 0 := by
  unfold ilukLrow
  have : (fun c => (w.getD c none).map (fun e => (c, e.1)))
      = (fun c => ((w.getD c none).map (fun e => e.1)).map (fun v => (c, v))) := by
    funext c; cases w.getD c none <;> rfl
  rw [this, rowGet_filterMap_range]
  by_cases hj : j < i
  · rw [if_pos hj, if_pos hj]; unfold wval; cases w.getD j none <;> rfl
  · rw [if_neg hj, if_neg hj]

theorem mem_ilukLrow (i : Nat) (w : IlukRow K) (cv : Nat × K) (h : cv ∈ ilukLrow i w) : cv.1 < i := by
  unfold ilukLrow at h
  obtain ⟨c, hc, he⟩ := List.mem_filterMap.mp h
  cases hw : w.getD c none with
  | none => rw [hw] at he; cases he
  | some e =>
    rw [hw] at he
    simp only [Option.map_some, Option.some.injEq] at he
    rw [← he]; exact List.mem_range.mp hc

theorem mem_ilukUrow (n i : Nat) (w : IlukRow K) (e : Nat × K × Nat) (h : e ∈ ilukUrow n i w) :
    i < e.1 ∧ e.1 < n ∧ w.getD e.1 none = some (e.2.1, e.2.2) := by
  unfold ilukUrow at h
  obtain ⟨c, hc, he⟩ := List.mem_filterMap.mp h
  by_cases hic : i < c
  · rw [if_pos hic] at he
    cases hw : w.getD c none with
    | none => rw [hw] at he; cases he
    | some e' =>
      rw [hw] at he
      simp only [Option.map_some, Option.some.injEq] at he
      rw [← he]
      exact ⟨hic, List.mem_range.mp hc, hw⟩
  · rw [if_neg hic] at he; cases he

/-- the denoted value of the stored `U` row -/
theorem rowGet_ilukUrow (n i : Nat) (w : IlukRow K) (hw : w.size = n) (j : Nat) :
    rowGet ((ilukUrow n i w).map (fun e => (e.1, e.2.1))) j = if i < j then wval w j else 0 := by
  unfold ilukUrow
  rw [List.map_filterMap]
  have : (fun c => (if i < c then (w.getD c none).map (fun e => (c, e.1, e.2)) else none).map
        (fun e : Nat × K × Nat => (e.1, e.2.1)))
      = (fun c => (if i < c then (w.getD c none).map (fun e => e.1) else none).map (fun v => (c, v))) := by
    funext c
    by_cases hc : i < c
    · rw [if_pos hc, if_pos hc]; cases w.getD c none <;> rfl
    · rw [if_neg hc, if_neg hc]; rfl
  rw [this, rowGet_filterMap_range]
  by_cases hj : j < n
  · rw [if_pos hj]
    by_cases hij : i < j
    · rw [if_pos hij, if_pos hij]; unfold wval; cases w.getD j none <;> rfl
    · rw [if_neg hij, if_neg hij]; rfl
  · rw [if_neg hj]
    have : wval w j = 0 := by
      unfold wval
      rw [getD_of_size_le _ _ _ (by omega)]
    rw [this]; split <;> rfl

end read

end Relax
end Amgcl
