import Amgcl.Proofs.BridgeMat
import Amgcl.Properties.C06
import Amgcl.Proofs.EnergyBuild
/-!
# Bridge, part 2: `SweepIs` for the real smoother models

For the models of `Model/RelaxJacobi.lean`, `Model/RelaxGS.lean` (the records consumed by `Amg.cycle`) a sweep on
`Array` vectors is `x ↦ x + N (f − A x)` on the denoted vectors, with exactly the matrices `N` of the smoothing theorems
of `Properties/C02b.lean`:

* `sweepIs_jacobi`     — `Relax.jacobi ω`, state `diagInv A`:        `N = jacobiN ω (matOf A)`  (`C06.jacobi_sweep`);
* `sweepIs_spai0`      — `Relax.spai0 norm`, state `spai0Diag norm A`: `N = spai0N (matOf A)`     (`C06.spai0_sweep`);
* `sweepIs_gs_pre`     — `Relax.gaussSeidel`, forward sweep:           `N = gsN (matOf A)`        (`C06.gs_forward`);
* `sweepIs_gs_post`    — `Relax.gaussSeidel`, backward sweep:          `N = gsNback (matOf A)`    (`C06.gs_backward`).

Structural hypotheses (those of the C06 theorems): `A.WF`, square, the diagonal stored exactly once per row
(`diagOnceb`; Jacobi and Gauss–Seidel) and non-zero (amgcl's zero→identity rule / `inverse(D)` with `D = 0` are outside
`N = ω D⁻¹`, `(D+L)⁻¹`); for SPAI-0 no repeated column within a row (the code sums the squares of the *stored* entries)
and `norm v * norm v = v * v` (`std::abs`).
-/
set_option linter.unusedSectionVars false
namespace Amgcl.Energy.Bridge
open Amgcl Amgcl.Amg Amgcl.Relax Matrix Finset

variable {K : Type} [Field K] [DecidableEq K]

/-- the row sums of the C06 sweep formulas are matrix–vector products of the denotations -/
theorem sum_range_eq_mulVec (A : CRS K) {n : Nat} (x : Vec K) (i : Fin n) :
    ∑ j ∈ range n, A.get i.val j * x.getD j 0 = (matOf A n n *ᵥ vecOf n x) i := by
  rw [Finset.sum_range]; rfl

/-! ### damped Jacobi -/

/-- **damped Jacobi**: the model sweep is the step with `N = ω D⁻¹` -/
theorem sweepIs_jacobi (ω : K) (A : CRS K) {n : Nat} (hn : A.nrows = n) (hc : A.ncols = n) (hA : A.WF)
    (hd : diagOnceb A = true) (hnz : ∀ i, i < n → A.get i i ≠ 0) :
    SweepIs ((jacobi ω).applyPre (diagInv A) A) n (matOf A n n) (jacobiN ω (matOf A n n)) ∧
    SweepIs ((jacobi ω).applyPost (diagInv A) A) n (matOf A n n) (jacobiN ω (matOf A n n)) := by
  have key : SweepIs ((jacobi ω).applyPre (diagInv A) A) n (matOf A n n) (jacobiN ω (matOf A n n)) := by
    intro f x t _ _
    funext i
    have hi : i.val < A.nrows := by rw [hn]; exact i.isLt
    have h := (C06.jacobi_sweep ω A hA hd f x t i.val hi).1
    rw [hc, sum_range_eq_mulVec, if_neg (hnz i.val i.isLt)] at h
    rw [vecOf_apply, h]
    simp only [step, jacobiN, smul_mulVec, mulVec_diagonal, Pi.add_apply, Pi.smul_apply, Pi.sub_apply, smul_eq_mul,
      matOf_apply, vecOf_apply]
    ring
  exact ⟨key, key⟩

/-- the constructor of damped Jacobi on a matrix that stores its diagonal returns `diagInv A` -/
theorem jacobi_setup_eq (ω : K) (A : CRS K) (hd : diagOnceb A = true) (s : Vec K) (h : (jacobi ω).setup A = .ok s) :
    s = diagInv A := by
  rw [(C06.jacobi_setup ω A hd).1] at h
  cases h; rfl

/-! ### SPAI-0 -/

/-- the stored SPAI-0 diagonal is `a_ii / Σ_j a_ij²` when no column is stored twice in the row -/
theorem spai0Diag_eq (norm : K → K) (hnorm : ∀ v, norm v * norm v = v * v) (A : CRS K) {n : Nat} (hn : A.nrows = n)
    (hc : A.ncols = n) (hA : A.WF) (hnd : ∀ i, ((A.row i).map (·.1)).Nodup) (i : Fin n) :
    (spai0Diag norm A).getD i.val 0 = spai0N (matOf A n n) i i := by
  have hi : i.val < A.nrows := by rw [hn]; exact i.isLt
  rw [getD_spai0Diag norm A i.val hi]
  have hden : ((A.row i.val).map (fun cv => norm cv.2 * norm cv.2)).sum = ∑ j : Fin n, matOf A n n i j ^ 2 := by
    have : ((A.row i.val).map (fun cv => norm cv.2 * norm cv.2)) = ((A.row i.val).map (fun cv => cv.2 * cv.2)) :=
      List.map_congr_left fun cv _ => hnorm cv.2
    rw [this, sum_sq_of_nodup (A.row i.val) n (fun cv hcv => hc ▸ K2.row_col_lt hA i.val hcv) (hnd i.val),
      Finset.sum_range]
    refine Finset.sum_congr rfl fun j _ => ?_
    rw [matOf_apply, sq]; rfl
  rw [hden, spai0N, diagonal_apply_eq, matOf_apply]
  ring

/-- **SPAI-0**: the model sweep is the step with `N = diag(a_ii / Σ_j a_ij²)` -/
theorem sweepIs_spai0 (norm : K → K) (hnorm : ∀ v, norm v * norm v = v * v) (A : CRS K) {n : Nat} (hn : A.nrows = n)
    (hc : A.ncols = n) (hA : A.WF) (hnd : ∀ i, ((A.row i).map (·.1)).Nodup) :
    SweepIs ((spai0 norm).applyPre (spai0Diag norm A) A) n (matOf A n n) (spai0N (matOf A n n)) ∧
    SweepIs ((spai0 norm).applyPost (spai0Diag norm A) A) n (matOf A n n) (spai0N (matOf A n n)) := by
  have key : SweepIs ((spai0 norm).applyPre (spai0Diag norm A) A) n (matOf A n n) (spai0N (matOf A n n)) := by
    intro f x t _ _
    funext i
    have hi : i.val < A.nrows := by rw [hn]; exact i.isLt
    have h := (C06.spai0_sweep norm A hA f x t i.val hi).1
    rw [hc, sum_range_eq_mulVec, spai0Diag_eq norm hnorm A hn hc hA hnd i] at h
    rw [vecOf_apply, h]
    simp only [step, spai0N, mulVec_diagonal, Pi.add_apply, Pi.sub_apply, vecOf_apply, diagonal_apply_eq]
  exact ⟨key, key⟩

theorem spai0_setup_eq (norm : K → K) (A : CRS K) (s : Vec K) (h : (spai0 norm).setup A = .ok s) :
    s = spai0Diag norm A := by
  cases h; rfl

/-! ### Gauss–Seidel -/

omit [DecidableEq K] in
theorem gsM_isUnit_det {n : ℕ} {A : Matrix (Fin n) (Fin n) K} (hd : ∀ i, A i i ≠ 0) : IsUnit (gsM A).det := by
  have : (gsM A).det = ∏ i, A i i := by
    rw [det_of_isLowerTriangular]
    · simp [gsM]
    · intro i j hij
      have : i < j := by simpa using hij
      simp [gsM, not_le.mpr this]
  rw [this, isUnit_iff_ne_zero]
  exact Finset.prod_ne_zero_iff.mpr fun i _ => hd i

omit [DecidableEq K] in
theorem gsMback_isUnit_det {n : ℕ} {A : Matrix (Fin n) (Fin n) K} (hd : ∀ i, A i i ≠ 0) : IsUnit (gsMback A).det := by
  have : (gsMback A).det = ∏ i, A i i := by
    rw [det_of_isUpperTriangular]
    · simp [gsMback]
    · intro i j hij
      have : j < i := by simpa using hij
      simp [gsMback, not_le.mpr this]
  rw [this, isUnit_iff_ne_zero]
  exact Finset.prod_ne_zero_iff.mpr fun i _ => hd i

omit [DecidableEq K] in
/-- if `M (y − x) = f − A x` with `M` invertible then `y` is the step with `N = M⁻¹` -/
theorem eq_step_of_split {n : ℕ} {A M : Matrix (Fin n) (Fin n) K} (hM : IsUnit M.det) {f x y : Fin n → K}
    (h : M *ᵥ (y - x) = f - A *ᵥ x) : y = step A M⁻¹ f x := by
  rw [step, ← h, mulVec_mulVec, nonsing_inv_mul _ hM, one_mulVec]; abel

/-- **Gauss–Seidel, forward (pre) sweep**: the step with `N = (D + L)⁻¹` -/
theorem sweepIs_gs_pre (A : CRS K) {n : Nat} (hn : A.nrows = n) (hc : A.ncols = n) (hA : A.WF)
    (hd : diagOnceb A = true) (hnz : ∀ i, i < n → A.get i i ≠ 0) :
    SweepIs ((gaussSeidel : Smoother K Unit).applyPre () A) n (matOf A n n) (gsN (matOf A n n)) := by
  intro f x t _ hx
  apply eq_step_of_split (gsM_isUnit_det fun i => hnz i.val i.isLt)
  funext i
  have hi : i.val < A.nrows := by rw [hn]; exact i.isLt
  have h := C06.gs_forward A hA hd (fun i hi => hnz i (hn ▸ hi)) f x t (by rw [hx, hn]) i.val hi
  simp only at h
  rw [hc, Finset.sum_range] at h
  simp only [mulVec, dotProduct, Pi.sub_apply, vecOf_apply, matOf_apply, gsM, of_apply]
  rw [← h, ← Finset.sum_sub_distrib]
  refine Finset.sum_congr rfl fun j _ => ?_
  by_cases hji : j ≤ i
  · have : j.val ≤ i.val := hji
    simp only [hji, this, if_true]; ring
  · have : ¬ j.val ≤ i.val := hji
    simp only [hji, this, if_false]; ring

/-- **Gauss–Seidel, backward (post) sweep**: the step with `N = (D + U)⁻¹` -/
theorem sweepIs_gs_post (A : CRS K) {n : Nat} (hn : A.nrows = n) (hc : A.ncols = n) (hA : A.WF)
    (hd : diagOnceb A = true) (hnz : ∀ i, i < n → A.get i i ≠ 0) :
    SweepIs ((gaussSeidel : Smoother K Unit).applyPost () A) n (matOf A n n) (gsNback (matOf A n n)) := by
  intro f x t _ hx
  apply eq_step_of_split (gsMback_isUnit_det fun i => hnz i.val i.isLt)
  funext i
  have hi : i.val < A.nrows := by rw [hn]; exact i.isLt
  have h := C06.gs_backward A hA hd (fun i hi => hnz i (hn ▸ hi)) f x t (by rw [hx, hn]) i.val hi
  simp only at h
  rw [hc, Finset.sum_range] at h
  simp only [mulVec, dotProduct, Pi.sub_apply, vecOf_apply, matOf_apply, gsMback, of_apply]
  rw [← h, ← Finset.sum_sub_distrib]
  refine Finset.sum_congr rfl fun j _ => ?_
  have hjn : j.val < A.nrows := by rw [hn]; exact j.isLt
  by_cases hij : i ≤ j
  · have : i.val ≤ j.val := hij
    simp only [hij, this, hjn, and_self, if_true]; ring
  · have : ¬ i.val ≤ j.val := hij
    simp only [hij, this, false_and, if_false]; ring

end Amgcl.Energy.Bridge
