import Amgcl.Model.SolverRichardson
import Amgcl.Proofs.SolverCG
/-!
Lemmas about the Richardson model: the residual is recomputed in every pass (truthfulness needs no algebra),
closed form `x_k = (x ↦ x + ω P(f − A x))^[k] x₀`, work-vector independence, exits.
-/
namespace Amgcl.Solver.Richardson
open Amgcl Amgcl.Solver
set_option linter.unusedSectionVars false
set_option linter.unusedSimpArgs false

variable {K : Type} [Field K] [DecidableEq K] [LT K] [DecidableLT K]

/-- `eps = std::max(prm.tol * norm_rhs, prm.abstol)` -/
def epsTol (prm : Params K) (nf : K) : K := maxK (prm.tol * nf) prm.abstol

/-- the loop state on exit, for a call that did not return early and uses `norm_rhs = nf` -/
def final (prm : Params K) (ip : Vec K → Vec K → K) (sqrt : K → K) (A : CRS K) (P : Vec K → Vec K)
    (ws : Work K) (f x0 : Vec K) (nf : K) : St K :=
  loop prm.damping ip sqrt A P f (epsTol prm nf) prm.maxiter (init ip sqrt A ws f x0)

theorem run_trivial (prm : Params K) (ip : Vec K → Vec K → K) (sqrt : K → K) (eps : K) (A : CRS K)
    (P : Vec K → Vec K) (ws : Work K) (f x0 : Vec K) (n : K)
    (h : prologue prm.nsSearch ip sqrt eps f = .trivial n) :
    run prm ip sqrt eps A P ws f x0 = (.ok (0, n), vclear x0.size, ws) := by
  simp only [run, h]

theorem run_go (prm : Params K) (ip : Vec K → Vec K → K) (sqrt : K → K) (eps : K) (A : CRS K)
    (P : Vec K → Vec K) (ws : Work K) (f x0 : Vec K) (nf : K)
    (h : prologue prm.nsSearch ip sqrt eps f = .go nf) :
    run prm ip sqrt eps A P ws f x0 =
      (.ok ((final prm ip sqrt A P ws f x0 nf).iter, (final prm ip sqrt A P ws f x0 nf).res / nf),
       (final prm ip sqrt A P ws f x0 nf).x, (final prm ip sqrt A P ws f x0 nf).w) := by
  simp only [run, h, final, epsTol]

/-- loop invariant: `r` is the true residual of `x`, `res` its norm, and `x` is the `iter`-fold iterate -/
def Inv (ω : K) (ip : Vec K → Vec K → K) (sqrt : K → K) (A : CRS K) (P : Vec K → Vec K) (f x0 : Vec K)
    (st : St K) : Prop :=
  st.w.r = residual f A st.x ∧ st.res = nrm ip sqrt st.w.r ∧ st.x = (step ω A P f)^[st.iter] x0

theorem body_inv (ω : K) (ip : Vec K → Vec K → K) (sqrt : K → K) (A : CRS K) (P : Vec K → Vec K)
    (f x0 : Vec K) (st : St K) (h : Inv ω ip sqrt A P f x0 st) :
    Inv ω ip sqrt A P f x0 (body ω ip sqrt A P f st) := by
  obtain ⟨h1, _, h3⟩ := h
  refine ⟨rfl, rfl, ?_⟩
  show axpby ω (P st.w.r) 1 st.x = (step ω A P f)^[st.iter + 1] x0
  rw [Function.iterate_succ_apply', ← h3, h1]
  rfl

theorem final_inv (prm : Params K) (ip : Vec K → Vec K → K) (sqrt : K → K) (A : CRS K)
    (P : Vec K → Vec K) (ws : Work K) (f x0 : Vec K) (nf : K) :
    Inv prm.damping ip sqrt A P f x0 (final prm ip sqrt A P ws f x0 nf) :=
  loopN_inv _ _ _ (fun s hs _ => body_inv prm.damping ip sqrt A P f x0 s hs) _ _ ⟨rfl, rfl, rfl⟩

theorem body_iter (ω : K) (ip : Vec K → Vec K → K) (sqrt : K → K) (A : CRS K) (P : Vec K → Vec K)
    (f : Vec K) (st : St K) : (body ω ip sqrt A P f st).iter = st.iter + 1 := rfl

theorem final_exit (prm : Params K) (ip : Vec K → Vec K → K) (sqrt : K → K) (A : CRS K)
    (P : Vec K → Vec K) (ws : Work K) (f x0 : Vec K) (nf : K) :
    (final prm ip sqrt A P ws f x0 nf).iter ≤ prm.maxiter ∧
    ((final prm ip sqrt A P ws f x0 nf).iter = prm.maxiter ∨
      ¬ epsTol prm nf < absK (final prm ip sqrt A P ws f x0 nf).res) := by
  have h := loopN_exit (cond (epsTol prm nf)) (body prm.damping ip sqrt A P f) St.iter
    (body_iter prm.damping ip sqrt A P f) prm.maxiter (init ip sqrt A ws f x0)
  have h0 : (init ip sqrt A ws f x0).iter = 0 := rfl
  rw [h0, Nat.zero_add] at h
  refine ⟨h.1, ?_⟩
  rcases h.2 with h2 | h2
  · left; exact h2
  · right; simpa [cond, final, loop] using h2

/-- what the loop body reads from the state -/
def Rel (s s' : St K) : Prop := s.iter = s'.iter ∧ s.res = s'.res ∧ s.x = s'.x ∧ s.w.r = s'.w.r

theorem body_rel (ω : K) (ip : Vec K → Vec K → K) (sqrt : K → K) (A : CRS K) (P : Vec K → Vec K)
    (f : Vec K) (s s' : St K) (h : Rel s s') : body ω ip sqrt A P f s = body ω ip sqrt A P f s' := by
  obtain ⟨h1, _, h3, h4⟩ := h
  unfold body
  simp only [h1, h3, h4]

theorem final_rel (prm : Params K) (ip : Vec K → Vec K → K) (sqrt : K → K) (A : CRS K)
    (P : Vec K → Vec K) (ws ws' : Work K) (f x0 : Vec K) (nf : K) :
    Rel (final prm ip sqrt A P ws f x0 nf) (final prm ip sqrt A P ws' f x0 nf) := by
  apply loopN_rel (cond (epsTol prm nf)) (body prm.damping ip sqrt A P f) Rel
  · intro s s' h; simp only [cond, h.2.1]
  · intro s s' h _
    rw [body_rel prm.damping ip sqrt A P f s s' h]; exact ⟨rfl, rfl, rfl, rfl⟩
  · exact ⟨rfl, rfl, rfl, rfl⟩

/-! #### exact preconditioner, `damping = 1` -/

theorem exact_first_pass (ip : Vec K → Vec K → K) (sqrt : K → K) (A : CRS K) (hA : A.WF) (P : Vec K → Vec K)
    (hP : ∀ v, (P v).size = A.ncols)
    (hAP : ∀ v z, v.size = A.nrows → spmv 1 A (P v) 0 z = v) (ws : Work K) (f x0 : Vec K) :
    (body 1 ip sqrt A P f (init ip sqrt A ws f x0)).w.r = vclear A.nrows := by
  show residual f A (axpby 1 (P (residual f A x0)) 1 x0) = vclear A.nrows
  rw [← paired_update_inv f A hA 1 (P (residual f A x0)) x0 x0 (by rw [hP]),
    hAP _ _ (residual_size' f A x0), axpby_cancel, residual_size']

theorem exact_final (prm : Params K) (ip : Vec K → Vec K → K) (sqrt : K → K) (A : CRS K) (hA : A.WF)
    (P : Vec K → Vec K) (hP : ∀ v, (P v).size = A.ncols)
    (hAP : ∀ v z, v.size = A.nrows → spmv 1 A (P v) 0 z = v) (ws : Work K) (f x0 : Vec K) (nf : K)
    (hω : prm.damping = 1) (hmax : 1 ≤ prm.maxiter)
    (hstart : epsTol prm nf < absK (nrm ip sqrt (residual f A x0)))
    (hz : nrm ip sqrt (vclear A.nrows) = 0) (heps : ¬ epsTol prm nf < 0) :
    final prm ip sqrt A P ws f x0 nf = body 1 ip sqrt A P f (init ip sqrt A ws f x0) := by
  obtain ⟨m, hm⟩ : ∃ m, prm.maxiter = m + 1 := ⟨prm.maxiter - 1, by omega⟩
  unfold final loop
  rw [hm, loopN, hω]
  have hc : cond (epsTol prm nf) (init ip sqrt A ws f x0) = true := by
    simp only [cond, init]; exact decide_eq_true hstart
  rw [if_pos hc]
  apply loopN_of_not_cond
  have hr := exact_first_pass ip sqrt A hA P hP hAP ws f x0
  have hres : (body 1 ip sqrt A P f (init ip sqrt A ws f x0)).res = 0 := by
    show nrm ip sqrt (body 1 ip sqrt A P f (init ip sqrt A ws f x0)).w.r = 0
    rw [hr, hz]
  simp only [cond, hres, absK_zero]
  simpa using heps

end Amgcl.Solver.Richardson
