import Amgcl.Proofs.KrylovGMRESBreak
/-!
# GMRES: a restart cycle never increases the residual; breakdown returns the exact solution (C05)

Setting of `Proofs/KrylovGMRESMain.lean` (ordered field, exact roots on the numbers met, `stdIp`, linear preconditioner,
both sides), but WITHOUT a no-breakdown hypothesis on the last pass of the cycle:

* `backSubst_spec'`        row `a` of the triangular system is solved whenever ITS diagonal entry is non-zero;
* `cycle_residual_last`    `‖Rf x_{m+1}‖² = (s_m − H(m,m)·y_m)² + s_{m+1}²` — the first term vanishes for `H(m,m) ≠ 0`;
* `cycle_residual_le`      `‖Rf x_{m+1}‖² ≤ ‖r₀‖²` in every case (`Σ_{a ≤ m+1} s_a² = ‖r₀‖²`, rotations preserve norms);
* `cycle_monotone`         the cycle of the MODEL (`GMRES.cycle`, its own pass count) does not increase `‖Rf x‖²`;
* `breakdown_diag_ne`      breakdown in pass `m` and an injective preconditioned operator: `H(m,m) ≠ 0`;
* `breakdown_exact`        … hence the iterate returned has measured residual EXACTLY zero.
-/
set_option linter.unusedSectionVars false
set_option linter.unusedVariables false
namespace Amgcl.Krylov
open Amgcl Amgcl.Solver Amgcl.Solver.GMRES Amgcl.Energy.Bridge Matrix Finset

section backsubst
variable {K : Type} [Field K] [DecidableEq K] [LT K] [DecidableLT K]

/-- **back substitution, row by row**: the entries `≥ j` are left alone, and row `a < j` of the triangular system is
solved as soon as its own diagonal entry `H(a,a)` is non-zero (whatever the other diagonal entries are) -/
theorem backSubst_spec' (H : FArr2 K) : ∀ (j : ℕ) (s : FArr K),
    (∀ a, j ≤ a → (backSubst j H s).get a = s.get a) ∧
    ∀ a, a < j → H.get a a ≠ 0 → ∑ i ∈ Ico a j, H.get a i * (backSubst j H s).get i = s.get a := by
  intro j
  induction j with
  | zero =>
    intro s
    exact ⟨fun a _ => rfl, fun a ha => absurd ha (Nat.not_lt_zero a)⟩
  | succ j ih =>
    intro s
    rw [backSubst_succ]
    set s' := (List.range j).foldl (fun (s : FArr K) k => setF s k (s.get k - H.get k j * s.get j))
      (setF s j (s.get j / H.get j j)) with hs'
    have hs'a : ∀ a, s'.get a = if a < j then s.get a - H.get a j * (s.get j / H.get j j)
        else if a = j then s.get j / H.get j j else s.get a := by
      intro a
      rw [hs', elim_spec]
      simp only [setF_get, if_true]
      by_cases haj : a < j
      · have : ¬ a = j := by omega
        simp only [haj, this, if_true, if_false]
      · simp only [haj, if_false]
    obtain ⟨ih1, ih2⟩ := ih s'
    have hyj : (backSubst j H s').get j = s.get j / H.get j j := by
      rw [ih1 j (Nat.le_refl j), hs'a]; simp
    refine ⟨?_, ?_⟩
    · intro a ha
      rw [ih1 a (by omega), hs'a]
      have e1 : ¬ a < j := by omega
      have e2 : ¬ a = j := by omega
      simp only [e1, e2, if_false]
    · intro a ha hda
      by_cases haj : a < j
      · rw [sum_Ico_succ_top (by omega), ih2 a haj hda, hyj, hs'a, if_pos haj]; ring
      · have : a = j := by omega
        subst this
        rw [Nat.Ico_succ_singleton, sum_singleton, hyj]
        field_simp [hda]

end backsubst

section resid
variable {K : Type} [Field K] [LinearOrder K] [IsStrictOrderedRing K]

/-- rotations preserve the norm of `β e₀`: `Σ_{a ≤ j} s_a² = β²` -/
theorem givens_rhs_sq {j : ℕ} {cs sn : ℕ → K} {H Ht : ℕ → ℕ → K} {s : ℕ → K} {β : K}
    (h : GivensRel j cs sn H Ht s β) : ∑ a ∈ range (j + 1), s a * s a = β * β := by
  rw [← h.rhs, rotSeq_sq cs sn j (j + 1) (Nat.le_refl _) h.unit]
  rw [sum_eq_single 0]
  · simp [e0]
  · intro b _ hb; simp [e0, hb]
  · intro h0; exact absurd (mem_range.mpr (Nat.succ_pos j)) h0

variable (n : ℕ) (A : CRS K) (hA : A.WF) (hn : A.nrows = n) (hm : A.ncols = n)
  (P : Vec K → Vec K) (Pl : (Fin n → K) →ₗ[K] (Fin n → K)) (hP : PDenotes n P Pl) (side : Side) (sqrt : K → K)
  (f : Vec K) (st : GMRES.St K)
  (hst : CycleStart side sqrt A P f st)
include hA hn hm hP hst

/-- `‖r₀‖² = β²` -/
theorem cycleStart_normR_sq (hr0 : RootAt sqrt (stdIp st.w.r st.w.r)) :
    st.normR * st.normR = stdIp (GMRES.Rf side P f A st.x) (GMRES.Rf side P f A st.x) := by
  rw [hst.normR, hst.r]
  unfold nrmA
  rw [absK_mul_self]
  rw [hst.r] at hr0
  exact hr0

/-- **the residual of the iterate after `m+1` passes, breakdown allowed in pass `m`** -/
theorem cycle_residual_last (m : ℕ) (hroots : RootsExact side sqrt A P st (m + 1))
    (hnb : ∀ i, i < m → arnoldiNorm side sqrt A P st i ≠ 0) :
    stdIp (GMRES.Rf side P f A (cycleIterate side sqrt A P st (m + 1)))
        (GMRES.Rf side P f A (cycleIterate side sqrt A P st (m + 1)))
      = ((innerPass side sqrt A P st (m + 1)).w.h.s.get m - (innerPass side sqrt A P st (m + 1)).w.h.H.get m m
            * (backSubst (m + 1) (innerPass side sqrt A P st (m + 1)).w.h.H
                (innerPass side sqrt A P st (m + 1)).w.h.s).get m)
        * ((innerPass side sqrt A P st (m + 1)).w.h.s.get m - (innerPass side sqrt A P st (m + 1)).w.h.H.get m m
            * (backSubst (m + 1) (innerPass side sqrt A P st (m + 1)).w.h.H
                (innerPass side sqrt A P st (m + 1)).w.h.s).get m)
        + (innerPass side sqrt A P st (m + 1)).w.h.s.get (m + 1) * (innerPass side sqrt A P st (m + 1)).w.h.s.get (m + 1) := by
  obtain ⟨hsize, _, _, _, _, _⟩ := cycle_basis_last n A hA hn hm P Pl hP side sqrt f st hst m hroots hnb
  have hd := (innerPassG_givens side sqrt A P st g00 (m + 1) hroots.rot).2
  obtain ⟨_, bs⟩ := backSubst_spec' (innerPass side sqrt A P st (m + 1)).w.h.H (m + 1)
    (innerPass side sqrt A P st (m + 1)).w.h.s
  obtain ⟨r1, r2⟩ := Rf_vec n A hA hn hm P Pl hP side f (cycleIterate side sqrt A P st (m + 1))
  rw [stdIp_vecOf n _ _ r1 r1, r2, cycleIterate_vec n A hA hn hm P Pl hP side sqrt st (m + 1) (by omega) hsize,
    cycle_ls_last n A hA hn hm P Pl hP side sqrt f st hst m hroots hnb, sum_range_succ]
  have hz : ∀ a ∈ range m, ((innerPass side sqrt A P st (m + 1)).w.h.s.get a
        - ∑ i ∈ Ico a (m + 1), (innerPass side sqrt A P st (m + 1)).w.h.H.get a i
          * (backSubst (m + 1) (innerPass side sqrt A P st (m + 1)).w.h.H
              (innerPass side sqrt A P st (m + 1)).w.h.s).get i)
      * ((innerPass side sqrt A P st (m + 1)).w.h.s.get a
        - ∑ i ∈ Ico a (m + 1), (innerPass side sqrt A P st (m + 1)).w.h.H.get a i
          * (backSubst (m + 1) (innerPass side sqrt A P st (m + 1)).w.h.H
              (innerPass side sqrt A P st (m + 1)).w.h.s).get i) = 0 := by
    intro a ha
    have ha' : a < m := mem_range.mp ha
    rw [bs a (by omega) (hd a (by omega) (hnb a ha')), sub_self, mul_zero]
  rw [sum_eq_zero hz, zero_add, Nat.Ico_succ_singleton, sum_singleton]

/-- … it is `s_{m+1}²` when the last diagonal entry of the triangular factor is non-zero -/
theorem cycle_residual_last_eq (m : ℕ) (hroots : RootsExact side sqrt A P st (m + 1))
    (hnb : ∀ i, i < m → arnoldiNorm side sqrt A P st i ≠ 0)
    (hdiag : (innerPass side sqrt A P st (m + 1)).w.h.H.get m m ≠ 0) :
    stdIp (GMRES.Rf side P f A (cycleIterate side sqrt A P st (m + 1)))
        (GMRES.Rf side P f A (cycleIterate side sqrt A P st (m + 1)))
      = (innerPass side sqrt A P st (m + 1)).w.h.s.get (m + 1) * (innerPass side sqrt A P st (m + 1)).w.h.s.get (m + 1) := by
  rw [cycle_residual_last n A hA hn hm P Pl hP side sqrt f st hst m hroots hnb]
  have bs := (backSubst_spec' (innerPass side sqrt A P st (m + 1)).w.h.H (m + 1)
    (innerPass side sqrt A P st (m + 1)).w.h.s).2 m (Nat.lt_succ_self m) hdiag
  rw [Nat.Ico_succ_singleton, sum_singleton] at bs
  rw [bs, sub_self, mul_zero, zero_add]

/-- **in every case the iterate after `m+1` passes has a residual no larger than the one the cycle started with** -/
theorem cycle_residual_le (m : ℕ) (hroots : RootsExact side sqrt A P st (m + 1))
    (hnb : ∀ i, i < m → arnoldiNorm side sqrt A P st i ≠ 0) :
    stdIp (GMRES.Rf side P f A (cycleIterate side sqrt A P st (m + 1)))
        (GMRES.Rf side P f A (cycleIterate side sqrt A P st (m + 1)))
      ≤ stdIp (GMRES.Rf side P f A st.x) (GMRES.Rf side P f A st.x) := by
  have hgiv := (innerPassG_givens side sqrt A P st g00 (m + 1) hroots.rot).1
  have hsq := givens_rhs_sq hgiv
  rw [cycleStart_normR_sq n A hA hn hm P Pl hP side sqrt f st hst hroots.r0, sum_range_succ, sum_range_succ] at hsq
  have hrest : 0 ≤ ∑ a ∈ range m, (innerPass side sqrt A P st (m + 1)).w.h.s.get a
      * (innerPass side sqrt A P st (m + 1)).w.h.s.get a := sum_nonneg (fun a _ => mul_self_nonneg _)
  rw [← hsq, cycle_residual_last n A hA hn hm P Pl hP side sqrt f st hst m hroots hnb]
  by_cases hdiag : (innerPass side sqrt A P st (m + 1)).w.h.H.get m m = 0
  · rw [hdiag, zero_mul, sub_zero]; linarith
  · have bs := (backSubst_spec' (innerPass side sqrt A P st (m + 1)).w.h.H (m + 1)
      (innerPass side sqrt A P st (m + 1)).w.h.s).2 m (Nat.lt_succ_self m) hdiag
    rw [Nat.Ico_succ_singleton, sum_singleton] at bs
    rw [bs, sub_self, mul_zero]
    have := mul_self_nonneg ((innerPass side sqrt A P st (m + 1)).w.h.s.get m)
    linarith

/-- **the restart cycle of the MODEL does not increase the measured residual**: whatever the number of passes its inner
loop makes, with or without breakdown in its last pass (a breakdown in an earlier pass is impossible for a threshold
that is not negative) -/
theorem cycle_monotone (prm : GMRES.Params K) (hside : prm.pside = side) (epsT : K) (heps : ¬ epsT < 0)
    (hroots : RootsExact side sqrt A P st (inner prm stdIp sqrt A P epsT st).j) :
    stdIp (GMRES.Rf side P f A (cycle prm stdIp sqrt A P epsT st).x)
        (GMRES.Rf side P f A (cycle prm stdIp sqrt A P epsT st).x)
      ≤ stdIp (GMRES.Rf side P f A st.x) (GMRES.Rf side P f A st.x) := by
  subst hside
  have hge := (inner_eq_innerPass prm sqrt A P epsT st).2
  have hnb := inner_no_early_breakdown prm sqrt A P epsT heps st
  rw [cycle_x]
  obtain ⟨m, hm'⟩ : ∃ m, (inner prm stdIp sqrt A P epsT st).j = m + 1 := ⟨_, (Nat.sub_add_cancel hge).symm⟩
  rw [hm'] at hroots hnb ⊢
  exact cycle_residual_le n A hA hn hm P Pl hP prm.pside sqrt f st hst m hroots (fun i hi => hnb i (by omega))

/-- **breakdown in pass `m` with an injective preconditioned operator: the triangular factor is regular.**  Otherwise a
non-zero coefficient vector `y` with `R y = 0` exists, so `‖r₀ − c·T V y‖ = ‖r₀‖` for every scalar `c`, hence
`T V y = 0`, `V y = 0`, `y = 0`. -/
theorem breakdown_diag_ne (m : ℕ) (hroots : RootsExact side sqrt A P st (m + 1))
    (hnb : ∀ i, i < m → arnoldiNorm side sqrt A P st i ≠ 0)
    (hinj : Function.Injective (Tl side (matOf A n n) Pl)) (hb : arnoldiNorm side sqrt A P st m = 0) :
    (innerPass side sqrt A P st (m + 1)).w.h.H.get m m ≠ 0 := by
  intro hdiag
  obtain ⟨hsize, hon, _, _, _, _⟩ := cycle_basis_last n A hA hn hm P Pl hP side sqrt f st hst m hroots hnb
  have hd := (innerPassG_givens side sqrt A P st g00 (m + 1) hroots.rot).2
  have hls := cycle_ls_last n A hA hn hm P Pl hP side sqrt f st hst m hroots hnb
  generalize (innerPass side sqrt A P st (m + 1)).w.h.H = H at hdiag hd hls
  generalize (innerPass side sqrt A P st (m + 1)).w.h.s = s at hls
  generalize hV : (fun a => vecOf n ((innerPass side sqrt A P st (m + 1)).w.v.get a)) = V at hon hls
  have hVa : ∀ a, vecOf n ((innerPass side sqrt A P st (m + 1)).w.v.get a) = V a := fun a => by rw [← hV]
  simp only [hVa] at hon hls
  -- a coefficient vector in the kernel of the triangular factor, `y_m = 1`
  obtain ⟨_, bs⟩ := backSubst_spec' H m (⟨fun a => -H.get a m⟩ : FArr K)
  set y : ℕ → K := fun i => if i = m then 1 else (backSubst m H (⟨fun a => -H.get a m⟩ : FArr K)).get i with hy
  have hker : ∀ a, a < m + 1 → ∑ i ∈ Ico a (m + 1), H.get a i * y i = 0 := by
    intro a ha
    rw [sum_Ico_succ_top (by omega)]
    have hym : y m = 1 := by simp [hy]
    by_cases ham : a < m
    · have h1 : ∑ i ∈ Ico a m, H.get a i * y i
          = ∑ i ∈ Ico a m, H.get a i * (backSubst m H (⟨fun a => -H.get a m⟩ : FArr K)).get i := by
        apply sum_congr rfl
        intro i hi
        have : i ≠ m := by have := (mem_Ico.mp hi).2; omega
        simp [hy, this]
      rw [h1, bs a ham (hd a (by omega) (hnb a ham)), hym]
      ring
    · have : a = m := by omega
      subst this
      rw [Ico_self, sum_empty, hdiag]; ring
  -- the residual norm does not depend on the multiple of `y`
  have hconst : ∀ c : K,
      resOf side (matOf A n n) Pl (vecOf n f) (vecOf n st.x + Xl side Pl (c • ∑ i ∈ range (m + 1), y i • V i))
        ⬝ᵥ resOf side (matOf A n n) Pl (vecOf n f) (vecOf n st.x + Xl side Pl (c • ∑ i ∈ range (m + 1), y i • V i))
      = resOf side (matOf A n n) Pl (vecOf n f) (vecOf n st.x) ⬝ᵥ resOf side (matOf A n n) Pl (vecOf n f) (vecOf n st.x) := by
    intro c
    have e1 : c • ∑ i ∈ range (m + 1), y i • V i = ∑ i ∈ range (m + 1), (fun i => c * y i) i • V i := by
      rw [smul_sum]; apply sum_congr rfl; intro i _; rw [mul_smul]
    have e0' : vecOf n st.x = vecOf n st.x + Xl side Pl (∑ i ∈ range (m + 1), (fun _ => (0 : K)) i • V i) := by
      simp
    rw [e1, hls]
    conv_rhs => rw [e0', hls]
    congr 1
    apply sum_congr rfl
    intro a ha
    have ha' : a < m + 1 := mem_range.mp ha
    have z1 : ∑ i ∈ Ico a (m + 1), H.get a i * (c * y i) = 0 := by
      have : ∑ i ∈ Ico a (m + 1), H.get a i * (c * y i) = c * ∑ i ∈ Ico a (m + 1), H.get a i * y i := by
        rw [mul_sum]; apply sum_congr rfl; intro i _; ring
      rw [this, hker a ha', mul_zero]
    have z2 : ∑ i ∈ Ico a (m + 1), H.get a i * (0 : K) = 0 := by simp
    rw [z1, z2]
  -- hence `T (V y) = 0`
  set u : Fin n → K := ∑ i ∈ range (m + 1), y i • V i with hu
  have h1 := hconst 1
  have h2 := hconst (-1)
  rw [resOf_add, map_smul] at h1 h2
  generalize resOf side (matOf A n n) Pl (vecOf n f) (vecOf n st.x) = R0 at h1 h2
  generalize hw : Tl side (matOf A n n) Pl u = w at h1 h2
  have hww : w ⬝ᵥ w = 0 := by
    simp only [one_smul, neg_smul, sub_neg_eq_add, sub_dotProduct, dotProduct_sub, add_dotProduct,
      dotProduct_add] at h1 h2
    have hc := dotProduct_comm R0 w
    linarith
  have hw0 : w = 0 := dotProduct_self_eq_zero.mp hww
  have hu0 : u = 0 := hinj (by rw [hw, hw0, map_zero])
  -- but `⟨V y, V_m⟩ = y_m = 1`
  have : u ⬝ᵥ V m = 1 := by
    rw [hu, sum_dotProduct]
    have : ∀ i ∈ range (m + 1), (y i • V i) ⬝ᵥ V m = if i = m then y i else 0 := by
      intro i hi
      rw [smul_dotProduct, hon i m (by have := mem_range.mp hi; omega) (Nat.le_refl m)]
      split_ifs <;> simp
    rw [sum_congr rfl this, sum_ite_eq', if_pos (mem_range.mpr (Nat.lt_succ_self m))]
    simp [hy]
  rw [hu0, zero_dotProduct] at this
  exact zero_ne_one this

/-- **breakdown returns the exact solution**: if the Arnoldi process breaks down in pass `m` of a cycle (the next basis
vector is zero) and the preconditioned operator is injective, the iterate after that pass has measured residual
`Rf x = 0` — the zero vector itself, not only a zero estimate. -/
theorem breakdown_exact (m : ℕ) (hroots : RootsExact side sqrt A P st (m + 1))
    (hnb : ∀ i, i < m → arnoldiNorm side sqrt A P st i ≠ 0)
    (hinj : Function.Injective (Tl side (matOf A n n) Pl)) (hb : arnoldiNorm side sqrt A P st m = 0) :
    GMRES.Rf side P f A (cycleIterate side sqrt A P st (m + 1)) = vclear n := by
  have hdiag := breakdown_diag_ne n A hA hn hm P Pl hP side sqrt f st hst m hroots hnb hinj hb
  have h := cycle_residual_last_eq n A hA hn hm P Pl hP side sqrt f st hst m hroots hnb hdiag
  rw [(breakdown_innerRes side sqrt A P st m hb).1, mul_zero] at h
  obtain ⟨r1, _⟩ := Rf_vec n A hA hn hm P Pl hP side f (cycleIterate side sqrt A P st (m + 1))
  apply eq_of_vecOf_eq n _ _ r1 (by simp [vclear])
  rw [vecOf_zero_of_stdIp_self n _ r1 h]
  funext τ
  simp [vecOf, vclear]

end resid

end Amgcl.Krylov
