import Amgcl.Proofs.SmoothedAggregation
/-!
`smoothed_aggregation`: the rows of the smoothed prolongation are well formed (every stored column `< ncols`) and store
no column twice — a consequence of the position-marker discipline alone (no arithmetic): an entry is appended only when the
marker of its column points below `row_beg`, and then the marker points to the appended position.
-/
set_option linter.unusedSectionVars false
namespace Amgcl
namespace Coarsening

section
variable {K : Type} [CommRing K]

/-- the converse half of `RowInv`: every position of the row under construction is the one its column's marker points to -/
def PosInv (rowBeg : Nat) (st : Array Int × Array (Nat × K)) : Prop :=
  ∀ p, ∀ h : p < st.2.size, (st.2[p]'h).1 < st.1.size ∧ st.1.getD (st.2[p]'h).1 0 = ((rowBeg + p : Nat) : Int)

theorem PosInv.nodup {rowBeg : Nat} {st : Array Int × Array (Nat × K)} (h : PosInv rowBeg st) :
    (st.2.toList.map (·.1)).Nodup := by
  rw [List.nodup_iff_injective_get]
  intro a b hab
  have ha : a.val < st.2.size := by simpa using a.isLt
  have hb : b.val < st.2.size := by simpa using b.isLt
  have e : (st.2[a.val]'ha).1 = (st.2[b.val]'hb).1 := by
    simpa [List.get_eq_getElem] using hab
  have h1 := (h a.val ha).2
  have h2 := (h b.val hb).2
  rw [e] at h1
  apply Fin.ext
  have : ((rowBeg + a.val : Nat) : Int) = ((rowBeg + b.val : Nat) : Int) := h1.symm.trans h2
  omega

theorem PosInv.wf {rowBeg : Nat} {st : Array Int × Array (Nat × K)} (h : PosInv rowBeg st) :
    ∀ cv ∈ st.2.toList, cv.1 < st.1.size := by
  intro cv hcv
  obtain ⟨p, hp, rfl⟩ := List.getElem_of_mem hcv
  have hp' : p < st.2.size := by simpa using hp
  simpa using (h p hp').1

theorem saAccum_step_pos (rowBeg : Nat) (va : K) (st : Array Int × Array (Nat × K)) (cpvp : Nat × K)
    (_hinv : RowInv rowBeg st) (hpos : PosInv rowBeg st) (hwf : cpvp.1 < st.1.size) :
    PosInv rowBeg (if st.1.getD cpvp.1 0 < (rowBeg : Int) then
        (st.1.setIfInBounds cpvp.1 ((rowBeg + st.2.size : Nat) : Int), st.2.push (cpvp.1, va * cpvp.2))
      else (st.1, st.2.modify ((st.1.getD cpvp.1 0).toNat - rowBeg) (fun e => (e.1, e.2 + va * cpvp.2)))) := by
  by_cases hm : st.1.getD cpvp.1 0 < (rowBeg : Int)
  · rw [if_pos hm]
    intro p hp
    simp only [Array.size_push] at hp
    simp only [Array.size_setIfInBounds]
    by_cases hlast : p = st.2.size
    · subst hlast
      simp only [Array.getElem_push_eq]
      refine ⟨hwf, ?_⟩
      rw [getD_set, if_pos ⟨rfl, hwf⟩]
    · have hp' : p < st.2.size := by omega
      rw [Array.getElem_push_lt hp']
      obtain ⟨h1, h2⟩ := hpos p hp'
      refine ⟨h1, ?_⟩
      rw [getD_set, if_neg]
      · exact h2
      · rintro ⟨he, _⟩
        rw [← he] at h2
        rw [h2] at hm
        omega
  · rw [if_neg hm]
    intro p hp
    simp only [Array.size_modify] at hp
    obtain ⟨h1, h2⟩ := hpos p hp
    have e : ((st.2.modify ((st.1.getD cpvp.1 0).toNat - rowBeg) (fun e => (e.1, e.2 + va * cpvp.2)))[p]'(by simpa using hp)).1
        = (st.2[p]'hp).1 := by
      rw [Array.getElem_modify]; split <;> simp_all
    simp only
    rw [e]
    exact ⟨h1, h2⟩

theorem saAccum_pos (rowBeg : Nat) (va : K) (ptRow : Row K) (st : Array Int × Array (Nat × K))
    (hinv : RowInv rowBeg st) (hpos : PosInv rowBeg st) (hwf : ∀ cpvp ∈ ptRow, cpvp.1 < st.1.size) :
    RowInv rowBeg (saAccum rowBeg va ptRow st) ∧ PosInv rowBeg (saAccum rowBeg va ptRow st) ∧
      (saAccum rowBeg va ptRow st).1.size = st.1.size := by
  induction ptRow generalizing st with
  | nil => exact ⟨hinv, hpos, rfl⟩
  | cons hd t ih =>
    unfold saAccum
    rw [List.foldl_cons]
    have hhd := hwf hd List.mem_cons_self
    have hsz : (if st.1.getD hd.1 0 < (rowBeg : Int) then
        (st.1.setIfInBounds hd.1 ((rowBeg + st.2.size : Nat) : Int), st.2.push (hd.1, va * hd.2))
      else (st.1, st.2.modify ((st.1.getD hd.1 0).toNat - rowBeg) (fun e => (e.1, e.2 + va * hd.2)))).1.size = st.1.size := by
      by_cases hc : st.1.getD hd.1 0 < (rowBeg : Int)
      · rw [if_pos hc]; simp
      · rw [if_neg hc]
    have hri : RowInv rowBeg (if st.1.getD hd.1 0 < (rowBeg : Int) then
        (st.1.setIfInBounds hd.1 ((rowBeg + st.2.size : Nat) : Int), st.2.push (hd.1, va * hd.2))
      else (st.1, st.2.modify ((st.1.getD hd.1 0).toNat - rowBeg) (fun e => (e.1, e.2 + va * hd.2)))) :=
      (saAccum_step rowBeg va st hd hinv hhd).1
    have := ih _ hri (saAccum_step_pos rowBeg va st hd hinv hpos hhd)
      (fun cpvp hcp => by rw [hsz]; exact hwf cpvp (List.mem_cons_of_mem _ hcp))
    unfold saAccum at this
    exact ⟨this.1, this.2.1, this.2.2.trans hsz⟩


end

section
variable {K : Type} [Field K] [DecidableEq K]

/-- a finished row: no column twice, every column `< ncols` -/
def RowOK (ncols : Nat) (r : Row K) : Prop := (r.map (·.1)).Nodup ∧ ∀ cv ∈ r, cv.1 < ncols

theorem saRow_rowOK (omega : K) (Pt : CRS K) (hPt : Pt.WF) (i : Nat) (r : Row K) (s : List Bool)
    (marker : Array Int) (rowBeg : Nat) (hlow : MarkerLow marker rowBeg) (hsz : marker.size = Pt.ncols) :
    RowOK Pt.ncols (saRow omega Pt i r s marker rowBeg).2.toList := by
  have key : ∀ (z : List ((Nat × K) × Bool)) (st : Array Int × Array (Nat × K)), RowInv rowBeg st → PosInv rowBeg st →
      st.1.size = Pt.ncols →
      let res := z.foldl (fun st cs =>
        if cs.1.1 != i && !cs.2 then st else
          let va := if cs.1.1 == i then (1 - omega) * 1 else scaledDia omega (filteredDia i r s) * cs.1.2
          saAccum rowBeg va (Pt.row cs.1.1) st) st
      PosInv rowBeg res ∧ res.1.size = Pt.ncols := by
    intro z
    induction z with
    | nil => intro st _ hp hs; exact ⟨hp, hs⟩
    | cons hd t ih =>
      intro st hi hp hs
      simp only [List.foldl_cons]
      by_cases hskip : (hd.1.1 != i && !hd.2) = true
      · rw [if_pos hskip]; exact ih st hi hp hs
      · rw [if_neg hskip]
        obtain ⟨a1, a2, a3⟩ := saAccum_pos rowBeg
          (if hd.1.1 == i then (1 - omega) * 1 else scaledDia omega (filteredDia i r s) * hd.1.2) (Pt.row hd.1.1) st hi hp
          (fun cpvp hcp => by rw [hs]; exact crs_row_wf Pt hPt _ cpvp hcp)
        exact ih _ a1 a2 (a3.trans hs)
  have hinv : RowInv rowBeg ((marker, #[]) : Array Int × Array (Nat × K)) := fun cp hcp => Or.inl (hlow cp hcp)
  have hpos : PosInv rowBeg ((marker, #[]) : Array Int × Array (Nat × K)) := fun p hp => absurd hp (by simp)
  obtain ⟨h1, h2⟩ := key (r.zip s) (marker, #[]) hinv hpos hsz
  refine ⟨h1.nodup, fun cv hcv => ?_⟩
  have := h1.wf cv hcv
  rw [h2] at this
  exact this

/-- every row of the smoothed prolongation is `RowOK` -/
theorem smoothProlongation_rowOK (omega : K) (A : CRS K) (S : Array (List Bool)) (Pt : CRS K) (hPt : Pt.WF) :
    ∀ j, j < A.nrows → RowOK Pt.ncols ((smoothProlongation omega A S Pt).row j) := by
  have loop : ∀ k, let st := (List.range k).foldl (smoothStep omega A S Pt) (Array.replicate Pt.ncols (-1 : Int), 0, #[])
      st.2.2.size = k ∧ ∀ j, j < k → RowOK Pt.ncols (st.2.2.getD j []) := by
    intro k
    induction k with
    | zero => exact ⟨rfl, fun j hj => absurd hj (Nat.not_lt_zero j)⟩
    | succ k ih =>
      obtain ⟨_, h2, h3, _⟩ := smooth_loop omega A S Pt hPt k
      simp only at ih ⊢
      rw [List.range_succ, List.foldl_append, List.foldl_cons, List.foldl_nil]
      generalize (List.range k).foldl (smoothStep omega A S Pt) (Array.replicate Pt.ncols (-1 : Int), 0, #[]) = st at *
      obtain ⟨i1, i2⟩ := ih
      refine ⟨by simp [smoothStep, i1], fun j hj => ?_⟩
      rcases Nat.lt_succ_iff_lt_or_eq.1 hj with hlt | rfl
      · have := i2 j hlt
        have e : (smoothStep omega A S Pt st k).2.2.getD j [] = st.2.2.getD j [] := by
          simp [smoothStep, Array.getD_eq_getD_getElem?, Array.getElem?_push, i1, Nat.ne_of_lt hlt]
        rw [e]; exact this
      · have e : (smoothStep omega A S Pt st st.2.2.size).2.2.getD st.2.2.size [] =
            (saRow omega Pt st.2.2.size (A.row st.2.2.size) (S.getD st.2.2.size []) st.1 st.2.1).2.toList := by
          simp [smoothStep, Array.getD_eq_getD_getElem?, Array.getElem_push]
        subst i1
        rw [e]
        exact saRow_rowOK omega Pt hPt _ _ _ st.1 st.2.1 h3 h2
  intro j hj
  rw [smoothProlongation_eq]
  exact (loop A.nrows).2 j hj

end
end Coarsening
end Amgcl
