import Amgcl.Model.SkylineLU
import Mathlib.Data.List.Perm.Basic
import Mathlib.Data.List.Range
import Mathlib.Data.Finset.Card
import Mathlib.Data.Fintype.EquivFin
import Mathlib.Data.List.Nodup
import Mathlib.Data.Finset.Dedup
/-!
Permutation arrays: the executable predicate `isPermB` (V-grade checker for `cuthill_mckee::get`, hypothesis of the
skyline theorems) and the propositional form `PermOn n p` used by the proofs about `detail::inverse` and `skyline_lu`.
-/
namespace Amgcl

/-- `p` restricted to indices `< n` is an injective map into `0..n-1` -/
structure PermOn (n : Nat) (p : Array Nat) : Prop where
  size : p.size = n
  lt : ∀ i, i < n → p.getD i 0 < n
  inj : ∀ i j, i < n → j < n → p.getD i 0 = p.getD j 0 → i = j

namespace PermOn

/-- the associated map on `Fin n` -/
def toFin {n : Nat} {p : Array Nat} (h : PermOn n p) : Fin n → Fin n := fun i => ⟨p.getD i.val 0, h.lt i.val i.isLt⟩

theorem toFin_injective {n : Nat} {p : Array Nat} (h : PermOn n p) : Function.Injective h.toFin := by
  intro a b hab
  have := congrArg Fin.val hab
  exact Fin.ext (h.inj a.val b.val a.isLt b.isLt this)

theorem toFin_bijective {n : Nat} {p : Array Nat} (h : PermOn n p) : Function.Bijective h.toFin :=
  (Finite.injective_iff_bijective).mp h.toFin_injective

/-- every `r < n` is hit -/
theorem surj {n : Nat} {p : Array Nat} (h : PermOn n p) (r : Nat) (hr : r < n) : ∃ i, i < n ∧ p.getD i 0 = r := by
  obtain ⟨i, hi⟩ := h.toFin_bijective.2 ⟨r, hr⟩
  exact ⟨i.val, i.isLt, congrArg Fin.val hi⟩

/-- as an equivalence of `Fin n` -/
noncomputable def equiv {n : Nat} {p : Array Nat} (h : PermOn n p) : Fin n ≃ Fin n :=
  Equiv.ofBijective h.toFin h.toFin_bijective

@[simp] theorem equiv_apply {n : Nat} {p : Array Nat} (h : PermOn n p) (i : Fin n) :
    (h.equiv i).val = p.getD i.val 0 := rfl

end PermOn

theorem isPermB_iff (n : Nat) (perm : Array Nat) :
    isPermB n perm = true ↔ perm.size = n ∧ (∀ v ∈ perm.toList, v < n) ∧ perm.toList.Nodup := by
  unfold isPermB
  rw [Bool.and_eq_true, Bool.and_eq_true, beq_iff_eq, List.all_eq_true, decide_eq_true_eq, and_assoc]
  simp only [decide_eq_true_eq]

/-- soundness of the checker: a `true` answer means the array is a permutation of `0..n-1` -/
theorem isPermB_sound (n : Nat) (perm : Array Nat) (h : isPermB n perm = true) :
    perm.toList.Perm (List.range n) := by
  obtain ⟨hs, hlt, hnd⟩ := (isPermB_iff n perm).mp h
  apply List.perm_of_nodup_nodup_toFinset_eq hnd List.nodup_range
  apply Finset.eq_of_subset_of_card_le
  · intro v hv; simp only [List.mem_toFinset] at hv; simp [hlt v hv]
  · rw [List.toFinset_card_of_nodup hnd, List.toFinset_card_of_nodup List.nodup_range]
    simp [hs]

theorem isPermB_permOn (n : Nat) (perm : Array Nat) (h : isPermB n perm = true) : PermOn n perm := by
  obtain ⟨hs, hlt, hnd⟩ := (isPermB_iff n perm).mp h
  refine ⟨hs, ?_, ?_⟩
  · intro i hi
    have : perm.getD i 0 = perm[i]'(hs ▸ hi) := by simp [Array.getD, hs ▸ hi]
    rw [this]; exact hlt _ (by simp)
  · intro i j hi hj hij
    have ei : perm.getD i 0 = perm.toList[i]'(by simpa [hs] using hi) := by simp [Array.getD, hs ▸ hi]
    have ej : perm.getD j 0 = perm.toList[j]'(by simpa [hs] using hj) := by simp [Array.getD, hs ▸ hj]
    rw [ei, ej] at hij
    exact (List.Nodup.getElem_inj_iff hnd).mp hij

end Amgcl
