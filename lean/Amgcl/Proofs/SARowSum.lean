import Amgcl.Proofs.SmoothedAggregation
import Amgcl.Proofs.TentativeProlongation
import Amgcl.Proofs.AggrGraph
import Mathlib.Tactic.FieldSimp
/-!
Row sums of the smoothed prolongation: list/finset sum exchange, well-formedness of `P_tent`, and the algebra of a
zero-row-sum row.
-/
namespace Amgcl
namespace Coarsening
open Finset

section
variable {K : Type} [CommRing K]

theorem sum_range_list_map {α : Type} (m : Nat) (l : List α) (f : Nat → α → K) :
    ∑ c ∈ range m, (l.map (f c)).sum = (l.map (fun x => ∑ c ∈ range m, f c x)).sum := by
  induction l with
  | nil => simp
  | cons a t ih => simp only [List.map_cons, List.sum_cons, sum_add_distrib, ih]

theorem list_sum_map_add {α : Type} (l : List α) (f g : α → K) :
    (l.map (fun x => f x + g x)).sum = (l.map f).sum + (l.map g).sum := by
  induction l with
  | nil => simp
  | cons a t ih => simp only [List.map_cons, List.sum_cons, ih]; ring

theorem list_sum_map_mul_left {α : Type} (l : List α) (d : K) (f : α → K) :
    (l.map (fun x => d * f x)).sum = d * (l.map f).sum := by
  induction l with
  | nil => simp
  | cons a t ih => simp only [List.map_cons, List.sum_cons, ih]; ring

theorem list_sum_ite_const {α : Type} (l : List α) (p : α → Bool) (x : K) :
    (l.map (fun a => if p a = true then x else 0)).sum = (l.countP p : K) * x := by
  induction l with
  | nil => simp
  | cons a t ih =>
    rw [List.map_cons, List.sum_cons, ih, List.countP_cons]
    by_cases h : p a = true
    · simp only [h, if_true]; push_cast; ring
    · simp only [h]; simp

theorem zip_map_self {α β : Type} (l : List α) (g : α → β) : l.zip (l.map g) = l.map (fun a => (a, g a)) := by
  induction l with
  | nil => rfl
  | cons a t ih => simp [ih]

/-- `P_tent` is well formed when every id is below `naggr` -/
theorem ptent_wf (n naggr : Nat) (id : Array Int) (h : ∀ i, i < n → id.getD i aggrRemoved < (naggr : Int)) :
    (tentativeProlongation n naggr id : CRS K).WF := by
  intro r hr cv hcv
  obtain ⟨i, hi, rfl⟩ := List.mem_iff_getElem.1 hr
  simp only [Array.length_toList] at hi
  have hn : i < n := by simpa [tentativeProlongation] using hi
  have hrow : (tentativeProlongation n naggr id : CRS K).rows.toList[i] = (tentativeProlongation n naggr id : CRS K).row i := by
    unfold CRS.row; simp [Array.getD_eq_getD_getElem?, hi]
  rw [hrow, ptent_row n naggr id i hn] at hcv
  by_cases h0 : id.getD i aggrRemoved ≥ 0
  · rw [if_pos h0] at hcv
    simp only [List.mem_singleton] at hcv
    subst hcv
    have := h i hn
    show (id.getD i aggrRemoved).toNat < naggr
    omega
  · rw [if_neg h0] at hcv; simp at hcv

end

section
variable {K : Type} [DecidableEq K]

/-- symmetric as stored: every stored entry `(i, j, v)` has its mirror `(j, i, v)` stored -/
def SymmStored (A : CRS K) : Prop := ∀ i j v, (j, v) ∈ A.row i → (i, v) ∈ A.row j

/-- executable sufficient condition for `SymmStored` -/
def symmStoredb (A : CRS K) : Bool :=
  (List.range A.nrows).all fun i => (A.row i).all fun cv => (A.row cv.1).contains (i, cv.2)

theorem symmStored_of_b (A : CRS K) (h : symmStoredb A = true) : SymmStored A := by
  intro i j v hm
  by_cases hi : i < A.nrows
  · unfold symmStoredb at h
    rw [List.all_eq_true] at h
    have h1 := h i (List.mem_range.2 hi)
    rw [List.all_eq_true] at h1
    have h2 := h1 (j, v) hm
    simpa using h2
  · unfold CRS.row at hm
    unfold CRS.nrows at hi
    rw [Array.getD_eq_getD_getElem?, Array.getElem?_eq_none (by omega)] at hm
    simp at hm

end

section
variable {K : Type} [Field K] [LT K] [DecidableLT K] [DecidableEq K]

theorem getD_default_irrel {α : Type} (a : Array α) (i : Nat) (hi : i < a.size) (d d' : α) :
    a.getD i d = a.getD i d' := by
  simp [Array.getD_eq_getD_getElem?, hi]

theorem sa_rowsum_one_aux (epsSq omega : K) (A : CRS K) (hA : A.WF) (hsq : A.ncols = A.nrows)
    (hsym : SymmStored A) (agg : Aggregates) (h : plainAggregates epsSq A = .ok agg)
    (i : Nat) (hi : i < A.nrows)
    (hdiag1 : (A.row i).countP (fun cv => cv.1 == i) = 1)
    (hrs : ((A.row i).map (·.2)).sum = 0)
    (hstrong : (agg.strong.getD i []).any id = true)
    (hdia : filteredDia i (A.row i) (agg.strong.getD i []) ≠ 0) :
    ∑ c ∈ range agg.count,
      (smoothProlongation omega A agg.strong (tentativeProlongation A.nrows agg.count agg.id)).get i c = 1 := by
  obtain ⟨_, hS, hsz, hid, _⟩ := plainAggregates_spec epsSq A agg h
  -- ids with the default of `tentativeProlongation`
  have hidr : ∀ j, j < A.nrows → agg.id.getD j aggrRemoved = agg.id.getD j 0 :=
    fun j hj => getD_default_irrel _ _ (by rw [hsz]; exact hj) _ _
  have hlt : ∀ j, j < A.nrows → agg.id.getD j aggrRemoved < (agg.count : Int) := by
    intro j hj
    rw [hidr j hj]
    cases hs : (agg.strong.getD j []).any id
    · rw [(hid j hj).1 hs]; omega
    · exact ((hid j hj).2 hs).2
  have hPt : (tentativeProlongation A.nrows agg.count agg.id : CRS K).WF := ptent_wf _ _ _ hlt
  -- row sums of P_tent
  have hR : ∀ j, j < A.nrows → (agg.strong.getD j []).any id = true →
      ∑ c ∈ range agg.count, (tentativeProlongation A.nrows agg.count agg.id : CRS K).get j c = 1 := by
    intro j hj hs
    rw [ptent_rowsum _ _ _ j hj (hlt j hj), if_pos]
    rw [hidr j hj]; exact ((hid j hj).2 hs).1
  set g := strongFlag epsSq A i with hg
  set d : K := scaledDia omega (filteredDia i (A.row i) ((A.row i).map g)) with hd
  -- the formula, over the stored entries of row i
  have hget : ∀ c, (smoothProlongation omega A agg.strong (tentativeProlongation A.nrows agg.count agg.id)).get i c =
      ((A.row i).map (fun cv => saCoef omega d i (cv, g cv) *
        (tentativeProlongation A.nrows agg.count agg.id : CRS K).get cv.1 c)).sum := by
    intro c
    rw [smoothProlongation_get omega A agg.strong _ hPt i hi c, hS i hi, zip_map_self, List.map_map]
    rfl
  simp only [hget]
  rw [sum_range_list_map]
  -- every entry with a non-zero coefficient points to an aggregated row
  have hterm : ∀ cv ∈ A.row i,
      (∑ c ∈ range agg.count, saCoef omega d i (cv, g cv) *
        (tentativeProlongation A.nrows agg.count agg.id : CRS K).get cv.1 c) = saCoef omega d i (cv, g cv) := by
    intro cv hcv
    rw [← mul_sum]
    unfold saCoef
    simp only
    by_cases hc : cv.1 = i
    · rw [if_pos hc, hc, hR i hi hstrong, mul_one]
    · rw [if_neg hc]
      by_cases hgs : g cv = true
      · rw [if_pos hgs]
        have hj : cv.1 < A.nrows := by
          rw [← hsq]; exact hA _ (row_mem_rows A i hi) cv hcv
        have hmir : (i, cv.2) ∈ A.row cv.1 := hsym i cv.1 cv.2 hcv
        have hflag : strongFlag epsSq A cv.1 (i, cv.2) = true := by
          rw [hg] at hgs
          unfold strongFlag at hgs ⊢
          simp only [Bool.and_eq_true, decide_eq_true_eq] at hgs ⊢
          refine ⟨fun hx => hc hx.symm, ?_⟩
          have : epsSq * (diagonal A).getD cv.1 0 * (diagonal A).getD i 0 =
              epsSq * (diagonal A).getD i 0 * (diagonal A).getD cv.1 0 := by ring
          rw [this]; exact hgs.2
        have hsj : (agg.strong.getD cv.1 []).any id = true := by
          rw [hS cv.1 hj, List.any_map]
          exact List.any_eq_true.2 ⟨(i, cv.2), hmir, hflag⟩
        rw [hR cv.1 hj hsj, mul_one]
      · rw [if_neg hgs, zero_mul]
  rw [List.map_congr_left hterm]
  -- sum of the coefficients
  have hsplit : ∀ cv : Nat × K, saCoef omega d i (cv, g cv) =
      (if (cv.1 == i) = true then (1 - omega) else 0) + d * (if cv.1 = i ∨ g cv = false then 0 else cv.2) := by
    intro cv
    unfold saCoef
    simp only
    by_cases hc : cv.1 = i
    · simp [hc]
    · by_cases hgs : g cv = true
      · simp [hc, hgs]
      · simp [hc, hgs]
  simp only [hsplit]
  rw [list_sum_map_add, list_sum_ite_const, hdiag1, list_sum_map_mul_left]
  -- strong part = - filtered diagonal
  have hdiaeq := filteredDia_eq_sum i (A.row i) ((A.row i).map g)
  rw [zip_map_self, List.map_map] at hdiaeq
  have hsum : ((A.row i).map (fun cv => if cv.1 = i ∨ g cv = false then (0 : K) else cv.2)).sum =
      - filteredDia i (A.row i) ((A.row i).map g) := by
    have hadd : ((A.row i).map (fun cv => (if cv.1 = i ∨ g cv = false then cv.2 else 0) +
        (if cv.1 = i ∨ g cv = false then (0 : K) else cv.2))).sum = 0 := by
      have hcongr : ((A.row i).map (fun cv => (if cv.1 = i ∨ g cv = false then cv.2 else 0) +
          (if cv.1 = i ∨ g cv = false then (0 : K) else cv.2))) = (A.row i).map (·.2) := by
        apply List.map_congr_left
        intro cv _
        by_cases hx : cv.1 = i ∨ g cv = false
        · rw [if_pos hx, if_pos hx, add_zero]
        · rw [if_neg hx, if_neg hx, zero_add]
      rw [hcongr, hrs]
    rw [list_sum_map_add] at hadd
    have : filteredDia i (A.row i) ((A.row i).map g) =
        ((A.row i).map (fun cv => if cv.1 = i ∨ g cv = false then cv.2 else 0)).sum := by
      rw [hdiaeq]; rfl
    rw [this]
    exact eq_neg_of_add_eq_zero_right hadd
  rw [hsum]
  have hne : filteredDia i (A.row i) ((A.row i).map g) ≠ 0 := by rw [← hS i hi]; exact hdia
  rw [hd]
  unfold scaledDia
  rw [if_neg hne]
  field_simp
  ring

end
end Coarsening
end Amgcl
