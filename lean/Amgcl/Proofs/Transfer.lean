import Amgcl.Proofs.SARowSum
/-!
Unfolding lemmas for the composed functions: `pointwiseAggregates` with `block_size = 1`, the structure of its
`block_size > 1` result, `aggregationTransfer`, `smoothedAggregationTransfer`.
-/
namespace Amgcl
namespace Coarsening

section
variable {K : Type} [Mul K] [Zero K] [LT K] [DecidableLT K]

theorem removeSmall_id (b m : Nat) (hm : m ≤ 1) (ci : Nat × Array Int) : removeSmallAggregates b m ci = ci := by
  unfold removeSmallAggregates; rw [if_pos hm]

/-- `block_size = 1`, `min_aggregate ≤ 1`: `pointwise_aggregates` is `plain_aggregates` -/
theorem pointwise_block1 (norm : K → K) (epsSq : K) (m : Nat) (hm : m ≤ 1) (A : CRS K) :
    pointwiseAggregates norm epsSq 1 m A = plainAggregates epsSq A := by
  unfold pointwiseAggregates
  rw [if_pos rfl]
  cases plainAggregates epsSq A with
  | ok a =>
    simp only [removeSmall_id 1 m hm]
    rw [if_neg (fun h => absurd h.1 (by omega))]
  | emptyLevel => rfl
  | precondition => rfl

/-- `block_size > 1`, `min_aggregate ≤ 1`: the result is the lift of the plain aggregates of the pointwise matrix -/
theorem pointwise_blocks (norm : K → K) (epsSq : K) (b m : Nat) (hb : b ≠ 1) (hm : m ≤ 1) (A : CRS K)
    (agg : Aggregates) (h : pointwiseAggregates norm epsSq b m A = .ok agg) :
    ∃ Ap pw, pointwiseMatrix norm A b = .ok Ap ∧ plainAggregates epsSq Ap = .ok pw ∧
      agg.count = pw.count * b ∧ agg.id.size = Ap.nrows * b ∧
      ∀ ia, ia < Ap.nrows * b → agg.id.getD ia 0 = (b : Int) * pw.id.getD (ia / b) 0 + ((ia % b : Nat) : Int) := by
  unfold pointwiseAggregates at h
  rw [if_neg hb] at h
  cases hAp : pointwiseMatrix norm A b with
  | ok Ap =>
    rw [hAp] at h
    simp only at h
    cases hpw : plainAggregates epsSq Ap with
    | ok pw =>
      rw [hpw] at h
      simp only [removeSmall_id b m hm] at h
      rw [if_neg (fun h => absurd h.1 (by omega))] at h
      injection h with h
      subst h
      refine ⟨Ap, pw, rfl, hpw, rfl, by simp, fun ia hia => ?_⟩
      simp [Array.getD_eq_getD_getElem?, hia]
    | emptyLevel => rw [hpw] at h; exact absurd h (by simp)
    | precondition => rw [hpw] at h; exact absurd h (by simp)
  | emptyLevel => rw [hAp] at h; exact absurd h (by simp)
  | precondition => rw [hAp] at h; exact absurd h (by simp)

end

section
variable {K : Type} [Mul K] [Zero K] [One K] [LT K] [DecidableLT K]

theorem aggregationTransfer_ok (norm : K → K) (prm : AggrParams K) (A : CRS K) (T : Transfer K)
    (h : aggregationTransfer norm prm A = .ok T) :
    ∃ aggr, pointwiseAggregates norm prm.epsSq prm.blockSize prm.minAggregate A = .ok aggr ∧
      T.P = tentativeProlongation A.nrows aggr.count aggr.id := by
  unfold aggregationTransfer at h
  cases hp : pointwiseAggregates norm prm.epsSq prm.blockSize prm.minAggregate A with
  | ok aggr => rw [hp] at h; injection h with h; exact ⟨aggr, rfl, by rw [← h]⟩
  | emptyLevel => rw [hp] at h; exact absurd h (by simp)
  | precondition => rw [hp] at h; exact absurd h (by simp)

end

section
variable {K : Type} [Add K] [Mul K] [Sub K] [Neg K] [Div K] [Zero K] [One K] [DecidableEq K] [LT K] [DecidableLT K]

theorem smoothedAggregationTransfer_ok (norm : K → K) (prm : SAParams K) (A : CRS K) (T : Transfer K)
    (h : smoothedAggregationTransfer norm prm A = .ok T) :
    ∃ aggr, pointwiseAggregates norm prm.epsSq prm.blockSize prm.minAggregate A = .ok aggr ∧
      T.P = smoothProlongation (saOmega norm prm A) A aggr.strong
        (tentativeProlongation A.nrows aggr.count aggr.id) := by
  unfold smoothedAggregationTransfer at h
  cases hp : pointwiseAggregates norm prm.epsSq prm.blockSize prm.minAggregate A with
  | ok aggr => rw [hp] at h; injection h with h; exact ⟨aggr, rfl, by rw [← h]⟩
  | emptyLevel => rw [hp] at h; exact absurd h (by simp)
  | precondition => rw [hp] at h; exact absurd h (by simp)

end
end Coarsening
end Amgcl
