import Amgcl.Proofs.EnergyBasic
import Mathlib.LinearAlgebra.Matrix.Block
import Mathlib.Algebra.Order.BigOperators.Ring.Finset
import Mathlib.Algebra.Order.BigOperators.Group.Finset
import Mathlib.Algebra.BigOperators.Field
/-!
# Smoothers in the energy norm

A smoother sweep is `x ↦ x + N (f − A x)` with `N = M⁻¹` for a splitting matrix `M`
(`M = D/ω` damped Jacobi, `M = D + L` forward Gauss–Seidel, `M = Dᵀ + U = (D+L)ᵀ` backward Gauss–Seidel,
`M = diag(Σ_j a_ij² / a_ii)` SPAI-0).

* `smoother_energy_identity` — `‖e‖²_A − ‖(1 − N A) e‖²_A = ⟪(M + Mᵀ − A) y, y⟫`, `y = N A e`;
* `contr_of_split` / `contr_of_split_transpose` — if `M + Mᵀ − A` is positive definite the sweep **and its
  `A`-adjoint** `1 − Nᵀ A` are strictly `A`-contracting;
* `sdd_pos` — a symmetric strictly diagonally dominant matrix (positive diagonal) is positive definite;
* instances: `jacobi_contr`, `gs_contr`, `gsBack_contr`, `spai0_contr`.
-/
set_option linter.unusedSectionVars false
namespace Amgcl.Energy
open Matrix

variable {𝕜 : Type*} [Field 𝕜] [LinearOrder 𝕜] [IsStrictOrderedRing 𝕜]
variable {ι : Type*} [Fintype ι] [DecidableEq ι]

/-- `(c M)⁻¹ = c⁻¹ M⁻¹` for the (total) matrix inverse over a field, `c ≠ 0` -/
theorem inv_smul_field {c : 𝕜} (hc : c ≠ 0) (M : Matrix ι ι 𝕜) : (c • M)⁻¹ = c⁻¹ • M⁻¹ := by
  by_cases h : IsUnit M.det
  · exact inv_smul' M (Units.mk0 c hc) h
  · have h' : ¬ IsUnit (c • M).det := by
      rw [det_smul, isUnit_iff_ne_zero, not_not] at *
      rw [h, mul_zero]
    rw [nonsing_inv_apply_not_isUnit _ h, nonsing_inv_apply_not_isUnit _ h', smul_zero]

/-- positive definiteness of the quadratic form of a not necessarily symmetric matrix -/
def PosDefForm (B : Matrix ι ι 𝕜) : Prop := ∀ y : ι → 𝕜, y ≠ 0 → 0 < y ⬝ᵥ B *ᵥ y

section split
variable {A M N : Matrix ι ι 𝕜}

/-- **the smoothing identity**: with `y = N A e` and `M N = 1`,
`‖e‖²_A − ‖(1 − N A) e‖²_A = yᵀ (M + Mᵀ − A) y` -/
theorem smoother_energy_identity (hA : Aᵀ = A) (hMN : M * N = 1) (e : ι → 𝕜) :
    en A e e - en A ((1 - N * A) *ᵥ e) ((1 - N * A) *ᵥ e) =
      (N *ᵥ (A *ᵥ e)) ⬝ᵥ (M + Mᵀ - A) *ᵥ (N *ᵥ (A *ᵥ e)) := by
  set y := N *ᵥ (A *ᵥ e) with hy
  have hS : (1 - N * A) *ᵥ e = e - y := by rw [sub_mulVec, one_mulVec, ← mulVec_mulVec]
  have hMy : M *ᵥ y = A *ᵥ e := by rw [hy, mulVec_mulVec, hMN, one_mulVec]
  have h1 : en A e y = y ⬝ᵥ M *ᵥ y := by
    rw [en_comm A e y hA, en, ← hMy]
  have h2 : y ⬝ᵥ Mᵀ *ᵥ y = y ⬝ᵥ M *ᵥ y := by
    rw [dotProduct_mulVec, vecMul_transpose, dotProduct_comm]
  rw [hS, en_sub_sub _ _ _ hA, sub_mulVec, add_mulVec, dotProduct_sub, dotProduct_add, h2, h1]
  unfold en; ring

/-- a sweep whose splitting satisfies `M + Mᵀ − A ≻ 0` is strictly `A`-contracting -/
theorem contr_of_split (hA : IsSPD A) (hMN : M * N = 1) (hpos : PosDefForm (M + Mᵀ - A)) :
    Contr A (1 - N * A) := by
  intro e he
  have hid := smoother_energy_identity hA.1 hMN e
  have hy : N *ᵥ (A *ᵥ e) ≠ 0 := by
    intro h0
    apply hA.mulVec_ne_zero he
    have : M *ᵥ (N *ᵥ (A *ᵥ e)) = A *ᵥ e := by rw [mulVec_mulVec, hMN, one_mulVec]
    rw [← this, h0, mulVec_zero]
  have := hpos _ hy
  linarith

/-- … and so is its `A`-adjoint `1 − Nᵀ A` (the post-smoother of a symmetric cycle) -/
theorem contr_of_split_transpose (hA : IsSPD A) (hMN : M * N = 1) (hpos : PosDefForm (M + Mᵀ - A)) :
    Contr A (1 - Nᵀ * A) := by
  have hNM : N * M = 1 := mul_eq_one_comm.mp hMN
  apply contr_of_split (M := Mᵀ) hA
  · rw [← transpose_mul, hNM, transpose_one]
  · rwa [transpose_transpose, add_comm]

/-- `1 − Nᵀ A` is the `A`-adjoint of `1 − N A`: `⟪(1 − N A) u, v⟫_A = ⟪u, (1 − Nᵀ A) v⟫_A` -/
theorem en_smoother_adjoint (hA : Aᵀ = A) (N : Matrix ι ι 𝕜) (u v : ι → 𝕜) :
    en A ((1 - N * A) *ᵥ u) v = en A u ((1 - Nᵀ * A) *ᵥ v) := by
  rw [en_mulVec_left, en_mulVec_right, en]
  congr 2
  simp only [transpose_sub, transpose_one, transpose_mul, hA, Matrix.sub_mul, Matrix.mul_sub, Matrix.one_mul,
    Matrix.mul_one, Matrix.mul_assoc]

end split

/-! ### diagonal dominance -/

/-- sum of the absolute values of the off-diagonal entries of row `i` -/
def offSum (B : Matrix ι ι 𝕜) (i : ι) : 𝕜 := ∑ j, if j = i then 0 else |B i j|

theorem offSum_nonneg (B : Matrix ι ι 𝕜) (i : ι) : 0 ≤ offSum B i :=
  Finset.sum_nonneg fun j _ => by split <;> simp

/-- **a symmetric strictly diagonally dominant matrix is positive definite** -/
theorem sdd_pos (B : Matrix ι ι 𝕜) (hB : Bᵀ = B) (hd : ∀ i, offSum B i < B i i) : PosDefForm B := by
  intro v hv
  set off : ι → ι → 𝕜 := fun i j => if j = i then 0 else |B i j| with hoff
  have hsym : ∀ i j, off i j = off j i := by
    intro i j
    have hij : B j i = B i j := by
      have := congrFun (congrFun hB i) j; simpa [transpose_apply] using this
    simp only [hoff]
    by_cases h : j = i
    · subst h; simp
    · rw [if_neg h, if_neg (Ne.symm h), hij]
  have key : ∀ i j, (if j = i then B i i * v i ^ 2 else 0) - off i j * (v i ^ 2 + v j ^ 2) / 2
      ≤ v i * (B i j * v j) := by
    intro i j
    by_cases h : j = i
    · subst h; simp only [hoff, if_true]; apply le_of_eq; ring
    · simp only [hoff, if_neg h]
      rcases abs_cases (B i j) with ⟨h1, _⟩ | ⟨h1, _⟩ <;> rw [h1]
      · nlinarith [sq_nonneg (v i + v j), mul_nonneg (abs_nonneg (B i j)) (sq_nonneg (v i + v j)), h1.symm ▸ abs_nonneg (B i j)]
      · nlinarith [sq_nonneg (v i - v j), mul_nonneg (abs_nonneg (B i j)) (sq_nonneg (v i - v j))]
  have hexp : v ⬝ᵥ B *ᵥ v = ∑ i, ∑ j, v i * (B i j * v j) := by
    simp only [dotProduct, mulVec, Finset.mul_sum]
  have hswap : ∑ i, ∑ j, off i j * v j ^ 2 = ∑ i, ∑ j, off i j * v i ^ 2 := by
    rw [Finset.sum_comm]
    refine Finset.sum_congr rfl fun i _ => Finset.sum_congr rfl fun j _ => ?_
    rw [hsym]
  have hlow : ∑ i, (B i i - offSum B i) * v i ^ 2 ≤ v ⬝ᵥ B *ᵥ v := by
    rw [hexp]
    have e1 : ∀ i, ∑ j, ((if j = i then B i i * v i ^ 2 else 0) - off i j * (v i ^ 2 + v j ^ 2) / 2)
        = B i i * v i ^ 2 - (∑ j, off i j * v i ^ 2) / 2 - (∑ j, off i j * v j ^ 2) / 2 := by
      intro i
      rw [Finset.sum_sub_distrib, Finset.sum_ite_eq' Finset.univ i, if_pos (Finset.mem_univ i),
        Finset.sum_div, Finset.sum_div, sub_sub, ← Finset.sum_add_distrib]
      congr 1
      refine Finset.sum_congr rfl fun j _ => ?_
      ring
    have e2 : ∑ i, (B i i - offSum B i) * v i ^ 2 = ∑ i, B i i * v i ^ 2 - ∑ i, ∑ j, off i j * v i ^ 2 := by
      rw [← Finset.sum_sub_distrib]
      refine Finset.sum_congr rfl fun i _ => ?_
      rw [sub_mul, offSum, Finset.sum_mul]
    have e3 : ∑ i, ∑ j, ((if j = i then B i i * v i ^ 2 else 0) - off i j * (v i ^ 2 + v j ^ 2) / 2)
        = ∑ i, B i i * v i ^ 2 - (∑ i, ∑ j, off i j * v i ^ 2) / 2 - (∑ i, ∑ j, off i j * v j ^ 2) / 2 := by
      rw [Finset.sum_congr rfl fun i _ => e1 i, Finset.sum_sub_distrib, Finset.sum_sub_distrib,
        ← Finset.sum_div, ← Finset.sum_div]
    calc ∑ i, (B i i - offSum B i) * v i ^ 2
        = ∑ i, ∑ j, ((if j = i then B i i * v i ^ 2 else 0) - off i j * (v i ^ 2 + v j ^ 2) / 2) := by
          rw [e2, e3, hswap]; ring
      _ ≤ ∑ i, ∑ j, v i * (B i j * v j) :=
          Finset.sum_le_sum fun i _ => Finset.sum_le_sum fun j _ => key i j
  obtain ⟨i0, hi0⟩ : ∃ i, v i ≠ 0 := by
    by_contra hcon; exact hv (funext fun i => not_not.mp fun h => hcon ⟨i, h⟩)
  have hpos : 0 < ∑ i, (B i i - offSum B i) * v i ^ 2 := by
    apply Finset.sum_pos'
    · intro i _; exact mul_nonneg (sub_nonneg.mpr (hd i).le) (sq_nonneg _)
    · exact ⟨i0, Finset.mem_univ _, mul_pos (sub_pos.mpr (hd i0)) (by positivity)⟩
  exact hpos.trans_le hlow

/-- weak diagonal dominance by rows -/
def WeakDD (A : Matrix ι ι 𝕜) : Prop := ∀ i, offSum A i ≤ A i i

/-- the diagonal of an SPD matrix is positive -/
theorem IsSPD.diag_pos {A : Matrix ι ι 𝕜} (hA : IsSPD A) (i : ι) : 0 < A i i := by
  have := hA.pos (v := Pi.single i 1) (by
    intro h; have := congrFun h i; simp at this)
  simpa [en] using this

/-! ### damped Jacobi (`amgcl/relaxation/damped_jacobi.hpp`): `x += ω D⁻¹ (f − A x)` -/

/-- `N = ω D⁻¹` -/
def jacobiN (ω : 𝕜) (A : Matrix ι ι 𝕜) : Matrix ι ι 𝕜 := ω • diagonal fun i => (A i i)⁻¹
/-- `M = D / ω` -/
def jacobiM (ω : 𝕜) (A : Matrix ι ι 𝕜) : Matrix ι ι 𝕜 := ω⁻¹ • diagonal fun i => A i i

theorem jacobiM_mul_N {ω : 𝕜} (hω : ω ≠ 0) {A : Matrix ι ι 𝕜} (hd : ∀ i, A i i ≠ 0) :
    jacobiM ω A * jacobiN ω A = 1 := by
  ext i j
  by_cases h : i = j
  · subst h
    have := hd i
    simp [jacobiM, jacobiN]
    field_simp
  · simp [jacobiM, jacobiN, h]

theorem jacobiN_transpose (ω : 𝕜) (A : Matrix ι ι 𝕜) : (jacobiN ω A)ᵀ = jacobiN ω A := by
  simp [jacobiN]

theorem jacobiN_smul {c : 𝕜} (ω : 𝕜) (A : Matrix ι ι 𝕜) : jacobiN ω (c • A) = c⁻¹ • jacobiN ω A := by
  ext i j
  by_cases h : i = j
  · subst h; simp [jacobiN]; ring
  · simp [jacobiN, h]

/-- damped Jacobi with `2D/ω − A ≻ 0` is strictly `A`-contracting -/
theorem jacobi_contr_of_pos {ω : 𝕜} (hω : ω ≠ 0) {A : Matrix ι ι 𝕜} (hA : IsSPD A)
    (hpos : PosDefForm (jacobiM ω A + (jacobiM ω A)ᵀ - A)) : Contr A (1 - jacobiN ω A * A) :=
  contr_of_split hA (jacobiM_mul_N hω fun i => (hA.diag_pos i).ne') hpos

/-- for `A` SPD, weakly diagonally dominant and `0 < ω < 1`, `2D/ω − A` is positive definite -/
theorem jacobi_split_pos {ω : 𝕜} (h0 : 0 < ω) (h1 : ω < 1) {A : Matrix ι ι 𝕜} (hA : IsSPD A) (hdd : WeakDD A) :
    PosDefForm (jacobiM ω A + (jacobiM ω A)ᵀ - A) := by
  apply sdd_pos
  · simp [jacobiM, hA.1]
  · intro i
    have hoff : offSum (jacobiM ω A + (jacobiM ω A)ᵀ - A) i = offSum A i := by
      unfold offSum
      refine Finset.sum_congr rfl fun j _ => ?_
      by_cases h : j = i
      · simp [h]
      · simp [jacobiM, h, Ne.symm h, diagonal]
    rw [hoff]
    have hd := hA.diag_pos i
    have hinv : 1 < ω⁻¹ := (one_lt_inv₀ h0).mpr h1
    have : (jacobiM ω A + (jacobiM ω A)ᵀ - A) i i = 2 * ω⁻¹ * A i i - A i i := by
      simp [jacobiM, diagonal]; ring
    rw [this]
    have := hdd i
    nlinarith

/-- **damped Jacobi** on an SPD weakly diagonally dominant matrix with `0 < ω < 1` is strictly `A`-contracting -/
theorem jacobi_contr {ω : 𝕜} (h0 : 0 < ω) (h1 : ω < 1) {A : Matrix ι ι 𝕜} (hA : IsSPD A) (hdd : WeakDD A) :
    Contr A (1 - jacobiN ω A * A) :=
  jacobi_contr_of_pos h0.ne' hA (jacobi_split_pos h0 h1 hA hdd)

/-! ### SPAI-0 (`amgcl/relaxation/spai0.hpp`): `x += diag(a_ii / Σ_j a_ij²) (f − A x)` -/

/-- `N = diag(a_ii / Σ_j a_ij²)` -/
def spai0N (A : Matrix ι ι 𝕜) : Matrix ι ι 𝕜 := diagonal fun i => A i i / ∑ j, A i j ^ 2
/-- `M = diag(Σ_j a_ij² / a_ii)` -/
def spai0M (A : Matrix ι ι 𝕜) : Matrix ι ι 𝕜 := diagonal fun i => (∑ j, A i j ^ 2) / A i i

theorem rowSq_pos {A : Matrix ι ι 𝕜} {i : ι} (hd : A i i ≠ 0) : 0 < ∑ j, A i j ^ 2 := by
  apply Finset.sum_pos'
  · intro j _; positivity
  · exact ⟨i, Finset.mem_univ _, by positivity⟩

theorem spai0M_mul_N {A : Matrix ι ι 𝕜} (hd : ∀ i, A i i ≠ 0) : spai0M A * spai0N A = 1 := by
  simp only [spai0M, spai0N, diagonal_mul_diagonal]
  conv_rhs => rw [← diagonal_one]
  congr 1; funext i
  have := (rowSq_pos (hd i)).ne'
  field_simp [hd i]

theorem spai0N_transpose (A : Matrix ι ι 𝕜) : (spai0N A)ᵀ = spai0N A := by simp [spai0N]

theorem spai0N_smul {c : 𝕜} (hc : c ≠ 0) (A : Matrix ι ι 𝕜) : spai0N (c • A) = c⁻¹ • spai0N A := by
  ext i j
  by_cases h : i = j
  · subst h
    simp only [spai0N, diagonal_apply_eq, Matrix.smul_apply, smul_eq_mul, mul_pow, ← Finset.mul_sum]
    by_cases hs : ∑ j, A i j ^ 2 = 0
    · simp [hs]
    · field_simp
  · simp [spai0N, diagonal, h]

/-- for `A` SPD and weakly diagonally dominant, `2 M − A` is positive definite for the SPAI-0 splitting -/
theorem spai0_split_pos {A : Matrix ι ι 𝕜} (hA : IsSPD A) (hdd : WeakDD A) :
    PosDefForm (spai0M A + (spai0M A)ᵀ - A) := by
  apply sdd_pos
  · simp [spai0M, hA.1]
  · intro i
    have hoff : offSum (spai0M A + (spai0M A)ᵀ - A) i = offSum A i := by
      unfold offSum
      refine Finset.sum_congr rfl fun j _ => ?_
      by_cases h : j = i
      · simp [h]
      · simp [spai0M, h, Ne.symm h, diagonal]
    rw [hoff]
    have hd := hA.diag_pos i
    have hdiag : (spai0M A + (spai0M A)ᵀ - A) i i = 2 * ((∑ j, A i j ^ 2) / A i i) - A i i := by
      simp [spai0M, diagonal]; ring
    rw [hdiag]
    -- Σ_j a_ij² = a_ii² + T,  T = Σ_{j≠i} a_ij² ≥ 0, and T = 0 forces all off-diagonal entries to vanish
    set T : 𝕜 := ∑ j, if j = i then 0 else A i j ^ 2 with hT
    have hsplit : ∑ j, A i j ^ 2 = A i i ^ 2 + T := by
      have : ∀ j, A i j ^ 2 = (if j = i then A i i ^ 2 else 0) + (if j = i then 0 else A i j ^ 2) := by
        intro j; by_cases h : j = i
        · subst h; simp
        · simp [h]
      rw [Finset.sum_congr rfl fun j _ => this j, Finset.sum_add_distrib, Finset.sum_ite_eq' Finset.univ i,
        if_pos (Finset.mem_univ i)]
    have hTnn : 0 ≤ T := Finset.sum_nonneg fun j _ => by split <;> positivity
    have hval : 2 * ((∑ j, A i j ^ 2) / A i i) - A i i = A i i + 2 * T / A i i := by
      rw [hsplit]; field_simp; ring
    rw [hval]
    rcases hTnn.lt_or_eq with hTpos | hT0
    · have : 0 < 2 * T / A i i := by positivity
      have := hdd i
      linarith
    · have hzero : offSum A i = 0 := by
        unfold offSum
        apply Finset.sum_eq_zero
        intro j _
        by_cases h : j = i
        · simp [h]
        · have hj := (Finset.sum_eq_zero_iff_of_nonneg (fun j _ => by split <;> positivity)).mp hT0.symm j
            (Finset.mem_univ j)
          simp only [if_neg h] at hj ⊢
          have : A i j = 0 := by simpa using hj
          simp [this]
      rw [hzero, ← hT0]; simp [hd]

/-- **SPAI-0** on an SPD weakly diagonally dominant matrix is strictly `A`-contracting -/
theorem spai0_contr {A : Matrix ι ι 𝕜} (hA : IsSPD A) (hdd : WeakDD A) : Contr A (1 - spai0N A * A) :=
  contr_of_split hA (spai0M_mul_N fun i => (hA.diag_pos i).ne') (spai0_split_pos hA hdd)

/-! ### Gauss–Seidel (`amgcl/relaxation/gauss_seidel.hpp`, serial sweeps): forward `M = D + L`, backward `M = D + U` -/
section gs
variable {n : ℕ}

/-- lower triangle including the diagonal, `D + L` -/
def gsM (A : Matrix (Fin n) (Fin n) 𝕜) : Matrix (Fin n) (Fin n) 𝕜 := of fun i j => if j ≤ i then A i j else 0
/-- upper triangle including the diagonal, `D + U` -/
def gsMback (A : Matrix (Fin n) (Fin n) 𝕜) : Matrix (Fin n) (Fin n) 𝕜 := of fun i j => if i ≤ j then A i j else 0
/-- forward sweep `x ↦ x + (D+L)⁻¹ (f − A x)` -/
noncomputable def gsN (A : Matrix (Fin n) (Fin n) 𝕜) : Matrix (Fin n) (Fin n) 𝕜 := (gsM A)⁻¹
/-- backward sweep `x ↦ x + (D+U)⁻¹ (f − A x)` -/
noncomputable def gsNback (A : Matrix (Fin n) (Fin n) 𝕜) : Matrix (Fin n) (Fin n) 𝕜 := (gsMback A)⁻¹

variable {A : Matrix (Fin n) (Fin n) 𝕜}

theorem gsM_det (A : Matrix (Fin n) (Fin n) 𝕜) : (gsM A).det = ∏ i, A i i := by
  rw [det_of_isLowerTriangular]
  · simp [gsM]
  · intro i j hij
    have : i < j := by simpa using hij
    simp [gsM, not_le.mpr this]

theorem gsMback_eq_transpose (hA : Aᵀ = A) : gsMback A = (gsM A)ᵀ := by
  ext i j
  have : A j i = A i j := by have := congrFun (congrFun hA i) j; simpa [transpose_apply] using this
  simp [gsMback, gsM, this]

theorem gsM_mul_N (hd : ∀ i, A i i ≠ 0) : gsM A * gsN A = 1 := by
  apply mul_nonsing_inv
  rw [gsM_det, isUnit_iff_ne_zero]
  exact Finset.prod_ne_zero_iff.mpr fun i _ => hd i

/-- the backward sweep is the transpose (hence gives the `A`-adjoint) of the forward sweep -/
theorem gsNback_eq_transpose (hA : Aᵀ = A) : gsNback A = (gsN A)ᵀ := by
  rw [gsNback, gsN, gsMback_eq_transpose hA, transpose_nonsing_inv]

/-- `M + Mᵀ − A = D` for the Gauss–Seidel splitting of a symmetric matrix -/
theorem gs_split (hA : Aᵀ = A) : gsM A + (gsM A)ᵀ - A = diagonal fun i => A i i := by
  ext i j
  have hji : A j i = A i j := by have := congrFun (congrFun hA i) j; simpa [transpose_apply] using this
  rcases lt_trichotomy i j with h | h | h
  · simp [gsM, diagonal, h.ne, h.le, not_le.mpr h, hji]
  · subst h; simp [gsM]
  · simp [gsM, diagonal, h.ne', h.le, not_le.mpr h]

theorem gs_split_pos (hA : IsSPD A) : PosDefForm (gsM A + (gsM A)ᵀ - A) := by
  rw [gs_split hA.1]
  apply sdd_pos
  · simp
  · intro i
    have : offSum (diagonal fun i => A i i) i = 0 := by
      unfold offSum
      apply Finset.sum_eq_zero; intro j _
      by_cases h : j = i
      · simp [h]
      · simp [h, diagonal, Ne.symm h]
    rw [this]; simpa using hA.diag_pos i

/-- **forward Gauss–Seidel** on an SPD matrix is strictly `A`-contracting:
`‖e‖²_A − ‖Se‖²_A = ⟪D y, y⟫ > 0`, `y = (D+L)⁻¹ A e` -/
theorem gs_contr (hA : IsSPD A) : Contr A (1 - gsN A * A) :=
  contr_of_split hA (gsM_mul_N fun i => (hA.diag_pos i).ne') (gs_split_pos hA)

/-- **backward Gauss–Seidel** is strictly `A`-contracting as well -/
theorem gsBack_contr (hA : IsSPD A) : Contr A (1 - gsNback A * A) := by
  rw [gsNback_eq_transpose hA.1]
  exact contr_of_split_transpose hA (gsM_mul_N fun i => (hA.diag_pos i).ne') (gs_split_pos hA)

theorem gsM_smul (c : 𝕜) (A : Matrix (Fin n) (Fin n) 𝕜) : gsM (c • A) = c • gsM A := by
  ext i j; simp [gsM]

theorem gsN_smul {c : 𝕜} (hc : c ≠ 0) (A : Matrix (Fin n) (Fin n) 𝕜) : gsN (c • A) = c⁻¹ • gsN A := by
  rw [gsN, gsN, gsM_smul, inv_smul_field hc]

end gs

end Amgcl.Energy
