import Amgcl.Proofs.SolverBiCGStabLMin
import Amgcl.Model.SolverBiCGStab
/-!
BiCGStab(1) REFINES BiCGStab: one pass of the `for` loop of bicgstabl.hpp with `L = 1`, `delta ≤ 0`, started in a state
related (`Rel1`) to a state of the loop of bicgstab.hpp, returns normally ⟹ the pass of bicgstab.hpp returns normally in a
related state — provided the residual norm after the `alpha` half step is not EXACTLY the threshold (bicgstab leaves on
`norm(s) <= eps`, bicgstabl on `zeta < eps`).  A zero `rho1` / `sigma` makes bicgstabl throw at once (then the hypothesis
"returns normally" fails), bicgstab notices a zero `rho` one pass later and never tests `sigma`.

Correspondence of the variables (`A' = A∘P` right / `P∘A` left):
`R[0] = r`, `Rt = rh`, `zeta = res`, `U[0] = p − omega·v` (after a pass; `0` with `alpha = 0` before the first), `rho0 = rho1`,
`alpha`, `omega`; the caller's `x` of bicgstab is `x + X` (left) resp. `x + P X` (right) of bicgstabl (what label `done:`
hands back).
-/
namespace Amgcl.Solver.BiCGStabL
open Amgcl Amgcl.Solver Amgcl.Solver.QR Finset
set_option linter.unusedSectionVars false
set_option linter.unusedSimpArgs false
set_option linter.unusedVariables false

section step
variable {K : Type} [Field K] [DecidableEq K] [LT K] [DecidableLT K]

/-- the BiCG step `j = 0` spelled out -/
theorem bicgStep0_spec (prm : Params K) (ip : Vec K → Vec K → K) (sqrt : K → K) (A : CRS K) (P : Vec K → Vec K)
    (epsT : K) (st st' : St K) (b : Bool) (h : bicgStep prm ip sqrt A P epsT 0 st = .ok (st', b)) :
    let rho1 := ip (st.w.R.get 0) st.w.Rt
    let beta := st.alpha * (rho1 / st.rho0)
    let p := axpby 1 (st.w.R.get 0) (-beta) (st.w.U.get 0)
    let v := Ap prm.pside P A p
    let alpha := rho1 / ip v st.w.Rt
    let s := axpby (-alpha) v 1 (st.w.R.get 0)
    rho1 ≠ 0 ∧ ip v st.w.Rt ≠ 0 ∧ st'.w.U.get 0 = p ∧ st'.w.U.get 1 = v ∧ st'.w.R.get 0 = s ∧
    st'.w.R.get 1 = Ap prm.pside P A s ∧ st'.w.X = axpby alpha p 1 st.w.X ∧ st'.alpha = alpha ∧ st'.rho0 = rho1 ∧
    st'.zeta = nrm ip sqrt s ∧ st'.w.Rt = st.w.Rt ∧ st'.x = st.x ∧ st'.omega = st.omega ∧
    (b = true → st'.done = true ∧ st'.iter = st.iter + 1 ∧ st'.zeta < epsT) ∧
    (b = false → st'.done = st.done ∧ st'.iter = st.iter ∧ ¬ st'.zeta < epsT) := by
  intro rho1 beta p v alpha s
  unfold bicgStep at h
  simp only [] at h
  split at h
  · cases h
  · rename_i hr
    split at h
    · cases h
    · rename_i hsg
      simp only [Nat.zero_add, List.range_one, List.foldl_cons, List.foldl_nil, pspmv_fst, setF_get, setF_same,
        if_true, Nat.reduceAdd, Nat.succ_ne_zero, Nat.one_ne_zero, if_false, OfNat.ofNat_ne_zero,
        (by decide : ¬ (0 : Nat) = 1), (by decide : ¬ (1 : Nat) = 0)] at h hsg
      split at h
      · rename_i hz
        cases h
        refine ⟨hr, hsg, ?_, ?_, ?_, ?_, rfl, rfl, rfl, rfl, rfl, rfl, rfl, ?_, ?_⟩
        all_goals first | (intro c; cases c; done) | exact fun _ => ⟨rfl, rfl, hz⟩ | (simp [setF_get] <;> rfl)
      · rename_i hz
        cases h
        refine ⟨hr, hsg, ?_, ?_, ?_, ?_, rfl, rfl, rfl, rfl, rfl, rfl, rfl, ?_, ?_⟩
        all_goals first | (intro c; cases c; done) | exact fun _ => ⟨rfl, rfl, hz⟩ | (simp [setF_get] <;> rfl)

/-- without the accurate update the polynomial part leaves `alpha`, `rho0`, `Rt`, `U[1]` alone -/
theorem polyPart_frame0 (prm : Params K) (ip : Vec K → Vec K → K) (sqrt : K → K) (c07 : K) (A : CRS K)
    (P : Vec K → Vec K) (zeta0 : K) (st st' : St K) (hd : ¬ 0 < prm.delta)
    (h : polyPart prm ip sqrt c07 A P zeta0 st = .ok st') :
    st'.alpha = st.alpha ∧ st'.rho0 = st.rho0 ∧ st'.w.Rt = st.w.Rt ∧ st'.omega ≠ 0 := by
  obtain ⟨f1, f2, f3, f4, f5, f6⟩ :=
    polyCoef_frame sqrt c07 prm.L prm.convex { st.w with MZa := gram ip prm.L st.w.R st.w.MZa }
  unfold polyPart at h
  simp only [] at h
  generalize polyCoef sqrt c07 prm.L prm.convex { st.w with MZa := gram ip prm.L st.w.R st.w.MZa } = w1
    at h f1 f2 f3 f4 f5 f6 ⊢
  simp only at f1 f2 f3 f4 f5 f6
  split at h
  · cases h
  · rename_i hne
    first | (cases h; exact ⟨rfl, rfl, f1, hne⟩) | (rw [if_neg hd] at h; cases h; exact ⟨rfl, rfl, f1, hne⟩)

/-- what label `done:` hands back -/
def xOut (side : Side) (P : Vec K → Vec K) (st : St K) : Vec K := (finish side P st).1

/-- `x += a·u` (left) / `x += a·P u` (right): the two updates of the caller's `x` in bicgstab.hpp -/
def xAdd (side : Side) (P : Vec K → Vec K) (a : K) (u xB : Vec K) : Vec K :=
  match side with
  | .left => axpby a u 1 xB
  | .right => axpby a (P u) 1 xB

/-- adding `a·u` to the correction `X` of BiCGStab(L) adds `a·u` resp. `a·P u` to the vector handed back -/
theorem xOut_axpby (side : Side) (P : Vec K → Vec K) (n : Nat) (hP : side = .right → Lin n P) (st st' : St K) (a : K)
    (u : Vec K) (hu : u.size = n) (hX : st.w.X.size = n) (hx : st.x.size = n) (h1 : st'.w.X = axpby a u 1 st.w.X)
    (h2 : st'.x = st.x) : xOut side P st' = xAdd side P a u (xOut side P st) := by
  unfold xOut xAdd finish
  cases side with
  | left =>
    simp only [h1, h2]
    apply Vec.ext_getD (0 : K) (by simp [axpby_size, hu, hX])
    intro i hi
    rw [axpby_size, axpby_size, hu] at hi
    rw [axpby_getD _ _ _ _ _ (by rw [axpby_size, hu]; exact hi), axpby_getD _ _ _ _ _ (by rw [hu]; exact hi),
      axpby_getD _ _ _ _ _ (by rw [hu]; exact hi), axpby_getD _ _ _ _ _ (by rw [hX]; exact hi)]
    ring
  | right =>
    have hP' := hP rfl
    simp only [h1, h2]
    rw [hP'.map_axpby a 1 u st.w.X hu hX]
    apply Vec.ext_getD (0 : K) (by simp [axpby_size, hP'.size])
    intro i hi
    rw [axpby_size, axpby_size, hP'.size] at hi
    rw [axpby_getD _ _ _ _ _ (by rw [axpby_size, hP'.size]; exact hi), axpby_getD _ _ _ _ _ (by rw [hP'.size]; exact hi),
      axpby_getD _ _ _ _ _ (by rw [hP'.size]; exact hi), axpby_getD _ _ _ _ _ (by rw [hP'.size]; exact hi)]
    ring

end step

section refine
variable {K : Type} [Field K] [LinearOrder K] [IsStrictOrderedRing K]

/-- the correspondence between a state at the top of the loop of bicgstabl.hpp (`L = 1`) and one of bicgstab.hpp -/
structure Rel1 (side : Side) (P : Vec K → Vec K) (n : Nat) (sL : St K) (sB : BiCGStab.St K) : Prop where
  r : sL.w.R.get 0 = sB.w.r
  rh : sL.w.Rt = sB.w.rh
  zeta : sL.zeta = sB.res
  iter : sL.iter = sB.iter
  notdone : sL.done = false
  x : xOut side P sL = sB.x
  szr : sB.w.r.size = n
  szX : sL.w.X.size = n
  szx : sL.x.size = n
  szU : (sL.w.U.get 0).size = n
  dir : (sB.first = true ∧ sL.alpha = 0 ∧ ∀ i, i < n → (sL.w.U.get 0).getD i 0 = 0) ∨
        (sB.first = false ∧ sL.alpha = sB.alpha ∧ sL.omega = sB.omega ∧ sL.rho0 = sB.rho1 ∧ sB.omega ≠ 0 ∧ sB.rho1 ≠ 0 ∧
          sB.w.p.size = n ∧ sB.w.v.size = n ∧
          ∀ i, i < n → (sL.w.U.get 0).getD i 0 = sB.w.p.getD i 0 - sB.omega * sB.w.v.getD i 0)

/-- the search direction: `U[0] = R[0] − beta·U[0]` of bicgstabl.hpp is `p` of bicgstab.hpp (`copy(r, p)` in the first
pass, `p = r + beta (p − omega v)` afterwards; `beta_L = alpha·rho1/(−omega·rho0) = −beta`) -/
theorem newP_eq (side : Side) (P : Vec K → Vec K) (n : Nat) (sL : St K) (sB : BiCGStab.St K) (rel : Rel1 side P n sL sB)
    (rho1 : K) :
    BiCGStab.newP sB rho1
      = .ok (axpby 1 (sL.w.R.get 0) (-(sL.alpha * (rho1 / ((-sL.omega) * sL.rho0)))) (sL.w.U.get 0)) := by
  unfold BiCGStab.newP
  simp only []
  rcases rel.dir with ⟨d1, d2, d3⟩ | ⟨d1, d2, d3, d4, d5, d6, d7, d8, d9⟩
  · rw [if_pos d1, vcopy_eq]
    congr 1
    rw [rel.r]
    apply Vec.ext_getD (0 : K) (by rw [axpby_size])
    intro i hi
    rw [axpby_getD _ _ _ _ _ hi, d2]; ring
  · rw [if_neg (by rw [d1]; simp), if_neg d6]
    congr 1
    rw [rel.r]
    apply Vec.ext_getD (0 : K) (by rw [axpby_size, axpbypcz_size])
    intro i hi
    rw [axpbypcz_size, rel.szr] at hi
    rw [axpbypcz_getD _ _ _ _ _ _ _ (by rw [rel.szr]; exact hi), axpby_getD _ _ _ _ _ (by rw [rel.szr]; exact hi),
      d9 i hi, d2, d3, d4]
    field_simp
    ring

/-- `s = r − alpha·v` written with `axpbypcz` (bicgstab.hpp) and with `axpby` (bicgstabl.hpp) -/
theorem svec_eq (n : Nat) (a : K) (v r z : Vec K) (hv : v.size = n) (hr : r.size = n) :
    axpbypcz 1 r (-a) v 0 z = axpby (-a) v 1 r := by
  apply Vec.ext_getD (0 : K) (by rw [axpbypcz_size, axpby_size, hv, hr])
  intro i hi
  rw [axpbypcz_size, hr] at hi
  rw [axpbypcz_getD _ _ _ _ _ _ _ (by rw [hr]; exact hi), axpby_getD _ _ _ _ _ (by rw [hv]; exact hi)]
  ring

/-- the `alpha` half step of bicgstab.hpp with the search direction `p` -/
theorem half_eq (side : Side) (sqrt : K → K) (A : CRS K) (P : Vec K → Vec K) (n : Nat) (hF : Lin n (Ap side P A))
    (sB : BiCGStab.St K) (p : Vec K) (hr : sB.w.r.size = n) :
    let h := BiCGStab.half side stdIp sqrt A P sB p
    let v := Ap side P A p
    let alpha := stdIp sB.w.r sB.w.rh / stdIp v sB.w.rh
    h.v = v ∧ h.alpha = alpha ∧ h.s = axpby (-alpha) v 1 sB.w.r ∧ h.res = nrm stdIp sqrt (axpby (-alpha) v 1 sB.w.r) ∧
    h.x = xAdd side P alpha p sB.x ∧ h.p = p ∧ h.rho1 = stdIp sB.w.r sB.w.rh ∧
    (side = .right → h.T = P p) := by
  intro h v alpha
  have hv : h.v = v := pspmv_fst side P A p sB.w.v sB.w.T
  have ha : h.alpha = alpha := by show stdIp sB.w.r sB.w.rh / stdIp h.v sB.w.rh = _; rw [hv]
  have hs : h.s = axpby (-alpha) v 1 sB.w.r := by
    show axpbypcz 1 sB.w.r (-h.alpha) h.v 0 sB.w.s = _
    rw [ha, hv]; exact svec_eq n alpha v sB.w.r sB.w.s (hF.size p) hr
  refine ⟨hv, ha, hs, by show nrm stdIp sqrt h.s = _; rw [hs], ?_, rfl, rfl, ?_⟩
  · cases side with
    | left => show axpby h.alpha p 1 sB.x = _; rw [ha]; rfl
    | right => show axpby h.alpha h.T 1 sB.x = _; rw [ha]; rfl
  · intro e; subst e; rfl

/-- the `omega` half step of bicgstab.hpp when `omega ≠ 0` -/
theorem full_eq (side : Side) (sqrt : K → K) (A : CRS K) (P : Vec K → Vec K) (sB : BiCGStab.St K) (h : BiCGStab.Half K) :
    let t := Ap side P A h.s
    let omega := stdIp h.s t / stdIp t t
    omega ≠ 0 → ∃ T' : Vec K, BiCGStab.full side stdIp sqrt A P sB h =
      .ok { first := false, iter := sB.iter + 1, rho1 := h.rho1, alpha := h.alpha, omega := omega,
            res := nrm stdIp sqrt (axpbypcz 1 h.s (-omega) t 0 sB.w.r), x := xAdd side P omega h.s h.x,
            w := ⟨axpbypcz 1 h.s (-omega) t 0 sB.w.r, h.p, h.v, h.s, t, sB.w.rh, T'⟩ } := by
  intro t omega ho
  unfold BiCGStab.full
  simp only [pspmv_fst]
  rw [if_neg ho]
  cases side with
  | left => exact ⟨_, rfl⟩
  | right => exact ⟨_, rfl⟩

/-- no residual norm met by the loop of the bicgstabl model in `fuel` passes from `s` equals the threshold exactly: at the
loop guard and after the `alpha` half step of every pass that is made -/
def NoTie (prm : Params K) (sqrt : K → K) (c07 : K) (A : CRS K) (P : Vec K → Vec K) (epsT zeta0 : K) :
    Nat → St K → Prop
  | 0, _ => True
  | fuel + 1, s => s.zeta ≠ epsT ∧ (cond prm.maxiter epsT s = true →
      (∀ s1 b, bicgStep prm stdIp sqrt A P epsT 0 { s with rho0 := (-s.omega) * s.rho0 } = .ok (s1, b) → s1.zeta ≠ epsT) ∧
      ∀ s', body prm stdIp sqrt c07 A P epsT zeta0 s = .ok s' → NoTie prm sqrt c07 A P epsT zeta0 fuel s')


end refine
end Amgcl.Solver.BiCGStabL
