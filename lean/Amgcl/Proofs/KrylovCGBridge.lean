import Amgcl.Proofs.KrylovCG
import Amgcl.Proofs.SolverCG
import Amgcl.Proofs.SolverArnoldi
import Amgcl.Proofs.EnergyBridge
import Mathlib.LinearAlgebra.Matrix.ToLin
/-!
# Bridge: the loop of the CG MODEL (`Model/SolverCG.lean`) runs the abstract recurrence of `KrylovCG.lean`

`cgPass … k` is the model's loop state after `k` passes of `CG.body` from `CG.init`.  With `n = A.nrows = A.ncols`, `A`
well formed, the inner product `stdIp` and a preconditioner `P` that DENOTES a linear map `Pl` on `Fin n → K`
(`PDenotes`: on arrays of length `n` it returns arrays of length `n` and `vecOf (P v) = Pl (vecOf v)`),

  `vecOf (cgPass k).x = c.x k`,  `vecOf (cgPass k).w.r = c.r k`,
  `vecOf (cgPass (k+1)).w.p = c.p k`,  `vecOf (cgPass (k+1)).w.q = c.q k`,  `(cgPass (k+1)).rho1 = c.rho k`

for `c = cgData n A Pl f x0` (`A ↦ matOf A n n` acting by `mulVec`, form `dotProduct`, `r0 = f − A x0`) — `cgPass_br`.
No size hypothesis on `f`, `x0` is needed (missing entries read as `0`, exactly as `getD` does in the model).

`run_eq_pass` links `CG.solve` to `cgPass`: the returned `x` is `(cgPass it).x` for the returned iteration count `it`.
-/
set_option linter.unusedSectionVars false
set_option linter.unusedVariables false
namespace Amgcl.Krylov
open Amgcl Amgcl.Solver Amgcl.Energy.Bridge Matrix

variable {K : Type} [Field K] [DecidableEq K] [LT K] [DecidableLT K]

/-! ### arrays as vectors -/

theorem vecOf_axpby (n : ℕ) (a b : K) (x y : Vec K) (hx : x.size = n) :
    vecOf n (axpby a x b y) = a • vecOf n x + b • vecOf n y := by
  funext i
  simp only [vecOf, Pi.add_apply, Pi.smul_apply, smul_eq_mul]
  exact axpby_getD a b x y i.val (by rw [hx]; exact i.isLt)

theorem vecOf_vcopy (n : ℕ) (x : Vec K) : vecOf n (vcopy x) = vecOf n x := by rw [vcopy_eq]

theorem stdIp_vecOf (n : ℕ) (x y : Vec K) (hx : x.size = n) (hy : y.size = n) :
    stdIp x y = vecOf n x ⬝ᵥ vecOf n y := by
  rw [stdIp_eq_finsum n x y hx hy, Finset.sum_range]
  rfl

/-- an array of length `n` is determined by the vector it denotes -/
theorem eq_of_vecOf_eq (n : ℕ) (x y : Vec K) (hx : x.size = n) (hy : y.size = n) (h : vecOf n x = vecOf n y) :
    x = y := by
  apply Vec.ext_getD (0 : K) (by rw [hx, hy])
  intro i hi
  exact congrFun h ⟨i, by rw [← hx]; exact hi⟩

theorem colsLt_of_wf (A : CRS K) (hA : A.WF) : ColsLt A A.ncols := fun i => row_cols_lt A hA i

/-- a symmetric denoted matrix is self-adjoint for the dot product -/
theorem matOf_selfAdjoint (A : CRS K) (n : ℕ) (hsym : ∀ i, i < n → ∀ j, j < n → A.get i j = A.get j i)
    (u v : Fin n → K) : (matOf A n n *ᵥ u) ⬝ᵥ v = u ⬝ᵥ (matOf A n n *ᵥ v) := by
  have ht : (matOf A n n)ᵀ = matOf A n n := by
    ext i j
    simp only [transpose_apply, matOf, of_apply]
    exact hsym j.val j.isLt i.val i.isLt
  rw [dotProduct_comm, dotProduct_mulVec, ← mulVec_transpose, ht, dotProduct_comm]

/-! ### the preconditioner as a linear map -/

/-- `P` denotes the linear map `Pl` on vectors of length `n` -/
def PDenotes (n : ℕ) (P : Vec K → Vec K) (Pl : (Fin n → K) →ₗ[K] (Fin n → K)) : Prop :=
  ∀ v : Vec K, v.size = n → (P v).size = n ∧ vecOf n (P v) = Pl (vecOf n v)

/-- every explicit matrix preconditioner `r ↦ M r` (`backend::spmv(1, M, rhs, 0, x)`) denotes `mulVec (matOf M)` -/
theorem pDenotes_spmv (M : CRS K) (hM : M.WF) (n : ℕ) (hn : M.nrows = n) (hm : M.ncols = n) (y0 : Vec K) :
    PDenotes n (fun v => spmv 1 M v 0 y0) (Matrix.mulVecLin (matOf M n n)) := by
  intro v _
  refine ⟨by rw [spmv_size', hn], ?_⟩
  have hc : ColsLt M n := by rw [← hm]; exact colsLt_of_wf M hM
  rw [vecOf_spmv0 M hn hc]
  rfl

/-- the identity preconditioner (`backend::copy`) denotes the identity map -/
theorem pDenotes_copy (n : ℕ) : PDenotes n (fun v : Vec K => vcopy v) LinearMap.id := by
  intro v hv
  show (vcopy v).size = n ∧ vecOf n (vcopy v) = _
  rw [vcopy_eq]
  exact ⟨hv, rfl⟩

/-! ### the data of a call and the bridge invariant -/

/-- the abstract CG data of a call `CG(A, P, f, x0)` -/
def cgData (n : ℕ) (A : CRS K) (Pl : (Fin n → K) →ₗ[K] (Fin n → K)) (f x0 : Vec K) : CGData K (Fin n → K) :=
  ⟨Matrix.mulVecLin (matOf A n n), Pl, dotProductBilin K K, vecOf n x0, vecOf n (residual f A x0)⟩

/-- the model's loop state after `k` passes of the body -/
def cgPass (sqrt : K → K) (A : CRS K) (P : Vec K → Vec K) (ws : CG.Work K) (f x0 : Vec K) (e : K) (k : ℕ) : CG.St K :=
  (CG.body stdIp sqrt A P)^[k] (CG.init stdIp sqrt A ws f x0 e)

theorem cgPass_succ (sqrt : K → K) (A : CRS K) (P : Vec K → Vec K) (ws : CG.Work K) (f x0 : Vec K) (e : K) (k : ℕ) :
    cgPass sqrt A P ws f x0 e (k + 1) = CG.body stdIp sqrt A P (cgPass sqrt A P ws f x0 e k) := by
  unfold cgPass; rw [Function.iterate_succ_apply']

/-- the model state `st` is the abstract state before pass `k` -/
structure Br (n : ℕ) (c : CGData K (Fin n → K)) (k : ℕ) (st : CG.St K) : Prop where
  iter : st.iter = k
  x : vecOf n st.x = (c.st k).x
  rsz : st.w.r.size = n
  r : vecOf n st.w.r = (c.st k).r
  prev : k ≠ 0 → st.w.p.size = n ∧ vecOf n st.w.p = (c.st k).p ∧ st.rho1 = (c.st k).rho ∧
    st.w.q.size = n ∧ vecOf n st.w.q = c.A (c.st k).p

theorem init_br (n : ℕ) (sqrt : K → K) (A : CRS K) (hn : A.nrows = n) (Pl : (Fin n → K) →ₗ[K] (Fin n → K))
    (ws : CG.Work K) (f x0 : Vec K) (e : K) :
    Br n (cgData n A Pl f x0) 0 (CG.init stdIp sqrt A ws f x0 e) :=
  ⟨rfl, rfl, by show (residual f A x0).size = n; rw [residual_size', hn], rfl, fun h => absurd rfl h⟩

theorem body_br (n : ℕ) (sqrt : K → K) (A : CRS K) (hA : A.WF) (hn : A.nrows = n) (hm : A.ncols = n)
    (P : Vec K → Vec K) (Pl : (Fin n → K) →ₗ[K] (Fin n → K)) (hP : PDenotes n P Pl) (f x0 : Vec K) (k : ℕ)
    (st : CG.St K) (h : Br n (cgData n A Pl f x0) k st) :
    Br n (cgData n A Pl f x0) (k + 1) (CG.body stdIp sqrt A P st) := by
  obtain ⟨hi, hx, hrs, hr, hprev⟩ := h
  obtain ⟨hss, hsv⟩ := hP st.w.r hrs
  have hcA : ColsLt A n := by rw [← hm]; exact colsLt_of_wf A hA
  -- ρ
  have hrho : stdIp st.w.r (P st.w.r)
      = (cgData n A Pl f x0).B ((cgData n A Pl f x0).st k).r ((cgData n A Pl f x0).P ((cgData n A Pl f x0).st k).r) := by
    rw [stdIp_vecOf n _ _ hrs hss, hsv, hr]; rfl
  -- p
  have hp : ((if st.iter ≠ 0 then axpby 1 (P st.w.r) (stdIp st.w.r (P st.w.r) / st.rho1) st.w.p
        else vcopy (P st.w.r)) : Vec K).size = n ∧
      vecOf n (if st.iter ≠ 0 then axpby 1 (P st.w.r) (stdIp st.w.r (P st.w.r) / st.rho1) st.w.p
        else vcopy (P st.w.r)) = ((cgData n A Pl f x0).st (k + 1)).p := by
    show _ ∧ _ = (if k = 0 then (cgData n A Pl f x0).P ((cgData n A Pl f x0).st k).r
      else (cgData n A Pl f x0).P ((cgData n A Pl f x0).st k).r
        + ((cgData n A Pl f x0).B ((cgData n A Pl f x0).st k).r
              ((cgData n A Pl f x0).P ((cgData n A Pl f x0).st k).r) / ((cgData n A Pl f x0).st k).rho)
          • ((cgData n A Pl f x0).st k).p)
    by_cases hk : k = 0
    · have : ¬ st.iter ≠ 0 := by rw [hi, hk]; simp
      rw [if_neg this, if_pos hk, vcopy_eq]
      exact ⟨hss, by rw [hsv, hr]; rfl⟩
    · have : st.iter ≠ 0 := by rw [hi]; exact hk
      obtain ⟨_, hpv, hrh, _, _⟩ := hprev hk
      rw [if_pos this, if_neg hk]
      refine ⟨by rw [axpby_size, hss], ?_⟩
      rw [vecOf_axpby n _ _ _ _ hss, hsv, hr, hpv, hrho, hrh, one_smul]
      rfl
  obtain ⟨hps, hpv⟩ := hp
  -- q
  have hqs : ∀ z : Vec K, (spmv 1 A (if st.iter ≠ 0 then axpby 1 (P st.w.r) (stdIp st.w.r (P st.w.r) / st.rho1) st.w.p
        else vcopy (P st.w.r)) 0 z).size = n := fun z => by rw [spmv_size', hn]
  have hqv : ∀ z : Vec K, vecOf n (spmv 1 A (if st.iter ≠ 0 then
        axpby 1 (P st.w.r) (stdIp st.w.r (P st.w.r) / st.rho1) st.w.p else vcopy (P st.w.r)) 0 z)
      = (cgData n A Pl f x0).A ((cgData n A Pl f x0).st (k + 1)).p := by
    intro z
    rw [vecOf_spmv0 A hn hcA, hpv]; rfl
  -- α
  have hal : stdIp st.w.r (P st.w.r) / stdIp (spmv 1 A (if st.iter ≠ 0 then
        axpby 1 (P st.w.r) (stdIp st.w.r (P st.w.r) / st.rho1) st.w.p else vcopy (P st.w.r)) 0 st.w.q)
        (if st.iter ≠ 0 then axpby 1 (P st.w.r) (stdIp st.w.r (P st.w.r) / st.rho1) st.w.p else vcopy (P st.w.r))
      = ((cgData n A Pl f x0).st (k + 1)).rho
        / (cgData n A Pl f x0).B ((cgData n A Pl f x0).A ((cgData n A Pl f x0).st (k + 1)).p)
            ((cgData n A Pl f x0).st (k + 1)).p := by
    rw [stdIp_vecOf n _ _ (hqs _) hps, hqv, hpv, hrho]; rfl
  refine ⟨by show st.iter + 1 = k + 1; rw [hi], ?_, ?_, ?_, fun _ => ⟨hps, hpv, hrho, hqs _, hqv _⟩⟩
  · show vecOf n (axpby _ _ 1 st.x) = _
    rw [vecOf_axpby n _ _ _ _ hps, hal, hpv, hx, one_smul, add_comm]; rfl
  · show (axpby _ _ 1 st.w.r).size = n
    rw [axpby_size]; exact hqs _
  · show vecOf n (axpby (-_) _ 1 st.w.r) = _
    rw [vecOf_axpby n _ _ _ _ (hqs _), hal, hqv, hr, one_smul, neg_smul, neg_add_eq_sub]; rfl

/-- **bridging theorem**: after `k` passes the model state is the abstract state before pass `k` -/
theorem cgPass_br (n : ℕ) (sqrt : K → K) (A : CRS K) (hA : A.WF) (hn : A.nrows = n) (hm : A.ncols = n)
    (P : Vec K → Vec K) (Pl : (Fin n → K) →ₗ[K] (Fin n → K)) (hP : PDenotes n P Pl) (ws : CG.Work K) (f x0 : Vec K)
    (e : K) (k : ℕ) : Br n (cgData n A Pl f x0) k (cgPass sqrt A P ws f x0 e k) := by
  induction k with
  | zero => exact init_br n sqrt A hn Pl ws f x0 e
  | succ k ih => rw [cgPass_succ]; exact body_br n sqrt A hA hn hm P Pl hP f x0 k _ ih

section facts
variable (n : ℕ) (sqrt : K → K) (A : CRS K) (hA : A.WF) (hn : A.nrows = n) (hm : A.ncols = n)
  (P : Vec K → Vec K) (Pl : (Fin n → K) →ₗ[K] (Fin n → K)) (hP : PDenotes n P Pl) (ws : CG.Work K) (f x0 : Vec K) (e : K)
include hA hn hm hP

theorem pass_x (k : ℕ) : vecOf n (cgPass sqrt A P ws f x0 e k).x = (cgData n A Pl f x0).x k :=
  (cgPass_br n sqrt A hA hn hm P Pl hP ws f x0 e k).x

theorem pass_r (k : ℕ) : (cgPass sqrt A P ws f x0 e k).w.r.size = n ∧
    vecOf n (cgPass sqrt A P ws f x0 e k).w.r = (cgData n A Pl f x0).r k :=
  ⟨(cgPass_br n sqrt A hA hn hm P Pl hP ws f x0 e k).rsz, (cgPass_br n sqrt A hA hn hm P Pl hP ws f x0 e k).r⟩

theorem pass_p (k : ℕ) : (cgPass sqrt A P ws f x0 e (k + 1)).w.p.size = n ∧
    vecOf n (cgPass sqrt A P ws f x0 e (k + 1)).w.p = (cgData n A Pl f x0).p k := by
  obtain ⟨h1, h2, _⟩ := (cgPass_br n sqrt A hA hn hm P Pl hP ws f x0 e (k + 1)).prev (Nat.succ_ne_zero k)
  exact ⟨h1, h2⟩

theorem pass_q (k : ℕ) : (cgPass sqrt A P ws f x0 e (k + 1)).w.q.size = n ∧
    vecOf n (cgPass sqrt A P ws f x0 e (k + 1)).w.q = (cgData n A Pl f x0).q k := by
  obtain ⟨_, _, _, h1, h2⟩ := (cgPass_br n sqrt A hA hn hm P Pl hP ws f x0 e (k + 1)).prev (Nat.succ_ne_zero k)
  exact ⟨h1, h2⟩

theorem pass_rho (k : ℕ) : (cgPass sqrt A P ws f x0 e (k + 1)).rho1 = (cgData n A Pl f x0).rho k := by
  obtain ⟨_, _, h, _⟩ := (cgPass_br n sqrt A hA hn hm P Pl hP ws f x0 e (k + 1)).prev (Nat.succ_ne_zero k)
  exact h

/-- the model's second denominator `⟨q, p⟩` of pass `k` is the abstract `d_k` -/
theorem pass_d (k : ℕ) : stdIp (cgPass sqrt A P ws f x0 e (k + 1)).w.q (cgPass sqrt A P ws f x0 e (k + 1)).w.p
    = (cgData n A Pl f x0).d k := by
  obtain ⟨h1, h2⟩ := pass_q n sqrt A hA hn hm P Pl hP ws f x0 e k
  obtain ⟨h3, h4⟩ := pass_p n sqrt A hA hn hm P Pl hP ws f x0 e k
  rw [stdIp_vecOf n _ _ h1 h3, h2, h4]; rfl

end facts

/-- no breakdown before pass `k`, read off the MODEL's loop states: the two denominators `rho1 = ⟨r, P r⟩` and
`⟨q, p⟩` of the passes `0..k-1` are non-zero -/
def ModelNoBreakdown (pass : ℕ → CG.St K) (k : ℕ) : Prop :=
  ∀ i, i < k → (pass (i + 1)).rho1 ≠ 0 ∧ stdIp (pass (i + 1)).w.q (pass (i + 1)).w.p ≠ 0

theorem noBreakdown_of_model (n : ℕ) (sqrt : K → K) (A : CRS K) (hA : A.WF) (hn : A.nrows = n) (hm : A.ncols = n)
    (P : Vec K → Vec K) (Pl : (Fin n → K) →ₗ[K] (Fin n → K)) (hP : PDenotes n P Pl) (ws : CG.Work K) (f x0 : Vec K)
    (e : K) (k : ℕ) (h : ModelNoBreakdown (cgPass sqrt A P ws f x0 e) k) : (cgData n A Pl f x0).NoBreakdown k := by
  intro i hi
  rw [← pass_rho n sqrt A hA hn hm P Pl hP ws f x0 e i, ← pass_d n sqrt A hA hn hm P Pl hP ws f x0 e i]
  exact h i hi

/-- the hypotheses `Symm` of the abstract theory for a symmetric denoted matrix and a self-adjoint `Pl` -/
theorem cgData_symm (n : ℕ) (A : CRS K) (hsym : ∀ i, i < n → ∀ j, j < n → A.get i j = A.get j i)
    (Pl : (Fin n → K) →ₗ[K] (Fin n → K)) (hPsym : ∀ u v, Pl u ⬝ᵥ v = u ⬝ᵥ Pl v) (f x0 : Vec K) :
    (cgData n A Pl f x0).Symm :=
  ⟨fun u v => dotProduct_comm u v, fun u v => matOf_selfAdjoint A n hsym u v, hPsym⟩

/-! ### the call returns the state after `it` passes -/

theorem loopN_conds {σ : Type} (cond : σ → Bool) (body : σ → σ) (cnt : σ → ℕ)
    (hcnt : ∀ s, cnt (body s) = cnt s + 1) :
    ∀ fuel s j, cnt s + j < cnt (loopN cond body fuel s) → cond (body^[j] s) = true := by
  intro fuel
  induction fuel with
  | zero => intro s j h; simp [loopN] at h
  | succ m ih =>
    intro s j h
    unfold loopN at h
    by_cases hc : cond s = true
    · simp only [hc, if_true] at h
      cases j with
      | zero => exact hc
      | succ j =>
        rw [Function.iterate_succ_apply]
        apply ih (body s) j
        rw [hcnt]; omega
    · simp only [hc] at h
      simp at h

/-- a call that does not return early returns `(it, ‖r‖/nf, x, w)` with `x, w` the loop state after `it` passes;
`it ≤ maxiter`; it stops before `maxiter` only when the guard `eps < |res|` fails; the guard held before each pass -/
theorem run_eq_pass (prm : CG.Params K) (sqrt : K → K) (eps : K) (A : CRS K) (P : Vec K → Vec K) (ws : CG.Work K)
    (f x0 : Vec K) (nf : K) (hp : prologue prm.nsSearch stdIp sqrt eps f = .go nf) (it : ℕ) (res : K) (x : Vec K)
    (w : CG.Work K) (h : CG.solve prm stdIp sqrt eps A P ws f x0 = .ok (it, res, x, w)) :
    x = (cgPass sqrt A P ws f x0 (CG.epsTol prm nf) it).x ∧ w = (cgPass sqrt A P ws f x0 (CG.epsTol prm nf) it).w ∧
    res = (cgPass sqrt A P ws f x0 (CG.epsTol prm nf) it).res / nf ∧ it ≤ prm.maxiter ∧
    (it = prm.maxiter ∨ ¬ CG.epsTol prm nf < Solver.absK (cgPass sqrt A P ws f x0 (CG.epsTol prm nf) it).res) ∧
    ∀ j, j < it → CG.epsTol prm nf < Solver.absK (cgPass sqrt A P ws f x0 (CG.epsTol prm nf) j).res := by
  rw [CG.solve, Run.toExcept_ok, CG.run_go _ _ _ _ _ _ _ _ _ nf hp] at h
  simp only [Prod.mk.injEq, Except.ok.injEq] at h
  obtain ⟨⟨h1, h2⟩, h3, h4⟩ := h
  have hit := loopN_iterate (CG.cond (CG.epsTol prm nf)) (CG.body stdIp sqrt A P) CG.St.iter
    (CG.body_iter stdIp sqrt A P) prm.maxiter (CG.init stdIp sqrt A ws f x0 (CG.epsTol prm nf))
  have h0 : (CG.init stdIp sqrt A ws f x0 (CG.epsTol prm nf)).iter = 0 := rfl
  have hfin : CG.final prm stdIp sqrt A P ws f x0 nf = cgPass sqrt A P ws f x0 (CG.epsTol prm nf) it := by
    unfold CG.final CG.loop cgPass
    rw [hit, h0, Nat.sub_zero]
    congr 2
  obtain ⟨e1, e2⟩ := CG.final_exit prm stdIp sqrt A P ws f x0 nf
  rw [h1] at e1
  rw [h1, hfin] at e2
  refine ⟨by rw [← h3, hfin], by rw [← h4, hfin], by rw [← h2, hfin], e1, e2, ?_⟩
  intro j hj
  have := loopN_conds (CG.cond (CG.epsTol prm nf)) (CG.body stdIp sqrt A P) CG.St.iter
    (CG.body_iter stdIp sqrt A P) prm.maxiter (CG.init stdIp sqrt A ws f x0 (CG.epsTol prm nf)) j
    (by rw [h0, Nat.zero_add]; exact lt_of_lt_of_eq hj h1.symm)
  simpa [CG.cond, cgPass] using this

/-- `res` of every loop state is the norm of its carried residual vector -/
theorem cgPass_res (sqrt : K → K) (A : CRS K) (P : Vec K → Vec K) (ws : CG.Work K) (f x0 : Vec K) (e : K) (k : ℕ) :
    (cgPass sqrt A P ws f x0 e k).res = nrm stdIp sqrt (cgPass sqrt A P ws f x0 e k).w.r := by
  cases k with
  | zero => rfl
  | succ k => rw [cgPass_succ]; rfl

end Amgcl.Krylov
