import Amgcl.Model.DistRenumber
import Amgcl.Proofs.Renumber
/-!
The renumbering table of `mpi::coarsening::pmis::aggregates` (pmis.hpp:635-649): `new_id` after the `partial_sum`
is the rank function of the aggregate numbers that still have a member — reduction to the lemmas about the serial
renumbering (`Proofs/Renumber.lean`: `rankS`, `rankS_ivt`, …) through the list of the numbers rank `r` sees.
-/
set_option linter.unusedSectionVars false
namespace Amgcl
namespace DistRenumber
open Finset Coarsening

/-- unknown `i` belongs to an aggregate of rank `r` -/
def Mine (r : Int) (state owner : Array Int) (i : Nat) : Prop := owner.getD i (-1) = r ∧ state.getD i (-1) ≥ 0
instance (r : Int) (state owner : Array Int) (i : Nat) : Decidable (Mine r state owner i) := by unfold Mine; infer_instance

/-- the aggregate numbers rank `r` sees (`-2` for unknowns of other ranks' aggregates / of none) -/
def seen (r : Int) (state owner : Array Int) (vis : List Nat) : Array Int :=
  (vis.map fun i => if Mine r state owner i then state.getD i (-1) else -2).toArray

theorem used_seen_iff (r : Int) (state owner : Array Int) (vis : List Nat) (k : Nat) :
    Used (seen r state owner vis) k ↔ ∃ i ∈ vis, Mine r state owner i ∧ state.getD i (-1) = (k : Int) := by
  unfold Used seen
  constructor
  · rintro ⟨j, hj, hjk⟩
    simp only [List.size_toArray, List.length_map] at hj
    have hget : (vis.map fun i => if Mine r state owner i then state.getD i (-1) else -2).toArray.getD j 0
        = if Mine r state owner vis[j] then state.getD vis[j] (-1) else -2 := by
      simp [Array.getD_eq_getD_getElem?, hj]
    rw [hget] at hjk
    by_cases hm : Mine r state owner vis[j]
    · rw [if_pos hm] at hjk
      exact ⟨vis[j], List.getElem_mem hj, hm, hjk⟩
    · rw [if_neg hm] at hjk; omega
  · rintro ⟨i, hi, hm, hk⟩
    obtain ⟨j, hj, rfl⟩ := List.mem_iff_getElem.1 hi
    refine ⟨j, by simpa using hj, ?_⟩
    have hget : (vis.map fun i => if Mine r state owner i then state.getD i (-1) else -2).toArray.getD j 0
        = if Mine r state owner vis[j] then state.getD vis[j] (-1) else -2 := by
      simp [Array.getD_eq_getD_getElem?, hj]
    rw [hget, if_pos hm, hk]

/-- `marks` is the marking loop of the serial renumbering run on the shifted numbers -/
theorem marks_eq_fold (naggr : Nat) (r : Int) (state owner : Array Int) (vis : List Nat) :
    marks naggr r state owner vis =
      (vis.map fun i => if Mine r state owner i then state.getD i (-1) + 1 else -1).foldl
        (fun cnt v => if v ≥ 0 then cnt.setIfInBounds v.toNat 1 else cnt) (Array.replicate (naggr + 1) 0) := by
  unfold marks
  rw [List.foldl_map]
  congr 1
  funext a i
  by_cases hm : Mine r state owner i
  · have hm' := hm
    unfold Mine at hm'
    have h0 : state.getD i (-1) + 1 ≥ 0 := by omega
    have ht : (state.getD i (-1) + 1).toNat = (state.getD i (-1)).toNat + 1 := by omega
    simp only [hm, if_true, h0, ht]
    rw [if_pos hm']
  · have hm' := hm
    unfold Mine at hm'
    simp only [hm, if_false]
    rw [if_neg hm']
    simp

theorem marks_spec (naggr : Nat) (r : Int) (state owner : Array Int) (vis : List Nat) :
    (marks naggr r state owner vis).size = naggr + 1 ∧ (marks naggr r state owner vis).getD 0 0 = 0 ∧
    ∀ k, k < naggr → (marks naggr r state owner vis).getD (k + 1) 0 = markF (seen r state owner vis) k := by
  rw [marks_eq_fold]
  obtain ⟨h1, h2⟩ := usedMarks_fold (vis.map fun i => if Mine r state owner i then state.getD i (-1) + 1 else -1)
    (Array.replicate (naggr + 1) 0)
  refine ⟨by rw [h1]; simp, ?_, fun k hk => ?_⟩
  · rw [h2 0, if_neg]
    · simp [Array.getD_eq_getD_getElem?]
    · rintro ⟨_, v, hv, hv0, hvk⟩
      rw [List.mem_map] at hv
      obtain ⟨i, _, rfl⟩ := hv
      by_cases hm : Mine r state owner i
      · rw [if_pos hm] at hvk hv0; unfold Mine at hm; omega
      · rw [if_neg hm] at hv0; omega
  · rw [h2 (k + 1)]
    unfold markF
    have hiff : ((k + 1 < (Array.replicate (naggr + 1) (0 : Int)).size ∧
        ∃ v ∈ (vis.map fun i => if Mine r state owner i then state.getD i (-1) + 1 else -1), 0 ≤ v ∧ v.toNat = k + 1)
        ↔ Used (seen r state owner vis) k) := by
      rw [used_seen_iff]
      constructor
      · rintro ⟨_, v, hv, hv0, hvk⟩
        rw [List.mem_map] at hv
        obtain ⟨i, hi, rfl⟩ := hv
        by_cases hm : Mine r state owner i
        · rw [if_pos hm] at hvk hv0
          exact ⟨i, hi, hm, by omega⟩
        · rw [if_neg hm] at hv0; omega
      · rintro ⟨i, hi, hm, hik⟩
        refine ⟨by simpa using hk, state.getD i (-1) + 1, ?_, by omega, by omega⟩
        rw [List.mem_map]
        exact ⟨i, hi, by rw [if_pos hm]⟩
    by_cases hu : Used (seen r state owner vis) k
    · rw [if_pos (hiff.2 hu), if_pos hu]
    · rw [if_neg (fun h => hu (hiff.1 h)), if_neg hu]
      simp [Array.getD_eq_getD_getElem?, hk]

/-- `new_id[k]` after the `partial_sum` is the number of aggregate numbers `< k` that still have a member -/
theorem newIds_spec (naggr : Nat) (r : Int) (state owner : Array Int) (vis : List Nat) (k : Nat) (hk : k ≤ naggr) :
    (newIds naggr r state owner vis).getD k 0 = rankS (seen r state owner vis) k := by
  obtain ⟨hs, h0, hm⟩ := marks_spec naggr r state owner vis
  unfold newIds
  rw [(partialSum_spec _).2 k (by rw [hs]; omega), sum_range_succ' _ k, h0, add_zero]
  unfold rankS
  apply sum_congr rfl
  intro j hj
  exact hm j (by have := mem_range.1 hj; omega)

theorem kept_eq (naggr : Nat) (r : Int) (state owner : Array Int) (vis : List Nat) :
    kept naggr r state owner vis = rankS (seen r state owner vis) naggr :=
  newIds_spec naggr r state owner vis naggr (Nat.le_refl _)

end DistRenumber
end Amgcl
