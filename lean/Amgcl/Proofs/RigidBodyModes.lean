import Amgcl.Model.RigidBodyModes
import Mathlib.Algebra.BigOperators.Group.Finset.Basic
import Mathlib.Algebra.BigOperators.Ring.Finset
import Mathlib.Algebra.BigOperators.Group.Finset.Sigma
import Mathlib.Algebra.Field.Basic
import Mathlib.Tactic.Ring
import Mathlib.Tactic.FieldSimp
/-!
Helper lemmas for `Properties/C04c.lean`: the flat buffer of `rigid_body_modes` seen as an `n × nmodes` matrix
through the addressing `i * stride1 + k * stride2` (`Lay`), row-wise folds, and the effect of one iteration of the
orthonormalisation loop on the cells.
-/
namespace Amgcl
namespace RBM
open Finset

/-! ## arrays -/
section arr
variable {α : Type}

theorem getD_set_same (B : Array α) (t : Nat) (v d : α) (h : t < B.size) : (B.setIfInBounds t v).getD t d = v := by
  simp [Array.getD, Array.size_setIfInBounds, h]

theorem getD_set_other (B : Array α) (t t' : Nat) (v d : α) (h : t ≠ t') :
    (B.setIfInBounds t v).getD t' d = B.getD t' d := by
  rw [Array.getD_eq_getD_getElem?, Array.getD_eq_getD_getElem?, Array.getElem?_setIfInBounds_ne h]
end arr

/-! ## layout -/

/-- `(i,k) ↦ i*s1 + k*s2` addresses an `n × nm` matrix inside `[0, sz)` without collisions -/
structure Lay (s1 s2 n nm sz : Nat) : Prop where
  bound : ∀ i k, i < n → k < nm → i * s1 + k * s2 < sz
  inj : ∀ i k i' k', i < n → k < nm → i' < n → k' < nm → i * s1 + k * s2 = i' * s1 + k' * s2 → i = i' ∧ k = k'

theorem lay_rowmajor (n nm : Nat) : Lay nm 1 n nm (n * nm) := by
  refine ⟨?_, ?_⟩
  · intro i k hi hk
    have h1 : (i + 1) * nm ≤ n * nm := Nat.mul_le_mul_right nm hi
    rw [Nat.succ_mul] at h1; omega
  · intro i k i' k' hi hk hi' hk' h
    have key : ∀ a b ka kb, ka < nm → kb < nm → a * nm + ka * 1 = b * nm + kb * 1 → ¬ a < b := by
      intro a b ka kb hka hkb he hab
      have h1 : (a + 1) * nm ≤ b * nm := Nat.mul_le_mul_right nm hab
      rw [Nat.succ_mul] at h1; omega
    have h1 := key i i' k k' hk hk' h
    have h2 := key i' i k' k hk' hk h.symm
    have : i = i' := by omega
    subst this; omega

theorem lay_transposed (n nm : Nat) : Lay 1 n n nm (n * nm) := by
  refine ⟨?_, ?_⟩
  · intro i k hi hk
    have h1 : (k + 1) * n ≤ nm * n := Nat.mul_le_mul_right n hk
    rw [Nat.succ_mul, Nat.mul_comm nm n] at h1; omega
  · intro i k i' k' hi hk hi' hk' h
    have key : ∀ a b ia ib, ia < n → ib < n → ia * 1 + a * n = ib * 1 + b * n → ¬ a < b := by
      intro a b ia ib hia hib he hab
      have h1 : (a + 1) * n ≤ b * n := Nat.mul_le_mul_right n hab
      rw [Nat.succ_mul] at h1; omega
    have h1 := key k k' i i' hi hi' h
    have h2 := key k' k i' i hi' hi h.symm
    have : k = k' := by omega
    subst this; omega

section cells
variable {K : Type} [Field K]
variable {s1 s2 n nm sz : Nat}

omit [Field K] in
theorem size_put (B : Array K) (i k : Nat) (v : K) : (put s1 s2 B i k v).size = B.size := by
  simp [put]

theorem cell_put_same (L : Lay s1 s2 n nm sz) (B : Array K) (hB : B.size = sz) {i k : Nat} (hi : i < n) (hk : k < nm)
    (v : K) : cell s1 s2 (put s1 s2 B i k v) i k = v := by
  unfold cell put
  exact getD_set_same _ _ _ _ (by rw [hB]; exact L.bound i k hi hk)

theorem cell_put_other (L : Lay s1 s2 n nm sz) (B : Array K) {i k i' k' : Nat} (hi : i < n) (hk : k < nm)
    (hi' : i' < n) (hk' : k' < nm) (hne : ¬ (i = i' ∧ k = k')) (v : K) :
    cell s1 s2 (put s1 s2 B i k v) i' k' = cell s1 s2 B i' k' := by
  unfold cell put
  exact getD_set_other _ _ _ _ _ (fun h => hne (L.inj i k i' k' hi hk hi' hk' h))

/-- a fold over the rows `0 .. m-1` whose step rewrites row `j` from row `j` only -/
theorem fold_rows (step : Array K → Nat → Array K) (g : Nat → (Nat → K) → Nat → K)
    (hsz : ∀ B j, B.size = sz → j < n → (step B j).size = sz)
    (hother : ∀ B j j' k, B.size = sz → j < n → j' < n → k < nm → j' ≠ j →
      cell s1 s2 (step B j) j' k = cell s1 s2 B j' k)
    (hrow : ∀ B j k, B.size = sz → j < n → k < nm → cell s1 s2 (step B j) j k = g j (cell s1 s2 B j) k)
    (hg : ∀ j r r' k, k < nm → (∀ k', k' < nm → r k' = r' k') → g j r k = g j r' k)
    (B : Array K) (hB : B.size = sz) (m : Nat) (hm : m ≤ n) :
    ((List.range m).foldl step B).size = sz ∧
    ∀ j k, j < n → k < nm →
      cell s1 s2 ((List.range m).foldl step B) j k = if j < m then g j (cell s1 s2 B j) k else cell s1 s2 B j k := by
  induction m with
  | zero => exact ⟨by simpa using hB, by intro j k _ _; simp⟩
  | succ m ih =>
    obtain ⟨ihs, ihc⟩ := ih (by omega)
    rw [List.range_succ, List.foldl_append]
    simp only [List.foldl_cons, List.foldl_nil]
    have hm' : m < n := by omega
    refine ⟨hsz _ _ ihs hm', ?_⟩
    intro j k hj hk
    by_cases hjm : j = m
    · subst hjm
      rw [hrow _ _ _ ihs hj hk, if_pos (by omega)]
      apply hg _ _ _ _ hk
      intro k' hk'
      rw [ihc j k' hj hk', if_neg (by omega)]
    · rw [hother _ _ _ _ ihs hm' hj hk hjm, ihc j k hj hk]
      by_cases h : j < m
      · rw [if_pos h, if_pos (by omega)]
      · rw [if_neg h, if_neg (by omega)]

/-! ## the orthonormalisation loop -/

/-- inner loop of l.114-115 on the `dot` array -/
theorem dots_inner (c : Nat → K) (dot : Array K) (hd : dot.size = 6) (m : Nat) (hm : m ≤ 6) :
    ((List.range m).foldl (fun dot k => dot.setIfInBounds k (dot.getD k 0 + c k)) dot).size = 6 ∧
    ∀ k, ((List.range m).foldl (fun dot k => dot.setIfInBounds k (dot.getD k 0 + c k)) dot).getD k 0
      = if k < m then dot.getD k 0 + c k else dot.getD k 0 := by
  induction m with
  | zero => exact ⟨by simpa using hd, by intro k; simp⟩
  | succ m ih =>
    obtain ⟨ihs, ihc⟩ := ih (by omega)
    rw [List.range_succ, List.foldl_append]
    simp only [List.foldl_cons, List.foldl_nil]
    refine ⟨by rw [Array.size_setIfInBounds]; exact ihs, ?_⟩
    intro k
    by_cases hkm : k = m
    · subst hkm
      rw [getD_set_same _ _ _ _ (by omega), ihc, if_neg (by omega), if_pos (by omega)]
    · rw [getD_set_other _ _ _ _ _ (fun h => hkm h.symm), ihc]
      by_cases h : k < m
      · rw [if_pos h, if_pos (by omega)]
      · rw [if_neg h, if_neg (by omega)]

/-- l.112-116: `dot[k] = Σ_j B[j,k]·B[j,i]` for `k < i` -/
theorem dots_getD (B : Array K) (i : Nat) (hi : i ≤ 6) (m : Nat) :
    ((List.range m).foldl (fun dot j =>
      (List.range i).foldl (fun dot k => dot.setIfInBounds k (dot.getD k 0 + cell s1 s2 B j k * cell s1 s2 B j i)) dot)
      (Array.replicate 6 (0 : K))).size = 6 ∧
    ∀ k, k < i → ((List.range m).foldl (fun dot j =>
      (List.range i).foldl (fun dot k => dot.setIfInBounds k (dot.getD k 0 + cell s1 s2 B j k * cell s1 s2 B j i)) dot)
      (Array.replicate 6 (0 : K))).getD k 0 = ∑ j ∈ range m, cell s1 s2 B j k * cell s1 s2 B j i := by
  induction m with
  | zero =>
    refine ⟨by simp, ?_⟩
    intro k hk
    simp only [List.range_zero, List.foldl_nil, Array.getD_eq_getD_getElem?, Array.getElem?_replicate,
      Finset.range_zero, Finset.sum_empty]
    split <;> rfl
  | succ m ih =>
    obtain ⟨ihs, ihc⟩ := ih
    rw [List.range_succ, List.foldl_append]
    simp only [List.foldl_cons, List.foldl_nil]
    have := dots_inner (fun k => cell s1 s2 B m k * cell s1 s2 B m i) _ ihs i hi
    refine ⟨this.1, ?_⟩
    intro k hk
    rw [this.2 k, if_pos hk, ihc k hk, Finset.sum_range_succ]

/-- l.119-120 on row `j`: only the cell `(j,i)` changes, to `B[j,i] − Σ_{k<i} dot[k]·B[j,k]` -/
theorem subtractRow_spec (L : Lay s1 s2 n nm sz) (dot : Array K) (B : Array K) (hB : B.size = sz) {i j : Nat}
    (hi : i < nm) (hj : j < n) (m : Nat) (hm : m ≤ i) :
    ((List.range m).foldl (fun B k => put s1 s2 B j i (cell s1 s2 B j i - dot.getD k 0 * cell s1 s2 B j k)) B).size = sz ∧
    (∀ j' k', j' < n → k' < nm → ¬ (j = j' ∧ i = k') →
      cell s1 s2 ((List.range m).foldl (fun B k => put s1 s2 B j i (cell s1 s2 B j i - dot.getD k 0 * cell s1 s2 B j k)) B) j' k'
        = cell s1 s2 B j' k') ∧
    cell s1 s2 ((List.range m).foldl (fun B k => put s1 s2 B j i (cell s1 s2 B j i - dot.getD k 0 * cell s1 s2 B j k)) B) j i
      = cell s1 s2 B j i - ∑ k ∈ range m, dot.getD k 0 * cell s1 s2 B j k := by
  induction m with
  | zero => exact ⟨by simpa using hB, by intro j' k' _ _ _; simp, by simp⟩
  | succ m ih =>
    obtain ⟨ihs, iho, ihc⟩ := ih (by omega)
    rw [List.range_succ, List.foldl_append]
    simp only [List.foldl_cons, List.foldl_nil]
    refine ⟨by rw [size_put]; exact ihs, ?_, ?_⟩
    · intro j' k' hj' hk' hne
      rw [cell_put_other L _ hj hi hj' hk' hne, iho j' k' hj' hk' hne]
    · rw [cell_put_same L _ ihs hj hi, ihc, iho j m hj (by omega) (by omega), Finset.sum_range_succ]
      ring

/-- the row function of the subtraction pass -/
def subG (i : Nat) (c : Nat → K) : Nat → (Nat → K) → Nat → K :=
  fun _ r k => if k = i then r i - ∑ k' ∈ range i, c k' * r k' else r k

theorem subRows_spec (L : Lay s1 s2 n nm sz) (dot : Array K) (B : Array K) (hB : B.size = sz) {i : Nat}
    (hi : i < nm) (m : Nat) (hm : m ≤ n) :
    ((List.range m).foldl (subtractRow s1 s2 i dot) B).size = sz ∧
    ∀ j k, j < n → k < nm →
      cell s1 s2 ((List.range m).foldl (subtractRow s1 s2 i dot) B) j k
        = if j < m then subG i (fun k => dot.getD k 0) j (cell s1 s2 B j) k else cell s1 s2 B j k := by
  apply fold_rows (n := n) (nm := nm) (sz := sz) (subtractRow s1 s2 i dot) (subG i (fun k => dot.getD k 0))
  · intro B j hB hj
    exact (subtractRow_spec L dot B hB hi hj i (le_refl _)).1
  · intro B j j' k hB hj hj' hk hne
    exact (subtractRow_spec L dot B hB hi hj i (le_refl _)).2.1 j' k hj' hk (fun h => hne h.1.symm)
  · intro B j k hB hj hk
    unfold subG
    by_cases hki : k = i
    · subst hki; rw [if_pos rfl]; exact (subtractRow_spec L dot B hB hk hj k (le_refl _)).2.2
    · rw [if_neg hki]
      exact (subtractRow_spec L dot B hB hi hj i (le_refl _)).2.1 j k hj hk (fun h => hki h.2.symm)
  · intro j r r' k hk h
    unfold subG
    by_cases hki : k = i
    · rw [if_pos hki, if_pos hki, h i hi]
      congr 1
      apply Finset.sum_congr rfl
      intro k' hk'
      rw [h k' (by have := Finset.mem_range.mp hk'; omega)]
    · rw [if_neg hki, if_neg hki]
      exact h k hk
  · exact hB
  · exact hm

theorem project_fold (L : Lay s1 s2 n nm sz) (dot : Array K) (B : Array K) (hB : B.size = sz) {i : Nat}
    (hi : i < nm) (m : Nat) (hm : m ≤ n) :
    (List.range m).foldl (fun (Bs : Array K × K) j =>
      let B := subtractRow s1 s2 i dot Bs.1 j
      (B, Bs.2 + cell s1 s2 B j i * cell s1 s2 B j i)) (B, 0)
    = ((List.range m).foldl (subtractRow s1 s2 i dot) B,
       ∑ j ∈ range m, subG i (fun k => dot.getD k 0) j (cell s1 s2 B j) i
                        * subG i (fun k => dot.getD k 0) j (cell s1 s2 B j) i) := by
  induction m with
  | zero => simp
  | succ m ih =>
    have h := (subRows_spec L dot B hB hi (m + 1) hm).2 m i (by omega) hi
    rw [if_pos (by omega)] at h
    rw [List.range_succ, List.foldl_append] at h
    simp only [List.foldl_cons, List.foldl_nil] at h
    rw [List.range_succ, List.foldl_append, List.foldl_append, ih (by omega)]
    simp only [List.foldl_cons, List.foldl_nil]
    rw [h, Finset.sum_range_succ]

/-- l.124-125 -/
theorem scaleCol_spec (L : Lay s1 s2 n nm sz) (s : K) (B : Array K) (hB : B.size = sz) {i : Nat} (hi : i < nm) :
    (scaleCol s1 s2 n i s B).size = sz ∧
    ∀ j k, j < n → k < nm →
      cell s1 s2 (scaleCol s1 s2 n i s B) j k = if k = i then cell s1 s2 B j i / s else cell s1 s2 B j k := by
  have := fold_rows (s1 := s1) (s2 := s2) (n := n) (nm := nm) (sz := sz)
    (fun B j => put s1 s2 B j i (cell s1 s2 B j i / s)) (fun _ r k => if k = i then r i / s else r k)
    (by intro B j hB hj; rw [size_put]; exact hB)
    (by intro B j j' k hB hj hj' hk hne; exact cell_put_other L _ hj hi hj' hk (fun h => hne h.1.symm) _)
    (by
      intro B j k hB hj hk
      by_cases hki : k = i
      · subst hki; rw [if_pos rfl]; exact cell_put_same L _ hB hj hk _
      · rw [if_neg hki]; exact cell_put_other L _ hj hi hj hk (fun h => hki h.2.symm) _)
    (by
      intro j r r' k hk h
      by_cases hki : k = i
      · rw [if_pos hki, if_pos hki, h i hi]
      · rw [if_neg hki, if_neg hki, h k hk])
    B hB n (le_refl _)
  refine ⟨this.1, ?_⟩
  intro j k hj hk
  have h := this.2 j k hj hk
  rw [if_pos hj] at h
  exact h

/-- the un-normalised new column of iteration `i`: `B[j,i] − Σ_{k<i} (Σ_j' B[j',k]·B[j',i])·B[j,k]` -/
def gsW (s1 s2 n i : Nat) (B : Array K) (j : Nat) : K :=
  cell s1 s2 B j i - ∑ k ∈ range i, (∑ j' ∈ range n, cell s1 s2 B j' k * cell s1 s2 B j' i) * cell s1 s2 B j k

/-- one iteration of the loop l.111-126 in terms of the cells: only column `i` changes, to `w / sqrt(Σ w²)` -/
theorem gsStep_spec (sqrt : K → K) (L : Lay s1 s2 n nm sz) (B : Array K) (hB : B.size = sz) {i : Nat}
    (hi : i < nm) (hnm : nm ≤ 6) :
    (gsStep sqrt s1 s2 n i B).1.size = sz ∧
    (gsStep sqrt s1 s2 n i B).2 = sqrt (∑ j ∈ range n, gsW s1 s2 n i B j * gsW s1 s2 n i B j) ∧
    ∀ j k, j < n → k < nm →
      cell s1 s2 (gsStep sqrt s1 s2 n i B).1 j k
        = if k = i then gsW s1 s2 n i B j / (gsStep sqrt s1 s2 n i B).2 else cell s1 s2 B j k := by
  have hd := dots_getD (s1 := s1) (s2 := s2) B i (by omega) n
  have hw : ∀ j, subG i (fun k => (dots s1 s2 n i B).getD k 0) j (cell s1 s2 B j) i = gsW s1 s2 n i B j := by
    intro j
    unfold subG gsW
    rw [if_pos rfl]
    congr 1
    apply Finset.sum_congr rfl
    intro k hk
    have := hd.2 k (Finset.mem_range.mp hk)
    unfold dots
    show _ * _ = _
    exact congrArg (· * cell s1 s2 B j k) this
  have hp := project_fold L (dots s1 s2 n i B) B hB hi n (le_refl _)
  have hs := subRows_spec L (dots s1 s2 n i B) B hB hi n (le_refl _)
  have hP1 : (project s1 s2 n i (dots s1 s2 n i B) B).1 = (List.range n).foldl (subtractRow s1 s2 i (dots s1 s2 n i B)) B := by
    unfold project; rw [hp]
  have hP2 : (project s1 s2 n i (dots s1 s2 n i B) B).2 = ∑ j ∈ range n, gsW s1 s2 n i B j * gsW s1 s2 n i B j := by
    unfold project; rw [hp]
    show ∑ j ∈ range n, _ = _
    apply Finset.sum_congr rfl
    intro j _
    rw [hw j]
  have hsc := scaleCol_spec L (sqrt (project s1 s2 n i (dots s1 s2 n i B) B).2)
    (project s1 s2 n i (dots s1 s2 n i B) B).1 (by rw [hP1]; exact hs.1) hi
  refine ⟨hsc.1, ?_, ?_⟩
  · show sqrt (project s1 s2 n i (dots s1 s2 n i B) B).2 = _
    rw [hP2]
  · intro j k hj hk
    show cell s1 s2 (scaleCol s1 s2 n i (sqrt (project s1 s2 n i (dots s1 s2 n i B) B).2)
      (project s1 s2 n i (dots s1 s2 n i B) B).1) j k = _
    rw [hsc.2 j k hj hk]
    by_cases hki : k = i
    · rw [if_pos hki, if_pos hki, hP1, hs.2 j i hj hi, if_pos hj, hw j]
      rfl
    · rw [if_neg hki, if_neg hki, hP1, hs.2 j k hj hk, if_pos hj]
      unfold subG
      rw [if_neg hki]

/-- induction over the iterations of the loop l.111-126 (`t` = number of iterations done) -/
theorem orthonormalize_induct (sqrt : K → K) (ndim : Nat) (M : Nat → Array K × List K → Prop) (B : Array K)
    (h0 : M 0 (B, []))
    (hstep : ∀ t Bl, M t Bl → ndim + t < nm →
      M (t + 1) ((gsStep sqrt s1 s2 n (ndim + t) Bl.1).1, (gsStep sqrt s1 s2 n (ndim + t) Bl.1).2 :: Bl.2)) :
    M (nm - ndim) (orthonormalize sqrt s1 s2 n ndim nm B) := by
  unfold orthonormalize
  have : ∀ c, c ≤ nm - ndim → M c ((List.range c).foldl (fun (Bl : Array K × List K) t =>
      let r := gsStep sqrt s1 s2 n (ndim + t) Bl.1
      (r.1, r.2 :: Bl.2)) (B, [])) := by
    intro c
    induction c with
    | zero => intro _; simpa using h0
    | succ c ih =>
      intro hc
      rw [List.range_succ, List.foldl_append]
      simp only [List.foldl_cons, List.foldl_nil]
      exact hstep c _ (ih (by omega)) (by omega)
  exact this _ (le_refl _)

/-- `Σ_j a_j · B[j,k]` -/
def colDot (s1 s2 n : Nat) (a : Nat → K) (B : Array K) (k : Nat) : K := ∑ j ∈ range n, a j * cell s1 s2 B j k

theorem colDot_gsW (a : Nat → K) (B : Array K) (i : Nat) :
    ∑ j ∈ range n, a j * gsW s1 s2 n i B j
      = colDot s1 s2 n a B i
        - ∑ k ∈ range i, (∑ j' ∈ range n, cell s1 s2 B j' k * cell s1 s2 B j' i) * colDot s1 s2 n a B k := by
  unfold gsW colDot
  simp only [mul_sub, Finset.sum_sub_distrib, Finset.mul_sum]
  congr 1
  rw [Finset.sum_comm]
  apply Finset.sum_congr rfl
  intro k _
  apply Finset.sum_congr rfl
  intro j _
  ring

theorem colDot_step_other (sqrt : K → K) (L : Lay s1 s2 n nm sz) (B : Array K) (hB : B.size = sz) {i k : Nat}
    (hi : i < nm) (hnm : nm ≤ 6) (hk : k < nm) (hki : k ≠ i) (a : Nat → K) :
    colDot s1 s2 n a (gsStep sqrt s1 s2 n i B).1 k = colDot s1 s2 n a B k := by
  unfold colDot
  apply Finset.sum_congr rfl
  intro j hj
  rw [(gsStep_spec sqrt L B hB hi hnm).2.2 j k (Finset.mem_range.mp hj) hk, if_neg hki]

theorem colDot_step_self (sqrt : K → K) (L : Lay s1 s2 n nm sz) (B : Array K) (hB : B.size = sz) {i : Nat}
    (hi : i < nm) (hnm : nm ≤ 6) (a : Nat → K) :
    colDot s1 s2 n a (gsStep sqrt s1 s2 n i B).1 i
      = (∑ j ∈ range n, a j * gsW s1 s2 n i B j) / (gsStep sqrt s1 s2 n i B).2 := by
  unfold colDot
  rw [div_eq_mul_inv, Finset.sum_mul]
  apply Finset.sum_congr rfl
  intro j hj
  rw [(gsStep_spec sqrt L B hB hi hnm).2.2 j i (Finset.mem_range.mp hj) hi, if_pos rfl, div_eq_mul_inv, mul_assoc]

/-- a row vector that annihilates every column before an iteration annihilates every column after it -/
theorem annihilates_step (sqrt : K → K) (L : Lay s1 s2 n nm sz) (B : Array K) (hB : B.size = sz) {i : Nat}
    (hi : i < nm) (hnm : nm ≤ 6) (a : Nat → K) (h : ∀ k, k < nm → colDot s1 s2 n a B k = 0) :
    ∀ k, k < nm → colDot s1 s2 n a (gsStep sqrt s1 s2 n i B).1 k = 0 := by
  intro k hk
  by_cases hki : k = i
  · subst hki
    rw [colDot_step_self sqrt L B hB hk hnm a, colDot_gsW, h k hk]
    have : ∑ k' ∈ range k, (∑ j' ∈ range n, cell s1 s2 B j' k' * cell s1 s2 B j' k) * colDot s1 s2 n a B k' = 0 := by
      apply Finset.sum_eq_zero
      intro k' hk'
      rw [h k' (by have := Finset.mem_range.mp hk'; omega), mul_zero]
    rw [this]; simp
  · rw [colDot_step_other sqrt L B hB hi hnm hk hki a]; exact h k hk

/-- … and conversely when the divisor is not zero -/
theorem annihilates_step_conv (sqrt : K → K) (L : Lay s1 s2 n nm sz) (B : Array K) (hB : B.size = sz) {i : Nat}
    (hi : i < nm) (hnm : nm ≤ 6) (a : Nat → K) (hs : (gsStep sqrt s1 s2 n i B).2 ≠ 0)
    (h : ∀ k, k < nm → colDot s1 s2 n a (gsStep sqrt s1 s2 n i B).1 k = 0) :
    ∀ k, k < nm → colDot s1 s2 n a B k = 0 := by
  have hoth : ∀ k, k < nm → k ≠ i → colDot s1 s2 n a B k = 0 := by
    intro k hk hki
    rw [← colDot_step_other sqrt L B hB hi hnm hk hki a]; exact h k hk
  intro k hk
  by_cases hki : k = i
  · subst hki
    have h1 := h k hk
    rw [colDot_step_self sqrt L B hB hk hnm a, div_eq_zero_iff] at h1
    have h2 : ∑ j ∈ range n, a j * gsW s1 s2 n k B j = 0 := h1.resolve_right hs
    rw [colDot_gsW] at h2
    have : ∑ k' ∈ range k, (∑ j' ∈ range n, cell s1 s2 B j' k' * cell s1 s2 B j' k) * colDot s1 s2 n a B k' = 0 := by
      apply Finset.sum_eq_zero
      intro k' hk'
      have hk'' := Finset.mem_range.mp hk'
      rw [hoth k' (by omega) (by omega), mul_zero]
    rw [this, sub_zero] at h2
    exact h2
  · exact hoth k hk hki

/-! ## the fill loop l.58-107 -/

theorem cell_put_eq (L : Lay s1 s2 n nm sz) (B : Array K) (hB : B.size = sz) {i k i' k' : Nat} (hi : i < n)
    (hk : k < nm) (hi' : i' < n) (hk' : k' < nm) (v : K) :
    cell s1 s2 (put s1 s2 B i k v) i' k' = if i = i' ∧ k = k' then v else cell s1 s2 B i' k' := by
  by_cases h : i = i' ∧ k = k'
  · obtain ⟨rfl, rfl⟩ := h
    rw [if_pos ⟨rfl, rfl⟩]; exact cell_put_same L B hB hi hk v
  · rw [if_neg h]; exact cell_put_other L B hi hk hi' hk' h v

omit [Field K] in
theorem foldl_size (step : Array K → Nat → Array K) (h : ∀ B j, (step B j).size = B.size) (l : List Nat)
    (B : Array K) : (l.foldl step B).size = B.size := by
  induction l generalizing B with
  | nil => rfl
  | cons x xs ih => rw [List.foldl_cons, ih, h]

/-- row `j` written by the 2D loop body: what the row holds afterwards, given what it held (`old`) -/
def row2 (sn : K) (coo : Array K) (j : Nat) (old : Nat → K) (k : Nat) : K :=
  if k = 2 then (if j % 2 = 0 then - coo.getD (j / 2 * 2 + 1) 0 else coo.getD (j / 2 * 2 + 0) 0)
  else if k = j % 2 then sn else old k

/-- row `j` written by the 3D loop body -/
def row3 (sn : K) (coo : Array K) (j : Nat) (old : Nat → K) (k : Nat) : K :=
  if j % 3 = 0 then
    (if k = 5 then coo.getD (j / 3 * 3 + 2) 0 else if k = 3 then coo.getD (j / 3 * 3 + 1) 0
     else if k = 0 then sn else old k)
  else if j % 3 = 1 then
    (if k = 4 then - coo.getD (j / 3 * 3 + 2) 0 else if k = 3 then - coo.getD (j / 3 * 3 + 0) 0
     else if k = 1 then sn else old k)
  else
    (if k = 5 then - coo.getD (j / 3 * 3 + 0) 0 else if k = 4 then coo.getD (j / 3 * 3 + 1) 0
     else if k = 2 then sn else old k)

theorem fillRow2_cell (L : Lay s1 s2 n 3 sz) (sn : K) (coo : Array K) (B : Array K) (hB : B.size = sz) {j j' k : Nat}
    (hj : j < n) (hj' : j' < n) (hk : k < 3) :
    cell s1 s2 (fillRow2 sn coo s1 s2 B j) j' k
      = if j' = j then row2 sn coo j (cell s1 s2 B j) k else cell s1 s2 B j' k := by
  have hd : j % 2 < 3 := by omega
  have h1 : (put s1 s2 B j (j % 2) sn).size = sz := by rw [size_put]; exact hB
  unfold fillRow2 row2
  dsimp only
  split
  · rw [cell_put_eq L _ h1 hj (by omega) hj' hk, cell_put_eq L _ hB hj hd hj' hk]
    by_cases e : j' = j
    · subst e; simp only [true_and, if_true]; split_ifs <;> first | rfl | omega
    · have e' : ¬ j = j' := fun h => e h.symm
      simp only [e, e', false_and, if_false]
  · rw [cell_put_eq L _ h1 hj (by omega) hj' hk, cell_put_eq L _ hB hj hd hj' hk]
    by_cases e : j' = j
    · subst e; simp only [true_and, if_true]; split_ifs <;> first | rfl | omega
    · have e' : ¬ j = j' := fun h => e h.symm
      simp only [e, e', false_and, if_false]

theorem fillRow3_cell (L : Lay s1 s2 n 6 sz) (sn : K) (coo : Array K) (B : Array K) (hB : B.size = sz) {j j' k : Nat}
    (hj : j < n) (hj' : j' < n) (hk : k < 6) :
    cell s1 s2 (fillRow3 sn coo s1 s2 B j) j' k
      = if j' = j then row3 sn coo j (cell s1 s2 B j) k else cell s1 s2 B j' k := by
  have hd : j % 3 < 6 := by omega
  have h1 : (put s1 s2 B j (j % 3) sn).size = sz := by rw [size_put]; exact hB
  have h2 : ∀ k v, (put s1 s2 (put s1 s2 B j (j % 3) sn) j k v).size = sz := by
    intro k v; rw [size_put]; exact h1
  unfold fillRow3 row3
  dsimp only
  split
  · rw [cell_put_eq L _ (h2 _ _) hj (by omega) hj' hk, cell_put_eq L _ h1 hj (by omega) hj' hk,
      cell_put_eq L _ hB hj hd hj' hk]
    by_cases e : j' = j
    · subst e; simp only [true_and, if_true]; split_ifs <;> first | rfl | omega
    · have e' : ¬ j = j' := fun h => e h.symm
      simp only [e, e', false_and, if_false]
  · split
    · rw [cell_put_eq L _ (h2 _ _) hj (by omega) hj' hk, cell_put_eq L _ h1 hj (by omega) hj' hk,
        cell_put_eq L _ hB hj hd hj' hk]
      by_cases e : j' = j
      · subst e; simp only [true_and, if_true]; split_ifs <;> first | rfl | omega
      · have e' : ¬ j = j' := fun h => e h.symm
        simp only [e, e', false_and, if_false]
    · rw [cell_put_eq L _ (h2 _ _) hj (by omega) hj' hk, cell_put_eq L _ h1 hj (by omega) hj' hk,
        cell_put_eq L _ hB hj hd hj' hk]
      by_cases e : j' = j
      · subst e; simp only [true_and, if_true]; split_ifs <;> first | rfl | omega
      · have e' : ¬ j = j' := fun h => e h.symm
        simp only [e, e', false_and, if_false]

theorem fill2_spec (L : Lay s1 s2 n 3 sz) (sn : K) (coo : Array K) (B : Array K) (hB : B.size = sz) :
    (fill 2 sn coo s1 s2 n B).size = sz ∧
    ∀ j k, j < n → k < 3 → cell s1 s2 (fill 2 sn coo s1 s2 n B) j k = row2 sn coo j (cell s1 s2 B j) k := by
  unfold fill
  rw [if_pos rfl]
  have := fold_rows (s1 := s1) (s2 := s2) (n := n) (nm := 3) (sz := sz) (fillRow2 sn coo s1 s2) (row2 sn coo)
    (by intro B j hB _; unfold fillRow2; dsimp only; split <;> (rw [size_put, size_put]; exact hB))
    (by intro B j j' k hB hj hj' hk hne; rw [fillRow2_cell L sn coo B hB hj hj' hk, if_neg hne])
    (by intro B j k hB hj hk; rw [fillRow2_cell L sn coo B hB hj hj hk, if_pos rfl])
    (by intro j r r' k hk h; unfold row2; rw [h k hk])
    B hB n (le_refl _)
  refine ⟨this.1, ?_⟩
  intro j k hj hk
  rw [this.2 j k hj hk, if_pos hj]

theorem fill3_spec (L : Lay s1 s2 n 6 sz) (sn : K) (coo : Array K) (B : Array K) (hB : B.size = sz) :
    (fill 3 sn coo s1 s2 n B).size = sz ∧
    ∀ j k, j < n → k < 6 → cell s1 s2 (fill 3 sn coo s1 s2 n B) j k = row3 sn coo j (cell s1 s2 B j) k := by
  unfold fill
  rw [if_neg (by decide)]
  have := fold_rows (s1 := s1) (s2 := s2) (n := n) (nm := 6) (sz := sz) (fillRow3 sn coo s1 s2) (row3 sn coo)
    (by
      intro B j hB _; unfold fillRow3; dsimp only
      split
      · rw [size_put, size_put, size_put]; exact hB
      · split <;> (rw [size_put, size_put, size_put]; exact hB))
    (by intro B j j' k hB hj hj' hk hne; rw [fillRow3_cell L sn coo B hB hj hj' hk, if_neg hne])
    (by intro B j k hB hj hk; rw [fillRow3_cell L sn coo B hB hj hj hk, if_pos rfl])
    (by intro j r r' k hk h; unfold row3; rw [h k hk])
    B hB n (le_refl _)
  refine ⟨this.1, ?_⟩
  intro j k hj hk
  rw [this.2 j k hj hk, if_pos hj]

omit [Field K] in
theorem size_resize [Zero K] (B : Array K) (m : Nat) : (resize B m).size = m := by
  unfold resize; simp

theorem resize_empty_getD (m t : Nat) : (resize (#[] : Array K) m).getD t 0 = 0 := by
  unfold resize
  rw [Array.getD_eq_getD_getElem?, Array.getElem?_ofFn]
  split <;> simp

theorem lay_of (tr : Bool) (n nm : Nat) : Lay (if tr then 1 else nm) (if tr then n else 1) n nm (n * nm) := by
  cases tr
  · simpa using lay_rowmajor n nm
  · simpa using lay_transposed n nm

end cells
end RBM
end Amgcl
