import Amgcl.Proofs.SolverBiCGStabL
import Mathlib.Algebra.BigOperators.Group.List.Basic
/-!
Helper lemmas for the truthfulness proof of BiCGStab(L): linear operators on vectors of a fixed length in entrywise
form (`Lin`), the preconditioned operator `Ap = A∘P` / `P∘A` is one of them, `lin_comb` entrywise, closed forms of the
`for (i …) a[i] = g(i, a[i])` loops over map-modelled arrays.
-/
namespace Amgcl.Solver.BiCGStabL
open Amgcl Amgcl.Solver
set_option linter.unusedSectionVars false
set_option linter.unusedSimpArgs false
set_option linter.unusedVariables false

variable {K : Type} [Field K] [DecidableEq K]

/-! ### entrywise linear combinations -/

/-- `y = a·u + b·w` on the entries `0..n` -/
def VLin (n : Nat) (y : Vec K) (a : K) (u : Vec K) (b : K) (w : Vec K) : Prop :=
  ∀ i, i < n → y.getD i 0 = a * u.getD i 0 + b * w.getD i 0

/-- a linear operator on vectors of length `n` (entrywise form; output always of length `n`) -/
structure Lin (n : Nat) (F : Vec K → Vec K) : Prop where
  size : ∀ v, (F v).size = n
  lin : ∀ (a b : K) (y u w : Vec K), y.size = n → u.size = n → w.size = n →
    VLin n y a u b w → VLin n (F y) a (F u) b (F w)

theorem vclear_size' (n : Nat) : (vclear n : Vec K).size = n := by simp [vclear]

theorem Lin.map_axpby {n : Nat} {F : Vec K → Vec K} (hF : Lin n F) (a b : K) (u w : Vec K) (hu : u.size = n)
    (hw : w.size = n) : F (Amgcl.axpby a u b w) = Amgcl.axpby a (F u) b (F w) := by
  apply Vec.ext_getD (0 : K)
  · rw [hF.size, axpby_size, hF.size]
  · intro i hi
    rw [hF.size] at hi
    rw [hF.lin a b (Amgcl.axpby a u b w) u w (by rw [axpby_size, hu]) hu hw
      (fun k hk => axpby_getD _ _ _ _ _ (by rw [hu]; exact hk)) i hi,
      axpby_getD _ _ _ _ _ (by rw [hF.size]; exact hi)]

/-- a linear operator maps the zero vector to zero -/
theorem Lin.zero {n : Nat} {F : Vec K → Vec K} (hF : Lin n F) (i : Nat) : (F (vclear n)).getD i 0 = 0 := by
  by_cases hi : i < n
  · have := hF.lin 0 0 (vclear n) (vclear n) (vclear n) (vclear_size' n) (vclear_size' n) (vclear_size' n)
      (fun k _ => by rw [vclear_getD]; ring) i hi
    rw [this]; ring
  · exact getD_of_size_le _ _ (by rw [hF.size]; omega)

/-- the matrix-vector product is linear (no size condition: `getD` pads with zeros) -/
theorem spmv_vlin (A : CRS K) (hA : A.WF) (a b : K) (y u w z z' z'' : Vec K) (h : VLin A.ncols y a u b w) :
    VLin A.nrows (spmv 1 A y 0 z) a (spmv 1 A u 0 z') b (spmv 1 A w 0 z'') := by
  intro i hi
  rw [spmv_getD _ _ _ _ _ _ hi, spmv_getD _ _ _ _ _ _ hi, spmv_getD _ _ _ _ _ _ hi,
    rowDot_lin (A.row i) y u w a b (fun cv hcv => h cv.1 (row_cols_lt A hA i cv hcv))]
  ring

/-- `PLin` (the two-term form used by BiCGStab) gives the general entrywise form -/
theorem Lin_of_PLin (n : Nat) (P : Vec K → Vec K) (hsz : ∀ v, (P v).size = n) (hl : PLin n P) : Lin n P := by
  have hz : ∀ i, i < n → (P (vclear n)).getD i 0 = 0 := by
    intro i hi
    have e : (vclear n : Vec K) = axpbypcz 1 (vclear n) 1 (vclear n) 0 (vclear n) := by
      apply Vec.ext_getD (0 : K)
      · rw [axpbypcz_size]
      · intro k hk
        rw [vclear_size'] at hk
        rw [axpbypcz_getD _ _ _ _ _ _ _ (by rw [vclear_size']; exact hk), vclear_getD]; ring
    have h2 := congrArg (fun v : Vec K => v.getD i 0)
      (hl 1 (vclear n) (vclear n) (vclear n) (vclear n) (vclear_size' n) (vclear_size' n))
    beta_reduce at h2
    rw [← e, axpbypcz_getD _ _ _ _ _ _ _ (by rw [hsz]; exact hi)] at h2
    have h3 : (P (vclear n)).getD i 0 + (P (vclear n)).getD i 0 = (P (vclear n)).getD i 0 + 0 := by
      rw [add_zero]; conv_rhs => rw [h2]
      ring
    exact add_left_cancel h3
  refine ⟨hsz, ?_⟩
  intro a b y u w hy hu hw h i hi
  -- u' = a·u
  have eu : Amgcl.axpby a u 0 (vclear n) = axpbypcz 1 (vclear n) a u 0 (vclear n) := by
    apply Vec.ext_getD (0 : K)
    · rw [axpby_size, axpbypcz_size, hu, vclear_size']
    · intro k hk
      rw [axpby_size, hu] at hk
      rw [axpby_getD _ _ _ _ _ (by rw [hu]; exact hk),
        axpbypcz_getD _ _ _ _ _ _ _ (by rw [vclear_size']; exact hk), vclear_getD]; ring
  have ey : y = axpbypcz 1 (Amgcl.axpby a u 0 (vclear n)) b w 0 (vclear n) := by
    apply Vec.ext_getD (0 : K)
    · rw [axpbypcz_size, axpby_size, hy, hu]
    · intro k hk
      rw [hy] at hk
      rw [axpbypcz_getD _ _ _ _ _ _ _ (by rw [axpby_size, hu]; exact hk),
        axpby_getD _ _ _ _ _ (by rw [hu]; exact hk), h k hk, vclear_getD]; ring
  have h1 := hl b (Amgcl.axpby a u 0 (vclear n)) w (vclear n) (vclear n) (by rw [axpby_size, hu]) hw
  have h2 := hl a (vclear n) u (vclear n) (vclear n) (vclear_size' n) hu
  rw [← ey] at h1
  rw [← eu] at h2
  rw [h1, axpbypcz_getD _ _ _ _ _ _ _ (by rw [hsz]; exact hi), h2,
    axpbypcz_getD _ _ _ _ _ _ _ (by rw [hsz]; exact hi), hz i hi]
  ring

/-! ### the preconditioned operator -/

section ap
variable [LT K] [DecidableLT K]

/-- the preconditioned operator of `preconditioner::spmv`: `A (P v)` (right) resp. `P (A v)` (left) -/
def Ap (side : Side) (P : Vec K → Vec K) (A : CRS K) (v : Vec K) : Vec K := (pspmv side P A v #[] #[]).1

theorem pspmv_fst (side : Side) (P : Vec K → Vec K) (A : CRS K) (v X T : Vec K) :
    (pspmv side P A v X T).1 = Ap side P A v := by
  unfold Ap; rw [BiCGStab.pspmv_indep side P A v X T #[] #[]]

theorem Ap_lin (side : Side) (P : Vec K → Vec K) (A : CRS K) (hA : A.WF) (hsq : A.nrows = A.ncols)
    (hsz : ∀ v, (P v).size = A.ncols) (hl : PLin A.nrows P) : Lin A.ncols (Ap side P A) := by
  have hP : Lin A.ncols P := Lin_of_PLin A.ncols P hsz (by rw [← hsq]; exact hl)
  cases side with
  | right =>
    refine ⟨fun v => by simp only [Ap, pspmv]; rw [spmv_size', hsq], ?_⟩
    intro a b y u w hy hu hw h
    simp only [Ap, pspmv]
    have := spmv_vlin A hA a b (P y) (P u) (P w) #[] #[] #[] (hP.lin a b y u w hy hu hw h)
    rw [hsq] at this; exact this
  | left =>
    refine ⟨fun v => by simp only [Ap, pspmv]; rw [hsz], ?_⟩
    intro a b y u w hy hu hw h
    simp only [Ap, pspmv]
    have h1 := spmv_vlin A hA a b y u w #[] #[] #[] h
    rw [hsq] at h1
    exact hP.lin a b _ _ _ (by rw [spmv_size', hsq]) (by rw [spmv_size', hsq]) (by rw [spmv_size', hsq]) h1

end ap

/-! ### `lin_comb` entrywise -/

/-- `Σ_k c_k · v_k[i]` -/
def csum (cvs : List (K × Vec K)) (i : Nat) : K := (cvs.map (fun cv => cv.1 * cv.2.getD i 0)).sum

theorem csum_nil (i : Nat) : csum ([] : List (K × Vec K)) i = 0 := rfl
theorem csum_cons (cv : K × Vec K) (t : List (K × Vec K)) (i : Nat) :
    csum (cv :: t) i = cv.1 * cv.2.getD i 0 + csum t i := by simp [csum]

theorem linCombTail_spec (n : Nat) : ∀ (m : Nat) (cvs : List (K × Vec K)) (y : Vec K), cvs.length ≤ m →
    (∀ cv ∈ cvs, cv.2.size = n) → y.size = n →
    (linCombTail cvs y).size = n ∧ ∀ i, i < n → (linCombTail cvs y).getD i 0 = y.getD i 0 + csum cvs i := by
  intro m
  induction m with
  | zero =>
    intro cvs y hlen _ hy
    have : cvs = [] := List.eq_nil_of_length_eq_zero (by omega)
    subst this
    exact ⟨hy, fun i _ => by simp [linCombTail, csum]⟩
  | succ m ih =>
    intro cvs y hlen hs hy
    match cvs, hlen, hs with
    | [], _, _ => exact ⟨hy, fun i _ => by simp [linCombTail, csum]⟩
    | [(c, v)], _, hs =>
      have hv : v.size = n := hs (c, v) List.mem_cons_self
      refine ⟨by simp only [linCombTail]; rw [axpby_size, hv], fun i hi => ?_⟩
      simp only [linCombTail]
      rw [axpby_getD _ _ _ _ _ (by rw [hv]; exact hi), csum_cons, csum_nil]; ring
    | (c1, v1) :: (c2, v2) :: rest, hlen, hs =>
      have hv1 : v1.size = n := hs (c1, v1) List.mem_cons_self
      have hv2 : v2.size = n := hs (c2, v2) (List.mem_cons_of_mem _ List.mem_cons_self)
      have hy' : (axpbypcz c1 v1 c2 v2 1 y).size = n := by rw [axpbypcz_size, hv1]
      obtain ⟨g1, g2⟩ := ih rest (axpbypcz c1 v1 c2 v2 1 y) (by simp at hlen; omega)
        (fun cv hcv => hs cv (List.mem_cons_of_mem _ (List.mem_cons_of_mem _ hcv))) hy'
      refine ⟨by simp only [linCombTail]; exact g1, fun i hi => ?_⟩
      simp only [linCombTail]
      rw [g2 i hi, axpbypcz_getD _ _ _ _ _ _ _ (by rw [hv1]; exact hi), csum_cons, csum_cons]; ring

/-- `lin_comb(n, c, v, one, y)`: `y ← y + Σ c_k v_k`, all vectors of length `n` -/
theorem linComb_spec (n : Nat) (cvs : List (K × Vec K)) (y : Vec K) (hs : ∀ cv ∈ cvs, cv.2.size = n)
    (hy : y.size = n) :
    (linComb cvs 1 y).size = n ∧ ∀ i, i < n → (linComb cvs 1 y).getD i 0 = y.getD i 0 + csum cvs i := by
  match cvs, hs with
  | [], _ => exact ⟨hy, fun i _ => by simp [linComb, csum]⟩
  | (c, v) :: rest, hs =>
    have hv : v.size = n := hs (c, v) List.mem_cons_self
    obtain ⟨g1, g2⟩ := linCombTail_spec n rest.length rest (Amgcl.axpby c v 1 y) (Nat.le_refl _)
      (fun cv hcv => hs cv (List.mem_cons_of_mem _ hcv)) (by rw [axpby_size, hv])
    refine ⟨by simp only [linComb]; exact g1, fun i hi => ?_⟩
    simp only [linComb]
    rw [g2 i hi, axpby_getD _ _ _ _ _ (by rw [hv]; exact hi), csum_cons]; ring

/-- n-ary linearity: `F (y₀ + Σ c_k v_k) = F y₀ + Σ c_k F v_k` -/
theorem Lin.sum {n : Nat} {F : Vec K → Vec K} (hF : Lin n F) : ∀ (cvs : List (K × Vec K)) (y0 y : Vec K),
    (∀ cv ∈ cvs, cv.2.size = n) → y0.size = n → y.size = n →
    (∀ i, i < n → y.getD i 0 = y0.getD i 0 + csum cvs i) →
    ∀ i, i < n → (F y).getD i 0 = (F y0).getD i 0 + csum (cvs.map (fun cv => (cv.1, F cv.2))) i := by
  intro cvs
  induction cvs with
  | nil =>
    intro y0 y _ hy0 hy h i hi
    have := hF.lin 1 0 y y0 y0 hy hy0 hy0 (fun k hk => by rw [h k hk, csum_nil]; ring) i hi
    rw [this, List.map_nil, csum_nil]; ring
  | cons cv t ih =>
    intro y0 y hs hy0 hy h i hi
    obtain ⟨c, v⟩ := cv
    have hv : v.size = n := hs (c, v) List.mem_cons_self
    have h1 := ih (Amgcl.axpby c v 1 y0) y (fun cv hcv => hs cv (List.mem_cons_of_mem _ hcv))
      (by rw [axpby_size, hv]) hy
      (fun k hk => by rw [h k hk, axpby_getD _ _ _ _ _ (by rw [hv]; exact hk), csum_cons]; ring) i hi
    rw [h1, hF.map_axpby c 1 v y0 hv hy0, axpby_getD _ _ _ _ _ (by rw [hF.size]; exact hi), List.map_cons, csum_cons]
    ring

theorem csum_combList (L : Nat) (c : Nat → K) (v : Nat → Vec K) (i : Nat) :
    csum (combList L c v) i = ((List.range L).map (fun k => c k * (v k).getD i 0)).sum := by
  simp [csum, combList, Function.comp_def]

theorem sum_range_neg (L : Nat) (g h : Nat → K) (hgh : ∀ k, k < L → g k = - h k) :
    ((List.range L).map g).sum = - ((List.range L).map h).sum := by
  induction L with
  | zero => simp
  | succ m ih =>
    rw [List.range_succ, List.map_append, List.map_append, List.sum_append, List.sum_append,
      ih (fun k hk => hgh k (Nat.lt_succ_of_lt hk))]
    simp only [List.map_cons, List.map_nil, List.sum_cons, List.sum_nil, add_zero]
    rw [hgh m (Nat.lt_succ_self m)]; ring

/-! ### closed forms of `for (i ∈ l) a[i] = g(i, a[i])` -/

theorem foldl_setF_self {α : Type} (g : Nat → α → α) : ∀ (l : List Nat) (a : FArr α) (k : Nat), l.Nodup →
    (l.foldl (fun (U : FArr α) i => setF U i (g i (U.get i))) a).get k = if k ∈ l then g k (a.get k) else a.get k := by
  intro l
  induction l with
  | nil => intro a k _; simp
  | cons x t ih =>
    intro a k hnd
    rw [List.nodup_cons] at hnd
    simp only [List.foldl_cons]
    rw [ih _ k hnd.2]
    by_cases hk : k = x
    · subst hk
      simp [hnd.1]
    · simp only [List.mem_cons, hk, false_or, setF_other _ _ _ _ hk]

theorem foldl_setF_range {α : Type} (g : Nat → α → α) (m : Nat) (a : FArr α) (k : Nat) :
    ((List.range m).foldl (fun (U : FArr α) i => setF U i (g i (U.get i))) a).get k
      = if k < m then g k (a.get k) else a.get k := by
  rw [foldl_setF_self g _ a k List.nodup_range]
  simp only [List.mem_range]

theorem mem_range_drop_iff (n d k : Nat) : k ∈ (List.range n).drop d ↔ d ≤ k ∧ k < n := by
  constructor
  · exact mem_range_drop
  · intro ⟨h1, h2⟩
    rw [List.mem_iff_getElem]
    refine ⟨k - d, by simp; omega, ?_⟩
    simp only [List.getElem_drop, List.getElem_range]
    omega

theorem foldl_setF_range_drop {α : Type} (g : Nat → α → α) (m d : Nat) (a : FArr α) (k : Nat) :
    (((List.range m).drop d).foldl (fun (U : FArr α) i => setF U i (g i (U.get i))) a).get k
      = if d ≤ k ∧ k < m then g k (a.get k) else a.get k := by
  rw [foldl_setF_self g _ a k (List.Nodup.sublist (List.drop_sublist _ _) List.nodup_range)]
  simp only [mem_range_drop_iff]

end Amgcl.Solver.BiCGStabL
