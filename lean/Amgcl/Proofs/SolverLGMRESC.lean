import Amgcl.Model.SolverCplx2
import Amgcl.Proofs.SolverGMRESC
import Amgcl.Proofs.SolverLGMRES
/-!
Lemmas about the `conj`-parametrised LGMRES model (`Model/SolverCplx2.lean`): at `conj = id` it is the real-valued model
(`LGMRES.runC_id`); the returned state has just been through `head` for every `conj` (`finalC_inv`).
-/
namespace Amgcl.Solver.LGMRES
set_option linter.unusedSectionVars false
set_option linter.unusedSimpArgs false
variable {K : Type} [Field K] [DecidableEq K] [LT K] [DecidableLT K]

theorem stepC_id (side : Side) (MM cap : Nat) (ip : Vec K → Vec K → K) (sqrt : K → K) (A : CRS K) (P : Vec K → Vec K) :
    stepC id side MM cap ip sqrt A P = step side MM cap ip sqrt A P := by
  funext t
  unfold stepC step
  simp only [rotateC_id]

theorem runC_id (prm : Params K) (ip : Vec K → Vec K → K) (sqrt : K → K) (eps : K) (A : CRS K) (P : Vec K → Vec K)
    (ws : Work K) (f x0 : Vec K) : runC id prm ip sqrt eps A P ws f x0 = run prm ip sqrt eps A P ws f x0 := by
  have hi : ∀ e st, innerC id prm ip sqrt A P e st = inner prm ip sqrt A P e st := by
    intro e st; unfold innerC inner; rw [stepC_id]
  have hc : ∀ e st, cycleC id prm ip sqrt A P e st = cycle prm ip sqrt A P e st := by
    intro e st; unfold cycleC cycle; rw [hi]
  have ho : ∀ e n st, outerC id prm ip sqrt A P f e n st = outer prm ip sqrt A P f e n st := by
    intro e n st; unfold outerC outer; simp only [hc]
  cases h : prologueA prm.nsSearch ip sqrt eps f <;> simp only [runC, run, h, ho]

def finalC (conj : K → K) (prm : Params K) (ip : Vec K → Vec K → K) (sqrt : K → K) (A : CRS K) (P : Vec K → Vec K)
    (ws : Work K) (f x0 : Vec K) (nf : K) : St K :=
  outerC conj prm ip sqrt A P f (epsTol prm nf) prm.maxiter (init prm ip sqrt A P ws f x0)

theorem runC_trivial (conj : K → K) (prm : Params K) (ip : Vec K → Vec K → K) (sqrt : K → K) (eps : K) (A : CRS K)
    (P : Vec K → Vec K) (ws : Work K) (f x0 : Vec K) (n : K)
    (h : prologueA prm.nsSearch ip sqrt eps f = .trivial n) :
    runC conj prm ip sqrt eps A P ws f x0 = (.ok (0, n), vclear x0.size, reset prm ws) := by
  simp only [runC, h]

theorem runC_go (conj : K → K) (prm : Params K) (ip : Vec K → Vec K → K) (sqrt : K → K) (eps : K) (A : CRS K)
    (P : Vec K → Vec K) (ws : Work K) (f x0 : Vec K) (nf : K)
    (h : prologueA prm.nsSearch ip sqrt eps f = .go nf) :
    runC conj prm ip sqrt eps A P ws f x0 =
      (.ok ((finalC conj prm ip sqrt A P (reset prm ws) f x0 nf).iter,
            (finalC conj prm ip sqrt A P (reset prm ws) f x0 nf).normR / nf),
       (finalC conj prm ip sqrt A P (reset prm ws) f x0 nf).x, (finalC conj prm ip sqrt A P (reset prm ws) f x0 nf).w) := by
  simp only [runC, h, finalC, epsTol]

theorem finalC_inv (conj : K → K) (prm : Params K) (ip : Vec K → Vec K → K) (sqrt : K → K) (A : CRS K) (P : Vec K → Vec K)
    (ws : Work K) (f x0 : Vec K) (nf : K) :
    Inv prm.pside ip sqrt A P f (finalC conj prm ip sqrt A P ws f x0 nf) :=
  loopN_inv _ _ _ (fun _ _ _ => head_inv prm.pside ip sqrt A P f _) _ _ (head_inv prm.pside ip sqrt A P f _)

end Amgcl.Solver.LGMRES
