import Amgcl.Model.RelaxGS
import Amgcl.Proofs.RelaxJacobi
/-!
Helper lemmas for the serial Gauss–Seidel sweep: closed form of the row loop, the row equation after a row update,
folds of point updates over a duplicate-free index list, linearity and fixed point.
-/
namespace Amgcl
namespace Relax
open Finset

section ring
variable {K : Type} [Field K]

/-- the diagonal value the row loop ends with (`D = identity; … if (c == i) D = v`) -/
def lastDiag (D0 : K) (r : Row K) (i : Nat) : K := r.foldl (fun D cv => if cv.1 = i then cv.2 else D) D0

/-- the off-diagonal part of the row product -/
def offDot (r : Row K) (i : Nat) (x : Vec K) : K :=
  (r.map (fun cv => if cv.1 = i then 0 else cv.2 * x.getD cv.1 0)).sum

theorem gsRowAcc_fold (r : Row K) (i : Nat) (x : Vec K) (D0 X0 : K) :
    r.foldl (fun (dx : K × K) cv => if cv.1 = i then (cv.2, dx.2) else (dx.1, dx.2 - cv.2 * x.getD cv.1 0)) (D0, X0)
      = (lastDiag D0 r i, X0 - offDot r i x) := by
  induction r generalizing D0 X0 with
  | nil => simp [lastDiag, offDot]
  | cons cv t ih =>
    simp only [List.foldl_cons]
    by_cases hc : cv.1 = i
    · simp only [hc, if_true]
      rw [ih]
      simp [lastDiag, offDot, hc]
    · simp only [hc, if_false]
      rw [ih]
      simp only [lastDiag, offDot, List.foldl_cons, hc, if_false, List.map_cons, List.sum_cons]
      congr 1; ring

theorem gsRowAcc_eq (r : Row K) (i : Nat) (fi : K) (x : Vec K) :
    gsRowAcc r i fi x = (lastDiag 1 r i, fi - offDot r i x) := by
  unfold gsRowAcc; exact gsRowAcc_fold r i x 1 fi

theorem lastDiag_of_none (D0 : K) (r : Row K) (i : Nat) (h : r.countP (fun cv => cv.1 == i) = 0) :
    lastDiag D0 r i = D0 := by
  induction r generalizing D0 with
  | nil => rfl
  | cons cv t ih =>
    rw [List.countP_cons] at h
    have hne : cv.1 ≠ i := by
      intro e
      have : (if (cv.1 == i) = true then 1 else 0) = 1 := by simp [e]
      omega
    have h2 : List.countP (fun cv => cv.1 == i) t = 0 := by omega
    simp only [lastDiag, List.foldl_cons, hne, if_false]
    exact ih D0 h2

theorem lastDiag_of_once (D0 : K) (r : Row K) (i : Nat) (h : r.countP (fun cv => cv.1 == i) = 1) :
    lastDiag D0 r i = rowGet r i := by
  induction r generalizing D0 with
  | nil => simp at h
  | cons cv t ih =>
    rw [List.countP_cons] at h
    by_cases hc : cv.1 = i
    · have h' : (if (cv.1 == i) = true then 1 else 0) = 1 := by simp [hc]
      have h2 : List.countP (fun cv => cv.1 == i) t = 0 := by omega
      rw [rowGet_cons, if_pos hc, rowGet_eq_zero_of_countP t i h2]
      simp only [lastDiag, List.foldl_cons, hc, if_true]
      rw [show List.foldl (fun D cv => if cv.1 = i then cv.2 else D) cv.2 t = lastDiag cv.2 t i from rfl,
        lastDiag_of_none _ _ _ h2]; ring
    · have h' : (if (cv.1 == i) = true then 1 else 0) = 0 := by simp [hc]
      have h2 : List.countP (fun cv => cv.1 == i) t = 1 := by omega
      rw [rowGet_cons, if_neg hc, ← ih D0 h2]
      simp only [lastDiag, List.foldl_cons, hc, if_false]

/-- the row product splits into the off-diagonal part and the (summed) diagonal entry times `x_i` -/
theorem rowDot_split (r : Row K) (i : Nat) (x : Vec K) :
    rowDot r x = offDot r i x + rowGet r i * x.getD i 0 := by
  rw [rowDot_eq_listSum]
  unfold offDot
  induction r with
  | nil => simp
  | cons cv t ih =>
    simp only [List.map_cons, List.sum_cons, rowGet_cons, ih]
    by_cases hc : cv.1 = i
    · simp only [hc, if_true]; ring
    · simp only [hc, if_false]; ring

/-- the off-diagonal part does not see entry `i` of the vector -/
theorem offDot_congr (r : Row K) (i : Nat) (x y : Vec K) (h : ∀ j, j ≠ i → x.getD j 0 = y.getD j 0) :
    offDot r i x = offDot r i y := by
  unfold offDot
  congr 1
  apply List.map_congr_left
  intro cv _
  by_cases hc : cv.1 = i
  · simp [hc]
  · simp only [hc, if_false]; rw [h cv.1 hc]

theorem offDot_vlin (r : Row K) (i : Nat) (a b : K) (x y : Vec K) (h : x.size = y.size) :
    offDot r i (vlin a x b y) = a * offDot r i x + b * offDot r i y := by
  unfold offDot
  induction r with
  | nil => simp
  | cons cv t ih =>
    simp only [List.map_cons, List.sum_cons]
    rw [ih, getD_vlin a b x y h]
    by_cases hc : cv.1 = i
    · simp only [hc, if_true]; ring
    · simp only [hc, if_false]; ring

@[simp] theorem gsRow_size (A : CRS K) (f x : Vec K) (i : Nat) : (gsRow A f x i).size = x.size := by
  simp [gsRow]

theorem gsRow_getD_ne (A : CRS K) (f x : Vec K) (i j : Nat) (h : j ≠ i) :
    (gsRow A f x i).getD j 0 = x.getD j 0 := by
  unfold gsRow
  simp only
  rw [getD_setIfInBounds_ne _ _ _ _ _ (Ne.symm h)]

theorem gsRow_getD_self (A : CRS K) (f x : Vec K) (i : Nat) (hi : i < x.size) :
    (gsRow A f x i).getD i 0
      = (1 / lastDiag 1 (A.row i) i) * (f.getD i 0 - offDot (A.row i) i x) := by
  unfold gsRow
  simp only
  rw [getD_setIfInBounds_self _ _ _ _ hi, gsRowAcc_eq]

/-- after the update of row `i` the `i`-th equation holds for the current vector -/
theorem gsRow_equation (A : CRS K) (f x : Vec K) (i : Nat) (hi : i < x.size)
    (hd : (A.row i).countP (fun cv => cv.1 == i) = 1) (hnz : A.get i i ≠ 0) :
    rowDot (A.row i) (gsRow A f x i) = f.getD i 0 := by
  rw [rowDot_split _ i, gsRow_getD_self _ _ _ _ hi, lastDiag_of_once _ _ _ hd,
    offDot_congr _ i _ x (fun j hj => gsRow_getD_ne A f x i j hj)]
  have : rowGet (A.row i) i ≠ 0 := hnz
  field_simp
  ring

/-- a vector that satisfies equation `i` is not changed by the update of row `i` -/
theorem gsRow_fixed (A : CRS K) (f x : Vec K) (i : Nat)
    (hd : (A.row i).countP (fun cv => cv.1 == i) = 1) (hnz : A.get i i ≠ 0)
    (h : rowDot (A.row i) x = f.getD i 0) : gsRow A f x i = x := by
  apply ext_getD' (0 : K) (by simp)
  intro j
  by_cases hj : j = i
  · subst hj
    by_cases hi : j < x.size
    · rw [gsRow_getD_self _ _ _ _ hi, lastDiag_of_once _ _ _ hd, ← h, rowDot_split _ j]
      have : rowGet (A.row j) j ≠ 0 := hnz
      field_simp
      ring
    · rw [getD_of_size_le _ _ _ (by simp; omega), getD_of_size_le _ _ _ (by omega)]
  · exact gsRow_getD_ne A f x i j hj

theorem gsRow_vlin (A : CRS K) (a b : K) (f g x y : Vec K) (hfg : f.size = g.size) (hxy : x.size = y.size)
    (i : Nat) :
    gsRow A (vlin a f b g) (vlin a x b y) i = vlin a (gsRow A f x i) b (gsRow A g y i) := by
  apply ext_getD' (0 : K) (by simp)
  intro j
  rw [getD_vlin _ _ _ _ (by simp [hxy])]
  by_cases hj : j = i
  · subst hj
    by_cases hi : j < x.size
    · rw [gsRow_getD_self _ _ _ _ (by simpa using hi), gsRow_getD_self _ _ _ _ hi,
        gsRow_getD_self _ _ _ _ (by omega), offDot_vlin _ _ _ _ _ _ hxy, getD_vlin _ _ _ _ hfg]
      ring
    · rw [getD_of_size_le _ _ _ (by simp; omega), getD_of_size_le _ _ _ (by simp; omega),
        getD_of_size_le _ _ _ (by simp; omega)]
      ring
  · rw [gsRow_getD_ne _ _ _ _ _ hj, gsRow_getD_ne _ _ _ _ _ hj, gsRow_getD_ne _ _ _ _ _ hj,
      getD_vlin _ _ _ _ hxy]

end ring

section folds
variable {α : Type}

/-- a fold of point updates leaves untouched every position that is not in the list -/
theorem fold_point_untouched (g : Array α → Nat → Array α) (d : α)
    (hg : ∀ x i j, j ≠ i → (g x i).getD j d = x.getD j d) (l : List Nat) (x : Array α) (j : Nat) (hj : j ∉ l) :
    (l.foldl g x).getD j d = x.getD j d := by
  induction l generalizing x with
  | nil => rfl
  | cons i t ih =>
    simp only [List.mem_cons, not_or] at hj
    rw [List.foldl_cons, ih _ hj.2, hg _ _ _ hj.1]

/-- the vector right after the update of position `i`, in terms of the final and the initial vector -/
theorem fold_point_mid (g : Array α → Nat → Array α) (d : α)
    (hg : ∀ x i j, j ≠ i → (g x i).getD j d = x.getD j d) (l1 l2 : List Nat) (i : Nat)
    (hnd : (l1 ++ i :: l2).Nodup) (x : Array α) (j : Nat) :
    (g (l1.foldl g x) i).getD j d
      = if j ∈ l1 ∨ j = i then ((l1 ++ i :: l2).foldl g x).getD j d else x.getD j d := by
  rw [List.nodup_append] at hnd
  obtain ⟨_, h2, h3⟩ := hnd
  rw [List.nodup_cons] at h2
  rw [List.foldl_append, List.foldl_cons]
  by_cases hj : j ∈ l1 ∨ j = i
  · rw [if_pos hj]
    have : j ∉ l2 := by
      rcases hj with hj | hj
      · intro h; exact h3 j hj j (List.mem_cons_of_mem _ h) rfl
      · rw [hj]; exact h2.1
    rw [fold_point_untouched g d hg l2 _ j this]
  · rw [if_neg hj]
    simp only [not_or] at hj
    rw [hg _ _ _ hj.2, fold_point_untouched g d hg l1 _ j hj.1]

theorem fold_size (g : Array α → Nat → Array α) (hs : ∀ x i, (g x i).size = x.size) (l : List Nat)
    (x : Array α) : (l.foldl g x).size = x.size := by
  induction l generalizing x with
  | nil => rfl
  | cons i t ih => rw [List.foldl_cons, ih, hs]

end folds

section sweep
variable {K : Type} [Field K]

@[simp] theorem gsSweep_size (A : CRS K) (f x : Vec K) (fw : Bool) : (gsSweep A f x fw).size = x.size := by
  unfold gsSweep
  exact fold_size _ (fun x i => gsRow_size A f x i) _ _

theorem gsFold_vlin (A : CRS K) (a b : K) (f g : Vec K) (hfg : f.size = g.size) (l : List Nat)
    (x y : Vec K) (hxy : x.size = y.size) :
    l.foldl (fun x i => gsRow A (vlin a f b g) x i) (vlin a x b y)
      = vlin a (l.foldl (fun x i => gsRow A f x i) x) b (l.foldl (fun x i => gsRow A g x i) y) := by
  induction l generalizing x y with
  | nil => rfl
  | cons i t ih =>
    simp only [List.foldl_cons]
    rw [gsRow_vlin A a b f g x y hfg hxy i, ih _ _ (by simp [hxy])]

theorem gsSweep_vlin (A : CRS K) (a b : K) (f g x y : Vec K) (hfg : f.size = g.size) (hxy : x.size = y.size)
    (fw : Bool) :
    gsSweep A (vlin a f b g) (vlin a x b y) fw = vlin a (gsSweep A f x fw) b (gsSweep A g y fw) := by
  unfold gsSweep
  exact gsFold_vlin A a b f g hfg _ x y hxy

theorem gsFold_fixed (A : CRS K) (f x : Vec K) (l : List Nat)
    (h : ∀ i ∈ l, (A.row i).countP (fun cv => cv.1 == i) = 1 ∧ A.get i i ≠ 0 ∧ rowDot (A.row i) x = f.getD i 0) :
    l.foldl (fun x i => gsRow A f x i) x = x := by
  induction l with
  | nil => rfl
  | cons i t ih =>
    rw [List.foldl_cons]
    obtain ⟨h1, h2, h3⟩ := h i List.mem_cons_self
    rw [gsRow_fixed A f x i h1 h2 h3]
    exact ih (fun j hj => h j (List.mem_cons_of_mem _ hj))

/-- the row equation that holds right after row `i` has been updated, for a sweep over any duplicate-free list of
rows in which `i` occurs: fresh values on the rows swept so far, old values elsewhere -/
theorem gsFold_equation (A : CRS K) (hA : A.WF) (f x : Vec K) (l1 l2 : List Nat) (i : Nat)
    (hnd : (l1 ++ i :: l2).Nodup) (hi : i < A.nrows) (hx : x.size = A.nrows)
    (hd : (A.row i).countP (fun cv => cv.1 == i) = 1) (hnz : A.get i i ≠ 0) :
    ∑ j ∈ range A.ncols, A.get i j *
        (if j ∈ l1 ∨ j = i then ((l1 ++ i :: l2).foldl (fun x i => gsRow A f x i) x).getD j 0 else x.getD j 0)
      = f.getD i 0 := by
  have hrow : ∀ cv ∈ A.row i, cv.1 < A.ncols := by
    intro cv hcv
    apply hA (A.row i) _ cv hcv
    unfold CRS.row CRS.nrows at *
    simp [Array.getD, hi]
  have hsz : (l1.foldl (fun x i => gsRow A f x i) x).size = x.size :=
    fold_size _ (fun x i => gsRow_size A f x i) _ _
  have heq := gsRow_equation A f (l1.foldl (fun x i => gsRow A f x i) x) i (by omega) hd hnz
  rw [rowDot_eq_sum _ _ A.ncols hrow] at heq
  rw [← heq]
  apply sum_congr rfl
  intro j _
  rw [fold_point_mid (fun x i => gsRow A f x i) (0 : K) (fun x i j hj => gsRow_getD_ne A f x i j hj)
    l1 l2 i hnd x j]
  rfl

end sweep

end Relax
end Amgcl

namespace Amgcl
namespace Relax

/-- `0..n-1` split at `i` -/
theorem range_split (n i : Nat) (hi : i < n) :
    ∃ l2, List.range n = List.range i ++ i :: l2 ∧ ∀ j, j ∈ l2 ↔ (i < j ∧ j < n) := by
  refine ⟨List.range' (i + 1) (n - i - 1), ?_, ?_⟩
  · have h1 : n = i + ((n - i - 1) + 1) := by omega
    conv_lhs => rw [h1, List.range_eq_range', ← List.range'_append_1, List.range'_succ]
    simp [List.range_eq_range']
  · intro j; rw [List.mem_range'_1]; omega

end Relax
end Amgcl
