import Amgcl.Model.IOMM
/-!
Lexing lemmas for the MatrixMarket round trip: what `getline`, `>> string`, `>> integer` return on text produced
by `mm_write` (helper file for C19).
-/
namespace Amgcl.IO

theorem splitLines_append (l rest : Bytes) (h : ∀ c ∈ l, c ≠ 10) :
    splitLines (l ++ 10 :: rest) = l :: splitLines rest := by
  induction l with
  | nil => simp [splitLines]
  | cons a t ih =>
    have ha : a ≠ 10 := h a (by simp)
    have iht := ih (fun c hc => h c (by simp [hc]))
    simp only [List.cons_append, splitLines, if_neg ha, iht]

/-- a final line without newline -/
theorem splitLines_last (l : Bytes) (h : ∀ c ∈ l, c ≠ 10) (hne : l ≠ []) : splitLines l = [l] := by
  induction l with
  | nil => exact absurd rfl hne
  | cons a t ih =>
    have ha : a ≠ 10 := h a (by simp)
    cases t with
    | nil => simp [splitLines, ha]
    | cons b t' =>
      have := ih (fun c hc => h c (by simp [hc])) (by simp)
      simp only [splitLines, if_neg ha] at this ⊢
      rw [this]

theorem decVal_append_singleton (ds : Bytes) (d : Byte) : decVal (ds ++ [d]) = 10 * decVal ds + (d - 48) := by
  simp [decVal, List.foldl_append]

def allDigits (ds : Bytes) : Prop := ∀ c ∈ ds, isDigit c = true

theorem isDigit_iff (c : Byte) : isDigit c = true ↔ 48 ≤ c ∧ c ≤ 57 := by
  unfold isDigit
  rw [Bool.and_eq_true, decide_eq_true_eq, decide_eq_true_eq]

theorem isSpace_iff (c : Byte) : isSpace c = true ↔ c = 32 ∨ (9 ≤ c ∧ c ≤ 13) := by
  unfold isSpace
  rw [Bool.or_eq_true, Bool.and_eq_true, decide_eq_true_eq, decide_eq_true_eq, beq_iff_eq]

theorem isDigit_digit (k : Nat) (h : k < 10) : isDigit (48 + k) = true := by
  rw [isDigit_iff]; omega

theorem natDecAux_spec (f n : Nat) (acc : Bytes) (h : n < f) :
    ∃ ds, natDecAux f n acc = ds ++ acc ∧ ds ≠ [] ∧ allDigits ds ∧ decVal ds = n := by
  induction f generalizing n acc with
  | zero => omega
  | succ f ih =>
    unfold natDecAux
    by_cases hn : n < 10
    · rw [if_pos hn]
      refine ⟨[48 + n], rfl, by simp, ?_, ?_⟩
      · intro c hc; simp at hc; subst hc; exact isDigit_digit n hn
      · simp [decVal]
    · rw [if_neg hn]
      obtain ⟨ds, h1, h2, h3, h4⟩ := ih (n / 10) ((48 + n % 10) :: acc) (by omega)
      refine ⟨ds ++ [48 + n % 10], by rw [h1]; simp, by simp, ?_, ?_⟩
      · intro c hc
        rcases List.mem_append.mp hc with hc | hc
        · exact h3 c hc
        · simp at hc; subst hc; exact isDigit_digit _ (Nat.mod_lt _ (by omega))
      · rw [decVal_append_singleton, h4]; omega

theorem natDec_spec (n : Nat) : natDec n ≠ [] ∧ allDigits (natDec n) ∧ decVal (natDec n) = n := by
  obtain ⟨ds, h1, h2, h3, h4⟩ := natDecAux_spec (n + 1) n [] (by omega)
  unfold natDec
  rw [h1, List.append_nil]
  exact ⟨h2, h3, h4⟩

theorem isDigit_not_space (c : Byte) (h : isDigit c = true) : isSpace c = false := by
  rw [isDigit_iff] at h
  cases hs : isSpace c with
  | false => rfl
  | true => rw [isSpace_iff] at hs; omega

theorem isDigit_ne_nl (c : Byte) (h : isDigit c = true) : c ≠ 10 := by
  rw [isDigit_iff] at h; omega

/-- what follows a number in the written text: end of line or a blank -/
def Delim (rest : Bytes) : Prop := rest = [] ∨ ∃ t, rest = 32 :: t

theorem takeWhile_digits (ds rest : Bytes) (hd : allDigits ds) (hr : Delim rest) :
    (ds ++ rest).takeWhile isDigit = ds ∧ (ds ++ rest).dropWhile isDigit = rest := by
  induction ds with
  | nil =>
    rcases hr with rfl | ⟨t, rfl⟩
    · simp
    · simp [List.takeWhile, List.dropWhile, isDigit]
  | cons a t ih =>
    have ha := hd a (by simp)
    have := ih (fun c hc => hd c (by simp [hc]))
    simp [List.takeWhile, List.dropWhile, ha, this]

theorem skipWs_digits (ds rest : Bytes) (hd : allDigits ds) (hne : ds ≠ []) : skipWs (ds ++ rest) = ds ++ rest := by
  cases ds with
  | nil => exact absurd rfl hne
  | cons a t =>
    have := isDigit_not_space a (hd a (by simp))
    simp [skipWs, List.dropWhile, this]

theorem splitSign_digits (ds rest : Bytes) (hd : allDigits ds) (hne : ds ≠ []) :
    splitSign (ds ++ rest) = (false, ds ++ rest) := by
  cases ds with
  | nil => exact absurd rfl hne
  | cons a t =>
    have ha := hd a (by simp)
    rw [isDigit_iff] at ha
    have h1 : a ≠ 45 := by omega
    have h2 : a ≠ 43 := by omega
    unfold splitSign
    simp only [List.cons_append]
    split
    · rename_i heq; injection heq with h _; exact absurd h h1
    · rename_i heq; injection heq with h _; exact absurd h h2
    · rfl

/-- `>> integer` on a decimal number written by `ostream <<`, possibly after one blank -/
theorem extractInt_natDec (signed : Bool) (bits n : Nat) (rest : Bytes) (hr : Delim rest)
    (hn : if signed then n < 2 ^ (bits - 1) else n < 2 ^ bits) :
    extractInt signed bits (natDec n ++ rest) = some ((n : Int), rest) := by
  obtain ⟨hne, hd, hv⟩ := natDec_spec n
  unfold extractInt
  simp only []
  rw [skipWs_digits _ _ hd hne, splitSign_digits _ _ hd hne]
  simp only []
  obtain ⟨h1, h2⟩ := takeWhile_digits _ _ hd hr
  rw [h1, h2, hv]
  have : (natDec n).isEmpty = false := by
    cases h : natDec n with
    | nil => exact absurd h hne
    | cons a t => rfl
  rw [this]
  simp only [Bool.false_eq_true, if_false]
  unfold intOfDigits
  cases signed with
  | true => simp only [if_true] at hn ⊢; simp [hn]
  | false => simp at hn ⊢; simp [hn]

theorem extractInt_sp_natDec (signed : Bool) (bits n : Nat) (rest : Bytes) (hr : Delim rest)
    (hn : if signed then n < 2 ^ (bits - 1) else n < 2 ^ bits) :
    extractInt signed bits (32 :: (natDec n ++ rest)) = some ((n : Int), rest) := by
  have := extractInt_natDec signed bits n rest hr hn
  unfold extractInt at this ⊢
  have hs : skipWs (32 :: (natDec n ++ rest)) = skipWs (natDec n ++ rest) := by
    simp [skipWs, List.dropWhile, isSpace]
  rw [hs]; exact this

end Amgcl.IO
