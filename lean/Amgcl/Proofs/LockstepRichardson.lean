import Amgcl.Model.LockstepRichardson
import Amgcl.Proofs.LockstepCommon
/-!
The serial semantics of the Richardson program of `Model/LockstepRichardson.lean` is the statement-by-statement
model `Solver.Richardson.run` (the one the C01/C05 theorems are about).
-/
namespace Amgcl.Lockstep.Richardson
open Amgcl Amgcl.Solver Amgcl.Lockstep

variable {K : Type} [Field K] [DecidableEq K] [LT K] [DecidableLT K]

/-- the model state a machine state stands for -/
def dec (s : St K (S K)) : Solver.Richardson.St K := ⟨s.scal.iter, s.scal.res, s.vec vX, ⟨s.vec vR, s.vec vS⟩⟩

structure Corr (f : Vec K) (nrhs epsT : K) (st : Solver.Richardson.St K) (s : St K (S K)) : Prop where
  vf : s.vec vF = f
  st : dec s = st
  eps : s.scal.epsT = epsT
  nrhs : s.scal.nrhs = nrhs

theorem body_corr (damping : K) (ip : Vec K → Vec K → K) (sqrt : K → K) (A : CRS K) (P : Vec K → Vec K)
    (f : Vec K) (nrhs epsT : K) (st : Solver.Richardson.St K) (s : St K (S K)) (h : Corr f nrhs epsT st s) :
    Corr f nrhs epsT (Solver.Richardson.body damping ip sqrt A P f st) (run A P ip (bodyProg damping sqrt) s) := by
  obtain ⟨vf, hst, he, hn⟩ := h
  subst hst
  constructor <;>
    simp [bodyProg, seqs, run, step, R, upd_apply, dec, Solver.Richardson.body, nrm, vF, vX, vR, vS] <;>
    simp_all [vF, vX, vR, vS]

theorem main_corr (prm : Solver.Richardson.Params K) (ip : Vec K → Vec K → K) (sqrt : K → K) (A : CRS K)
    (P : Vec K → Vec K) (ws : Solver.Richardson.Work K) (f x0 : Vec K) (s : St K (S K)) (nrhs : K)
    (hvec : s.vec = (initState ws f x0).vec) (hnr : s.scal.nrhs = nrhs) :
    dec (run A P ip (mainProg prm sqrt) s)
      = Solver.Richardson.loop prm.damping ip sqrt A P f (Solver.maxK (prm.tol * nrhs) prm.abstol) prm.maxiter
          (Solver.Richardson.init ip sqrt A ws f x0) ∧
    (run A P ip (mainProg prm sqrt) s).scal.out
      = (Solver.Richardson.loop prm.damping ip sqrt A P f (Solver.maxK (prm.tol * nrhs) prm.abstol) prm.maxiter
          (Solver.Richardson.init ip sqrt A ws f x0)).res / nrhs := by
  have h0 : Corr f nrhs (Solver.maxK (prm.tol * nrhs) prm.abstol) (Solver.Richardson.init ip sqrt A ws f x0)
      (run A P ip (seqs [
        .prim (.sset (fun e => { e with epsT := Solver.maxK (prm.tol * e.nrhs) prm.abstol })),
        .prim (.residual (R vF) (R vX) (R vR)),
        .prim (.ip (fun e v => { e with res := sqrt (Solver.absK v) }) (R vR) (R vR)),
        .prim (.sset (fun e => { e with iter := 0 }))]) s) := by
    constructor <;>
      simp [seqs, run, step, R, upd_apply, dec, Solver.Richardson.init, nrm, initState, hvec, hnr, vF, vX, vR, vS]
  have hl := iter_rel (Corr f nrhs (Solver.maxK (prm.tol * nrhs) prm.abstol))
    (Solver.Richardson.cond (Solver.maxK (prm.tol * nrhs) prm.abstol))
    (fun m : St K (S K) => decide (m.scal.epsT < Solver.absK m.scal.res))
    (Solver.Richardson.body prm.damping ip sqrt A P f) (run A P ip (bodyProg prm.damping sqrt))
    (fun a b hr => by
      unfold Solver.Richardson.cond
      rw [hr.eps, ← hr.st]; rfl)
    (fun a b hr _ => body_corr prm.damping ip sqrt A P f _ _ a b hr) prm.maxiter _ _ h0
  have hrun : run A P ip (mainProg prm sqrt) s = step A P ip (.sset (fun e => { e with out := e.res / e.nrhs }))
      (iter (fun m : St K (S K) => decide (m.scal.epsT < Solver.absK m.scal.res))
        (run A P ip (bodyProg prm.damping sqrt))
        prm.maxiter (run A P ip (seqs [
        .prim (.sset (fun e => { e with epsT := Solver.maxK (prm.tol * e.nrhs) prm.abstol })),
        .prim (.residual (R vF) (R vX) (R vR)),
        .prim (.ip (fun e v => { e with res := sqrt (Solver.absK v) }) (R vR) (R vR)),
        .prim (.sset (fun e => { e with iter := 0 }))]) s)) := by
    simp [mainProg, seqs, run]
  rw [hrun]
  obtain ⟨_, hst, _, hn⟩ := hl
  unfold Solver.Richardson.loop
  rw [← hst]
  exact ⟨by simp [step, dec], by simp [step, dec, hn]⟩

/-- **the serial semantics of the Richardson program is `Solver.Richardson.run`**: the same `(iters, residual)`, the
same `x`, the same work vectors -/
theorem prog_eq_run (prm : Solver.Richardson.Params K) (ip : Vec K → Vec K → K) (sqrt : K → K) (eps : K) (A : CRS K)
    (P : Vec K → Vec K) (ws : Solver.Richardson.Work K) (f x0 : Vec K) :
    Solver.Richardson.run prm ip sqrt eps A P ws f x0
      = (.ok (outOf (run A P ip (prog prm sqrt eps) (initState ws f x0)).scal),
         (run A P ip (prog prm sqrt eps) (initState ws f x0)).vec vX,
         ⟨(run A P ip (prog prm sqrt eps) (initState ws f x0)).vec vR,
          (run A P ip (prog prm sqrt eps) (initState ws f x0)).vec vS⟩) := by
  have hs1 : step A P ip (.ip (fun e v => { e with nrhs := sqrt (Solver.absK v) }) (R vF) (R vF)) (initState ws f x0)
      = { vec := (initState ws f x0).vec, scal := { (initState ws f x0).scal with nrhs := nrm ip sqrt f } } := by
    simp [step, R, nrm, initState, vF]
  unfold Solver.Richardson.run prologue
  simp only [prog, run, hs1]
  by_cases hlt : nrm ip sqrt f < eps
  · simp only [hlt, decide_true, if_true]
    cases hns : prm.nsSearch
    · simp [seqs, run, step, R, upd_apply, outOf, initState, vF, vX, vR, vS]
    · simp only [if_true, run]
      obtain ⟨h1, h2⟩ := main_corr prm ip sqrt A P ws f x0
        (step A P ip (.sset (fun e => { e with nrhs := 1 }))
          { vec := (initState ws f x0).vec, scal := { (initState ws f x0).scal with nrhs := nrm ip sqrt f } }) 1
        rfl rfl
      rw [← h1]
      simp only [outOf, h2, ← h1]
      rfl
  · simp only [hlt, decide_false, Bool.false_eq_true, if_false]
    obtain ⟨h1, h2⟩ := main_corr prm ip sqrt A P ws f x0
        { vec := (initState ws f x0).vec, scal := { (initState ws f x0).scal with nrhs := nrm ip sqrt f } }
        (nrm ip sqrt f) rfl rfl
    rw [← h1]
    simp only [outOf, h2, ← h1]
    rfl

end Amgcl.Lockstep.Richardson
