import Mathlib.Data.Matrix.Mul
import Mathlib.LinearAlgebra.Matrix.Block
import Mathlib.LinearAlgebra.Matrix.ToLinearEquiv
import Mathlib.LinearAlgebra.Matrix.NonsingularInverse
import Mathlib.Algebra.Order.BigOperators.Ring.Finset
import Mathlib.Tactic.Ring
import Mathlib.Tactic.Linarith
/-!
Linear algebra behind `QR::solve` (no model involved): with `A = Q_full·R_full`, `Q_full` orthogonal, `R_full` upper
trapezoidal with vanishing rows `≥ n`:

* `qr_normal_eq` — `R·x = (Q_fullᵀ·b)[0:n]` implies the normal equations `Aᵀ·(A·x - b) = 0`;
* `normal_eq_minimal` — the normal equations imply that the residual is minimal (`normal_eq_unique`: uniquely so for
  linearly independent columns);
* `qr_diag_ne_zero` — linearly independent columns of `A` imply that no diagonal entry of `R` vanishes;
* `qr_square_solve` — for a square system `R·x = Q_fullᵀ·b` implies `A·x = b`;
* `min_norm_of_range` — `A·x = b` and `x ∈ range Aᵀ` imply that `x` has minimal norm among the solutions.
-/
namespace Amgcl
namespace QRModel
open Finset Matrix

variable {K : Type} [Field K] [LinearOrder K] [IsStrictOrderedRing K] {m n : Nat}

theorem dot_self_nonneg {ι : Type} [Fintype ι] (v : ι → K) : 0 ≤ v ⬝ᵥ v :=
  Finset.sum_nonneg (fun i _ => mul_self_nonneg (v i))

/-- the normal equations imply that the residual is minimal -/
theorem normal_eq_minimal (A : Matrix (Fin m) (Fin n) K) (b : Fin m → K) (x : Fin n → K)
    (h : Aᵀ *ᵥ (A *ᵥ x - b) = 0) (y : Fin n → K) :
    (A *ᵥ x - b) ⬝ᵥ (A *ᵥ x - b) ≤ (A *ᵥ y - b) ⬝ᵥ (A *ᵥ y - b) := by
  have e : A *ᵥ y - b = (A *ᵥ x - b) + A *ᵥ (y - x) := by
    rw [Matrix.mulVec_sub]; abel
  have hz : (A *ᵥ x - b) ⬝ᵥ (A *ᵥ (y - x)) = 0 := by
    rw [← dotProduct_transpose_mulVec, h, dotProduct_zero]
  rw [e, add_dotProduct, dotProduct_add, dotProduct_add, hz, dotProduct_comm (A *ᵥ (y - x)) (A *ᵥ x - b), hz]
  have := dot_self_nonneg (A *ᵥ (y - x))
  linarith

/-- … and, for linearly independent columns, the minimiser is unique -/
theorem normal_eq_unique (A : Matrix (Fin m) (Fin n) K) (b : Fin m → K) (x : Fin n → K)
    (h : Aᵀ *ᵥ (A *ᵥ x - b) = 0) (hinj : ∀ y : Fin n → K, A *ᵥ y = 0 → y = 0) (y : Fin n → K)
    (hy : (A *ᵥ y - b) ⬝ᵥ (A *ᵥ y - b) ≤ (A *ᵥ x - b) ⬝ᵥ (A *ᵥ x - b)) : y = x := by
  have e : A *ᵥ y - b = (A *ᵥ x - b) + A *ᵥ (y - x) := by
    rw [Matrix.mulVec_sub]; abel
  have hz : (A *ᵥ x - b) ⬝ᵥ (A *ᵥ (y - x)) = 0 := by
    rw [← dotProduct_transpose_mulVec, h, dotProduct_zero]
  rw [e, add_dotProduct, dotProduct_add, dotProduct_add, hz, dotProduct_comm (A *ᵥ (y - x)) (A *ᵥ x - b), hz] at hy
  have h0 : (A *ᵥ (y - x)) ⬝ᵥ (A *ᵥ (y - x)) = 0 := le_antisymm (by linarith) (dot_self_nonneg _)
  have hv : A *ᵥ (y - x) = 0 := by
    funext i
    have := (Finset.sum_eq_zero_iff_of_nonneg (fun j _ => mul_self_nonneg ((A *ᵥ (y - x)) j))).mp h0 i (Finset.mem_univ i)
    exact mul_self_eq_zero.mp this
  exact sub_eq_zero.mp (hinj _ hv)

omit [LinearOrder K] [IsStrictOrderedRing K] in
/-- `R·x = (Q_fullᵀ·b)[0:n]` implies the normal equations -/
theorem qr_normal_eq (Qf : Matrix (Fin m) (Fin m) K) (Rf A : Matrix (Fin m) (Fin n) K) (hQ : Qfᵀ * Qf = 1)
    (hA : A = Qf * Rf) (hR0 : ∀ l c, n ≤ l.val → Rf l c = 0) (b : Fin m → K) (x : Fin n → K)
    (hx : ∀ l : Fin m, l.val < n → (Rf *ᵥ x) l = (Qfᵀ *ᵥ b) l) : Aᵀ *ᵥ (A *ᵥ x - b) = 0 := by
  have e : Aᵀ *ᵥ (A *ᵥ x - b) = Rfᵀ *ᵥ (Rf *ᵥ x - Qfᵀ *ᵥ b) := by
    rw [hA, Matrix.transpose_mul, ← Matrix.mulVec_mulVec, Matrix.mulVec_sub, Matrix.mulVec_mulVec x,
      ← Matrix.mul_assoc, hQ, Matrix.one_mul]
  rw [e]
  funext c
  show ∑ l, Rfᵀ c l * (Rf *ᵥ x - Qfᵀ *ᵥ b) l = 0
  apply Finset.sum_eq_zero
  intro l _
  by_cases hl : l.val < n
  · rw [Pi.sub_apply, hx l hl, sub_self, mul_zero]
  · rw [Matrix.transpose_apply, hR0 l c (by omega), zero_mul]

omit [LinearOrder K] [IsStrictOrderedRing K] in
/-- linearly independent columns: no diagonal entry of `R` vanishes -/
theorem qr_diag_ne_zero (hmn : n ≤ m) (Qf : Matrix (Fin m) (Fin m) K) (Rf A : Matrix (Fin m) (Fin n) K)
    (hA : A = Qf * Rf) (hR0 : ∀ l c, n ≤ l.val → Rf l c = 0) (hup : ∀ l c, c.val < l.val → Rf l c = 0)
    (hinj : ∀ y : Fin n → K, A *ᵥ y = 0 → y = 0) (i : Fin n) : Rf ⟨i.val, by have := i.isLt; omega⟩ i ≠ 0 := by
  intro hzero
  let Rt : Matrix (Fin n) (Fin n) K := fun l c => Rf ⟨l.val, by have := l.isLt; omega⟩ c
  have htri : Rt.BlockTriangular id := by
    intro l c hlc
    exact hup _ _ hlc
  have hdet : Rt.det = 0 := by
    rw [Matrix.det_of_isUpperTriangular htri]
    exact Finset.prod_eq_zero (Finset.mem_univ i) hzero
  obtain ⟨v, hv, hRv⟩ := Matrix.exists_mulVec_eq_zero_iff.mpr hdet
  apply hv
  apply hinj
  rw [hA, ← Matrix.mulVec_mulVec]
  have : Rf *ᵥ v = 0 := by
    funext l
    by_cases hl : l.val < n
    · have := congrFun hRv ⟨l.val, hl⟩
      exact this
    · show ∑ c, Rf l c * v c = 0
      exact Finset.sum_eq_zero (fun c _ => by rw [hR0 l c (by omega), zero_mul])
  rw [this, Matrix.mulVec_zero]

omit [LinearOrder K] [IsStrictOrderedRing K] in
/-- square system: `R·x = Q_fullᵀ·b` implies `A·x = b` -/
theorem qr_square_solve (Qf : Matrix (Fin m) (Fin m) K) (Rf A : Matrix (Fin m) (Fin n) K) (hQ : Qfᵀ * Qf = 1)
    (hA : A = Qf * Rf) (b : Fin m → K) (x : Fin n → K) (hx : Rf *ᵥ x = Qfᵀ *ᵥ b) : A *ᵥ x = b := by
  have hQ' : Qf * Qfᵀ = 1 := mul_eq_one_comm.mp hQ
  rw [hA, ← Matrix.mulVec_mulVec, hx, Matrix.mulVec_mulVec, hQ', Matrix.one_mulVec]

/-- a solution in the range of `Aᵀ` has minimal norm among all solutions -/
theorem min_norm_of_range (A : Matrix (Fin m) (Fin n) K) (b : Fin m → K) (x : Fin n → K) (w : Fin m → K)
    (hx : A *ᵥ x = b) (hw : x = Aᵀ *ᵥ w) (y : Fin n → K) (hy : A *ᵥ y = b) : x ⬝ᵥ x ≤ y ⬝ᵥ y := by
  have e : y = x + (y - x) := by abel
  have hz : x ⬝ᵥ (y - x) = 0 := by
    rw [hw, dotProduct_comm, dotProduct_transpose_mulVec, Matrix.mulVec_sub, hy, ← hw, hx, sub_self, dotProduct_zero]
  have h2 : y ⬝ᵥ y = x ⬝ᵥ x + (y - x) ⬝ᵥ (y - x) := by
    conv_lhs => rw [e]
    rw [add_dotProduct, dotProduct_add, dotProduct_add, hz, dotProduct_comm (y - x) x, hz]
    ring
  have := dot_self_nonneg (y - x)
  linarith

omit [LinearOrder K] [IsStrictOrderedRing K] in
/-- the wide branch: `Aᵀ = Q_full·R_full`, `R_topᵀ·g = b`, `x = Q_full·(g, 0)`: then `A·x = b` and `x ∈ range Aᵀ` -/
theorem qr_wide_solve (hnm : n ≤ m) (Qf : Matrix (Fin m) (Fin m) K) (Rf At : Matrix (Fin m) (Fin n) K) (hQ : Qfᵀ * Qf = 1)
    (hAt : At = Qf * Rf) (hR0 : ∀ l c, n ≤ l.val → Rf l c = 0) (hup : ∀ l c, c.val < l.val → Rf l c = 0)
    (hd : ∀ i : Fin n, Rf ⟨i.val, by have := i.isLt; omega⟩ i ≠ 0)
    (b : Fin n → K) (x0 : Fin m → K) (hx0 : ∀ l : Fin m, n ≤ l.val → x0 l = 0) (hfs : Rfᵀ *ᵥ x0 = b) :
    Atᵀ *ᵥ (Qf *ᵥ x0) = b ∧ ∃ w : Fin n → K, Qf *ᵥ x0 = At *ᵥ w := by
  refine ⟨?_, ?_⟩
  · rw [hAt, Matrix.transpose_mul, Matrix.mulVec_mulVec, Matrix.mul_assoc, hQ, Matrix.mul_one, hfs]
  · let Rt : Matrix (Fin n) (Fin n) K := fun l c => Rf ⟨l.val, by have := l.isLt; omega⟩ c
    have htri : Rt.BlockTriangular id := by
      intro l c hlc
      exact hup _ _ hlc
    have hdet : Rt.det ≠ 0 := by
      rw [Matrix.det_of_isUpperTriangular htri]
      exact Finset.prod_ne_zero_iff.mpr (fun i _ => hd i)
    let g : Fin n → K := fun l => x0 ⟨l.val, by have := l.isLt; omega⟩
    refine ⟨Rt⁻¹ *ᵥ g, ?_⟩
    rw [hAt, ← Matrix.mulVec_mulVec]
    congr 1
    funext l
    by_cases hl : l.val < n
    · have e : (Rf *ᵥ (Rt⁻¹ *ᵥ g)) l = (Rt *ᵥ (Rt⁻¹ *ᵥ g)) ⟨l.val, hl⟩ := rfl
      rw [e, Matrix.mulVec_mulVec, Matrix.mul_nonsing_inv Rt (Ne.isUnit hdet), Matrix.one_mulVec]
    · rw [hx0 l (by omega)]
      show 0 = ∑ c, Rf l c * (Rt⁻¹ *ᵥ g) c
      exact (Finset.sum_eq_zero (fun c _ => by rw [hR0 l c (by omega), zero_mul])).symm

end QRModel
end Amgcl
