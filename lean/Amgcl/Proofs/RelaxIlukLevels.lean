import Amgcl.Proofs.RelaxIlukLoop
/-!
# ILU(k) as written: the slots of the run are the a-priori level-of-fill pattern

`Relax.fillLevels` (`Model/RelaxCheck.lean`) recomputes the levels of fill symbolically (dense, amgcl's rule
`lev = max(lev_ik, lev_kj) + 1`, admitted iff `≤ k`); `patLevel` is its pattern and the admitted pattern of the checker
`luOnPatternb`.  Here: the level projection `wlev` of the working row of the model of `iluk.hpp` follows exactly the
row of `fillLevels` — `add` by `levAdd`, a pivot step by `levPivot`, a row by `levRow` — because every slot level
stays `≤ lfil` (so the model's unconditional `min` on an existing slot agrees with the guarded one of `fillLevels`).
Hence a slot exists at the end of row `i` at column `j` iff `patLevel A k i j` (`ilukSlotb_eq_patLevel`).
-/
set_option linter.unusedSectionVars false
namespace Amgcl
namespace Relax

/-! ### `fillLevels` in pieces -/
section fill

/-- the innermost update of `fillLevels` -/
def levAdd (kfill : Nat) (row : Array (Option Nat)) (j cand : Nat) : Array (Option Nat) :=
  if cand ≤ kfill then
    match row.getD j none with
    | none => row.setIfInBounds j (some cand)
    | some l => row.setIfInBounds j (some (min l cand))
  else row

def levPivot (n kfill : Nat) (lev : Array (Array (Option Nat))) (row : Array (Option Nat)) (k : Nat) :
    Array (Option Nat) :=
  match row.getD k none with
  | none => row
  | some lik =>
    (List.range n).foldl (fun (row : Array (Option Nat)) j =>
      if k < j then
        match (lev.getD k #[]).getD j none with
        | none => row
        | some lkj => levAdd kfill row j (max lik lkj + 1)
      else row) row

def levRow0 {K : Type} (A : CRS K) (i : Nat) : Array (Option Nat) :=
  Array.ofFn (n := A.nrows) (fun j => if patOf A i j.val then some 0 else none)

def levRow {K : Type} (A : CRS K) (kfill : Nat) (lev : Array (Array (Option Nat))) (i : Nat) : Array (Option Nat) :=
  (List.range i).foldl (levPivot A.nrows kfill lev) (levRow0 A i)

theorem fillLevels_eq {K : Type} (A : CRS K) (kfill : Nat) :
    fillLevels A kfill = (List.range A.nrows).foldl (fun lev i => lev.push (levRow A kfill lev i)) #[] := rfl

/-- `levPivot` reads only row `k` of the table -/
theorem levPivot_congr (n kfill : Nat) (lev lev' : Array (Array (Option Nat))) (row : Array (Option Nat)) (k : Nat)
    (h : lev.getD k #[] = lev'.getD k #[]) : levPivot n kfill lev row k = levPivot n kfill lev' row k := by
  unfold levPivot; rw [h]

end fill

/-! ### the level projection of the working row -/
section proj
variable {K : Type} [Field K]

/-- levels of the slots of a working row -/
def wlev (w : IlukRow K) : Array (Option Nat) := w.map (fun o => o.map (fun e => e.2))

@[simp] theorem wlev_size (w : IlukRow K) : (wlev w).size = w.size := by simp [wlev]

theorem wlev_getD (w : IlukRow K) (j : Nat) : (wlev w).getD j none = (w.getD j none).map (fun e => e.2) := by
  unfold wlev Array.getD
  by_cases h : j < w.size
  · simp [h]
  · simp [h]

theorem wlev_set (w : IlukRow K) (j : Nat) (v : K) (l : Nat) :
    wlev (w.setIfInBounds j (some (v, l))) = (wlev w).setIfInBounds j (some l) := by
  unfold wlev; rw [Array.map_setIfInBounds]; rfl

theorem setIfInBounds_self {α : Type} (x : Array α) (j : Nat) (v d : α) (h : j < x.size → x.getD j d = v) :
    x.setIfInBounds j v = x := by
  apply ext_getD' d (by simp)
  intro i
  rw [getD_setIfInBounds]
  split
  · next hh => rw [← hh.1] at *; exact (h hh.2).symm
  · rfl

/-- `add` on levels is `levAdd`, as long as all slot levels are `≤ lfil` -/
theorem wlev_ilukAdd (lfil : Nat) (w : IlukRow K) (col : Nat) (val : K) (lev : Nat) (hw : LevLe w lfil) :
    wlev (ilukAdd lfil w col val lev) = levAdd lfil (wlev w) col lev := by
  unfold ilukAdd levAdd
  rw [wlev_getD]
  cases h : w.getD col none with
  | none =>
    simp only [Option.map_none]
    by_cases hl : lev ≤ lfil
    · rw [if_pos hl, if_pos hl, wlev_set]
    · rw [if_neg hl, if_neg hl]
  | some e =>
    obtain ⟨v, l⟩ := e
    simp only [Option.map_some]
    rw [wlev_set]
    by_cases hl : lev ≤ lfil
    · rw [if_pos hl]
    · rw [if_neg hl]
      have hle : l ≤ lfil := hw col _ h
      apply setIfInBounds_self _ _ _ none
      intro _
      rw [wlev_getD, h]
      simp only [Option.map_some]
      congr 1
      omega

/-- `add` never produces a level above `lfil` -/
theorem ilukAdd_levLe_fill (lfil : Nat) (w : IlukRow K) (col : Nat) (val : K) (lev : Nat) (hw : LevLe w lfil) :
    LevLe (ilukAdd lfil w col val lev) lfil := by
  intro j e he
  by_cases hj : col = j
  · subst hj
    unfold ilukAdd at he
    cases h : w.getD col none with
    | none =>
      rw [h] at he
      simp only [] at he
      by_cases hl' : lev ≤ lfil
      · rw [if_pos hl', getD_setIfInBounds] at he
        split at he
        · injection he with he; rw [← he]; exact hl'
        · rw [h] at he; cases he
      · rw [if_neg hl', h] at he; cases he
    | some e' =>
      obtain ⟨v, l⟩ := e'
      rw [h] at he
      simp only [] at he
      rw [getD_setIfInBounds] at he
      split at he
      · injection he with he; rw [← he]
        exact Nat.le_trans (Nat.min_le_left _ _) (hw col _ h)
      · rw [h] at he; injection he with he; rw [← he]; exact hw col _ h
  · rw [ilukAdd_getD_ne _ _ _ _ _ _ hj] at he
    exact hw j e he

/-- a sequence of `add`s on levels -/
theorem wlev_foldl_ilukAdd {α : Type} (lfil : Nat) (c : α → Nat) (f : α → K) (g : α → Nat) (es : List α)
    (w : IlukRow K) (hw : LevLe w lfil) :
    wlev (es.foldl (fun w e => ilukAdd lfil w (c e) (f e) (g e)) w)
        = es.foldl (fun row e => levAdd lfil row (c e) (g e)) (wlev w)
    ∧ LevLe (es.foldl (fun w e => ilukAdd lfil w (c e) (f e) (g e)) w) lfil := by
  induction es generalizing w with
  | nil => exact ⟨rfl, hw⟩
  | cons e t ih =>
    rw [List.foldl_cons, List.foldl_cons]
    obtain ⟨h1, h2⟩ := ih _ (ilukAdd_levLe_fill lfil w (c e) (f e) (g e) hw)
    rw [h1, wlev_ilukAdd _ _ _ _ _ hw]
    exact ⟨rfl, h2⟩

theorem foldl_filterMap' {α β γ : Type} (F : α → Option β) (G : γ → β → γ) (H : γ → α → γ)
    (h : ∀ x a, H x a = match F a with | some b => G x b | none => x) (l : List α) (x : γ) :
    (l.filterMap F).foldl G x = l.foldl H x := by
  induction l generalizing x with
  | nil => rfl
  | cons a t ih =>
    rw [List.foldl_cons, h x a]
    cases hF : F a with
    | none => rw [List.filterMap_cons_none hF]; exact ih x
    | some b => rw [List.filterMap_cons_some hF, List.foldl_cons]; exact ih _

/-- one pivot step on levels is `levPivot`, when the finished row `c` of `U` was read off a working row `wc` whose
levels are row `c` of the table -/
theorem wlev_ilukPivot (lfil n : Nat) (U : Array (IlukURow K)) (D : Vec K) (lev : Array (Array (Option Nat)))
    (w : IlukRow K) (c : Nat) (hw : LevLe w lfil) (wc : IlukRow K)
    (hU : U.getD c [] = ilukUrow n c wc) (hlev : lev.getD c #[] = wlev wc) :
    wlev (ilukPivot lfil U D w c) = levPivot n lfil lev (wlev w) c ∧ LevLe (ilukPivot lfil U D w c) lfil := by
  unfold ilukPivot levPivot
  rw [wlev_getD]
  cases h : w.getD c none with
  | none => exact ⟨rfl, hw⟩
  | some e =>
    obtain ⟨v, l⟩ := e
    simp only [Option.map_some]
    set a := v * D.getD c 0 with ha
    have hw1 : LevLe (w.setIfInBounds c (some (a, l))) lfil := by
      intro j e he
      rw [getD_setIfInBounds] at he
      split at he
      · injection he with he; rw [← he]; exact hw c (v, l) h
      · exact hw j e he
    have hl1 : wlev (w.setIfInBounds c (some (a, l))) = wlev w := by
      rw [wlev_set]
      apply setIfInBounds_self _ _ _ none
      intro _; rw [wlev_getD, h]; rfl
    obtain ⟨g1, g2⟩ := wlev_foldl_ilukAdd lfil (fun e : Nat × K × Nat => e.1) (fun e => -a * e.2.1)
      (fun e => max l e.2.2 + 1) (U.getD c []) _ hw1
    refine ⟨?_, g2⟩
    rw [g1, hl1, hU, hlev]
    unfold ilukUrow
    apply foldl_filterMap'
    intro row j
    by_cases hcj : c < j
    · rw [if_pos hcj, if_pos hcj, wlev_getD]
      cases wc.getD j none with
      | none => rfl
      | some e => rfl
    · rw [if_neg hcj, if_neg hcj]

/-- the pivot loop on levels -/
theorem wlev_foldl_ilukPivot (lfil n : Nat) (U : Array (IlukURow K)) (D : Vec K) (lev : Array (Array (Option Nat)))
    (i : Nat) (hrows : ∀ c, c < i → ∃ wc : IlukRow K, U.getD c [] = ilukUrow n c wc ∧ lev.getD c #[] = wlev wc)
    (w : IlukRow K) (hw : LevLe w lfil) :
    wlev ((List.range i).foldl (ilukPivot lfil U D) w) = (List.range i).foldl (levPivot n lfil lev) (wlev w)
    ∧ LevLe ((List.range i).foldl (ilukPivot lfil U D) w) lfil := by
  induction i with
  | zero => exact ⟨rfl, hw⟩
  | succ m ih =>
    rw [List.range_succ, List.foldl_append, List.foldl_append]
    obtain ⟨h1, h2⟩ := ih (fun c hc => hrows c (by omega))
    obtain ⟨wc, hU, hlev⟩ := hrows m (by omega)
    obtain ⟨g1, g2⟩ := wlev_ilukPivot lfil n U D lev _ m h2 wc hU hlev
    refine ⟨?_, g2⟩
    show wlev (ilukPivot lfil U D _ m) = levPivot n lfil lev _ m
    rw [g1, h1]

/-- the scatter of the row of `A`: slots exactly at the stored columns, all of level `0` -/
theorem scatter_getD (lfil : Nat) (r : Row K) (w : IlukRow K) (j : Nat) (hj : j < w.size)
    (hw : ∀ j e, w.getD j none = some e → e.2 = 0) :
    ((r.foldl (fun w cv => ilukAdd lfil w cv.1 cv.2 0) w).getD j none).map (fun e => e.2)
      = if (w.getD j none).isSome || r.any (fun cv => cv.1 == j) then some 0 else none := by
  induction r generalizing w with
  | nil =>
    simp only [List.foldl_nil, List.any_nil, Bool.or_false]
    cases h : w.getD j none with
    | none => rfl
    | some e => simp [hw j e h]
  | cons cv t ih =>
    rw [List.foldl_cons]
    have hw' : ∀ j e, (ilukAdd lfil w cv.1 cv.2 0).getD j none = some e → e.2 = 0 := by
      intro j' e he
      by_cases hc : cv.1 = j'
      · subst hc
        unfold ilukAdd at he
        cases h : w.getD cv.1 none with
        | none =>
          rw [h] at he; simp only [] at he
          rw [if_pos (Nat.zero_le _), getD_setIfInBounds] at he
          split at he
          · injection he with he; rw [← he]
          · rw [h] at he; cases he
        | some e' =>
          obtain ⟨v, l⟩ := e'
          rw [h] at he; simp only [] at he
          rw [getD_setIfInBounds] at he
          split at he
          · injection he with he; rw [← he]; simp
          · exact hw _ e he
      · rw [ilukAdd_getD_ne _ _ _ _ _ _ hc] at he; exact hw j' e he
    rw [ih _ (by rw [ilukAdd_size]; exact hj) hw']
    by_cases hc : cv.1 = j
    · have hs : ((ilukAdd lfil w cv.1 cv.2 0).getD j none).isSome = true := by
        subst hc
        unfold ilukAdd
        cases h : w.getD cv.1 none with
        | none => simp only []; rw [if_pos (Nat.zero_le _), getD_setIfInBounds_self _ _ _ _ hj]; rfl
        | some e' => obtain ⟨v, l⟩ := e'; simp only []; rw [getD_setIfInBounds_self _ _ _ _ hj]; rfl
      rw [hs]
      simp [hc]
    · rw [ilukAdd_getD_ne _ _ _ _ _ _ hc]
      have : (cv.1 == j) = false := by simpa using hc
      rw [List.any_cons, this, Bool.false_or]

theorem wlev_scatter (lfil : Nat) (A : CRS K) (i : Nat) :
    wlev ((A.row i).foldl (fun w cv => ilukAdd lfil w cv.1 cv.2 0) (Array.replicate A.nrows none)) = levRow0 A i
    ∧ LevLe ((A.row i).foldl (fun w cv => ilukAdd lfil w cv.1 cv.2 0) (Array.replicate A.nrows none)) lfil := by
  have hrep : ∀ j, (Array.replicate A.nrows (none : Option (K × Nat))).getD j none = none := by
    intro j; unfold Array.getD; split <;> simp
  obtain ⟨_, hle⟩ := wlev_foldl_ilukAdd lfil (fun cv : Nat × K => cv.1) (fun cv => cv.2) (fun _ => 0) (A.row i)
    (Array.replicate A.nrows none) (fun j e he => by rw [hrep] at he; cases he)
  refine ⟨?_, hle⟩
  have hsz : ((A.row i).foldl (fun w cv => ilukAdd lfil w cv.1 cv.2 0)
      (Array.replicate A.nrows (none : Option (K × Nat)))).size = A.nrows := by
    have : ∀ (r : Row K) (w : IlukRow K), (r.foldl (fun w cv => ilukAdd lfil w cv.1 cv.2 0) w).size = w.size := by
      intro r
      induction r with
      | nil => intro w; rfl
      | cons cv t ih => intro w; rw [List.foldl_cons, ih, ilukAdd_size]
    rw [this]; simp
  apply ext_getD' none (by rw [wlev_size, hsz]; simp [levRow0])
  intro j
  by_cases hj : j < A.nrows
  · rw [wlev_getD, scatter_getD lfil (A.row i) _ j (by simpa using hj) (fun j e he => by rw [hrep] at he; cases he),
      hrep]
    unfold levRow0
    rw [getD_ofFn_lt _ _ _ hj]
    unfold patOf
    rw [Option.isSome_none, Bool.false_or]
  · rw [getD_of_size_le _ _ _ (by rw [wlev_size, hsz]; omega), getD_of_size_le _ _ _ (by simp [levRow0]; omega)]

end proj

/-! ### the row loop -/
section loop
variable {K : Type} [Field K]

/-- after `i` rows the table of `fillLevels` holds the levels of the finished working rows, from which the stored
rows were read -/
structure LevTabInv (A : CRS K) (S : IlukState K) (lev : Array (Array (Option Nat))) (i : Nat) : Prop where
  sizeL : S.L.size = i
  sizeU : S.U.size = i
  sizeT : lev.size = i
  rows : ∀ k, k < i → ∃ wk : IlukRow K, wk.size = A.nrows ∧ lev.getD k #[] = wlev wk
    ∧ S.U.getD k [] = ilukUrow A.nrows k wk ∧ S.L.getD k [] = ilukLrow k wk ∧ (wk.getD k none).isSome = true

theorem levRow_congr (A : CRS K) (kfill : Nat) (lev lev' : Array (Array (Option Nat))) (i : Nat)
    (h : ∀ k, k < i → lev.getD k #[] = lev'.getD k #[]) : levRow A kfill lev i = levRow A kfill lev' i := by
  unfold levRow
  generalize levRow0 A i = row0
  have : ∀ m, m ≤ i → ∀ row, (List.range m).foldl (levPivot A.nrows kfill lev) row
      = (List.range m).foldl (levPivot A.nrows kfill lev') row := by
    intro m
    induction m with
    | zero => intro _ _; rfl
    | succ q ih =>
      intro hq row
      rw [List.range_succ, List.foldl_append, List.foldl_append, ih (by omega)]
      show levPivot _ _ lev _ q = levPivot _ _ lev' _ q
      exact levPivot_congr _ _ _ _ _ _ (h q (by omega))
  exact this i (Nat.le_refl i) row0

theorem LevTabInv.step (lfil : Nat) (A : CRS K) (S : IlukState K) (lev : Array (Array (Option Nat))) (i : Nat)
    (hinv : LevTabInv A S lev i) (S' : IlukState K) (h : ilukRow lfil A.nrows S i (A.row i) = .ok S') :
    LevTabInv A S' (lev.push (levRow A lfil lev i)) (i + 1) := by
  rw [ilukRow_eq, ilukRowT_fst] at h
  set w := (List.range i).foldl (ilukPivot lfil S.U S.D)
    ((A.row i).foldl (fun w cv => ilukAdd lfil w cv.1 cv.2 0) (Array.replicate A.nrows none)) with hw
  obtain ⟨s1, s2⟩ := wlev_scatter lfil A i
  obtain ⟨p1, _⟩ := wlev_foldl_ilukPivot lfil A.nrows S.U S.D lev i
    (fun c hc => by obtain ⟨wc, _, h2, h3, _, _⟩ := hinv.rows c hc; exact ⟨wc, h3, h2⟩) _ s2
  rw [s1] at p1
  have hwl : wlev w = levRow A lfil lev i := p1
  have hwsz : w.size = A.nrows := by
    have := congrArg Array.size hwl
    rw [wlev_size] at this
    rw [this]
    unfold levRow
    have hs : ∀ (m : Nat) (row : Array (Option Nat)),
        ((List.range m).foldl (levPivot A.nrows lfil lev) row).size = row.size := by
      intro m
      induction m with
      | zero => intro row; rfl
      | succ q ih =>
        intro row
        rw [List.range_succ, List.foldl_append, List.foldl_cons, List.foldl_nil]
        have hp : ∀ (r : Array (Option Nat)) k, (levPivot A.nrows lfil lev r k).size = r.size := by
          intro r k
          unfold levPivot
          split
          · rfl
          · have : ∀ (l : List Nat) (r : Array (Option Nat)) lik, (l.foldl (fun (row : Array (Option Nat)) j =>
                if k < j then
                  match (lev.getD k #[]).getD j none with
                  | none => row
                  | some lkj => levAdd lfil row j (max lik lkj + 1)
                else row) r).size = r.size := by
              intro l
              induction l with
              | nil => intro r _; rfl
              | cons j t ih' =>
                intro r lik
                rw [List.foldl_cons, ih']
                split
                · split
                  · rfl
                  · unfold levAdd; split
                    · split <;> simp
                    · rfl
                · rfl
            exact this _ _ _
        rw [hp, ih]
    rw [hs]; simp [levRow0]
  cases hwi : w.getD i none with
  | none => rw [hwi] at h; cases h
  | some dd =>
    obtain ⟨d, lv⟩ := dd
    rw [hwi] at h
    simp only [] at h
    injection h with h
    subst h
    refine ⟨by simp [hinv.sizeL], by simp [hinv.sizeU], by simp [hinv.sizeT], ?_⟩
    intro k hk
    rcases Nat.lt_or_eq_of_le (Nat.le_of_lt_succ hk) with hk' | hk'
    · obtain ⟨wk, h1, h2, h3, h4, h5⟩ := hinv.rows k hk'
      refine ⟨wk, h1, ?_, ?_, ?_, h5⟩
      · rw [getD_push_lt _ _ _ _ (by rw [hinv.sizeT]; exact hk')]; exact h2
      · simp only []; rw [getD_push_lt _ _ _ _ (by rw [hinv.sizeU]; exact hk')]; exact h3
      · simp only []; rw [getD_push_lt _ _ _ _ (by rw [hinv.sizeL]; exact hk')]; exact h4
    · subst hk'
      refine ⟨w, hwsz, ?_, ?_, ?_, by rw [hwi]; rfl⟩
      · have := getD_push_eq lev (levRow A lfil lev k) #[]
        rw [hinv.sizeT] at this
        rw [this]; exact hwl.symm
      · have := getD_push_eq S.U (ilukUrow A.nrows k w) []
        rw [hinv.sizeU] at this
        exact this
      · have := getD_push_eq S.L (ilukLrow k w) []
        rw [hinv.sizeL] at this
        exact this

theorem LevTabInv.loop (lfil : Nat) (A : CRS K) (len i : Nat) (S S' : IlukState K)
    (lev : Array (Array (Option Nat))) (hinv : LevTabInv A S lev i)
    (h : ilukLoop lfil A (List.range' i len) S = .ok S') :
    LevTabInv A S' ((List.range' i len).foldl (fun lev i => lev.push (levRow A lfil lev i)) lev) (i + len) := by
  induction len generalizing i S lev with
  | zero =>
    simp only [List.range'_zero, ilukLoop] at h
    injection h with h
    subst h; exact hinv
  | succ m ih =>
    rw [List.range'_succ] at h
    unfold ilukLoop at h
    cases hr : ilukRow lfil A.nrows S i (A.row i) with
    | precondition => rw [hr] at h; exact absurd h (by simp)
    | undefinedInput => rw [hr] at h; exact absurd h (by simp)
    | ok S1 =>
      rw [hr] at h
      simp only [] at h
      rw [List.range'_succ, List.foldl_cons, show i + (m + 1) = i + 1 + m by omega]
      exact ih (i + 1) S1 _ (LevTabInv.step lfil A S lev i hinv S1 hr) h

end loop

/-! ### slots = level-of-fill pattern -/
section final
variable {K : Type} [Field K] [DecidableEq K]

theorem any_ilukLrow (i : Nat) (w : IlukRow K) (j : Nat) :
    (ilukLrow i w).any (fun cv => cv.1 == j) = (decide (j < i) && (w.getD j none).isSome) := by
  rw [Bool.eq_iff_iff, List.any_eq_true, Bool.and_eq_true, decide_eq_true_eq]
  unfold ilukLrow
  constructor
  · rintro ⟨cv, hcv, he⟩
    obtain ⟨c, hc, hm⟩ := List.mem_filterMap.mp hcv
    cases hw : w.getD c none with
    | none => rw [hw] at hm; cases hm
    | some e =>
      rw [hw] at hm
      simp only [Option.map_some, Option.some.injEq] at hm
      have hcj : c = j := by rw [← hm] at he; simpa using he
      subst hcj
      exact ⟨List.mem_range.mp hc, by rw [hw]; rfl⟩
  · rintro ⟨hji, hs⟩
    cases hw : w.getD j none with
    | none => rw [hw] at hs; cases hs
    | some e =>
      exact ⟨(j, e.1), List.mem_filterMap.mpr ⟨j, List.mem_range.mpr hji, by rw [hw]; rfl⟩, by simp⟩

theorem any_ilukUrow (n i : Nat) (w : IlukRow K) (j : Nat) :
    ((ilukUrow n i w).map (fun e => (e.1, e.2.1))).any (fun cv => cv.1 == j)
      = (decide (i < j) && decide (j < n) && (w.getD j none).isSome) := by
  rw [Bool.eq_iff_iff, List.any_eq_true, Bool.and_eq_true, Bool.and_eq_true, decide_eq_true_eq, decide_eq_true_eq]
  constructor
  · rintro ⟨cv, hcv, he⟩
    obtain ⟨e, hem, rfl⟩ := List.mem_map.mp hcv
    obtain ⟨h1, h2, h3⟩ := mem_ilukUrow n i w e hem
    have hcj : e.1 = j := by simpa using he
    subst hcj
    exact ⟨⟨h1, h2⟩, by rw [h3]; rfl⟩
  · rintro ⟨⟨hij, hjn⟩, hs⟩
    cases hw : w.getD j none with
    | none => rw [hw] at hs; cases hs
    | some e =>
      refine ⟨(j, e.1), List.mem_map.mpr ⟨(j, e.1, e.2), ?_, rfl⟩, by simp⟩
      unfold ilukUrow
      exact List.mem_filterMap.mpr ⟨j, List.mem_range.mpr hjn, by rw [if_pos hij, hw]; rfl⟩

/-- **the slots at the end of every row of the run are the level-of-fill pattern `patLevel A k`** -/
theorem ilukSlotb_eq_patLevel (lfil : Nat) (A : CRS K) (F : IluFactors K) (h : ilukFactor lfil A = .ok F)
    (i j : Nat) (hi : i < A.nrows) (hj : j < A.nrows) :
    ilukSlotb F i j = patLevel A lfil i j := by
  unfold ilukFactor at h
  cases hl : ilukLoop lfil A (List.range A.nrows) { L := #[], U := #[], D := #[] } with
  | precondition => rw [hl] at h; cases h
  | undefinedInput => rw [hl] at h; cases h
  | ok S =>
    rw [hl] at h
    simp only [] at h
    injection h with h
    subst h
    rw [List.range_eq_range'] at hl
    have h0 : LevTabInv A ({ L := #[], U := #[], D := #[] } : IlukState K) #[] 0 :=
      ⟨rfl, rfl, rfl, fun k hk => absurd hk (by omega)⟩
    have inv := LevTabInv.loop lfil A A.nrows 0 _ S #[] h0 hl
    rw [Nat.zero_add, ← List.range_eq_range', ← fillLevels_eq] at inv
    obtain ⟨wi, h1, h2, h3, h4, h5⟩ := inv.rows i hi
    have hpat : patLevel A lfil i j = (wi.getD j none).isSome := by
      show (((fillLevels A lfil).getD i #[]).getD j none).isSome = _
      rw [h2, wlev_getD]
      cases wi.getD j none <;> rfl
    rw [hpat]
    unfold ilukSlotb
    have hL : (⟨A.nrows, S.L⟩ : CRS K).row i = ilukLrow i wi := h4
    have hU : (⟨A.nrows, S.U.map (fun r => r.map (fun e => (e.1, e.2.1)))⟩ : CRS K).row i
        = (ilukUrow A.nrows i wi).map (fun e => (e.1, e.2.1)) := by
      show (S.U.map _).getD i [] = _
      rw [getD_map_list, h3]
    simp only []
    rw [hL, hU, any_ilukLrow, any_ilukUrow]
    rcases Nat.lt_trichotomy i j with hlt | heq | hgt
    · simp [hlt, hj, Nat.ne_of_lt hlt, Nat.not_lt_of_gt hlt]
    · subst heq; rw [h5]; simp
    · simp [hgt, Nat.ne_of_gt hgt, Nat.not_lt_of_gt hgt]

end final

end Relax
end Amgcl
