import Amgcl.Model.SolverCG
import Amgcl.Proofs.SolverCommon
/-!
Lemmas about the CG model: loop invariant `r = f − A x ∧ res = ‖r‖`, iteration counter, work-vector
independence, the early exits, one-step convergence with an exact preconditioner.
-/
namespace Amgcl.Solver
open Amgcl
set_option linter.unusedSectionVars false
set_option linter.unusedSimpArgs false

section toExcept
variable {K W : Type}
theorem Run.toExcept_ok (r : Run K W) (it : Nat) (res : K) (x : Vec K) (w : W) :
    r.toExcept = .ok (it, res, x, w) ↔ r = (.ok (it, res), x, w) := by
  obtain ⟨o, x', w'⟩ := r
  cases o with
  | error e => simp [Run.toExcept]
  | ok p => obtain ⟨a, b⟩ := p; simp [Run.toExcept]; tauto
end toExcept

namespace CG
variable {K : Type} [Field K] [DecidableEq K] [LT K] [DecidableLT K]

/-- `eps = std::max(prm.tol * norm_rhs, prm.abstol)` -/
def epsTol (prm : Params K) (nf : K) : K := maxK (prm.tol * nf) prm.abstol

/-- the loop state on exit, for a call that did not return early and uses `norm_rhs = nf` -/
def final (prm : Params K) (ip : Vec K → Vec K → K) (sqrt : K → K) (A : CRS K) (P : Vec K → Vec K)
    (ws : Work K) (f x0 : Vec K) (nf : K) : St K :=
  loop ip sqrt A P (epsTol prm nf) prm.maxiter (init ip sqrt A ws f x0 (epsTol prm nf))

theorem run_trivial (prm : Params K) (ip : Vec K → Vec K → K) (sqrt : K → K) (eps : K) (A : CRS K)
    (P : Vec K → Vec K) (ws : Work K) (f x0 : Vec K) (n : K)
    (h : prologue prm.nsSearch ip sqrt eps f = .trivial n) :
    run prm ip sqrt eps A P ws f x0 = (.ok (0, n), vclear x0.size, ws) := by
  simp only [run, h]

theorem run_go (prm : Params K) (ip : Vec K → Vec K → K) (sqrt : K → K) (eps : K) (A : CRS K)
    (P : Vec K → Vec K) (ws : Work K) (f x0 : Vec K) (nf : K)
    (h : prologue prm.nsSearch ip sqrt eps f = .go nf) :
    run prm ip sqrt eps A P ws f x0 =
      (.ok ((final prm ip sqrt A P ws f x0 nf).iter, (final prm ip sqrt A P ws f x0 nf).res / nf),
       (final prm ip sqrt A P ws f x0 nf).x, (final prm ip sqrt A P ws f x0 nf).w) := by
  simp only [run, h, final, epsTol]

/-- the loop invariant: the carried vector `r` IS the true residual of the current `x`, and `res` is its norm -/
def Inv (ip : Vec K → Vec K → K) (sqrt : K → K) (A : CRS K) (f : Vec K) (st : St K) : Prop :=
  st.w.r = residual f A st.x ∧ st.res = nrm ip sqrt st.w.r

theorem body_inv (ip : Vec K → Vec K → K) (sqrt : K → K) (A : CRS K) (hA : A.WF) (P : Vec K → Vec K)
    (hP : ∀ v, (P v).size = A.ncols) (f : Vec K) (st : St K) (h : Inv ip sqrt A f st) :
    Inv ip sqrt A f (body ip sqrt A P st) := by
  obtain ⟨h1, _⟩ := h
  refine ⟨?_, rfl⟩
  unfold body
  simp only []
  rw [h1]
  apply paired_update_inv f A hA
  split
  · rw [axpby_size, hP]
  · rw [vcopy_size, hP]

theorem init_inv (ip : Vec K → Vec K → K) (sqrt : K → K) (A : CRS K) (ws : Work K) (f x0 : Vec K) (e : K) :
    Inv ip sqrt A f (init ip sqrt A ws f x0 e) := ⟨rfl, rfl⟩

theorem final_inv (prm : Params K) (ip : Vec K → Vec K → K) (sqrt : K → K) (A : CRS K) (hA : A.WF)
    (P : Vec K → Vec K) (hP : ∀ v, (P v).size = A.ncols) (ws : Work K) (f x0 : Vec K) (nf : K) :
    Inv ip sqrt A f (final prm ip sqrt A P ws f x0 nf) :=
  loopN_inv _ _ _ (fun s hs _ => body_inv ip sqrt A hA P hP f s hs) _ _ (init_inv ip sqrt A ws f x0 _)

theorem body_iter (ip : Vec K → Vec K → K) (sqrt : K → K) (A : CRS K) (P : Vec K → Vec K) (st : St K) :
    (body ip sqrt A P st).iter = st.iter + 1 := rfl

theorem final_exit (prm : Params K) (ip : Vec K → Vec K → K) (sqrt : K → K) (A : CRS K)
    (P : Vec K → Vec K) (ws : Work K) (f x0 : Vec K) (nf : K) :
    (final prm ip sqrt A P ws f x0 nf).iter ≤ prm.maxiter ∧
    ((final prm ip sqrt A P ws f x0 nf).iter = prm.maxiter ∨
      ¬ epsTol prm nf < absK (final prm ip sqrt A P ws f x0 nf).res) := by
  have h := loopN_exit (cond (epsTol prm nf)) (body ip sqrt A P) St.iter (body_iter ip sqrt A P)
    prm.maxiter (init ip sqrt A ws f x0 (epsTol prm nf))
  have h0 : (init ip sqrt A ws f x0 (epsTol prm nf)).iter = 0 := rfl
  rw [h0, Nat.zero_add] at h
  refine ⟨h.1, ?_⟩
  rcases h.2 with h2 | h2
  · left; exact h2
  · right; simpa [cond, final, loop] using h2

/-! #### work-vector independence -/

/-- what the loop body reads from the state: everything except `w.s`, `w.q`, and `w.p` in the first pass -/
def Rel (s s' : St K) : Prop :=
  s.iter = s'.iter ∧ s.rho1 = s'.rho1 ∧ s.res = s'.res ∧ s.x = s'.x ∧ s.w.r = s'.w.r ∧
    (s.iter ≠ 0 → s.w.p = s'.w.p)

theorem body_rel (ip : Vec K → Vec K → K) (sqrt : K → K) (A : CRS K) (P : Vec K → Vec K) (s s' : St K)
    (h : Rel s s') : body ip sqrt A P s = body ip sqrt A P s' := by
  obtain ⟨h1, h2, _, h4, h5, h6⟩ := h
  unfold body
  simp only [spmv, if_true, h5, h2, h4, ← h1]
  by_cases hi : s.iter ≠ 0
  · simp only [hi, if_true, h6 hi]
  · simp only [hi, if_false]

theorem Rel_of_eq (s s' : St K) (h : s = s') : Rel s s' := by
  subst h; exact ⟨rfl, rfl, rfl, rfl, rfl, fun _ => rfl⟩

theorem final_rel (prm : Params K) (ip : Vec K → Vec K → K) (sqrt : K → K) (A : CRS K)
    (P : Vec K → Vec K) (ws ws' : Work K) (f x0 : Vec K) (nf : K) :
    Rel (final prm ip sqrt A P ws f x0 nf) (final prm ip sqrt A P ws' f x0 nf) := by
  apply loopN_rel (cond (epsTol prm nf)) (body ip sqrt A P) Rel
  · intro s s' h; simp only [cond, h.2.2.1]
  · intro s s' h _; exact Rel_of_eq _ _ (body_rel ip sqrt A P s s' h)
  · exact ⟨rfl, rfl, rfl, rfl, rfl, fun h => absurd rfl h⟩

/-! #### exact preconditioner -/

/-- with `A·(P v) = v` the first pass has `α = 1` and produces the zero residual vector -/
theorem exact_first_pass (ip : Vec K → Vec K → K) (sqrt : K → K) (A : CRS K) (P : Vec K → Vec K)
    (hAP : ∀ v z, v.size = A.nrows → spmv 1 A (P v) 0 z = v) (ws : Work K) (f x0 : Vec K) (e : K)
    (hne : ip (residual f A x0) (P (residual f A x0)) ≠ 0) :
    (body ip sqrt A P (init ip sqrt A ws f x0 e)).w.r = vclear A.nrows := by
  show axpby (-(ip (residual f A x0) (P (residual f A x0)) /
      ip (spmv 1 A (vcopy (P (residual f A x0))) 0 ws.q) (vcopy (P (residual f A x0)))))
      (spmv 1 A (vcopy (P (residual f A x0))) 0 ws.q) 1 (residual f A x0) = vclear A.nrows
  rw [vcopy_eq, hAP _ _ (residual_size' f A x0), div_self hne, axpby_cancel, residual_size']

theorem exact_final (prm : Params K) (ip : Vec K → Vec K → K) (sqrt : K → K) (A : CRS K) (P : Vec K → Vec K)
    (hAP : ∀ v z, v.size = A.nrows → spmv 1 A (P v) 0 z = v) (ws : Work K) (f x0 : Vec K) (nf : K)
    (hne : ip (residual f A x0) (P (residual f A x0)) ≠ 0)
    (hmax : 1 ≤ prm.maxiter)
    (hstart : epsTol prm nf < absK (nrm ip sqrt (residual f A x0)))
    (hz : nrm ip sqrt (vclear A.nrows) = 0) (heps : ¬ epsTol prm nf < 0) :
    final prm ip sqrt A P ws f x0 nf = body ip sqrt A P (init ip sqrt A ws f x0 (epsTol prm nf)) := by
  obtain ⟨m, hm⟩ : ∃ m, prm.maxiter = m + 1 := ⟨prm.maxiter - 1, by omega⟩
  unfold final loop
  rw [hm, loopN]
  have hc : cond (epsTol prm nf) (init ip sqrt A ws f x0 (epsTol prm nf)) = true := by
    simpa [cond, init] using hstart
  rw [if_pos hc]
  apply loopN_of_not_cond
  have hr := exact_first_pass ip sqrt A P hAP ws f x0 (epsTol prm nf) hne
  have hres : (body ip sqrt A P (init ip sqrt A ws f x0 (epsTol prm nf))).res = 0 := by
    show nrm ip sqrt (body ip sqrt A P (init ip sqrt A ws f x0 (epsTol prm nf))).w.r = 0
    rw [hr, hz]
  simp only [cond, hres, absK_zero]
  simpa using heps

end CG
end Amgcl.Solver
