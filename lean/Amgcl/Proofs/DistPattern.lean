import Amgcl.Proofs.DistList
import Amgcl.Proofs.KernelsMisc
/-!
The communication pattern (`comm_pattern` constructor): domain arithmetic, the owner search, the loop invariant
of lines 115-127, the receive/send sides of every rank in closed form, and the ghost exchange.
-/
namespace Amgcl.Dist
open Amgcl

/-! ### `exclusive_sum` -/

theorem dom_eq (part : List Nat) (d : Nat) (h : d ≤ part.length) : dom part d = (part.take d).sum :=
  K2.scanWidths_getD part d h

theorem dom_zero (part : List Nat) : dom part 0 = 0 := by rw [dom_eq part 0 (Nat.zero_le _)]; rfl

theorem dom_succ (part : List Nat) (d : Nat) (h : d < part.length) : dom part (d + 1) = dom part d + part.getD d 0 :=
  K2.scanWidths_succ part d h

theorem dom_length (part : List Nat) : dom part part.length = part.sum := K2.scanWidths_getD_length part

theorem dom_mono (part : List Nat) {d d' : Nat} (h : d ≤ d') (h' : d' ≤ part.length) : dom part d ≤ dom part d' := by
  rw [dom_eq part d (Nat.le_trans h h'), dom_eq part d' h']
  exact K2.sum_take_le_of_le part h

theorem dom_le_sum (part : List Nat) {d : Nat} (h : d ≤ part.length) : dom part d ≤ part.sum := by
  rw [← dom_length]; exact dom_mono part h (Nat.le_refl _)

/-- rank `d` owns the global index `c` -/
def IsOwner (part : List Nat) (c d : Nat) : Prop := d < part.length ∧ dom part d ≤ c ∧ c < dom part (d + 1)

theorem exists_owner (part : List Nat) (c : Nat) (h : c < part.sum) : ∃ d, IsOwner part c d := by
  have key : ∀ k, k ≤ part.length → c < dom part k → ∃ d, IsOwner part c d := by
    intro k
    induction k with
    | zero => intro _ h0; rw [dom_zero] at h0; omega
    | succ k ih =>
      intro hk hc
      by_cases h1 : c < dom part k
      · exact ih (Nat.le_of_succ_le hk) h1
      · exact ⟨k, hk, Nat.le_of_not_lt h1, hc⟩
  exact key part.length (Nat.le_refl _) (by rw [dom_length]; exact h)

theorem owner_mono {part : List Nat} {c c' d d' : Nat} (h : IsOwner part c d) (h' : IsOwner part c' d')
    (hc : c ≤ c') : d ≤ d' := by
  by_contra hlt
  have h1 : dom part (d' + 1) ≤ dom part d := dom_mono part (by omega) (Nat.le_of_lt h.1)
  have := h.2.1; have := h'.2.2; omega

theorem owner_unique {part : List Nat} {c d d' : Nat} (h : IsOwner part c d) (h' : IsOwner part c d') : d = d' :=
  Nat.le_antisymm (owner_mono h h' (Nat.le_refl _)) (owner_mono h' h (Nat.le_refl _))

/-- the `while` loop of the owner search finds the owner when started at or below it -/
theorem advance_eq (part : List Nat) (c d : Nat) (h : IsOwner part c d) :
    ∀ (fuel d0 : Nat), d0 ≤ d → d - d0 ≤ fuel → advance (scanWidths part) c fuel d0 = d := by
  intro fuel
  induction fuel with
  | zero => intro d0 h0 hf; unfold advance; omega
  | succ fuel ih =>
    intro d0 h0 hf
    unfold advance
    by_cases he : d0 = d
    · subst he
      have : ¬ c ≥ (scanWidths part).getD (d0 + 1) 0 := by have := h.2.2; unfold dom at this; omega
      rw [if_neg this]
    · have hlt : d0 < d := by omega
      have h1 : dom part (d0 + 1) ≤ dom part d := dom_mono part (by omega) (Nat.le_of_lt h.1)
      have : c ≥ (scanWidths part).getD (d0 + 1) 0 := by have h2 := h.2.1; unfold dom at h1 h2; omega
      rw [if_pos this]
      exact ih (d0 + 1) (by omega) (by omega)

/-- the owner as the code computes it for the first remote column -/
def ownerOf (part : List Nat) (c : Nat) : Nat := advance (scanWidths part) c part.length 0

theorem isOwner_ownerOf (part : List Nat) (c : Nat) (h : c < part.sum) : IsOwner part c (ownerOf part c) := by
  obtain ⟨d, hd⟩ := exists_owner part c h
  have : ownerOf part c = d := advance_eq part c d hd part.length 0 (Nat.zero_le _) (by have := hd.1; omega)
  rw [this]; exact hd

theorem ownerOf_eq {part : List Nat} {c d : Nat} (h : IsOwner part c d) : ownerOf part c = d :=
  advance_eq part c d h part.length 0 (Nat.zero_le _) (by have := h.1; omega)

/-! ### the loop of lines 115-127 -/

theorem getD_modify_succ (l : List Nat) (i j : Nat) (hi : i < l.length) :
    (l.modify i (· + 1)).getD j 0 = l.getD j 0 + if j = i then 1 else 0 := by
  rw [List.getD_eq_getElem?_getD, List.getD_eq_getElem?_getD, List.getElem?_modify]
  by_cases hj : j < l.length
  · rw [List.getElem?_eq_getElem hj]
    by_cases e : i = j
    · subst e; simp
    · have : ¬ j = i := fun h => e h.symm
      simp [e, this]
  · have hn : l[j]? = none := List.getElem?_eq_none (Nat.le_of_not_lt hj)
    have : ¬ j = i := by omega
    simp [hn, this]

theorem ownLoop_fold (part : List Nat) : ∀ (l : List Nat) (n : Nat) (st : OwnLoop),
    l.Pairwise (· < ·) → (∀ c ∈ l, c < part.sum) → (∀ c ∈ l, st.d ≤ ownerOf part c) →
    st.rcounts.length = part.length →
    ((l.zipIdx n).foldl (ownStep (scanWidths part) part.length) st).rcounts.length = part.length ∧
    (∀ d, ((l.zipIdx n).foldl (ownStep (scanWidths part) part.length) st).rcounts.getD d 0
        = st.rcounts.getD d 0 + l.countP (fun c => ownerOf part c = d)) ∧
    ((l.zipIdx n).foldl (ownStep (scanWidths part) part.length) st).idx.map (fun e => (e.1, e.2.2))
        = st.idx.map (fun e => (e.1, e.2.2)) ++ l.zipIdx n := by
  intro l
  induction l with
  | nil => intro n st _ _ _ hl; simp [hl]
  | cons c t ih =>
    intro n st hs hlt hd hl
    obtain ⟨hs1, hs2⟩ := List.pairwise_cons.1 hs
    have hown := isOwner_ownerOf part c (hlt c List.mem_cons_self)
    have hadv : advance (scanWidths part) c part.length st.d = ownerOf part c :=
      advance_eq part c _ hown part.length st.d (hd c List.mem_cons_self) (by have := hown.1; omega)
    rw [List.zipIdx_cons, List.foldl_cons]
    have hst : (ownStep (scanWidths part) part.length st (c, n)).d = ownerOf part c := by
      unfold ownStep; exact hadv
    have hrc : (ownStep (scanWidths part) part.length st (c, n)).rcounts = st.rcounts.modify (ownerOf part c) (· + 1) := by
      unfold ownStep; simp only; rw [hadv]
    have hix : (ownStep (scanWidths part) part.length st (c, n)).idx.map (fun e => (e.1, e.2.2))
        = st.idx.map (fun e => (e.1, e.2.2)) ++ [(c, n)] := by
      unfold ownStep; simp
    obtain ⟨r1, r2, r3⟩ := ih (n + 1) (ownStep (scanWidths part) part.length st (c, n)) hs2
      (fun c' hc' => hlt c' (List.mem_cons_of_mem _ hc'))
      (fun c' hc' => by
        rw [hst]
        exact owner_mono hown (isOwner_ownerOf part c' (hlt c' (List.mem_cons_of_mem _ hc'))) (Nat.le_of_lt (hs1 c' hc')))
      (by rw [hrc, List.length_modify]; exact hl)
    refine ⟨r1, ?_, ?_⟩
    · intro d
      rw [r2 d, hrc, getD_modify_succ _ _ _ (by rw [hl]; exact hown.1), List.countP_cons]
      by_cases e : d = ownerOf part c
      · subst e; simp; omega
      · have : ¬ ownerOf part c = d := fun h => e h.symm
        simp [e, this]
    · rw [r3, hix, List.append_assoc]; rfl

/-- the receive side of a rank in closed form: the remote columns grouped by owner -/
theorem recvSide_spec (part : List Nat) (raw : List Nat) (hraw : ∀ c ∈ raw, c < part.sum) :
    (recvSide part raw).remCols = sortUnique raw ∧
    (∀ d, (recvSide part raw).rcounts.getD d 0 = (sortUnique raw).countP (fun c => ownerOf part c = d)) ∧
    (recvSide part raw).recv
      = ((List.range part.length).filter (fun d => (sortUnique raw).countP (fun c => ownerOf part c = d) ≠ 0)).map
          (fun d => (d, (sortUnique raw).filter (fun c => ownerOf part c = d))) ∧
    (recvSide part raw).idx.map (fun e => (e.1, e.2.2)) = (sortUnique raw).zipIdx := by
  have hlt : ∀ c ∈ sortUnique raw, c < part.sum := fun c hc => hraw c ((mem_sortUnique c raw).1 hc)
  obtain ⟨r1, r2, r3⟩ := ownLoop_fold part (sortUnique raw) 0 ⟨0, -1, 0, List.replicate part.length 0, []⟩
    (sortUnique_sorted raw) hlt (fun _ _ => Nat.zero_le _) (by simp)
  have hcnt : ∀ d, (ownLoop (scanWidths part) part.length (sortUnique raw)).rcounts.getD d 0
      = (sortUnique raw).countP (fun c => ownerOf part c = d) := by
    intro d
    have := r2 d
    unfold ownLoop
    rw [this]
    have : (List.replicate part.length 0).getD d 0 = 0 := by
      rw [List.getD_eq_getElem?_getD, List.getElem?_replicate]; split <;> rfl
    simp only [this, Nat.zero_add]
  refine ⟨rfl, hcnt, ?_, ?_⟩
  · unfold recvSide
    simp only
    apply segsFrom_eq (fun c => ownerOf part c) (List.range part.length) (sortUnique raw)
    · exact range_pairwise_lt _
    · exact (sortUnique_sorted raw).imp_of_mem (fun {a b} ha hb hab =>
        owner_mono (isOwner_ownerOf part a (hlt a ha)) (isOwner_ownerOf part b (hlt b hb)) (Nat.le_of_lt hab))
    · intro c hc; exact List.mem_range.2 (isOwner_ownerOf part c (hlt c hc)).1
    · intro d _; exact hcnt d
  · have := r3
    unfold recvSide ownLoop
    simpa using this

/-! ### all ranks: `MPI_Alltoall` and the exchange of the requested columns -/

theorem getD_map_range {β : Type} (g : Nat → β) (n r : Nat) (z : β) (h : r < n) :
    ((List.range n).map g).getD r z = g r := by
  rw [List.getD_eq_getElem?_getD, List.getElem?_map, List.getElem?_range h]; rfl

theorem getD_map_lt {α β : Type} (g : α → β) (l : List α) (r : Nat) (z : β) (a : α) (h : r < l.length) :
    (l.map g).getD r z = g (l.getD r a) := by
  rw [List.getD_eq_getElem?_getD, List.getD_eq_getElem?_getD, List.getElem?_map, List.getElem?_eq_getElem h]; rfl

/-- hypotheses on the raw remote column arrays of all ranks -/
structure RemsOK (part : List Nat) (rems : List (List Nat)) : Prop where
  len : rems.length = part.length
  lt : ∀ r, ∀ c ∈ rems.getD r [], c < part.sum

/-- `rem_cols` of rank `r` -/
def remColsOf (rems : List (List Nat)) (r : Nat) : List Nat := sortUnique (rems.getD r [])
/-- the remote columns of rank `d` that rank `r` owns (the request `d → r`) -/
def request (part : List Nat) (rems : List (List Nat)) (d r : Nat) : List Nat :=
  (remColsOf rems d).filter (fun c => ownerOf part c = r)

theorem colsMsg_eq (part : List Nat) (rems : List (List Nat)) (h : RemsOK part rems) (d r : Nat)
    (hd : d < part.length) (hr : r < part.length) :
    colsMsg (rems.map (recvSide part)) d r = request part rems d r := by
  unfold colsMsg
  rw [getD_map_lt (recvSide part) rems d default [] (by rw [h.len]; exact hd)]
  obtain ⟨_, _, s3, _⟩ := recvSide_spec part (rems.getD d []) (h.lt d)
  rw [s3, lookup_map_key]
  unfold request remColsOf
  split
  · rfl
  · next hn =>
    have : (sortUnique (rems.getD d [])).countP (fun c => ownerOf part c = r) = 0 := by
      by_contra h0
      exact hn (List.mem_filter.2 ⟨List.mem_range.2 hr, by simpa using h0⟩)
    simp only [Option.getD_none]
    symm; rw [List.filter_eq_nil_iff]
    exact List.countP_eq_zero.1 this

theorem pattern_getD (part : List Nat) (rems : List (List Nat)) (h : RemsOK part rems) (r : Nat) (hr : r < part.length) :
    let p := (commPatterns part rems).getD r default
    p.remCols = remColsOf rems r ∧
    (∀ d, p.rcounts.getD d 0 = (request part rems r d).length) ∧
    p.recv = ((List.range part.length).filter (fun d => (request part rems r d).length ≠ 0)).map
              (fun d => (d, request part rems r d)) ∧
    p.idx.map (fun e => (e.1, e.2.2)) = (remColsOf rems r).zipIdx ∧
    (∀ d, d < part.length → p.scounts.getD d 0 = (request part rems d r).length) ∧
    p.send = ((List.range part.length).filter (fun d => (request part rems d r).length ≠ 0)).map
              (fun d => (d, (request part rems d r).map (· - dom part r))) := by
  obtain ⟨s1, s2, s3, s4⟩ := recvSide_spec part (rems.getD r []) (h.lt r)
  have hme : (rems.map (recvSide part)).getD r default = recvSide part (rems.getD r []) :=
    getD_map_lt (recvSide part) rems r default [] (by rw [h.len]; exact hr)
  have hsc : ∀ d, d < part.length →
      ((List.range part.length).map (fun d => ((rems.map (recvSide part)).getD d default).rcounts.getD r 0)).getD d 0
        = (request part rems d r).length := by
    intro d hd
    rw [getD_map_range _ _ _ _ hd, getD_map_lt (recvSide part) rems d default [] (by rw [h.len]; exact hd)]
    rw [(recvSide_spec part (rems.getD d []) (h.lt d)).2.1 r]
    unfold request remColsOf
    rw [List.countP_eq_length_filter]
  unfold commPatterns
  simp only
  rw [getD_map_range _ _ _ _ hr]
  simp only [hme]
  refine ⟨s1, ?_, ?_, s4, hsc, ?_⟩
  · intro d; rw [s2 d]; unfold request remColsOf; rw [List.countP_eq_length_filter]
  · rw [s3]; unfold request remColsOf; simp only [List.countP_eq_length_filter]
  · have e1 : (List.range part.length).filter (fun d =>
          ((List.range part.length).map (fun d => ((rems.map (recvSide part)).getD d default).rcounts.getD r 0)).getD d 0 ≠ 0)
        = (List.range part.length).filter (fun d => (request part rems d r).length ≠ 0) := by
      apply List.filter_congr
      intro d hd
      rw [hsc d (List.mem_range.1 hd)]
    rw [e1]
    apply List.map_congr_left
    intro d hd
    rw [colsMsg_eq part rems h d r (List.mem_range.1 (List.mem_filter.1 hd).1) hr]

/-! ### `local_index` -/

theorem lookup_zipIdx (l : List Nat) (hn : l.Nodup) : ∀ (n : Nat) (c : Nat), c ∈ l →
    ∃ i, (l.zipIdx n).lookup c = some (n + i) ∧ l[i]? = some c := by
  induction l with
  | nil => intro n c hc; cases hc
  | cons a t ih =>
    intro n c hc
    obtain ⟨hn1, hn2⟩ := List.nodup_cons.1 hn
    rw [List.zipIdx_cons, List.lookup_cons]
    by_cases e : c = a
    · subst e; exact ⟨0, by simp, by simp⟩
    · have : (c == a) = false := by simpa using e
      rw [this]
      have hct : c ∈ t := by
        rcases List.mem_cons.1 hc with h | h
        · exact absurd h e
        · exact h
      obtain ⟨i, h1, h2⟩ := ih hn2 (n + 1) c hct
      refine ⟨i + 1, ?_, by simpa using h2⟩
      show List.lookup c (t.zipIdx (n + 1)) = some (n + (i + 1))
      rw [h1, Nat.add_assoc, Nat.add_comm 1 i]

theorem lookup_map_snd {β γ : Type} (g : β → γ) (l : List (Nat × β)) (c : Nat) :
    (l.map (fun e => (e.1, g e.2))).lookup c = (l.lookup c).map g := by
  induction l with
  | nil => rfl
  | cons a t ih =>
    obtain ⟨k, b⟩ := a
    rw [List.map_cons, List.lookup_cons, List.lookup_cons]
    cases c == k <;> simp [ih]

/-- the slot that `local_index` assigns to a remote column holds that column -/
theorem localIndex_spec (p : CommPattern) (cols : List Nat) (hn : cols.Nodup)
    (hidx : p.idx.map (fun e => (e.1, e.2.2)) = cols.zipIdx) (c : Nat) (hc : c ∈ cols) :
    cols[p.localIndex c]? = some c := by
  obtain ⟨i, h1, h2⟩ := lookup_zipIdx cols hn 0 c hc
  have : (p.idx.lookup c).map (fun e => e.2) = some (0 + i) := by
    rw [← lookup_map_snd (fun e : Nat × Nat => e.2) p.idx c, hidx]; exact h1
  unfold CommPattern.localIndex
  cases hl : p.idx.lookup c with
  | none => rw [hl] at this; simp at this
  | some e =>
    rw [hl] at this
    simp only [Option.map_some, Option.some.injEq] at this
    simp only; rw [this]; simpa using h2

/-! ### the ghost exchange -/
section exchange
variable {K : Type} [Zero K]

theorem vecPart_getD (x : Vec K) (part : List Nat) (d c : Nat) (h : IsOwner part c d) (hx : part.sum ≤ x.size) :
    (vecPart x part d).getD (c - dom part d) 0 = x.getD c 0 := by
  unfold vecPart
  have h2 : dom part (d + 1) ≤ x.size := Nat.le_trans (dom_le_sum part h.1) hx
  rw [Array.getD_eq_getD_getElem?, Array.getD_eq_getD_getElem?, Array.getElem?_extract]
  have := h.2.1; have := h.2.2
  rw [if_pos (by rw [Nat.min_eq_left h2]; omega)]
  congr 2; omega

omit [Zero K] in
theorem splitVec_getD (x : Vec K) (part : List Nat) (d : Nat) (h : d < part.length) :
    (splitVec x part).getD d #[] = vecPart x part d := by
  unfold splitVec; exact getD_map_range _ _ _ _ h

/-- **the receive buffer of rank `r` holds, slot by slot, the entries of the global vector at the rank's sorted
remote columns** — whatever order the messages arrive in: each message is addressed by its neighbour -/
theorem exchange_eq (part : List Nat) (rems : List (List Nat)) (h : RemsOK part rems) (x : Vec K)
    (hx : part.sum ≤ x.size) (r : Nat) (hr : r < part.length) :
    exchange (commPatterns part rems) (splitVec x part) r = (remColsOf rems r).map (fun c => x.getD c 0) := by
  obtain ⟨_, _, p3, _, _, _⟩ := pattern_getD part rems h r hr
  have hlt : ∀ c ∈ remColsOf rems r, c < part.sum := fun c hc => h.lt r c ((mem_sortUnique c _).1 hc)
  unfold exchange
  rw [p3, List.flatMap_map]
  have hseg : ∀ d ∈ (List.range part.length).filter (fun d => (request part rems r d).length ≠ 0),
      ((valMsgs ((commPatterns part rems).getD d default) ((splitVec x part).getD d #[])).lookup r).getD []
        = (request part rems r d).map (fun c => x.getD c 0) := by
    intro d hd
    obtain ⟨hd1, hd2⟩ := List.mem_filter.1 hd
    have hdl := List.mem_range.1 hd1
    obtain ⟨_, _, _, _, _, q6⟩ := pattern_getD part rems h d hdl
    unfold valMsgs
    rw [q6, List.map_map]
    have : ((fun nc : Nat × List Nat => (nc.1, nc.2.map (fun c => ((splitVec x part).getD d #[]).getD c 0))) ∘
        (fun d' => (d', (request part rems d' d).map (· - dom part d))))
        = fun d' => (d', ((request part rems d' d).map (· - dom part d)).map
            (fun c => ((splitVec x part).getD d #[]).getD c 0)) := rfl
    rw [this, lookup_map_key, if_pos (List.mem_filter.2 ⟨List.mem_range.2 hr, hd2⟩)]
    simp only [Option.getD_some, List.map_map]
    apply List.map_congr_left
    intro c hc
    obtain ⟨hc1, hc2⟩ := List.mem_filter.1 hc
    have hown : IsOwner part c d := by
      have := isOwner_ownerOf part c (hlt c hc1)
      have e : ownerOf part c = d := by simpa using hc2
      rw [e] at this; exact this
    simp only [Function.comp]
    rw [splitVec_getD x part d hdl]
    exact vecPart_getD x part d c hown hx
  rw [List.flatMap_congr hseg]
  have e2 : ((List.range part.length).filter (fun d => (request part rems r d).length ≠ 0)).flatMap
        (fun d => (request part rems r d).map (fun c => x.getD c 0))
      = ((List.range part.length).flatMap (fun d => request part rems r d)).map (fun c => x.getD c 0) := by
    rw [flatMap_filter_of_nil, List.map_flatMap]
    intro d _ hp
    have : (request part rems r d).length = 0 := by simpa using hp
    rw [List.length_eq_zero_iff.1 this]; rfl
  rw [e2]
  congr 1
  unfold request
  apply flatMap_classes (fun c => ownerOf part c) (List.range part.length) (remColsOf rems r)
  · exact range_pairwise_lt _
  · exact (sortUnique_sorted _).imp_of_mem (fun {a b} ha hb hab =>
      owner_mono (isOwner_ownerOf part a (hlt a ha)) (isOwner_ownerOf part b (hlt b hb)) (Nat.le_of_lt hab))
  · intro c hc; exact List.mem_range.2 (isOwner_ownerOf part c (hlt c hc)).1

end exchange

/-! ### the pattern is complete and consistent -/

theorem remColsOf_lt (part : List Nat) (rems : List (List Nat)) (h : RemsOK part rems) (r : Nat) :
    ∀ c ∈ remColsOf rems r, c < part.sum := fun c hc => h.lt r c ((mem_sortUnique c _).1 hc)

theorem request_owner (part : List Nat) (rems : List (List Nat)) (h : RemsOK part rems) (r d : Nat) :
    ∀ c ∈ request part rems r d, IsOwner part c d := by
  intro c hc
  obtain ⟨hc1, hc2⟩ := List.mem_filter.1 hc
  have := isOwner_ownerOf part c (remColsOf_lt part rems h r c hc1)
  have e : ownerOf part c = d := by simpa using hc2
  rw [e] at this; exact this

/-- the receive segments tile the receive buffer: their concatenation is `rem_cols` -/
theorem recv_tiles (part : List Nat) (rems : List (List Nat)) (h : RemsOK part rems) (r : Nat) (hr : r < part.length) :
    ((commPatterns part rems).getD r default).recv.flatMap (·.2) = remColsOf rems r := by
  obtain ⟨_, _, p3, _, _, _⟩ := pattern_getD part rems h r hr
  have hlt := remColsOf_lt part rems h r
  rw [p3, List.flatMap_map]
  simp only
  rw [flatMap_filter_of_nil]
  · unfold request
    apply flatMap_classes (fun c => ownerOf part c) (List.range part.length) (remColsOf rems r)
    · exact range_pairwise_lt _
    · exact (sortUnique_sorted _).imp_of_mem (fun {a b} ha hb hab =>
        owner_mono (isOwner_ownerOf part a (hlt a ha)) (isOwner_ownerOf part b (hlt b hb)) (Nat.le_of_lt hab))
    · intro c hc; exact List.mem_range.2 (isOwner_ownerOf part c (hlt c hc)).1
  · intro d _ hp
    have : (request part rems r d).length = 0 := by simpa using hp
    exact List.length_eq_zero_iff.1 this

/-- every receive segment is non-empty, has the posted length `rcounts[d]`, and consists of columns owned by its
neighbour; the neighbour list is strictly increasing -/
theorem recv_segments (part : List Nat) (rems : List (List Nat)) (h : RemsOK part rems) (r : Nat) (hr : r < part.length) :
    let p := (commPatterns part rems).getD r default
    (p.recv.map (·.1)).Pairwise (· < ·) ∧
    ∀ ds ∈ p.recv, ds.1 < part.length ∧ ds.2 ≠ [] ∧ ds.2.length = p.rcounts.getD ds.1 0 ∧ ∀ c ∈ ds.2, IsOwner part c ds.1 := by
  obtain ⟨_, p2, p3, _, _, _⟩ := pattern_getD part rems h r hr
  simp only
  rw [p3]
  refine ⟨?_, ?_⟩
  · rw [List.map_map]
    have : ((fun ds : Nat × List Nat => ds.1) ∘ fun d => (d, request part rems r d)) = id := rfl
    rw [this, List.map_id]
    exact (range_pairwise_lt _).filter _
  · intro ds hds
    obtain ⟨d, hd, rfl⟩ := List.mem_map.1 hds
    obtain ⟨hd1, hd2⟩ := List.mem_filter.1 hd
    refine ⟨List.mem_range.1 hd1, ?_, (p2 d).symm, request_owner part rems h r d⟩
    intro e
    have e' : request part rems r d = [] := e
    simp [e'] at hd2

/-- what rank `d` sends to rank `r` is exactly what `r` requested from `d`, in `d`'s local numbering, and the
posted send count is the length of that request -/
theorem send_matches_recv (part : List Nat) (rems : List (List Nat)) (h : RemsOK part rems) (r d : Nat)
    (hr : r < part.length) (hd : d < part.length) :
    ((commPatterns part rems).getD d default).send.lookup r
      = (((commPatterns part rems).getD r default).recv.lookup d).map (·.map (· - dom part d))
    ∧ ((commPatterns part rems).getD d default).scounts.getD r 0
      = ((commPatterns part rems).getD r default).rcounts.getD d 0 := by
  obtain ⟨_, p2, p3, _, _, _⟩ := pattern_getD part rems h r hr
  obtain ⟨_, _, _, _, q5, q6⟩ := pattern_getD part rems h d hd
  refine ⟨?_, by rw [q5 r hr, p2 d]⟩
  rw [q6, p3, lookup_map_key, lookup_map_key]
  by_cases hz : (request part rems r d).length ≠ 0
  · rw [if_pos (List.mem_filter.2 ⟨List.mem_range.2 hr, by simpa using hz⟩),
      if_pos (List.mem_filter.2 ⟨List.mem_range.2 hd, by simpa using hz⟩)]
    rfl
  · rw [if_neg (fun hm => hz (by simpa using (List.mem_filter.1 hm).2)),
      if_neg (fun hm => hz (by simpa using (List.mem_filter.1 hm).2))]
    rfl

end Amgcl.Dist
