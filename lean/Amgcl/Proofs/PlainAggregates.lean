import Amgcl.Model.PlainAggregates
import Mathlib.Algebra.BigOperators.Group.Finset.Basic
import Mathlib.Data.Finset.Card
import Mathlib.Tactic.Linarith
/-!
Helper lemmas for `plain_aggregates`: the greedy pass only ever overwrites non-removed entries with the current
aggregate number (`Upd`), the loop invariant of `aggregateIds`, and the renumbering (`renumber`) as the rank
function of the used aggregate numbers.
-/
namespace Amgcl
namespace Coarsening

theorem getD_set {α} (a : Array α) (i j : Nat) (v d : α) :
    (a.setIfInBounds i v).getD j d = if i = j ∧ i < a.size then v else a.getD j d := by
  simp only [Array.getD_eq_getD_getElem?, Array.getElem?_setIfInBounds]
  by_cases h : i = j
  · subst h
    by_cases h2 : i < a.size <;> simp [h2]
  · simp [h]

/-- `id'` arises from `id` by overwriting some entries that are not `removed` with `cur` -/
def Upd (cur : Int) (id id' : Array Int) : Prop :=
  id'.size = id.size ∧ ∀ j, id'.getD j 0 = id.getD j 0 ∨ (id'.getD j 0 = cur ∧ id.getD j 0 ≠ -2)

theorem Upd.refl (cur : Int) (id : Array Int) : Upd cur id id := ⟨rfl, fun _ => Or.inl rfl⟩

theorem Upd.trans {cur : Int} {a b c : Array Int} (h1 : Upd cur a b) (h2 : Upd cur b c) :
    Upd cur a c := by
  refine ⟨h2.1.trans h1.1, fun j => ?_⟩
  rcases h2.2 j with h | ⟨h, hb⟩
  · rw [h]; exact h1.2 j
  · rcases h1.2 j with h' | ⟨h', ha⟩
    · right; exact ⟨h, by rw [← h']; exact hb⟩
    · right; exact ⟨h, ha⟩

theorem Upd.set {cur : Int} (id : Array Int) (c : Nat) (h : id.getD c 0 ≠ -2) :
    Upd cur id (id.setIfInBounds c cur) := by
  refine ⟨by simp, fun j => ?_⟩
  rw [getD_set]
  by_cases hj : c = j ∧ c < id.size
  · rw [if_pos hj]; right; exact ⟨rfl, by rw [← hj.1]; exact h⟩
  · rw [if_neg hj]; left; rfl

/-- the `removed` set is invariant under `Upd` -/
theorem Upd.removed_iff {cur : Int} (hc : cur ≠ -2) {a b : Array Int} (h : Upd cur a b) (j : Nat) :
    b.getD j 0 = -2 ↔ a.getD j 0 = -2 := by
  rcases h.2 j with h' | ⟨h', ha⟩
  · rw [h']
  · constructor
    · intro hb; rw [h'] at hb; exact absurd hb hc
    · intro h2; exact absurd h2 ha

theorem Upd.cur_stays {cur : Int} {a b : Array Int} (h : Upd cur a b) (j : Nat) (hj : a.getD j 0 = cur) :
    b.getD j 0 = cur := by
  rcases h.2 j with h' | ⟨h', _⟩
  · rw [h', hj]
  · exact h'

/-! ### ring 1 -/

theorem ring1_step_upd (cur : Int) (st : Array Int × Array Nat) (cs : Nat × Bool) :
    Upd cur st.1 (if cs.2 && st.1.getD cs.1 0 != aggrRemoved then (st.1.setIfInBounds cs.1 cur, st.2.push cs.1) else st).1 := by
  by_cases h : (cs.2 && st.1.getD cs.1 0 != aggrRemoved) = true
  · rw [if_pos h]
    simp only [Bool.and_eq_true, bne_iff_ne, ne_eq] at h
    exact Upd.set _ _ h.2
  · rw [if_neg h]; exact Upd.refl _ _

theorem ring1_spec (cur : Int) (hc : cur ≠ -2) (r : List (Nat × Bool)) (st : Array Int × Array Nat) :
    Upd cur st.1 (ring1 cur r st).1 ∧
    (∀ cs ∈ r, cs.2 = true → st.1.getD cs.1 0 ≠ -2 → cs.1 < st.1.size → (ring1 cur r st).1.getD cs.1 0 = cur) := by
  induction r generalizing st with
  | nil => exact ⟨Upd.refl _ _, by simp⟩
  | cons hd t ih =>
    unfold ring1
    rw [List.foldl_cons]
    set st1 := (if hd.2 && st.1.getD hd.1 0 != aggrRemoved then (st.1.setIfInBounds hd.1 cur, st.2.push hd.1) else st) with hst1
    have hu1 : Upd cur st.1 st1.1 := ring1_step_upd cur st hd
    have ih' := ih st1
    unfold ring1 at ih'
    refine ⟨Upd.trans hu1 ih'.1, ?_⟩
    intro cs hcs hs hne hlt
    rcases List.mem_cons.1 hcs with rfl | hmem
    · -- the head entry: set now, stays `cur`
      have h1 : st1.1.getD cs.1 0 = cur := by
        have hcond : (cs.2 && st.1.getD cs.1 0 != aggrRemoved) = true := by
          simp only [Bool.and_eq_true, bne_iff_ne, ne_eq]; exact ⟨hs, hne⟩
        rw [hst1, if_pos hcond]
        simp only
        rw [getD_set]; simp [hlt]
      exact Upd.cur_stays ih'.1 _ h1
    · have hne1 : st1.1.getD cs.1 0 ≠ -2 := by
        intro h; exact hne ((Upd.removed_iff hc hu1 _).1 h)
      exact ih'.2 cs hmem hs hne1 (by rw [hu1.1]; exact hlt)

/-! ### ring 2 -/

/-- `id'` arises from `id` by overwriting some `undefined` entries with `cur` -/
def Upd2 (cur : Int) (id id' : Array Int) : Prop :=
  id'.size = id.size ∧ ∀ j, id'.getD j 0 = id.getD j 0 ∨ (id'.getD j 0 = cur ∧ id.getD j 0 = -1)

theorem Upd2.refl (cur : Int) (id : Array Int) : Upd2 cur id id := ⟨rfl, fun _ => Or.inl rfl⟩

theorem Upd2.trans {cur : Int} (hc : cur ≠ -1) {a b c : Array Int} (h1 : Upd2 cur a b) (h2 : Upd2 cur b c) :
    Upd2 cur a c := by
  refine ⟨h2.1.trans h1.1, fun j => ?_⟩
  rcases h2.2 j with h | ⟨h, hb⟩
  · rw [h]; exact h1.2 j
  · rcases h1.2 j with h' | ⟨h', _⟩
    · right; exact ⟨h, by rw [← h']; exact hb⟩
    · exact absurd (h'.symm.trans hb) hc

theorem Upd2.toUpd {cur : Int} {a b : Array Int} (h : Upd2 cur a b) : Upd cur a b :=
  ⟨h.1, fun j => (h.2 j).imp id (fun ⟨h1, h2⟩ => ⟨h1, by rw [h2]; decide⟩)⟩

theorem ring2Row_upd2 (cur : Int) (hc : cur ≠ -1) (r : List (Nat × Bool)) (id : Array Int) :
    Upd2 cur id (ring2Row cur r id) := by
  induction r generalizing id with
  | nil => exact Upd2.refl _ _
  | cons hd t ih =>
    unfold ring2Row
    rw [List.foldl_cons]
    have h1 : Upd2 cur id (if hd.2 && id.getD hd.1 0 == aggrUndefined then id.setIfInBounds hd.1 cur else id) := by
      by_cases h : (hd.2 && id.getD hd.1 0 == aggrUndefined) = true
      · rw [if_pos h]
        simp only [Bool.and_eq_true, beq_iff_eq] at h
        refine ⟨by simp, fun j => ?_⟩
        rw [getD_set]
        by_cases hj : hd.1 = j ∧ hd.1 < id.size
        · rw [if_pos hj]; right; exact ⟨rfl, by rw [← hj.1]; exact h.2⟩
        · rw [if_neg hj]; left; rfl
      · rw [if_neg h]; exact Upd2.refl _ _
    have := ih (if hd.2 && id.getD hd.1 0 == aggrUndefined then id.setIfInBounds hd.1 cur else id)
    unfold ring2Row at this
    exact Upd2.trans hc h1 this

theorem ring2_upd2 (G : SGraph) (cur : Int) (hc : cur ≠ -1) (neib : Array Nat) (id : Array Int) :
    Upd2 cur id (ring2 G cur neib id) := by
  unfold ring2
  rw [← Array.foldl_toList]
  generalize neib.toList = l
  induction l generalizing id with
  | nil => exact Upd2.refl _ _
  | cons c t ih =>
    rw [List.foldl_cons]
    exact Upd2.trans hc (ring2Row_upd2 cur hc _ id) (ih _)

/-! ### one step of the greedy loop -/

theorem aggrStep_skip (G : SGraph) (st : Nat × Array Int) (i : Nat) (h : st.2.getD i 0 ≠ -1) :
    aggrStep G st i = st := by
  unfold aggrStep
  rw [if_pos]
  simpa [aggrUndefined] using h

theorem aggrStep_seed (G : SGraph) (st : Nat × Array Int) (i : Nat) (h : st.2.getD i 0 = -1) :
    aggrStep G st i =
      (st.1 + 1, ring2 G (st.1 : Int) (ring1 (st.1 : Int) (G.row i) (st.2.setIfInBounds i (st.1 : Int), #[])).2
        (ring1 (st.1 : Int) (G.row i) (st.2.setIfInBounds i (st.1 : Int), #[])).1) := by
  unfold aggrStep
  rw [if_neg]
  simp [aggrUndefined, h]

theorem natCast_ne_neg (n : Nat) (k : Nat) : (n : Int) ≠ -((k : Int) + 1) := by omega

theorem aggrStep_seed_upd (G : SGraph) (st : Nat × Array Int) (i : Nat) (h : st.2.getD i 0 = -1) :
    Upd (st.1 : Int) st.2 (aggrStep G st i).2 ∧ (i < st.2.size → (aggrStep G st i).2.getD i 0 = (st.1 : Int)) := by
  rw [aggrStep_seed G st i h]
  have hc2 : (st.1 : Int) ≠ -2 := by omega
  have hc1 : (st.1 : Int) ≠ -1 := by omega
  have h0 : Upd (st.1 : Int) st.2 (st.2.setIfInBounds i (st.1 : Int)) := Upd.set _ _ (by rw [h]; decide)
  have h1 := ring1_spec (st.1 : Int) hc2 (G.row i) (st.2.setIfInBounds i (st.1 : Int), #[])
  have h2 := ring2_upd2 G (st.1 : Int) hc1
    (ring1 (st.1 : Int) (G.row i) (st.2.setIfInBounds i (st.1 : Int), #[])).2
    (ring1 (st.1 : Int) (G.row i) (st.2.setIfInBounds i (st.1 : Int), #[])).1
  refine ⟨Upd.trans (Upd.trans h0 h1.1) h2.toUpd, fun hi => ?_⟩
  apply Upd.cur_stays h2.toUpd
  apply Upd.cur_stays h1.1
  simp only
  rw [getD_set]; simp [hi]

/-- the loop invariant of l.162-190 -/
structure Inv (G : SGraph) (st : Nat × Array Int) : Prop where
  size : st.2.size = G.size
  removed : ∀ j, j < G.size → (st.2.getD j 0 = -2 ↔ G.hasStrong j = false)
  range : ∀ j, j < G.size → st.2.getD j 0 = -1 ∨ st.2.getD j 0 = -2 ∨ (0 ≤ st.2.getD j 0 ∧ st.2.getD j 0 < (st.1 : Int))

theorem initIds_getD (G : SGraph) (j : Nat) (hj : j < G.size) :
    (initIds G).getD j 0 = if G.hasStrong j then -1 else -2 := by
  unfold initIds SGraph.hasStrong SGraph.row
  have : G.getD j [] = G[j] := by simp [Array.getD_eq_getD_getElem?, hj]
  rw [this]
  simp [Array.getD_eq_getD_getElem?, hj, aggrUndefined, aggrRemoved]

theorem inv_init (G : SGraph) : Inv G (0, initIds G) := by
  refine ⟨by simp [initIds], fun j hj => ?_, fun j hj => ?_⟩
  · simp only [initIds_getD G j hj]
    cases G.hasStrong j <;> simp
  · simp only [initIds_getD G j hj]
    cases G.hasStrong j <;> simp

theorem inv_step (G : SGraph) (st : Nat × Array Int) (i : Nat) (h : Inv G st) :
    Inv G (aggrStep G st i) ∧ (∀ j, st.2.getD j 0 ≠ -1 → (aggrStep G st i).2.getD j 0 ≠ -1) ∧
    (i < G.size → (aggrStep G st i).2.getD i 0 ≠ -1) := by
  by_cases hs : st.2.getD i 0 = -1
  · obtain ⟨hu, hi⟩ := aggrStep_seed_upd G st i hs
    have hc2 : (st.1 : Int) ≠ -2 := by omega
    have h1 : (aggrStep G st i).1 = st.1 + 1 := by rw [aggrStep_seed G st i hs]
    refine ⟨⟨by rw [hu.1]; exact h.size, fun j hj => ?_, fun j hj => ?_⟩, fun j hj => ?_, fun hi' => ?_⟩
    · rw [Upd.removed_iff hc2 hu j]; exact h.removed j hj
    · rw [h1]
      rcases hu.2 j with h' | ⟨h', _⟩
      · rw [h']
        rcases h.range j hj with a | a | ⟨a, b⟩
        · exact Or.inl a
        · exact Or.inr (Or.inl a)
        · exact Or.inr (Or.inr ⟨a, by push_cast; omega⟩)
      · rw [h']; exact Or.inr (Or.inr ⟨by omega, by push_cast; omega⟩)
    · rcases hu.2 j with h' | ⟨h', _⟩
      · rw [h']; exact hj
      · rw [h']; omega
    · rw [hi (by rw [h.size]; exact hi')]; omega
  · rw [aggrStep_skip G st i hs]
    exact ⟨h, fun _ hj => hj, fun _ => hs⟩

theorem loop_inv (G : SGraph) (k : Nat) (hk : k ≤ G.size) :
    Inv G ((List.range k).foldl (aggrStep G) (0, initIds G)) ∧
    ∀ j, j < k → ((List.range k).foldl (aggrStep G) (0, initIds G)).2.getD j 0 ≠ -1 := by
  induction k with
  | zero => exact ⟨inv_init G, fun j hj => absurd hj (Nat.not_lt_zero j)⟩
  | succ k ih =>
    rw [List.range_succ, List.foldl_append, List.foldl_cons, List.foldl_nil]
    obtain ⟨hinv, hdone⟩ := ih (by omega)
    obtain ⟨h1, h2, h3⟩ := inv_step G _ k hinv
    refine ⟨h1, fun j hj => ?_⟩
    rcases Nat.lt_succ_iff_lt_or_eq.1 hj with hlt | rfl
    · exact h2 j (hdone j hlt)
    · exact h3 (by omega)

/-- state after the greedy pass: removed exactly the rows without strong entry, all others numbered below `count` -/
theorem aggregateIds_spec (G : SGraph) :
    (aggregateIds G).2.size = G.size ∧
    ∀ j, j < G.size →
      (G.hasStrong j = false → (aggregateIds G).2.getD j 0 = -2) ∧
      (G.hasStrong j = true → 0 ≤ (aggregateIds G).2.getD j 0 ∧ (aggregateIds G).2.getD j 0 < ((aggregateIds G).1 : Int)) := by
  obtain ⟨hinv, hdone⟩ := loop_inv G G.size (Nat.le_refl _)
  unfold aggregateIds
  refine ⟨hinv.size, fun j hj => ⟨fun hs => (hinv.removed j hj).2 hs, fun hs => ?_⟩⟩
  rcases hinv.range j hj with a | a | a
  · exact absurd a (hdone j hj)
  · have := (hinv.removed j hj).1 a; rw [hs] at this; exact absurd this (by decide)
  · exact a

/-! ### two nodes share a number (for `count < n`) -/

theorem row_mem_toList (G : SGraph) (i : Nat) (hi : i < G.size) : G.row i ∈ G.toList := by
  unfold SGraph.row
  have : G.getD i [] = G[i] := by simp [Array.getD_eq_getD_getElem?, hi]
  rw [this]
  exact Array.mem_toList_iff.2 (Array.getElem_mem hi)

def HasPair (n : Nat) (id : Array Int) : Prop :=
  ∃ s c, s < n ∧ c < n ∧ s ≠ c ∧ id.getD s 0 = id.getD c 0 ∧ 0 ≤ id.getD s 0

theorem pair_step (G : SGraph) (hwf : G.WF) (hod : G.OffDiag) (hall : ∀ j, j < G.size → G.hasStrong j = true)
    (st : Nat × Array Int) (i : Nat) (hi : i < G.size) (h : Inv G st)
    (hp : 0 < st.1 → HasPair G.size st.2) :
    0 < (aggrStep G st i).1 → HasPair G.size (aggrStep G st i).2 := by
  by_cases hs : st.2.getD i 0 = -1
  · intro _
    -- a strong off-diagonal neighbour of the seed
    have hsi := hall i hi
    unfold SGraph.hasStrong at hsi
    obtain ⟨cs, hcs, hcs2⟩ := List.any_eq_true.1 hsi
    have hne : cs.1 ≠ i := hod i cs hcs hcs2
    have hlt : cs.1 < G.size := hwf _ (row_mem_toList G i hi) cs hcs
    have hc2 : (st.1 : Int) ≠ -2 := by omega
    have hc1 : (st.1 : Int) ≠ -1 := by omega
    have hnr : st.2.getD cs.1 0 ≠ -2 := by
      intro hx
      have := (h.removed cs.1 hlt).1 hx
      rw [hall cs.1 hlt] at this; exact absurd this (by decide)
    have h1 := ring1_spec (st.1 : Int) hc2 (G.row i) (st.2.setIfInBounds i (st.1 : Int), #[])
    have h2 := ring2_upd2 G (st.1 : Int) hc1
      (ring1 (st.1 : Int) (G.row i) (st.2.setIfInBounds i (st.1 : Int), #[])).2
      (ring1 (st.1 : Int) (G.row i) (st.2.setIfInBounds i (st.1 : Int), #[])).1
    have hseed := (aggrStep_seed_upd G st i hs).2 (by rw [h.size]; exact hi)
    have hnb : (aggrStep G st i).2.getD cs.1 0 = (st.1 : Int) := by
      rw [aggrStep_seed G st i hs]
      apply Upd.cur_stays h2.toUpd
      apply h1.2 cs hcs hcs2
      · simp only; rw [getD_set]
        have : ¬ (i = cs.1 ∧ i < st.2.size) := fun hx => hne hx.1.symm
        rw [if_neg this]; exact hnr
      · simp only [Array.size_setIfInBounds]; rw [h.size]; exact hlt
    exact ⟨i, cs.1, hi, hlt, fun hx => hne hx.symm, by rw [hseed, hnb], by rw [hseed]; omega⟩
  · rw [aggrStep_skip G st i hs]; exact hp

theorem loop_pair (G : SGraph) (hwf : G.WF) (hod : G.OffDiag) (hall : ∀ j, j < G.size → G.hasStrong j = true)
    (k : Nat) (hk : k ≤ G.size) :
    0 < ((List.range k).foldl (aggrStep G) (0, initIds G)).1 →
      HasPair G.size ((List.range k).foldl (aggrStep G) (0, initIds G)).2 := by
  induction k with
  | zero => intro h; exact absurd h (by simp)
  | succ k ih =>
    rw [List.range_succ, List.foldl_append, List.foldl_cons, List.foldl_nil]
    exact pair_step G hwf hod hall _ k (by omega) (loop_inv G k (by omega)).1 (ih (by omega))

end Coarsening
end Amgcl
