import Amgcl.Proofs.KernelsMisc
import Mathlib.LinearAlgebra.Matrix.Gershgorin
import Mathlib.Analysis.RCLike.Basic
import Mathlib.Data.Real.Basic
import Mathlib.Algebra.Order.BigOperators.Group.Finset
import Mathlib.Tactic.Positivity
/-!
# C08b — `spectral_radius<scale>(A, 0)`: the Gershgorin branch

Arithmetic core (any linearly ordered field, in particular `ℚ`, at which the model is executed, and
`ℝ`): `gershgorin false A` is the maximal absolute row sum of the STORED entries,
`gershgorin true A` the maximum of the absolute row sums scaled by `|1 / dia|`, `dia` being the LAST
stored diagonal entry of the row (provided every row stores one; otherwise the C++ code re-uses the
`dia` of the previous row).

Eigenvalue bound (`ℝ`, eigenvalues in `ℝ` or `ℂ`): every eigenvalue `μ` of the denoted matrix
satisfies `‖μ‖ ≤ gershgorin false A`, every eigenvalue of `D⁻¹ A` satisfies `‖μ‖ ≤ gershgorin true A`.
-/
namespace Amgcl.K2
open Amgcl

/-! ## arithmetic core -/

section core
variable {K : Type} [Field K] [LinearOrder K] [IsStrictOrderedRing K]

theorem absK_eq_abs (x : K) : absK x = |x| := by
  unfold absK
  split
  · next h => exact (abs_of_neg h).symm
  · next h => exact (abs_of_nonneg (not_lt.1 h)).symm

omit [Field K] [IsStrictOrderedRing K] in
theorem maxK_eq_max (a b : K) : maxK a b = max a b := by
  unfold maxK
  split
  · next h => exact (max_eq_right (le_of_lt h)).symm
  · next h => exact (max_eq_left (not_lt.1 h)).symm

/-- sum of the absolute values of the stored entries of a row -/
def absRowSum (r : Row K) : K := (r.map (fun cv => |cv.2|)).sum

/-- value of the LAST stored entry of `r` with column `i` (`d0` if there is none): what the inner loop of
`spectral_radius` leaves in `dia` -/
def lastDiag {K : Type} (i : Nat) (r : Row K) (d0 : K) : K :=
  r.foldl (fun d cv => if cv.1 = i then cv.2 else d) d0

omit [Field K] [LinearOrder K] [IsStrictOrderedRing K] in
theorem lastDiag_cons (i : Nat) (cv : Nat × K) (t : Row K) (d0 : K) :
    lastDiag i (cv :: t) d0 = lastDiag i t (if cv.1 = i then cv.2 else d0) := rfl

omit [Field K] [LinearOrder K] [IsStrictOrderedRing K] in
theorem lastDiag_append (i : Nat) (r s : Row K) (d0 : K) :
    lastDiag i (r ++ s) d0 = lastDiag i s (lastDiag i r d0) := by
  unfold lastDiag; rw [List.foldl_append]

omit [Field K] [LinearOrder K] [IsStrictOrderedRing K] in
theorem lastDiag_of_not_mem (i : Nat) (r : Row K) (d0 : K) (h : i ∉ r.map (·.1)) :
    lastDiag i r d0 = d0 := by
  induction r generalizing d0 with
  | nil => rfl
  | cons cv t ih =>
    simp only [List.map_cons, List.mem_cons, not_or] at h
    rw [lastDiag_cons, if_neg (fun e => h.1 e.symm), ih d0 h.2]

omit [Field K] [LinearOrder K] [IsStrictOrderedRing K] in
/-- if the row stores a diagonal entry, the incoming `dia` is irrelevant -/
theorem lastDiag_of_mem (i : Nat) (r : Row K) (d0 d1 : K) (h : i ∈ r.map (·.1)) :
    lastDiag i r d0 = lastDiag i r d1 := by
  induction r generalizing d0 d1 with
  | nil => simp at h
  | cons cv t ih =>
    rw [lastDiag_cons, lastDiag_cons]
    by_cases hc : cv.1 = i
    · rw [if_pos hc, if_pos hc]
    · rw [if_neg hc, if_neg hc]
      simp only [List.map_cons, List.mem_cons] at h
      rcases h with h | h
      · exact absurd h.symm hc
      · exact ih d0 d1 h

omit [LinearOrder K] [IsStrictOrderedRing K] in
/-- exactly one stored diagonal entry: `lastDiag` is the denoted diagonal entry -/
theorem lastDiag_eq_get (A : CRS K) (i : Nat) (d0 : K)
    (h1 : ((A.row i).filter (fun cv => decide (cv.1 = i))).length = 1) :
    lastDiag i (A.row i) d0 = A.get i i := by
  obtain ⟨pre, post, hrow, _, hq⟩ := exists_split_get A i h1
  rw [hrow, lastDiag_append, lastDiag_cons, if_pos rfl, lastDiag_of_not_mem i post _ hq]

omit [Field K] [LinearOrder K] [IsStrictOrderedRing K] in
theorem mem_cols_of_filter_length_one (r : Row K) (i : Nat)
    (h1 : (r.filter (fun cv => decide (cv.1 = i))).length = 1) : i ∈ r.map (·.1) := by
  obtain ⟨pre, v, post, hrow, _, _⟩ := exists_split_of_filter_length_one r i h1
  rw [hrow]; simp

omit [IsStrictOrderedRing K] in
theorem absRowSum_nil : absRowSum ([] : Row K) = 0 := rfl

omit [IsStrictOrderedRing K] in
theorem absRowSum_cons (cv : Nat × K) (t : Row K) : absRowSum (cv :: t) = |cv.2| + absRowSum t := by
  unfold absRowSum; rw [List.map_cons, List.sum_cons]

theorem absRowSum_nonneg (r : Row K) : 0 ≤ absRowSum r := by
  induction r with
  | nil => exact le_refl _
  | cons cv t ih => rw [absRowSum_cons]; exact add_nonneg (abs_nonneg _) ih

/-- the inner loop of `spectral_radius`: `(s, dia)` after one row -/
theorem gershgorin_inner (scaled : Bool) (i : Nat) (r : Row K) (s0 d0 : K) :
    r.foldl (fun (sd : K × K) cv =>
        (sd.1 + absK cv.2, if (scaled && decide (cv.1 = i)) = true then cv.2 else sd.2)) (s0, d0)
      = (s0 + absRowSum r, if scaled = true then lastDiag i r d0 else d0) := by
  induction r generalizing s0 d0 with
  | nil => simp [absRowSum_nil, lastDiag]
  | cons cv t ih =>
    rw [List.foldl_cons, ih, absRowSum_cons, absK_eq_abs, add_assoc, lastDiag_cons]
    cases scaled
    · simp
    · simp

end core

section maxOver
variable {K : Type} [LinearOrder K]

/-- maximum over a list of indices, starting from `m0` -/
def maxOver (f : Nat → K) (l : List Nat) (m0 : K) : K := l.foldl (fun m i => max m (f i)) m0

theorem maxOver_cons (f : Nat → K) (i : Nat) (l : List Nat) (m0 : K) :
    maxOver f (i :: l) m0 = maxOver f l (max m0 (f i)) := rfl

theorem le_maxOver (f : Nat → K) (l : List Nat) (m0 : K) : m0 ≤ maxOver f l m0 := by
  induction l generalizing m0 with
  | nil => exact le_refl _
  | cons i l ih => rw [maxOver_cons]; exact le_trans (le_max_left _ _) (ih _)

theorem le_maxOver_of_mem (f : Nat → K) (l : List Nat) (m0 : K) {i : Nat} (hi : i ∈ l) :
    f i ≤ maxOver f l m0 := by
  induction l generalizing m0 with
  | nil => cases hi
  | cons j l ih =>
    rw [maxOver_cons]
    rcases List.mem_cons.1 hi with rfl | hi
    · exact le_trans (le_max_right _ _) (le_maxOver f l _)
    · exact ih _ hi

theorem maxOver_eq (f : Nat → K) (l : List Nat) (m0 : K) :
    maxOver f l m0 = m0 ∨ ∃ i ∈ l, maxOver f l m0 = f i := by
  induction l generalizing m0 with
  | nil => exact Or.inl rfl
  | cons j l ih =>
    rw [maxOver_cons]
    rcases ih (max m0 (f j)) with h | ⟨i, hi, h⟩
    · rcases max_choice m0 (f j) with h' | h'
      · exact Or.inl (h.trans h')
      · exact Or.inr ⟨j, List.mem_cons_self, h.trans h'⟩
    · exact Or.inr ⟨i, List.mem_cons_of_mem _ hi, h⟩

/-- a maximum of non-negative numbers started from `0` is attained (non-empty index list) -/
theorem maxOver_zero_attained [Zero K] (f : Nat → K) (l : List Nat) (hf : ∀ i ∈ l, 0 ≤ f i) (hl : l ≠ []) :
    ∃ i ∈ l, maxOver f l 0 = f i := by
  rcases maxOver_eq f l 0 with h | h
  · obtain ⟨j, t, rfl⟩ := List.exists_cons_of_ne_nil hl
    refine ⟨j, List.mem_cons_self, ?_⟩
    have h1 : f j ≤ 0 := h ▸ le_maxOver_of_mem f (j :: t) 0 List.mem_cons_self
    rw [h]; exact le_antisymm (hf j List.mem_cons_self) h1
  · exact h

end maxOver

section core
variable {K : Type} [Field K] [LinearOrder K] [IsStrictOrderedRing K]

/-- the row loop, unscaled: `dia` is never touched -/
theorem gershgorin_outer_false (A : CRS K) (l : List Nat) (m0 d0 : K) :
    l.foldl (fun (acc : K × K) i =>
        let sd := (A.row i).foldl (fun (sd : K × K) cv =>
            (sd.1 + absK cv.2, if (false && decide (cv.1 = i)) = true then cv.2 else sd.2)) ((0 : K), acc.2)
        let s := if false = true then sd.1 * absK sd.2⁻¹ else sd.1
        (maxK acc.1 s, sd.2)) (m0, d0)
      = (maxOver (fun i => absRowSum (A.row i)) l m0, d0) := by
  induction l generalizing m0 with
  | nil => rfl
  | cons i l ih =>
    rw [List.foldl_cons, maxOver_cons]
    dsimp only
    rw [gershgorin_inner false i (A.row i) 0 d0, zero_add, maxK_eq_max]
    exact ih _

/-- the row loop, scaled, every visited row storing a diagonal entry: the incoming `dia` is never used -/
theorem gershgorin_outer_true (A : CRS K) (l : List Nat) (m0 d0 : K)
    (hdiag : ∀ i ∈ l, i ∈ (A.row i).map (·.1)) :
    (l.foldl (fun (acc : K × K) i =>
        let sd := (A.row i).foldl (fun (sd : K × K) cv =>
            (sd.1 + absK cv.2, if (true && decide (cv.1 = i)) = true then cv.2 else sd.2)) ((0 : K), acc.2)
        let s := if true = true then sd.1 * absK sd.2⁻¹ else sd.1
        (maxK acc.1 s, sd.2)) (m0, d0)).1
      = maxOver (fun i => absRowSum (A.row i) * |(lastDiag i (A.row i) 1)⁻¹|) l m0 := by
  induction l generalizing m0 d0 with
  | nil => rfl
  | cons i l ih =>
    rw [List.foldl_cons, maxOver_cons]
    dsimp only
    rw [gershgorin_inner true i (A.row i) 0 d0, zero_add, maxK_eq_max, absK_eq_abs]
    simp only [if_true]
    rw [lastDiag_of_mem i (A.row i) d0 1 (hdiag i List.mem_cons_self)]
    exact ih _ _ (fun j hj => hdiag j (List.mem_cons_of_mem _ hj))

/-- `spectral_radius<false>(A, 0)` is the maximal absolute row sum (of the stored entries) -/
theorem gershgorin_unscaled_eq (A : CRS K) :
    gershgorin false A = (List.range A.nrows).foldl (fun m i => max m (absRowSum (A.row i))) 0 := by
  unfold gershgorin
  dsimp only
  rw [gershgorin_outer_false A (List.range A.nrows) 0 1]
  dsimp only
  rw [if_neg (not_lt.2 (le_maxOver _ _ _))]
  rfl

theorem gershgorin_false_ge (A : CRS K) (i : Nat) (hi : i < A.nrows) :
    absRowSum (A.row i) ≤ gershgorin false A := by
  rw [gershgorin_unscaled_eq]
  exact le_maxOver_of_mem (fun i => absRowSum (A.row i)) _ 0 (List.mem_range.2 hi)

theorem gershgorin_false_nonneg (A : CRS K) : 0 ≤ gershgorin false A := by
  rw [gershgorin_unscaled_eq]
  exact le_maxOver (fun i => absRowSum (A.row i)) _ 0

theorem gershgorin_false_empty (A : CRS K) (h : A.nrows = 0) : gershgorin false A = 0 := by
  rw [gershgorin_unscaled_eq, h]; rfl

/-- the bound is attained by some row -/
theorem gershgorin_false_attained (A : CRS K) (h : 0 < A.nrows) :
    ∃ i, i < A.nrows ∧ gershgorin false A = absRowSum (A.row i) := by
  rw [gershgorin_unscaled_eq]
  obtain ⟨i, hi, he⟩ := maxOver_zero_attained (fun i => absRowSum (A.row i)) (List.range A.nrows)
    (fun i _ => absRowSum_nonneg _) (by intro e; rw [List.range_eq_nil] at e; omega)
  exact ⟨i, List.mem_range.1 hi, he⟩

/-- `spectral_radius<true>(A, 0)`, every row storing a diagonal entry: the maximum of the absolute row sums
scaled by `|1 / dia|`, `dia` the LAST stored diagonal entry of the row -/
theorem gershgorin_scaled_eq (A : CRS K) (hdiag : ∀ i < A.nrows, i ∈ (A.row i).map (·.1)) :
    gershgorin true A = (List.range A.nrows).foldl
      (fun m i => max m (absRowSum (A.row i) * |(lastDiag i (A.row i) 1)⁻¹|)) 0 := by
  unfold gershgorin
  dsimp only
  rw [gershgorin_outer_true A (List.range A.nrows) 0 1 (fun i hi => hdiag i (List.mem_range.1 hi))]
  rw [if_neg (not_lt.2 (le_maxOver _ _ _))]
  rfl

theorem gershgorin_true_ge (A : CRS K) (hdiag : ∀ i < A.nrows, i ∈ (A.row i).map (·.1))
    (i : Nat) (hi : i < A.nrows) :
    absRowSum (A.row i) * |(lastDiag i (A.row i) 1)⁻¹| ≤ gershgorin true A := by
  rw [gershgorin_scaled_eq A hdiag]
  exact le_maxOver_of_mem (fun i => absRowSum (A.row i) * |(lastDiag i (A.row i) 1)⁻¹|) _ 0
    (List.mem_range.2 hi)

theorem gershgorin_true_nonneg (A : CRS K) (hdiag : ∀ i < A.nrows, i ∈ (A.row i).map (·.1)) :
    0 ≤ gershgorin true A := by
  rw [gershgorin_scaled_eq A hdiag]
  exact le_maxOver (fun i => absRowSum (A.row i) * |(lastDiag i (A.row i) 1)⁻¹|) _ 0

theorem gershgorin_true_empty (A : CRS K) (h : A.nrows = 0) : gershgorin true A = 0 := by
  rw [gershgorin_scaled_eq A (fun i hi => by omega), h]; rfl

theorem gershgorin_true_attained (A : CRS K) (hdiag : ∀ i < A.nrows, i ∈ (A.row i).map (·.1))
    (h : 0 < A.nrows) :
    ∃ i, i < A.nrows ∧ gershgorin true A = absRowSum (A.row i) * |(lastDiag i (A.row i) 1)⁻¹| := by
  rw [gershgorin_scaled_eq A hdiag]
  obtain ⟨i, hi, he⟩ := maxOver_zero_attained
    (fun i => absRowSum (A.row i) * |(lastDiag i (A.row i) 1)⁻¹|) (List.range A.nrows)
    (fun i _ => mul_nonneg (absRowSum_nonneg _) (abs_nonneg _))
    (by intro e; rw [List.range_eq_nil] at e; omega)
  exact ⟨i, List.mem_range.1 hi, he⟩

/-- exactly one stored diagonal entry per row: the scaling factor is `|1 / a_ii|` -/
theorem gershgorin_true_ge_get (A : CRS K)
    (hdiag1 : ∀ i < A.nrows, ((A.row i).filter (fun cv => decide (cv.1 = i))).length = 1)
    (i : Nat) (hi : i < A.nrows) :
    absRowSum (A.row i) * |(A.get i i)⁻¹| ≤ gershgorin true A := by
  have := gershgorin_true_ge A (fun j hj => mem_cols_of_filter_length_one _ j (hdiag1 j hj)) i hi
  rwa [lastDiag_eq_get A i 1 (hdiag1 i hi)] at this

open Finset in
/-- dense absolute row sum ≤ stored absolute row sum (duplicates: triangle inequality) -/
theorem abs_get_sum_le (r : Row K) (m : Nat) (h : ∀ cv ∈ r, cv.1 < m) :
    ∑ j ∈ range m, |rowGet r j| ≤ absRowSum r := by
  induction r with
  | nil => simp [absRowSum_nil]
  | cons cv t ih =>
    have hcv : cv.1 < m := h cv List.mem_cons_self
    have ht : ∀ c ∈ t, c.1 < m := fun c hc => h c (List.mem_cons_of_mem _ hc)
    rw [absRowSum_cons]
    calc ∑ j ∈ range m, |rowGet (cv :: t) j|
        ≤ ∑ j ∈ range m, ((if cv.1 = j then |cv.2| else 0) + |rowGet t j|) := by
          apply sum_le_sum
          intro j _
          rw [rowGet_cons']
          refine le_trans (abs_add_le _ _) (add_le_add (le_of_eq ?_) le_rfl)
          split <;> simp
      _ = |cv.2| + ∑ j ∈ range m, |rowGet t j| := by
          rw [sum_add_distrib, sum_ite_eq, if_pos (mem_range.2 hcv)]
      _ ≤ |cv.2| + absRowSum t := add_le_add le_rfl (ih ht)

end core

/-! ## eigenvalue bounds -/

/-- the dense `n × n` matrix denoted by `A` -/
def toMatrix {K : Type} [Add K] [Zero K] (A : CRS K) (n : Nat) : Matrix (Fin n) (Fin n) K :=
  Matrix.of fun i j => A.get i.val j.val

/-- the dense `n × n` matrix `D⁻¹ A`, `D` the diagonal of the matrix denoted by `A` -/
def toScaledMatrix {K : Type} [Add K] [Zero K] [Mul K] [Inv K] (A : CRS K) (n : Nat) :
    Matrix (Fin n) (Fin n) K :=
  Matrix.of fun i j => (A.get i.val i.val)⁻¹ * A.get i.val j.val

section eigen
variable {𝕜 : Type} [RCLike 𝕜]
open Finset

/-- Gershgorin, in the form used below: a bound on all absolute row sums of a real matrix bounds the modulus of
all its (real or complex) eigenvalues. -/
theorem eigenvalue_norm_le {n : Nat} (M : Matrix (Fin n) (Fin n) ℝ) (b : ℝ)
    (hb : ∀ k, ∑ j, |M k j| ≤ b) (μ : 𝕜)
    (hμ : Module.End.HasEigenvalue (Matrix.toLin' (M.map (algebraMap ℝ 𝕜))) μ) : ‖μ‖ ≤ b := by
  obtain ⟨k, hk⟩ := eigenvalue_mem_ball hμ
  rw [mem_closedBall_iff_norm] at hk
  have hn : ∀ j, ‖(M.map (algebraMap ℝ 𝕜)) k j‖ = |M k j| := by
    intro j; rw [Matrix.map_apply, norm_algebraMap', Real.norm_eq_abs]
  calc ‖μ‖ ≤ ‖(M.map (algebraMap ℝ 𝕜)) k k‖ + ‖μ - (M.map (algebraMap ℝ 𝕜)) k k‖ :=
        norm_le_insert' _ _
    _ ≤ ‖(M.map (algebraMap ℝ 𝕜)) k k‖ + ∑ j ∈ univ.erase k, ‖(M.map (algebraMap ℝ 𝕜)) k j‖ :=
        add_le_add le_rfl hk
    _ = ∑ j, ‖(M.map (algebraMap ℝ 𝕜)) k j‖ :=
        add_sum_erase _ (fun j => ‖(M.map (algebraMap ℝ 𝕜)) k j‖) (mem_univ k)
    _ = ∑ j, |M k j| := sum_congr rfl (fun j _ => hn j)
    _ ≤ b := hb k

/-- **`spectral_radius<false>(A, 0)` bounds the spectral radius**: every real or complex (`𝕜 = ℝ` or `ℂ`)
eigenvalue `μ` of the square matrix denoted by a well-formed `A` satisfies `|μ| ≤ gershgorin false A`. -/
theorem gershgorin_bound (A : CRS ℝ) (hA : A.WF) (hsq : A.ncols = A.nrows) (μ : 𝕜)
    (hμ : Module.End.HasEigenvalue
      (Matrix.toLin' ((toMatrix A A.nrows).map (algebraMap ℝ 𝕜))) μ) :
    ‖μ‖ ≤ gershgorin false A := by
  refine eigenvalue_norm_le _ _ (fun k => ?_) μ hμ
  have h1 : ∑ j : Fin A.nrows, |toMatrix A A.nrows k j|
      = ∑ j ∈ range A.nrows, |rowGet (A.row k) j| :=
    (Finset.sum_range (fun j => |rowGet (A.row k) j|)).symm
  rw [h1]
  exact le_trans (abs_get_sum_le _ _ (fun cv hcv => hsq ▸ row_col_lt hA k hcv))
    (gershgorin_false_ge A k k.isLt)

/-- **`spectral_radius<true>(A, 0)` bounds the spectral radius of `D⁻¹ A`** if every row stores exactly one
diagonal entry.  No hypothesis `a_ii ≠ 0` is needed: with Lean's `0⁻¹ = 0` a zero diagonal entry makes both the
row of `D⁻¹ A` and the scaled row sum of the model vanish (the C++ code divides by zero there). -/
theorem gershgorin_scaled_bound (A : CRS ℝ) (hA : A.WF) (hsq : A.ncols = A.nrows)
    (hdiag1 : ∀ i < A.nrows, ((A.row i).filter (fun cv => decide (cv.1 = i))).length = 1) (μ : 𝕜)
    (hμ : Module.End.HasEigenvalue
      (Matrix.toLin' ((toScaledMatrix A A.nrows).map (algebraMap ℝ 𝕜))) μ) :
    ‖μ‖ ≤ gershgorin true A := by
  refine eigenvalue_norm_le _ _ (fun k => ?_) μ hμ
  have h1 : ∑ j : Fin A.nrows, |toScaledMatrix A A.nrows k j|
      = |(A.get k k)⁻¹| * ∑ j ∈ range A.nrows, |rowGet (A.row k) j| := by
    rw [Finset.sum_range (fun j => |rowGet (A.row k) j|), mul_sum]
    exact sum_congr rfl (fun j _ => abs_mul _ _)
  rw [h1, mul_comm]
  exact le_trans
    (mul_le_mul_of_nonneg_right
      (abs_get_sum_le _ _ (fun cv hcv => hsq ▸ row_col_lt hA k hcv)) (abs_nonneg _))
    (gershgorin_true_ge_get A hdiag1 k k.isLt)

/-- real eigenvalues, stated without the coercion -/
theorem gershgorin_bound_real (A : CRS ℝ) (hA : A.WF) (hsq : A.ncols = A.nrows) (μ : ℝ)
    (hμ : Module.End.HasEigenvalue (Matrix.toLin' (toMatrix A A.nrows)) μ) :
    |μ| ≤ gershgorin false A :=
  gershgorin_bound (𝕜 := ℝ) A hA hsq μ hμ

theorem gershgorin_scaled_bound_real (A : CRS ℝ) (hA : A.WF) (hsq : A.ncols = A.nrows)
    (hdiag1 : ∀ i < A.nrows, ((A.row i).filter (fun cv => decide (cv.1 = i))).length = 1) (μ : ℝ)
    (hμ : Module.End.HasEigenvalue (Matrix.toLin' (toScaledMatrix A A.nrows)) μ) :
    |μ| ≤ gershgorin true A :=
  gershgorin_scaled_bound (𝕜 := ℝ) A hA hsq hdiag1 μ hμ

end eigen

end Amgcl.K2
