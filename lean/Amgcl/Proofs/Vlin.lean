import Amgcl.Model.RelaxCommon
import Amgcl.Proofs.Primitives
import Amgcl.Proofs.RowGet
/-!
Linearity of the primitives with respect to `Relax.vlin a x b y = a·x + b·y` (entrywise), over a commutative ring.
These are the facts the multigrid-cycle theorems (C02) are assembled from.
-/
namespace Amgcl
open Relax

section
variable {K : Type} [CommRing K]

theorem vlin_size (a b : K) (x y : Vec K) : (vlin a x b y).size = x.size := by simp [vlin]

theorem vlin_getD (a b : K) (x y : Vec K) (i : Nat) (h : x.size = y.size) :
    (vlin a x b y).getD i 0 = a * x.getD i 0 + b * y.getD i 0 := by
  unfold vlin
  rw [getD_ofFn]
  split
  · rfl
  · next hi =>
    have h1 : x.getD i 0 = 0 := by simp [Array.getD, hi]
    have h2 : y.getD i 0 = 0 := by simp [Array.getD, show ¬ i < y.size by omega]
    simp [h1, h2]

theorem rowDot_vlin (r : Row K) (a b : K) (x y : Vec K) (h : x.size = y.size) :
    rowDot r (vlin a x b y) = a * rowDot r x + b * rowDot r y := by
  simp only [rowDot_eq_listSum]
  induction r with
  | nil => simp
  | cons cv t ih =>
    simp only [List.map_cons, List.sum_cons, ih, vlin_getD a b x y cv.1 h]
    ring

variable [DecidableEq K]
set_option linter.unusedSectionVars false

theorem residual_vlin (A : CRS K) (a b : K) (f g x y : Vec K) (hfg : f.size = g.size) (hxy : x.size = y.size)
    (hf : f.size = A.nrows) :
    residual (vlin a f b g) A (vlin a x b y) = vlin a (residual f A x) b (residual g A y) := by
  apply Vec.ext_getD (0 : K)
  · simp [residual, vlin]
  · intro i hi
    have hi' : i < A.nrows := by simpa [residual] using hi
    have hs : (residual f A x).size = (residual g A y).size := by simp [residual]
    rw [vlin_getD _ _ _ _ _ hs]
    unfold residual
    simp only [getD_ofFn_lt _ _ _ hi']
    rw [vlin_getD _ _ _ _ _ hfg, rowDot_vlin _ _ _ _ _ hxy]
    ring

theorem residual_size' (f : Vec K) (A : CRS K) (x : Vec K) : (residual f A x).size = A.nrows := by
  simp [residual]

theorem spmv_size' (α β : K) (A : CRS K) (x y : Vec K) : (spmv α A x β y).size = A.nrows := by
  unfold spmv; split <;> simp

/-- `y ← A·x` (the `β = 0` call used for the restriction) is linear in `x`, whatever the old outputs were -/
theorem spmv0_vlin (A : CRS K) (a b : K) (x y o o1 o2 : Vec K) (hxy : x.size = y.size) :
    spmv 1 A (vlin a x b y) 0 o = vlin a (spmv 1 A x 0 o1) b (spmv 1 A y 0 o2) := by
  apply Vec.ext_getD (0 : K)
  · simp [spmv_size', vlin_size]
  · intro i hi
    have hi' : i < A.nrows := by simpa [spmv_size'] using hi
    rw [vlin_getD _ _ _ _ _ (by simp [spmv_size'])]
    unfold spmv
    simp only [if_true, getD_ofFn_lt _ _ _ hi']
    rw [rowDot_vlin _ _ _ _ _ hxy]; ring

/-- `z ← A·x + z` (the `β = 1` call used for the prolongation) is jointly linear in `(x, z)` -/
theorem spmv1_vlin [Nontrivial K] (A : CRS K) (a b : K) (x y z w : Vec K) (hxy : x.size = y.size) (hzw : z.size = w.size) :
    spmv 1 A (vlin a x b y) 1 (vlin a z b w) = vlin a (spmv 1 A x 1 z) b (spmv 1 A y 1 w) := by
  have h10 : (1 : K) ≠ 0 := one_ne_zero
  apply Vec.ext_getD (0 : K)
  · simp [spmv_size', vlin_size]
  · intro i hi
    have hi' : i < A.nrows := by simpa [spmv_size'] using hi
    rw [vlin_getD _ _ _ _ _ (by simp [spmv_size'])]
    unfold spmv
    simp only [h10, if_false, getD_ofFn_lt _ _ _ hi']
    rw [rowDot_vlin _ _ _ _ _ hxy, vlin_getD _ _ _ _ _ hzw]; ring

theorem vclear_vlin (a b : K) (n : Nat) : (vclear n : Vec K) = vlin a (vclear n) b (vclear n) := by
  apply Vec.ext_getD (0 : K)
  · simp [vclear, vlin]
  · intro i _
    rw [vlin_getD _ _ _ _ _ rfl]
    have : (vclear n : Vec K).getD i 0 = 0 := by unfold vclear; rw [getD_ofFn]; split <;> rfl
    rw [this]; ring

theorem vclear_size (n : Nat) : (vclear n : Vec K).size = n := by simp [vclear]

theorem vcopy_eq (x : Vec K) : vcopy x = x := by
  apply Vec.ext_getD (0 : K) (by simp [vcopy])
  intro i hi
  have hi' : i < x.size := by simpa [vcopy] using hi
  simp [vcopy]

end
end Amgcl
