import Amgcl.Proofs.KrylovIDRsVec
/-!
# IDR(s), general `s`: every `k`-step lowers the dimension of the space that contains the residual (C05)

Subject: `Model/SolverIDRs.lean`, `s ≥ 1`, residual smoothing and residual replacement on or off, `stdIp`, `A` well formed `n × n`,
preconditioner denoting a linear map `Pl`, shadow vectors `P[0..s)` of length `n`; ANY field, ANY function `sqrt`.
`T = A Pl`, `S = {v | ⟨v,P[i]⟩ = 0, i < s}`, `G_j` the Sonneveld spaces for the `ω`'s of the run.

`KInv … j k st` — the invariant of the `for k` loop in cycle `j` before `k`-step `k`:
`r = f − A x`, `G[i] = A U[i]`; `r ∈ G_j ∩ {p_0..p_{k-1}}^⊥`; `G[i] ∈ G_j` for `i < k` (new), `G[i] ∈ G_{j-1}` for `i ≥ k` (old,
`j ≥ 1`); `f[i] = ⟨r,P[i]⟩` for `i ≥ k`; the columns `l` of `M` that have been written (`l < k`, or all of them when `j ≥ 1`) are
`M(i,l) = ⟨G[l],P[i]⟩` for `i ≥ l`, `⟨G[l],P[i]⟩ = 0` for `i < l`, `M(l,l) ≠ 0`; `iter = (s+1)j + k`;
and `dim (G_j ∩ {p_0..p_{k-1}}^⊥) + s·j + k ≤ n`.
-/
set_option linter.unusedSectionVars false
set_option linter.unusedVariables false
namespace Amgcl.Krylov
open Amgcl Amgcl.Solver Amgcl.Solver.IDRs Amgcl.Energy.Bridge Matrix Finset

section idrs
variable {K : Type} [Field K] [DecidableEq K] [LT K] [DecidableLT K]

/-- the shadow vectors as elements of `Fin n → K` -/
def pvecs (n : ℕ) (Pv : FArr (Vec K)) : ℕ → Fin n → K := fun i => vecOf n (Pv.get i)

/-- the invariant of the `for k` loop of cycle `j` -/
structure KInv (n : ℕ) (A : CRS K) (rhs : Vec K) (Pv : FArr (Vec K)) (s : ℕ)
    (T : (Fin n → K) →ₗ[K] (Fin n → K)) (ω : ℕ → K) (j k : ℕ) (st : IDRs.St K) : Prop where
  res : st.w.r = residual rhs A st.x
  gu : ∀ i, i < s → st.w.G.get i = spmv 1 A (st.w.U.get i) 0 #[] ∧ (st.w.U.get i).size = n
  rmem : vecOf n st.w.r ∈ idrSpace T (shadowK (pvecs n Pv) s) ω j ⊓ shadowK (pvecs n Pv) k
  gnew : ∀ i, i < k → vecOf n (st.w.G.get i) ∈ idrSpace T (shadowK (pvecs n Pv) s) ω j
  gold : 1 ≤ j → ∀ i, k ≤ i → i < s → vecOf n (st.w.G.get i) ∈ idrSpace T (shadowK (pvecs n Pv) s) ω (j - 1)
  fspec : ∀ i, k ≤ i → i < s → st.w.f.get i = vecOf n st.w.r ⬝ᵥ pvecs n Pv i
  mspec : ∀ l, l < s → (l < k ∨ 1 ≤ j) →
    (∀ i, i < l → vecOf n (st.w.G.get l) ⬝ᵥ pvecs n Pv i = 0) ∧
    (∀ i, l ≤ i → i < s → st.w.M.get i l = vecOf n (st.w.G.get l) ⬝ᵥ pvecs n Pv i) ∧ st.w.M.get l l ≠ 0
  om : 1 ≤ j → st.om = ω j
  omne : ∀ i, 1 ≤ i → i ≤ j → ω i ≠ 0
  iter : st.iter = (s + 1) * j + k
  dim : Module.finrank K (idrSpace T (shadowK (pvecs n Pv) s) ω j ⊓ shadowK (pvecs n Pv) k : Submodule K (Fin n → K))
    + s * j + k ≤ n

variable (n : ℕ) (A : CRS K) (hA : A.WF) (hn : A.nrows = n) (hm : A.ncols = n)
  (Prec : Vec K → Vec K) (Pl : (Fin n → K) →ₗ[K] (Fin n → K)) (hP : PDenotes n Prec Pl)
  (Pv : FArr (Vec K)) (prm : IDRs.Params K) (hPs : ∀ i, i < prm.s → (Pv.get i).size = n)
include hA hn hm hP hPs

/-- **the core of a `k`-step**: if the new pivot `M(k,k)` is non-zero, the new `G[k]` lies in `G_j`, is orthogonal to
`p_0..p_{k-1}` and not to `p_k`; the updated residual lies in `G_j ∩ {p_0..p_k}^⊥`, whose dimension is smaller by one. -/
theorem kstep_core (sqrt : K → K) (rhs : Vec K) (ω : ℕ → K) (j k : ℕ) (hks : k < prm.s) (st : IDRs.St K)
    (hi : KInv n A rhs Pv prm.s (Tl .right (matOf A n n) Pl) ω j k st)
    (hpiv : (kM prm stdIp A Prec Pv k st).get k k ≠ 0) :
    (kgu prm stdIp A Prec Pv k st).1 = spmv 1 A (kgu prm stdIp A Prec Pv k st).2 0 #[] ∧
    (kgu prm stdIp A Prec Pv k st).1.size = n ∧ (kgu prm stdIp A Prec Pv k st).2.size = n ∧
    vecOf n (kgu prm stdIp A Prec Pv k st).1 ∈ idrSpace (Tl .right (matOf A n n) Pl) (shadowK (pvecs n Pv) prm.s) ω j ∧
    (∀ i, i < k → vecOf n (kgu prm stdIp A Prec Pv k st).1 ⬝ᵥ pvecs n Pv i = 0) ∧
    (∀ i, k ≤ i → i < prm.s → (kM prm stdIp A Prec Pv k st).get i k
      = vecOf n (kgu prm stdIp A Prec Pv k st).1 ⬝ᵥ pvecs n Pv i) ∧
    Module.finrank K (idrSpace (Tl .right (matOf A n n) Pl) (shadowK (pvecs n Pv) prm.s) ω j
      ⊓ shadowK (pvecs n Pv) (k + 1) : Submodule K (Fin n → K)) + prm.s * j + (k + 1) ≤ n := by
  have hcA : ColsLt A n := by rw [← hm]; exact colsLt_of_wf A hA
  obtain ⟨ires, igu, irmem, ignew, igold, ifspec, imspec, iom, iomne, iiter, idim⟩ := hi
  set T := Tl .right (matOf A n n) Pl with hT
  set pv := pvecs n Pv with hpv
  set S := shadowK pv prm.s with hS
  have hTapp : ∀ u, T u = matOf A n n *ᵥ Pl u := fun _ => rfl
  -- sizes
  have hrs : st.w.r.size = n := by rw [ires, residual_size', hn]
  have hGs : ∀ i, i < prm.s → (st.w.G.get i).size = n := fun i hi => by rw [(igu i hi).1, spmv_size', hn]
  have hUs : ∀ i, i < prm.s → (st.w.U.get i).size = n := fun i hi => (igu i hi).2
  have hgAu : ∀ i, i < prm.s → vecOf n (st.w.G.get i) = matOf A n n *ᵥ vecOf n (st.w.U.get i) := fun i hi => by
    rw [(igu i hi).1, vecOf_spmv0 A hn hcA]
  -- the triangular solve
  obtain ⟨hvsz, hvv⟩ := solveC_v n prm.s k (Nat.le_of_lt hks) st.w (vcopy st.w.r) (by rw [vcopy_eq]; exact hrs)
    (fun l _ hl => hGs l hl)
  obtain ⟨hcrow, _⟩ := solveC_c prm.s k (Nat.le_of_lt hks) st.w (vcopy st.w.r)
  change (kv prm k st).size = n at hvsz
  change vecOf n (kv prm k st) = vecOf n (vcopy st.w.r) - ∑ l ∈ Ico k prm.s, (kc prm k st).get l • vecOf n (st.w.G.get l) at hvv
  change ∀ i, k ≤ i → i < prm.s → st.w.M.get i i ≠ 0 →
    st.w.M.get i i * (kc prm k st).get i + ∑ l ∈ Ico k i, st.w.M.get i l * (kc prm k st).get l = st.w.f.get i at hcrow
  rw [vcopy_eq] at hvv
  obtain ⟨hPv1, hPv2⟩ := hP _ hvsz
  -- `U[k]` before the bi-orthogonalisation and its image
  obtain ⟨hu1sz, hu1v⟩ := kuk1_vec n prm Prec k hks st hPv1 (fun i _ hi => hUs i hi)
  have hg0v : vecOf n (spmv 1 A (kuk1 prm Prec k st) 0 (st.w.G.get k))
      = vecOf n st.w.r - (vecOf n (kv prm k st) - st.om • T (vecOf n (kv prm k st))) := by
    rw [vecOf_spmv0 A hn hcA, hu1v, hPv2, mulVec_add, mulVec_smul, mulVec_sum, ← hTapp]
    have hsum : ∑ i ∈ Ico k prm.s, matOf A n n *ᵥ ((kc prm k st).get i • vecOf n (st.w.U.get i))
        = ∑ l ∈ Ico k prm.s, (kc prm k st).get l • vecOf n (st.w.G.get l) := by
      apply sum_congr rfl
      intro i hi
      rw [mulVec_smul, ← hgAu i (mem_Ico.mp hi).2]
    rw [hsum, hvv]; abel
  -- `G[k]` before the bi-orthogonalisation lies in `G_j`
  have hg0G : vecOf n (spmv 1 A (kuk1 prm Prec k st) 0 (st.w.G.get k)) ∈ idrSpace T S ω j := by
    cases j with
    | zero => exact Submodule.mem_top
    | succ j' =>
      have hj1 : 1 ≤ j' + 1 := by omega
      have hom := iom hj1
      have hle := idrSpace_succ_le T S ω j' (fun i h1 h2 => iomne i h1 (by omega))
      have hold := igold hj1
      rw [Nat.add_sub_cancel] at hold
      -- `v ∈ G_{j'}`
      have hvG : vecOf n (kv prm k st) ∈ idrSpace T S ω j' := by
        rw [hvv]
        refine Submodule.sub_mem _ (hle irmem.1) (Submodule.sum_mem _ (fun l hl => ?_))
        exact Submodule.smul_mem _ _ (hold l (mem_Ico.mp hl).1 (mem_Ico.mp hl).2)
      -- `v ⟂ p_i`, `i < s`
      have hvS : vecOf n (kv prm k st) ∈ S := by
        intro i his
        rw [hvv, sub_dotProduct, sum_dotProduct]
        by_cases hik : i < k
        · rw [irmem.2 i hik, zero_sub, neg_eq_zero]
          apply sum_eq_zero
          intro l hl
          rw [smul_dotProduct, (imspec l (mem_Ico.mp hl).2 (Or.inr hj1)).1 i (by have := (mem_Ico.mp hl).1; omega),
            smul_zero]
        · have hki : k ≤ i := by omega
          rw [← ifspec i hki his, ← sum_Ico_consecutive _ (by omega : k ≤ i + 1) (by omega : i + 1 ≤ prm.s)]
          have hhi : ∑ l ∈ Ico (i + 1) prm.s, ((kc prm k st).get l • vecOf n (st.w.G.get l)) ⬝ᵥ pv i = 0 := by
            apply sum_eq_zero
            intro l hl
            rw [smul_dotProduct, (imspec l (mem_Ico.mp hl).2 (Or.inr hj1)).1 i (by have := (mem_Ico.mp hl).1; omega),
              smul_zero]
          have hlo : ∑ l ∈ Ico k (i + 1), ((kc prm k st).get l • vecOf n (st.w.G.get l)) ⬝ᵥ pv i
              = ∑ l ∈ Ico k (i + 1), st.w.M.get i l * (kc prm k st).get l := by
            apply sum_congr rfl
            intro l hl
            have hl1 := (mem_Ico.mp hl).1
            have hl2 := (mem_Ico.mp hl).2
            rw [smul_dotProduct, ← (imspec l (by omega) (Or.inr hj1)).2.1 i (by omega) his, smul_eq_mul, mul_comm]
          rw [hhi, hlo, add_zero, sum_Ico_succ_top hki,
            ← hcrow i hki his (imspec i his (Or.inr hj1)).2.2]
          ring
      have hstep := mem_idrSpace_succ T S ω j' _ hvG hvS
      rw [hg0v, hom]
      exact Submodule.sub_mem _ irmem.1 hstep
  -- the bi-orthogonalisation
  obtain ⟨hgsz, husz, hgG, hgorth⟩ := kgu_vec n prm A hn Prec Pv k st (idrSpace T S ω j)
    (fun i hi => hPs i (by omega)) (fun i hi => hGs i (by omega)) (fun i hi => hUs i (by omega)) hu1sz hg0G ignew
    (fun i hi => ⟨(imspec i (by omega) (Or.inl hi)).2.1 i (Nat.le_refl i) (by omega),
      (imspec i (by omega) (Or.inl hi)).2.2⟩)
    (fun i hi i' hi' => (imspec i (by omega) (Or.inl hi)).1 i' hi')
  obtain ⟨hgAu', hgu2⟩ := IDRs.kgu_spec prm stdIp A hA Prec Pv k st (Nat.le_of_lt hks)
    (fun i hi => ⟨(igu i hi).1, by rw [(igu i hi).2, hm]⟩) (by rw [hu1sz, hm])
  obtain ⟨hMk, _⟩ := IDRs.kM_spec prm stdIp A Prec Pv k (Nat.le_of_lt hks) st
  have hMcol : ∀ i, k ≤ i → i < prm.s → (kM prm stdIp A Prec Pv k st).get i k
      = vecOf n (kgu prm stdIp A Prec Pv k st).1 ⬝ᵥ pv i := by
    intro i hki his
    rw [hMk i hki his]
    exact stdIp_vecOf n _ _ hgsz (hPs i his)
  -- the dimension drops: the new `G[k]` lies in `G_j ∩ {p_0..p_{k-1}}^⊥` but is not orthogonal to `p_k`
  have hlt : idrSpace T S ω j ⊓ shadowK pv (k + 1) < idrSpace T S ω j ⊓ shadowK pv k := by
    refine lt_of_le_of_ne (inf_le_inf_left _ (shadowK_succ_le pv k)) (fun heq => ?_)
    have hmem : vecOf n (kgu prm stdIp A Prec Pv k st).1 ∈ idrSpace T S ω j ⊓ shadowK pv (k + 1) := by
      rw [heq]; exact ⟨hgG, hgorth⟩
    have h0 : vecOf n (kgu prm stdIp A Prec Pv k st).1 ⬝ᵥ pv k = 0 := hmem.2 k (Nat.lt_succ_self k)
    rw [← hMcol k (Nat.le_refl k) hks] at h0
    exact hpiv h0
  have hfin := Submodule.finrank_lt_finrank_of_lt hlt
  exact ⟨hgAu', hgsz, husz, hgG, hgorth, hMcol, by omega⟩

/-- **a `k`-step that does not `break` keeps the invariant** (`k ↦ k+1`) -/
theorem kstep_inv (sqrt : K → K) (rhs : Vec K) (epsT : K) (ω : ℕ → K) (j k : ℕ) (hks : k < prm.s) (st st1 : IDRs.St K)
    (hi : KInv n A rhs Pv prm.s (Tl .right (matOf A n n) Pl) ω j k st)
    (h : IDRs.kStep prm stdIp sqrt A Prec Pv epsT k st = .ok (st1, false)) :
    KInv n A rhs Pv prm.s (Tl .right (matOf A n n) Pl) ω j (k + 1) st1 := by
  obtain ⟨hpiv, e1⟩ := IDRs.kStep_nobreak prm stdIp sqrt A Prec Pv epsT k st st1 h
  obtain ⟨hgAu, hgsz, husz, hgG, hgorth, hMcol, hdim⟩ :=
    kstep_core n A hA hn hm Prec Pl hP Pv prm hPs sqrt rhs ω j k hks st hi hpiv
  obtain ⟨ires, igu, irmem, ignew, igold, ifspec, imspec, iom, iomne, iiter, idim⟩ := hi
  obtain ⟨_, hMother⟩ := IDRs.kM_spec prm stdIp A Prec Pv k (Nat.le_of_lt hks) st
  obtain ⟨hf1, hf2⟩ := IDRs.kf_spec prm stdIp sqrt A Prec Pv k hks st
  obtain ⟨q1, q2, q3, q4, _⟩ := IDRs.post_fields prm stdIp sqrt (kw2 prm stdIp A Prec Pv k st) (kx prm stdIp A Prec Pv k st)
  -- the fields of the new state
  have eG : st1.w.G = setF st.w.G k (kgu prm stdIp A Prec Pv k st).1 := by rw [e1]; show (kpost _ _ _ _ _ _ _ _).1.G = _; unfold kpost; rw [q2]; rfl
  have eU : st1.w.U = setF st.w.U k (kgu prm stdIp A Prec Pv k st).2 := by rw [e1]; show (kpost _ _ _ _ _ _ _ _).1.U = _; unfold kpost; rw [q3]; rfl
  have eM : st1.w.M = kM prm stdIp A Prec Pv k st := by rw [e1]; show (kpost _ _ _ _ _ _ _ _).1.M = _; unfold kpost; rw [q4]; rfl
  have er : st1.w.r = axpby (-(kbeta prm stdIp A Prec Pv k st)) (kgu prm stdIp A Prec Pv k st).1 1 st.w.r := by
    rw [e1]; show (kpost _ _ _ _ _ _ _ _).1.r = _; unfold kpost; rw [q1]; rfl
  have ef : st1.w.f = kf prm stdIp sqrt A Prec Pv k st := by rw [e1]
  have ex : st1.x = kx prm stdIp A Prec Pv k st := by rw [e1]
  have eom : st1.om = st.om := by rw [e1]
  have eit : st1.iter = st.iter + 1 := by rw [e1]
  set T := Tl .right (matOf A n n) Pl with hT
  set pv := pvecs n Pv with hpv
  set g := (kgu prm stdIp A Prec Pv k st).1 with hg
  set β := kbeta prm stdIp A Prec Pv k st with hβ
  have hrs : st.w.r.size = n := by rw [ires, residual_size', hn]
  have hrv : vecOf n st1.w.r = vecOf n st.w.r - β • vecOf n g := by
    rw [er, vecOf_axpby n _ _ _ _ hgsz, one_smul, neg_smul]; abel
  have hfk : st.w.f.get k = vecOf n st.w.r ⬝ᵥ pv k := ifspec k (Nat.le_refl k) hks
  have hβdef : β = inv1 ((kM prm stdIp A Prec Pv k st).get k k) * st.w.f.get k := rfl
  have hGget : ∀ i, st1.w.G.get i = if i = k then g else st.w.G.get i := fun i => by rw [eG, setF_get]
  refine ⟨?_, ?_, ⟨?_, ?_⟩, ?_, ?_, ?_, ?_, ?_, iomne, ?_, hdim⟩
  · -- truthfulness
    rw [er, ex, hgAu, ires]
    exact paired_update_inv rhs A hA _ _ st.x #[] (by rw [husz, hm])
  · intro i his
    rw [eG, eU, setF_get, setF_get]
    by_cases hik : i = k
    · rw [if_pos hik, if_pos hik]; exact ⟨hgAu, husz⟩
    · rw [if_neg hik, if_neg hik]; exact igu i his
  · rw [hrv]; exact Submodule.sub_mem _ irmem.1 (Submodule.smul_mem _ _ hgG)
  · intro i hi
    rw [hrv, sub_dotProduct, smul_dotProduct]
    by_cases hik : i < k
    · rw [irmem.2 i hik, hgorth i hik, smul_zero, sub_zero]
    · have : i = k := by omega
      subst this
      rw [← hfk, ← hMcol i (Nat.le_refl i) hks, hβdef]
      unfold inv1
      rw [smul_eq_mul]
      field_simp
      ring
  · intro i hi
    rw [hGget]
    by_cases hik : i = k
    · rw [if_pos hik]; exact hgG
    · rw [if_neg hik]; exact ignew i (by omega)
  · intro hj i hki his
    rw [hGget, if_neg (by omega)]
    exact igold hj i (by omega) his
  · intro i hki his
    rw [ef, hf1 i (by omega) his, hrv, sub_dotProduct, smul_dotProduct, ← ifspec i (by omega) his,
      ← hMcol i (by omega) his, smul_eq_mul]
  · intro l hls hcond
    rw [hGget, eM]
    by_cases hlk : l = k
    · subst hlk
      rw [if_pos rfl]
      exact ⟨hgorth, fun i hli his => hMcol i hli his, hpiv⟩
    · rw [if_neg hlk]
      obtain ⟨m1, m2, m3⟩ := imspec l hls (by rcases hcond with h | h; exact Or.inl (by omega); exact Or.inr h)
      refine ⟨m1, fun i hli his => ?_, ?_⟩
      · rw [hMother i l (Or.inl hlk)]; exact m2 i hli his
      · rw [hMother l l (Or.inl hlk)]; exact m3
  · intro hj; rw [eom]; exact iom hj
  · rw [eit, iiter]; ring

end idrs
end Amgcl.Krylov
