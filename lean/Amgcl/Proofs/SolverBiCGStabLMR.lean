import Amgcl.Proofs.SolverBiCGStabLTruth
import Amgcl.Proofs.SolverBiCGStabLQR
import Amgcl.Proofs.SolverArnoldi
import Mathlib.Tactic.Ring
import Mathlib.Tactic.Linarith
import Mathlib.Algebra.Order.BigOperators.Ring.Finset
/-!
The minimal-residual (MR) part of a BiCGStab(L) pass (bicgstabl.hpp:302-381).

* `polyV0_entries`: the vector the code assigns to `R[0]` is `R[0] − Σ_k Y0[1+k]·R[1+k]` (entrywise);
* `mr_minimal_of_orth`: if that vector is orthogonal to `R[1..L]` (the normal equations of the least-squares problem
  `min ‖R[0] − Σ γ_k R[k]‖`), it has the smallest norm among ALL choices of the coefficients — the competitor is the
  same code path `polyV0 L Y' R` run with arbitrary coefficients `Y'`;
* `L = 1`: `qr.solve` on the `1×1` block and the Gram matrix are computed in closed form (`qr_solve_one`, `gram_one`,
  `polyCoef_one`): `Y0[1] = ⟨R1,R0⟩ / ⟨R1,R1⟩`, which is the `omega` of BiCGStab, and the normal equation holds.
-/
namespace Amgcl.Solver.BiCGStabL
open Amgcl Amgcl.Solver Amgcl.Solver.QR Finset
set_option linter.unusedSectionVars false
set_option linter.unusedSimpArgs false
set_option linter.unusedVariables false

section alg
variable {K : Type} [Field K] [DecidableEq K] [LT K] [DecidableLT K]

theorem list_range_sum (f : Nat → K) (L : Nat) : ((List.range L).map f).sum = ∑ k ∈ range L, f k := by
  induction L with
  | zero => simp
  | succ m ih => rw [List.range_succ, List.map_append, List.sum_append, ih, Finset.sum_range_succ]; simp

/-- the vector `lin_comb(L, −Y0[1..], &R[1], one, *R[0])` writes into `R[0]`, entry by entry -/
theorem polyV0_entries {n : Nat} (L : Nat) (Y : FArr K) (R : FArr (Vec K)) (hs : ∀ i, i ≤ L → (R.get i).size = n) :
    (polyV0 L Y R).size = n ∧ ∀ i, i < n →
      (polyV0 L Y R).getD i 0 = (R.get 0).getD i 0 - ∑ k ∈ range L, Y.get (1 + k) * (R.get (1 + k)).getD i 0 := by
  have hsR1 := combList_sizes L n (fun i => (negY L Y).get (1 + i)) (fun i => R.get (1 + i))
    (fun k hk => hs (1 + k) (by omega))
  obtain ⟨r1, r2⟩ := linComb_spec n _ (R.get 0) hsR1 (hs 0 (by omega))
  refine ⟨r1, fun i hi => ?_⟩
  show (linComb _ 1 (R.get 0)).getD i 0 = _
  rw [r2 i hi, csum_combList, list_range_sum, sub_eq_add_neg, ← Finset.sum_neg_distrib]
  congr 1
  apply Finset.sum_congr rfl
  intro k hk
  have hk' := Finset.mem_range.mp hk
  show (negY L Y).get (1 + k) * _ = _
  rw [negY_get, if_pos ⟨by omega, by omega⟩]; ring

/-- `X += Σ_k Y0[1+k]·R[k]` entry by entry -/
theorem polyX_entries {n : Nat} (L : Nat) (Y : FArr K) (R : FArr (Vec K)) (X : Vec K) (hX : X.size = n)
    (hs : ∀ i, i ≤ L → (R.get i).size = n) :
    (polyX L Y R X).size = n ∧ ∀ i, i < n →
      (polyX L Y R X).getD i 0 = X.getD i 0 + ∑ k ∈ range L, Y.get (1 + k) * (R.get k).getD i 0 := by
  have hsR := combList_sizes L n (fun i => Y.get (1 + i)) R.get (fun k hk => hs k (by omega))
  obtain ⟨x1, x2⟩ := linComb_spec n _ X hsR hX
  refine ⟨x1, fun i hi => ?_⟩
  show (linComb _ 1 X).getD i 0 = _
  rw [x2 i hi, csum_combList, list_range_sum]

end alg

section ord
variable {K : Type} [Field K] [LinearOrder K] [IsStrictOrderedRing K]

/-- **normal equations ⟹ minimal residual**: if the new `R[0]` is orthogonal to `R[1..L]`, no other choice of the
polynomial coefficients gives a smaller residual -/
theorem mr_minimal_of_orth {n : Nat} (L : Nat) (Y Y' : FArr K) (R : FArr (Vec K))
    (hs : ∀ i, i ≤ L → (R.get i).size = n)
    (horth : ∀ k, k < L → stdIp (polyV0 L Y R) (R.get (1 + k)) = 0) :
    stdIp (polyV0 L Y R) (polyV0 L Y R) ≤ stdIp (polyV0 L Y' R) (polyV0 L Y' R) := by
  obtain ⟨s0, e0⟩ := polyV0_entries L Y R hs
  obtain ⟨s1, e1⟩ := polyV0_entries L Y' R hs
  rw [stdIp_eq_finsum n _ _ s0 s0, stdIp_eq_finsum n _ _ s1 s1]
  set p : Nat → K := fun i => (polyV0 L Y R).getD i 0 with hp
  set d : Nat → K := fun i => ∑ k ∈ range L, (Y.get (1 + k) - Y'.get (1 + k)) * (R.get (1 + k)).getD i 0 with hd
  have hpd : ∀ i, i < n → (polyV0 L Y' R).getD i 0 = p i + d i := by
    intro i hi
    rw [e1 i hi, hp]; simp only []; rw [e0 i hi, hd]; simp only []
    rw [show ∀ a b c : K, a - b = a - c + (c - b) from fun a b c => by ring]
    congr 1
    rw [← Finset.sum_sub_distrib]
    apply Finset.sum_congr rfl; intro k _; ring
  have hcross : ∑ i ∈ range n, p i * d i = 0 := by
    simp only [hd, Finset.mul_sum]
    rw [Finset.sum_comm]
    apply Finset.sum_eq_zero
    intro k hk
    have hk' := Finset.mem_range.mp hk
    have ho := horth k hk'
    rw [stdIp_eq_finsum n _ _ s0 (hs (1 + k) (by omega))] at ho
    have : ∑ i ∈ range n, p i * ((Y.get (1 + k) - Y'.get (1 + k)) * (R.get (1 + k)).getD i 0)
        = (Y.get (1 + k) - Y'.get (1 + k)) * ∑ i ∈ range n, (polyV0 L Y R).getD i 0 * (R.get (1 + k)).getD i 0 := by
      rw [Finset.mul_sum]; apply Finset.sum_congr rfl; intro i _; rw [hp]; ring
    rw [this, ho, mul_zero]
  have hexp : ∑ i ∈ range n, (polyV0 L Y' R).getD i 0 * (polyV0 L Y' R).getD i 0
      = ∑ i ∈ range n, p i * p i + 2 * ∑ i ∈ range n, p i * d i + ∑ i ∈ range n, d i * d i := by
    rw [Finset.mul_sum, ← Finset.sum_add_distrib, ← Finset.sum_add_distrib]
    apply Finset.sum_congr rfl
    intro i hi
    rw [hpd i (Finset.mem_range.mp hi)]; ring
  rw [hexp, hcross]
  have : 0 ≤ ∑ i ∈ range n, d i * d i := Finset.sum_nonneg (fun i _ => mul_self_nonneg _)
  linarith

theorem stdIp_self_eq_zero {n : Nat} (v w : Vec K) (hv : v.size = n) (hw : w.size = n) (h : stdIp v v = 0) :
    stdIp w v = 0 := by
  rw [stdIp_eq_finsum n _ _ hv hv] at h
  rw [stdIp_eq_finsum n _ _ hw hv]
  apply Finset.sum_eq_zero
  intro i hi
  have := (Finset.sum_eq_zero_iff_of_nonneg (fun i _ => mul_self_nonneg (v.getD i 0))).mp h i hi
  rw [mul_self_eq_zero.mp this, mul_zero]

end ord

/-! ### `L = 1` in closed form -/
section one
variable {K : Type} [Field K] [DecidableEq K] [LT K] [DecidableLT K]

/-- `qr.solve` on a `1×1` block: no reflector is generated (`order ≤ 1`), `x[0] = b[0] / r` unless `r = 0` -/
theorem qr_solve_one (sqrt : K → K) (o : Nat) (A : FArr2 K) (q : QRSt K) (b : Nat → K) (Y : FArr K) (yo : Nat) :
    (QR.solve sqrt 1 1 o A q b Y yo false).2.2.get yo
      = if A.get o o = 0 then b 0 else inv1 (A.get o o) * b 0 := by
  simp [QR.solve, QR.compute, QR.genReflector, QR.applyReflVec, List.range_succ, setF, setF2]
  split <;> simp_all

/-- the Gram matrix of `R[0], R[1]` as the code fills it (lower triangle computed, upper triangle copied) -/
theorem gram_one (ip : Vec K → Vec K → K) (R : FArr (Vec K)) (M : FArr2 K) :
    (gram ip 1 R M).get 1 1 = ip (R.get 1) (R.get 1) ∧ (gram ip 1 R M).get 0 1 = ip (R.get 1) (R.get 0) := by
  simp [gram, List.range_succ, setF2]

/-- **BiCGStab(1)**: the polynomial coefficient is `omega = ⟨R1,R0⟩ / ⟨R1,R1⟩` (`⟨R1,R0⟩` itself when `⟨R1,R1⟩ = 0`:
the zero pivot is skipped), for both settings of `convex` -/
theorem polyCoef_one (ip : Vec K → Vec K → K) (sqrt : K → K) (c07 : K) (convex : Bool) (w : Work K) :
    (polyCoef sqrt c07 1 convex { w with MZa := gram ip 1 w.R w.MZa }).Y0.get 1
      = if ip (w.R.get 1) (w.R.get 1) = 0 then ip (w.R.get 1) (w.R.get 0)
        else inv1 (ip (w.R.get 1) (w.R.get 1)) * ip (w.R.get 1) (w.R.get 0) := by
  rw [polyCoef_Y0_convex sqrt c07 1 convex _ (Or.inr rfl)]
  have := qr_solve_one sqrt 1 (gram ip 1 w.R w.MZa) w.qr
    (fun t => (mzb 1 { w with MZa := gram ip 1 w.R w.MZa }).get 0 (1 + t)) (setF w.Y0 0 (-1)) 1
  obtain ⟨g1, g2⟩ := gram_one ip w.R w.MZa
  rw [g1] at this
  rw [this]
  simp only [mzb, Nat.add_zero, Nat.le_refl, Nat.zero_le, and_self, if_true, g2]

end one

/-! ### the Gram matrix for every `L` -/
section gram
variable {K : Type} [Field K] [DecidableEq K] [LT K] [DecidableLT K]

theorem gram_inner1 (g : Nat → K) (i m : Nat) (M : FArr2 K) (a b : Nat) :
    ((List.range m).foldl (fun (M : FArr2 K) j => setF2 M i j (g j)) M).get a b
      = if a = i ∧ b < m then g b else M.get a b := by
  induction m with
  | zero => simp
  | succ k ih =>
    rw [List.range_succ, List.foldl_append]
    simp only [List.foldl_cons, List.foldl_nil, setF2_get, ih]
    by_cases h1 : a = i <;> by_cases h2 : b = k <;> by_cases h3 : b < k <;> simp [h1, h2, h3] <;> omega

theorem gram_phase1 (ip : Vec K → Vec K → K) (R : FArr (Vec K)) (m : Nat) (M : FArr2 K) (a b : Nat) :
    ((List.range m).foldl (fun (M : FArr2 K) i =>
        (List.range (i + 1)).foldl (fun (M : FArr2 K) j => setF2 M i j (ip (R.get i) (R.get j))) M) M).get a b
      = if a < m ∧ b ≤ a then ip (R.get a) (R.get b) else M.get a b := by
  induction m with
  | zero => simp
  | succ k ih =>
    rw [List.range_succ, List.foldl_append]
    simp only [List.foldl_cons, List.foldl_nil]
    rw [gram_inner1 (fun j => ip (R.get k) (R.get j)), ih]
    by_cases h1 : a = k
    · subst h1
      by_cases h2 : b ≤ a
      · rw [if_pos ⟨rfl, by omega⟩, if_pos ⟨by omega, h2⟩]
      · rw [if_neg (by omega), if_neg (by omega), if_neg (by omega)]
    · rw [if_neg (by omega)]
      by_cases h2 : a < k ∧ b ≤ a
      · rw [if_pos h2, if_pos ⟨by omega, h2.2⟩]
      · rw [if_neg h2, if_neg (by omega)]

theorem gram_inner2 (i : Nat) (l : List Nat) (hl : ∀ j ∈ l, i < j) (M : FArr2 K) (a b : Nat) :
    (l.foldl (fun (M : FArr2 K) j => setF2 (setF2 M j i (M.get j i)) i j (M.get j i)) M).get a b
      = if a = i ∧ b ∈ l then M.get b i else M.get a b := by
  induction l generalizing M with
  | nil => simp
  | cons x t ih =>
    have hx : i < x := hl x List.mem_cons_self
    rw [List.foldl_cons, ih (fun j hj => hl j (List.mem_cons_of_mem _ hj))]
    have F1 : ∀ c, i < c → (setF2 (setF2 M x i (M.get x i)) i x (M.get x i)).get c i = M.get c i := by
      intro c hc
      rw [setF2_get, if_neg (by omega), setF2_get]
      by_cases e : c = x
      · subst e; rw [if_pos ⟨rfl, rfl⟩]
      · rw [if_neg (by omega)]
    have F2 : (setF2 (setF2 M x i (M.get x i)) i x (M.get x i)).get a b
        = if a = i ∧ b = x then M.get x i else M.get a b := by
      rw [setF2_get, setF2_get]
      by_cases e : a = i ∧ b = x
      · rw [if_pos e, if_pos e]
      · rw [if_neg e, if_neg e]
        by_cases e2 : a = x ∧ b = i
        · obtain ⟨rfl, rfl⟩ := e2; rw [if_pos ⟨rfl, rfl⟩]
        · rw [if_neg e2]
    by_cases h1 : a = i
    · by_cases h2 : b ∈ t
      · rw [if_pos ⟨h1, h2⟩, if_pos ⟨h1, List.mem_cons_of_mem _ h2⟩]
        exact F1 b (hl b (List.mem_cons_of_mem _ h2))
      · rw [if_neg (fun c => h2 c.2), F2]
        by_cases h3 : b = x
        · rw [if_pos ⟨h1, h3⟩, if_pos ⟨h1, by rw [h3]; exact List.mem_cons_self⟩, h3]
        · rw [if_neg (fun c => h3 c.2), if_neg (fun c => by
            rcases List.mem_cons.mp c.2 with e | e
            · exact h3 e
            · exact h2 e)]
    · rw [if_neg (fun c => h1 c.1), if_neg (fun c => h1 c.1), F2, if_neg (fun c => h1 c.1)]

theorem gram_phase2 (L : Nat) (m : Nat) (M : FArr2 K) (a b : Nat) :
    ((List.range m).foldl (fun (M : FArr2 K) i => ((List.range (L + 1)).drop (i + 1)).foldl
        (fun (M : FArr2 K) j => setF2 (setF2 M j i (M.get j i)) i j (M.get j i)) M) M).get a b
      = if a < m ∧ a < b ∧ b ≤ L then M.get b a else M.get a b := by
  induction m generalizing a b with
  | zero => simp
  | succ k ih =>
    rw [show List.range (k + 1) = List.range k ++ [k] from List.range_succ, List.foldl_append]
    simp only [List.foldl_cons, List.foldl_nil]
    rw [gram_inner2 k _ (fun j hj => by have := (mem_range_drop_iff _ _ _).mp hj; omega)]
    simp only [mem_range_drop_iff]
    by_cases h1 : a = k ∧ (k + 1 ≤ b ∧ b < L + 1)
    · obtain ⟨rfl, h2, h3⟩ := h1
      rw [if_pos ⟨rfl, h2, h3⟩, ih, if_neg (by omega), if_pos ⟨by omega, by omega, by omega⟩]
    · rw [if_neg h1, ih]
      by_cases h2 : a < k ∧ a < b ∧ b ≤ L
      · rw [if_pos h2, if_pos ⟨by omega, h2.2.1, h2.2.2⟩]
      · rw [if_neg h2, if_neg (by omega)]

/-- **the Gram matrix as the code fills it**: `MZa(a,b) = ⟨R[max a b], R[min a b]⟩` on `(L+1)×(L+1)` -/
theorem gram_get (ip : Vec K → Vec K → K) (L : Nat) (R : FArr (Vec K)) (M : FArr2 K) (a b : Nat) (ha : a ≤ L)
    (hb : b ≤ L) :
    (gram ip L R M).get a b = if a < b then ip (R.get b) (R.get a) else ip (R.get a) (R.get b) := by
  unfold gram
  simp only []
  rw [gram_phase2]
  by_cases h : a < b
  · rw [if_pos ⟨by omega, h, hb⟩, if_pos h, gram_phase1, if_pos ⟨by omega, by omega⟩]
  · rw [if_neg (by omega), if_neg h, gram_phase1, if_pos ⟨by omega, by omega⟩]

end gram

/-! ### what the polynomial part of the model stores -/
section part
variable {K : Type} [Field K] [DecidableEq K] [LT K] [DecidableLT K]

/-- the coefficients the polynomial part of a pass started in state `st` computes -/
def passY0 (prm : Params K) (ip : Vec K → Vec K → K) (sqrt : K → K) (c07 : K) (st : St K) : FArr K :=
  (polyCoef sqrt c07 prm.L prm.convex { st.w with MZa := gram ip prm.L st.w.R st.w.MZa }).Y0

/-- the polynomial part (every branch of the accurate update): `zeta` is the norm of `R[0] − Σ Y0[1+k] R[1+k]`; without
the accurate update (`delta ≤ 0`) that vector is stored in `R[0]` and `X += Σ Y0[1+k] R[k]` -/
theorem polyPart_zeta (prm : Params K) (ip : Vec K → Vec K → K) (sqrt : K → K) (c07 : K) (A : CRS K)
    (P : Vec K → Vec K) (zeta0 : K) (st st' : St K) (h : polyPart prm ip sqrt c07 A P zeta0 st = .ok st') :
    st'.zeta = nrm ip sqrt (polyV0 prm.L (passY0 prm ip sqrt c07 st) st.w.R) ∧
    (¬ 0 < prm.delta → st'.w.R.get 0 = polyV0 prm.L (passY0 prm ip sqrt c07 st) st.w.R ∧
      st'.w.X = polyX prm.L (passY0 prm ip sqrt c07 st) st.w.R st.w.X ∧
      st'.w.U.get 0 = polyV0 prm.L (passY0 prm ip sqrt c07 st) st.w.U ∧ st'.x = st.x) := by
  obtain ⟨f1, f2, f3, f4, f5, f6⟩ :=
    polyCoef_frame sqrt c07 prm.L prm.convex { st.w with MZa := gram ip prm.L st.w.R st.w.MZa }
  unfold passY0
  unfold polyPart at h
  simp only [] at h
  generalize polyCoef sqrt c07 prm.L prm.convex { st.w with MZa := gram ip prm.L st.w.R st.w.MZa } = w1
    at h f1 f2 f3 f4 f5 f6 ⊢
  simp only at f1 f2 f3 f4 f5 f6
  simp only [f2, f3, f5, f6, polyX_def, polyV0_def] at h
  split at h
  · cases h
  · split at h
    · rename_i hd
      split at h
      · split at h <;> cases h <;> exact ⟨rfl, fun c => absurd hd c⟩
      · cases h; exact ⟨rfl, fun c => absurd hd c⟩
    · cases h
      exact ⟨rfl, fun _ => ⟨by show (setF _ 0 _).get 0 = _; rw [setF_same], rfl,
        by show (setF _ 0 _).get 0 = _; rw [setF_same], rfl⟩⟩

end part
end Amgcl.Solver.BiCGStabL
