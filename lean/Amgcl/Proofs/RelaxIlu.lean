import Amgcl.Model.RelaxIlu
import Amgcl.Model.RelaxCheck
import Amgcl.Proofs.RelaxGS
import Amgcl.Proofs.RelaxCheb
/-!
Helper lemmas for the serial triangular solve `ilu_solve::serial_solve` and the ILU sweeps:
linearity, the triangular equations the result satisfies.
-/
namespace Amgcl
namespace Relax
open Finset

section solve
variable {K : Type} [Field K]

@[simp] theorem iluSubRow_size (r : Row K) (i : Nat) (x : Vec K) : (iluSubRow r i x).size = x.size := by
  unfold iluSubRow
  induction r generalizing x with
  | nil => rfl
  | cons cv t ih => rw [List.foldl_cons, ih]; simp

/-- a point update of a linear combination with a linearly combined value -/
theorem set_vlin (a b : K) (x y : Vec K) (h : x.size = y.size) (i : Nat) (u v : K) :
    (vlin a x b y).setIfInBounds i (a * u + b * v)
      = vlin a (x.setIfInBounds i u) b (y.setIfInBounds i v) := by
  apply ext_getD' (0 : K) (by simp)
  intro j
  have e1 := getD_setIfInBounds (vlin a x b y) i j (a * u + b * v) 0
  have e2 := getD_vlin a b (x.setIfInBounds i u) (y.setIfInBounds i v) (by simp [h]) j
  have e3 := getD_setIfInBounds x i j u 0
  have e4 := getD_setIfInBounds y i j v 0
  have e5 := getD_vlin a b x y h j
  rw [e1, e2, e3, e4, e5, vlin_size]
  by_cases hj : i = j ∧ j < x.size
  · have hj' : i = j ∧ j < y.size := ⟨hj.1, by omega⟩
    rw [if_pos hj, if_pos hj, if_pos hj']
  · have hj' : ¬ (i = j ∧ j < y.size) := by intro h'; exact hj ⟨h'.1, by omega⟩
    rw [if_neg hj, if_neg hj, if_neg hj']

theorem iluSubRow_vlin (r : Row K) (i : Nat) (a b : K) (x y : Vec K) (h : x.size = y.size) :
    iluSubRow r i (vlin a x b y) = vlin a (iluSubRow r i x) b (iluSubRow r i y) := by
  unfold iluSubRow
  induction r generalizing x y with
  | nil => rfl
  | cons cv t ih =>
    simp only [List.foldl_cons]
    rw [← ih _ _ (by simp [h]), ← set_vlin a b x y h]
    congr 2
    rw [getD_vlin a b x y h, getD_vlin a b x y h]; ring

/-- the scaling step `x[i] = D[i] * x[i]` -/
def scaleAt (d : K) (i : Nat) (x : Vec K) : Vec K := x.setIfInBounds i (d * x.getD i 0)

theorem scaleAt_vlin (d : K) (i : Nat) (a b : K) (x y : Vec K) (h : x.size = y.size) :
    scaleAt d i (vlin a x b y) = vlin a (scaleAt d i x) b (scaleAt d i y) := by
  unfold scaleAt
  rw [← set_vlin a b x y h]
  congr 1
  rw [getD_vlin a b x y h]; ring

/-- a fold of size-preserving linear steps is linear -/
theorem fold_vlin (g : Vec K → Nat → Vec K) (hs : ∀ x i, (g x i).size = x.size)
    (hl : ∀ (a b : K) x y i, x.size = y.size → g (vlin a x b y) i = vlin a (g x i) b (g y i))
    (a b : K) (l : List Nat) (x y : Vec K) (h : x.size = y.size) :
    l.foldl g (vlin a x b y) = vlin a (l.foldl g x) b (l.foldl g y) := by
  induction l generalizing x y with
  | nil => rfl
  | cons i t ih =>
    simp only [List.foldl_cons]
    rw [hl a b x y i h, ih _ _ (by rw [hs, hs]; exact h)]

/-- the two phases of `serial_solve` as folds of row steps -/
def lowStep (F : IluFactors K) (x : Vec K) (i : Nat) : Vec K := iluSubRow (F.L.row i) i x
def upStep (F : IluFactors K) (x : Vec K) (i : Nat) : Vec K :=
  scaleAt (F.D.getD i 0) i (iluSubRow (F.U.row i) i x)

theorem iluSolve_eq (F : IluFactors K) (x : Vec K) :
    iluSolve F x = (List.range F.L.nrows).reverse.foldl (upStep F) ((List.range F.L.nrows).foldl (lowStep F) x) := rfl

@[simp] theorem lowStep_size (F : IluFactors K) (x : Vec K) (i : Nat) : (lowStep F x i).size = x.size := by
  simp [lowStep]
@[simp] theorem upStep_size (F : IluFactors K) (x : Vec K) (i : Nat) : (upStep F x i).size = x.size := by
  simp [upStep, scaleAt]

@[simp] theorem iluSolve_size (F : IluFactors K) (x : Vec K) : (iluSolve F x).size = x.size := by
  rw [iluSolve_eq, fold_size _ (upStep_size F), fold_size _ (lowStep_size F)]

/-- the triangular solve is linear -/
theorem iluSolve_vlin (F : IluFactors K) (a b : K) (x y : Vec K) (h : x.size = y.size) :
    iluSolve F (vlin a x b y) = vlin a (iluSolve F x) b (iluSolve F y) := by
  rw [iluSolve_eq, iluSolve_eq, iluSolve_eq]
  rw [fold_vlin (lowStep F) (lowStep_size F)
    (fun a b x y i h => iluSubRow_vlin _ i a b x y h) a b _ x y h]
  apply fold_vlin (upStep F) (upStep_size F)
  · intro a b x y i h
    unfold upStep
    rw [iluSubRow_vlin _ i a b x y h, scaleAt_vlin _ _ _ _ _ _ (by simp [h])]
  · rw [fold_size _ (lowStep_size F), fold_size _ (lowStep_size F)]; exact h

/-- a row step with all columns different from `i` in closed form -/
theorem iluSubRow_closed (r : Row K) (i : Nat) (x : Vec K) (hr : ∀ cv ∈ r, cv.1 ≠ i) :
    iluSubRow r i x = x.setIfInBounds i (x.getD i 0 - rowDot r x) := by
  rw [rowDot_eq_listSum]
  unfold iluSubRow
  induction r generalizing x with
  | nil =>
    simp only [List.foldl_nil, List.map_nil, List.sum_nil, sub_zero]
    apply ext_getD' (0 : K) (by simp)
    intro j; rw [getD_setIfInBounds]; split
    · next h => rw [h.1]
    · rfl
  | cons cv t ih =>
    have hcv : cv.1 ≠ i := hr cv List.mem_cons_self
    have ht : ∀ c ∈ t, c.1 ≠ i := fun c hc => hr c (List.mem_cons_of_mem _ hc)
    simp only [List.foldl_cons, List.map_cons, List.sum_cons]
    rw [ih _ ht]
    have hsame : ∀ c ∈ t, (x.setIfInBounds i (x.getD i 0 - cv.2 * x.getD cv.1 0)).getD c.1 0 = x.getD c.1 0 :=
      fun c hc => getD_setIfInBounds_ne _ _ _ _ _ (Ne.symm (ht c hc))
    have hsum : (t.map (fun c => c.2 * (x.setIfInBounds i (x.getD i 0 - cv.2 * x.getD cv.1 0)).getD c.1 0)).sum
        = (t.map (fun c => c.2 * x.getD c.1 0)).sum := by
      congr 1; apply List.map_congr_left; intro c hc; rw [hsame c hc]
    rw [hsum]
    by_cases hi : i < x.size
    · rw [getD_setIfInBounds_self _ _ _ _ hi, Array.setIfInBounds_setIfInBounds]
      congr 1; ring
    · rw [Array.setIfInBounds_eq_of_size_le (by simp; omega), Array.setIfInBounds_eq_of_size_le (by omega),
        Array.setIfInBounds_eq_of_size_le (by omega)]

theorem rowDot_congr (r : Row K) (x y : Vec K) (h : ∀ cv ∈ r, x.getD cv.1 0 = y.getD cv.1 0) :
    rowDot r x = rowDot r y := by
  rw [rowDot_eq_listSum, rowDot_eq_listSum]
  congr 1; apply List.map_congr_left; intro cv hcv; rw [h cv hcv]

theorem strictLower_row {L : CRS K} (h : strictLowerb L = true) (i : Nat) (hi : i < L.nrows) :
    ∀ cv ∈ L.row i, cv.1 < i := by
  unfold strictLowerb at h
  rw [List.all_eq_true] at h
  have := h i (List.mem_range.mpr hi)
  rw [List.all_eq_true] at this
  intro cv hcv; simpa using this cv hcv

theorem strictUpper_row {U : CRS K} (h : strictUpperb U = true) (i : Nat) (hi : i < U.nrows) :
    ∀ cv ∈ U.row i, i < cv.1 := by
  unfold strictUpperb at h
  rw [List.all_eq_true] at h
  have := h i (List.mem_range.mpr hi)
  rw [List.all_eq_true] at this
  intro cv hcv; simpa using this cv hcv

theorem row_wf {A : CRS K} (hA : A.WF) (i : Nat) (hi : i < A.nrows) : ∀ cv ∈ A.row i, cv.1 < A.ncols := by
  intro cv hcv
  apply hA (A.row i) _ cv hcv
  unfold CRS.row CRS.nrows at *
  simp [Array.getD, hi]

/-- lower phase: `y_i = b_i − Σ_j L_ij y_j` -/
theorem lowPhase_spec (F : IluFactors K) (hL : strictLowerb F.L = true) (b : Vec K) (hb : b.size = F.L.nrows)
    (i : Nat) (hi : i < F.L.nrows) :
    ((List.range F.L.nrows).foldl (lowStep F) b).getD i 0
      = b.getD i 0 - rowDot (F.L.row i) ((List.range F.L.nrows).foldl (lowStep F) b) := by
  obtain ⟨l2, hsplit, _⟩ := range_split F.L.nrows i hi
  have hnd : (List.range i ++ i :: l2).Nodup := hsplit ▸ List.nodup_range
  have hrow := strictLower_row hL i hi
  have hne : ∀ x k j, j ≠ k → (lowStep F x k).getD j 0 = x.getD j 0 := by
    intro x k j hj
    unfold lowStep iluSubRow
    generalize F.L.row k = r
    induction r generalizing x with
    | nil => rfl
    | cons cv t ih => rw [List.foldl_cons, ih, getD_setIfInBounds_ne _ _ _ _ _ (Ne.symm hj)]
  have hmid := fold_point_mid (lowStep F) (0 : K) hne (List.range i) l2 i hnd b
  rw [← hsplit] at hmid
  set X := (List.range i).foldl (lowStep F) b with hX
  set y := (List.range F.L.nrows).foldl (lowStep F) b with hy
  have hXs : X.size = b.size := fold_size _ (lowStep_size F) _ _
  have hXi : X.getD i 0 = b.getD i 0 :=
    fold_point_untouched (lowStep F) (0 : K) hne (List.range i) b i (by simp)
  have h1 := hmid i
  rw [if_pos (Or.inr rfl)] at h1
  rw [← h1]
  unfold lowStep
  rw [iluSubRow_closed _ _ _ (fun cv hcv => by have := hrow cv hcv; omega),
    getD_setIfInBounds_self _ _ _ _ (by omega), hXi]
  congr 1
  apply rowDot_congr
  intro cv hcv
  have hc := hrow cv hcv
  have h2 := hmid cv.1
  rw [if_pos (Or.inl (List.mem_range.mpr hc)), hne _ _ _ (by omega)] at h2
  exact h2

/-- upper phase: `z_i = D_i (y_i − Σ_j U_ij z_j)` -/
theorem upPhase_spec (F : IluFactors K) (hU : strictUpperb F.U = true) (hUwf : F.U.WF)
    (hn : F.U.nrows = F.L.nrows) (hc : F.U.ncols = F.L.nrows) (y : Vec K) (hy : y.size = F.L.nrows)
    (i : Nat) (hi : i < F.L.nrows) :
    ((List.range F.L.nrows).reverse.foldl (upStep F) y).getD i 0
      = F.D.getD i 0 * (y.getD i 0 - rowDot (F.U.row i) ((List.range F.L.nrows).reverse.foldl (upStep F) y)) := by
  obtain ⟨l2, hsplit, hl2⟩ := range_split F.L.nrows i hi
  have hrev : (List.range F.L.nrows).reverse = l2.reverse ++ i :: (List.range i).reverse := by
    rw [hsplit]; simp
  have hnd : (l2.reverse ++ i :: (List.range i).reverse).Nodup := by
    rw [← hrev]; exact List.nodup_reverse.mpr List.nodup_range
  have hrow := strictUpper_row hU i (by omega)
  have hrowwf := row_wf hUwf i (by omega)
  have hne : ∀ x k j, j ≠ k → (upStep F x k).getD j 0 = x.getD j 0 := by
    intro x k j hj
    unfold upStep scaleAt
    rw [getD_setIfInBounds_ne _ _ _ _ _ (Ne.symm hj)]
    unfold iluSubRow
    generalize F.U.row k = r
    induction r generalizing x with
    | nil => rfl
    | cons cv t ih => rw [List.foldl_cons, ih, getD_setIfInBounds_ne _ _ _ _ _ (Ne.symm hj)]
  have hmid := fold_point_mid (upStep F) (0 : K) hne l2.reverse (List.range i).reverse i hnd y
  rw [← hrev] at hmid
  set X := l2.reverse.foldl (upStep F) y with hX
  set z := (List.range F.L.nrows).reverse.foldl (upStep F) y with hz
  have hXs : X.size = y.size := fold_size _ (upStep_size F) _ _
  have hXi : X.getD i 0 = y.getD i 0 :=
    fold_point_untouched (upStep F) (0 : K) hne l2.reverse y i (by rw [List.mem_reverse, hl2]; omega)
  have h1 := hmid i
  rw [if_pos (Or.inr rfl)] at h1
  rw [← h1]
  unfold upStep scaleAt
  rw [getD_setIfInBounds_self _ _ _ _ (by simp; omega),
    iluSubRow_closed _ _ _ (fun cv hcv => by have := hrow cv hcv; omega),
    getD_setIfInBounds_self _ _ _ _ (by omega), hXi]
  congr 2
  apply rowDot_congr
  intro cv hcv
  have hc1 := hrow cv hcv
  have hc2 := hrowwf cv hcv
  have h2 := hmid cv.1
  rw [if_pos (Or.inl (by rw [List.mem_reverse, hl2]; omega)), hne _ _ _ (by omega)] at h2
  exact h2

end solve

section sweep
variable {K : Type} [Field K] [DecidableEq K]

theorem vlin_zero (x y : Vec K) : vlin (0 : K) x 0 y = vclear x.size := by
  apply ext_getD' (0 : K) (by rw [vlin_size, vclear_size])
  intro i
  unfold vlin
  rw [getD_ofFn, getD_vclear]
  split <;> simp

theorem iluSolve_zero (F : IluFactors K) (n : Nat) : iluSolve F (vclear n) = vclear n := by
  have h := iluSolve_vlin F 0 0 (vclear n) (vclear n) rfl
  rw [vlin_zero, vlin_zero, iluSolve_size, vclear_size] at h
  exact h

theorem iluSweep_facts (ω : K) (F : IluFactors K) (A : CRS K) :
    Sweep.ScratchIndep (iluSweep ω F A) ∧ Sweep.JointlyLinear (iluSweep ω F A) A.nrows
    ∧ Sweep.SizeOk (iluSweep ω F A) A.nrows ∧ Sweep.FixedPoint (iluSweep ω F A) A := by
  refine ⟨fun _ _ _ _ => rfl, ?_, ?_, ?_⟩
  · intro a b f g x y t t₁ t₂ hf hg hx hy
    show axpby ω (iluSolve F (residual (vlin a f b g) A (vlin a x b y))) 1 (vlin a x b y)
      = vlin a (axpby ω (iluSolve F (residual f A x)) 1 x) b (axpby ω (iluSolve F (residual g A y)) 1 y)
    rw [residual_vlin A a b f g x y hf hg (by omega), iluSolve_vlin F a b _ _ (by simp)]
    exact axpby_vlin ω 1 a b _ _ x y (by simp) (by omega) (by simp; omega)
  · intro f x t _ _
    show (axpby ω (iluSolve F (residual f A x)) 1 x).size = A.nrows
    simp
  · intro f x t hx _ h
    show axpby ω (iluSolve F (residual f A x)) 1 x = x
    rw [residual_eq_zero A f x h, iluSolve_zero]
    apply ext_getD' (0 : K) (by simp; omega)
    intro i
    by_cases hi : i < A.nrows
    · rw [getD_axpby _ _ _ _ _ (by simpa using hi), getD_vclear]; ring
    · rw [getD_of_size_le _ _ _ (by simp; omega), getD_of_size_le _ _ _ (by omega)]

end sweep

end Relax
end Amgcl
