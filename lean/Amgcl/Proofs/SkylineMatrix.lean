import Amgcl.Proofs.SkylineFactor
import Mathlib.Data.Matrix.Mul
import Mathlib.Algebra.BigOperators.Fin
/-!
`skyline_lu::operator()` in Mathlib `Matrix` terms.
-/
namespace Amgcl
namespace Skyline
open Finset
variable {K : Type} [Field K]

/-- lower factor (pivots on the diagonal) as a matrix -/
def Lmat (S : Skyline K K) : Matrix (Fin S.n) (Fin S.n) K := fun i m => Lt S i.val m.val
/-- unit upper factor as a matrix -/
def Umat (S : Skyline K K) : Matrix (Fin S.n) (Fin S.n) K := fun m j => Ut S m.val j.val
/-- an array as a vector indexed by `Fin n` -/
def vecOf (n : Nat) (v : Array K) : Fin n → K := fun i => v.getD i.val 0

theorem solve_spec_matrix (S : Skyline K K) (A : Matrix (Fin S.n) (Fin S.n) K) (rhs x : Array K) (hwf : S.WFProfile)
    (hp : PermOn S.n S.perm) (hy : S.y.size = S.n) (hx : x.size = S.n) (hD : ∀ i, i < S.n → Dd S i ≠ 0)
    (hfac : A.submatrix hp.equiv hp.equiv = Lmat S * Umat S) :
    A.mulVec (vecOf S.n (solve S rhs x).1) = vecOf S.n rhs := by
  let Af : Nat → Nat → K := fun r c => if h : r < S.n ∧ c < S.n then A ⟨r, h.1⟩ ⟨c, h.2⟩ else 0
  have hAf : ∀ (r c : Fin S.n), Af r.val c.val = A r c := by
    intro r c; show (if h : r.val < S.n ∧ c.val < S.n then A ⟨r.val, h.1⟩ ⟨c.val, h.2⟩ else 0) = A r c
    rw [dif_pos ⟨r.isLt, c.isLt⟩]
  have hfac' : ∀ i j, i < S.n → j < S.n →
      Af (S.perm.getD i 0) (S.perm.getD j 0) = ∑ m ∈ range S.n, Lt S i m * Ut S m j := by
    intro i j hi hj
    have := congrFun (congrFun hfac ⟨i, hi⟩) ⟨j, hj⟩
    rw [Matrix.submatrix_apply, Matrix.mul_apply] at this
    rw [← Fin.sum_univ_eq_sum_range (fun m => Lt S i m * Ut S m j)]
    rw [← hAf (hp.equiv ⟨i, hi⟩) (hp.equiv ⟨j, hj⟩)] at this
    exact this
  have h := solve_spec S Af rhs x hwf hp hy hx hD hfac'
  ext r
  simp only [Matrix.mulVec, dotProduct, vecOf]
  rw [← h r.val r.isLt, ← Fin.sum_univ_eq_sum_range (fun c => Af r.val c * (solve S rhs x).1.getD c 0)]
  apply Finset.sum_congr rfl; intro c _
  rw [hAf r c]

end Skyline
end Amgcl
