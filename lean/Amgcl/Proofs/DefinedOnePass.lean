import Amgcl.Model.DefinedTranspose
import Amgcl.Proofs.DefinedKernels
/-!
# The one-pass construction with a running head (`ilu0::ilu0`, `ilut::ilut`: `L`, `U`) and the zero fill of
`crs::set_nonzeros()` write the cells they own before anything reads them
-/
namespace Amgcl
namespace Defined
variable {K : Type}

/-- invariant of the one-pass loop after `k` rows -/
theorem onePass_key (rows : Array (Row K)) (jp jc : Array Nat) (jv : Array K) (hp : jp.size = rows.size + 1)
    (hc : (flatRows rows).length ≤ jc.size) (hv : (flatRows rows).length ≤ jv.size) :
    ∀ k, k ≤ rows.size →
      let st := (List.range k).foldl (fun (st : OnePass K) i =>
          let r := rows.getD i []
          let f := fillRow (st.head, true) r st.fill
          ({ ptr := store st.ptr (i + 1) (st.head + r.length), fill := f, head := st.head + r.length } : OnePass K))
        { ptr := store (alloc jp) 0 0, fill := { col := alloc jc, val := alloc jv, ok := true }, head := 0 }
      st.head = (flatUpTo rows k).length ∧ st.fill.ok = true ∧ st.ptr.size = rows.size + 1 ∧
      st.fill.col.size = jc.size ∧ st.fill.val.size = jv.size ∧
      (∀ j, j ≤ k → load st.ptr j = some (flatUpTo rows j).length) ∧
      (∀ j, k < j → load st.ptr j = none) ∧
      (∀ q (hq : q < (flatUpTo rows k).length), load st.fill.col q = some (flatUpTo rows k)[q].1) ∧
      (∀ q (hq : q < (flatUpTo rows k).length), load st.fill.val q = some (flatUpTo rows k)[q].2) ∧
      (∀ q, (flatUpTo rows k).length ≤ q → load st.fill.col q = none) ∧
      (∀ q, (flatUpTo rows k).length ≤ q → load st.fill.val q = none) := by
  intro k
  induction k with
  | zero =>
    intro _
    simp only [List.range_zero, List.foldl_nil]
    refine ⟨by simp [flatUpTo_zero], by first | rfl | trivial, by rw [store_size, alloc_size, hp], alloc_size _, alloc_size _, ?_, ?_,
      ?_, ?_, ?_, ?_⟩
    · intro j hj
      have : j = 0 := by omega
      subst this
      rw [load_store_same _ _ _ (by rw [alloc_size, hp]; omega)]; simp [flatUpTo_zero]
    · intro j hj
      rw [load_store_ne _ _ _ _ (by omega)]; exact load_alloc _ _
    · intro q hq; simp [flatUpTo_zero] at hq
    · intro q hq; simp [flatUpTo_zero] at hq
    · intro q _; exact load_alloc _ _
    · intro q _; exact load_alloc _ _
  | succ k ih =>
    intro hk
    obtain ⟨b1, b2, b3, b4, b5, b6, b7, b8, b9, b10, b11⟩ := ih (by omega)
    rw [List.range_succ, List.foldl_append]
    simp only [List.foldl_cons, List.foldl_nil]
    rw [b1]
    obtain ⟨c1, c2, c3, c4, c5, c6, c7⟩ := fillRow_spec (flatUpTo rows k).length true (rows.getD k [])
      ((List.range k).foldl (fun (st : OnePass K) i =>
          let r := rows.getD i []
          let f := fillRow (st.head, true) r st.fill
          ({ ptr := store st.ptr (i + 1) (st.head + r.length), fill := f, head := st.head + r.length } : OnePass K))
        { ptr := store (alloc jp) 0 0, fill := { col := alloc jc, val := alloc jv, ok := true }, head := 0 }).fill
    have hsucc := flatUpTo_succ rows k (by omega)
    have hlen : (flatUpTo rows (k + 1)).length = (flatUpTo rows k).length + (rows.getD k []).length := by
      rw [hsucc, List.length_append]
    have hle : (flatUpTo rows (k + 1)).length ≤ (flatRows rows).length := by
      unfold flatUpTo flatRows; exact flatten_take_length_le _ _
    refine ⟨hlen.symm, by rw [c1, b2]; rfl, by rw [store_size, b3], by rw [c2, b4], by rw [c3, b5], ?_, ?_, ?_, ?_,
      ?_, ?_⟩
    · intro j hj
      by_cases hjk : j = k + 1
      · subst hjk
        rw [load_store_same _ _ _ (by rw [b3]; omega), hlen]
      · rw [load_store_ne _ _ _ _ (Ne.symm hjk)]; exact b6 j (by omega)
    · intro j hj
      rw [load_store_ne _ _ _ _ (by omega)]; exact b7 j (by omega)
    · intro q hq
      by_cases hql : q < (flatUpTo rows k).length
      · rw [c6 q (Or.inl hql), b8 q hql]
        simp only [hsucc, List.getElem_append_left hql]
      · have ht : q - (flatUpTo rows k).length < (rows.getD k []).length := by omega
        have := c4 (q - (flatUpTo rows k).length) ht (by rw [b4]; omega)
        rw [show (flatUpTo rows k).length + (q - (flatUpTo rows k).length) = q by omega] at this
        rw [this]
        simp only [hsucc]
        rw [List.getElem_append_right (by omega)]
    · intro q hq
      by_cases hql : q < (flatUpTo rows k).length
      · rw [c7 q (Or.inl hql), b9 q hql]
        simp only [hsucc, List.getElem_append_left hql]
      · have ht : q - (flatUpTo rows k).length < (rows.getD k []).length := by omega
        have := c5 (q - (flatUpTo rows k).length) ht (by rw [b5]; omega)
        rw [show (flatUpTo rows k).length + (q - (flatUpTo rows k).length) = q by omega] at this
        rw [this]
        simp only [hsucc]
        rw [List.getElem_append_right (by omega)]
    · intro q hq
      rw [c6 q (Or.inr (by omega))]; exact b10 q (by omega)
    · intro q hq
      rw [c7 q (Or.inr (by omega))]; exact b11 q (by omega)

/-- **one-pass construction, allocation of at least the needed size**: `ptr` completely written with the pointer array
of the rows, cells `0 … nnz-1` of `col` / `val` written with the flat image of the rows, the cells beyond stay
unwritten, no load at all -/
theorem onePass_spec (rows : Array (Row K)) (jp jc : Array Nat) (jv : Array K) (hp : jp.size = rows.size + 1)
    (hc : (flatRows rows).length ≤ jc.size) (hv : (flatRows rows).length ≤ jv.size) :
    (onePass rows jp jc jv).head = (flatRows rows).length ∧ (onePass rows jp jc jv).fill.ok = true ∧
    (onePass rows jp jc jv).ptr = written (ptrList rows).toArray ∧
    (onePass rows jp jc jv).fill.col.size = jc.size ∧ (onePass rows jp jc jv).fill.val.size = jv.size ∧
    (∀ q (hq : q < (flatRows rows).length), load (onePass rows jp jc jv).fill.col q = some (flatRows rows)[q].1) ∧
    (∀ q (hq : q < (flatRows rows).length), load (onePass rows jp jc jv).fill.val q = some (flatRows rows)[q].2) ∧
    (∀ q, (flatRows rows).length ≤ q → load (onePass rows jp jc jv).fill.col q = none) ∧
    (∀ q, (flatRows rows).length ≤ q → load (onePass rows jp jc jv).fill.val q = none) := by
  obtain ⟨b1, b2, b3, b4, b5, b6, _, b8, b9, b10, b11⟩ := onePass_key rows jp jc jv hp hc hv rows.size (Nat.le_refl _)
  have hall := flatUpTo_all rows
  unfold onePass
  refine ⟨by rw [b1, hall], b2, ?_, b4, b5, ?_, ?_, ?_, ?_⟩
  · apply eq_written_of_load
    · rw [b3]; simp [ptrList_length]
    · intro i hi
      have hi' : i ≤ rows.size := by
        have : (ptrList rows).toArray.size = rows.size + 1 := by simp [ptrList_length]
        omega
      rw [b6 i hi', ptrList_getElem]
  · intro q hq
    have hq' : q < (flatUpTo rows rows.size).length := by rw [hall]; exact hq
    rw [b8 q hq']; simp [hall]
  · intro q hq
    have hq' : q < (flatUpTo rows rows.size).length := by rw [hall]; exact hq
    rw [b9 q hq']; simp [hall]
  · intro q hq; exact b10 q (by rw [hall]; exact hq)
  · intro q hq; exact b11 q (by rw [hall]; exact hq)

/-- exact-size allocation: the result is the completely written flat image -/
theorem onePass_exact (rows : Array (Row K)) (jp jc : Array Nat) (jv : Array K) (hp : jp.size = rows.size + 1)
    (hc : jc.size = (flatRows rows).length) (hv : jv.size = (flatRows rows).length) :
    (onePass rows jp jc jv).ptr = (CrsCells.ofRows rows).ptr ∧ (onePass rows jp jc jv).fill.col = (CrsCells.ofRows rows).col ∧
    (onePass rows jp jc jv).fill.val = (CrsCells.ofRows rows).val ∧ (onePass rows jp jc jv).fill.ok = true := by
  obtain ⟨_, a2, a3, a4, a5, a6, a7, _, _⟩ := onePass_spec rows jp jc jv hp (by omega) (by omega)
  refine ⟨a3, ?_, ?_, a2⟩
  · apply eq_written_of_load
    · rw [a4, hc]; simp
    · intro i hi
      have hi' : i < (flatRows rows).length := by simpa using hi
      rw [a6 i hi']; simp
  · apply eq_written_of_load
    · rw [a5, hv]; simp
    · intro i hi
      have hi' : i < (flatRows rows).length := by simpa using hi
      rw [a7 i hi']; simp

/-! ### the counting loop of `ilu0::ilu0` gives the sizes of the strictly lower / upper parts -/

theorem flatRows_length_ofFn (n : Nat) (f : Fin n → Row K) :
    (flatRows (Array.ofFn f)).length = ((List.ofFn f).map List.length).sum := by
  unfold flatRows
  rw [List.length_flatten, Array.toList_ofFn]

theorem ilu0Counts_spec (A : CRS K) :
    (ilu0Counts A).1 = (flatRows (lowerRows A)).length ∧ (ilu0Counts A).2 = (flatRows (upperRows A)).length := by
  unfold lowerRows upperRows
  rw [flatRows_length_ofFn, flatRows_length_ofFn]
  unfold ilu0Counts
  have inner : ∀ (i : Nat) (row : Row K) (acc : Nat × Nat),
      row.foldl (fun (acc : Nat × Nat) cv =>
        if cv.1 < i then (acc.1 + 1, acc.2) else if i < cv.1 then (acc.1, acc.2 + 1) else acc) acc
      = (acc.1 + (row.filter (fun cv => cv.1 < i)).length, acc.2 + (row.filter (fun cv => i < cv.1)).length) := by
    intro i row
    induction row with
    | nil => intro acc; rfl
    | cons cv t ih =>
      intro acc
      rw [List.foldl_cons, ih, List.filter_cons, List.filter_cons]
      by_cases h1 : cv.1 < i
      · have h2 : ¬ i < cv.1 := by omega
        simp [h1, h2]; omega
      · by_cases h2 : i < cv.1
        · simp [h1, h2]; omega
        · simp [h1, h2]
  have outer : ∀ (n : Nat), n ≤ A.nrows →
      (List.range n).foldl (fun (acc : Nat × Nat) i =>
        (A.row i).foldl (fun (acc : Nat × Nat) cv =>
          if cv.1 < i then (acc.1 + 1, acc.2) else if i < cv.1 then (acc.1, acc.2 + 1) else acc) acc) (0, 0)
      = ((((List.range n).map fun i => ((A.row i).filter (fun cv => cv.1 < i)).length)).sum,
         (((List.range n).map fun i => ((A.row i).filter (fun cv => i < cv.1)).length)).sum) := by
    intro n
    induction n with
    | zero => intro _; rfl
    | succ n ih =>
      intro hn
      rw [List.range_succ, List.foldl_append, ih (by omega)]
      simp only [List.foldl_cons, List.foldl_nil, inner, List.map_append, List.sum_append, List.map_cons, List.map_nil,
        List.sum_cons, List.sum_nil, Nat.add_zero]
  rw [outer A.nrows (Nat.le_refl _)]
  constructor
  · show (List.map _ _).sum = _
    congr 1
    apply List.ext_getElem
    · simp
    · intro j h1 h2; simp
  · show (List.map _ _).sum = _
    congr 1
    apply List.ext_getElem
    · simp
    · intro j h1 h2; simp

end Defined
end Amgcl
