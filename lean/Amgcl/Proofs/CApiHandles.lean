import Amgcl.Model.CApi
/-!
# C20 — the handle state machine agrees with the declarative reading of a script

`Inv pre st`: after the calls `pre` ran without error the machine state `st` is determined by the text of
`pre`: handle `h` exists iff `pre` created at least `h+1` handles, has the kind of the `h`-th create, and is
alive iff no destroy call of `pre` names it.
-/
namespace Amgcl.CApi

structure Inv (pre : List Call) (st : HState) : Prop where
  len : st.length = (kindsOf pre).length
  get : ∀ h, st[h]? = ((kindsOf pre)[h]?).map (fun k => (k, !destroyedIn pre h))
  fresh : ∀ h, st.length ≤ h → destroyedIn pre h = false

theorem inv_nil : Inv [] [] := by
  constructor <;> simp [kindsOf, destroyedIn]

theorem checkHandle_ok_iff {pre : List Call} {st : HState} (hinv : Inv pre st) (kh : Kind × Nat) :
    checkHandle st kh = .ok () ↔ ((kindsOf pre)[kh.2]? = some kh.1 ∧ destroyedIn pre kh.2 = false) := by
  unfold checkHandle
  rw [hinv.get kh.2]
  cases hk : (kindsOf pre)[kh.2]? with
  | none => simp
  | some k =>
    cases hd : destroyedIn pre kh.2 with
    | true => simp
    | false =>
      by_cases hkk : k = kh.1
      · simp [hkk]
      · simp [hkk]

theorem checkAll_ok_iff (st : HState) (l : List (Kind × Nat)) :
    checkAll st l = .ok () ↔ ∀ kh ∈ l, checkHandle st kh = .ok () := by
  induction l with
  | nil => simp [checkAll]
  | cons a t ih =>
    unfold checkAll
    cases h : checkHandle st a with
    | error e => simp [h]
    | ok u => cases u; simp [h, ih]

theorem checkAll_ok_iff_callOK {pre : List Call} {st : HState} (hinv : Inv pre st) (c : Call) :
    checkAll st c.touches = .ok () ↔ CallOK pre c := by
  rw [checkAll_ok_iff]
  unfold CallOK
  constructor
  · intro h kh hkh; exact (checkHandle_ok_iff hinv kh).1 (h kh hkh)
  · intro h kh hkh; exact (checkHandle_ok_iff hinv kh).2 (h kh hkh)

theorem step_isOk_iff {pre : List Call} {st : HState} (hinv : Inv pre st) (c : Call) :
    (∃ st', step st c = .ok st') ↔ CallOK pre c := by
  rw [← checkAll_ok_iff_callOK hinv c]
  unfold step
  cases h : checkAll st c.touches with
  | error e => simp
  | ok u =>
    cases u
    cases c <;> simp [Call.created]

theorem kindsOf_append (a b : List Call) : kindsOf (a ++ b) = kindsOf a ++ kindsOf b := by
  simp [kindsOf]

theorem destroyedIn_append (a b : List Call) (h : Nat) :
    destroyedIn (a ++ b) h = (destroyedIn a h || destroyedIn b h) := by
  simp [destroyedIn]

private theorem inv_push {pre : List Call} {st : HState} (hinv : Inv pre st) (c : Call) (k : Kind)
    (hc : c.created = some k) (hd : ∀ h, destroyedIn [c] h = false) :
    Inv (pre ++ [c]) (st ++ [(k, true)]) := by
  have hk : kindsOf (pre ++ [c]) = kindsOf pre ++ [k] := by
    rw [kindsOf_append]; simp [kindsOf, hc]
  have hdd : ∀ h, destroyedIn (pre ++ [c]) h = destroyedIn pre h := by
    intro h; rw [destroyedIn_append, hd h]; simp
  constructor
  · rw [hk]; simp [hinv.len]
  · intro h
    rw [hk, hdd]
    by_cases hlt : h < st.length
    · have hlt' : h < (kindsOf pre).length := by rw [← hinv.len]; exact hlt
      rw [List.getElem?_append_left hlt, List.getElem?_append_left hlt', hinv.get h]
    · have hge : st.length ≤ h := Nat.le_of_not_lt hlt
      have hge' : (kindsOf pre).length ≤ h := by rw [← hinv.len]; exact hge
      rw [List.getElem?_append_right hge, List.getElem?_append_right hge', hinv.len]
      by_cases h0 : h - (kindsOf pre).length = 0
      · rw [h0]; simp [hinv.fresh h hge]
      · have : 1 ≤ h - (kindsOf pre).length := Nat.one_le_iff_ne_zero.mpr h0
        rw [List.getElem?_eq_none (by simpa using this), List.getElem?_eq_none (by simpa using this)]
        rfl
  · intro h hh
    rw [hdd]
    apply hinv.fresh
    simp at hh; omega

private theorem inv_same {pre : List Call} {st : HState} (hinv : Inv pre st) (c : Call)
    (hc : c.created = none) (hd : ∀ h, destroyedIn [c] h = false) :
    Inv (pre ++ [c]) st := by
  have hk : kindsOf (pre ++ [c]) = kindsOf pre := by
    rw [kindsOf_append]; simp [kindsOf, hc]
  have hdd : ∀ h, destroyedIn (pre ++ [c]) h = destroyedIn pre h := by
    intro h; rw [destroyedIn_append, hd h]; simp
  constructor
  · rw [hk]; exact hinv.len
  · intro h; rw [hk, hdd]; exact hinv.get h
  · intro h hh; rw [hdd]; exact hinv.fresh h hh

private theorem inv_destroy {pre : List Call} {st : HState} (hinv : Inv pre st) (k : Kind) (h0 : Nat)
    (hok : CallOK pre (.destroy k h0)) :
    Inv (pre ++ [.destroy k h0]) (st.set h0 (k, false)) := by
  have hk : kindsOf (pre ++ [Call.destroy k h0]) = kindsOf pre := by
    rw [kindsOf_append]; simp [kindsOf, Call.created]
  have hdd : ∀ h, destroyedIn (pre ++ [Call.destroy k h0]) h = (destroyedIn pre h || (h0 == h)) := by
    intro h; rw [destroyedIn_append]; simp [destroyedIn]
  have hget : (kindsOf pre)[h0]? = some k := (hok (k, h0) (by simp [Call.touches])).1
  have hlt : h0 < st.length := by
    rw [hinv.len]
    exact (List.getElem?_eq_some_iff.1 hget).1
  constructor
  · rw [hk]; simp [hinv.len]
  · intro h
    rw [hk, hdd, List.getElem?_set]
    by_cases hh : h0 = h
    · subst hh
      simp [hlt, hget]
    · have : (h0 == h) = false := by simpa using hh
      rw [if_neg hh, this, hinv.get h]; simp
  · intro h hh
    rw [hdd]
    simp at hh
    have : (h0 == h) = false := by
      have : h0 ≠ h := by omega
      simpa using this
    rw [this, hinv.fresh h hh]; rfl

theorem step_inv {pre : List Call} {st st' : HState} (hinv : Inv pre st) (c : Call)
    (h : step st c = .ok st') : Inv (pre ++ [c]) st' := by
  have hok : CallOK pre c := (step_isOk_iff hinv c).1 ⟨st', h⟩
  have hchk : checkAll st c.touches = .ok () := (checkAll_ok_iff_callOK hinv c).2 hok
  unfold step at h
  rw [hchk] at h
  cases c with
  | paramsCreate =>
    simp [Call.created] at h; subst h
    exact inv_push hinv _ _ rfl (by intro h; simp [destroyedIn])
  | objCreate s p =>
    simp [Call.created] at h; subst h
    exact inv_push hinv _ _ rfl (by intro h; simp [destroyedIn])
  | use k h0 =>
    simp [Call.created] at h; subst h
    exact inv_same hinv _ rfl (by intro h; simp [destroyedIn])
  | destroy k h0 =>
    simp at h; subst h
    exact inv_destroy hinv k h0 hok

/-- a successful run from an invariant state: every call was `CallOK`, the final state satisfies the invariant -/
theorem runFrom_ok {pre : List Call} :
    ∀ (s : List Call) (i : Nat) (st st' : HState), Inv pre st → runFrom i st s = .ok st' →
      (∀ (p : Nat) (hp : p < s.length), CallOK (pre ++ s.take p) s[p]) ∧ Inv (pre ++ s) st' := by
  intro s
  induction s generalizing pre with
  | nil =>
    intro i st st' hinv h
    simp [runFrom] at h; subst h
    exact ⟨by intro p hp; simp at hp, by simpa using hinv⟩
  | cons c cs ih =>
    intro i st st' hinv h
    unfold runFrom at h
    cases hs : step st c with
    | error e => rw [hs] at h; simp at h
    | ok st1 =>
      rw [hs] at h
      have hinv1 := step_inv hinv c hs
      have hc : CallOK pre c := (step_isOk_iff hinv c).1 ⟨st1, hs⟩
      obtain ⟨hall, hfin⟩ := ih (i + 1) st1 st' hinv1 h
      refine ⟨?_, by simpa using hfin⟩
      intro p hp
      cases p with
      | zero => simpa using hc
      | succ p =>
        have := hall p (by simpa using hp)
        simpa using this

/-- an erroneous run: the error is reported at the FIRST call that is not `CallOK` -/
theorem runFrom_error {pre : List Call} :
    ∀ (s : List Call) (i : Nat) (st : HState) (j : Nat) (e : Err), Inv pre st → runFrom i st s = .error (j, e) →
      ∃ (p : Nat) (hp : p < s.length), j = i + p ∧ ¬ CallOK (pre ++ s.take p) s[p] ∧
        ∀ (q : Nat) (hq : q < s.length), q < p → CallOK (pre ++ s.take q) s[q] := by
  intro s
  induction s generalizing pre with
  | nil => intro i st j e _ h; simp [runFrom] at h
  | cons c cs ih =>
    intro i st j e hinv h
    unfold runFrom at h
    cases hs : step st c with
    | error e' =>
      rw [hs] at h
      simp at h
      refine ⟨0, by simp, by omega, ?_, by intro q _ hq; omega⟩
      intro hc
      obtain ⟨st1, h1⟩ := (step_isOk_iff hinv c).2 (by simpa using hc)
      rw [hs] at h1; cases h1
    | ok st1 =>
      rw [hs] at h
      have hinv1 := step_inv hinv c hs
      have hc : CallOK pre c := (step_isOk_iff hinv c).1 ⟨st1, hs⟩
      obtain ⟨p, hp, hj, hbad, hgood⟩ := ih (i + 1) st1 j e hinv1 h
      refine ⟨p + 1, by simpa using hp, by omega, by simpa using hbad, ?_⟩
      intro q hq hqp
      cases q with
      | zero => simpa using hc
      | succ q =>
        have := hgood q (by simpa using hq) (by omega)
        simpa using this

/-- conversely: if every call is `CallOK` the run succeeds -/
theorem runFrom_of_ok {pre : List Call} (s : List Call) (i : Nat) (st : HState) (hinv : Inv pre st)
    (h : ∀ (p : Nat) (hp : p < s.length), CallOK (pre ++ s.take p) s[p]) :
    ∃ st', runFrom i st s = .ok st' := by
  cases hr : runFrom i st s with
  | ok st' => exact ⟨st', rfl⟩
  | error je =>
    obtain ⟨j, e⟩ := je
    obtain ⟨p, hp, _, hbad, _⟩ := runFrom_error s i st j e hinv hr
    exact absurd (h p hp) hbad

theorem live_of_inv {s : List Call} {st : HState} (hinv : Inv s st) (hall : AllDestroyed s) :
    liveHandles st = [] := by
  unfold liveHandles
  rw [List.map_eq_nil_iff, List.filter_eq_nil_iff]
  intro a ha
  obtain ⟨h, hlt, hget⟩ := List.getElem_of_mem ha
  have h1 : st[h]? = some a := by rw [List.getElem?_eq_getElem hlt, hget]
  rw [hinv.get h] at h1
  have hlt' : h < (kindsOf s).length := by rw [← hinv.len]; exact hlt
  rw [List.getElem?_eq_getElem hlt', hall h hlt'] at h1
  simp at h1
  rw [← h1]; simp

end Amgcl.CApi

