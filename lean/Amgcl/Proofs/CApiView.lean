import Amgcl.Model.CApi
import Amgcl.Model.Primitives
import Amgcl.Proofs.KernelsMisc
/-!
# C20 — helper lemmas for the iterator-range view of lib/amgcl.cpp

* congruence: the readers of a `View` depend on it only through `n`, `ptrAt`, `colAt`, `valAt` and the size
  of `col` (never through the end offsets);
* flat arrays: reading `L = pre ++ r ++ post` (columns shifted by `β`, un-shifted again by the transform
  iterator) from offset `|pre|` to `|pre| + |r|` yields `r`, every read in bounds;
* the arrays of a CRS matrix: `ptr[i]` is the length of the first `i` rows.
-/
namespace Amgcl.CApi
open Amgcl

section basic
variable {α β : Type}

theorem rd_map (f : α → β) (a : Array α) (i : Int) : rd (a.map f) i = (rd a i).map f := by
  unfold rd
  split <;> simp

theorem rd_natCast (a : Array α) (i : Nat) : rd a (i : Int) = a[i]? := by
  simp [rd]

theorem rd_toArray (l : List α) (i : Nat) : rd l.toArray (i : Int) = l[i]? := by
  simp [rd]

end basic

section congr
variable {K : Type}

theorem readLoop_congr (v w : View K) (hc : ∀ j, v.colAt j = w.colAt j) (hv : ∀ j, v.valAt j = w.valAt j) :
    ∀ (f : Nat) (j e : Int), v.readLoop f j e = w.readLoop f j e := by
  intro f
  induction f with
  | zero => intro j e; simp [View.readLoop]
  | succ f ih => intro j e; simp [View.readLoop, hc, hv, ih]

theorem rowBegin_congr (v w : View K) (hp : ∀ i, v.ptrAt i = w.ptrAt i) (i : Nat) :
    v.rowBegin i = w.rowBegin i := by simp [View.rowBegin, hp]

theorem rowWidth_congr (v w : View K) (hp : ∀ i, v.ptrAt i = w.ptrAt i) (hs : v.col.size = w.col.size) :
    v.rowWidth = w.rowWidth := by
  funext i; simp [View.rowWidth, rowBegin_congr v w hp, View.fuel, hs]

theorem row_congr (v w : View K) (hp : ∀ i, v.ptrAt i = w.ptrAt i)
    (hc : ∀ j, v.colAt j = w.colAt j) (hv : ∀ j, v.valAt j = w.valAt j) (hs : v.col.size = w.col.size) :
    v.row = w.row := by
  funext i; simp [View.row, rowBegin_congr v w hp, View.fuel, hs, readLoop_congr v w hc hv]

theorem toRows_congr (v w : View K) (hn : v.n = w.n) (hp : ∀ i, v.ptrAt i = w.ptrAt i)
    (hc : ∀ j, v.colAt j = w.colAt j) (hv : ∀ j, v.valAt j = w.valAt j) (hs : v.col.size = w.col.size) :
    v.toRows = w.toRows := by
  simp [View.toRows, hn, rowWidth_congr v w hp hs, row_congr v w hp hc hv hs]

theorem residual_congr [Add K] [Mul K] [Sub K] [Zero K] (v w : View K) (hn : v.n = w.n)
    (hp : ∀ i, v.ptrAt i = w.ptrAt i) (hc : ∀ j, v.colAt j = w.colAt j) (hv : ∀ j, v.valAt j = w.valAt j)
    (hs : v.col.size = w.col.size) (f x : Array K) : v.residual f x = w.residual f x := by
  simp [View.residual, hn, row_congr v w hp hc hv hs]

theorem mulVec_congr [Add K] [Mul K] [Sub K] [Zero K] (v w : View K) (hn : v.n = w.n)
    (hp : ∀ i, v.ptrAt i = w.ptrAt i) (hc : ∀ j, v.colAt j = w.colAt j) (hv : ∀ j, v.valAt j = w.valAt j)
    (hs : v.col.size = w.col.size) (x : Array K) : v.mulVec x = w.mulVec x := by
  simp [View.mulVec, hn, row_congr v w hp hc hv hs]

/-- the view of the `_f` entry points over the shifted arrays reads exactly what the view of the C entry
points reads over the original arrays (same offsets, same values) — whatever the arrays contain -/
theorem fortran_readers_eq (n : Nat) (ptr col : Array Int) (val : Array K) (pn : Int) :
    let v1 : View K := { n := n, pshift := 1, cshift := 1, ptr := ptr.map (· + 1), col := col.map (· + 1), val := val,
                         ptrEnd := n + 1, colEnd := pn + 1, valEnd := pn + 1 }
    let v0 : View K := { n := n, pshift := 0, cshift := 0, ptr := ptr, col := col, val := val,
                         ptrEnd := n + 1, colEnd := pn, valEnd := pn }
    (∀ i, v1.ptrAt i = v0.ptrAt i) ∧ (∀ j, v1.colAt j = v0.colAt j) ∧ (∀ j, v1.valAt j = v0.valAt j)
      ∧ v1.col.size = v0.col.size := by
  intro v1 v0
  have hf : ((fun x : Int => x - 1) ∘ fun x : Int => x + 1) = fun x : Int => x - 0 := by
    funext x; simp
  refine ⟨?_, ?_, ?_, ?_⟩
  · intro i; simp only [v1, v0, View.ptrAt, rd_map, Option.map_map, hf]
  · intro j; simp only [v1, v0, View.colAt, rd_map, Option.map_map, hf]
  · intro j; rfl
  · simp [v1, v0]

end congr

section loops
variable {K : Type}

theorem countLoop_eq : ∀ (f : Nat) (j : Int) (k : Nat), k ≤ f → countLoop f j (j + k) = some k := by
  intro f
  induction f with
  | zero =>
    intro j k hk
    have : k = 0 := by omega
    subst this; simp [countLoop]
  | succ f ih =>
    intro j k hk
    cases k with
    | zero => simp [countLoop]
    | succ k =>
      have hne : ¬ (j = j + ((k + 1 : Nat) : Int)) := by omega
      have hk' : k ≤ f := by omega
      have h2 : j + ((k + 1 : Nat) : Int) = (j + 1) + (k : Int) := by omega
      rw [countLoop, if_neg hne, h2, ih (j + 1) k hk']
      rfl

/-- reading a stretch `r` of a flat array: all reads in bounds, result `r` -/
theorem readLoop_flat (v : View K) (L : List (Nat × K))
    (hc : v.col = (L.map (fun (cv : Nat × K) => (cv.1 : Int) + v.cshift)).toArray)
    (hv : v.val = (L.map (fun (cv : Nat × K) => cv.2)).toArray) :
    ∀ (r pre post : List (Nat × K)) (f : Nat), L = pre ++ r ++ post → r.length ≤ f →
      v.readLoop f (pre.length : Int) ((pre.length : Int) + (r.length : Int))
        = some (r.map (fun (cv : Nat × K) => ((cv.1 : Int), cv.2))) := by
  intro r
  induction r with
  | nil =>
    intro pre post f _ _
    cases f <;> simp [View.readLoop]
  | cons x r ih =>
    intro pre post f hL hf
    cases f with
    | zero => simp at hf
    | succ f =>
      have hne : ¬ ((pre.length : Int) = (pre.length : Int) + (((x :: r).length : Nat) : Int)) := by
        simp only [List.length_cons]; omega
      have hL' : L = (pre ++ [x]) ++ r ++ post := by simp [hL]
      have hget : L[pre.length]? = some x := by
        rw [hL]; simp
      have hcol : v.colAt (pre.length : Int) = some (x.1 : Int) := by
        unfold View.colAt
        rw [hc, rd_toArray, List.getElem?_map, hget]
        simp
      have hval : v.valAt (pre.length : Int) = some x.2 := by
        unfold View.valAt
        rw [hv, rd_toArray, List.getElem?_map, hget]
        simp
      have hrec := ih (pre ++ [x]) post f hL' (by simp at hf; omega)
      have e1 : ((pre ++ [x]).length : Int) = (pre.length : Int) + 1 := by simp
      have e2 : (pre.length : Int) + (((x :: r).length : Nat) : Int) = (pre.length : Int) + 1 + (r.length : Int) := by
        simp only [List.length_cons]; omega
      rw [e1] at hrec
      rw [View.readLoop, if_neg hne, hcol, hval, e2, hrec]
      simp

end loops

section mapM
variable {α β : Type}

theorem mapM_option_eq_some (f : α → Option β) (g : α → β) :
    ∀ (l : List α), (∀ x ∈ l, f x = some (g x)) → l.mapM f = some (l.map g) := by
  intro l
  induction l with
  | nil => intro _; simp
  | cons a t ih =>
    intro h
    have ha := h a (by simp)
    have ht := ih (fun x hx => h x (by simp [hx]))
    simp [List.mapM_cons, ha, ht]

theorem map_range_getD (l : List α) (d : α) (g : α → β) :
    (List.range l.length).map (fun i => g (l.getD i d)) = l.map g := by
  apply List.ext_getElem
  · simp
  · intro i h1 h2
    simp at h1
    simp [h1]

end mapM

section crs
variable {K : Type}

/-- `ptr[i]` of a CRS matrix: total length of the first `i` rows -/
theorem ptr_getElem? (A : CRS K) (i : Nat) (hi : i ≤ A.nrows) :
    A.ptr[i]? = some ((A.rows.toList.take i).flatten.length) := by
  have hlen : (A.rows.toList.map List.length).length = A.nrows := by
    simp [CRS.nrows]
  rw [K2.ptr_eq_scanWidths, K2.scanWidths_eq, List.getElem?_map,
    List.getElem?_range (by rw [hlen]; omega)]
  simp [List.length_flatten, List.map_take]

theorem rows_split (A : CRS K) (i : Nat) (hi : i < A.nrows) :
    A.rows.toList.flatten
      = (A.rows.toList.take i).flatten ++ A.row i ++ (A.rows.toList.drop (i + 1)).flatten := by
  have hi' : i < A.rows.toList.length := by simpa [CRS.nrows] using hi
  have hrow : A.row i = A.rows.toList[i] := by
    simp [CRS.row, CRS.nrows] at *
    simp [hi]
  conv_lhs => rw [← List.take_append_drop i A.rows.toList]
  rw [List.flatten_append, List.drop_eq_getElem_cons hi', List.flatten_cons, hrow, List.append_assoc]

theorem take_succ_flatten_length (A : CRS K) (i : Nat) (hi : i < A.nrows) :
    (A.rows.toList.take (i + 1)).flatten.length
      = (A.rows.toList.take i).flatten.length + (A.row i).length := by
  have hi' : i < A.rows.toList.length := by simpa [CRS.nrows] using hi
  have hrow : A.row i = A.rows.toList[i] := by
    simp [CRS.row, CRS.nrows] at *
    simp [hi]
  rw [List.take_succ_eq_append_getElem hi', List.flatten_append, List.length_append, hrow]
  simp

end crs

section dot
variable {K : Type} [Add K] [Mul K] [Zero K]

theorem foldlM_dot (x : Array K) :
    ∀ (r : List (Nat × K)) (s : K), (∀ cv ∈ r, cv.1 < x.size) →
      (r.map (fun (cv : Nat × K) => ((cv.1 : Int), cv.2))).foldlM
          (fun (s : K) (cv : Int × K) => (rd x cv.1).map (fun xc => s + cv.2 * xc)) s
        = some (r.foldl (fun s cv => s + cv.2 * x.getD cv.1 0) s) := by
  intro r
  induction r with
  | nil => intro s _; simp
  | cons a t ih =>
    intro s h
    have ha : a.1 < x.size := h a (by simp)
    have ht := ih (s + a.2 * x.getD a.1 0) (fun cv hcv => h cv (by simp [hcv]))
    simp only [List.map_cons, List.foldlM_cons, List.foldl_cons]
    rw [rd_natCast]
    have hx : x[a.1]? = some (x.getD a.1 0) := by
      simp [Array.getD, ha]
    rw [hx]
    simpa using ht

theorem rowDotChecked_eq (r : List (Nat × K)) (x : Array K) (h : ∀ cv ∈ r, cv.1 < x.size) :
    rowDotChecked (r.map (fun (cv : Nat × K) => ((cv.1 : Int), cv.2))) x = some (Amgcl.rowDot r x) := by
  unfold rowDotChecked Amgcl.rowDot
  exact foldlM_dot x r 0 h

theorem toArray_map_range_eq_ofFn {β : Type} (n : Nat) (g : Nat → β) :
    ((List.range n).map g).toArray = Array.ofFn (n := n) (fun i => g i) := by
  apply Array.ext
  · simp
  · intro i h1 h2
    simp

end dot

section crsview
variable {K : Type}

/-- the view lib/amgcl.cpp builds over the arrays of `A` stored with index base `β` -/
def crsView (β : Int) (A : CRS K) : View K :=
  { n := A.nrows, pshift := β, cshift := β, ptr := ptrArr β A, col := colArr β A, val := valArr A,
    ptrEnd := (A.nrows : Int) + 1,
    colEnd := (A.rows.toList.flatten.length : Int) + β,
    valEnd := (A.rows.toList.flatten.length : Int) + β }

theorem take_nrows (A : CRS K) : A.rows.toList.take A.nrows = A.rows.toList := by
  simp [CRS.nrows]

theorem mkView_crs (β : Int) (A : CRS K) :
    mkView β A.nrows (ptrArr β A) (colArr β A) (valArr A) = some (crsView β A) := by
  have h : rd (ptrArr β A) (A.nrows : Int) = some ((A.rows.toList.flatten.length : Int) + β) := by
    unfold ptrArr
    rw [rd_toArray, List.getElem?_map, ptr_getElem? A A.nrows (Nat.le_refl _), take_nrows]
    rfl
  simp [mkView, h, crsView]

theorem crsView_ptrAt (β : Int) (A : CRS K) (i : Nat) (hi : i ≤ A.nrows) :
    (crsView β A).ptrAt (i : Int) = some ((A.rows.toList.take i).flatten.length : Int) := by
  unfold View.ptrAt crsView ptrArr
  simp only []
  rw [rd_toArray, List.getElem?_map, ptr_getElem? A i hi]
  simp

theorem crsView_rowBegin (β : Int) (A : CRS K) (i : Nat) (hi : i < A.nrows) :
    (crsView β A).rowBegin i
      = some (((A.rows.toList.take i).flatten.length : Int),
              ((A.rows.toList.take i).flatten.length : Int) + ((A.row i).length : Int)) := by
  have h1 : ((i : Int) + 1) = ((i + 1 : Nat) : Int) := by omega
  unfold View.rowBegin
  rw [h1, crsView_ptrAt β A i (Nat.le_of_lt hi), crsView_ptrAt β A (i + 1) hi,
    take_succ_flatten_length A i hi]
  simp

theorem crsView_fuel (β : Int) (A : CRS K) : (crsView β A).fuel = A.rows.toList.flatten.length + 1 := by
  show ((A.rows.toList.flatten.map _).toArray).size + 1 = _
  rw [List.size_toArray, List.length_map]

theorem row_length_le (A : CRS K) (i : Nat) (hi : i < A.nrows) :
    (A.row i).length ≤ A.rows.toList.flatten.length := by
  rw [rows_split A i hi]; simp; omega

theorem crsView_rowWidth (β : Int) (A : CRS K) (i : Nat) (hi : i < A.nrows) :
    (crsView β A).rowWidth i = some (A.row i).length := by
  unfold View.rowWidth
  rw [crsView_rowBegin β A i hi]
  simp only [Option.bind_eq_bind, Option.bind_some]
  apply countLoop_eq
  rw [crsView_fuel]
  have := row_length_le A i hi
  omega

theorem crsView_row (β : Int) (A : CRS K) (i : Nat) (hi : i < A.nrows) :
    (crsView β A).row i = some ((A.row i).map (fun (cv : Nat × K) => ((cv.1 : Int), cv.2))) := by
  unfold View.row
  rw [crsView_rowBegin β A i hi]
  simp only [Option.bind_eq_bind, Option.bind_some]
  apply readLoop_flat (crsView β A) A.rows.toList.flatten (by simp [crsView, colArr]) (by simp [crsView, valArr])
    (A.row i) (A.rows.toList.take i).flatten (A.rows.toList.drop (i + 1)).flatten _ (rows_split A i hi)
  rw [crsView_fuel]
  have := row_length_le A i hi
  omega

theorem crsView_toRows (β : Int) (A : CRS K) : (crsView β A).toRows = some (intRows A) := by
  unfold View.toRows
  have hw : (List.range (crsView β A).n).mapM (crsView β A).rowWidth
      = some ((List.range (crsView β A).n).map (fun i => (A.row i).length)) := by
    apply mapM_option_eq_some
    intro i hi
    exact crsView_rowWidth β A i (by simpa [crsView] using hi)
  have hr : (List.range (crsView β A).n).mapM (crsView β A).row
      = some ((List.range (crsView β A).n).map
          (fun i => (A.row i).map (fun (cv : Nat × K) => ((cv.1 : Int), cv.2)))) := by
    apply mapM_option_eq_some
    intro i hi
    exact crsView_row β A i (by simpa [crsView] using hi)
  rw [hw, hr]
  simp only [Option.bind_eq_bind, Option.bind_some, Option.pure_def, Option.some.injEq]
  unfold intRows
  congr 1
  have hn : (crsView β A).n = A.rows.toList.length := by simp [crsView, CRS.nrows]
  rw [hn]
  have hrow : ∀ i, A.row i = A.rows.toList.getD i [] := by
    intro i
    simp only [CRS.row, Array.getD, List.getD, Array.getElem?_toList]
    split <;> rename_i h <;> simp [h]
  simp only [hrow]
  exact map_range_getD A.rows.toList [] (fun r => r.map (fun (cv : Nat × K) => ((cv.1 : Int), cv.2)))

theorem row_mem_wf (A : CRS K) (hA : A.WF) (i : Nat) (hi : i < A.nrows) :
    ∀ cv ∈ A.row i, cv.1 < A.ncols := by
  intro cv hcv
  apply hA (A.row i) _ cv hcv
  unfold CRS.row CRS.nrows at *
  simp [hi]

variable [Add K] [Mul K] [Sub K] [Zero K]

theorem crsView_residual (β : Int) (A : CRS K) (hA : A.WF) (f x : Array K)
    (hx : A.ncols ≤ x.size) (hf : A.nrows ≤ f.size) :
    (crsView β A).residual f x = some (Amgcl.residual f A x) := by
  unfold View.residual
  have h : (List.range (crsView β A).n).mapM (fun i => do
        let r ← (crsView β A).row i
        let s ← rowDotChecked r x
        let fi ← rd f i
        pure (fi - s))
      = some ((List.range (crsView β A).n).map (fun i => f.getD i 0 - Amgcl.rowDot (A.row i) x)) := by
    apply mapM_option_eq_some
    intro i hi
    have hi' : i < A.nrows := by simpa [crsView] using hi
    have hfi : rd f (i : Int) = some (f.getD i 0) := by
      rw [rd_natCast]; simp [Array.getD, Nat.lt_of_lt_of_le hi' hf]
    rw [crsView_row β A i hi']
    simp only [Option.bind_eq_bind, Option.bind_some]
    rw [rowDotChecked_eq (A.row i) x (fun cv hcv => Nat.lt_of_lt_of_le (row_mem_wf A hA i hi' cv hcv) hx)]
    simp only [Option.bind_some, hfi, Option.pure_def]
  rw [h]
  simp only [Option.bind_eq_bind, Option.bind_some, Option.pure_def, Option.some.injEq]
  rw [toArray_map_range_eq_ofFn]
  rfl

omit [Sub K] in
theorem crsView_mulVec (β : Int) (A : CRS K) (hA : A.WF) (x : Array K) (hx : A.ncols ≤ x.size) :
    (crsView β A).mulVec x = some (Array.ofFn (n := A.nrows) (fun i => Amgcl.rowDot (A.row i) x)) := by
  unfold View.mulVec
  have h : (List.range (crsView β A).n).mapM (fun i => do
        let r ← (crsView β A).row i
        rowDotChecked r x)
      = some ((List.range (crsView β A).n).map (fun i => Amgcl.rowDot (A.row i) x)) := by
    apply mapM_option_eq_some
    intro i hi
    have hi' : i < A.nrows := by simpa [crsView] using hi
    rw [crsView_row β A i hi']
    simp only [Option.bind_eq_bind, Option.bind_some]
    exact rowDotChecked_eq (A.row i) x (fun cv hcv => Nat.lt_of_lt_of_le (row_mem_wf A hA i hi' cv hcv) hx)
  rw [h]
  simp only [Option.bind_eq_bind, Option.bind_some, Option.pure_def, Option.some.injEq]
  rw [toArray_map_range_eq_ofFn]
  rfl

end crsview

end Amgcl.CApi
