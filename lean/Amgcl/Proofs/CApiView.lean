import Amgcl.Model.CApi
import Amgcl.Model.Primitives
import Amgcl.Proofs.KernelsMisc
/-!
# C20 — helper lemmas for the iterator-range view of lib/amgcl.cpp

* congruence: the readers of a `View` depend on it only through `n`, `ptrAt`, `colAt`, `valAt` and the size
  of `col` (never through the end offsets);
* flat arrays: reading `L = pre ++ r ++ post` (columns shifted by `β`, un-shifted again by the transform
  iterator) from offset `|pre|` to `|pre| + |r|` yields `r`, every read in bounds;
* the arrays of a CRS matrix: `ptr[i]` is the length of the first `i` rows.
-/
namespace Amgcl.CApi
open Amgcl

section basic
variable {α β : Type}

theorem rd_map (f : α → β) (a : Array α) (i : Int) : rd (a.map f) i = (rd a i).map f := by
  unfold rd
  split <;> simp

theorem rd_natCast (a : Array α) (i : Nat) : rd a (i : Int) = a[i]? := by
  simp [rd]

theorem rd_toArray (l : List α) (i : Nat) : rd l.toArray (i : Int) = l[i]? := by
  simp [rd]

end basic

section congr
variable {K : Type}

theorem readLoop_congr (v w : View K) (hc : ∀ j, v.colAt j = w.colAt j) (hv : ∀ j, v.valAt j = w.valAt j) :
    ∀ (f : Nat) (j e : Int), v.readLoop f j e = w.readLoop f j e := by
  intro f
  induction f with
  | zero => intro j e; simp [View.readLoop]
  | succ f ih => intro j e; simp [View.readLoop, hc, hv, ih]

theorem toRows_congr (v w : View K) (hn : v.n = w.n) (hp : ∀ i, v.ptrAt i = w.ptrAt i)
    (hc : ∀ j, v.colAt j = w.colAt j) (hv : ∀ j, v.valAt j = w.valAt j) (hs : v.col.size = w.col.size) :
    v.toRows = w.toRows := by
  have hb : ∀ i, v.rowBegin i = w.rowBegin i := by intro i; simp [View.rowBegin, hp]
  have hf : v.fuel = w.fuel := by simp [View.fuel, hs]
  have hw : v.rowWidth = w.rowWidth := by funext i; simp [View.rowWidth, hb, hf]
  have hr : v.row = w.row := by
    funext i; simp [View.row, hb, hf, readLoop_congr v w hc hv]
  simp [View.toRows, hn, hw, hr]

end congr

section loops
variable {K : Type}

theorem countLoop_eq : ∀ (f : Nat) (j : Int) (k : Nat), k ≤ f → countLoop f j (j + k) = some k := by
  intro f
  induction f with
  | zero =>
    intro j k hk
    have : k = 0 := by omega
    subst this; simp [countLoop]
  | succ f ih =>
    intro j k hk
    cases k with
    | zero => simp [countLoop]
    | succ k =>
      have hne : ¬ (j = j + ((k + 1 : Nat) : Int)) := by omega
      have hk' : k ≤ f := by omega
      have h2 : j + ((k + 1 : Nat) : Int) = (j + 1) + (k : Int) := by omega
      rw [countLoop, if_neg hne, h2, ih (j + 1) k hk']
      rfl

/-- reading a stretch `r` of a flat array: all reads in bounds, result `r` -/
theorem readLoop_flat (v : View K) (L : List (Nat × K))
    (hc : v.col = (L.map (fun (cv : Nat × K) => (cv.1 : Int) + v.shift)).toArray)
    (hv : v.val = (L.map (fun (cv : Nat × K) => cv.2)).toArray) :
    ∀ (r pre post : List (Nat × K)) (f : Nat), L = pre ++ r ++ post → r.length ≤ f →
      v.readLoop f (pre.length : Int) ((pre.length : Int) + (r.length : Int))
        = some (r.map (fun (cv : Nat × K) => ((cv.1 : Int), cv.2))) := by
  intro r
  induction r with
  | nil =>
    intro pre post f _ _
    cases f <;> simp [View.readLoop]
  | cons x r ih =>
    intro pre post f hL hf
    cases f with
    | zero => simp at hf
    | succ f =>
      have hne : ¬ ((pre.length : Int) = (pre.length : Int) + (((x :: r).length : Nat) : Int)) := by
        simp only [List.length_cons]; omega
      have hL' : L = (pre ++ [x]) ++ r ++ post := by simp [hL]
      have hget : L[pre.length]? = some x := by
        rw [hL]; simp
      have hcol : v.colAt (pre.length : Int) = some (x.1 : Int) := by
        unfold View.colAt
        rw [hc, rd_toArray, List.getElem?_map, hget]
        simp
      have hval : v.valAt (pre.length : Int) = some x.2 := by
        unfold View.valAt
        rw [hv, rd_toArray, List.getElem?_map, hget]
        simp
      have hrec := ih (pre ++ [x]) post f hL' (by simp at hf; omega)
      have e1 : ((pre ++ [x]).length : Int) = (pre.length : Int) + 1 := by simp
      have e2 : (pre.length : Int) + (((x :: r).length : Nat) : Int) = (pre.length : Int) + 1 + (r.length : Int) := by
        simp only [List.length_cons]; omega
      rw [e1] at hrec
      rw [View.readLoop, if_neg hne, hcol, hval, e2, hrec]
      simp

end loops

section mapM
variable {α β : Type}

theorem mapM_option_eq_some (f : α → Option β) (g : α → β) :
    ∀ (l : List α), (∀ x ∈ l, f x = some (g x)) → l.mapM f = some (l.map g) := by
  intro l
  induction l with
  | nil => intro _; simp
  | cons a t ih =>
    intro h
    have ha := h a (by simp)
    have ht := ih (fun x hx => h x (by simp [hx]))
    simp [List.mapM_cons, ha, ht]

theorem map_range_getD (l : List α) (d : α) (g : α → β) :
    (List.range l.length).map (fun i => g (l.getD i d)) = l.map g := by
  apply List.ext_getElem
  · simp
  · intro i h1 h2
    simp at h1
    simp [h1]

end mapM

section crs
variable {K : Type}

/-- `ptr[i]` of a CRS matrix: total length of the first `i` rows -/
theorem ptr_getElem? (A : CRS K) (i : Nat) (hi : i ≤ A.nrows) :
    A.ptr[i]? = some ((A.rows.toList.take i).flatten.length) := by
  have hlen : (A.rows.toList.map List.length).length = A.nrows := by
    simp [CRS.nrows]
  rw [K2.ptr_eq_scanWidths, K2.scanWidths_eq, List.getElem?_map,
    List.getElem?_range (by rw [hlen]; omega)]
  simp [List.length_flatten, List.map_take]

theorem rows_split (A : CRS K) (i : Nat) (hi : i < A.nrows) :
    A.rows.toList.flatten
      = (A.rows.toList.take i).flatten ++ A.row i ++ (A.rows.toList.drop (i + 1)).flatten := by
  have hi' : i < A.rows.toList.length := by simpa [CRS.nrows] using hi
  have hrow : A.row i = A.rows.toList[i] := by
    simp [CRS.row, CRS.nrows] at *
    simp [hi]
  conv_lhs => rw [← List.take_append_drop i A.rows.toList]
  rw [List.flatten_append, List.drop_eq_getElem_cons hi', List.flatten_cons, hrow, List.append_assoc]

theorem take_succ_flatten_length (A : CRS K) (i : Nat) (hi : i < A.nrows) :
    (A.rows.toList.take (i + 1)).flatten.length
      = (A.rows.toList.take i).flatten.length + (A.row i).length := by
  have hi' : i < A.rows.toList.length := by simpa [CRS.nrows] using hi
  have hrow : A.row i = A.rows.toList[i] := by
    simp [CRS.row, CRS.nrows] at *
    simp [hi]
  rw [List.take_succ_eq_append_getElem hi', List.flatten_append, List.length_append, hrow]
  simp

end crs

section dot
variable {K : Type} [Add K] [Mul K] [Zero K]

theorem foldlM_dot (x : Array K) :
    ∀ (r : List (Nat × K)) (s : K), (∀ cv ∈ r, cv.1 < x.size) →
      (r.map (fun (cv : Nat × K) => ((cv.1 : Int), cv.2))).foldlM
          (fun (s : K) (cv : Int × K) => (rd x cv.1).map (fun xc => s + cv.2 * xc)) s
        = some (r.foldl (fun s cv => s + cv.2 * x.getD cv.1 0) s) := by
  intro r
  induction r with
  | nil => intro s _; simp
  | cons a t ih =>
    intro s h
    have ha : a.1 < x.size := h a (by simp)
    have ht := ih (s + a.2 * x.getD a.1 0) (fun cv hcv => h cv (by simp [hcv]))
    simp only [List.map_cons, List.foldlM_cons, List.foldl_cons]
    rw [rd_natCast]
    have hx : x[a.1]? = some (x.getD a.1 0) := by
      simp [Array.getD, ha]
    rw [hx]
    simpa using ht

theorem rowDotChecked_eq (r : List (Nat × K)) (x : Array K) (h : ∀ cv ∈ r, cv.1 < x.size) :
    rowDotChecked (r.map (fun (cv : Nat × K) => ((cv.1 : Int), cv.2))) x = some (Amgcl.rowDot r x) := by
  unfold rowDotChecked Amgcl.rowDot
  exact foldlM_dot x r 0 h

theorem toArray_map_range_eq_ofFn {β : Type} (n : Nat) (g : Nat → β) :
    ((List.range n).map g).toArray = Array.ofFn (n := n) (fun i => g i) := by
  apply Array.ext
  · simp
  · intro i h1 h2
    simp

end dot

end Amgcl.CApi
