import Amgcl.Proofs.QRSolve
/-!
`QR::solve` for `rows < cols` (`Model/QR.lean: solveS`, second branch): QR of the transposed matrix through swapped strides,
column oriented forward substitution with `Rᵀ`, `x := (f, 0)`, `x := H_0·…·H_{rows-1}·x`.

* `fwdSub_spec` — with non-vanishing diagonal the forward substitution returns `g` with `Σ_{l ≤ j} R(l,j)·g(l) = b(j)`;
* `applyQ_spec` — the backward reflector loop multiplies by `Q_full`;
* `solveS_wide_spec` — both together.
-/
set_option linter.unusedSectionVars false
namespace Amgcl
namespace QRModel
open Finset Matrix Arr2

variable {K : Type} [Field K] [LinearOrder K] [IsStrictOrderedRing K]

/-- one iteration of the forward substitution loop -/
def fwdStep (rows rs cs : Nat) (F : Array K) (f : Array K) (i : Nat) : Array K :=
  let rii := F.getD (i * (rs + cs)) 0
  if rii = 0 then f else
  let f := f.setIfInBounds i ((1 / rii) * f.getD i 0)
  (List.range' (i + 1) (rows - (i + 1))).foldl (fun f j =>
    f.setIfInBounds j (f.getD j 0 - F.getD (i * cs + j * rs) 0 * f.getD i 0)) f

theorem solveS_wide (sqrt : K → K) (rows cols rs cs : Nat) (A b : Array K) (o : Obj K) (h : ¬ rows ≥ cols) :
    solveS sqrt rows cols rs cs A b o
      = ((List.range rows).reverse.foldl
            (applyQtStep cols cs rs (computeS sqrt cols rows cs rs A o.tau).1 (computeS sqrt cols rows cs rs A o.tau).2)
            (Array.ofFn (n := cols) (fun i => if i.val < rows then
              ((List.range rows).foldl (fwdStep rows rs cs (computeS sqrt cols rows cs rs A o.tau).1)
                (loadF rows b (resizeZ o.f rows))).getD i.val 0 else 0)),
         { o with tau := (computeS sqrt cols rows cs rs A o.tau).2,
                  f := (List.range rows).foldl (fwdStep rows rs cs (computeS sqrt cols rows cs rs A o.tau).1)
                    (loadF rows b (resizeZ o.f rows)) }) := by
  unfold solveS
  rw [if_neg h]
  rfl

/-- `x[j] -= R(j)·x[i]` for the indices `j` of a duplicate-free list that does not contain `i` -/
theorem subInner_spec (R : Nat → K) (i : Nat) : ∀ (l : List Nat) (x : Array K), l.Nodup → i ∉ l → (∀ j ∈ l, j < x.size) →
    (l.foldl (fun x j => x.setIfInBounds j (x.getD j 0 - R j * x.getD i 0)) x).size = x.size ∧
    (∀ j, j ∈ l → (l.foldl (fun x j => x.setIfInBounds j (x.getD j 0 - R j * x.getD i 0)) x).getD j 0
        = x.getD j 0 - R j * x.getD i 0) ∧
    (∀ p, p ∉ l → (l.foldl (fun x j => x.setIfInBounds j (x.getD j 0 - R j * x.getD i 0)) x).getD p 0 = x.getD p 0) := by
  intro l
  induction l with
  | nil => intro x _ _ _; exact ⟨rfl, fun j hj => absurd hj List.not_mem_nil, fun _ _ => rfl⟩
  | cons a t ih =>
    intro x hnd hi hlt
    rw [List.nodup_cons] at hnd
    rw [List.foldl_cons]
    set x1 := x.setIfInBounds a (x.getD a 0 - R a * x.getD i 0) with hx1
    have hai : a ≠ i := fun e => hi (e ▸ List.mem_cons_self)
    have s1 : x1.size = x.size := Array.size_setIfInBounds
    obtain ⟨h1, h2, h3⟩ := ih x1 hnd.2 (fun h => hi (List.mem_cons_of_mem _ h))
      (fun j hj => by rw [s1]; exact hlt j (List.mem_cons_of_mem _ hj))
    have hx1i : x1.getD i 0 = x.getD i 0 := by rw [hx1, getD_setIfInBounds_ne _ _ _ hai]
    refine ⟨by rw [h1, s1], ?_, ?_⟩
    · intro j hj
      rcases List.mem_cons.mp hj with rfl | hjt
      · rw [h3 j hnd.1, hx1, getD_setIfInBounds_self _ _ _ (hlt j List.mem_cons_self)]
      · have hja : a ≠ j := fun e => hnd.1 (e ▸ hjt)
        rw [h2 j hjt, hx1i, hx1, getD_setIfInBounds_ne _ _ _ hja]
    · intro p hp
      have hpa : a ≠ p := fun e => hp (e ▸ List.mem_cons_self)
      rw [h3 p (fun h => hp (List.mem_cons_of_mem _ h)), hx1, getD_setIfInBounds_ne _ _ _ hpa]

theorem fwdStep_spec (rows rs cs : Nat) (F f : Array K) (i : Nat) (hf : f.size = rows) (hi : i < rows)
    (hd : F.getD (i * cs + i * rs) 0 ≠ 0) :
    (fwdStep rows rs cs F f i).size = rows ∧
    (fwdStep rows rs cs F f i).getD i 0 = (1 / F.getD (i * cs + i * rs) 0) * f.getD i 0 ∧
    (∀ j, i < j → j < rows → (fwdStep rows rs cs F f i).getD j 0
        = f.getD j 0 - F.getD (i * cs + j * rs) 0 * (fwdStep rows rs cs F f i).getD i 0) ∧
    (∀ p, p < i → (fwdStep rows rs cs F f i).getD p 0 = f.getD p 0) := by
  unfold fwdStep
  simp only []
  rw [addr_ii, Nat.add_comm (i * rs), if_neg hd]
  set f1 := f.setIfInBounds i ((1 / F.getD (i * cs + i * rs) 0) * f.getD i 0) with hf1
  have s1 : f1.size = f.size := Array.size_setIfInBounds
  obtain ⟨h1, h2, h3⟩ := subInner_spec (fun j => F.getD (i * cs + j * rs) 0) i (List.range' (i + 1) (rows - (i + 1))) f1
    (List.nodup_range' (step := 1))
    (fun h => by have := List.mem_range'_1.mp h; omega)
    (fun j hj => by have := List.mem_range'_1.mp hj; rw [s1, hf]; omega)
  have hfi : f1.getD i 0 = (1 / F.getD (i * cs + i * rs) 0) * f.getD i 0 := by
    rw [hf1, getD_setIfInBounds_self _ _ _ (by rw [hf]; exact hi)]
  have hni : i ∉ List.range' (i + 1) (rows - (i + 1)) := fun h => by have := List.mem_range'_1.mp h; omega
  refine ⟨by rw [h1, s1, hf], ?_, ?_, ?_⟩
  · rw [h3 i hni, hfi]
  · intro j hij hj
    rw [h2 j (List.mem_range'_1.mpr (by omega)), h3 i hni, hf1, getD_setIfInBounds_ne _ _ _ (by omega)]
  · intro p hp
    rw [h3 p (fun h => by have := List.mem_range'_1.mp h; omega), hf1, getD_setIfInBounds_ne _ _ _ (by omega)]

/-- the forward substitution loop: with non-vanishing diagonal, `Σ_{l ≤ j} R(l,j)·g(l) = b(j)` for every `j < rows`
(`R(l,j) = F[l·cs + j·rs]`: the factor of the transposed matrix) -/
theorem fwdSub_spec (rows rs cs : Nat) (F : Array K) (bN : Nat → K)
    (hd : ∀ i, i < rows → F.getD (i * cs + i * rs) 0 ≠ 0) : ∀ i, i ≤ rows → ∀ f : Array K, f.size = rows →
    (∀ j, j < rows → f.getD j 0 = bN j) →
    (((List.range i).foldl (fwdStep rows rs cs F) f).size = rows ∧
     (∀ j, j < i → ∑ l ∈ range (j + 1), F.getD (l * cs + j * rs) 0 * ((List.range i).foldl (fwdStep rows rs cs F) f).getD l 0 = bN j) ∧
     (∀ j, i ≤ j → j < rows → ((List.range i).foldl (fwdStep rows rs cs F) f).getD j 0
        + ∑ l ∈ range i, F.getD (l * cs + j * rs) 0 * ((List.range i).foldl (fwdStep rows rs cs F) f).getD l 0 = bN j)) := by
  intro i
  induction i with
  | zero =>
    intro _ f hf hb
    exact ⟨hf, fun j hj => absurd hj (Nat.not_lt_zero _), fun j _ hj => by
      rw [Finset.range_zero, Finset.sum_empty, add_zero]; exact hb j hj⟩
  | succ i ih =>
    intro hi f hf hb
    obtain ⟨i1, i2, i3⟩ := ih (by omega) f hf hb
    rw [List.range_succ, List.foldl_append]
    simp only [List.foldl_cons, List.foldl_nil]
    set f' := (List.range i).foldl (fwdStep rows rs cs F) f
    obtain ⟨s1, s2, s3, s4⟩ := fwdStep_spec rows rs cs F f' i i1 (by omega) (hd i (by omega))
    set f'' := fwdStep rows rs cs F f' i
    have hlow : ∀ (j a : Nat), a ≤ i → ∑ l ∈ range a, F.getD (l * cs + j * rs) 0 * f''.getD l 0
        = ∑ l ∈ range a, F.getD (l * cs + j * rs) 0 * f'.getD l 0 := by
      intro j a ha
      refine Finset.sum_congr rfl (fun l hl => ?_)
      rw [s4 l (by have := Finset.mem_range.mp hl; omega)]
    refine ⟨s1, ?_, ?_⟩
    · intro j hj
      by_cases hji : j = i
      · subst hji
        rw [Finset.sum_range_succ, hlow j j (Nat.le_refl j), s2, ← i3 j (Nat.le_refl j) (by omega)]
        have := hd j (by omega)
        field_simp
        ring
      · rw [hlow j (j + 1) (by omega)]
        exact i2 j (by omega)
    · intro j hij hj
      rw [Finset.sum_range_succ, hlow j i (Nat.le_refl i), s3 j (by omega) hj, ← i3 j (by omega) hj]
      ring

/-- the backward reflector loop of the wide branch: `x ↦ H_0·…·H_{k-1}·x` -/
theorem applyQ_spec (m rs cs : Nat) (F T : Array K) (k : Nat) (hk : k ≤ m) (x0 : Fin m → K) :
    ∀ i, i ≤ k → ∀ x : Array K, x.size = m → vecOf x m = Qtail F T rs cs m i k *ᵥ x0 →
    ((List.range i).reverse.foldl (applyQtStep m rs cs F T) x).size = m ∧
    vecOf ((List.range i).reverse.foldl (applyQtStep m rs cs F T) x) m = Qtail F T rs cs m 0 k *ᵥ x0 := by
  intro i
  induction i with
  | zero => intro _ x hx h; exact ⟨hx, h⟩
  | succ i ih =>
    intro hi x hx h
    rw [List.range_succ, List.reverse_append, List.reverse_singleton, List.singleton_append, List.foldl_cons]
    obtain ⟨s1, s2⟩ := applyQtStep_spec m rs cs F T x i (by omega) hx
    apply ih (by omega) _ s1
    rw [s2, h, Matrix.mulVec_mulVec, ← Qtail_step _ _ _ _ _ _ _ (by omega)]

/-- `solve` for `rows < cols`: with `(F, T)` the factorisation of the transposed matrix (swapped strides), `Q_full` its
orthogonal factor and `R(l,j) = F[l·cs + j·rs]`: if no diagonal entry of `R` vanishes the result is `x = Q_full·(g, 0)` where
`Σ_{l ≤ j} R(l,j)·g(l) = b(j)` for every `j < rows` -/
theorem solveS_wide_spec (sqrt : K → K) (rows cols rs cs : Nat) (A b : Array K) (o : Obj K) (h : rows < cols)
    (hd : ∀ i, i < rows → (computeS sqrt cols rows cs rs A o.tau).1.getD (i * cs + i * rs) 0 ≠ 0) :
    ∃ g : Array K,
      (∀ j, j < rows → ∑ l ∈ range (j + 1), (computeS sqrt cols rows cs rs A o.tau).1.getD (l * cs + j * rs) 0 * g.getD l 0
          = b.getD j 0) ∧
      (solveS sqrt rows cols rs cs A b o).1.size = cols ∧
      vecOf (solveS sqrt rows cols rs cs A b o).1 cols
        = Qacc (computeS sqrt cols rows cs rs A o.tau).1 (computeS sqrt cols rows cs rs A o.tau).2 cs rs cols rows
            *ᵥ (fun l : Fin cols => if l.val < rows then g.getD l.val 0 else 0) := by
  rw [solveS_wide sqrt rows cols rs cs A b o (by omega)]
  simp only []
  set F := (computeS sqrt cols rows cs rs A o.tau).1
  set T := (computeS sqrt cols rows cs rs A o.tau).2
  obtain ⟨l1, l2⟩ := loadF_spec rows b (resizeZ o.f rows) (resizeZ_size _ _)
  obtain ⟨f1, f2, _⟩ := fwdSub_spec rows rs cs F (fun j => b.getD j 0) hd rows (Nat.le_refl _)
    (loadF rows b (resizeZ o.f rows)) l1 l2
  set g := (List.range rows).foldl (fwdStep rows rs cs F) (loadF rows b (resizeZ o.f rows))
  refine ⟨g, f2, ?_⟩
  obtain ⟨a1, a2⟩ := applyQ_spec cols cs rs F T rows (by omega) (fun l : Fin cols => if l.val < rows then g.getD l.val 0 else 0)
    rows (Nat.le_refl _) (Array.ofFn (n := cols) (fun i => if i.val < rows then g.getD i.val 0 else 0)) Array.size_ofFn
    (by
      rw [Qtail_self, Matrix.one_mulVec]
      funext l
      unfold vecOf
      rw [getD_ofFn _ l.val l.isLt])
  rw [Qtail_zero] at a2
  exact ⟨a1, a2⟩

end QRModel
end Amgcl
