import Amgcl.Proofs.QRFactor
/-!
`QR::solve` for `rows ≥ cols` (`Model/QR.lean: solveS`, first branch): `f := b`, `f := H_{n-1}·…·H_0·f`, `x := f[0:n]`, column
oriented back substitution with `R`.

* `applyQt_spec` — after the reflector loop `f = Q_fullᵀ·b`;
* `backSub_spec` — if no diagonal entry of `R` vanishes the back substitution returns `x` with `R·x = f[0:n]`;
* `solveS_tall_spec` — both together.
-/
set_option linter.unusedSectionVars false
namespace Amgcl
namespace QRModel
open Finset Matrix Arr2

variable {K : Type} [Field K] [LinearOrder K] [IsStrictOrderedRing K]

/-- `f.resize(rows); std::copy(b, b + rows, f.begin())` -/
def loadF (rows : Nat) (b f0 : Array K) : Array K :=
  (List.range rows).foldl (fun f i => f.setIfInBounds i (b.getD i 0)) f0

/-- one iteration of the loop applying `H_i` to `f` -/
def applyQtStep (rows rs cs : Nat) (F T : Array K) (f : Array K) (i : Nat) : Array K :=
  applyReflector (rows - i) 1 F (i * (rs + cs)) rs (T.getD i 0) f i 1 1

/-- one iteration of the back substitution loop -/
def backStep (rs cs : Nat) (F : Array K) (x : Array K) (i : Nat) : Array K :=
  let rii := F.getD (i * (rs + cs)) 0
  if rii = 0 then x else
  let x := x.setIfInBounds i ((1 / rii) * x.getD i 0)
  (List.range i).foldl (fun x j => x.setIfInBounds j (x.getD j 0 - F.getD (i * cs + j * rs) 0 * x.getD i 0)) x

theorem solveS_tall (sqrt : K → K) (rows cols rs cs : Nat) (A b : Array K) (o : Obj K) (h : rows ≥ cols) :
    solveS sqrt rows cols rs cs A b o
      = ((List.range cols).reverse.foldl (backStep rs cs (computeS sqrt rows cols rs cs A o.tau).1)
            (Array.ofFn (n := cols) (fun i => ((List.range cols).foldl
              (applyQtStep rows rs cs (computeS sqrt rows cols rs cs A o.tau).1 (computeS sqrt rows cols rs cs A o.tau).2)
              (loadF rows b (resizeZ o.f rows))).getD i.val 0)),
         { o with tau := (computeS sqrt rows cols rs cs A o.tau).2,
                  f := (List.range cols).foldl
                    (applyQtStep rows rs cs (computeS sqrt rows cols rs cs A o.tau).1 (computeS sqrt rows cols rs cs A o.tau).2)
                    (loadF rows b (resizeZ o.f rows)) }) := by
  unfold solveS
  rw [if_pos h]
  rfl

theorem getD_ofFn {n : Nat} (f : Fin n → K) (i : Nat) (h : i < n) : (Array.ofFn f).getD i 0 = f ⟨i, h⟩ := by
  unfold Array.getD; simp [h]

theorem loadF_spec (rows : Nat) (b f0 : Array K) (h0 : f0.size = rows) :
    (loadF rows b f0).size = rows ∧ ∀ i, i < rows → (loadF rows b f0).getD i 0 = b.getD i 0 := by
  unfold loadF
  refine ⟨?_, ?_⟩
  · rw [foldl_update_size (List.range rows) (fun i => i) (fun i _ => b.getD i 0) f0, h0]
  · intro i hi
    exact foldl_update_getD_mem (List.range rows) (fun i => i) (fun i _ => b.getD i 0) f0
      (List.Pairwise.imp (fun h => Nat.ne_of_lt h) List.pairwise_lt_range)
      (fun a ha => by rw [h0]; exact List.mem_range.mp ha) i (List.mem_range.mpr hi)

/-- the vector held in the first `m` cells of an array -/
def vecOf (f : Array K) (m : Nat) : Fin m → K := fun l => f.getD l.val 0

theorem applyQtStep_spec (rows rs cs : Nat) (F T f : Array K) (i : Nat) (hi : i < rows) (hf : f.size = rows) :
    (applyQtStep rows rs cs F T f i).size = rows ∧
    vecOf (applyQtStep rows rs cs F T f i) rows = Hmat F T rs cs rows i *ᵥ vecOf f rows := by
  unfold applyQtStep
  obtain ⟨a1, a2, a3⟩ := applyReflector_spec (rows - i) 1 (by omega) F (i * (rs + cs)) rs (T.getD i 0) f i 1 1
    (by intro i' j hi' hj; rw [hf]; omega)
    (by intro i' j i'' j' hi' hj hi'' hj' e; omega)
  refine ⟨by rw [a1, hf], ?_⟩
  funext l
  unfold Hmat
  rw [house_mulVec_apply]
  unfold vecOf wvec
  rw [Fin.sum_univ_eq_sum_range (fun r => wnat F rs cs i r * f.getD r 0) rows]
  have hl := l.isLt
  by_cases hli : l.val < i
  · have : wnat F rs cs i l.val = 0 := by simp [wnat, hli]
    rw [this, zero_mul, sub_zero]
    apply a3
    intro i' j hi' hj e
    omega
  · have e1 := a2 0 (l.val - i) (by omega) (by omega)
    rw [show i + 0 * 1 + (l.val - i) * 1 = l.val by omega] at e1
    rw [e1, vv_step, show i + (l.val - i) = l.val by omega]
    congr 3
    unfold colDot
    rw [sum_range_shift rows i (Nat.le_of_lt hi) _ (fun r hr => by simp [wnat, hr])]
    refine Finset.sum_congr rfl (fun j _ => ?_)
    rw [vv_step, show i + 0 * 1 + j * 1 = i + j by omega]

/-- the reflector loop of `solve`: `f = (H_0·…·H_{i-1})ᵀ·f₀` after `i` iterations -/
theorem applyQt_spec (rows rs cs : Nat) (F T f0 : Array K) (hf : f0.size = rows) : ∀ i, i ≤ rows →
    ((List.range i).foldl (applyQtStep rows rs cs F T) f0).size = rows ∧
    vecOf ((List.range i).foldl (applyQtStep rows rs cs F T) f0) rows = (Qacc F T rs cs rows i)ᵀ *ᵥ vecOf f0 rows := by
  intro i
  induction i with
  | zero =>
    intro _
    refine ⟨hf, ?_⟩
    simp [Qacc]
  | succ i ih =>
    intro hi
    obtain ⟨i1, i2⟩ := ih (by omega)
    rw [List.range_succ, List.foldl_append]
    simp only [List.foldl_cons, List.foldl_nil]
    obtain ⟨s1, s2⟩ := applyQtStep_spec rows rs cs F T _ i (by omega) i1
    refine ⟨s1, ?_⟩
    rw [s2, i2, Qacc_succ, Matrix.transpose_mul, Hmat_transpose, Matrix.mulVec_mulVec]

/-! ### back substitution -/

theorem backInner_spec (R : Nat → K) (i : Nat) (x : Array K) (hi : i < x.size) : ∀ i', i' ≤ i →
    ((List.range i').foldl (fun x j => x.setIfInBounds j (x.getD j 0 - R j * x.getD i 0)) x).size = x.size ∧
    (∀ j, j < i' → ((List.range i').foldl (fun x j => x.setIfInBounds j (x.getD j 0 - R j * x.getD i 0)) x).getD j 0
        = x.getD j 0 - R j * x.getD i 0) ∧
    (∀ p, i' ≤ p → ((List.range i').foldl (fun x j => x.setIfInBounds j (x.getD j 0 - R j * x.getD i 0)) x).getD p 0
        = x.getD p 0) := by
  intro i'
  induction i' with
  | zero => intro _; exact ⟨rfl, fun j hj => absurd hj (Nat.not_lt_zero _), fun _ _ => rfl⟩
  | succ i' ih =>
    intro hi'
    obtain ⟨h1, h2, h3⟩ := ih (by omega)
    rw [List.range_succ, List.foldl_append]
    simp only [List.foldl_cons, List.foldl_nil]
    set x' := (List.range i').foldl (fun x j => x.setIfInBounds j (x.getD j 0 - R j * x.getD i 0)) x
    refine ⟨by rw [Array.size_setIfInBounds, h1], ?_, ?_⟩
    · intro j hj
      by_cases hji : j = i'
      · subst hji
        rw [getD_setIfInBounds_self _ _ _ (by rw [h1]; omega), h3 j (Nat.le_refl j), h3 i (by omega)]
      · rw [getD_setIfInBounds_ne _ _ _ (Ne.symm hji)]
        exact h2 j (by omega)
    · intro p hp
      rw [getD_setIfInBounds_ne _ _ _ (by omega)]
      exact h3 p (by omega)

theorem backStep_spec (rs cs : Nat) (F x : Array K) (i : Nat) (hi : i < x.size)
    (hd : F.getD (i * rs + i * cs) 0 ≠ 0) :
    (backStep rs cs F x i).size = x.size ∧
    (backStep rs cs F x i).getD i 0 = (1 / F.getD (i * rs + i * cs) 0) * x.getD i 0 ∧
    (∀ j, j < i → (backStep rs cs F x i).getD j 0 = x.getD j 0 - F.getD (j * rs + i * cs) 0 * (backStep rs cs F x i).getD i 0) ∧
    (∀ p, i < p → (backStep rs cs F x i).getD p 0 = x.getD p 0) := by
  unfold backStep
  simp only []
  rw [addr_ii, if_neg hd]
  set x1 := x.setIfInBounds i ((1 / F.getD (i * rs + i * cs) 0) * x.getD i 0) with hx1
  have s1 : x1.size = x.size := Array.size_setIfInBounds
  obtain ⟨h1, h2, h3⟩ := backInner_spec (fun j => F.getD (i * cs + j * rs) 0) i x1 (by rw [s1]; exact hi) i (Nat.le_refl i)
  have hxi : x1.getD i 0 = (1 / F.getD (i * rs + i * cs) 0) * x.getD i 0 := by
    rw [hx1, getD_setIfInBounds_self _ _ _ hi]
  refine ⟨by rw [h1, s1], ?_, ?_, ?_⟩
  · rw [h3 i (Nat.le_refl i), hxi]
  · intro j hj
    rw [h2 j hj, h3 i (Nat.le_refl i), hx1, getD_setIfInBounds_ne _ _ _ (by omega), Nat.add_comm (i * cs)]
  · intro p hp
    rw [h3 p (by omega), hx1, getD_setIfInBounds_ne _ _ _ (by omega)]

/-- the back substitution loop: with non-vanishing diagonal, `Σ_{c ≥ l} R(l,c)·x(c) = f(l)` for every `l < n` -/
theorem backSub_spec (rs cs n : Nat) (F : Array K) (fN : Nat → K)
    (hd : ∀ i, i < n → F.getD (i * rs + i * cs) 0 ≠ 0) : ∀ i, i ≤ n → ∀ x : Array K, x.size = n →
    (∀ l, i ≤ l → l < n → ∑ c ∈ Ico l n, F.getD (l * rs + c * cs) 0 * x.getD c 0 = fN l) →
    (∀ l, l < i → x.getD l 0 + ∑ c ∈ Ico i n, F.getD (l * rs + c * cs) 0 * x.getD c 0 = fN l) →
    (((List.range i).reverse.foldl (backStep rs cs F) x).size = n ∧
     ∀ l, l < n → ∑ c ∈ Ico l n, F.getD (l * rs + c * cs) 0 * ((List.range i).reverse.foldl (backStep rs cs F) x).getD c 0 = fN l) := by
  intro i
  induction i with
  | zero =>
    intro _ x hx h1 _
    exact ⟨hx, fun l hl => h1 l (Nat.zero_le l) hl⟩
  | succ i ih =>
    intro hi x hx h1 h2
    rw [List.range_succ, List.reverse_append, List.reverse_singleton, List.singleton_append, List.foldl_cons]
    obtain ⟨b1, b2, b3, b4⟩ := backStep_spec rs cs F x i (by omega) (hd i (by omega))
    set x' := backStep rs cs F x i
    have hsplit : ∀ (l : Nat) (y : Array K), ∑ c ∈ Ico i n, F.getD (l * rs + c * cs) 0 * y.getD c 0
        = F.getD (l * rs + i * cs) 0 * y.getD i 0 + ∑ c ∈ Ico (i + 1) n, F.getD (l * rs + c * cs) 0 * y.getD c 0 :=
      fun l y => Finset.sum_eq_sum_Ico_succ_bot (by omega) _
    have htail : ∀ (l a : Nat), i + 1 ≤ a → ∑ c ∈ Ico a n, F.getD (l * rs + c * cs) 0 * x'.getD c 0
        = ∑ c ∈ Ico a n, F.getD (l * rs + c * cs) 0 * x.getD c 0 := by
      intro l a ha
      refine Finset.sum_congr rfl (fun c hc => ?_)
      rw [b4 c (by have := (Finset.mem_Ico.mp hc).1; omega)]
    apply ih (by omega) x' (by rw [b1, hx])
    · intro l hil hln
      by_cases hli : l = i
      · subst hli
        rw [hsplit, htail l (l + 1) (Nat.le_refl _), b2, ← h2 l (by omega)]
        have := hd l (by omega)
        field_simp
      · rw [htail l l (by omega)]
        exact h1 l (by omega) hln
    · intro l hl
      rw [hsplit, htail l (i + 1) (Nat.le_refl _), b3 l hl, ← h2 l (by omega)]
      ring

/-- `solve` for `rows ≥ cols`: the result has `cols` entries and satisfies `R·x = (Q_fullᵀ·b)[0:cols]` as soon as no diagonal
entry of `R` vanishes (`b` is read through `getD`, the members `tau`/`f` of the object may hold anything) -/
theorem solveS_tall_spec (sqrt : K → K) (rows cols rs cs : Nat) (A b : Array K) (o : Obj K) (h : rows ≥ cols)
    (hd : ∀ i, i < cols → (computeS sqrt rows cols rs cs A o.tau).1.getD (i * rs + i * cs) 0 ≠ 0) :
    (solveS sqrt rows cols rs cs A b o).1.size = cols ∧
    ∀ l : Fin cols, ∑ c : Fin cols, getR (computeS sqrt rows cols rs cs A o.tau).1 rs cs l.val c.val
        * (solveS sqrt rows cols rs cs A b o).1.getD c.val 0
      = ((Qacc (computeS sqrt rows cols rs cs A o.tau).1 (computeS sqrt rows cols rs cs A o.tau).2 rs cs rows cols)ᵀ
            *ᵥ vecOf b rows) ⟨l.val, by have := l.isLt; omega⟩ := by
  rw [solveS_tall sqrt rows cols rs cs A b o h]
  simp only []
  set F := (computeS sqrt rows cols rs cs A o.tau).1
  set T := (computeS sqrt rows cols rs cs A o.tau).2
  obtain ⟨l1, l2⟩ := loadF_spec rows b (resizeZ o.f rows) (resizeZ_size _ _)
  obtain ⟨q1, q2⟩ := applyQt_spec rows rs cs F T (loadF rows b (resizeZ o.f rows)) l1 cols h
  set f := (List.range cols).foldl (applyQtStep rows rs cs F T) (loadF rows b (resizeZ o.f rows))
  have hb : vecOf (loadF rows b (resizeZ o.f rows)) rows = vecOf b rows := by
    funext l; exact l2 l.val l.isLt
  rw [hb] at q2
  obtain ⟨r1, r2⟩ := backSub_spec rs cs cols F (fun l => f.getD l 0) hd cols (Nat.le_refl _)
    (Array.ofFn (n := cols) (fun i => f.getD i.val 0)) (Array.size_ofFn)
    (fun l hl hl' => by omega)
    (fun l hl => by
      rw [Finset.Ico_self, Finset.sum_empty, add_zero, getD_ofFn _ l hl])
  refine ⟨r1, ?_⟩
  intro l
  rw [← q2]
  show _ = f.getD l.val 0
  rw [← r2 l.val l.isLt, Fin.sum_univ_eq_sum_range (fun c => getR F rs cs l.val c *
      ((List.range cols).reverse.foldl (backStep rs cs F) (Array.ofFn (n := cols) (fun i => f.getD i.val 0))).getD c 0) cols,
    Finset.range_eq_Ico, ← Finset.sum_Ico_consecutive _ (Nat.zero_le l.val) (Nat.le_of_lt l.isLt)]
  rw [Finset.sum_eq_zero (fun c hc => by
    have := (Finset.mem_Ico.mp hc).2
    unfold getR; rw [if_pos this, zero_mul]), zero_add]
  refine Finset.sum_congr rfl (fun c hc => ?_)
  have := (Finset.mem_Ico.mp hc).1
  unfold getR; rw [if_neg (by omega)]

end QRModel
end Amgcl
