import Amgcl.Proofs.CuthillMcKee
import Amgcl.Proofs.Perm
/-!
`cuthill_mckee::get`: main loop, initialisation, the function as a whole, and independence of the fuel.
-/
namespace Amgcl.CMK
open Amgcl.Arr2

variable {K : Type} {A : CRS K} {n : Nat} {degree : Array Nat} {maxDeg : Nat}

/-! ## the main loop -/

theorem mainLoop_spec (C : Ctx A n degree maxDeg) (reverse : Bool) {walkFuel : Nat} (hfuel : n ≤ walkFuel) :
    ∀ (fuel : Nat) (s : St), Inv n maxDeg s → n ≤ fuel + s.next →
    ∃ s', mainLoop reverse A n degree walkFuel fuel s = .ok s' ∧ Inv n maxDeg s' ∧ s'.next = n ∧
      ∀ k, k < s.next → s'.perm.getD k 0 = s.perm.getD k 0 := by
  intro fuel
  induction fuel with
  | zero =>
    intro s hs hn
    have h1 : ¬ s.next < n := by omega
    exact ⟨s, by simp only [mainLoop, if_neg h1], hs, by have := hs.lab.next_le; omega, fun _ _ => rfl⟩
  | succ fuel ih =>
    intro s hs hn
    by_cases h1 : s.next < n
    · obtain ⟨s1, hl, hI1, hlt, hp1⟩ := level_spec C reverse hfuel hs h1
      obtain ⟨s2, h2, hI2, hn2, hp2⟩ := ih s1 hI1 (by omega)
      refine ⟨s2, by simp only [mainLoop, if_pos h1, hl, Res.bind_ok, h2], hI2, hn2, ?_⟩
      intro k hk
      rw [hp2 k (by omega), hp1 k hk]
    · exact ⟨s, by simp only [mainLoop, if_neg h1], hs, by have := hs.lab.next_le; omega, fun _ _ => rfl⟩

/-! ## degrees -/

theorem le_foldl_max (l : List Nat) : ∀ (init : Nat), init ≤ l.foldl max init ∧ ∀ x ∈ l, x ≤ l.foldl max init := by
  induction l with
  | nil => intro init; exact ⟨Nat.le_refl _, by simp⟩
  | cons a l ih =>
    intro init
    obtain ⟨h1, h2⟩ := ih (max init a)
    refine ⟨Nat.le_trans (Nat.le_max_left _ _) h1, ?_⟩
    intro x hx
    rcases List.mem_cons.mp hx with rfl | hx
    · exact Nat.le_trans (Nat.le_max_right _ _) h1
    · exact h2 x hx

theorem getD_le_maxDegree (degree : Array Nat) (v : Nat) : degree.getD v 0 ≤ maxDegree degree := by
  unfold maxDegree
  rw [← Array.foldl_toList]
  by_cases hv : v < degree.size
  · have : degree.getD v 0 = degree[v] := by simp [Array.getD_eq_getD_getElem?, hv]
    rw [this]
    exact (le_foldl_max degree.toList 0).2 _ (Array.mem_toList_iff.2 (Array.getElem_mem hv))
  · have : degree.getD v 0 = 0 := by simp [Array.getD_eq_getD_getElem?, hv]
    rw [this]; exact Nat.zero_le _

theorem row_mem_rows (A : CRS K) (i : Nat) (hi : i < A.nrows) : A.row i ∈ A.rows.toList := by
  unfold CRS.row
  unfold CRS.nrows at hi
  have : A.rows.getD i [] = A.rows[i] := by simp [Array.getD_eq_getD_getElem?, hi]
  rw [this]
  exact Array.mem_toList_iff.2 (Array.getElem_mem hi)

/-- a square well-formed pattern with its degrees -/
theorem ctx_of_wf (A : CRS K) (hsq : A.ncols = A.nrows) (hwf : A.WF) :
    Ctx A A.nrows (degrees A) (maxDegree (degrees A)) :=
  ⟨rfl, fun i hi cv hcv => hsq ▸ hwf _ (row_mem_rows A i hi) cv hcv, by simp [degrees, CRS.nrows],
   fun v _ => getD_le_maxDegree _ v⟩

/-! ## the state before the main loop -/

theorem initSt_spec (A : CRS K) (perm0 : Array Nat) (hn : 1 ≤ A.nrows) (hp : perm0.size = A.nrows) :
    ∃ s, initSt A perm0 = .ok s ∧ Inv A.nrows (maxDegree (degrees A)) s ∧ s.next = 1 ∧ s.perm.getD 0 0 = 0 := by
  unfold initSt
  have hd0 : (degrees A).getD 0 0 ≤ maxDegree (degrees A) := getD_le_maxDegree _ 0
  have hdsz : (degrees A).size = A.nrows := by simp [degrees, CRS.nrows]
  simp only [bind_def, pure_def]
  rw [wr_ok _ (by omega), Res.bind_ok, wr_ok _ (by rw [Array.size_replicate]; omega), Res.bind_ok,
    rd_ok 0 (by omega), Res.bind_ok, wr_ok _ (by rw [Array.size_replicate]; omega), Res.bind_ok]
  refine ⟨_, rfl, ?_, rfl, getD_setIfInBounds_self _ _ _ (by omega)⟩
  have p0 : (perm0.setIfInBounds 0 0).getD 0 0 = 0 := getD_setIfInBounds_self _ _ _ (by omega)
  have lget : ∀ v, ((Array.replicate A.nrows 0).setIfInBounds 0 1).getD v 0 = if v = 0 then 1 else 0 := by
    intro v
    rw [getD_setIfInBounds, getD_replicate]
    by_cases hv : v = 0
    · subst hv; simp; omega
    · have : ¬ (0 = v) := fun e => hv e.symm
      simp [hv, this]
  have link0 : Link (perm0.setIfInBounds 0 0) 1 ((0 : Nat) : Int) := Or.inr ⟨0, by omega, by rw [p0]⟩
  refine ⟨⟨by simp [hp], by simp, ?_, ?_, ?_⟩, by simp, by simp, by simp, ?_, ?_, ⟨?_, ?_⟩, hd0, Nat.zero_le _, Nat.succ_pos 0⟩
  · intro k (hk : k < 1)
    have : k = 0 := by omega
    subst this
    show (perm0.setIfInBounds 0 0).getD 0 0 < A.nrows ∧ _ ≠ 0
    rw [p0, lget]; simp; omega
  · intro v _ hne
    show ∃ k, k < 1 ∧ (perm0.setIfInBounds 0 0).getD k 0 = v
    have hne' : ((Array.replicate A.nrows 0).setIfInBounds 0 1).getD v 0 ≠ 0 := hne
    rw [lget] at hne'
    by_cases hv : v = 0
    · exact ⟨0, by omega, by rw [p0, hv]⟩
    · simp [hv] at hne'
  · intro j k (hj : j < 1) (hk : k < 1) _
    omega
  · intro d
    show Link _ _ (((Array.replicate (maxDegree (degrees A) + 1) (-1 : Int)).setIfInBounds ((degrees A).getD 0 0)
      ((0 : Nat) : Int)).getD d (-1))
    rw [getD_setIfInBounds, getD_replicate]
    by_cases h : (degrees A).getD 0 0 = d ∧ (degrees A).getD 0 0 < (Array.replicate (maxDegree (degrees A) + 1) (-1 : Int)).size
    · rw [if_pos h]; exact link0
    · rw [if_neg h]; simp only [ite_self]; exact Or.inl rfl
  · intro d
    show Link _ _ ((Array.replicate (maxDegree (degrees A) + 1) (0 : Int)).getD d (-1))
    rw [getD_replicate]
    by_cases h : d < maxDegree (degrees A) + 1
    · rw [if_pos h]; exact link0
    · rw [if_neg h]; exact Or.inl rfl
  · intro k _
    left
    show (Array.replicate A.nrows (-1 : Int)).getD _ (-1) = -1
    rw [getD_replicate]; simp
  · intro v _
    show (Array.replicate A.nrows (-1 : Int)).getD _ (-1) = -1
    rw [getD_replicate]; simp

/-! ## the whole function -/

/-- for every square well-formed pattern with `n ≥ 1`, both variants, every incoming `perm` of length `n` and all fuels
`≥ n`: the outcome is `ok perm` and `perm` is an injective map of `0..n-1` into itself -/
theorem getFuel_spec (reverse : Bool) (A : CRS K) (perm0 : Array Nat) (hn : 1 ≤ A.nrows) (hsq : A.ncols = A.nrows)
    (hwf : A.WF) (hp : perm0.size = A.nrows) {mainFuel walkFuel : Nat} (hm : A.nrows ≤ mainFuel)
    (hw : A.nrows ≤ walkFuel) :
    ∃ perm, getFuel reverse A perm0 mainFuel walkFuel = .ok perm ∧ PermOn A.nrows perm ∧ perm.getD 0 0 = 0 := by
  obtain ⟨s0, h0, hI0, hn0, hz0⟩ := initSt_spec A perm0 hn hp
  obtain ⟨s1, h1, hI1, hn1, hp1⟩ := mainLoop_spec (ctx_of_wf A hsq hwf) reverse hw mainFuel s0 hI0 (by omega)
  refine ⟨s1.perm, by simp only [getFuel, if_neg (by omega : ¬ A.nrows = 0), h0, Res.bind_ok, h1],
    ⟨hI1.lab.hperm, ?_, ?_⟩, ?_⟩
  · intro i hi; exact (hI1.lab.lab i (by omega)).1
  · intro i j hi hj hij; exact hI1.lab.inj i j (by omega) (by omega) hij
  · rw [hp1 0 (by omega), hz0]

/-! ## the result does not depend on the fuel (the fuelled loops are the unbounded loops) -/

theorem foldR_congr_ok {α σ : Type} {f g : σ → α → Res σ}
    (h : ∀ s a s', f s a = .ok s' → g s a = .ok s') :
    ∀ (l : List α) (s s' : σ), foldR f s l = .ok s' → foldR g s l = .ok s' := by
  intro l
  induction l with
  | nil => intro s s' hs; exact hs
  | cons a l ih =>
    intro s s' hs
    simp only [foldR] at hs ⊢
    cases h1 : f s a with
    | ok s1 => rw [h1, Res.bind_ok] at hs; rw [h s a s1 h1, Res.bind_ok]; exact ih s1 s' hs
    | precondition => rw [h1] at hs; exact absurd hs (by simp [Res.bind])
    | oob => rw [h1] at hs; exact absurd hs (by simp [Res.bind])
    | fuel => rw [h1] at hs; exact absurd hs (by simp [Res.bind])

theorem bind_eq_ok {α β : Type} {x : Res α} {f : α → Res β} {b : β} (h : x.bind f = .ok b) :
    ∃ a, x = .ok a ∧ f a = .ok b := by
  cases x with
  | ok a => exact ⟨a, rfl, h⟩
  | precondition => exact absurd h (by simp [Res.bind])
  | oob => exact absurd h (by simp [Res.bind])
  | fuel => exact absurd h (by simp [Res.bind])

/-- more fuel for a list walk does not change an `ok` result -/
theorem walk_fuel_mono (A : CRS K) (degree : Array Nat) : ∀ (fuel : Nat) (node : Int) (s s' : St),
    walk A degree fuel node s = .ok s' → walk A degree (fuel + 1) node s = .ok s' := by
  intro fuel
  induction fuel with
  | zero =>
    intro node s s' h
    by_cases hpos : node > 0
    · simp only [walk, if_pos hpos] at h; exact absurd h (by simp)
    · simp only [walk, if_neg hpos] at h ⊢; exact h
  | succ fuel ih =>
    intro node s s' h
    by_cases hpos : node > 0
    · rw [walk, if_pos hpos] at h
      rw [walk, if_pos hpos]
      by_cases hr : node.toNat < A.nrows
      · rw [if_pos hr] at h ⊢
        obtain ⟨s1, h1, h2⟩ := bind_eq_ok h
        obtain ⟨nd, h3, h4⟩ := bind_eq_ok h2
        rw [h1, Res.bind_ok, h3, Res.bind_ok]
        exact ih nd s1 s' h4
      · rw [if_neg hr] at h; exact absurd h (by simp)
    · simp only [walk, if_neg hpos] at h ⊢; exact h

theorem walk_fuel_le (A : CRS K) (degree : Array Nat) {f f' : Nat} (hff : f ≤ f') (node : Int) (s s' : St)
    (h : walk A degree f node s = .ok s') : walk A degree f' node s = .ok s' := by
  induction hff with
  | refl => exact h
  | step _ ih => exact walk_fuel_mono A degree _ node s s' ih

theorem level_fuel_le (reverse : Bool) (A : CRS K) (n : Nat) (degree : Array Nat) {f f' : Nat} (hff : f ≤ f')
    (s s' : St) (h : level reverse A n degree f s = .ok s') : level reverse A n degree f' s = .ok s' := by
  unfold level at h ⊢
  dsimp only at h ⊢
  obtain ⟨s1, h1, h2⟩ := bind_eq_ok h
  have h1' := foldR_congr_ok (f := scanDegree A degree f) (g := scanDegree A degree f')
    (by
      intro s a s' hs
      unfold scanDegree at hs ⊢
      obtain ⟨nd, h3, h4⟩ := bind_eq_ok hs
      rw [h3, Res.bind_ok]
      exact walk_fuel_le A degree hff nd s s' h4) _ _ _ h1
  rw [h1', Res.bind_ok]
  exact h2

theorem mainLoop_fuel_le (reverse : Bool) (A : CRS K) (n : Nat) (degree : Array Nat) {w w' : Nat} (hww : w ≤ w') :
    ∀ (f : Nat) (s s' : St), mainLoop reverse A n degree w f s = .ok s' →
      ∀ k, mainLoop reverse A n degree w' (f + k) s = .ok s' := by
  intro f
  induction f with
  | zero =>
    intro s s' h k
    by_cases h1 : s.next < n
    · simp only [mainLoop, if_pos h1] at h; exact absurd h (by simp)
    · simp only [mainLoop, if_neg h1] at h
      cases k with
      | zero => simp only [mainLoop, if_neg h1]; exact h
      | succ k => simp only [mainLoop, if_neg h1]; exact h
  | succ f ih =>
    intro s s' h k
    have e : f + 1 + k = (f + k) + 1 := by omega
    rw [e]
    by_cases h1 : s.next < n
    · simp only [mainLoop, if_pos h1] at h ⊢
      obtain ⟨s1, h2, h3⟩ := bind_eq_ok h
      rw [level_fuel_le reverse A n degree hww s s1 h2, Res.bind_ok]
      exact ih s1 s' h3 k
    · simp only [mainLoop, if_neg h1] at h ⊢; exact h

/-- an `ok` result is the result for all larger fuels -/
theorem getFuel_mono (reverse : Bool) (A : CRS K) (perm0 : Array Nat) {m m' w w' : Nat} (hm : m ≤ m') (hw : w ≤ w')
    (perm : Array Nat) (h : getFuel reverse A perm0 m w = .ok perm) : getFuel reverse A perm0 m' w' = .ok perm := by
  unfold getFuel at h ⊢
  by_cases hz : A.nrows = 0
  · rw [if_pos hz] at h ⊢; exact h
  rw [if_neg hz] at h ⊢
  obtain ⟨s0, h0, h1⟩ := bind_eq_ok h
  obtain ⟨s1, h2, h3⟩ := bind_eq_ok h1
  have := mainLoop_fuel_le reverse A A.nrows (degrees A) hw m s0 s1 h2 (m' - m)
  rw [show m + (m' - m) = m' by omega] at this
  rw [h0, Res.bind_ok, this, Res.bind_ok]
  exact h3

end Amgcl.CMK
