import Amgcl.Proofs.SchurMat
/-!
The constructed Schur object in matrix terms (C18): sub-blocks as `submatrix` of the dense matrix, gather / scatter
as composition with the class selection maps, the `Kpp` part of the matrix-free operator for every `adjust_p`.
-/
namespace Amgcl.Schur
open Amgcl Matrix Finset

section mats
variable {K : Type} [CommRing K]

theorem toMat_extractBlock (A : CRS K) (pm : Array Bool) (hA : A.WF) (hn : A.nrows = pm.size) (hc : A.ncols = pm.size)
    (pi pj : Bool) (nc : Nat) :
    toMat (extractBlock A pm (mkIdx pm).1 pi pj (cls pm pi).length nc) (cls pm pi).length (cls pm pj).length
      = (toMat A pm.size pm.size).submatrix (sel pm pi) (sel pm pj) := by
  funext k l
  exact extractBlock_get A pm hA hn hc pi pj nc k.val l.val k.isLt l.isLt

theorem toMat_gather_mulVec (pm : Array Bool) (b : Bool) (w : Fin pm.size → K) :
    toMat (gatherMat pm b : CRS K) (cls pm b).length pm.size *ᵥ w = w ∘ sel pm b := by
  funext k
  show ∑ j : Fin pm.size, rowGet ((gatherMat pm b : CRS K).row k.val) j.val * w j = w (sel pm b k)
  rw [gatherMat_row pm b k.val k.isLt]
  simp only [rowGet_singleton]
  rw [Finset.sum_eq_single (sel pm b k)]
  · simp [sel]
  · intro j _ hj
    have : ¬ (cls pm b)[k.val] = j.val := fun e => hj (Fin.ext e.symm)
    rw [if_neg this, zero_mul]
  · intro h; exact absurd (Finset.mem_univ _) h

theorem toMat_scatter_mulVec (pm : Array Bool) (b : Bool) (v : Fin (cls pm b).length → K) (j : Fin pm.size) :
    (toMat (scatterMat pm (mkIdx pm).1 b (cls pm b).length : CRS K) pm.size (cls pm b).length *ᵥ v) j
      = if h : pm.getD j.val false = b then v ⟨cnt pm b j.val, (cls_getElem_cnt pm b j.val j.isLt h).1⟩ else 0 := by
  show ∑ l : Fin (cls pm b).length,
      rowGet ((scatterMat pm (mkIdx pm).1 b (cls pm b).length : CRS K).row j.val) l.val * v l = _
  rw [scatterMat_row pm b _ j.val j.isLt]
  by_cases h : pm.getD j.val false = b
  · rw [dif_pos h, if_pos h]
    simp only [rowGet_singleton]
    rw [Finset.sum_eq_single ⟨cnt pm b j.val, (cls_getElem_cnt pm b j.val j.isLt h).1⟩]
    · simp
    · intro l _ hl
      have : ¬ cnt pm b j.val = l.val := fun e => hl (Fin.ext e.symm)
      rw [if_neg this, zero_mul]
    · intro hh; exact absurd (Finset.mem_univ _) hh
  · rw [dif_neg h, if_neg h]
    simp

theorem scatter_comp_same (pm : Array Bool) (b : Bool) (v : Fin (cls pm b).length → K) :
    (toMat (scatterMat pm (mkIdx pm).1 b (cls pm b).length : CRS K) pm.size (cls pm b).length *ᵥ v) ∘ sel pm b = v := by
  funext k
  show (toMat _ _ _ *ᵥ v) (sel pm b k) = v k
  rw [toMat_scatter_mulVec, dif_pos (sel_cls pm b k)]
  congr 1
  exact Fin.ext (cnt_cls_getElem pm b k.val k.isLt)

theorem scatter_comp_other (pm : Array Bool) (b b' : Bool) (hb : b' ≠ b) (v : Fin (cls pm b).length → K) :
    (toMat (scatterMat pm (mkIdx pm).1 b (cls pm b).length : CRS K) pm.size (cls pm b).length *ᵥ v) ∘ sel pm b' = 0 := by
  funext k
  show (toMat _ _ _ *ᵥ v) (sel pm b' k) = 0
  rw [toMat_scatter_mulVec, dif_neg]
  rw [sel_cls pm b' k]; exact hb

end mats

section good
variable {K : Type} [Field K] [LinearOrder K]

/-- what the theorems need to know about a constructed object -/
structure Good (S : State K) (A : CRS K) (pm : Array Bool) : Prop where
  hn : S.n = pm.size
  hnu : S.nu = (cls pm false).length
  hnp : S.np = (cls pm true).length
  hKuu : S.Kuu = extractBlock A pm (mkIdx pm).1 false false (cls pm false).length (cls pm false).length
  hKup : S.Kup = extractBlock A pm (mkIdx pm).1 false true (cls pm false).length (cls pm true).length
  hKpu : S.Kpu = extractBlock A pm (mkIdx pm).1 true false (cls pm true).length (cls pm false).length
  hKpp : S.Kpp0 = extractBlock A pm (mkIdx pm).1 true true (cls pm true).length (cls pm true).length
  hx2u : S.x2u = gatherMat pm false
  hx2p : S.x2p = gatherMat pm true
  hu2x : S.u2x = scatterMat pm (mkIdx pm).1 false (cls pm false).length
  hp2x : S.p2x = scatterMat pm (mkIdx pm).1 true (cls pm true).length
  /-- the `Kpp` part of the matrix-free operator is the extracted `Kpp`, whatever `adjust_p` is -/
  hkpp : ∀ x y : Vec K, toV (cls pm true).length (S.kppPart 1 x 0 y)
      = toMat S.Kpp0 (cls pm true).length (cls pm true).length *ᵥ toV (cls pm true).length x
  hkppSize : ∀ x y : Vec K, (S.kppPart 1 x 0 y).size = (cls pm true).length

theorem mkIdx_nu (pm : Array Bool) : (mkIdx pm).2.1 = (cls pm false).length := by rw [mkIdx_eq]; rfl
theorem mkIdx_np (pm : Array Bool) : (mkIdx pm).2.2 = (cls pm true).length := by rw [mkIdx_eq]; rfl

end good

section adjust
variable {K : Type} [CommRing K]

/-- subtracting `s` at the first stored diagonal entry changes the denoted row by `s` at the diagonal — if there is
a stored diagonal entry -/
theorem rowGet_subFirstDiag (i : Nat) (s : K) (r : Row K) (j : Nat) :
    rowGet (subFirstDiag i s r) j
      = rowGet r j - (if i = j ∧ r.any (fun cv => cv.1 = i) then s else 0) := by
  induction r with
  | nil => simp [subFirstDiag]
  | cons cv t ih =>
    unfold subFirstDiag
    by_cases h : cv.1 = i
    · rw [if_pos h, rowGet_cons', rowGet_cons']
      simp only [List.any_cons, h, decide_true, Bool.true_or, and_true]
      by_cases hij : i = j
      · subst hij; simp; ring
      · simp [hij]
    · rw [if_neg h, rowGet_cons', rowGet_cons', ih]
      simp only [List.any_cons, h, decide_false, Bool.false_or]
      ring

end adjust

end Amgcl.Schur

namespace Amgcl.Schur
open Amgcl Matrix Finset

section initGood
variable {K : Type} [Field K] [LinearOrder K]

theorem adjust1_row (L : Vec K) (Kpp : CRS K) (b : Nat) (hb : b < Kpp.nrows) :
    (adjust1 L Kpp).row b = subFirstDiag b (L.getD b 0) (Kpp.row b) := by
  unfold adjust1 CRS.row
  simp only [Array.getD_eq_getD_getElem?, Array.getElem?_mapIdx]
  have : Kpp.rows[b]? = some Kpp.rows[b] := Array.getElem?_eq_getElem hb
  rw [this]; rfl

theorem adjust1_nrows (L : Vec K) (Kpp : CRS K) : (adjust1 L Kpp).nrows = Kpp.nrows := by
  unfold adjust1 CRS.nrows; simp

theorem subFirstDiag_cols (i : Nat) (s : K) (r : Row K) : (subFirstDiag i s r).map (·.1) = r.map (·.1) := by
  induction r with
  | nil => rfl
  | cons cv t ih =>
    unfold subFirstDiag
    split
    · rfl
    · simp [ih]

theorem adjust1_wf (L : Vec K) (Kpp : CRS K) (h : Kpp.WF) : (adjust1 L Kpp).WF := by
  rw [K2.wf_iff_row] at h ⊢
  intro b hb cv hcv
  rw [adjust1_nrows] at hb
  rw [adjust1_row L Kpp b hb] at hcv
  have h1 : cv.1 ∈ (subFirstDiag b (L.getD b 0) (Kpp.row b)).map (·.1) := List.mem_map_of_mem hcv
  rw [subFirstDiag_cols] at h1
  obtain ⟨e, he, hee⟩ := List.mem_map.1 h1
  show cv.1 < Kpp.ncols
  rw [← hee]; exact h b hb e he

/-- `adjust_p = 1`: the adjusted matrix plus the kept correction is the extracted `Kpp` (the correction is kept only
where it was subtracted) -/
theorem adjust1_get (d : Vec K) (Kpu Kup Kpp : CRS K) (b b' : Nat) (hb : b < Kpp.nrows) (hr : Kpu.nrows = Kpp.nrows) :
    (adjust1 (adjustL d Kpu Kup Kpp) Kpp).get b b'
      = Kpp.get b b' - (if b = b' then (adjustL d Kpu Kup Kpp).getD b 0 else 0) := by
  unfold CRS.get
  rw [adjust1_row _ _ b hb, rowGet_subFirstDiag]
  congr 1
  by_cases hbb : b = b'
  · subst hbb
    by_cases hany : (Kpp.row b).any (fun cv => cv.1 = b) = true
    · simp [hany]
    · have : (adjustL d Kpu Kup Kpp).getD b 0 = 0 := by
        unfold adjustL
        rw [getD_ofFn_lt _ _ _ (by omega)]
        simp only [hany]
        simp
      simp [hany, this]
  · simp [hbb]

end initGood
end Amgcl.Schur

namespace Amgcl.Schur
open Amgcl Matrix Finset

section initGood2
variable {K : Type} [Field K] [LinearOrder K]

theorem init_good (nt : Nat) (prm : Params) (A : CRS K) (pm : Array Bool) (hA : A.WF) (hn : A.nrows = pm.size)
    (hc : A.ncols = pm.size) : Good (init nt prm A pm) A pm := by
  have hKppwf := extractBlock_wf A pm hA hn hc true true
  have hKppn := extractBlock_nrows A pm hn true true (cls pm true).length
  have hKpun := extractBlock_nrows A pm hn true false (cls pm false).length
  refine { hn := hn, hnu := mkIdx_nu pm, hnp := mkIdx_np pm, hKuu := ?_, hKup := ?_, hKpu := ?_, hKpp := ?_,
           hx2u := rfl, hx2p := rfl, hu2x := ?_, hp2x := ?_, hkpp := ?_, hkppSize := ?_ }
  · show extractBlock A pm (mkIdx pm).1 false false (mkIdx pm).2.1 (mkIdx pm).2.1 = _
    rw [mkIdx_nu]
  · show extractBlock A pm (mkIdx pm).1 false true (mkIdx pm).2.1 (mkIdx pm).2.2 = _
    rw [mkIdx_nu, mkIdx_np]
  · show extractBlock A pm (mkIdx pm).1 true false (mkIdx pm).2.2 (mkIdx pm).2.1 = _
    rw [mkIdx_nu, mkIdx_np]
  · show extractBlock A pm (mkIdx pm).1 true true (mkIdx pm).2.2 (mkIdx pm).2.2 = _
    rw [mkIdx_np]
  · show scatterMat pm (mkIdx pm).1 false (mkIdx pm).2.1 = _
    rw [mkIdx_nu]
  · show scatterMat pm (mkIdx pm).1 true (mkIdx pm).2.2 = _
    rw [mkIdx_np]
  · intro x y
    unfold State.kppPart
    simp only [init, mkIdx_nu, mkIdx_np]
    set Kpp := extractBlock A pm (mkIdx pm).1 true true (cls pm true).length (cls pm true).length with hKppdef
    by_cases h1 : prm.adjustP = 1
    · simp only [h1, if_true, Option.getD_some]
      set L := adjustL _ _ _ Kpp with hL
      have hLsz : L.size = (cls pm true).length := by rw [hL]; unfold adjustL; simp [hKpun]
      rw [toV_vmul _ _ _ _ _ _ hLsz,
        toV_spmv' 1 0 _ x y (adjust1_wf L Kpp hKppwf) (cls pm true).length (cls pm true).length
          (by rw [adjust1_nrows]; exact hKppn) rfl]
      funext b
      simp only [Pi.add_apply, Pi.smul_apply, smul_eq_mul, one_mul, zero_mul, add_zero]
      have hm : (toMat (adjust1 L Kpp) (cls pm true).length (cls pm true).length *ᵥ toV (cls pm true).length x) b
          = (toMat Kpp (cls pm true).length (cls pm true).length *ᵥ toV (cls pm true).length x) b
            - toV (cls pm true).length L b * toV (cls pm true).length x b := by
        unfold Matrix.mulVec dotProduct
        have : ∀ j : Fin (cls pm true).length,
            toMat (adjust1 L Kpp) (cls pm true).length (cls pm true).length b j * toV (cls pm true).length x j
            = toMat Kpp (cls pm true).length (cls pm true).length b j * toV (cls pm true).length x j
              - (if b = j then toV (cls pm true).length L b * toV (cls pm true).length x b else 0) := by
          intro j
          unfold toMat
          rw [hL, adjust1_get _ _ _ Kpp b.val j.val (by rw [hKppn]; exact b.isLt) (by rw [hKpun, hKppn])]
          by_cases hbj : b = j
          · subst hbj; simp [toV]; ring
          · have : ¬ b.val = j.val := fun e => hbj (Fin.ext e)
            simp [hbj, this]
        rw [Finset.sum_congr rfl (fun j _ => this j), Finset.sum_sub_distrib, Finset.sum_ite_eq]
        simp
      rw [hm]; ring
    · by_cases h2 : prm.adjustP = 2
      · simp only [h2, if_true, Option.getD_some]
        have : ¬ (2 : Nat) = 1 := by omega
        simp only [this, if_false]
        rw [toV_spmv' 1 0 Kpp x y hKppwf (cls pm true).length (cls pm true).length hKppn rfl]
        simp
      · simp only [h1, h2, if_false]
        rw [toV_spmv' 1 0 Kpp x y hKppwf (cls pm true).length (cls pm true).length hKppn rfl]
        simp
  · intro x y
    unfold State.kppPart
    simp only [init, mkIdx_nu, mkIdx_np]
    by_cases h1 : prm.adjustP = 1
    · simp only [h1, if_true, Option.getD_some]
      unfold vmul adjustL
      split <;> simp [hKpun]
    · by_cases h2 : prm.adjustP = 2
      · have : ¬ (2 : Nat) = 1 := by omega
        simp only [h2, this, if_true, if_false, Option.getD_some]
        rw [spmv_size'']; exact hKppn
      · simp only [h1, h2, if_false]
        rw [spmv_size'']; exact hKppn

end initGood2
end Amgcl.Schur
