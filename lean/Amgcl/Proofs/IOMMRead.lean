import Amgcl.Proofs.IOMMWF
/-!
The repaired sparse MatrixMarket reader: every returned matrix is structurally valid, no access leaves a buffer
(helper file for C19).
-/
namespace Amgcl.IO
variable {V : Type}

theorem intOfDigits_signed_range (neg : Bool) (n : Nat) (v : Int) (h : intOfDigits true 64 neg n = some v) :
    -9223372036854775808 ≤ v ∧ v < 9223372036854775808 := by
  unfold intOfDigits at h
  simp only [if_true] at h
  have e : (2 : Nat) ^ (64 - 1) = 9223372036854775808 := by decide
  rw [e] at h
  split at h <;> split at h <;> first | contradiction | (injection h with h; subst h; omega)

theorem extractInt_signed_range (s r : Bytes) (v : Int) (h : extractInt true 64 s = some (v, r)) :
    -9223372036854775808 ≤ v ∧ v < 9223372036854775808 := by
  unfold extractInt at h
  simp only [] at h
  split at h
  · contradiction
  · split at h
    · rename_i v' hv
      injection h with h; injection h with h1 h2
      subst h1
      exact intOfDigits_signed_range _ _ _ hv
    · contradiction

/-- an entry that passed the repaired reader's range check addresses a cell of the `n × m` matrix -/
def EntryOk (n m : Int) (e : Int × Int × V) : Prop := 0 ≤ e.1 ∧ e.1 < n ∧ 0 ≤ e.2.1 ∧ e.2.1 < m

theorem parseEntry_ok (n m : Int) (vk : ValKind V) (line : Bytes) (e : Int × Int × V)
    (h : parseEntry true n m vk line = .ok e) : EntryOk n m e := by
  unfold parseEntry at h
  split at h
  · contradiction
  · split at h
    · contradiction
    · split at h
      · contradiction
      · rename_i hchk
        split at h
        · contradiction
        · injection h with h
          subst h
          simp at hchk
          unfold EntryOk
          simp only []
          omega

theorem parseEntries_ok (n m : Int) (vk : ValKind V) (k : Nat) (lines : List Bytes) (es : List (Int × Int × V))
    (h : parseEntries true n m vk k lines = .ok es) : ∀ e ∈ es, EntryOk n m e := by
  induction k generalizing lines es with
  | zero =>
    simp only [parseEntries] at h
    injection h with h; subst h; intro e he; cases he
  | succ k ih =>
    cases lines with
    | nil => simp [parseEntries] at h
    | cons l ls =>
      simp only [parseEntries] at h
      split at h
      · rename_i e0 he0
        split at h
        · rename_i es0 hes0
          injection h with h; subst h
          intro e he
          rcases List.mem_cons.mp he with rfl | he
          · exact parseEntry_ok n m vk l _ he0
          · exact ih ls es0 hes0 e he
        · contradiction
        · contradiction
      · contradiction
      · contradiction

theorem keepEntries_ok (sym : Bool) (n m b e : Int) (hb : 0 ≤ b) (hbe : b ≤ e) (hen : e ≤ n)
    (hsym : sym = true → n = m) (es : List (Int × Int × V)) (hes : ∀ x ∈ es, EntryOk n m x) :
    ∀ x ∈ keepEntries sym b e es, x.1 < (e - b).toNat ∧ 0 ≤ x.2.1 ∧ x.2.1 < m := by
  induction es with
  | nil => intro x hx; cases hx
  | cons a t ih =>
    obtain ⟨i, j, v⟩ := a
    have ha : EntryOk n m (i, j, v) := hes _ (by simp)
    unfold EntryOk at ha
    simp only [] at ha
    intro x hx
    simp only [keepEntries, List.mem_append] at hx
    rcases hx with hx | hx | hx
    · split at hx
      · simp only [List.mem_singleton] at hx
        subst hx
        simp only []
        omega
      · cases hx
    · split at hx
      · rename_i hc
        simp only [List.mem_singleton] at hx
        subst hx
        have := hsym hc.1
        simp only []
        omega
      · cases hx
    · exact ih (fun y hy => hes y (by simp [hy])) x hx

end Amgcl.IO
