import Amgcl.Proofs.IOMMWF
/-!
The repaired sparse MatrixMarket reader: every returned matrix is structurally valid, no access leaves a buffer
(helper file for C19).
-/
namespace Amgcl.IO
variable {V : Type}

theorem intOfDigits_signed_range (neg : Bool) (n : Nat) (v : Int) (h : intOfDigits true 64 neg n = some v) :
    -9223372036854775808 ≤ v ∧ v < 9223372036854775808 := by
  unfold intOfDigits at h
  simp only [if_true] at h
  have e : (2 : Nat) ^ (64 - 1) = 9223372036854775808 := by decide
  rw [e] at h
  split at h <;> split at h <;> first | contradiction | (injection h with h; subst h; omega)

theorem extractInt_signed_range (s r : Bytes) (v : Int) (h : extractInt true 64 s = some (v, r)) :
    -9223372036854775808 ≤ v ∧ v < 9223372036854775808 := by
  unfold extractInt at h
  simp only [] at h
  split at h
  · contradiction
  · split at h
    · rename_i v' hv
      injection h with h; injection h with h1 h2
      subst h1
      exact intOfDigits_signed_range _ _ _ hv
    · contradiction

/-- an entry that passed the repaired reader's range check addresses a cell of the `n × m` matrix -/
def EntryOk (n m : Int) (e : Int × Int × V) : Prop := 0 ≤ e.1 ∧ e.1 < n ∧ 0 ≤ e.2.1 ∧ e.2.1 < m

theorem parseEntry_ok (n m : Int) (vk : ValKind V) (line : Bytes) (e : Int × Int × V)
    (h : parseEntry true n m vk line = .ok e) : EntryOk n m e := by
  unfold parseEntry at h
  split at h
  · contradiction
  · split at h
    · contradiction
    · split at h
      · contradiction
      · rename_i hchk
        split at h
        · contradiction
        · injection h with h
          subst h
          simp at hchk
          unfold EntryOk
          simp only []
          omega

theorem parseEntries_ok (n m : Int) (vk : ValKind V) (k : Nat) (lines : List Bytes) (es : List (Int × Int × V))
    (h : parseEntries true n m vk k lines = .ok es) : ∀ e ∈ es, EntryOk n m e := by
  induction k generalizing lines es with
  | zero =>
    simp only [parseEntries] at h
    injection h with h; subst h; intro e he; cases he
  | succ k ih =>
    cases lines with
    | nil => simp [parseEntries] at h
    | cons l ls =>
      simp only [parseEntries] at h
      split at h
      · rename_i e0 he0
        split at h
        · rename_i es0 hes0
          injection h with h; subst h
          intro e he
          rcases List.mem_cons.mp he with rfl | he
          · exact parseEntry_ok n m vk l _ he0
          · exact ih ls es0 hes0 e he
        · contradiction
        · contradiction
      · contradiction
      · contradiction

theorem keepEntries_ok (sym : Bool) (n m b e : Int) (hb : 0 ≤ b) (hbe : b ≤ e) (hen : e ≤ n)
    (hsym : sym = true → n = m) (es : List (Int × Int × V)) (hes : ∀ x ∈ es, EntryOk n m x) :
    ∀ x ∈ keepEntries sym b e es, x.1 < (e - b).toNat ∧ 0 ≤ x.2.1 ∧ x.2.1 < m := by
  induction es with
  | nil => intro x hx; cases hx
  | cons a t ih =>
    obtain ⟨i, j, v⟩ := a
    have ha : EntryOk n m (i, j, v) := hes _ (by simp)
    unfold EntryOk at ha
    simp only [] at ha
    intro x hx
    simp only [keepEntries, List.mem_append] at hx
    rcases hx with hx | hx | hx
    · split at hx
      · simp only [List.mem_singleton] at hx
        subst hx
        simp only []
        omega
      · cases hx
    · split at hx
      · rename_i hc
        simp only [List.mem_singleton] at hx
        subst hx
        have := hsym hc.1
        simp only []
        omega
      · cases hx
    · exact ih (fun y hy => hes y (by simp [hy])) x hx

end Amgcl.IO

namespace Amgcl.IO
variable {V : Type}

theorem parseEntry_ne_oob (fixed : Bool) (n m : Int) (vk : ValKind V) (line : Bytes) :
    parseEntry fixed n m vk line ≠ .oob := by
  unfold parseEntry
  repeat' split
  all_goals simp

theorem parseEntries_ne_oob (fixed : Bool) (n m : Int) (vk : ValKind V) (k : Nat) (lines : List Bytes) :
    parseEntries fixed n m vk k lines ≠ .oob := by
  induction k generalizing lines with
  | zero => simp [parseEntries]
  | succ k ih =>
    cases lines with
    | nil => simp [parseEntries]
    | cons l ls =>
      simp only [parseEntries]
      split
      · split
        · simp
        · simp
        · rename_i h; exact absurd h (ih ls)
      · simp
      · rename_i h; exact absurd h (parseEntry_ne_oob fixed n m vk l)

theorem mmOpen_ne_oob (file : Bytes) : mmOpen file ≠ .oob := by
  unfold mmOpen
  repeat' split
  all_goals simp

theorem mmSparseHeader_ne_oob (fixed : Bool) (vk : ValKind V) (file : Bytes) : mmSparseHeader fixed vk file ≠ .oob := by
  unfold mmSparseHeader
  split
  · simp
  · rename_i h; exact absurd h (mmOpen_ne_oob file)
  · repeat' split
    all_goals simp

theorem mmSparseHeader_fixed (vk : ValKind V) (file : Bytes) (h : SparseHeader)
    (hh : mmSparseHeader true vk file = .ok h) :
    0 ≤ h.n ∧ 0 ≤ h.m ∧ (h.sym = true → h.n = h.m) ∧ h.m < 9223372036854775808 := by
  unfold mmSparseHeader at hh
  split at hh
  · contradiction
  · contradiction
  · split at hh
    · contradiction
    · split at hh
      · contradiction
      · split at hh
        · contradiction
        · split at hh
          · contradiction
          · split at hh
            · contradiction
            · rename_i hm
              split at hh
              · contradiction
              · split at hh
                · contradiction
                · rename_i hchk
                  injection hh with hh
                  subst hh
                  have := extractInt_signed_range _ _ _ hm
                  simp at hchk
                  simp only []
                  exact ⟨hchk.1.1, hchk.1.2, hchk.2, this.2⟩

/-- the body of the repaired reader, on a header and a row range that passed their checks -/
theorem mmSparseBody_wf (memLimit : Nat) (vk : ValKind V) (h : SparseHeader) (b e : Int)
    (hn : 0 ≤ h.n) (hm : 0 ≤ h.m) (hm63 : h.m < 9223372036854775808) (hsym : h.sym = true → h.n = h.m)
    (hb : 0 ≤ b) (hbe : b ≤ e) (hen : e ≤ h.n) :
    mmSparseBody true memLimit vk h b e = .error ∨
    ∃ A, mmSparseBody true memLimit vk h b e = .ok A ∧ A.WF ∧ A.nrows = (e - b).toNat ∧ A.ncols = h.m.toNat := by
  unfold mmSparseBody
  simp only []
  split
  · left; rfl
  · split
    · left; rfl
    · split
      · left; rfl
      · rename_i hp; exact absurd hp (parseEntries_ne_oob _ _ _ _ _ _)
      · rename_i entries hp
        rw [if_neg (by omega)]
        right
        have hw : wrapU64 h.m = h.m.toNat := by
          unfold wrapU64; rw [Int.emod_eq_of_lt hm (by omega)]
        rw [hw]
        have hk := keepEntries_ok h.sym h.n h.m b e hb hbe hen hsym entries (parseEntries_ok _ _ _ _ _ _ hp)
        obtain ⟨A, hA, hwf, h1, h2⟩ := assemble_wf vk.zero (e - b).toNat h.m.toNat (keepEntries h.sym b e entries)
          (fun x hx => by
            have := hk x hx
            refine ⟨this.1, this.2.1, ?_⟩
            rw [Int.toNat_of_nonneg hm]; exact this.2.2)
        exact ⟨A, hA, hwf, h1, h2⟩

/-- **Every input**: the repaired sparse MatrixMarket reader throws or returns a structurally valid matrix; it
never touches memory outside its buffers. -/
theorem mmReadSparse_error_or_wf (memLimit : Nat) (vk : ValKind V) (file : Bytes) (rb re : Int) :
    mmReadSparse true memLimit vk file rb re = .error ∨
    ∃ A, mmReadSparse true memLimit vk file rb re = .ok A ∧ A.WF := by
  unfold mmReadSparse
  split
  · left; rfl
  · rename_i h; exact absurd h (mmSparseHeader_ne_oob _ _ _)
  · rename_i h hh
    obtain ⟨hn, hm, hsym, hm63⟩ := mmSparseHeader_fixed vk file h hh
    split
    · left; rfl
    · rename_i b e hr
      obtain ⟨hb, hbe, hen, _, _⟩ := rowRange_fixed _ _ _ _ _ hr
      rcases mmSparseBody_wf memLimit vk h b e hn hm hm63 hsym hb hbe hen with h1 | ⟨A, h1, h2, _, _⟩
      · left; exact h1
      · right; exact ⟨A, h1, h2⟩

end Amgcl.IO
