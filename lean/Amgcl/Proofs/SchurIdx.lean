import Amgcl.Model.Schur
import Amgcl.Proofs.RowGet
import Amgcl.Proofs.KernelsCommon
/-!
Combinatorics of the `pmask` partition (C18): the renumbering `idx` computed by the counter loop is, inside each
class, the position in the increasing list of the indices of that class; the extracted sub-blocks, the gather and
the scatter matrices are described entrywise through that list.
-/
namespace Amgcl.Schur
open Amgcl

/-- the indices of class `b` (`false` = u, `true` = p) in increasing order -/
def cls (pm : Array Bool) (b : Bool) : List Nat := (List.range pm.size).filter (fun i => pm.getD i false = b)

/-- number of indices of class `b` below `i` -/
def cnt (pm : Array Bool) (b : Bool) (i : Nat) : Nat := ((List.range i).filter (fun j => pm.getD j false = b)).length

theorem cnt_succ (pm : Array Bool) (b : Bool) (i : Nat) :
    cnt pm b (i + 1) = if pm.getD i false = b then cnt pm b i + 1 else cnt pm b i := by
  unfold cnt
  rw [List.range_succ, List.filter_append, List.length_append]
  by_cases h : pm.getD i false = b
  · rw [if_pos h, List.filter_cons_of_pos (by exact decide_eq_true h)]; rfl
  · rw [if_neg h, List.filter_cons_of_neg (by simpa using h)]; rfl

theorem cnt_mono (pm : Array Bool) (b : Bool) {i j : Nat} (h : i ≤ j) : cnt pm b i ≤ cnt pm b j := by
  induction j with
  | zero => have : i = 0 := by omega
            subst this; exact Nat.le_refl _
  | succ k ih =>
    by_cases hk : i ≤ k
    · have := ih hk
      rw [cnt_succ]; split <;> omega
    · have : i = k + 1 := by omega
      subst this; exact Nat.le_refl _

theorem cnt_lt_of_lt (pm : Array Bool) (b : Bool) {i j : Nat} (h : i < j) (hi : pm.getD i false = b) :
    cnt pm b i < cnt pm b j := by
  have h1 : cnt pm b (i + 1) ≤ cnt pm b j := cnt_mono pm b h
  rw [cnt_succ, if_pos hi] at h1
  omega

theorem cls_length (pm : Array Bool) (b : Bool) : (cls pm b).length = cnt pm b pm.size := rfl

/-- the state of the counter loop after `m` steps -/
theorem mkIdx_fold (pm : Array Bool) (m : Nat) :
    (List.range m).foldl (fun (s : Array Nat × Nat × Nat) i =>
      if pm.getD i false then (s.1.push s.2.2, s.2.1, s.2.2 + 1)
      else (s.1.push s.2.1, s.2.1 + 1, s.2.2)) (#[], 0, 0)
    = (((List.range m).map (fun i => cnt pm (pm.getD i false) i)).toArray, cnt pm false m, cnt pm true m) := by
  induction m with
  | zero => simp [cnt]
  | succ k ih =>
    rw [List.range_succ, List.foldl_append, ih]
    simp only [List.foldl_cons, List.foldl_nil, List.map_append, List.map_cons, List.map_nil]
    rw [cnt_succ, cnt_succ]
    cases h : pm.getD k false <;> simp [List.push_toArray]

theorem mkIdx_eq (pm : Array Bool) :
    mkIdx pm = (((List.range pm.size).map (fun i => cnt pm (pm.getD i false) i)).toArray,
                cnt pm false pm.size, cnt pm true pm.size) := by
  unfold mkIdx; exact mkIdx_fold pm pm.size

theorem mkIdx_size (pm : Array Bool) : (mkIdx pm).1.size = pm.size := by rw [mkIdx_eq]; simp

theorem mkIdx_getD (pm : Array Bool) (i : Nat) (hi : i < pm.size) :
    (mkIdx pm).1.getD i 0 = cnt pm (pm.getD i false) i := by
  rw [mkIdx_eq]; simp [Array.getD, hi]

/-- position `cnt b i` of the class list holds `i` -/
theorem cls_getElem_cnt (pm : Array Bool) (b : Bool) (i : Nat) (hi : i < pm.size) (hb : pm.getD i false = b) :
    ∃ h : cnt pm b i < (cls pm b).length, (cls pm b)[cnt pm b i] = i := by
  have hlt : cnt pm b i < (cls pm b).length := by
    rw [cls_length]; exact cnt_lt_of_lt pm b hi hb
  refine ⟨hlt, ?_⟩
  unfold cls cnt
  obtain ⟨d, hd⟩ : ∃ d, pm.size = i + (d + 1) := ⟨pm.size - i - 1, by omega⟩
  have hr : List.range pm.size = List.range i ++ (i :: (List.range d).map (fun t => i + (t + 1))) := by
    rw [hd, List.range_add, List.range_succ_eq_map]
    simp [Function.comp_def]
  simp only [hr, List.filter_append, List.filter_cons, hb, decide_true, if_true]
  rw [List.getElem_append_right (Nat.le_refl _)]
  simp

theorem cls_nodup (pm : Array Bool) (b : Bool) : (cls pm b).Nodup :=
  List.Nodup.filter _ List.nodup_range

theorem cls_mem (pm : Array Bool) (b : Bool) (k : Nat) (hk : k < (cls pm b).length) :
    (cls pm b)[k] < pm.size ∧ pm.getD (cls pm b)[k] false = b := by
  have hm : (cls pm b)[k] ∈ cls pm b := List.getElem_mem hk
  generalize (cls pm b)[k] = c at hm
  unfold cls at hm
  rw [List.mem_filter] at hm
  exact ⟨List.mem_range.1 hm.1, of_decide_eq_true hm.2⟩

/-- … and conversely the element at position `k` has count `k` -/
theorem cnt_cls_getElem (pm : Array Bool) (b : Bool) (k : Nat) (hk : k < (cls pm b).length) :
    cnt pm b (cls pm b)[k] = k := by
  obtain ⟨h1, h2⟩ := cls_mem pm b k hk
  obtain ⟨h3, h4⟩ := cls_getElem_cnt pm b _ h1 h2
  exact (List.Nodup.getElem_inj_iff (cls_nodup pm b)).1 h4

/-- `cls b` at position `l` is `c`  iff  `c` is of class `b` and has count `l` -/
theorem cls_getElem_eq_iff (pm : Array Bool) (b : Bool) (l : Nat) (hl : l < (cls pm b).length) (c : Nat)
    (hc : c < pm.size) : (cls pm b)[l] = c ↔ (pm.getD c false = b ∧ cnt pm b c = l) := by
  constructor
  · intro h
    subst h
    exact ⟨(cls_mem pm b l hl).2, cnt_cls_getElem pm b l hl⟩
  · rintro ⟨h1, h2⟩
    obtain ⟨h3, h4⟩ := cls_getElem_cnt pm b c hc h1
    subst h2; exact h4

/-- the class lists as a function on all naturals (`0` outside) -/
def clsAt (pm : Array Bool) (b : Bool) (k : Nat) : Nat := (cls pm b).getD k 0

theorem clsAt_lt (pm : Array Bool) (b : Bool) (k : Nat) (hk : k < (cls pm b).length) :
    clsAt pm b k = (cls pm b)[k] := by
  unfold clsAt; simp [List.getD_eq_getElem?_getD, hk]

end Amgcl.Schur
