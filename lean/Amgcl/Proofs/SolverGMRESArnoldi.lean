import Amgcl.Proofs.SolverArnoldi
import Amgcl.Proofs.SolverGMRES
import Amgcl.Model.Rsqrt
import Mathlib.Algebra.Order.Field.Rat
/-!
The Arnoldi relation over the inner loop of GMRES (C05), both preconditioning sides.

GMRES overwrites column `j` of `H` with its rotated form in the same pass, so the unrotated Hessenberg matrix `H̃`
does not exist in the program state.  It is carried as a GHOST next to the inner-loop state (`stepG`, `innerG`): the
ghost records, at inner index `j`, the column of `H` that `orth` returns (before `rotate`) and the orthogonalised,
not yet normalised vector `w_j` whose norm is `H̃(j+1,j)`.  The first component of the ghost loop IS the model's
loop (`innerG_fst`), the ghost is a function of the same run.

`inner_arnoldi`: when the inner loop ends after `j` steps, and for every `i < j` there was no breakdown
(`H̃(i+1,i) ≠ 0`) and the root was exact on the number `⟨w_i,w_i⟩` it was applied to, then `v[0..j]` is orthonormal and
`A' v[i] = Σ_{k ≤ i+1} H̃(k,i) v[k]` for every `i < j`, where `A' u` is what `preconditioner::spmv` returns for `u`
(`A P u` for right, `P A u` for left preconditioning).
-/
namespace Amgcl.Solver.GMRES
open Amgcl Amgcl.Solver
set_option linter.unusedSectionVars false
set_option linter.unusedSimpArgs false
set_option linter.unusedVariables false

/-- the ghost: the unrotated Hessenberg matrix and the unnormalised orthogonalised vectors -/
structure Ghost (K : Type) where
  Ht : FArr2 K
  W  : FArr (Vec K)

section generic
variable {K : Type} [Add K] [Mul K] [Sub K] [Neg K] [Zero K] [One K] [Div K] [DecidableEq K] [LT K] [DecidableLT K]

/-- the preconditioned operator of the Arnoldi process: `A P u` (right) resp. `P A u` (left) -/
def Aop (side : Side) (P : Vec K → Vec K) (A : CRS K) (u : Vec K) : Vec K := (pspmv side P A u #[] #[]).1

/-- the vector handed to the Hessenberg step at inner index `t.j` -/
def stepV (side : Side) (A : CRS K) (P : Vec K → Vec K) (t : In K) : Vec K :=
  (pspmv side P A (t.w.v.get t.j) (t.w.v.get (t.j + 1)) t.w.r).1

theorem step_v (side : Side) (ip : Vec K → Vec K → K) (sqrt : K → K) (A : CRS K) (P : Vec K → Vec K) (t : In K) :
    (step side ip sqrt A P t).w.v
      = setF t.w.v (t.j + 1) (orth ip sqrt t.w.v t.j t.w.h.H (stepV side A P t)).2 := rfl

/-- one pass of the inner loop body together with the ghost update -/
def stepG (side : Side) (ip : Vec K → Vec K → K) (sqrt : K → K) (A : CRS K) (P : Vec K → Vec K)
    (g : In K × Ghost K) : In K × Ghost K :=
  (step side ip sqrt A P g.1,
   { Ht := ⟨fun a b => if b = g.1.j then (orth ip sqrt g.1.w.v g.1.j g.1.w.h.H (stepV side A P g.1)).1.get a b
                       else g.2.Ht.get a b⟩,
     W := setF g.2.W g.1.j (mgs ip g.1.w.v g.1.j g.1.w.h.H (stepV side A P g.1)).2 })

/-- the inner loop with the ghost -/
def innerG (prm : Params K) (ip : Vec K → Vec K → K) (sqrt : K → K) (A : CRS K) (P : Vec K → Vec K) (epsT : K)
    (st : St K) (g0 : Ghost K) : In K × Ghost K :=
  doWhile (fun g : In K × Ghost K => cont prm.maxiter prm.M epsT g.1) (stepG prm.pside ip sqrt A P) prm.M
    (cycleStart st, g0)

theorem cycleStart_v0 (st : St K) :
    (cycleStart st).w.v.get 0 = axpby (inv1 st.normR) st.w.r 0 (st.w.v.get 0) := rfl

theorem cycleStart_j (st : St K) : (cycleStart st).j = 0 := rfl

end generic

theorem loopN_fst {σ γ : Type} (c : σ → Bool) (f : σ → σ) (fg : σ × γ → σ × γ)
    (h : ∀ g, (fg g).1 = f g.1) :
    ∀ fuel g, (loopN (fun g : σ × γ => c g.1) fg fuel g).1 = loopN c f fuel g.1 := by
  intro fuel
  induction fuel with
  | zero => intro g; rfl
  | succ m ih =>
    intro g
    unfold loopN
    by_cases hc : c g.1 = true
    · simp only [hc, if_true]; rw [ih, h]
    · simp only [hc]; rfl

variable {K : Type} [Field K] [DecidableEq K] [LT K] [DecidableLT K]

/-- the ghost loop runs the model's loop -/
theorem innerG_fst (prm : Params K) (ip : Vec K → Vec K → K) (sqrt : K → K) (A : CRS K) (P : Vec K → Vec K)
    (epsT : K) (st : St K) (g0 : Ghost K) :
    (innerG prm ip sqrt A P epsT st g0).1 = inner prm ip sqrt A P epsT st := by
  unfold innerG inner doWhile
  rw [loopN_fst (cont prm.maxiter prm.M epsT) (step prm.pside ip sqrt A P) (stepG prm.pside ip sqrt A P)
    (fun _ => rfl)]
  rfl

theorem stepV_eq (side : Side) (A : CRS K) (P : Vec K → Vec K) (t : In K) :
    stepV side A P t = Aop side P A (t.w.v.get t.j) := by
  unfold stepV Aop
  rw [BiCGStab.pspmv_indep side P A _ _ _ #[] #[]]

/-- "no breakdown and exact roots so far": the hypotheses of the Arnoldi relation, on the ghost -/
def NoBreakdown (ip : Vec K → Vec K → K) (sqrt : K → K) (g : Ghost K) (j : Nat) : Prop :=
  ∀ i, i < j → g.Ht.get (i + 1) i ≠ 0 ∧
    sqrt (ip (g.W.get i) (g.W.get i)) * sqrt (ip (g.W.get i) (g.W.get i)) = ip (g.W.get i) (g.W.get i)

/-- the loop invariant -/
def ArnoldiInv (side : Side) (ip : Vec K → Vec K → K) (sqrt : K → K) (A : CRS K) (P : Vec K → Vec K) (n : Nat)
    (g : In K × Ghost K) : Prop :=
  (∀ i, i < g.1.j → g.2.Ht.get (i + 1) i = nrmA ip sqrt (g.2.W.get i)) ∧
  (NoBreakdown ip sqrt g.2 g.1.j →
    Orthonormal ip n g.1.w.v g.1.j ∧
    ∀ i, i < g.1.j → ∀ τ, τ < n →
      (Aop side P A (g.1.w.v.get i)).getD τ 0
        = ∑ k ∈ Finset.range (i + 2), g.2.Ht.get k i * (g.1.w.v.get k).getD τ 0)

theorem stepG_inv (side : Side) (ip : Vec K → Vec K → K) (sqrt : K → K) (A : CRS K) (P : Vec K → Vec K) (n : Nat)
    (hip : IpOK ip n) (hA : ∀ u : Vec K, (Aop side P A u).size = n) (g : In K × Ghost K)
    (h : ArnoldiInv side ip sqrt A P n g) : ArnoldiInv side ip sqrt A P n (stepG side ip sqrt A P g) := by
  obtain ⟨t, gh⟩ := g
  obtain ⟨hsub, hmain⟩ := h
  simp only at hsub hmain
  have hHt : ∀ a b, (stepG side ip sqrt A P (t, gh)).2.Ht.get a b
      = if b = t.j then (orth ip sqrt t.w.v t.j t.w.h.H (stepV side A P t)).1.get a b else gh.Ht.get a b :=
    fun _ _ => rfl
  have hW : (stepG side ip sqrt A P (t, gh)).2.W = setF gh.W t.j (mgs ip t.w.v t.j t.w.h.H (stepV side A P t)).2 :=
    rfl
  have hj : (stepG side ip sqrt A P (t, gh)).1.j = t.j + 1 := rfl
  have hv : (stepG side ip sqrt A P (t, gh)).1.w.v
      = setF t.w.v (t.j + 1) (orth ip sqrt t.w.v t.j t.w.h.H (stepV side A P t)).2 := step_v side ip sqrt A P t
  unfold ArnoldiInv
  rw [hj, hv, hW]
  refine ⟨?_, ?_⟩
  · intro i hi
    rw [hHt, setF_get]
    by_cases hij : i = t.j
    · rw [if_pos hij, if_pos hij, hij]; exact orth_sub ip sqrt _ _ _ _
    · rw [if_neg hij, if_neg hij]; exact hsub i (by omega)
  · intro hnb
    -- the hypotheses restricted to the earlier columns are those of the old ghost
    have hnb_old : NoBreakdown ip sqrt gh t.j := by
      intro i hi
      have hij : i ≠ t.j := by omega
      have := hnb i (by omega)
      rw [hHt, if_neg hij, hW, setF_get, if_neg hij] at this
      exact this
    obtain ⟨hon, harn⟩ := hmain hnb_old
    have hnew := hnb t.j (by omega)
    rw [hHt, if_pos rfl, hW, setF_same] at hnew
    obtain ⟨hne, hroot⟩ := hnew
    have hsz : (stepV side A P t).size = n := by rw [stepV_eq]; exact hA _
    have hon' := orth_orthonormal_succ ip sqrt n hip t.w.v t.j t.w.h.H (stepV side A P t) hon hsz hroot hne
    refine ⟨hon', ?_⟩
    intro i hi τ hτ
    by_cases hij : i = t.j
    · -- the new column: `orth_arnoldi`
      subst hij
      have ha := orth_arnoldi ip sqrt n hip t.w.v t.j t.w.h.H (stepV side A P t) hon hsz hne τ hτ
      rw [setF_other _ _ _ _ (by omega : t.j ≠ t.j + 1), ← stepV_eq,
        show t.j + 2 = (t.j + 1) + 1 from rfl, Finset.sum_range_succ, hHt (t.j + 1) t.j, if_pos rfl, setF_same, ha]
      congr 1
      apply Finset.sum_congr rfl
      intro k hk
      have hk' : k ≠ t.j + 1 := by have := Finset.mem_range.mp hk; omega
      rw [hHt, if_pos rfl, setF_other _ _ _ _ hk']
    · -- an earlier column: nothing it mentions has changed
      have hi' : i < t.j := by omega
      rw [setF_other _ _ _ _ (by omega : i ≠ t.j + 1), harn i hi' τ hτ]
      apply Finset.sum_congr rfl
      intro k hk
      have hk' : k ≠ t.j + 1 := by have := Finset.mem_range.mp hk; omega
      rw [hHt, if_neg hij, setF_other _ _ _ _ hk']

/-- on entry of the inner loop `v[0] = r/‖r‖` is a unit vector (root exact on `⟨r,r⟩`, `‖r‖ ≠ 0`) -/
theorem cycleStart_inv (side : Side) (ip : Vec K → Vec K → K) (sqrt : K → K) (A : CRS K) (P : Vec K → Vec K)
    (n : Nat) (hip : IpOK ip n) (st : St K) (g0 : Ghost K) (hr : st.w.r.size = n)
    (hnr : st.normR = nrmA ip sqrt st.w.r)
    (hroot0 : sqrt (ip st.w.r st.w.r) * sqrt (ip st.w.r st.w.r) = ip st.w.r st.w.r) (hne0 : st.normR ≠ 0) :
    ArnoldiInv side ip sqrt A P n (cycleStart st, g0) := by
  refine ⟨fun i hi => absurd hi (Nat.not_lt_zero i), fun _ => ⟨⟨?_, ?_⟩, fun i hi => absurd hi (Nat.not_lt_zero i)⟩⟩
  · intro a ha
    have ha0 : a = 0 := Nat.le_zero.mp ha
    subst ha0
    show ((cycleStart st).w.v.get 0).size = n
    rw [cycleStart_v0, axpby_size]; exact hr
  · intro a b ha hb
    have ha0 : a = 0 := Nat.le_zero.mp ha
    have hb0 : b = 0 := Nat.le_zero.mp hb
    subst ha0 hb0
    show ip ((cycleStart st).w.v.get 0) ((cycleStart st).w.v.get 0) = if 0 = 0 then 1 else 0
    rw [if_pos rfl, cycleStart_v0]
    have hsz : (axpby (inv1 st.normR) st.w.r 0 (st.w.v.get 0)).size = n := by rw [axpby_size]; exact hr
    have hsq := nrmA_sq ip sqrt st.w.r hroot0
    rw [hip.smul _ _ _ _ hr hsz, hip.symm _ _ hr hsz, hip.smul _ _ _ _ hr hr, ← hsq, ← hnr]
    unfold inv1
    field_simp

/-- **the Arnoldi relation of GMRES** (both sides).  Let the inner loop started in `st` (`norm_r = ‖r‖ ≠ 0`, root
exact on `⟨r,r⟩`) end in state `t` after `t.j` steps, and let `H̃`, `w_i` be the ghost of that run.  If for every
`i < t.j` there was no breakdown (`H̃(i+1,i) ≠ 0`) and the root was exact on `⟨w_i,w_i⟩`, then

* `H̃(i+1,i) = ‖w_i‖` (always),
* `v[0..t.j]` is an orthonormal list of vectors of length `n`,
* `A' v[i] = Σ_{k ≤ i+1} H̃(k,i)·v[k]` entrywise, for every `i < t.j`. -/
theorem inner_arnoldi (prm : Params K) (ip : Vec K → Vec K → K) (sqrt : K → K) (A : CRS K) (P : Vec K → Vec K)
    (epsT : K) (st : St K) (g0 : Ghost K) (n : Nat) (hip : IpOK ip n)
    (hA : ∀ u : Vec K, (Aop prm.pside P A u).size = n) (hr : st.w.r.size = n)
    (hnr : st.normR = nrmA ip sqrt st.w.r)
    (hroot0 : sqrt (ip st.w.r st.w.r) * sqrt (ip st.w.r st.w.r) = ip st.w.r st.w.r) (hne0 : st.normR ≠ 0) :
    (∀ i, i < (inner prm ip sqrt A P epsT st).j →
      (innerG prm ip sqrt A P epsT st g0).2.Ht.get (i + 1) i
        = nrmA ip sqrt ((innerG prm ip sqrt A P epsT st g0).2.W.get i)) ∧
    (NoBreakdown ip sqrt (innerG prm ip sqrt A P epsT st g0).2 (inner prm ip sqrt A P epsT st).j →
      Orthonormal ip n (inner prm ip sqrt A P epsT st).w.v (inner prm ip sqrt A P epsT st).j ∧
      ∀ i, i < (inner prm ip sqrt A P epsT st).j → ∀ τ, τ < n →
        (Aop prm.pside P A ((inner prm ip sqrt A P epsT st).w.v.get i)).getD τ 0
          = ∑ k ∈ Finset.range (i + 2), (innerG prm ip sqrt A P epsT st g0).2.Ht.get k i
              * ((inner prm ip sqrt A P epsT st).w.v.get k).getD τ 0) := by
  have h : ArnoldiInv prm.pside ip sqrt A P n (innerG prm ip sqrt A P epsT st g0) := by
    unfold innerG
    apply doWhile_inv _ _ (ArnoldiInv prm.pside ip sqrt A P n)
    · exact stepG_inv _ ip sqrt A P n hip hA _ (cycleStart_inv _ ip sqrt A P n hip st g0 hr hnr hroot0 hne0)
    · intro g hg _; exact stepG_inv _ ip sqrt A P n hip hA g hg
  unfold ArnoldiInv at h
  rw [innerG_fst] at h
  exact h

/-- the size hypothesis `hA` for right preconditioning: `A P u` has `A.nrows` entries -/
theorem Aop_size_right (P : Vec K → Vec K) (A : CRS K) (u : Vec K) : (Aop .right P A u).size = A.nrows := by
  unfold Aop pspmv
  exact spmv_size' _ _ _ _ _

/-- the size hypothesis `hA` for left preconditioning, for a `P` that returns vectors of length `n` -/
theorem Aop_size_left (P : Vec K → Vec K) (A : CRS K) (n : Nat) (hP : ∀ u, (P u).size = n) (u : Vec K) :
    (Aop .left P A u).size = n := by
  unfold Aop pspmv
  exact hP _

/-! ### non-vacuity over `ℚ` with the executable `rsqrt` and the backend inner product: `A = [[1,0],[3,1]]`,
`f = (2,0)`, `x₀ = 0`, `M = 1`: `r = (2,0)`, `‖r‖ = 2`, `v₀ = (1,0)`, `A v₀ = (1,3)`, `H̃(0,0) = 1`, `w₀ = (0,3)`,
`H̃(1,0) = 3` — all roots exact, no breakdown; all hypotheses of `inner_arnoldi` hold -/
section nonvacuous

private def A₂ : CRS ℚ := ⟨2, #[[(0, 1)], [(0, 3), (1, 1)]]⟩
private def prm₂ : Params ℚ :=
  { maxiter := 5, tol := 0, abstol := 0, nsSearch := false, M := 1, pside := .right }
private def st₂ : St ℚ := init prm₂ stdIp Amgcl.rsqrt A₂ id (Work.fresh 2) #[2, 0] #[0, 0]
private def g₂ : Ghost ℚ := ⟨.const 0, .const #[]⟩

example :
    Orthonormal stdIp 2 (inner prm₂ stdIp Amgcl.rsqrt A₂ id 0 st₂).w.v (inner prm₂ stdIp Amgcl.rsqrt A₂ id 0 st₂).j ∧
    ∀ i, i < (inner prm₂ stdIp Amgcl.rsqrt A₂ id 0 st₂).j → ∀ τ, τ < 2 →
      (Aop .right id A₂ ((inner prm₂ stdIp Amgcl.rsqrt A₂ id 0 st₂).w.v.get i)).getD τ 0
        = ∑ k ∈ Finset.range (i + 2), (innerG prm₂ stdIp Amgcl.rsqrt A₂ id 0 st₂ g₂).2.Ht.get k i
            * ((inner prm₂ stdIp Amgcl.rsqrt A₂ id 0 st₂).w.v.get k).getD τ 0 := by
  have hj : (inner prm₂ stdIp Amgcl.rsqrt A₂ id 0 st₂).j = 1 := by decide +kernel
  have hnb : NoBreakdown stdIp Amgcl.rsqrt (innerG prm₂ stdIp Amgcl.rsqrt A₂ id 0 st₂ g₂).2
      (inner prm₂ stdIp Amgcl.rsqrt A₂ id 0 st₂).j := by
    rw [hj]; unfold NoBreakdown; decide +kernel
  exact (inner_arnoldi prm₂ stdIp Amgcl.rsqrt A₂ id 0 st₂ g₂ 2 (stdIp_ipOK 2) (Aop_size_right id A₂)
    (by decide +kernel) (by decide +kernel) (by decide +kernel) (by decide +kernel)).2 hnb

end nonvacuous

end Amgcl.Solver.GMRES
