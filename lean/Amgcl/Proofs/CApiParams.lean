import Amgcl.Model.CApiParams
import Amgcl.Proofs.PTree
/-!
Helper lemmas for the parameter-handle part of C20: what `put` does to OTHER paths, absence of duplicate
sibling keys, folds of writes.  (core Lean only; the property theorems are in `Amgcl/Properties/C20.lean`)
-/
namespace Amgcl.Params.PTree

theorem getPath?_nil (p : PTree) : p.getPath? [] = some p.data := rfl

theorem getPath?_cons (p : PTree) (k : String) (ks : List String) :
    p.getPath? (k :: ks) = (lookup k p.kids).bind (fun c => c.getPath? ks) := by
  simp only [getPath?, childPath?_cons]
  cases lookup k p.kids <;> rfl

/-- `put(path, v)` does not disturb the value any OTHER path had -/
theorem getPath?_putPath_other (p : PTree) (path path' : List String) (v w : String) (hne : path' ≠ path)
    (h : p.getPath? path' = some w) : (p.putPath path v).getPath? path' = some w := by
  induction path generalizing p path' with
  | nil =>
    cases path' with
    | nil => exact absurd rfl hne
    | cons k' ks' =>
      rw [getPath?_cons] at h ⊢
      simpa [putPath] using h
  | cons k ks ih =>
    cases path' with
    | nil =>
      rw [getPath?_nil] at h ⊢
      simpa [putPath] using h
    | cons k' ks' =>
      rw [getPath?_cons] at h ⊢
      simp only [putPath, kids_node]
      by_cases hk : k' = k
      · subst hk
        rw [lookup_upsert_same]
        cases hl : lookup k' p.kids with
        | none => rw [hl] at h; cases h
        | some c =>
          rw [hl] at h
          simp only [Option.bind_some, Option.getD_some] at h ⊢
          exact ih c ks' (fun e => hne (by rw [e])) h
      · rw [lookup_upsert_ne _ _ _ _ hk]
        exact h

/-! ### keys of `upsert` -/

theorem keys_upsert_of_mem (k : String) (g : PTree → PTree) (l : List (String × PTree))
    (h : k ∈ l.map (·.1)) : (upsert k g l).map (·.1) = l.map (·.1) := by
  induction l with
  | nil => cases h
  | cons hd tl ih =>
    obtain ⟨k', c⟩ := hd
    by_cases hk : k' = k
    · simp [upsert, hk]
    · have : k ∈ tl.map (·.1) := by
        simp only [List.map_cons, List.mem_cons] at h
        rcases h with h | h
        · exact absurd h.symm hk
        · exact h
      simp [upsert, hk, ih this]

theorem keys_upsert_of_not_mem (k : String) (g : PTree → PTree) (l : List (String × PTree))
    (h : k ∉ l.map (·.1)) : (upsert k g l).map (·.1) = l.map (·.1) ++ [k] := by
  induction l with
  | nil => simp [upsert]
  | cons hd tl ih =>
    obtain ⟨k', c⟩ := hd
    simp only [List.map_cons, List.mem_cons, not_or] at h
    have hk : ¬ k' = k := fun e => h.1 e.symm
    simp [upsert, hk, ih h.2]

theorem nodup_keys_upsert (k : String) (g : PTree → PTree) (l : List (String × PTree))
    (h : (l.map (·.1)).Nodup) : ((upsert k g l).map (·.1)).Nodup := by
  by_cases hm : k ∈ l.map (·.1)
  · rw [keys_upsert_of_mem k g l hm]; exact h
  · rw [keys_upsert_of_not_mem k g l hm]
    rw [List.nodup_append]
    refine ⟨h, by simp, ?_⟩
    intro a ha b hb
    simp only [List.mem_singleton] at hb
    subst hb
    intro e
    subst e
    exact hm ha

/-- every pair of `upsert k g l` is an old pair, or `g` of an old child, or `g empty` -/
theorem mem_upsert (k : String) (g : PTree → PTree) (l : List (String × PTree)) (kc : String × PTree)
    (h : kc ∈ upsert k g l) :
    kc ∈ l ∨ (∃ c, (k, c) ∈ l ∧ kc = (k, g c)) ∨ kc = (k, g empty) := by
  induction l with
  | nil =>
    simp only [upsert, List.mem_singleton] at h
    exact Or.inr (Or.inr h)
  | cons hd tl ih =>
    obtain ⟨k', c⟩ := hd
    by_cases hk : k' = k
    · subst hk
      simp only [upsert, if_true, List.mem_cons] at h
      rcases h with h | h
      · exact Or.inr (Or.inl ⟨c, List.mem_cons_self, h⟩)
      · exact Or.inl (List.mem_cons_of_mem _ h)
    · simp only [upsert, hk, if_false, List.mem_cons] at h
      rcases h with h | h
      · exact Or.inl (h ▸ List.mem_cons_self)
      · rcases ih h with h' | ⟨c', hc', e⟩ | h'
        · exact Or.inl (List.mem_cons_of_mem _ h')
        · exact Or.inr (Or.inl ⟨c', List.mem_cons_of_mem _ hc', e⟩)
        · exact Or.inr (Or.inr h')

end Amgcl.Params.PTree

namespace Amgcl.CApi
open Amgcl.Params Amgcl.Params.PTree

theorem noDup_empty : NoDup PTree.empty := by
  refine NoDup.node "" [] ?_ ?_
  · exact List.nodup_nil
  · intro kc h; cases h

theorem noDup_putPath (p : PTree) (path : List String) (v : String) (h : NoDup p) :
    NoDup (p.putPath path v) := by
  induction path generalizing p with
  | nil =>
    cases h with
    | node d ks hk hc => exact NoDup.node v ks hk hc
  | cons k ks ih =>
    cases h with
    | node d kids hk hc =>
      refine NoDup.node d _ (nodup_keys_upsert k _ kids hk) ?_
      intro kc hkc
      rcases mem_upsert k _ kids kc hkc with h1 | ⟨c, hc1, e⟩ | e
      · exact hc kc h1
      · rw [e]; exact ih c (hc (k, c) hc1)
      · rw [e]; exact ih PTree.empty noDup_empty

theorem putAll_nil (p : PTree) : putAll p [] = p := rfl

theorem putAll_cons (p : PTree) (e : List String × String) (es : List (List String × String)) :
    putAll p (e :: es) = putAll (p.putPath e.1 e.2) es := rfl

theorem putAll_append (p : PTree) (a b : List (List String × String)) :
    putAll p (a ++ b) = putAll (putAll p a) b := by
  simp [putAll, List.foldl_append]

theorem noDup_putAll (p : PTree) (es : List (List String × String)) (h : NoDup p) : NoDup (putAll p es) := by
  induction es generalizing p with
  | nil => exact h
  | cons e es ih => rw [putAll_cons]; exact ih _ (noDup_putPath p e.1 e.2 h)

theorem noDup_apply (p : PTree) (w : PWrite) (h : NoDup p) : NoDup (w.apply p) := by
  cases w with
  | set path v => exact noDup_putPath p path v h
  | file es => exact noDup_putAll _ es noDup_empty

theorem runWrites_nil (p : PTree) : runWrites p [] = p := rfl

theorem runWrites_cons (p : PTree) (w : PWrite) (ws : List PWrite) :
    runWrites p (w :: ws) = runWrites (w.apply p) ws := rfl

theorem runWrites_append (p : PTree) (a b : List PWrite) :
    runWrites p (a ++ b) = runWrites (runWrites p a) b := by
  simp [runWrites, List.foldl_append]

/-- a value survives every later write that spares its path -/
theorem getPath?_runWrites_spared (p : PTree) (path : List String) (v : String) (post : List PWrite)
    (hp : p.getPath? path = some v) (hs : ∀ w ∈ post, w.Spares path) :
    (runWrites p post).getPath? path = some v := by
  induction post generalizing p with
  | nil => exact hp
  | cons w ws ih =>
    rw [runWrites_cons]
    refine ih _ ?_ (fun w' hw' => hs w' (List.mem_cons_of_mem _ hw'))
    have hw := hs w List.mem_cons_self
    cases w with
    | set q t => exact getPath?_putPath_other p q path t v (fun e => hw e.symm) hp
    | file es => exact absurd hw (by simp [PWrite.Spares])

/-- sets only: the writes are one `putAll` -/
theorem runWrites_sets (p : PTree) (es : List (List String × String)) :
    runWrites p (es.map (fun e => PWrite.set e.1 e.2)) = putAll p es := by
  induction es generalizing p with
  | nil => rfl
  | cons e es ih => rw [List.map_cons, runWrites_cons, putAll_cons, ← ih]; rfl

end Amgcl.CApi
