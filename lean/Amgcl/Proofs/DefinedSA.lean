import Amgcl.Model.DefinedSA
import Mathlib.Tactic.Common
import Mathlib.Tactic.Push
/-!
# The rows produced by the two loops of `smoothed_aggregation::transfer_operators` do not depend on the marker
entries below the current threshold (simulation relation `MEqv`)
-/
namespace Amgcl
namespace Coarsening

/-- two marker arrays are interchangeable for a loop with threshold `b`: entry by entry they are either both below `b`
(stale: left by earlier rows, or the initial `-1`) or equal -/
def MEqv (b : Int) (m m' : Array Int) : Prop :=
  m.size = m'.size ∧ ∀ c, (m.getD c 0 < b ∧ m'.getD c 0 < b) ∨ m.getD c 0 = m'.getD c 0

theorem MEqv.mono {b b' : Int} {m m' : Array Int} (h : MEqv b m m') (hb : b ≤ b') : MEqv b' m m' := by
  refine ⟨h.1, fun c => ?_⟩
  rcases h.2 c with ⟨h1, h2⟩ | h3
  · exact Or.inl ⟨by omega, by omega⟩
  · exact Or.inr h3

theorem MEqv.of_below (b : Int) (m m' : Array Int) (hs : m.size = m'.size)
    (h : ∀ c (hc : c < m.size), m[c] < b) (h' : ∀ c (hc : c < m'.size), m'[c] < b) : MEqv b m m' := by
  refine ⟨hs, fun c => ?_⟩
  by_cases hc : c < m.size
  · left
    simp only [Array.getD_eq_getD_getElem?]
    rw [Array.getElem?_eq_getElem hc, Array.getElem?_eq_getElem (by omega)]
    exact ⟨h c hc, h' c (by omega)⟩
  · right
    simp only [Array.getD_eq_getD_getElem?]
    rw [Array.getElem?_eq_none (by omega), Array.getElem?_eq_none (by omega)]

theorem getD_setIfInBounds (a : Array Int) (i c : Nat) (v : Int) :
    (a.setIfInBounds i v).getD c 0 = if c = i ∧ i < a.size then v else a.getD c 0 := by
  simp only [Array.getD_eq_getD_getElem?]
  by_cases hci : c = i
  · subst hci
    by_cases hlt : c < a.size
    · rw [Array.getElem?_setIfInBounds_self_of_lt hlt]; simp [hlt]
    · rw [Array.getElem?_eq_none (by simp; omega), Array.getElem?_eq_none (by omega)]; simp [hlt]
  · rw [Array.getElem?_setIfInBounds_ne (Ne.symm hci)]; simp [hci]

/-- setting the same entry to the same value on both sides keeps the relation -/
theorem MEqv.set {b : Int} {m m' : Array Int} (h : MEqv b m m') (i : Nat) (v : Int) :
    MEqv b (m.setIfInBounds i v) (m'.setIfInBounds i v) := by
  refine ⟨by simp [h.1], fun c => ?_⟩
  rw [getD_setIfInBounds, getD_setIfInBounds, ← h.1]
  by_cases hc : c = i ∧ i < m.size
  · simp [hc]
  · simp only [hc, if_false]; exact h.2 c

section fill
variable {K : Type} [Add K] [Mul K] [Sub K] [Neg K] [Div K] [Zero K] [One K] [DecidableEq K]

theorem saAccum_eqv (rowBeg : Nat) (va : K) (ptRow : Row K) (st st' : Array Int × Array (Nat × K))
    (hm : MEqv (rowBeg : Int) st.1 st'.1) (hr : st.2 = st'.2) :
    MEqv (rowBeg : Int) (saAccum rowBeg va ptRow st).1 (saAccum rowBeg va ptRow st').1 ∧
      (saAccum rowBeg va ptRow st).2 = (saAccum rowBeg va ptRow st').2 := by
  unfold saAccum
  induction ptRow generalizing st st' with
  | nil => exact ⟨hm, hr⟩
  | cons e rest ih =>
    simp only [List.foldl_cons]
    apply ih
    · rcases hm.2 e.1 with ⟨h1, h2⟩ | h3
      · rw [if_pos h1, if_pos h2, hr]; exact hm.set _ _
      · rw [h3]
        by_cases hlt : st'.1.getD e.1 0 < (rowBeg : Int)
        · rw [if_pos hlt, if_pos hlt, hr]; exact hm.set _ _
        · rw [if_neg hlt, if_neg hlt]; exact hm
    · rcases hm.2 e.1 with ⟨h1, h2⟩ | h3
      · rw [if_pos h1, if_pos h2, hr]
      · rw [h3]
        by_cases hlt : st'.1.getD e.1 0 < (rowBeg : Int)
        · rw [if_pos hlt, if_pos hlt, hr]
        · rw [if_neg hlt, if_neg hlt, hr]

theorem saRow_eqv (omega : K) (Pt : CRS K) (i : Nat) (r : Row K) (s : List Bool) (m m' : Array Int) (rowBeg : Nat)
    (hm : MEqv (rowBeg : Int) m m') :
    MEqv (rowBeg : Int) (saRow omega Pt i r s m rowBeg).1 (saRow omega Pt i r s m' rowBeg).1 ∧
      (saRow omega Pt i r s m rowBeg).2 = (saRow omega Pt i r s m' rowBeg).2 := by
  unfold saRow
  simp only
  have key : ∀ (z : List ((Nat × K) × Bool)) (st st' : Array Int × Array (Nat × K)),
      MEqv (rowBeg : Int) st.1 st'.1 → st.2 = st'.2 →
      let f := fun (st : Array Int × Array (Nat × K)) (cs : (Nat × K) × Bool) =>
        if (cs.1.1 != i && !cs.2) = true then st else
          saAccum rowBeg (if (cs.1.1 == i) = true then (1 - omega) * 1
            else scaledDia omega (filteredDia i r s) * cs.1.2) (Pt.row cs.1.1) st
      MEqv (rowBeg : Int) (z.foldl f st).1 (z.foldl f st').1 ∧ (z.foldl f st).2 = (z.foldl f st').2 := by
    intro z
    induction z with
    | nil => intro st st' h1 h2; exact ⟨h1, h2⟩
    | cons cs rest ih =>
      intro st st' h1 h2
      simp only [List.foldl_cons]
      by_cases hskip : (cs.1.1 != i && !cs.2) = true
      · simp only [hskip, if_true]; exact ih st st' h1 h2
      · simp only [hskip, if_false]
        obtain ⟨a1, a2⟩ := saAccum_eqv rowBeg (if (cs.1.1 == i) = true then (1 - omega) * 1
            else scaledDia omega (filteredDia i r s) * cs.1.2) (Pt.row cs.1.1) st st' h1 h2
        exact ih _ _ a1 a2
  exact key (r.zip s) (m, #[]) (m', #[]) hm rfl

/-- the rows produced from two interchangeable markers are equal, and the markers stay interchangeable -/
theorem smoothRowsFrom_eqv (omega : K) (A : CRS K) (S : Array (List Bool)) (Pt : CRS K) (is : List Nat)
    (m m' : Array Int) (beg : Nat) (hm : MEqv (beg : Int) m m') :
    let r := smoothRowsFrom omega A S Pt is m beg
    let r' := smoothRowsFrom omega A S Pt is m' beg
    MEqv (r.2.1 : Int) r.1 r'.1 ∧ r.2 = r'.2 := by
  unfold smoothRowsFrom
  have key : ∀ (is : List Nat) (st st' : Array Int × Nat × Array (Row K)),
      MEqv (st.2.1 : Int) st.1 st'.1 → st.2 = st'.2 →
      let f := fun (st : Array Int × Nat × Array (Row K)) i =>
        let res := saRow omega Pt i (A.row i) (S.getD i []) st.1 st.2.1
        (res.1, st.2.1 + res.2.size, st.2.2.push res.2.toList)
      MEqv ((is.foldl f st).2.1 : Int) (is.foldl f st).1 (is.foldl f st').1 ∧ (is.foldl f st).2 = (is.foldl f st').2 := by
    intro is
    induction is with
    | nil => intro st st' h1 h2; exact ⟨h1, h2⟩
    | cons i rest ih =>
      intro st st' h1 h2
      simp only [List.foldl_cons]
      have hb : st'.2.1 = st.2.1 := by rw [h2]
      have hrows : st'.2.2 = st.2.2 := by rw [h2]
      obtain ⟨a1, a2⟩ := saRow_eqv omega Pt i (A.row i) (S.getD i []) st.1 st'.1 st.2.1 h1
      apply ih
      · simp only [hb]
        exact a1.mono (b' := ((st.2.1 + (saRow omega Pt i (A.row i) (S.getD i []) st.1 st.2.1).2.size : Nat) : Int))
          (by exact_mod_cast Nat.le_add_right _ _)
      · simp only [hb, hrows, a2]
  exact key is (m, beg, #[]) (m', beg, #[]) hm rfl

end fill

section count
variable {K : Type}

theorem saRowCount_eqv (Pt : CRS K) (i : Nat) (r : Row K) (s : List Bool) (m m' : Array Int)
    (hm : MEqv (i : Int) m m') :
    MEqv (i : Int) (saRowCount Pt i r s m).1 (saRowCount Pt i r s m').1 ∧
      (saRowCount Pt i r s m).2 = (saRowCount Pt i r s m').2 := by
  unfold saRowCount
  have inner : ∀ (l : Row K) (st st' : Array Int × Nat), MEqv (i : Int) st.1 st'.1 → st.2 = st'.2 →
      let g := fun (st : Array Int × Nat) (cpvp : Nat × K) =>
        if (st.1.getD cpvp.1 0 != (i : Int)) = true then (st.1.setIfInBounds cpvp.1 (i : Int), st.2 + 1) else st
      MEqv (i : Int) (l.foldl g st).1 (l.foldl g st').1 ∧ (l.foldl g st).2 = (l.foldl g st').2 := by
    intro l
    induction l with
    | nil => intro st st' h1 h2; exact ⟨h1, h2⟩
    | cons e rest ih =>
      intro st st' h1 h2
      simp only [List.foldl_cons]
      rcases h1.2 e.1 with ⟨b1, b2⟩ | b3
      · have n1 : (st.1.getD e.1 0 != (i : Int)) = true := by
          rw [bne_iff_ne]; omega
        have n2 : (st'.1.getD e.1 0 != (i : Int)) = true := by
          rw [bne_iff_ne]; omega
        rw [if_pos n1, if_pos n2]
        exact ih _ _ (h1.set _ _) (by simp [h2])
      · rw [b3]
        by_cases hne : (st'.1.getD e.1 0 != (i : Int)) = true
        · rw [if_pos hne, if_pos hne]; exact ih _ _ (h1.set _ _) (by simp [h2])
        · rw [if_neg hne, if_neg hne]; exact ih _ _ h1 h2
  have outer : ∀ (z : List ((Nat × K) × Bool)) (st st' : Array Int × Nat), MEqv (i : Int) st.1 st'.1 → st.2 = st'.2 →
      let f := fun (st : Array Int × Nat) (cs : (Nat × K) × Bool) =>
        if (cs.1.1 != i && !cs.2) = true then st else
          (Pt.row cs.1.1).foldl (fun (st : Array Int × Nat) cpvp =>
            if (st.1.getD cpvp.1 0 != (i : Int)) = true then (st.1.setIfInBounds cpvp.1 (i : Int), st.2 + 1) else st) st
      MEqv (i : Int) (z.foldl f st).1 (z.foldl f st').1 ∧ (z.foldl f st).2 = (z.foldl f st').2 := by
    intro z
    induction z with
    | nil => intro st st' h1 h2; exact ⟨h1, h2⟩
    | cons cs rest ih =>
      intro st st' h1 h2
      simp only [List.foldl_cons]
      by_cases hskip : (cs.1.1 != i && !cs.2) = true
      · simp only [hskip, if_true]; exact ih st st' h1 h2
      · simp only [hskip, if_false]
        obtain ⟨a1, a2⟩ := inner (Pt.row cs.1.1) st st' h1 h2
        exact ih _ _ a1 a2
  exact outer (r.zip s) (m, 0) (m', 0) hm rfl

/-- the counting loop over an increasing sequence of rows -/
theorem saCountsFrom_eqv (A : CRS K) (S : Array (List Bool)) (Pt : CRS K) (is : List Nat)
    (hinc : is.Pairwise (· < ·)) (b : Nat) (hb : ∀ i ∈ is, b ≤ i) (m m' : Array Int) (hm : MEqv (b : Int) m m') :
    (saCountsFrom A S Pt is m).2 = (saCountsFrom A S Pt is m').2 := by
  unfold saCountsFrom
  have key : ∀ (is : List Nat), is.Pairwise (· < ·) → ∀ (b : Nat), (∀ i ∈ is, b ≤ i) →
      ∀ (st st' : Array Int × List Nat), MEqv (b : Int) st.1 st'.1 → st.2 = st'.2 →
      let f := fun (st : Array Int × List Nat) i =>
        let res := saRowCount Pt i (A.row i) (S.getD i []) st.1
        (res.1, st.2 ++ [res.2])
      (is.foldl f st).2 = (is.foldl f st').2 := by
    intro is
    induction is with
    | nil => intro _ b _ st st' _ h2; exact h2
    | cons i rest ih =>
      intro hp b hb st st' h1 h2
      simp only [List.foldl_cons]
      have hbi : b ≤ i := hb i List.mem_cons_self
      obtain ⟨a1, a2⟩ := saRowCount_eqv Pt i (A.row i) (S.getD i []) st.1 st'.1 (h1.mono (by exact_mod_cast hbi))
      rw [List.pairwise_cons] at hp
      apply ih hp.2 i (fun j hj => Nat.le_of_lt (hp.1 j hj))
      · exact a1
      · simp only [h2, a2]
  exact key is hinc b hb (m, []) (m', []) hm rfl

end count
end Coarsening
end Amgcl
