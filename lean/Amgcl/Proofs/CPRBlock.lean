import Amgcl.Proofs.CPRWeights
import Amgcl.Proofs.CPRApp
/-!
Block-valued input versus scalar input with `block_size = B` (C18, `cpr_scalar_eq_block`): the scalar rows of an
expanded block row share their block columns, so the lock-step walk visits exactly the stored blocks of the block
row, in order; weights and pressure-matrix rows coincide with what the block constructor computes directly.
-/
namespace Amgcl.CPR
open Amgcl Finset

section xrow
variable {K : Type}

/-- scalar row `r` (of `B`) of a block row `ent` -/
def xrow [Zero K] (B r : Nat) (ent : Row (Blk K)) : Row K :=
  ent.flatMap (fun cv => (List.range B).map (fun s => (cv.1 * B + s, cv.2.getD (r * B + s) 0)))

theorem mem_xrow [Zero K] {B r : Nat} {ent : Row (Blk K)} {e : Nat × K} :
    e ∈ xrow B r ent ↔ ∃ cv ∈ ent, ∃ s, s < B ∧ e = (cv.1 * B + s, cv.2.getD (r * B + s) 0) := by
  unfold xrow
  simp only [List.mem_flatMap, List.mem_map, List.mem_range]
  constructor
  · rintro ⟨cv, hcv, s, hs, rfl⟩; exact ⟨cv, hcv, s, hs, rfl⟩
  · rintro ⟨cv, hcv, s, hs, rfl⟩; exact ⟨cv, hcv, s, hs, rfl⟩

theorem xrow_cons [Zero K] (B r : Nat) (cv : Nat × Blk K) (t : Row (Blk K)) :
    xrow B r (cv :: t) = (List.range B).map (fun s => (cv.1 * B + s, cv.2.getD (r * B + s) 0)) ++ xrow B r t := by
  unfold xrow; simp

theorem range_map_sorted [Zero K] (B c : Nat) (f : Nat → K) :
    Sorted ((List.range B).map (fun s => (c * B + s, f s))) := by
  unfold Sorted K2.StrictCols
  rw [List.pairwise_map]
  have : (List.range B).Pairwise (· < ·) := List.pairwise_lt_range
  exact this.imp (fun h => by simpa using h)

theorem xrow_sorted [Zero K] (B r : Nat) (ent : Row (Blk K)) (h : K2.StrictCols ent) : Sorted (xrow B r ent) := by
  induction ent with
  | nil => exact List.Pairwise.nil
  | cons cv t ih =>
    rw [xrow_cons]
    unfold Sorted K2.StrictCols
    rw [List.pairwise_append]
    have ht : K2.StrictCols t := (List.pairwise_cons.1 h).2
    refine ⟨range_map_sorted B cv.1 _, ih ht, ?_⟩
    intro a ha b hb
    obtain ⟨s, hs, rfl⟩ := List.mem_map.1 ha
    obtain ⟨cv', hcv', s', hs', rfl⟩ := mem_xrow.1 hb
    have hlt : cv.1 < cv'.1 := (List.pairwise_cons.1 h).1 cv' hcv'
    have hs := List.mem_range.1 hs
    show cv.1 * B + s < cv'.1 * B + s'
    calc cv.1 * B + s < cv.1 * B + B := by omega
      _ = (cv.1 + 1) * B := by rw [Nat.add_mul, Nat.one_mul]
      _ ≤ cv'.1 * B := Nat.mul_le_mul_right _ hlt
      _ ≤ cv'.1 * B + s' := Nat.le_add_right _ _

/-- the scalar value at `(·, c·B + s)` of a block row without duplicate block columns -/
theorem rowGet_xrow [AddCommMonoid K] (B r : Nat) (ent : Row (Blk K)) (hnd : (ent.map (·.1)).Nodup) (c s : Nat)
    (hs : s < B) :
    rowGet (xrow B r ent) (c * B + s)
      = match ent.find? (fun cv => cv.1 = c) with
        | some cv => cv.2.getD (r * B + s) 0
        | none => 0 := by
  induction ent with
  | nil => simp [xrow]
  | cons cv t ih =>
    have hnd' : cv.1 ∉ t.map (·.1) ∧ (t.map (·.1)).Nodup := by
      rw [List.map_cons] at hnd; exact List.nodup_cons.1 hnd
    rw [xrow_cons, rowGet_append, List.find?_cons]
    have hhead : rowGet ((List.range B).map (fun s' => (cv.1 * B + s', cv.2.getD (r * B + s') 0))) (c * B + s)
        = if cv.1 = c then cv.2.getD (r * B + s) 0 else 0 := by
      have : ∀ (l : List Nat), l.Nodup → (∀ x ∈ l, x < B) →
          rowGet (l.map (fun s' => (cv.1 * B + s', cv.2.getD (r * B + s') 0))) (c * B + s)
            = if cv.1 = c ∧ s ∈ l then cv.2.getD (r * B + s) 0 else 0 := by
        intro l
        induction l with
        | nil => intro _ _; simp
        | cons a u ihu =>
          intro hnu hlt
          have hnu' := List.nodup_cons.1 hnu
          have ha : a < B := hlt a List.mem_cons_self
          rw [List.map_cons, rowGet_cons', ihu hnu'.2 (fun x hx => hlt x (List.mem_cons_of_mem _ hx))]
          by_cases hc : cv.1 = c
          · subst hc
            by_cases has : a = s
            · subst has
              have : a ∉ u := hnu'.1
              simp [this]
            · have : ¬ (cv.1 * B + a = cv.1 * B + s) := by omega
              simp [has, Ne.symm has]
          · have : ¬ (cv.1 * B + a = c * B + s) := by
              intro he
              obtain ⟨h1, _⟩ := idx2_inj ha hs he
              exact hc h1
            simp [this, hc]
      rw [this (List.range B) List.nodup_range (fun x hx => List.mem_range.1 hx)]
      simp [hs]
    rw [hhead, ih hnd'.2]
    by_cases hc : cv.1 = c
    · subst hc
      have : t.find? (fun cv' => cv'.1 = cv.1) = none := by
        rw [List.find?_eq_none]
        intro x hx hxe
        apply hnd'.1
        simp only [decide_eq_true_eq] at hxe
        rw [← hxe]; exact List.mem_map_of_mem hx
      simp [this]
    · simp [hc]

end xrow

end Amgcl.CPR

namespace Amgcl.CPR
open Amgcl Finset

section walkx
variable {K : Type} [Field K] [DecidableEq K]

/-- the `B` scalar rows of a block row -/
def xrows (B : Nat) (ent : Row (Blk K)) : List (Row K) := (List.range B).map (fun r => xrow B r ent)

theorem xrows_sorted (B : Nat) (ent : Row (Blk K)) (h : K2.StrictCols ent) : ∀ r ∈ xrows B ent, Sorted r := by
  intro r hr
  obtain ⟨r', _, rfl⟩ := List.mem_map.1 hr
  exact xrow_sorted B r' ent h

theorem mul_add_div_eq {B c s : Nat} (hs : s < B) : (c * B + s) / B = c := by
  rw [Nat.add_comm, Nat.add_mul_div_right _ _ (by omega), Nat.div_eq_of_lt hs, Nat.zero_add]

/-- where the walk stands: the blocks `pre` lie completely below the cut `lo`, the blocks `ent` completely above -/
structure Split (B lo : Nat) (pre ent : Row (Blk K)) : Prop where
  sorted : K2.StrictCols (pre ++ ent)
  hpre : ∀ cv ∈ pre, (cv.1 + 1) * B ≤ lo
  hent : ∀ cv ∈ ent, lo ≤ cv.1 * B

/-- an entry of a scalar row above the cut comes from a block of `ent` -/
theorem Split.mem_ge {B lo : Nat} {pre ent : Row (Blk K)} (h : Split B lo pre ent) {r : Nat} {e : Nat × K}
    (he : e ∈ xrow B r (pre ++ ent)) (hlo : lo ≤ e.1) :
    ∃ cv ∈ ent, ∃ s, s < B ∧ e = (cv.1 * B + s, cv.2.getD (r * B + s) 0) := by
  obtain ⟨cv, hcv, s, hs, rfl⟩ := mem_xrow.1 he
  rcases List.mem_append.1 hcv with hp | hp
  · exfalso
    have := h.hpre cv hp
    have h2 : cv.1 * B + s < (cv.1 + 1) * B := by rw [Nat.add_mul, Nat.one_mul]; omega
    simp only at hlo
    omega
  · exact ⟨cv, hp, s, hs, rfl⟩

theorem Split.next {B lo : Nat} {pre : Row (Blk K)} {cv : Nat × Blk K} {rest : Row (Blk K)}
    (h : Split B lo pre (cv :: rest)) : Split B ((cv.1 + 1) * B) (pre ++ [cv]) rest := by
  refine ⟨by rw [List.append_assoc]; exact h.sorted, ?_, ?_⟩
  · intro x hx
    rcases List.mem_append.1 hx with hp | hp
    · have h1 := h.hpre x hp
      have h2 := h.hent cv List.mem_cons_self
      have : (cv.1 + 1) * B = cv.1 * B + B := by rw [Nat.add_mul, Nat.one_mul]
      omega
    · simp only [List.mem_singleton] at hp; subst hp; exact Nat.le_refl _
  · intro x hx
    have hs : K2.StrictCols (cv :: rest) := (List.pairwise_append.1 h.sorted).2.1
    have hlt : cv.1 < x.1 := (List.pairwise_cons.1 hs).1 x hx
    exact Nat.mul_le_mul_right _ hlt

theorem Split.head_le {B lo : Nat} {pre : Row (Blk K)} {cv : Nat × Blk K} {rest : Row (Blk K)}
    (h : Split B lo pre (cv :: rest)) : ∀ x ∈ cv :: rest, cv.1 ≤ x.1 := by
  intro x hx
  have hs : K2.StrictCols (cv :: rest) := (List.pairwise_append.1 h.sorted).2.1
  rcases List.mem_cons.1 hx with rfl | hx'
  · exact Nat.le_refl _
  · exact Nat.le_of_lt ((List.pairwise_cons.1 hs).1 x hx')

/-- no active block left: the walk is finished -/
theorem curCol_x_none (B Nb lo : Nat) (pre ent : Row (Blk K)) (h : Split B lo pre ent)
    (hfin : ∀ cv ∈ ent, Nb ≤ cv.1) :
    curCol B (Nb * B) ((xrows B (pre ++ ent)).map (geC lo)) = none := by
  cases hc : curCol B (Nb * B) ((xrows B (pre ++ ent)).map (geC lo)) with
  | none => rfl
  | some cur =>
    exfalso
    obtain ⟨_, r, hr, e, he, hlo, hN, _⟩ := curCol_geC_some _ (xrows_sorted B _ h.sorted) lo cur hc
    obtain ⟨r', _, rfl⟩ := List.mem_map.1 hr
    obtain ⟨cv, hcv, s, hs, rfl⟩ := h.mem_ge he hlo
    have := hfin cv hcv
    have : Nb * B ≤ cv.1 * B := Nat.mul_le_mul_right _ this
    simp only at hN
    omega

/-- the next visited block column is the head of the remaining blocks -/
theorem curCol_x_some (B Nb lo : Nat) (hB : 0 < B) (pre : Row (Blk K)) (cv : Nat × Blk K) (rest : Row (Blk K))
    (h : Split B lo pre (cv :: rest)) (hact : cv.1 < Nb) :
    curCol B (Nb * B) ((xrows B (pre ++ cv :: rest)).map (geC lo)) = some cv.1 := by
  have hsr := xrows_sorted B _ h.sorted
  -- the entry `(c·B, ·)` of scalar row 0 is active and above the cut
  have hrow0 : xrow B 0 (pre ++ cv :: rest) ∈ xrows B (pre ++ cv :: rest) :=
    List.mem_map.2 ⟨0, List.mem_range.2 hB, rfl⟩
  have he0 : (cv.1 * B + 0, cv.2.getD (0 * B + 0) 0) ∈ xrow B 0 (pre ++ cv :: rest) :=
    mem_xrow.2 ⟨cv, by simp, 0, hB, rfl⟩
  have hlo0 : lo ≤ cv.1 * B + 0 := by have := h.hent cv List.mem_cons_self; omega
  have hN0 : cv.1 * B + 0 < Nb * B := by
    have : (cv.1 + 1) * B ≤ Nb * B := Nat.mul_le_mul_right _ hact
    rw [Nat.add_mul, Nat.one_mul] at this; omega
  cases hc : curCol B (Nb * B) ((xrows B (pre ++ cv :: rest)).map (geC lo)) with
  | none =>
    exfalso
    have := curCol_geC_none _ hsr lo hc _ hrow0 _ he0 hlo0
    simp only at this; omega
  | some cur =>
    obtain ⟨hmin, r, hr, e, he, hlo, hN, hdiv⟩ := curCol_geC_some _ hsr lo cur hc
    have h1 : cur ≤ cv.1 := by
      have := hmin _ hrow0 _ he0 hlo0 hN0
      rw [show (cv.1 * B + 0, cv.2.getD (0 * B + 0) 0).1 / B = cv.1 from mul_add_div_eq hB] at this
      exact this
    obtain ⟨r', _, rfl⟩ := List.mem_map.1 hr
    obtain ⟨x, hx, s, hs, rfl⟩ := h.mem_ge he hlo
    have h2 : cv.1 ≤ x.1 := h.head_le x hx
    simp only [mul_add_div_eq hs] at hdiv
    congr 1
    omega

end walkx

end Amgcl.CPR

namespace Amgcl.CPR
open Amgcl Finset

section appx
variable {K : Type} [Field K] [DecidableEq K]

theorem zipIdx_range_map {α : Type} (n : Nat) (f : Nat → α) :
    ((List.range n).map f).zipIdx = (List.range n).map (fun i => (f i, i)) := by
  apply List.ext_getElem
  · simp
  · intro k h1 h2
    simp

/-- the block of column `c` in a block row split at it -/
theorem find_split (B lo : Nat) (pre : Row (Blk K)) (cv : Nat × Blk K) (rest : Row (Blk K))
    (h : Split B lo pre (cv :: rest)) (hB : 0 < B) :
    (pre ++ cv :: rest).find? (fun x => x.1 = cv.1) = some cv := by
  rw [List.find?_append]
  have : pre.find? (fun x => decide (x.1 = cv.1)) = none := by
    rw [List.find?_eq_none]
    intro x hx hxe
    simp only [decide_eq_true_eq] at hxe
    have h1 := h.hpre x hx
    have h2 := h.hent cv List.mem_cons_self
    rw [hxe, Nat.add_mul, Nat.one_mul] at h1
    omega
  rw [this]
  simp

/-- the pressure-matrix value of one stored block, as the block constructor computes it -/
def blkApp (B : Nat) (d : Array K) (blk : Blk K) : K :=
  (List.range B).foldl (fun a k => a + d.getD k 0 * blk.getD (k * B) 0) 0

/-- **second pass on an expanded block row**: one entry per stored active block, in stored order -/
theorem appLoop_x (B Nb : Nat) (hB : 0 < B) (d : Array K) :
    ∀ (ent pre : Row (Blk K)) (lo fuel : Nat) (acc : Row K), Split B lo pre ent → ent.length < fuel →
      appLoop B (Nb * B) d fuel ((xrows B (pre ++ ent)).map (geC lo)) acc
        = acc ++ (ent.filter (fun cv => decide (cv.1 < Nb))).map (fun cv => (cv.1, blkApp B d cv.2)) := by
  intro ent
  induction ent with
  | nil =>
    intro pre lo fuel acc h hf
    obtain ⟨f, rfl⟩ : ∃ f, fuel = f + 1 := ⟨fuel - 1, by simp at hf; omega⟩
    unfold appLoop
    rw [curCol_x_none B Nb lo pre [] h (by intro cv hcv; cases hcv)]
    simp
  | cons cv rest ih =>
    intro pre lo fuel acc h hf
    obtain ⟨f, rfl⟩ : ∃ f, fuel = f + 1 := ⟨fuel - 1, by simp at hf; omega⟩
    unfold appLoop
    by_cases hact : cv.1 < Nb
    · rw [curCol_x_some B Nb lo hB pre cv rest h hact]
      simp only
      have hsr := xrows_sorted B _ h.sorted
      have hle : lo ≤ (cv.1 + 1) * B := by
        have := h.hent cv List.mem_cons_self
        rw [Nat.add_mul, Nat.one_mul]; omega
      have hmid : ∀ r ∈ xrows B (pre ++ cv :: rest), ∀ e ∈ r, lo ≤ e.1 → e.1 < (cv.1 + 1) * B → e.1 / B = cv.1 := by
        intro r hr e he h1 h2
        obtain ⟨r', _, rfl⟩ := List.mem_map.1 hr
        obtain ⟨x, hx, s, hs, rfl⟩ := h.mem_ge he h1
        have hxc := h.head_le x hx
        simp only at h2 ⊢
        rw [mul_add_div_eq hs]
        have : x.1 < cv.1 + 1 := by
          by_contra hcon
          have : (cv.1 + 1) * B ≤ x.1 * B := Nat.mul_le_mul_right _ (by omega)
          omega
        omega
      rw [advance_geC _ hsr lo _ hle, app_value B d _ hsr lo _ cv.1 hmid]
      -- the accumulated value is the block value
      have hval : ((xrows B (pre ++ cv :: rest)).zipIdx.map (fun ri => d.getD ri.2 0 *
          rowGet (ri.1.filter (fun e => decide (lo ≤ e.1 ∧ e.1 < (cv.1 + 1) * B))) (cv.1 * B))).sum
          = blkApp B d cv.2 := by
        unfold xrows blkApp
        rw [zipIdx_range_map, List.map_map, foldl_add_sum, zero_add]
        apply congrArg
        apply List.map_congr_left
        intro r _
        show d.getD r 0 * rowGet ((xrow B r (pre ++ cv :: rest)).filter _) (cv.1 * B) = _
        rw [rowGet_filter (fun c => decide (lo ≤ c ∧ c < (cv.1 + 1) * B))]
        have hcond : lo ≤ cv.1 * B ∧ cv.1 * B < (cv.1 + 1) * B := by
          refine ⟨h.hent cv List.mem_cons_self, ?_⟩
          rw [Nat.add_mul, Nat.one_mul]; omega
        simp only [hcond, and_self, decide_true, if_true]
        have := rowGet_xrow B r (pre ++ cv :: rest) (K2.StrictCols.nodup h.sorted) cv.1 0 hB
        rw [Nat.add_zero] at this
        rw [this, find_split B lo pre cv rest h hB]
        simp only [Nat.add_zero]
      rw [hval]
      have hnext := h.next
      have := ih (pre ++ [cv]) ((cv.1 + 1) * B) f (acc ++ [(cv.1, blkApp B d cv.2)]) hnext (by simp at hf; omega)
      rw [List.append_assoc] at this
      simp only [List.singleton_append] at this
      rw [this, List.filter_cons_of_pos (by simpa using hact)]
      simp
    · have hfin : ∀ x ∈ cv :: rest, Nb ≤ x.1 := by
        intro x hx
        have := h.head_le x hx
        omega
      rw [curCol_x_none B Nb lo pre (cv :: rest) h hfin]
      simp only
      have : (cv :: rest).filter (fun x => decide (x.1 < Nb)) = [] := by
        rw [List.filter_eq_nil_iff]
        intro x hx
        have := hfin x hx
        simp; omega
      rw [this]; simp

end appx

end Amgcl.CPR

namespace Amgcl.CPR
open Amgcl Finset

section passx
variable {K : Type} [Field K] [DecidableEq K]

theorem get2_blkT (B : Nat) (blk : Blk K) (cB i : Nat) (hcB : cB < B) (hi : i < B) :
    get2 B (blkT B blk) cB i = blk.getD (i * B + cB) 0 := by
  unfold get2 blkT
  rw [getD_ofFn_lt _ _ _ (idx2_lt hcB hi)]
  have h1 : (cB * B + i) % B = i := by rw [Nat.mul_comm, Nat.mul_add_mod, Nat.mod_eq_of_lt hi]
  have h2 : (cB * B + i) / B = cB := mul_add_div_eq hi
  simp only [h1, h2]

/-- what `first_scalar_pass` captures at the diagonal block of an expanded block row is the transposed block -/
theorem capture_x (B lo : Nat) (hB : 0 < B) (pre : Row (Blk K)) (cv : Nat × Blk K) (rest : Row (Blk K))
    (h : Split B lo pre (cv :: rest)) :
    diagCapture B ((cv.1 + 1) * B) ((xrows B (pre ++ cv :: rest)).map (geC lo)) = blkT B cv.2 := by
  have hsr := xrows_sorted B _ h.sorted
  rw [diagCapture_eq B lo _ _ hsr]
  set L := (xrows B (pre ++ cv :: rest)).map
    (fun r => r.filter (fun e => decide (lo ≤ e.1 ∧ e.1 < (cv.1 + 1) * B))) with hL
  have hLlen : L.length = B := by simp [hL, xrows]
  have hLnd : ∀ l ∈ L, (l.map (·.1)).Nodup := by
    intro l hl
    obtain ⟨r, hr, rfl⟩ := List.mem_map.1 hl
    exact K2.StrictCols.nodup ((hsr r hr).filter _)
  have hLblk : ∀ l ∈ L, ∀ e ∈ l, e.1 / B = cv.1 := by
    intro l hl e he
    obtain ⟨r, hr, rfl⟩ := List.mem_map.1 hl
    simp only [List.mem_filter, decide_eq_true_eq] at he
    obtain ⟨r', _, rfl⟩ := List.mem_map.1 hr
    obtain ⟨x, hx, s, hs, rfl⟩ := h.mem_ge he.1 he.2.1
    have hxc := h.head_le x hx
    have h2 := he.2.2
    simp only at h2 ⊢
    rw [mul_add_div_eq hs]
    have : x.1 < cv.1 + 1 := by
      by_contra hcon
      have : (cv.1 + 1) * B ≤ x.1 * B := Nat.mul_le_mul_right _ (by omega)
      omega
    omega
  obtain ⟨hvs, hvg⟩ := capFold_spec B cv.1 hB L (by omega) hLnd hLblk
  apply Vec.ext_getD (0 : K)
  · rw [hvs]; simp [blkT]
  · intro q hq
    rw [hvs] at hq
    have hqd : q / B < B := (Nat.div_lt_iff_lt_mul hB).2 hq
    have hqm : q % B < B := Nat.mod_lt _ hB
    have hqe : q = (q / B) * B + q % B := by
      have := Nat.div_add_mod q B
      rw [Nat.mul_comm]; omega
    have e1 : (capFold B L).getD q 0 = get2 B (capFold B L) (q / B) (q % B) := by unfold get2; rw [← hqe]
    have e2 : (blkT B cv.2).getD q 0 = get2 B (blkT B cv.2) (q / B) (q % B) := by unfold get2; rw [← hqe]
    rw [e1, e2, hvg _ _ hqd hqm, get2_blkT B cv.2 _ _ hqd hqm]
    have hLi : L.getD (q % B) [] = (xrow B (q % B) (pre ++ cv :: rest)).filter
        (fun e => decide (lo ≤ e.1 ∧ e.1 < (cv.1 + 1) * B)) := by
      simp [hL, xrows, List.getD_eq_getElem?_getD, hqm]
    rw [hLi, rowGet_filter (fun c => decide (lo ≤ c ∧ c < (cv.1 + 1) * B))]
    have hcond : lo ≤ cv.1 * B + q / B ∧ cv.1 * B + q / B < (cv.1 + 1) * B := by
      have := h.hent cv List.mem_cons_self
      refine ⟨Nat.le_trans this (Nat.le_add_right _ _), ?_⟩
      rw [Nat.add_mul, Nat.one_mul]
      exact Nat.add_lt_add_left hqd _
    simp only [hcond, and_self, decide_true, if_true]
    rw [rowGet_xrow B (q % B) (pre ++ cv :: rest) (K2.StrictCols.nodup h.sorted) cv.1 (q / B) hqd,
      find_split B lo pre cv rest h hB]

/-- **first pass on an expanded block row**: the weights are `invert` of the transposed stored diagonal block (the first
stored block with column `ip`), none if there is none -/
theorem passLoop_x (B Nb ip : Nat) (hB : 0 < B) (hip : ip < Nb) :
    ∀ (ent pre : Row (Blk K)) (lo fuel cnt : Nat), Split B lo pre ent → ent.length < fuel →
      let R := passLoop B (Nb * B) ip true fuel
        { ks := (xrows B (pre ++ ent)).map (geC lo), cnt := cnt, w := none, zeroPivot := false }
      (R.w, R.zeroPivot) = match ent.find? (fun cv => cv.1 = ip) with
        | none => (none, false)
        | some cv => match invert B (blkT B cv.2) with
          | none => (none, true)
          | some y => (some y, false) := by
  intro ent
  induction ent with
  | nil =>
    intro pre lo fuel cnt h hf
    obtain ⟨f, rfl⟩ : ∃ f, fuel = f + 1 := ⟨fuel - 1, by simp at hf; omega⟩
    intro R
    have hR : R = { ks := (xrows B (pre ++ [])).map (geC lo), cnt := cnt, w := none, zeroPivot := false } := by
      show passLoop _ _ _ _ _ _ = _
      unfold passLoop
      rw [curCol_x_none B Nb lo pre [] h (by intro cv hcv; cases hcv)]
    rw [hR]; rfl
  | cons cv rest ih =>
    intro pre lo fuel cnt h hf
    obtain ⟨f, rfl⟩ : ∃ f, fuel = f + 1 := ⟨fuel - 1, by simp at hf; omega⟩
    intro R
    have hsr := xrows_sorted B _ h.sorted
    by_cases hact : cv.1 < Nb
    · have hle : lo ≤ (cv.1 + 1) * B := by
        have := h.hent cv List.mem_cons_self
        rw [Nat.add_mul, Nat.one_mul]; omega
      by_cases hci : cv.1 = ip
      · -- the diagonal block is visited now
        have hfind : (cv :: rest).find? (fun x => decide (x.1 = ip)) = some cv := by
          rw [List.find?_cons]; simp [hci]
        rw [hfind]
        simp only
        cases hinv : invert B (blkT B cv.2) with
        | none =>
          have hR : (R.w, R.zeroPivot) = (none, true) := by
            show ((passLoop _ _ _ _ _ _).w, (passLoop _ _ _ _ _ _).zeroPivot) = _
            unfold passLoop
            rw [curCol_x_some B Nb lo hB pre cv rest h hact]
            simp only
            rw [if_pos hci, capture_x B lo hB pre cv rest h, hinv]
          exact hR
        | some y =>
          have hR : (R.w, R.zeroPivot) = (some y, false) := by
            show ((passLoop _ _ _ _ _ _).w, (passLoop _ _ _ _ _ _).zeroPivot) = _
            unfold passLoop
            rw [curCol_x_some B Nb lo hB pre cv rest h hact]
            simp only
            rw [if_pos hci, capture_x B lo hB pre cv rest h, hinv]
            simp only [if_true]
            rw [advance_geC _ hsr lo _ hle]
            have hnv := fun c => passLoop_novisit B (Nb * B) ip hB _ hsr true f ((cv.1 + 1) * B) c (some y) false
              (by
                intro r hr e he h1 _
                rw [hci] at h1
                have : ip + 1 ≤ e.1 / B := (Nat.le_div_iff_mul_le hB).2 h1
                omega)
            rw [(hnv _).1, (hnv _).2]
          exact hR
      · -- another block: skip it
        have hfind : (cv :: rest).find? (fun x => decide (x.1 = ip)) = rest.find? (fun x => decide (x.1 = ip)) := by
          rw [List.find?_cons]; simp [hci]
        rw [hfind]
        have hnext := h.next
        have := ih (pre ++ [cv]) ((cv.1 + 1) * B) f (cnt + 1) hnext (by simp at hf; omega)
        simp only at this
        rw [← this]
        show ((passLoop _ _ _ _ _ _).w, (passLoop _ _ _ _ _ _).zeroPivot) = _
        conv_lhs => unfold passLoop
        rw [curCol_x_some B Nb lo hB pre cv rest h hact]
        simp only [if_true]
        rw [if_neg hci, advance_geC _ hsr lo _ hle]
        simp only [List.append_assoc, List.singleton_append]
    · have hfin : ∀ x ∈ cv :: rest, Nb ≤ x.1 := by
        intro x hx
        have := h.head_le x hx
        omega
      have hfind : (cv :: rest).find? (fun x => decide (x.1 = ip)) = none := by
        rw [List.find?_eq_none]
        intro x hx
        have := hfin x hx
        simp; omega
      rw [hfind]
      have hR : R = { ks := (xrows B (pre ++ cv :: rest)).map (geC lo), cnt := cnt, w := none, zeroPivot := false } := by
        show passLoop _ _ _ _ _ _ = _
        unfold passLoop
        rw [curCol_x_none B Nb lo pre (cv :: rest) h hfin]
      rw [hR]

end passx

end Amgcl.CPR

namespace Amgcl.CPR
open Amgcl Finset

section assemble
variable {K : Type} [Field K] [DecidableEq K]

theorem xrow_length (B r : Nat) (ent : Row (Blk K)) : (xrow B r ent).length = ent.length * B := by
  induction ent with
  | nil => simp [xrow]
  | cons cv t ih => rw [xrow_cons, List.length_append, ih]; simp [Nat.add_mul, Nat.add_comm]

theorem remaining_xrows (B : Nat) (ent : Row (Blk K)) (hB : 0 < B) : ent.length ≤ remaining (xrows B ent) := by
  unfold remaining xrows
  rw [List.map_map]
  have h0 : (0 : Nat) ∈ List.range B := List.mem_range.2 hB
  have : (List.length ∘ fun r => xrow B r ent) 0 ≤ ((List.range B).map (List.length ∘ fun r => xrow B r ent)).sum :=
    List.single_le_sum (fun _ _ => Nat.zero_le _) _ (List.mem_map_of_mem h0)
  have h1 : (List.length ∘ fun r => xrow B r ent) 0 = ent.length * B := xrow_length B 0 ent
  rw [h1] at this
  calc ent.length ≤ ent.length * B := Nat.le_mul_of_pos_right _ hB
    _ ≤ _ := this

/-- the scalar rows of block row `ip` of the expanded matrix -/
theorem expand_row (B : Nat) (Ab : CRS (Blk K)) (ip r : Nat) (hip : ip < Ab.nrows) (hr : r < B) :
    (expand B Ab).row (ip * B + r) = xrow B r (Ab.row ip) := by
  unfold expand CRS.row
  have hlt : ip * B + r < Ab.nrows * B := by
    calc ip * B + r < ip * B + B := by omega
      _ = (ip + 1) * B := by rw [Nat.add_mul, Nat.one_mul]
      _ ≤ Ab.nrows * B := Nat.mul_le_mul_right _ hip
  rw [getD_ofFn_lt _ _ _ hlt]
  have h1 : (ip * B + r) / B = ip := mul_add_div_eq hr
  have h2 : (ip * B + r) % B = r := by rw [Nat.mul_comm, Nat.mul_add_mod, Nat.mod_eq_of_lt hr]
  simp only [h1, h2]
  rfl

theorem blockRows_expand (B : Nat) (Ab : CRS (Blk K)) (ip : Nat) (hip : ip < Ab.nrows) :
    blockRows (expand B Ab) B ip = xrows B (Ab.row ip) := by
  unfold blockRows xrows
  apply List.map_congr_left
  intro r hr
  exact expand_row B Ab ip r hip (List.mem_range.1 hr)

theorem split_zero (B : Nat) (ent : Row (Blk K)) (h : K2.StrictCols ent) : Split B 0 [] ent :=
  { sorted := by simpa using h
    hpre := fun cv hcv => by cases hcv
    hent := fun cv _ => Nat.zero_le _ }

/-- first pass of the scalar constructor on block row `ip` of the expanded matrix = the block constructor's weights -/
theorem passRow_expand (B Nb : Nat) (hB : 0 < B) (Ab : CRS (Blk K)) (hs : Ab.sortedb = true) (ip : Nat)
    (hipn : ip < Ab.nrows) (hip : ip < Nb) :
    ((passRow (expand B Ab) B (Nb * B) ip true).w, (passRow (expand B Ab) B (Nb * B) ip true).zeroPivot)
      = match (Ab.row ip).find? (fun cv => cv.1 = ip) with
        | none => (none, false)
        | some cv => match invert B (blkT B cv.2) with
          | none => (none, true)
          | some y => (some y, false) := by
  have hsorted : K2.StrictCols (Ab.row ip) := (K2.sortedb_iff.1 hs) ip
  unfold passRow
  simp only
  rw [blockRows_expand B Ab ip hipn]
  have := passLoop_x B Nb ip hB hip (Ab.row ip) [] 0 (remaining (xrows B (Ab.row ip)) + 1) 0
    (split_zero B _ hsorted) (by have := remaining_xrows B (Ab.row ip) hB; omega)
  simp only [List.nil_append, map_geC_zero] at this
  exact this

/-- the weights / flags of `blockWeights` in terms of the same match -/
theorem blockWeights_eq (Ab : CRS (Blk K)) (B ip : Nat) :
    blockWeights Ab B ip = match (Ab.row ip).find? (fun cv => cv.1 = ip) with
      | none => (Array.replicate B 0, true, false)
      | some cv => match invert B (blkT B cv.2) with
        | none => (Array.replicate B 0, false, true)
        | some y => (y, false, false) := rfl

theorem weights_expand (B Nb : Nat) (hB : 0 < B) (Ab : CRS (Blk K)) (hs : Ab.sortedb = true) (ip : Nat)
    (hipn : ip < Ab.nrows) (hip : ip < Nb) :
    weights B (passRow (expand B Ab) B (Nb * B) ip true) = (blockWeights Ab B ip).1 ∧
    ((passRow (expand B Ab) B (Nb * B) ip true).w.isNone && !(passRow (expand B Ab) B (Nb * B) ip true).zeroPivot)
      = (blockWeights Ab B ip).2.1 ∧
    (passRow (expand B Ab) B (Nb * B) ip true).zeroPivot = (blockWeights Ab B ip).2.2 := by
  have h := passRow_expand B Nb hB Ab hs ip hipn hip
  rw [blockWeights_eq]
  unfold weights
  cases hf : (Ab.row ip).find? (fun cv => decide (cv.1 = ip)) with
  | none =>
    rw [hf] at h
    simp only [Prod.mk.injEq] at h
    simp [h.1, h.2]
  | some cv =>
    rw [hf] at h
    simp only at h ⊢
    cases hi : invert B (blkT B cv.2) with
    | none =>
      rw [hi] at h
      simp only [Prod.mk.injEq] at h
      simp [h.1, h.2]
    | some y =>
      rw [hi] at h
      simp only [Prod.mk.injEq] at h
      simp [h.1, h.2]

/-- second pass of the scalar constructor on block row `ip` of the expanded matrix = the block constructor's row -/
theorem appRow_expand (B Nb : Nat) (hB : 0 < B) (Ab : CRS (Blk K)) (hs : Ab.sortedb = true) (ip : Nat)
    (hipn : ip < Ab.nrows) (d : Array K) :
    appRow (expand B Ab) B (Nb * B) ip d
      = ((Ab.row ip).filter (fun cv => decide (cv.1 < Nb))).map (fun cv =>
          (cv.1, (List.range B).foldl (fun a k => a + d.getD k 0 * cv.2.getD (k * B) 0) 0)) := by
  have hsorted : K2.StrictCols (Ab.row ip) := (K2.sortedb_iff.1 hs) ip
  unfold appRow
  simp only
  rw [blockRows_expand B Ab ip hipn]
  have := appLoop_x B Nb hB d (Ab.row ip) [] 0 (remaining (xrows B (Ab.row ip)) + 1) []
    (split_zero B _ hsorted) (by have := remaining_xrows B (Ab.row ip) hB; omega)
  simp only [List.nil_append, map_geC_zero] at this
  rw [this]
  rfl

theorem spmvAddInto_rows (A A' : CRS K) (x y : Vec K) (h : ∀ i, A.row i = A'.row i) :
    spmvAddInto A x y = spmvAddInto A' x y := by
  have key : ∀ (M : CRS K), spmvAddInto M x y
      = Array.ofFn (n := y.size) (fun i => rowDot (M.row i.val) x + y.getD i.val 0) := by
    intro M
    unfold spmvAddInto
    congr 1
    funext i
    by_cases hi : i.val < M.nrows
    · rw [if_pos hi]
    · rw [if_neg hi, CRS.row_ge M i.val (by omega)]
      simp [rowDot]
  rw [key A, key A']
  congr 1
  funext i
  rw [h]

end assemble

end Amgcl.CPR

namespace Amgcl.CPR
open Amgcl Finset

section final
variable {K : Type} [Field K] [DecidableEq K]

theorem scatterOf_row (B nr np i : Nat) :
    (scatterOf B nr np : CRS K).row i = if i < nr ∧ (i % B = 0 ∧ i / B < np) then [(i / B, (1 : K))] else [] := by
  unfold scatterOf CRS.row
  rw [getD_ofFn]
  by_cases h : i < nr
  · rw [dif_pos h]
    by_cases h2 : i % B = 0 ∧ i / B < np
    · rw [if_pos h2, if_pos ⟨h, h2⟩]
    · rw [if_neg h2, if_neg (fun hh => h2 hh.2)]
  · rw [dif_neg h, if_neg (fun hh => h hh.1)]

theorem ofFn_congr' {α : Type} {a b : Nat} (h : a = b) (f : Fin a → α) (g : Fin b → α)
    (hfg : ∀ i (ha : i < a) (hb : i < b), f ⟨i, ha⟩ = g ⟨i, hb⟩) : Array.ofFn f = Array.ofFn g := by
  subst h
  congr 1
  funext i
  exact hfg i.val i.isLt i.isLt

theorem crs_ext {α : Type} {A A' : CRS α} (h1 : A.ncols = A'.ncols) (h2 : A.rows = A'.rows) : A = A' := by
  cases A; cases A'; simp_all

theorem expand_nrows (B : Nat) (Ab : CRS (Blk K)) : (expand B Ab).nrows = Ab.nrows * B := by
  simp [expand, CRS.nrows]

theorem any_range_congr (n : Nat) (f g : Nat → Bool) (h : ∀ i, i < n → f i = g i) :
    (List.range n).any f = (List.range n).any g := by
  induction n with
  | zero => rfl
  | succ k ih =>
    rw [List.range_succ, List.any_append, List.any_append, ih (fun i hi => h i (by omega))]
    simp [h k (Nat.lt_succ_self k)]

/-- **scalar input with `block_size = B` and `B × B` block input give the same object and the same action** -/
theorem initScalar_expand (Ab : CRS (Blk K)) (hs : Ab.sortedb = true) (B act : Nat) (hB : 0 < B)
    (hact : act ≤ Ab.nrows) :
    (initScalar (expand B Ab) B (act * B)).np = (initBlock Ab B act).np ∧
    (initScalar (expand B Ab) B (act * B)).Fpp = (initBlock Ab B act).Fpp ∧
    (initScalar (expand B Ab) B (act * B)).App = (initBlock Ab B act).App ∧
    (initScalar (expand B Ab) B (act * B)).AS = (initBlock Ab B act).AS ∧
    (initScalar (expand B Ab) B (act * B)).uninit = (initBlock Ab B act).uninit ∧
    (initScalar (expand B Ab) B (act * B)).zeroPivot = (initBlock Ab B act).zeroPivot ∧
    (∀ i, (initScalar (expand B Ab) B (act * B)).Scatter.row i = (initBlock Ab B act).Scatter.row i) ∧
    ∀ (mkS : CRS K → Vec K → Vec K) (Pf : Vec K → Vec K) (f : Vec K),
      (initScalar (expand B Ab) B (act * B)).apply mkS Pf f = (initBlock Ab B act).apply mkS Pf f := by
  set Nb := if act = 0 then Ab.nrows else act with hNb
  have hNbn : Nb ≤ Ab.nrows := by rw [hNb]; split <;> omega
  have hNs : (if act * B = 0 then (expand B Ab).nrows else act * B) = Nb * B := by
    rw [expand_nrows, hNb]
    by_cases ha : act = 0
    · simp [ha]
    · have : act * B ≠ 0 := Nat.mul_ne_zero ha (by omega)
      simp [ha, this]
  have hq : Nb * B / B = Nb := Nat.mul_div_cancel _ hB
  have hnp : (initScalar (expand B Ab) B (act * B)).np = (initBlock Ab B act).np := by
    show (if act * B = 0 then (expand B Ab).nrows else act * B) / B = (if act = 0 then Ab.nrows else act)
    rw [hNs, hq]
  have hFpp : (initScalar (expand B Ab) B (act * B)).Fpp = (initBlock Ab B act).Fpp := by
    unfold initScalar initBlock fppOf
    simp only
    apply crs_ext
    · show (if act * B = 0 then (expand B Ab).nrows else act * B) = (if act = 0 then Ab.nrows else act) * B
      rw [hNs]
    · apply ofFn_congr' (by rw [hNs, hq])
      intro ip ha hb
      simp only [hNs]
      apply List.map_congr_left
      intro i _
      have hb' : ip < Nb := hb
      rw [(weights_expand B Nb hB Ab hs ip (by omega) hb').1]
  have hApp : (initScalar (expand B Ab) B (act * B)).App = (initBlock Ab B act).App := by
    unfold initScalar initBlock
    simp only
    apply crs_ext
    · show (if act * B = 0 then (expand B Ab).nrows else act * B) / B = (if act = 0 then Ab.nrows else act)
      rw [hNs, hq]
    · apply ofFn_congr' (by rw [hNs, hq])
      intro ip ha hb
      simp only [hNs]
      have hb' : ip < Nb := hb
      rw [appRow_expand B Nb hB Ab hs ip (by omega), (weights_expand B Nb hB Ab hs ip (by omega) hb').1]
  have hun : (initScalar (expand B Ab) B (act * B)).uninit = (initBlock Ab B act).uninit := by
    unfold initScalar initBlock
    simp only [hNs, hq]
    apply any_range_congr
    intro ip hip
    exact (weights_expand B Nb hB Ab hs ip (by omega) hip).2.1
  have hzp : (initScalar (expand B Ab) B (act * B)).zeroPivot = (initBlock Ab B act).zeroPivot := by
    unfold initScalar initBlock
    simp only [hNs, hq]
    apply any_range_congr
    intro ip hip
    exact (weights_expand B Nb hB Ab hs ip (by omega) hip).2.2
  have hSc : ∀ i, (initScalar (expand B Ab) B (act * B)).Scatter.row i = (initBlock Ab B act).Scatter.row i := by
    intro i
    show (scatterOf B (expand B Ab).nrows ((if act * B = 0 then (expand B Ab).nrows else act * B) / B) : CRS K).row i
      = (scatterOf B ((if act = 0 then Ab.nrows else act) * B) (if act = 0 then Ab.nrows else act) : CRS K).row i
    rw [scatterOf_row, scatterOf_row, hNs, hq, expand_nrows]
    have hle : Nb * B ≤ Ab.nrows * B := Nat.mul_le_mul_right _ hNbn
    by_cases h3 : i % B = 0 ∧ i / B < Nb
    · have : i < Nb * B := (Nat.div_lt_iff_lt_mul hB).1 h3.2
      have h4 : i < Ab.nrows * B := by omega
      rw [if_pos ⟨h4, h3⟩, if_pos ⟨this, h3⟩]
    · rw [if_neg (fun h => h3 h.2), if_neg (fun h => h3 h.2)]
  refine ⟨hnp, hFpp, hApp, rfl, hun, hzp, hSc, ?_⟩
  intro mkS Pf f
  unfold State.apply
  simp only
  have hAS : (initScalar (expand B Ab) B (act * B)).AS = (initBlock Ab B act).AS := rfl
  rw [hFpp, hnp, hAS]
  exact spmvAddInto_rows _ _ _ _ hSc

end final

end Amgcl.CPR

namespace Amgcl.CPR
open Amgcl

section updblock
variable {K : Type} [Field K] [DecidableEq K]

/-- `partial_update` of the block-valued object with an unchanged (row-sorted) matrix is the identity on the object -/
theorem partialUpdateBlock_same (Ab : CRS (Blk K)) (hs : Ab.sortedb = true) (B act : Nat) (hB : 0 < B) (upd : Bool) :
    partialUpdateBlock (initBlock Ab B act) Ab B act upd = initBlock Ab B act := by
  unfold partialUpdateBlock
  rw [K2.sortRows_of_sorted Ab hs]
  cases upd with
  | false => rfl
  | true =>
    simp only [if_true]
    have hn : (initBlock Ab B act).n / B = Ab.nrows := by
      show Ab.nrows * B / B = Ab.nrows
      exact Nat.mul_div_cancel _ hB
    rw [hn]
    rfl

end updblock

end Amgcl.CPR
