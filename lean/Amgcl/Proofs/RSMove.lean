import Amgcl.Proofs.RSInv
import Mathlib.Tactic.SplitIfs
/-!
`cfsplit`: the arithmetic of moving one variable to the neighbouring lambda group, on the function views of the
bucket structure (`C` = group sizes `cnt`, `L` = `lambda`, `I` = `i2n`, `Pt` = `ptr`).

* `binv_inc` — l.401-413: the variable at position `o` of group `a` is swapped to the LAST position `w` of its group,
  the group shrinks by one, group `a+1` grows by one and its start is reset to `w`;
* `binv_dec` — l.426-437: the variable is swapped to the FIRST position `w = ptr[a]` of its group, group `a` shrinks
  from the left (`++ptr[a]`), group `a-1` grows by one.
-/
namespace Amgcl
namespace RS

/-- the part of the invariant that talks about the groups -/
structure BInv (n top : Nat) (C L I Pt : Nat → Nat) : Prop where
  grp : ∀ p, p < top → pre C (L (I p)) ≤ p ∧ p < pre C (L (I p)) + C (L (I p))
  tot : pre C n = top
  ptr : ∀ l, l < n → (∃ l', l ≤ l' ∧ l' < n ∧ 0 < C l') → Pt l = pre C l

/-- position inside a group identifies the group of the variable stored there -/
theorem BInv.group_of {n top : Nat} {C L I Pt : Nat → Nat} (h : BInv n top C L I Pt) {p l : Nat} (hp : p < top)
    (h1 : pre C l ≤ p) (h2 : p < pre C l + C l) : L (I p) = l :=
  grp_unique C (h.grp p hp).1 (h.grp p hp).2 h1 h2

theorem binv_inc {n top : Nat} {C L I Pt C' L' I' Pt' : Nat → Nat} (h : BInv n top C L I Pt)
    (inj : ∀ q q', q < top → q' < top → I q = I q' → q = q')
    {o w a : Nat} (ho : o < top) (ha : L (I o) = a) (han : a + 1 < n) (hw : w = pre C a + C a - 1)
    (hI : ∀ q, I' q = if q = w then I o else if q = o then I w else I q)
    (hC : ∀ l, C' l = if l = a + 1 then C l + 1 else if l = a then C l - 1 else C l)
    (hL : ∀ x, L' x = if x = I o then a + 1 else L x)
    (hP : ∀ l, Pt' l = if l = a + 1 then Pt a + (C a - 1) else Pt l) :
    BInv n top C' L' I' Pt' := by
  have go := h.grp o ho
  rw [ha] at go
  have hCa : 0 < C a := by omega
  have hPa : Pt a = pre C a := h.ptr a (by omega) ⟨a, Nat.le_refl _, by omega, hCa⟩
  have hsucc : pre C (a + 1) = pre C a + C a := pre_succ C a
  have hle : pre C (a + 1) ≤ top := by rw [← h.tot]; exact pre_mono C (by omega)
  have hwt : w < top := by omega
  have hwa : L (I w) = a := h.group_of hwt (by omega) (by omega)
  -- prefix sums of the new sizes
  let Cm : Nat → Nat := fun l => if l = a then C l - 1 else C l
  have hm : ∀ l, pre Cm l + (if a < l then 1 else 0) = pre C l :=
    pre_dec (c := C) (c' := Cm) (a := a) hCa (by simp [Cm]) (fun k hk => by simp [Cm, hk])
  have hc' : ∀ l, pre C' l = pre Cm l + (if a + 1 < l then 1 else 0) :=
    pre_inc (c := Cm) (c' := C') (a := a + 1) (by simp [Cm, hC]) (fun k hk => by simp [Cm, hC, hk])
  have hpre : ∀ l, pre C' l + (if a < l then 1 else 0) = pre C l + (if a + 1 < l then 1 else 0) := by
    intro l; have := hm l; have := hc' l; omega
  refine ⟨?_, ?_, ?_⟩
  · intro p hp
    rw [hI p]
    by_cases h1 : p = w
    · rw [if_pos h1, hL, if_pos rfl, hC, if_pos rfl]
      have := hpre (a + 1)
      rw [if_pos (by omega), if_neg (by omega)] at this
      omega
    · rw [if_neg h1]
      by_cases h2 : p = o
      · rw [if_pos h2]
        have hne : I w ≠ I o := fun e => h1 (by rw [h2]; exact (inj w o hwt ho e).symm)
        rw [hL, if_neg hne, hwa, hC, if_neg (by omega), if_pos rfl]
        have := hpre a
        rw [if_neg (by omega), if_neg (by omega)] at this
        omega
      · rw [if_neg h2]
        have hne : I p ≠ I o := fun e => h2 (inj p o hp ho e)
        rw [hL, if_neg hne]
        have gp := h.grp p hp
        have := hpre (L (I p))
        rw [hC]
        obtain ⟨l, hl⟩ : ∃ l, L (I p) = l := ⟨_, rfl⟩
        rw [hl] at gp this ⊢
        by_cases e1 : l = a + 1
        · subst e1
          rw [if_pos rfl]; rw [if_pos (by omega), if_neg (by omega)] at this; omega
        · rw [if_neg e1]
          by_cases e2 : l = a
          · subst e2
            rw [if_pos rfl]; rw [if_neg (by omega), if_neg (by omega)] at this; omega
          · rw [if_neg e2]; split_ifs at this <;> omega
  · have := hpre n
    rw [if_pos (by omega), if_pos (by omega)] at this
    rw [← h.tot]; omega
  · intro l hl hex
    rw [hP]
    by_cases h1 : l = a + 1
    · rw [if_pos h1, h1, hPa]
      have := hpre (a + 1)
      rw [if_pos (by omega), if_neg (by omega)] at this
      omega
    · rw [if_neg h1]
      have hwit : ∃ l', l ≤ l' ∧ l' < n ∧ 0 < C l' := by
        obtain ⟨l', h1', h2', h3'⟩ := hex
        by_cases hc : 0 < C l'
        · exact ⟨l', h1', h2', hc⟩
        · have : l' = a + 1 := by
            by_contra hne
            rw [hC, if_neg hne] at h3'
            split_ifs at h3' <;> omega
          exact ⟨a, by omega, by omega, hCa⟩
      rw [h.ptr l hl hwit]
      have := hpre l
      split_ifs at this <;> omega

theorem binv_dec {n top : Nat} {C L I Pt C' L' I' Pt' : Nat → Nat} (h : BInv n top C L I Pt)
    (inj : ∀ q q', q < top → q' < top → I q = I q' → q = q')
    {o w a : Nat} (ho : o < top) (ha : L (I o) = a) (ha0 : a ≠ 0) (hw : w = Pt a)
    (hI : ∀ q, I' q = if q = w then I o else if q = o then I w else I q)
    (hC : ∀ l, C' l = if l = a - 1 then C l + 1 else if l = a then C l - 1 else C l)
    (hL : ∀ x, L' x = if x = I o then a - 1 else L x)
    (hP : ∀ l, Pt' l = if l = a then Pt l + 1 else Pt l) :
    BInv n top C' L' I' Pt' := by
  have go := h.grp o ho
  rw [ha] at go
  have hCa : 0 < C a := by omega
  have han : a < n := by
    by_contra hge
    have h1 : pre C n ≤ pre C a := pre_mono C (by omega)
    have := h.tot; omega
  have hPa : Pt a = pre C a := h.ptr a han ⟨a, Nat.le_refl _, han, hCa⟩
  have hw' : w = pre C a := by rw [hw, hPa]
  have hsucc : pre C (a - 1 + 1) = pre C (a - 1) + C (a - 1) := pre_succ C (a - 1)
  have ha1 : a - 1 + 1 = a := by omega
  rw [ha1] at hsucc
  have hwt : w < top := by omega
  have hwa : L (I w) = a := h.group_of hwt (by omega) (by omega)
  let Cm : Nat → Nat := fun l => if l = a then C l - 1 else C l
  have hm : ∀ l, pre Cm l + (if a < l then 1 else 0) = pre C l :=
    pre_dec (c := C) (c' := Cm) (a := a) hCa (by simp [Cm]) (fun k hk => by simp [Cm, hk])
  have hc' : ∀ l, pre C' l = pre Cm l + (if a - 1 < l then 1 else 0) := by
    apply pre_inc (c := Cm) (c' := C') (a := a - 1)
    · have : a - 1 ≠ a := by omega
      simp [Cm, hC, this]
    · intro k hk
      simp [Cm, hC, hk]
  have hpre : ∀ l, pre C' l + (if a < l then 1 else 0) = pre C l + (if a - 1 < l then 1 else 0) := by
    intro l; have := hm l; have := hc' l; omega
  refine ⟨?_, ?_, ?_⟩
  · intro p hp
    rw [hI p]
    by_cases h1 : p = w
    · rw [if_pos h1, hL, if_pos rfl, hC, if_pos rfl]
      have := hpre (a - 1)
      rw [if_neg (by omega), if_neg (by omega)] at this
      omega
    · rw [if_neg h1]
      by_cases h2 : p = o
      · rw [if_pos h2]
        have hne : I w ≠ I o := fun e => h1 (by rw [h2]; exact (inj w o hwt ho e).symm)
        rw [hL, if_neg hne, hwa, hC, if_neg (by omega), if_pos rfl]
        have := hpre a
        rw [if_neg (by omega), if_pos (by omega)] at this
        omega
      · rw [if_neg h2]
        have hne : I p ≠ I o := fun e => h2 (inj p o hp ho e)
        rw [hL, if_neg hne]
        have gp := h.grp p hp
        have := hpre (L (I p))
        rw [hC]
        obtain ⟨l, hl⟩ : ∃ l, L (I p) = l := ⟨_, rfl⟩
        rw [hl] at gp this ⊢
        by_cases e1 : l = a - 1
        · subst e1
          rw [if_pos rfl]; rw [if_neg (by omega), if_neg (by omega)] at this; omega
        · rw [if_neg e1]
          by_cases e2 : l = a
          · subst e2
            rw [if_pos rfl]; rw [if_neg (by omega), if_pos (by omega)] at this; omega
          · rw [if_neg e2]; split_ifs at this <;> omega
  · have := hpre n
    rw [if_pos (by omega), if_pos (by omega)] at this
    rw [← h.tot]; omega
  · intro l hl hex
    rw [hP]
    by_cases h1 : l = a
    · rw [if_pos h1, h1, hPa]
      have := hpre a
      rw [if_neg (by omega), if_pos (by omega)] at this
      omega
    · rw [if_neg h1]
      have hwit : ∃ l', l ≤ l' ∧ l' < n ∧ 0 < C l' := by
        obtain ⟨l', h1', h2', h3'⟩ := hex
        by_cases hc : 0 < C l'
        · exact ⟨l', h1', h2', hc⟩
        · have : l' = a - 1 := by
            by_contra hne
            rw [hC, if_neg hne] at h3'
            split_ifs at h3' <;> omega
          exact ⟨a, by omega, han, hCa⟩
      rw [h.ptr l hl hwit]
      have := hpre l
      split_ifs at this <;> omega

end RS
end Amgcl
