import Amgcl.Proofs.KrylovIDRs
/-!
# IDR(s), general `s`: the passes of the `while` loop and the iteration bound `n + n/s` (C05)

* `PInv … j st`       the invariant between passes (after `j` complete passes): `r = f − A x`, `r ∈ G_j`, all `G[i] ∈ G_{j-1}`,
                      `M` lower triangular with the inner products `⟨G[l],P[i]⟩` (`j ≥ 1`), `iter = (s+1)j`, `dim G_j + s·j ≤ n`;
* `kloop_inv`         the `for k` loop: either all `s` steps were made (`KInv … j s`) or a step took a `break` exit, after at
                      most `k'+1` steps with `s·j + k' + 1 ≤ n`;
* `body_step`         one pass of the `while` body: `iter ≤ n + n/s` afterwards, and `PInv … (j+1)` if it was complete;
* `idrsPass_inv`      the invariant after every number of complete passes; `idrs_loop_iter_le`, `idrs_call_iter_le`: every
                      normal return reports `it ≤ n + n/s` — no hypothesis on `eps`, `sqrt` or the shadow vectors.
-/
set_option linter.unusedSectionVars false
set_option linter.unusedVariables false
namespace Amgcl.Krylov
open Amgcl Amgcl.Solver Amgcl.Solver.IDRs Amgcl.Energy.Bridge Matrix Finset

section arith

/-- `(s+1)·j + d ≤ n + n/s` when `s·j + d ≤ n` -/
theorem idrs_count (s j d n : ℕ) (hs : 1 ≤ s) (h : s * j + d ≤ n) : (s + 1) * j + d ≤ n + n / s := by
  have hj : j ≤ n / s := (Nat.le_div_iff_mul_le (by omega)).mpr (by rw [Nat.mul_comm]; omega)
  have e : (s + 1) * j = s * j + j := by ring
  rw [e]
  omega

end arith

section idrs
variable {K : Type} [Field K] [DecidableEq K] [LT K] [DecidableLT K]

/-- the invariant between passes of the `while` loop -/
structure PInv (n : ℕ) (A : CRS K) (rhs : Vec K) (Pv : FArr (Vec K)) (s : ℕ)
    (T : (Fin n → K) →ₗ[K] (Fin n → K)) (ω : ℕ → K) (j : ℕ) (st : IDRs.St K) : Prop where
  res : st.w.r = residual rhs A st.x
  gu : ∀ i, i < s → st.w.G.get i = spmv 1 A (st.w.U.get i) 0 #[] ∧ (st.w.U.get i).size = n
  rmem : vecOf n st.w.r ∈ idrSpace T (shadowK (pvecs n Pv) s) ω j
  gold : 1 ≤ j → ∀ i, i < s → vecOf n (st.w.G.get i) ∈ idrSpace T (shadowK (pvecs n Pv) s) ω (j - 1)
  mspec : 1 ≤ j → ∀ l, l < s →
    (∀ i, i < l → vecOf n (st.w.G.get l) ⬝ᵥ pvecs n Pv i = 0) ∧
    (∀ i, l ≤ i → i < s → st.w.M.get i l = vecOf n (st.w.G.get l) ⬝ᵥ pvecs n Pv i) ∧ st.w.M.get l l ≠ 0
  om : 1 ≤ j → st.om = ω j
  omne : ∀ i, 1 ≤ i → i ≤ j → ω i ≠ 0
  iter : st.iter = (s + 1) * j
  dim : Module.finrank K (idrSpace T (shadowK (pvecs n Pv) s) ω j) + s * j ≤ n

/-- a `k`-step that takes a `break` exit: the pivot was non-zero, `iter` grew by at most one, and the test after the
`for k` loop will fire -/
theorem kStep_break (prm : IDRs.Params K) (ip : Vec K → Vec K → K) (sqrt : K → K) (A : CRS K) (Prec : Vec K → Vec K)
    (Pv : FArr (Vec K)) (epsT : K) (k : ℕ) (st st1 : IDRs.St K)
    (h : IDRs.kStep prm ip sqrt A Prec Pv epsT k st = .ok (st1, true)) :
    (kM prm ip A Prec Pv k st).get k k ≠ 0 ∧ st1.iter ≤ st.iter + 1 ∧
    (¬ epsT < st1.resNorm ∨ prm.maxiter ≤ st1.iter) := by
  rw [IDRs.kStep_eq] at h
  split at h
  · cases h
  · rename_i hM
    split at h
    · rename_i hres
      cases h
      exact ⟨hM, Nat.le_succ _, Or.inl hres⟩
    · split at h
      · rename_i hmax
        cases h
        exact ⟨hM, Nat.le_refl _, Or.inr hmax⟩
      · cases h

variable (n : ℕ) (A : CRS K) (hA : A.WF) (hn : A.nrows = n) (hm : A.ncols = n)
  (Prec : Vec K → Vec K) (Pl : (Fin n → K) →ₗ[K] (Fin n → K)) (hP : PDenotes n Prec Pl)
  (Pv : FArr (Vec K)) (prm : IDRs.Params K) (hPs : ∀ i, i < prm.s → (Pv.get i).size = n)
include hA hn hm hP hPs

/-- the `for k` loop -/
theorem kloop_inv (sqrt : K → K) (rhs : Vec K) (epsT : K) (ω : ℕ → K) (j : ℕ) :
    ∀ (fuel k : ℕ) (st st1 : IDRs.St K), k + fuel = prm.s →
      KInv n A rhs Pv prm.s (Tl .right (matOf A n n) Pl) ω j k st →
      IDRs.kLoop prm stdIp sqrt A Prec Pv epsT fuel k st = .ok st1 →
      KInv n A rhs Pv prm.s (Tl .right (matOf A n n) Pl) ω j prm.s st1 ∨
      (∃ k', prm.s * j + k' + 1 ≤ n ∧ st1.iter ≤ (prm.s + 1) * j + k' + 1 ∧
        (¬ epsT < st1.resNorm ∨ prm.maxiter ≤ st1.iter)) := by
  intro fuel
  induction fuel with
  | zero =>
    intro k st st1 hk hi h
    simp only [IDRs.kLoop] at h
    cases h
    have : k = prm.s := by omega
    subst this
    exact Or.inl hi
  | succ fuel ih =>
    intro k st st1 hk hi h
    unfold IDRs.kLoop at h
    cases hks : IDRs.kStep prm stdIp sqrt A Prec Pv epsT k st with
    | error e => rw [hks] at h; cases h
    | ok sb =>
      obtain ⟨s1, b⟩ := sb
      rw [hks] at h
      cases b with
      | true =>
        simp only at h
        cases h
        obtain ⟨hpiv, hit, hbr⟩ := kStep_break prm stdIp sqrt A Prec Pv epsT k st _ hks
        have hcore := kstep_core n A hA hn hm Prec Pl hP Pv prm hPs sqrt rhs ω j k (by omega) st hi hpiv
        have hdim := hcore.2.2.2.2.2.2
        refine Or.inr ⟨k, by omega, ?_, hbr⟩
        rw [hi.iter] at hit
        omega
      | false =>
        simp only at h
        exact ih (k + 1) s1 st1 (by omega)
          (kstep_inv n A hA hn hm Prec Pl hP Pv prm hPs sqrt rhs epsT ω j k (by omega) st s1 hi hks) h

/-- at the start of a pass the right-hand side `f = P'r` is recomputed: the invariant of the `for k` loop holds for `k = 0` -/
theorem pinv_kinv (rhs : Vec K) (ω : ℕ → K) (j : ℕ) (st : IDRs.St K)
    (hi : PInv n A rhs Pv prm.s (Tl .right (matOf A n n) Pl) ω j st) :
    KInv n A rhs Pv prm.s (Tl .right (matOf A n n) Pl) ω j 0 (IDRs.bodyF prm stdIp Pv st) := by
  obtain ⟨b1, b2, b3, b4, b5, b6, b7, b8, _⟩ := IDRs.bodyF_spec prm stdIp Pv st
  obtain ⟨ires, igu, irmem, igold, imspec, iom, iomne, iiter, idim⟩ := hi
  have hrs : st.w.r.size = n := by rw [ires, residual_size', hn]
  refine ⟨?_, ?_, ?_, fun i hi => absurd hi (Nat.not_lt_zero i), ?_, ?_, ?_, ?_, iomne, ?_, ?_⟩
  · rw [b5, b7]; exact ires
  · rw [b3, b4]; exact igu
  · rw [b5]; exact ⟨irmem, fun i hi => absurd hi (Nat.not_lt_zero i)⟩
  · rw [b3]; intro hj i _ his; exact igold hj i his
  · intro i _ his
    rw [b1 i his, b5]
    exact stdIp_vecOf n _ _ hrs (hPs i his)
  · rw [b2, b3]
    intro l hl hc
    exact imspec (by rcases hc with h | h; exact absurd h (Nat.not_lt_zero l); exact h) l hl
  · rw [b6]; exact iom
  · rw [b8, iiter]; ring
  · have : Module.finrank K (idrSpace (Tl .right (matOf A n n) Pl) (shadowK (pvecs n Pv) prm.s) ω j
        ⊓ shadowK (pvecs n Pv) 0 : Submodule K (Fin n → K))
        ≤ Module.finrank K (idrSpace (Tl .right (matOf A n n) Pl) (shadowK (pvecs n Pv) prm.s) ω j) :=
      Submodule.finrank_mono inf_le_left
    omega

/-- the statements after the `for k` loop, entered with all `s` steps made -/
theorem tail_step (sqrt : K → K) (rhs : Vec K) (epsT : K) (ω : ℕ → K) (j : ℕ) (st1 st' : IDRs.St K)
    (hi : KInv n A rhs Pv prm.s (Tl .right (matOf A n n) Pl) ω j prm.s st1)
    (h : IDRs.tail prm stdIp sqrt A Prec rhs epsT st1 = .ok st') :
    st'.iter ≤ st1.iter + 1 ∧
    (st'.brk = false → ω (j + 1) = st'.om → PInv n A rhs Pv prm.s (Tl .right (matOf A n n) Pl) ω (j + 1) st') := by
  refine ⟨IDRs.tail_iter_le prm stdIp sqrt A Prec rhs epsT st1 st' h, fun hb hω => ?_⟩
  obtain ⟨hom, e2⟩ := IDRs.tail_nobreak prm stdIp sqrt A Prec rhs epsT st1 st' h hb
  have hcA : ColsLt A n := by rw [← hm]; exact colsLt_of_wf A hA
  obtain ⟨ires, igu, irmem, ignew, igold, ifspec, imspec, iom, iomne, iiter, idim⟩ := hi
  obtain ⟨q1, q2, q3, q4, _⟩ := IDRs.post_fields prm stdIp sqrt (bw2 prm stdIp sqrt A Prec rhs st1)
    (bx prm stdIp sqrt A Prec st1)
  have hrs : st1.w.r.size = n := by rw [ires, residual_size', hn]
  obtain ⟨hPr1, hPr2⟩ := hP _ hrs
  -- the new residual, with or without replacement
  have hr2 : axpby (-(bom prm stdIp sqrt A Prec st1)) (bt A Prec st1) 1 st1.w.r
      = residual rhs A (bx prm stdIp sqrt A Prec st1) := by
    have := paired_update_inv rhs A hA (bom prm stdIp sqrt A Prec st1) (Prec st1.w.r) st1.x st1.w.t (by rw [hPr1, hm])
    rw [← ires] at this
    exact this
  have er : st'.w.r = axpby (-(bom prm stdIp sqrt A Prec st1)) (bt A Prec st1) 1 st1.w.r := by
    rw [e2]; show (IDRs.post prm stdIp sqrt _ _).1.r = _
    rw [q1]
    show (if prm.replacement then residual rhs A (bx prm stdIp sqrt A Prec st1)
          else axpby (-(bom prm stdIp sqrt A Prec st1)) (bt A Prec st1) 1 st1.w.r) = _
    split
    · exact hr2.symm
    · rfl
  have eG : st'.w.G = st1.w.G := by rw [e2]; show (IDRs.post prm stdIp sqrt _ _).1.G = _; rw [q2]; rfl
  have eU : st'.w.U = st1.w.U := by rw [e2]; show (IDRs.post prm stdIp sqrt _ _).1.U = _; rw [q3]; rfl
  have eM : st'.w.M = st1.w.M := by rw [e2]; show (IDRs.post prm stdIp sqrt _ _).1.M = _; rw [q4]; rfl
  have ex : st'.x = bx prm stdIp sqrt A Prec st1 := by rw [e2]
  have eom : st'.om = bom prm stdIp sqrt A Prec st1 := by rw [e2]
  have eit : st'.iter = st1.iter + 1 := by rw [e2]
  have hbts : (bt A Prec st1).size = n := by unfold bt; rw [spmv_size', hn]
  have hrv : vecOf n st'.w.r = vecOf n st1.w.r
      - ω (j + 1) • Tl .right (matOf A n n) Pl (vecOf n st1.w.r) := by
    rw [er, vecOf_axpby n _ _ _ _ hbts, one_smul, neg_smul, hω, eom]
    unfold bt
    rw [vecOf_spmv0 A hn hcA, hPr2]
    show _ = _ - _ • (matOf A n n *ᵥ Pl (vecOf n st1.w.r))
    abel
  refine ⟨?_, ?_, ?_, ?_, ?_, ?_, ?_, ?_, ?_⟩
  · rw [er, ex]; exact hr2
  · rw [eG, eU]; exact igu
  · rw [hrv]
    exact mem_idrSpace_succ _ _ ω j _ irmem.1 irmem.2
  · intro _ i his
    rw [Nat.add_sub_cancel, eG]
    exact ignew i his
  · intro _ l hl
    rw [eG, eM]
    exact imspec l hl (Or.inl hl)
  · intro _; exact hω.symm
  · intro i h1 h2
    by_cases hij : i = j + 1
    · rw [hij, hω, eom]; exact hom
    · exact iomne i h1 (by omega)
  · rw [eit, iiter]; ring
  · have h1 : Module.finrank K (idrSpace (Tl .right (matOf A n n) Pl) (shadowK (pvecs n Pv) prm.s) ω (j + 1))
        ≤ Module.finrank K (idrSpace (Tl .right (matOf A n n) Pl) (shadowK (pvecs n Pv) prm.s) ω j
            ⊓ shadowK (pvecs n Pv) prm.s : Submodule K (Fin n → K)) := by
      rw [idrSpace_succ]; exact Submodule.finrank_map_le _ _
    have e : prm.s * (j + 1) = prm.s * j + prm.s := by ring
    rw [e]
    omega

/-- **one pass of the `while` body**: afterwards `iter ≤ n + n/s`, and the invariant holds for `j + 1` if the pass was
complete -/
theorem body_step (hs : 1 ≤ prm.s) (sqrt : K → K) (rhs : Vec K) (epsT : K) (ω : ℕ → K) (j : ℕ) (st st' : IDRs.St K)
    (hi : PInv n A rhs Pv prm.s (Tl .right (matOf A n n) Pl) ω j st)
    (h : IDRs.body prm stdIp sqrt A Prec Pv rhs epsT st = .ok st') :
    st'.iter ≤ n + n / prm.s ∧
    (st'.brk = false → ω (j + 1) = st'.om → PInv n A rhs Pv prm.s (Tl .right (matOf A n n) Pl) ω (j + 1) st') := by
  rw [IDRs.body_eq] at h
  cases hk : IDRs.kLoop prm stdIp sqrt A Prec Pv epsT prm.s 0 (IDRs.bodyF prm stdIp Pv st) with
  | error e => rw [hk] at h; cases h
  | ok st1 =>
    rw [hk] at h
    simp only at h
    have hk0 := pinv_kinv n A hA hn hm Prec Pl hP Pv prm hPs rhs ω j st hi
    rcases kloop_inv n A hA hn hm Prec Pl hP Pv prm hPs sqrt rhs epsT ω j prm.s 0 _ st1 (by omega) hk0 hk with
      hfull | ⟨k', hd, hit, hbr⟩
    · obtain ⟨t1, t2⟩ := tail_step n A hA hn hm Prec Pl hP Pv prm hPs sqrt rhs epsT ω j st1 st' hfull h
      refine ⟨?_, t2⟩
      have hdim := hfull.dim
      have hiter := hfull.iter
      -- `iter ≤ (s+1)j + s + 1 = (s+1)(j+1)` and `s(j+1) ≤ n`
      have hb := idrs_count prm.s (j + 1) 0 n hs (by
        have e : prm.s * (j + 1) = prm.s * j + prm.s := by ring
        rw [e]; omega)
      have e : (prm.s + 1) * (j + 1) = (prm.s + 1) * j + prm.s + 1 := by ring
      rw [e] at hb
      omega
    · -- a `break` exit inside the `for k` loop: the test after the loop fires
      unfold IDRs.tail at h
      rw [if_pos hbr] at h
      cases h
      refine ⟨?_, fun hb => by cases hb⟩
      have hb := idrs_count prm.s j (k' + 1) n hs (by omega)
      show st1.iter ≤ _
      omega

omit hP hPs in
/-- the state on loop entry satisfies the invariant for `j = 0` -/
theorem idrs_init (sqrt : K → K) (rhs : Vec K) (ws : IDRs.Work K) (x0 : Vec K) (ω : ℕ → K) :
    PInv n A rhs Pv prm.s (Tl .right (matOf A n n) Pl) ω 0
      (IDRs.init prm ws x0 (residual rhs A x0) (nrmA stdIp sqrt (residual rhs A x0))) := by
  obtain ⟨h1, _, h3, _⟩ := IDRs.initW_spec prm ws x0 (residual rhs A x0)
  refine ⟨?_, ?_, Submodule.mem_top, fun h => absurd h (by omega), fun h => absurd h (by omega),
    fun h => absurd h (by omega), fun i h1 h2 => absurd h1 (by omega), by rw [IDRs.init_iter]; ring, ?_⟩
  · rw [IDRs.init_w, IDRs.init_x, h1]
  · intro i his
    obtain ⟨g1, g2⟩ := h3 i his
    rw [IDRs.init_w, g1, g2, IDRs.spmv_vclear, residual_size', IDRs.vclear_size]
    exact ⟨rfl, hn⟩
  · show Module.finrank K (⊤ : Submodule K (Fin n → K)) + prm.s * 0 ≤ n
    rw [finrank_top, Module.finrank_fin_fun]; omega

/-- **after every number of complete passes the invariant holds**, for the `ω`'s the run computes -/
theorem idrsPass_inv (hs : 1 ≤ prm.s) (sqrt : K → K) (rhs : Vec K) (epsT : K) (ws : IDRs.Work K) (x0 : Vec K) :
    ∀ j st, idrPass prm sqrt A Prec Pv rhs epsT
        (IDRs.init prm ws x0 (residual rhs A x0) (nrmA stdIp sqrt (residual rhs A x0))) j = some st →
      PInv n A rhs Pv prm.s (Tl .right (matOf A n n) Pl)
        (idrOmega prm sqrt A Prec Pv rhs epsT
          (IDRs.init prm ws x0 (residual rhs A x0) (nrmA stdIp sqrt (residual rhs A x0)))) j st := by
  intro j
  induction j with
  | zero =>
    intro st h
    have : st = IDRs.init prm ws x0 (residual rhs A x0) (nrmA stdIp sqrt (residual rhs A x0)) := by
      unfold idrPass at h; cases h; rfl
    rw [this]
    exact idrs_init n A hA hn hm Pl Pv prm sqrt rhs ws x0 _
  | succ j ih =>
    intro st' h
    obtain ⟨st, hj, hb, hbrk⟩ := idrPass_succ_some A Prec Pv prm sqrt rhs epsT _ j st' h
    refine (body_step n A hA hn hm Prec Pl hP Pv prm hPs hs sqrt rhs epsT _ j st st' (ih st hj) hb).2 hbrk ?_
    unfold idrOmega
    rw [h]

/-- **finite termination of IDR(s)**: `j` complete passes need `s·j ≤ n` (every `k`-step lowers the dimension of the space
that contains the residual), and if `s·j = n` the carried residual — which is the true one — is the zero vector -/
theorem idrsPass_residual_zero (hs : 1 ≤ prm.s) (sqrt : K → K) (rhs : Vec K) (epsT : K) (ws : IDRs.Work K) (x0 : Vec K)
    (j : ℕ) (st : IDRs.St K)
    (h : idrPass prm sqrt A Prec Pv rhs epsT
      (IDRs.init prm ws x0 (residual rhs A x0) (nrmA stdIp sqrt (residual rhs A x0))) j = some st) :
    prm.s * j ≤ n ∧ (prm.s * j = n → st.w.r = vclear n ∧ residual rhs A st.x = vclear n) := by
  have hi := idrsPass_inv n A hA hn hm Prec Pl hP Pv prm hPs hs sqrt rhs epsT ws x0 j st h
  have hd := hi.dim
  refine ⟨by omega, fun hjn => ?_⟩
  have h0 : Module.finrank K (idrSpace (Tl .right (matOf A n n) Pl) (shadowK (pvecs n Pv) prm.s)
      (idrOmega prm sqrt A Prec Pv rhs epsT
        (IDRs.init prm ws x0 (residual rhs A x0) (nrmA stdIp sqrt (residual rhs A x0)))) j) = 0 := by omega
  have hbot := Submodule.finrank_eq_zero.mp h0
  have hmem := hi.rmem
  rw [hbot, Submodule.mem_bot] at hmem
  have hrs : st.w.r.size = n := by rw [hi.res, residual_size', hn]
  have hr0 : st.w.r = vclear n := by
    apply eq_of_vecOf_eq n _ _ hrs (by simp [vclear])
    rw [hmem]
    funext τ
    simp [vecOf, vclear]
  exact ⟨hr0, by rw [← hi.res]; exact hr0⟩

/-- **every normal exit of the `while` loop has `iter ≤ n + n/s`** -/
theorem idrs_loop_iter_le (hs : 1 ≤ prm.s) (sqrt : K → K) (rhs : Vec K) (epsT : K) (ws : IDRs.Work K) (x0 : Vec K) :
    ∀ (fuel j : ℕ) (st : IDRs.St K), idrPass prm sqrt A Prec Pv rhs epsT
        (IDRs.init prm ws x0 (residual rhs A x0) (nrmA stdIp sqrt (residual rhs A x0))) j = some st →
      ∀ stf, IDRs.loop prm stdIp sqrt A Prec Pv rhs epsT fuel st = (none, stf) → stf.iter ≤ n + n / prm.s := by
  intro fuel
  induction fuel with
  | zero =>
    intro j st hj stf h
    have hi := idrsPass_inv n A hA hn hm Prec Pl hP Pv prm hPs hs sqrt rhs epsT ws x0 j st hj
    unfold IDRs.loop loopE at h
    cases h
    have := idrs_count prm.s j 0 n hs (by have := hi.dim; omega)
    rw [hi.iter]; omega
  | succ fuel ih =>
    intro j st hj stf h
    have hi := idrsPass_inv n A hA hn hm Prec Pl hP Pv prm hPs hs sqrt rhs epsT ws x0 j st hj
    unfold IDRs.loop loopE at h
    by_cases hc : IDRs.cond prm.maxiter epsT st = true
    · rw [if_pos hc] at h
      cases hb : IDRs.body prm stdIp sqrt A Prec Pv rhs epsT st with
      | error e =>
        rw [hb] at h
        obtain ⟨e', s'⟩ := e
        simp only at h
        cases h
      | ok st' =>
        rw [hb] at h
        simp only at h
        obtain ⟨hle, _⟩ := body_step n A hA hn hm Prec Pl hP Pv prm hPs hs sqrt rhs epsT
          (idrOmega prm sqrt A Prec Pv rhs epsT
            (IDRs.init prm ws x0 (residual rhs A x0) (nrmA stdIp sqrt (residual rhs A x0)))) j st st' hi hb
        by_cases hbrk : st'.brk = true
        · have hnc : IDRs.cond prm.maxiter epsT st' = false := by simp [IDRs.cond, hbrk]
          rw [loopE_of_not_cond _ _ _ _ hnc] at h
          cases h
          exact hle
        · have hbrk' : st'.brk = false := by simpa using hbrk
          exact ih (j + 1) st' (idrPass_succ_of A Prec Pv prm sqrt rhs epsT _ j st st' hj hb hbrk') stf h
    · rw [if_neg hc] at h
      cases h
      have := idrs_count prm.s j 0 n hs (by have := hi.dim; omega)
      rw [hi.iter]; omega

/-- **a call of IDR(s) makes at most `n + n/s` iterations**: every normal return reports `it ≤ n + n/s` (smoothing and
replacement on or off; no hypothesis on `eps`, `sqrt` or the shadow vectors beyond their length) -/
theorem idrs_call_iter_le (hs : 1 ≤ prm.s) (sqrt : K → K) (eps : K) (rhs : Vec K) (ws : IDRs.Work K) (x0 : Vec K)
    (it : ℕ) (res : K) (x : Vec K) (w : IDRs.Work K)
    (h : IDRs.solve prm stdIp sqrt eps A Prec Pv ws rhs x0 = .ok (it, res, x, w)) : it ≤ n + n / prm.s := by
  rw [IDRs.solve, Run.toExcept_ok] at h
  have h' : (IDRs.run prm stdIp sqrt eps A Prec Pv ws rhs x0).out = .ok (it, res) := by rw [h]; rfl
  cases hpro : prologueA prm.nsSearch stdIp sqrt eps rhs with
  | trivial nn =>
    rw [IDRs.run_trivial prm stdIp sqrt eps A Prec Pv ws rhs x0 nn hpro] at h'
    simp only [Run.out, Except.ok.injEq, Prod.mk.injEq] at h'
    rw [← h'.1]; exact Nat.zero_le _
  | go nf =>
    rw [IDRs.run_go prm stdIp sqrt eps A Prec Pv ws rhs x0 nf hpro] at h'
    split at h'
    · simp only [Run.out, Except.ok.injEq, Prod.mk.injEq] at h'
      rw [← h'.1]; exact Nat.zero_le _
    · cases hfin : IDRs.final prm stdIp sqrt A Prec Pv ws rhs x0 nf with
      | mk oe st =>
        rw [hfin] at h'
        cases oe with
        | some e => simp [Run.out] at h'
        | none =>
          simp only [Run.out, Except.ok.injEq, Prod.mk.injEq] at h'
          rw [← h'.1]
          unfold IDRs.final at hfin
          exact idrs_loop_iter_le n A hA hn hm Prec Pl hP Pv prm hPs hs sqrt rhs _ ws x0
            prm.maxiter 0 _ rfl st hfin

end idrs
end Amgcl.Krylov
