import Amgcl.Model.LockstepBiCGStabL
import Amgcl.Proofs.LockstepHess
/-!
Groundwork for `prog_eq_run` of BiCGStab(L) (C12; the theorem itself is OPEN, see `Properties/C12e.lean`): the serial
semantics of the building blocks of `Lockstep.BiCGStabL.prog` against the pieces of the statement-by-statement model
`Solver.BiCGStabL` (C05).  Proved here: a counted `for` whose body is one `axpby` on run-time selected registers is the
model's fold over the array of vectors (`axpby_loop`; instances: the two loops over `*R[i]` / `*U[i]` of the BiCG
part, `uLoop_run`, `rLoop_run`), and `preconditioner::spmv` with run-time operands is `Solver.pspmv` (`pspmv_run`).
-/
namespace Amgcl.Lockstep.BiCGStabL
open Amgcl Amgcl.Solver Amgcl.Solver.QR Amgcl.Lockstep

variable {K : Type} [Add K] [Mul K] [Sub K] [Neg K] [Zero K] [One K] [Div K] [DecidableEq K] [LT K] [DecidableLT K]

theorem vR_inj : ∀ a b, vR a = vR b → a = b := by intro a b h; unfold vR at h; omega
theorem vU_inj : ∀ a b, vU a = vU b → a = b := by intro a b h; unfold vU at h; omega
theorem vR_ne_vU (a b : Nat) : vR a ≠ vU b := by unfold vR vU; omega
theorem vU_ne_vR (a b : Nat) : vU a ≠ vR b := by unfold vR vU; omega

/-- the registers `*R[i]` / `*U[i]` of a state as arrays of vectors -/
def regR (s : St K (S K)) : FArr (Vec K) := ⟨fun i => s.vec (vR i)⟩
def regU (s : St K (S K)) : FArr (Vec K) := ⟨fun i => s.vec (vU i)⟩

/-- a counted `for` whose body is one `axpby(a, *src[i], b, *dst[i])`, the coefficients not depending on `i`, no source
register being a destination register: the destination registers undergo the fold of the model, nothing else changes -/
theorem axpby_loop (A : CRS K) (P : Vec K → Vec K) (ip : Vec K → Vec K → K) (a b : S K → K) (src dst : Nat → Nat)
    (hinj : ∀ i k, dst i = dst k → i = k) (hsd : ∀ i k, src i ≠ dst k)
    (ha : ∀ e i, a { e with i := i } = a e) (hb : ∀ e i, b { e with i := i } = b e) (m : St K (S K)) :
    ∀ n, ∃ r : St K (S K),
      (List.range n).foldl (fun s i => run A P ip
          (.prim (.axpby a (fun e => src e.i) b (fun e => dst e.i))) { s with scal := { s.scal with i := i } }) m = r ∧
      (⟨fun k => r.vec (dst k)⟩ : FArr (Vec K))
        = (List.range n).foldl (fun F i => setF F i (axpby (a m.scal) (m.vec (src i)) (b m.scal) (F i)))
            ⟨fun k => m.vec (dst k)⟩ ∧
      (∀ v, (∀ k, v ≠ dst k) → r.vec v = m.vec v) ∧ ∃ i', r.scal = { m.scal with i := i' } := by
  intro n
  induction n with
  | zero => exact ⟨m, rfl, rfl, fun _ _ => rfl, m.scal.i, rfl⟩
  | succ n ih =>
    obtain ⟨r, h1, h2, h3, i', h4⟩ := ih
    refine ⟨_, rfl, ?_, ?_, ?_⟩
    · rw [List.range_succ, List.foldl_append, List.foldl_append, h1, ← h2]
      simp only [List.foldl_cons, List.foldl_nil, run, step, h4, ha, hb, setF, upd_apply]
      rw [h3 (src n) (fun k => hsd n k)]
      congr 1
      funext k
      by_cases hk : k = n
      · subst hk; simp only [if_true]
      · have : dst k ≠ dst n := fun h => hk (hinj _ _ h)
        simp only [if_neg this, if_neg hk]
    · intro v hv
      rw [List.range_succ, List.foldl_append, h1]
      simp only [List.foldl_cons, List.foldl_nil, run, step, upd_apply, if_neg (hv _)]
      exact h3 v hv
    · rw [List.range_succ, List.foldl_append, h1]
      simp only [List.foldl_cons, List.foldl_nil, run, step, h4]
      exact ⟨n, rfl⟩

/-- `preconditioner::spmv(pside, P, A, *F, *X, *T)` with run-time selected `F`, `X` (≠ `*T`) -/
theorem pspmv_run (side : Side) (A : CRS K) (P : Vec K → Vec K) (ip : Vec K → Vec K → K) (F X : S K → Nat)
    (s : St K (S K)) (hF : F s.scal ≠ vT) (hX : X s.scal ≠ vT) :
    run A P ip (pspmvProg side F X) s
      = ⟨upd (upd s.vec vT (pspmv side P A (s.vec (F s.scal)) (s.vec (X s.scal)) (s.vec vT)).2)
            (X s.scal) (pspmv side P A (s.vec (F s.scal)) (s.vec (X s.scal)) (s.vec vT)).1, s.scal⟩ := by
  cases side
  · simp only [pspmvProg, seqs, run, step, R, pspmv, upd_apply, if_true]
  · simp only [pspmvProg, seqs, run, step, R, pspmv, upd_apply, if_true, if_neg hX]


/-- the model state a machine state stands for -/
def dec (s : St K (S K)) : Solver.BiCGStabL.St K :=
  ⟨s.scal.iter, s.scal.alpha, s.scal.rho0, s.scal.omega, s.scal.zeta, s.scal.rnmaxC, s.scal.rnmaxT, s.scal.done,
   s.vec vX, workOf s⟩

theorem regs_ne_T (k : Nat) : vU k ≠ vT ∧ vR k ≠ vT ∧ vT ≠ vU k ∧ vT ≠ vR k := by
  unfold vU vR vT; omega

/-- the `for(i = 0; i <= j; ++i) axpby(one, *R[i], -beta, *U[i])` loop -/
theorem uLoop_run (A : CRS K) (P : Vec K → Vec K) (ip : Vec K → Vec K → K) (m : St K (S K)) :
    ∃ r : St K (S K),
      run A P ip (.forN (fun e => e.j + 1) (fun e i => { e with i := i })
        (.prim (.axpby (fun _ => 1) (fun e => vR e.i) (fun e => -e.beta) (fun e => vU e.i)))) m = r ∧
      regU r = (List.range (m.scal.j + 1)).foldl
        (fun U i => setF U i (axpby 1 (m.vec (vR i)) (-m.scal.beta) (U i))) (regU m) ∧
      (∀ v, (∀ k, v ≠ vU k) → r.vec v = m.vec v) ∧ ∃ i', r.scal = { m.scal with i := i' } := by
  obtain ⟨r, h1, h2, h3, h4⟩ := axpby_loop A P ip (fun _ => 1) (fun e => -e.beta) vR vU vU_inj vR_ne_vU
    (fun _ _ => rfl) (fun _ _ => rfl) m (m.scal.j + 1)
  exact ⟨r, by simp only [run]; exact h1, h2, h3, h4⟩

/-- the `for(i = 0; i <= j; ++i) axpby(-alpha, *U[i+1], one, *R[i])` loop -/
theorem rLoop_run (A : CRS K) (P : Vec K → Vec K) (ip : Vec K → Vec K → K) (m : St K (S K)) :
    ∃ r : St K (S K),
      run A P ip (.forN (fun e => e.j + 1) (fun e i => { e with i := i })
        (.prim (.axpby (fun e => -e.alpha) (fun e => vU (e.i + 1)) (fun _ => 1) (fun e => vR e.i)))) m = r ∧
      regR r = (List.range (m.scal.j + 1)).foldl
        (fun R i => setF R i (axpby (-m.scal.alpha) (m.vec (vU (i + 1))) 1 (R i))) (regR m) ∧
      (∀ v, (∀ k, v ≠ vR k) → r.vec v = m.vec v) ∧ ∃ i', r.scal = { m.scal with i := i' } := by
  obtain ⟨r, h1, h2, h3, h4⟩ := axpby_loop A P ip (fun e => -e.alpha) (fun _ => 1) (fun i => vU (i + 1)) vR vR_inj
    (fun i k => vU_ne_vR _ _) (fun _ _ => rfl) (fun _ _ => rfl) m (m.scal.j + 1)
  exact ⟨r, by simp only [run]; exact h1, h2, h3, h4⟩

end Amgcl.Lockstep.BiCGStabL
