import Amgcl.Proofs.Array2
import Amgcl.Proofs.Perm
import Mathlib.Algebra.Order.Field.Basic
/-!
Array layer of the LU phase of `detail::inverse`: what each loop does to the two-dimensional view of the buffer.
-/
namespace Amgcl
open Arr2
open Finset

section pivot
variable {K : Type} [Field K] [LinearOrder K] [IsStrictOrderedRing K]

theorem absK_nonneg (x : K) : 0 ≤ absK x := by
  unfold absK; split
  · linarith
  · linarith

theorem absK_eq_zero {x : K} (h : absK x = 0) : x = 0 := by
  unfold absK at h; split at h
  · linarith
  · exact h

theorem absK_pos_of_ne {x : K} (h : x ≠ 0) : 0 < absK x :=
  lt_of_le_of_ne (absK_nonneg x) (fun e => h (absK_eq_zero e.symm))

/-- the fold of the pivot search over the candidates `[col, col+len)` -/
def pivFold (n col : Nat) (A : Array K) (p : Array Nat) (len : Nat) : Nat × K :=
  (List.range' col len).foldl (fun (st : Nat × K) i =>
      let mag := absK (get2 n A (p.getD i 0) col)
      if st.2 < mag then (i, mag) else st) (col, (0 : K))

theorem pivFold_succ (n col : Nat) (A : Array K) (p : Array Nat) (len : Nat) :
    pivFold n col A p (len + 1) =
      if (pivFold n col A p len).2 < absK (get2 n A (p.getD (col + len) 0) col)
      then (col + len, absK (get2 n A (p.getD (col + len) 0) col)) else pivFold n col A p len := by
  unfold pivFold
  rw [List.range'_concat, List.foldl_append]
  simp only [List.foldl_cons, List.foldl_nil, Nat.one_mul]

/-- the state of the pivot search after the candidates `[col, col+len)` -/
theorem pivotSearch_inv (n col : Nat) (A : Array K) (p : Array Nat) (len : Nat) :
    ((pivFold n col A p len).2 = 0 ∧ (pivFold n col A p len).1 = col ∧
        ∀ i, col ≤ i → i < col + len → get2 n A (p.getD i 0) col = 0) ∨
    (0 < (pivFold n col A p len).2 ∧
      (pivFold n col A p len).2 = absK (get2 n A (p.getD (pivFold n col A p len).1 0) col) ∧
      col ≤ (pivFold n col A p len).1 ∧ (pivFold n col A p len).1 < col + len) := by
  induction len with
  | zero =>
    left
    refine ⟨rfl, rfl, ?_⟩
    intro i h1 h2; omega
  | succ len ih =>
    rw [pivFold_succ]
    generalize pivFold n col A p len = st at ih ⊢
    rcases ih with ⟨h2, h1, hz⟩ | ⟨hpos, heq, hlo, hhi⟩
    · by_cases hlt : st.2 < absK (get2 n A (p.getD (col + len) 0) col)
      · right; rw [if_pos hlt]
        refine ⟨?_, rfl, ?_, ?_⟩
        · show 0 < absK (get2 n A (p.getD (col + len) 0) col)
          rw [h2] at hlt; exact hlt
        · show col ≤ col + len
          omega
        · show col + len < col + (len + 1)
          omega
      · left; rw [if_neg hlt]
        refine ⟨h2, h1, ?_⟩
        intro i hi1 hi2
        by_cases hi : i < col + len
        · exact hz i hi1 hi
        · have : i = col + len := by omega
          subst this
          rw [h2] at hlt
          exact absK_eq_zero (le_antisymm (not_lt.mp hlt) (absK_nonneg _))
    · right
      by_cases hlt : st.2 < absK (get2 n A (p.getD (col + len) 0) col)
      · rw [if_pos hlt]
        refine ⟨?_, rfl, ?_, ?_⟩
        · show 0 < absK (get2 n A (p.getD (col + len) 0) col)
          exact lt_trans hpos hlt
        · show col ≤ col + len
          omega
        · show col + len < col + (len + 1)
          omega
      · rw [if_neg hlt]
        exact ⟨hpos, heq, hlo, by omega⟩

theorem pivotSearch_spec (n col : Nat) (A : Array K) (p : Array Nat) (hcol : col < n) :
    col ≤ pivotSearch n col A p ∧ pivotSearch n col A p < n ∧
    (get2 n A (p.getD (pivotSearch n col A p) 0) col = 0 →
      ∀ i, col ≤ i → i < n → get2 n A (p.getD i 0) col = 0) := by
  have h := pivotSearch_inv n col A p (n - col)
  have e : pivotSearch n col A p = (pivFold n col A p (n - col)).1 := rfl
  rw [e]
  generalize pivFold n col A p (n - col) = st at h ⊢
  have hn : col + (n - col) = n := by omega
  rw [hn] at h
  rcases h with ⟨h2, h1, hz⟩ | ⟨hpos, heq, hlo, hhi⟩
  · exact ⟨by omega, by omega, fun _ => hz⟩
  · refine ⟨hlo, hhi, ?_⟩
    intro h0
    rw [h0] at heq
    have : absK (0 : K) = 0 := by unfold absK; simp
    rw [this] at heq; rw [heq] at hpos; exact absurd hpos (lt_irrefl _)

end pivot

section swap

theorem getD_swapN (p : Array Nat) (a b i : Nat) (ha : a < p.size) (hb : b < p.size) :
    (swapN p a b).getD i 0 = if i = b then p.getD a 0 else if i = a then p.getD b 0 else p.getD i 0 := by
  unfold swapN
  rw [getD_setIfInBounds, getD_setIfInBounds]
  have hb' : b < (p.setIfInBounds a (p.getD b 0)).size := by rw [Array.size_setIfInBounds]; exact hb
  by_cases h1 : i = b
  · subst h1
    rw [if_pos ⟨rfl, hb'⟩, if_pos rfl]
  · have e1 : ¬ (b = i ∧ b < (p.setIfInBounds a (p.getD b 0)).size) := fun h => h1 h.1.symm
    rw [if_neg e1, if_neg h1]
    by_cases h2 : i = a
    · subst h2; rw [if_pos ⟨rfl, ha⟩, if_pos rfl]
    · have e2 : ¬ (a = i ∧ a < p.size) := fun h => h2 h.1.symm
      rw [if_neg e2, if_neg h2]

theorem permOn_swapN {n : Nat} {p : Array Nat} (hp : PermOn n p) {a b : Nat} (ha : a < n) (hb : b < n) :
    PermOn n (swapN p a b) := by
  have hs := hp.size
  have g : ∀ i, (swapN p a b).getD i 0 = if i = b then p.getD a 0 else if i = a then p.getD b 0 else p.getD i 0 :=
    fun i => getD_swapN p a b i (hs ▸ ha) (hs ▸ hb)
  refine ⟨?_, ?_, ?_⟩
  · unfold swapN; rw [Array.size_setIfInBounds, Array.size_setIfInBounds]; exact hs
  · intro i hi; rw [g]; split
    · exact hp.lt a ha
    · split
      · exact hp.lt b hb
      · exact hp.lt i hi
  · intro i j hi hj hij
    rw [g, g] at hij
    -- the swapped index map τ is an involution and p ∘ τ is injective
    have key : ∀ i, i < n → (if i = b then a else if i = a then b else i) < n ∧
        (if i = b then p.getD a 0 else if i = a then p.getD b 0 else p.getD i 0)
          = p.getD (if i = b then a else if i = a then b else i) 0 := by
      intro i hi
      by_cases h1 : i = b
      · rw [if_pos h1, if_pos h1]; exact ⟨ha, rfl⟩
      · by_cases h2 : i = a
        · rw [if_neg h1, if_pos h2, if_neg h1, if_pos h2]; exact ⟨hb, rfl⟩
        · rw [if_neg h1, if_neg h2, if_neg h1, if_neg h2]; exact ⟨hi, rfl⟩
    obtain ⟨hi', e1⟩ := key i hi
    obtain ⟨hj', e2⟩ := key j hj
    rw [e1, e2] at hij
    have := hp.inj _ _ hi' hj' hij
    have inv : ∀ i : Nat, (if (if i = b then a else if i = a then b else i) = b then a
        else if (if i = b then a else if i = a then b else i) = a then b
        else (if i = b then a else if i = a then b else i)) = i := by
      intro i; split_ifs <;> omega
    calc i = _ := (inv i).symm
      _ = _ := by rw [this]
      _ = j := inv j

theorem getD_iotaN (n : Nat) (p : Array Nat) (hp : p.size = n) (i : Nat) (hi : i < n) : (iotaN n p).getD i 0 = i := by
  unfold iotaN
  have : ∀ m, m ≤ n → ((List.range m).foldl (fun p i => p.setIfInBounds i i) p).size = n ∧
      ∀ i, i < m → ((List.range m).foldl (fun p i => p.setIfInBounds i i) p).getD i 0 = i := by
    intro m
    induction m with
    | zero => intro _; exact ⟨by simpa using hp, by intro i hi; omega⟩
    | succ m ih =>
      intro hm
      obtain ⟨hs, hg⟩ := ih (by omega)
      rw [List.range_succ, List.foldl_append]
      simp only [List.foldl_cons, List.foldl_nil]
      refine ⟨by simpa using hs, ?_⟩
      intro i hi
      rw [getD_setIfInBounds]
      by_cases h : m = i
      · subst h; rw [if_pos ⟨rfl, by rw [hs]; omega⟩]
      · rw [if_neg (fun e => h e.1)]; exact hg i (by omega)
  exact (this n (le_refl n)).2 i hi

theorem size_iotaN (n : Nat) (p : Array Nat) : (iotaN n p).size = p.size := by
  unfold iotaN
  induction n with
  | zero => simp
  | succ m ih => rw [List.range_succ, List.foldl_append]; simpa using ih

theorem permOn_iotaN (n : Nat) (p : Array Nat) (hp : p.size = n) : PermOn n (iotaN n p) := by
  refine ⟨by rw [size_iotaN, hp], ?_, ?_⟩
  · intro i hi; rw [getD_iotaN n p hp i hi]; exact hi
  · intro i j hi hj h; rwa [getD_iotaN n p hp i hi, getD_iotaN n p hp j hj] at h

end swap

section elim
variable {K : Type} [Field K]

/-- the `j` loop of the elimination of one row, after `len` iterations -/
theorem elimRow_inner (n col prow row : Nat) (A : Array K) (hA : A.size = n * n) (hrow : row < n)
    (hne : row ≠ prow) (len : Nat) (hlen : col + 1 + len ≤ n) :
    ((List.range' (col + 1) len).foldl
        (fun A j => set2 n A row j (get2 n A row j - get2 n A row col * get2 n A prow j)) A).size = n * n ∧
    ∀ r j, j < n →
      get2 n ((List.range' (col + 1) len).foldl
        (fun A j => set2 n A row j (get2 n A row j - get2 n A row col * get2 n A prow j)) A) r j
      = if r = row ∧ col + 1 ≤ j ∧ j < col + 1 + len then get2 n A row j - get2 n A row col * get2 n A prow j
        else get2 n A r j := by
  induction len with
  | zero =>
    refine ⟨by simpa using hA, ?_⟩
    intro r j _
    have : ¬ (r = row ∧ col + 1 ≤ j ∧ j < col + 1 + 0) := by omega
    rw [if_neg this]; rfl
  | succ len ih =>
    obtain ⟨hs, hg⟩ := ih (by omega)
    rw [List.range'_concat, List.foldl_append]
    simp only [List.foldl_cons, List.foldl_nil, Nat.one_mul]
    generalize (List.range' (col + 1) len).foldl _ A = T at hs hg ⊢
    have hj0 : col + 1 + len < n := by omega
    refine ⟨by simpa using hs, ?_⟩
    intro r j hj
    rw [get2_set2 T _ hs hrow hj0 hj]
    by_cases h : row = r ∧ col + 1 + len = j
    · obtain ⟨h1, h2⟩ := h
      subst h1; subst h2
      rw [if_pos ⟨rfl, rfl⟩]
      rw [hg row _ hj0, hg row col (by omega), hg prow _ hj0]
      have e1 : ¬ (row = row ∧ col + 1 ≤ col + 1 + len ∧ col + 1 + len < col + 1 + len) := by omega
      have e2 : ¬ (row = row ∧ col + 1 ≤ col ∧ col < col + 1 + len) := by omega
      have e3 : ¬ (prow = row ∧ col + 1 ≤ col + 1 + len ∧ col + 1 + len < col + 1 + len) := by omega
      have e4 : (row = row ∧ col + 1 ≤ col + 1 + len ∧ col + 1 + len < col + 1 + (len + 1)) := by omega
      rw [if_neg e1, if_neg e2, if_neg e3, if_pos e4]
    · rw [if_neg h]
      rw [hg r j hj]
      by_cases h2 : r = row ∧ col + 1 ≤ j ∧ j < col + 1 + len
      · have : r = row ∧ col + 1 ≤ j ∧ j < col + 1 + (len + 1) := ⟨h2.1, h2.2.1, by omega⟩
        rw [if_pos h2, if_pos this]
      · have : ¬ (r = row ∧ col + 1 ≤ j ∧ j < col + 1 + (len + 1)) := by
          rintro ⟨e1, e2, e3⟩
          by_cases e4 : j = col + 1 + len
          · exact h ⟨e1.symm, e4.symm⟩
          · exact h2 ⟨e1, e2, by omega⟩
        rw [if_neg h2, if_neg this]

/-- the entries of a row after its elimination against the pivot row -/
def elimF (n col prow : Nat) (d : K) (A : Array K) (r j : Nat) : K :=
  if j = col then get2 n A r col * d
  else if col < j then get2 n A r j - get2 n A r col * d * get2 n A prow j
  else get2 n A r j

theorem elimRow_spec (n col prow row : Nat) (d : K) (A : Array K) (hA : A.size = n * n) (hrow : row < n)
    (hcol : col < n) (hne : row ≠ prow) :
    (elimRow n col prow row d A).size = n * n ∧
    ∀ r j, j < n → get2 n (elimRow n col prow row d A) r j
      = if r = row then elimF n col prow d A r j else get2 n A r j := by
  unfold elimRow
  simp only
  have hA1 : (set2 n A row col (get2 n A row col * d)).size = n * n := by simpa using hA
  obtain ⟨hs, hg⟩ := elimRow_inner n col prow row _ hA1 hrow hne (n - (col + 1)) (by omega)
  refine ⟨hs, ?_⟩
  intro r j hj
  rw [hg r j hj]
  have g1 : ∀ r' j', j' < n → get2 n (set2 n A row col (get2 n A row col * d)) r' j'
      = if row = r' ∧ col = j' then get2 n A row col * d else get2 n A r' j' :=
    fun r' j' hj' => get2_set2 A _ hA hrow hcol hj'
  have hn : col + 1 + (n - (col + 1)) = n := by omega
  rw [hn]
  unfold elimF
  by_cases hr : r = row
  · subst hr
    rw [if_pos rfl]
    by_cases hjc : j = col
    · subst hjc
      have : ¬ (r = r ∧ j + 1 ≤ j ∧ j < n) := by omega
      rw [if_neg this, if_pos rfl, g1 r j hj, if_pos ⟨rfl, rfl⟩]
    · by_cases hlt : col < j
      · have : (r = r ∧ col + 1 ≤ j ∧ j < n) := ⟨rfl, hlt, hj⟩
        rw [if_pos this, if_neg hjc, if_pos hlt, g1 r j hj, g1 r col hcol, g1 prow j hj]
        have e1 : ¬ (r = r ∧ col = j) := by omega
        have e3 : ¬ (r = prow ∧ col = j) := by omega
        rw [if_neg e1, if_pos ⟨rfl, rfl⟩, if_neg e3]
      · have : ¬ (r = r ∧ col + 1 ≤ j ∧ j < n) := by omega
        rw [if_neg this, if_neg hjc, if_neg hlt, g1 r j hj]
        have e1 : ¬ (r = r ∧ col = j) := by omega
        rw [if_neg e1]
  · have : ¬ (r = row ∧ col + 1 ≤ j ∧ j < n) := fun h => hr h.1
    rw [if_neg this, if_neg hr, g1 r j hj]
    have e1 : ¬ (row = r ∧ col = j) := fun h => hr h.1.symm
    rw [if_neg e1]

/-- the `i` loop of one column after `len` iterations: rows `p[i]`, `i ∈ [col+1, col+1+len)`, are eliminated, all other
rows are untouched -/
theorem elimCol_spec (n col : Nat) (d : K) (A : Array K) (p : Array Nat) (hA : A.size = n * n) (hp : PermOn n p)
    (hcol : col < n) (len : Nat) (hlen : col + 1 + len ≤ n) :
    ((List.range' (col + 1) len).foldl (fun A i => elimRow n col (p.getD col 0) (p.getD i 0) d A) A).size = n * n ∧
    (∀ i, col + 1 ≤ i → i < col + 1 + len → ∀ j, j < n →
      get2 n ((List.range' (col + 1) len).foldl (fun A i => elimRow n col (p.getD col 0) (p.getD i 0) d A) A) (p.getD i 0) j
        = elimF n col (p.getD col 0) d A (p.getD i 0) j) ∧
    (∀ r, (∀ i, col + 1 ≤ i → i < col + 1 + len → p.getD i 0 ≠ r) → ∀ j, j < n →
      get2 n ((List.range' (col + 1) len).foldl (fun A i => elimRow n col (p.getD col 0) (p.getD i 0) d A) A) r j
        = get2 n A r j) := by
  induction len with
  | zero =>
    refine ⟨by simpa using hA, ?_, ?_⟩
    · intro i h1 h2; omega
    · intro r _ j _; simp
  | succ len ih =>
    obtain ⟨hs, hin, hout⟩ := ih (by omega)
    rw [List.range'_concat, List.foldl_append]
    simp only [List.foldl_cons, List.foldl_nil, Nat.one_mul]
    generalize (List.range' (col + 1) len).foldl _ A = T at hs hin hout ⊢
    have hi0 : col + 1 + len < n := by omega
    have hrow : p.getD (col + 1 + len) 0 < n := hp.lt _ hi0
    have hne : p.getD (col + 1 + len) 0 ≠ p.getD col 0 := by
      intro e; have := hp.inj _ _ hi0 hcol e; omega
    obtain ⟨hs', hg'⟩ := elimRow_spec n col (p.getD col 0) (p.getD (col + 1 + len) 0) d T hs hrow hcol hne
    -- rows of T that are still those of A
    have hTnew : ∀ j, j < n → get2 n T (p.getD (col + 1 + len) 0) j = get2 n A (p.getD (col + 1 + len) 0) j := by
      intro j hj; apply hout _ _ j hj
      intro i h1 h2 e; have := hp.inj _ _ (by omega) hi0 e; omega
    have hTpiv : ∀ j, j < n → get2 n T (p.getD col 0) j = get2 n A (p.getD col 0) j := by
      intro j hj; apply hout _ _ j hj
      intro i h1 h2 e; have := hp.inj _ _ (by omega) hcol e; omega
    refine ⟨hs', ?_, ?_⟩
    · intro i h1 h2 j hj
      rw [hg' _ j hj]
      by_cases hi : i = col + 1 + len
      · subst hi
        simp only [if_true]
        unfold elimF
        rw [hTnew j hj, hTnew col hcol, hTpiv j hj]
      · have hne2 : p.getD i 0 ≠ p.getD (col + 1 + len) 0 := by
          intro e; have := hp.inj _ _ (by omega) hi0 e; omega
        simp only [hne2, if_false]
        exact hin i h1 (by omega) j hj
    · intro r hr j hj
      rw [hg' r j hj]
      have hne2 : r ≠ p.getD (col + 1 + len) 0 := fun e => hr (col + 1 + len) (by omega) (by omega) e.symm
      simp only [hne2, if_false]
      exact hout r (fun i h1 h2 => hr i h1 (by omega)) j hj

/-- one column of the LU phase, in terms of the *logical* rows `i ↦ p'[i]` of the permutation after the swap -/
theorem luStep_spec [LinearOrder K] [IsStrictOrderedRing K] (n col : Nat) (A : Array K) (p : Array Nat)
    (hA : A.size = n * n) (hp : PermOn n p) (hcol : col < n) :
    (luStep n (A, p) col).2 = swapN p col (pivotSearch n col A p) ∧
    (luStep n (A, p) col).1.size = n * n ∧
    ∀ i j, i < n → j < n →
      get2 n (luStep n (A, p) col).1 ((swapN p col (pivotSearch n col A p)).getD i 0) j =
        (let M := fun i j => get2 n A ((swapN p col (pivotSearch n col A p)).getD i 0) j
         let d := 1 / M col col
         if i = col then (if j = col then d else M col j)
         else if col < i then
           (if j = col then M i col * d else if col < j then M i j - M i col * d * M col j else M i j)
         else M i j) := by
  obtain ⟨hpl, hph, _⟩ := pivotSearch_spec n col A p hcol
  have hp' : PermOn n (swapN p col (pivotSearch n col A p)) := permOn_swapN hp hcol hph
  unfold luStep
  simp only
  generalize swapN p col (pivotSearch n col A p) = p' at hp' ⊢
  obtain ⟨hs, hin, hout⟩ := elimCol_spec n col (1 / get2 n A (p'.getD col 0) col) A p' hA hp' hcol (n - (col + 1)) (by omega)
  generalize (List.range' (col + 1) (n - (col + 1))).foldl _ A = T at hs hin hout ⊢
  have hprow : p'.getD col 0 < n := hp'.lt col hcol
  refine ⟨by first | rfl | trivial, by simpa using hs, ?_⟩
  intro i j hi hj
  rw [get2_set2 T _ hs hprow hcol hj]
  by_cases hic : i = col
  · subst hic
    simp only [true_and, if_true]
    by_cases hjc : i = j
    · subst hjc; simp
    · have : ¬ j = i := fun e => hjc e.symm
      simp only [hjc, this, if_false]
      apply hout _ _ j hj
      intro i' h1 h2 e; have := hp'.inj _ _ (by omega) hi e; omega
  · have hne : ¬ (p'.getD col 0 = p'.getD i 0 ∧ col = j) := by
      rintro ⟨e, _⟩; exact hic (hp'.inj _ _ hcol hi e).symm
    simp only [hne, hic, if_false]
    by_cases hlt : col < i
    · simp only [hlt, if_true]
      rw [hin i (by omega) (by omega) j hj]
      unfold elimF
      rfl
    · simp only [hlt, if_false]
      apply hout _ _ j hj
      intro i' h1 h2 e; have := hp'.inj _ _ (by omega) hi e; omega

end elim
end Amgcl
