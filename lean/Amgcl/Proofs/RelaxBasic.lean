import Amgcl.Model.RelaxCommon
import Amgcl.Proofs.Primitives
import Mathlib.Tactic.Ring
import Mathlib.Tactic.Linarith
/-!
Shared lemmas for the relaxation proofs (C06): `vlin`, linearity of the primitives used by the sweeps,
`getD` of `setIfInBounds`.
-/
namespace Amgcl
namespace Relax
open Finset

section arr
variable {α : Type}

theorem getD_setIfInBounds (x : Array α) (i j : Nat) (v d : α) :
    (x.setIfInBounds i v).getD j d = if i = j ∧ j < x.size then v else x.getD j d := by
  unfold Array.getD
  by_cases hj : j < x.size
  · by_cases hij : i = j
    · subst hij; simp [hj]
    · simp [hj, hij, Array.getElem_setIfInBounds]
  · simp [hj]

theorem getD_setIfInBounds_self (x : Array α) (i : Nat) (v d : α) (h : i < x.size) :
    (x.setIfInBounds i v).getD i d = v := by
  rw [getD_setIfInBounds]; simp [h]

theorem getD_setIfInBounds_ne (x : Array α) (i j : Nat) (v d : α) (h : i ≠ j) :
    (x.setIfInBounds i v).getD j d = x.getD j d := by
  rw [getD_setIfInBounds]; simp [h]

theorem getD_of_size_le (x : Array α) (i : Nat) (d : α) (h : x.size ≤ i) : x.getD i d = d := by
  unfold Array.getD; simp [Nat.not_lt.mpr h]

/-- two arrays of the same size with the same `getD` everywhere are equal -/
theorem ext_getD' {x y : Array α} (d : α) (hs : x.size = y.size) (h : ∀ i, x.getD i d = y.getD i d) : x = y :=
  Vec.ext_getD d hs (fun i _ => h i)

end arr

section ring
variable {K : Type} [CommRing K]

@[simp] theorem vlin_size (a b : K) (x y : Vec K) : (vlin a x b y).size = x.size := by simp [vlin]

theorem getD_vlin (a b : K) (x y : Vec K) (h : x.size = y.size) (i : Nat) :
    (vlin a x b y).getD i 0 = a * x.getD i 0 + b * y.getD i 0 := by
  unfold vlin
  rw [getD_ofFn]
  by_cases hi : i < x.size
  · simp [hi]
  · have hx : x.getD i 0 = 0 := getD_of_size_le _ _ _ (Nat.le_of_not_lt hi)
    have hy : y.getD i 0 = 0 := getD_of_size_le _ _ _ (by omega)
    simp [hi, hx, hy]

theorem vlin_congr (a b : K) {x x' y y' : Vec K} (hx : x = x') (hy : y = y') :
    vlin a x b y = vlin a x' b y' := by rw [hx, hy]

theorem rowDot_vlin (r : Row K) (a b : K) (x y : Vec K) (h : x.size = y.size) :
    rowDot r (vlin a x b y) = a * rowDot r x + b * rowDot r y := by
  simp only [rowDot_eq_listSum]
  induction r with
  | nil => simp
  | cons cv t ih =>
    simp only [List.map_cons, List.sum_cons]
    rw [ih, getD_vlin a b x y h]
    ring

section dec
variable [DecidableEq K]

@[simp] theorem residual_size' (f : Vec K) (A : CRS K) (x : Vec K) : (residual f A x).size = A.nrows := by
  simp [residual]

theorem getD_residual (f : Vec K) (A : CRS K) (x : Vec K) (i : Nat) (hi : i < A.nrows) :
    (residual f A x).getD i 0 = f.getD i 0 - rowDot (A.row i) x := by
  unfold residual; rw [getD_ofFn_lt _ _ _ hi]

theorem residual_vlin (A : CRS K) (a b : K) (f g x y : Vec K)
    (hf : f.size = A.nrows) (hg : g.size = A.nrows) (hxy : x.size = y.size) :
    residual (vlin a f b g) A (vlin a x b y) = vlin a (residual f A x) b (residual g A y) := by
  apply Vec.ext_getD (0 : K) (by simp)
  intro i hi
  have hi' : i < A.nrows := by simpa using hi
  have h1 := getD_vlin a b (residual f A x) (residual g A y) (by simp) i
  have h2 := getD_vlin a b f g (by omega) i
  rw [getD_residual _ _ _ _ hi', h1, getD_residual _ _ _ _ hi', getD_residual _ _ _ _ hi', h2,
    rowDot_vlin _ _ _ _ _ hxy]
  ring

/-- a solution of `A x = f` has zero residual -/
theorem residual_eq_zero (A : CRS K) (f x : Vec K)
    (h : ∀ i, i < A.nrows → rowDot (A.row i) x = f.getD i 0) : residual f A x = vclear A.nrows := by
  apply Vec.ext_getD (0 : K) (by simp [vclear])
  intro i hi
  have hi' : i < A.nrows := by simpa using hi
  rw [getD_residual _ _ _ _ hi', h i hi']
  simp [vclear, getD_ofFn_lt _ _ _ hi']

@[simp] theorem vmul_size (a b : K) (x y z : Vec K) : (vmul a x y b z).size = x.size := by
  unfold vmul; split <;> simp

theorem getD_vmul (a b : K) (x y z : Vec K) (i : Nat) (hi : i < x.size) :
    (vmul a x y b z).getD i 0 = a * x.getD i 0 * y.getD i 0 + b * z.getD i 0 := by
  unfold vmul
  by_cases hb : b = 0
  · rw [if_pos hb, getD_ofFn_lt _ _ _ hi, hb]; ring
  · rw [if_neg hb, getD_ofFn_lt _ _ _ hi]

@[simp] theorem axpby_size (a b : K) (x y : Vec K) : (axpby a x b y).size = x.size := by
  unfold axpby; split <;> simp

theorem getD_axpby (a b : K) (x y : Vec K) (i : Nat) (hi : i < x.size) :
    (axpby a x b y).getD i 0 = a * x.getD i 0 + b * y.getD i 0 := by
  unfold axpby
  by_cases hb : b = 0
  · rw [if_pos hb, getD_ofFn_lt _ _ _ hi, hb]; ring
  · rw [if_neg hb, getD_ofFn_lt _ _ _ hi]

theorem getD_vclear (n i : Nat) : (vclear n : Vec K).getD i 0 = 0 := by
  unfold vclear; rw [getD_ofFn]; split <;> rfl

@[simp] theorem vclear_size (n : Nat) : (vclear n : Vec K).size = n := by simp [vclear]

/-- `a·0 + b·0 = 0` -/
theorem vlin_vclear (a b : K) (n : Nat) : vlin a (vclear n) b (vclear n) = (vclear n : Vec K) := by
  apply ext_getD' (0 : K) (by simp)
  intro i
  rw [getD_vlin _ _ _ _ (by simp), getD_vclear]; ring

end dec
end ring

end Relax
end Amgcl
