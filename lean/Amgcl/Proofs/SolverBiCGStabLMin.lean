import Amgcl.Properties.C16b
import Amgcl.Proofs.SolverQRBridge
import Amgcl.Proofs.SolverBiCGStabLMR
/-!
The MR part of BiCGStab(L) solves the normal equations: `qr.solve` on the Gram block `MZa[1..L,1..L]` with the right-hand
side `MZb[0,1..L]` is (through the refinement `Solver.QR.solve_eq_flat`) the flat `QRModel.solveS`, for which C16b proves
`A·x = b` on square non-singular systems (`qr_solve_square`).  With linearly independent `R[1..L]` the Gram block is
non-singular; the solved system says that the new `R[0]` is orthogonal to `R[1..L]` (`polyCoef_orth`).
-/
namespace Amgcl.Solver.BiCGStabL
open Amgcl Amgcl.Solver Amgcl.Solver.QR Finset Matrix
set_option linter.unusedSectionVars false
set_option linter.unusedSimpArgs false
set_option linter.unusedVariables false

variable {K : Type} [Field K] [LinearOrder K] [IsStrictOrderedRing K]

/-- a square root that is exact on the non-negative numbers is exact on every number `compute` hands to it -/
theorem exactRoots_of_hsqrt (sqrt : K → K) (hsqrt : ∀ x : K, 0 ≤ x → sqrt x * sqrt x = x) (m n rs cs : Nat)
    (A tau0 : Array K) : QRModel.ExactRoots sqrt m n rs cs A tau0 := by
  intro i _ _
  apply hsqrt
  unfold QRModel.sqrtArg
  rw [QRModel.sqrQ_absQ, QRModel.xnorm2_eq]
  exact add_nonneg (mul_self_nonneg _) (Finset.sum_nonneg (fun _ _ => mul_self_nonneg _))

/-- the columns `R[1..L]` are linearly independent -/
def FullRank (n L : Nat) (R : FArr (Vec K)) : Prop :=
  ∀ c : Nat → K, (∀ i, i < n → ∑ j ∈ range L, c j * (R.get (1 + j)).getD i 0 = 0) → ∀ j, j < L → c j = 0

theorem stdIp_comm' {n : Nat} (u v : Vec K) (hu : u.size = n) (hv : v.size = n) : stdIp u v = stdIp v u := by
  rw [stdIp_eq_finsum n u v hu hv, stdIp_eq_finsum n v u hv hu]
  exact Finset.sum_congr rfl (fun i _ => mul_comm _ _)

/-- **the MR coefficients satisfy the normal equations**: with `convex` (or `L = 1`), a root that is exact on the
numbers `compute` applies it to on the Gram block (`QRModel.ExactRoots`, C16b) and linearly independent `R[1..L]`, the vector the polynomial part assigns to `R[0]` is orthogonal to `R[1], …, R[L]` -/
theorem polyCoef_orth (sqrt : K → K) (c07 : K) (n L : Nat) (convex : Bool)
    (hc : convex = true ∨ L = 1) (w : Work K) (hs : ∀ i, i ≤ L → (w.R.get i).size = n)
    (hex : QRModel.ExactRoots sqrt L L L 1 (flatOf L 1 (gram stdIp L w.R w.MZa)) #[]) (hrank : FullRank n L w.R) :
    ∀ k, k < L →
      stdIp (polyV0 L (polyCoef sqrt c07 L convex { w with MZa := gram stdIp L w.R w.MZa }).Y0 w.R) (w.R.get (1 + k)) = 0 := by
  intro k hk
  have hL : 0 < L := by omega
  set G := gram stdIp L w.R w.MZa with hG
  set S : Nat → Nat → K := fun a b => ∑ i ∈ range n, (w.R.get a).getD i 0 * (w.R.get b).getD i 0 with hS
  have hSc : ∀ a b, S a b = S b a := fun a b => Finset.sum_congr rfl (fun i _ => mul_comm _ _)
  have hGS : ∀ a b, a ≤ L → b ≤ L → G.get a b = S a b := by
    intro a b ha hb
    rw [hG, gram_get stdIp L w.R w.MZa a b ha hb]
    by_cases e : a < b
    · rw [if_pos e, stdIp_eq_finsum n _ _ (hs b hb) (hs a ha)]; exact hSc b a
    · rw [if_neg e, stdIp_eq_finsum n _ _ (hs a ha) (hs b hb)]
  rw [polyCoef_Y0_convex sqrt c07 L convex _ hc]
  set bf : Nat → K := fun t => (mzb L { w with MZa := G }).get 0 (1 + t) with hbf
  have hbfS : ∀ t, t < L → bf t = S 0 (1 + t) := by
    intro t ht
    simp only [hbf, mzb]
    rw [if_pos ⟨Nat.zero_le _, by omega⟩]
    exact hGS 0 (1 + t) (by omega) (by omega)
  set Y0 := (QR.solve sqrt L L 1 G w.qr bf (setF w.Y0 0 (-1)) 1 false).2.2 with hY0
  set x := (QRModel.solveS sqrt L L L 1 (flatOf L 1 G) (rhsOf L bf) QRModel.Obj.fresh).1 with hx
  have hYx : ∀ t, t < L → Y0.get (1 + t) = x.getD t 0 := fun t ht => solve_eq_flat sqrt L 1 G w.qr bf _ 1 t ht
  -- the Gram block is non-singular
  have hflat : ∀ a b, a < L → b < L → (flatOf L 1 G).getD (a * L + b * 1) 0 = S (1 + a) (1 + b) := by
    intro a b ha hb
    rw [Nat.mul_one, flatOf_getD L 1 G a b ha hb]
    exact hGS (1 + a) (1 + b) (by omega) (by omega)
  have hns : ∀ y : Fin L → K, QRModel.matOf (flatOf L 1 G) L 1 L L *ᵥ y = 0 → y = 0 := by
    intro y hy
    set c : Nat → K := fun j => if h : j < L then y ⟨j, h⟩ else 0 with hcdef
    have hrow : ∀ a, a < L → ∑ b ∈ range L, S (1 + a) (1 + b) * c b = 0 := by
      intro a ha
      have := congrFun hy ⟨a, ha⟩
      simp only [Matrix.mulVec, dotProduct, QRModel.matOf, Pi.zero_apply] at this
      rw [← this, Finset.sum_range]
      apply Finset.sum_congr rfl
      intro b _
      rw [hflat a b.val ha b.isLt, hcdef]; simp only [b.isLt, dif_pos]
    have hq : ∑ i ∈ range n, (∑ j ∈ range L, c j * (w.R.get (1 + j)).getD i 0)
        * (∑ j ∈ range L, c j * (w.R.get (1 + j)).getD i 0) = 0 := by
      have e : ∑ a ∈ range L, c a * ∑ b ∈ range L, S (1 + a) (1 + b) * c b = 0 :=
        Finset.sum_eq_zero (fun a ha => by rw [hrow a (Finset.mem_range.mp ha), mul_zero])
      refine Eq.trans ?_ e
      simp only [hS, Finset.sum_mul, Finset.mul_sum]
      rw [Finset.sum_comm]
      apply Finset.sum_congr rfl; intro a _
      rw [Finset.sum_comm]
      apply Finset.sum_congr rfl; intro b _
      apply Finset.sum_congr rfl; intro i _
      ring
    have hz := (Finset.sum_eq_zero_iff_of_nonneg (fun i _ => mul_self_nonneg _)).mp hq
    have hcz := hrank c (fun i hi => mul_self_eq_zero.mp (hz i (Finset.mem_range.mpr hi)))
    funext j
    have := hcz j.val j.isLt
    rw [hcdef] at this; simp only [j.isLt, dif_pos] at this
    exact this
  have hlay : QRModel.Layout L L L 1 (flatOf L 1 G).size := by rw [flatOf_size]; exact QRModel.Layout.rowMajor L L
  obtain ⟨_, hsol⟩ := Amgcl.C16b.qr_solve_square sqrt L L 1 (flatOf L 1 G) (rhsOf L bf) QRModel.Obj.fresh hlay
    hex hns
  -- row `k` of the solved system
  have hrowk : ∑ j ∈ range L, S (1 + k) (1 + j) * Y0.get (1 + j) = S 0 (1 + k) := by
    have := congrFun hsol ⟨k, hk⟩
    simp only [Matrix.mulVec, dotProduct, QRModel.matOf, QRModel.vecOf] at this
    rw [← hbfS k hk]
    have hr : (rhsOf L bf).getD k 0 = bf k := by unfold rhsOf; rw [QRModel.getD_ofFn _ _ hk]
    rw [← hr, ← this, Finset.sum_range]
    apply Finset.sum_congr rfl
    intro j _
    rw [hflat k j.val hk j.isLt, hYx j.val j.isLt]
  -- orthogonality
  obtain ⟨p1, p2⟩ := polyV0_entries L Y0 w.R hs
  rw [stdIp_eq_finsum n _ _ p1 (hs (1 + k) (by omega))]
  have : ∑ i ∈ range n, (polyV0 L Y0 w.R).getD i 0 * (w.R.get (1 + k)).getD i 0
      = S 0 (1 + k) - ∑ j ∈ range L, S (1 + k) (1 + j) * Y0.get (1 + j) := by
    simp only [hS, Finset.sum_mul]
    rw [Finset.sum_comm, ← Finset.sum_sub_distrib]
    apply Finset.sum_congr rfl
    intro i hi
    rw [p2 i (Finset.mem_range.mp hi), sub_mul, Finset.sum_mul]
    congr 1
    apply Finset.sum_congr rfl; intro j _; ring
  rw [this, hrowk, sub_self]

/-! ### `L = 1`: BiCGStab's `omega` step -/

/-- `Y0[1]` of BiCGStab(1) is `⟨s,t⟩ / ⟨t,t⟩` with `s = R[0]`, `t = R[1]` (total division), the `omega` of bicgstab.hpp -/
theorem L1_omega (sqrt : K → K) (c07 : K) (n : Nat) (convex : Bool) (w : Work K)
    (h0 : (w.R.get 0).size = n) (h1 : (w.R.get 1).size = n) :
    (polyCoef sqrt c07 1 convex { w with MZa := gram stdIp 1 w.R w.MZa }).Y0.get 1
      = stdIp (w.R.get 0) (w.R.get 1) / stdIp (w.R.get 1) (w.R.get 1) := by
  rw [polyCoef_one stdIp sqrt c07 convex w, stdIp_comm' (w.R.get 1) (w.R.get 0) h1 h0]
  by_cases e : stdIp (w.R.get 1) (w.R.get 1) = 0
  · rw [if_pos e, e, div_zero]
    exact stdIp_self_eq_zero (w.R.get 1) (w.R.get 0) h1 h0 e
  · rw [if_neg e]; unfold inv1; field_simp

/-- the vectors of the polynomial step for `L = 1` are those of the `omega` half step of BiCGStab
(`axpbypcz(one, *s, -omega, *t, zero, *r)`, `axpby(omega, *s, one, x)`), for any coefficient array -/
theorem L1_vectors (n : Nat) (Y : FArr K) (R : FArr (Vec K)) (X z : Vec K) (h0 : (R.get 0).size = n)
    (h1 : (R.get 1).size = n) (hX : X.size = n) :
    polyV0 1 Y R = axpbypcz 1 (R.get 0) (-(Y.get 1)) (R.get 1) 0 z ∧ polyX 1 Y R X = axpby (Y.get 1) (R.get 0) 1 X := by
  have hs : ∀ i, i ≤ 1 → (R.get i).size = n := by
    intro i hi
    rcases Nat.le_one_iff_eq_zero_or_eq_one.mp hi with rfl | rfl
    · exact h0
    · exact h1
  obtain ⟨p1, p2⟩ := polyV0_entries 1 Y R hs
  obtain ⟨x1, x2⟩ := polyX_entries 1 Y R X hX hs
  constructor
  · apply Vec.ext_getD (0 : K) (by rw [p1, axpbypcz_size, h0])
    intro i hi
    rw [p1] at hi
    rw [p2 i hi, axpbypcz_getD _ _ _ _ _ _ _ (by rw [h0]; exact hi)]
    simp [Finset.sum_range_one]; ring
  · apply Vec.ext_getD (0 : K) (by rw [x1, axpby_size, h0])
    intro i hi
    rw [x1] at hi
    rw [x2 i hi, axpby_getD _ _ _ _ _ (by rw [h0]; exact hi)]
    simp [Finset.sum_range_one]; ring

/-- for `L = 1` the normal equation holds without any hypothesis on the root (none is taken) or on `R[1]` -/
theorem L1_orth (sqrt : K → K) (c07 : K) (n : Nat) (convex : Bool) (w : Work K)
    (h0 : (w.R.get 0).size = n) (h1 : (w.R.get 1).size = n) :
    stdIp (polyV0 1 (polyCoef sqrt c07 1 convex { w with MZa := gram stdIp 1 w.R w.MZa }).Y0 w.R) (w.R.get 1) = 0 := by
  have hs : ∀ i, i ≤ 1 → (w.R.get i).size = n := by
    intro i hi
    rcases Nat.le_one_iff_eq_zero_or_eq_one.mp hi with rfl | rfl
    · exact h0
    · exact h1
  obtain ⟨p1, p2⟩ := polyV0_entries 1 (polyCoef sqrt c07 1 convex { w with MZa := gram stdIp 1 w.R w.MZa }).Y0 w.R hs
  by_cases e : stdIp (w.R.get 1) (w.R.get 1) = 0
  · exact stdIp_self_eq_zero (w.R.get 1) _ h1 p1 e
  · rw [stdIp_eq_finsum n _ _ p1 h1]
    have hom := L1_omega sqrt c07 n convex w h0 h1
    rw [stdIp_eq_finsum n _ _ h0 h1, stdIp_eq_finsum n _ _ h1 h1] at hom
    rw [stdIp_eq_finsum n _ _ h1 h1] at e
    have : ∑ i ∈ range n, (polyV0 1 (polyCoef sqrt c07 1 convex { w with MZa := gram stdIp 1 w.R w.MZa }).Y0 w.R).getD i 0
          * (w.R.get 1).getD i 0
        = ∑ i ∈ range n, (w.R.get 0).getD i 0 * (w.R.get 1).getD i 0
          - (polyCoef sqrt c07 1 convex { w with MZa := gram stdIp 1 w.R w.MZa }).Y0.get 1
            * ∑ i ∈ range n, (w.R.get 1).getD i 0 * (w.R.get 1).getD i 0 := by
      rw [Finset.mul_sum, ← Finset.sum_sub_distrib]
      apply Finset.sum_congr rfl
      intro i hi
      rw [p2 i (Finset.mem_range.mp hi)]
      simp [Finset.sum_range_one]; ring
    rw [this, hom, div_mul_cancel₀ _ e, sub_self]

end Amgcl.Solver.BiCGStabL
