import Amgcl.Proofs.BridgeDirect
import Amgcl.Properties.C16
/-!
# Bridge, part 3b: the model's skyline LU satisfies `DirectExact`

`skylineDirect perm` is the skyline LU of `Model/SkylineLU.lean` (constructor, Crout factorisation, `operator()` on a
cleared output vector) as a function `CRS K → Vec K → Vec K`, `skylineOk perm` says that its constructor succeeds, and
`skyline_directExact` is `C16.skyline_spec` in the form consumed by `C02c.built_realizes`.

It is combined with `Properties/C02c.lean` in `Properties/C02d.lean` (`model_amg_skyline_spd_contracting`).
-/
set_option linter.unusedSectionVars false
namespace Amgcl.Energy.Bridge
open Amgcl Amgcl.Amg Amgcl.Relax Matrix Finset

variable {K S : Type} [Field K] [DecidableEq K]

/-! ### the skyline LU model as the direct solver -/

/-- `Backend::direct_solver` = `skyline_lu` with the ordering `perm A`: constructor, Crout factorisation, and
`operator()` into a cleared vector; the right-hand side is returned unchanged if the constructor throws (never reached:
`directOk` is false then and `Amg.build` fails) -/
def skylineDirect (perm : CRS K → Array Nat) (Ad : CRS K) (f : Vec K) : Vec K :=
  match Skyline.factorize (fun v => decide (v = 0)) (fun v => 1 / v)
      (Skyline.build (R := K) (fun v => decide (v = 0)) Ad (perm Ad)) with
  | .ok S => (Skyline.solve S f (vclear Ad.nrows)).1
  | .precondition => f

/-- the constructor of the skyline solver succeeds (no zero pivot) -/
def skylineOk (perm : CRS K → Array Nat) (Ad : CRS K) : Bool :=
  match Skyline.factorize (fun v => decide (v = 0)) (fun v => 1 / v)
      (Skyline.build (R := K) (fun v => decide (v = 0)) Ad (perm Ad)) with
  | .ok _ => true
  | .precondition => false

omit [Field K] [DecidableEq K] in
theorem solve_size [Zero K] [Mul K] [Sub K] (S : Skyline K K) (rhs x : Array K) : (Skyline.solve S rhs x).1.size = x.size := by
  unfold Skyline.solve
  simp only
  generalize (List.range S.n) = l
  generalize (List.foldl (Skyline.bwdStep S) _ _) = y
  induction l generalizing x with
  | nil => rfl
  | cons i t ih => rw [List.foldl_cons, ih]; simp

/-- **`C16.skyline_spec` as `DirectExact`**: for a non-empty square well-formed matrix without repeated columns in a
row and a permutation ordering, the skyline solver is exact whenever its constructor succeeds -/
theorem skyline_directExact (perm : CRS K → Array Nat) (Ad : CRS K) (h1 : 1 ≤ Ad.nrows) (hsq : Ad.ncols = Ad.nrows)
    (hwf : Ad.WF) (hnd : ∀ i, ((Ad.row i).map (·.1)).Nodup) (hp : PermOn Ad.nrows (perm Ad))
    (hok : skylineOk perm Ad = true) : DirectExact (skylineDirect perm) Ad := by
  intro f _
  unfold skylineOk at hok
  unfold skylineDirect
  cases hfac : Skyline.factorize (fun v => decide (v = 0)) (fun v => 1 / v)
      (Skyline.build (R := K) (fun v => decide (v = 0)) Ad (perm Ad)) with
  | precondition => rw [hfac] at hok; cases hok
  | ok S =>
    simp only
    refine ⟨by rw [solve_size, vclear_size], ?_⟩
    exact C16.skyline_spec Ad (perm Ad) S h1 hsq hwf hnd hp hfac f (vclear Ad.nrows) (vclear_size _)

end Amgcl.Energy.Bridge
