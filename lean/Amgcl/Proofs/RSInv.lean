import Amgcl.Model.RugeStuben
import Mathlib.Tactic.Linarith
/-!
Shared definitions for the proofs about `ruge_stuben::cfsplit` (`Model/RugeStuben.lean`):

* `getD` views of `Array.modify` / `Array.setIfInBounds`;
* `pre c l = c 0 + … + c (l-1)` (group starts as prefix sums of the group sizes) and its algebra;
* the loop invariant `RS.Inv n s top` of the bucket structure `ptr / cnt / i2n / n2i`:
  positions `[0, top)` of `i2n` are tiled by the groups of equal `lambda` in increasing order, group `l` occupying
  `[pre cnt l, pre cnt l + cnt l)`; `ptr[l]` is that start for every group that is not above the last non-empty one
  (pointers of the empty groups above may be stale, exactly as in the C++ code); `i2n` / `n2i` are mutually inverse
  permutations; every variable stored at a position `≥ top` (already visited) is decided.
-/
namespace Amgcl
namespace RS

theorem getD_set {α} (a : Array α) (i j : Nat) (v d : α) :
    (a.setIfInBounds i v).getD j d = if i = j ∧ i < a.size then v else a.getD j d := by
  simp only [Array.getD_eq_getD_getElem?, Array.getElem?_setIfInBounds]
  by_cases h : i = j
  · subst h
    by_cases h2 : i < a.size <;> simp [h2]
  · simp [h]

theorem getD_modify {α} (a : Array α) (i j : Nat) (f : α → α) (d : α) :
    (a.modify i f).getD j d = if i = j ∧ i < a.size then f (a.getD j d) else a.getD j d := by
  simp only [Array.getD_eq_getD_getElem?, Array.getElem?_modify]
  by_cases h : i = j
  · subst h
    by_cases h2 : i < a.size
    · simp [h2]
    · simp [h2]
  · simp [h]

/-- `pre c l = Σ_{k<l} c k` -/
def pre (c : Nat → Nat) : Nat → Nat
  | 0 => 0
  | l + 1 => pre c l + c l

@[simp] theorem pre_zero (c : Nat → Nat) : pre c 0 = 0 := rfl
theorem pre_succ (c : Nat → Nat) (l : Nat) : pre c (l + 1) = pre c l + c l := rfl

theorem pre_mono (c : Nat → Nat) {l l' : Nat} (h : l ≤ l') : pre c l ≤ pre c l' := by
  induction l' with
  | zero => have : l = 0 := by omega
            subst this; exact Nat.le_refl _
  | succ m ih =>
    by_cases hm : l = m + 1
    · subst hm; exact Nat.le_refl _
    · have := ih (by omega); rw [pre_succ]; omega

/-- the end of group `l` is not after the start of any later group -/
theorem pre_end_le (c : Nat → Nat) {l l' : Nat} (h : l < l') : pre c l + c l ≤ pre c l' := by
  have := pre_mono c (show l + 1 ≤ l' by omega)
  rw [pre_succ] at this; exact this

/-- a position lies in at most one group -/
theorem grp_unique (c : Nat → Nat) {p l l' : Nat} (h1 : pre c l ≤ p) (h2 : p < pre c l + c l)
    (h1' : pre c l' ≤ p) (h2' : p < pre c l' + c l') : l = l' := by
  rcases Nat.lt_trichotomy l l' with h | h | h
  · have := pre_end_le c h; omega
  · exact h
  · have := pre_end_le c h; omega

/-- prefix sums when two functions agree below `l` -/
theorem pre_congr {c c' : Nat → Nat} {l : Nat} (h : ∀ k, k < l → c' k = c k) : pre c' l = pre c l := by
  induction l with
  | zero => rfl
  | succ m ih => rw [pre_succ, pre_succ, ih (fun k hk => h k (by omega)), h m (by omega)]

/-- one entry raised by one -/
theorem pre_inc {c c' : Nat → Nat} {a : Nat} (ha : c' a = c a + 1) (hne : ∀ k, k ≠ a → c' k = c k) (l : Nat) :
    pre c' l = pre c l + if a < l then 1 else 0 := by
  induction l with
  | zero => simp
  | succ m ih =>
    rw [pre_succ, pre_succ, ih]
    by_cases hm : m = a
    · subst hm; rw [ha]; simp; omega
    · rw [hne m hm]
      by_cases h1 : a < m
      · have h2 : a < m + 1 := by omega
        simp [h1, h2]; omega
      · have h2 : ¬ a < m + 1 := by omega
        simp [h1, h2]

/-- one (positive) entry lowered by one -/
theorem pre_dec {c c' : Nat → Nat} {a : Nat} (hpos : 0 < c a) (ha : c' a = c a - 1) (hne : ∀ k, k ≠ a → c' k = c k)
    (l : Nat) : pre c' l + (if a < l then 1 else 0) = pre c l := by
  have := pre_inc (c := c') (c' := c) (a := a) (by omega) (fun k hk => (hne k hk).symm) l
  omega

/-- the views of the state used by the invariant -/
def Split.L (s : Split) (i : Nat) : Nat := s.lambda.getD i 0
def Split.Pt (s : Split) (l : Nat) : Nat := s.ptr.getD l 0
def Split.Cn (s : Split) (l : Nat) : Nat := s.cnt.getD l 0
def Split.I2N (s : Split) (p : Nat) : Nat := s.i2n.getD p 0
def Split.N2I (s : Split) (i : Nat) : Nat := s.n2i.getD i 0
def Split.M (s : Split) (i : Nat) : CF := s.cf.getD i CF.U

/-- loop invariant of `cfsplit` for `n` variables when positions `[0, top)` are still to be visited -/
structure Inv (n : Nat) (s : Split) (top : Nat) : Prop where
  sz_cf  : s.cf.size = n
  sz_lam : s.lambda.size = n
  sz_ptr : s.ptr.size = n + 1
  sz_cnt : s.cnt.size = n
  sz_i2n : s.i2n.size = n
  sz_n2i : s.n2i.size = n
  top_le : top ≤ n
  perm1  : ∀ p, p < n → s.I2N p < n ∧ s.N2I (s.I2N p) = p
  perm2  : ∀ i, i < n → s.N2I i < n ∧ s.I2N (s.N2I i) = i
  grp    : ∀ p, p < top → pre s.Cn (s.L (s.I2N p)) ≤ p ∧ p < pre s.Cn (s.L (s.I2N p)) + s.Cn (s.L (s.I2N p))
  tot    : pre s.Cn n = top
  ptr    : ∀ l, l < n → (∃ l', l ≤ l' ∧ l' < n ∧ 0 < s.Cn l') → s.Pt l = pre s.Cn l
  vis    : ∀ p, top ≤ p → p < n → s.M (s.I2N p) ≠ CF.U

end RS
end Amgcl
