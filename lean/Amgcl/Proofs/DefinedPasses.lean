import Amgcl.Model.DefinedPasses
import Amgcl.Proofs.DefinedKernels
/-!
# Two-pass constructions with a separately computed width: the counting loop and the filling loop agree
-/
namespace Amgcl
namespace Defined
variable {K : Type}

theorem ptrPass_congr (n : Nat) (w w' : Nat → Nat) (h : ∀ i, i < n → w i = w' i) (p : Array (Cell Nat)) :
    ptrPass n w p = ptrPass n w' p := by
  unfold ptrPass
  induction n with
  | zero => rfl
  | succ n ih =>
    rw [List.range_succ, List.foldl_append, List.foldl_append, ih (fun i hi => h i (by omega))]
    simp only [List.foldl_cons, List.foldl_nil]
    rw [h n (by omega)]

theorem twoPassW_eq (rows : Array (Row K)) (w : Nat → Nat) (hw : ∀ i, i < rows.size → w i = (rows.getD i []).length)
    (jp : Array Nat) (jc : Nat → Array Nat) (jv : Nat → Array K) : twoPassW rows w jp jc jv = twoPass rows jp jc jv := by
  unfold twoPassW twoPass
  rw [ptrPass_congr rows.size w (fun i => (rows.getD i []).length) hw]

/-- `cnt` increments of a written cell -/
theorem incCell_spec (cnt k : Nat) (st : Array (Cell Nat) × Bool) (v : Nat) (hk : k < st.1.size)
    (hv : load st.1 k = some v) :
    (incCell cnt k st).2 = st.2 ∧ (incCell cnt k st).1.size = st.1.size ∧
      load (incCell cnt k st).1 k = some (v + cnt) ∧ (∀ j, j ≠ k → load (incCell cnt k st).1 j = load st.1 j) := by
  unfold incCell
  induction cnt with
  | zero => simp [hv]
  | succ c ih =>
    obtain ⟨a1, a2, a3, a4⟩ := ih
    rw [List.range_succ, List.foldl_append]
    simp only [List.foldl_cons, List.foldl_nil]
    rw [rd_of_load _ _ 0 _ a3]
    simp only
    refine ⟨by rw [a1]; simp, by rw [store_size, a2], ?_, ?_⟩
    · rw [load_store_same _ _ _ (by rw [a2]; exact hk)]; congr 1
    · intro j hj
      rw [load_store_ne _ _ _ _ (Ne.symm hj)]; exact a4 j hj

/-- the counting pass made of increments, on a zero-filled pointer array -/
theorem incPass_spec (n : Nat) (w : Nat → Nat) (p : Array (Cell Nat)) (hs : n + 1 ≤ p.size)
    (h0 : load p 0 = some 0) (hz : ∀ j, j < n → load p (j + 1) = some 0) :
    (incPass n w (p, true)).2 = true ∧ (incPass n w (p, true)).1.size = p.size ∧
      load (incPass n w (p, true)).1 0 = some 0 ∧
      (∀ j, j < n → load (incPass n w (p, true)).1 (j + 1) = some (w j)) := by
  unfold incPass
  have key : ∀ k, k ≤ n →
      let st := (List.range k).foldl (fun st i => incCell (w i) (i + 1) st) (p, true)
      st.2 = true ∧ st.1.size = p.size ∧ load st.1 0 = some 0 ∧
      (∀ j, j < k → load st.1 (j + 1) = some (w j)) ∧ (∀ j, k ≤ j → j < n → load st.1 (j + 1) = some 0) := by
    intro k
    induction k with
    | zero => intro _; exact ⟨rfl, rfl, h0, fun j hj => absurd hj (Nat.not_lt_zero j), fun j _ hj => hz j hj⟩
    | succ k ih =>
      intro hk
      obtain ⟨b1, b2, b3, b4, b5⟩ := ih (by omega)
      rw [List.range_succ, List.foldl_append]
      simp only [List.foldl_cons, List.foldl_nil]
      obtain ⟨c1, c2, c3, c4⟩ := incCell_spec (w k) (k + 1) _ 0 (by rw [b2]; omega) (b5 k (Nat.le_refl _) (by omega))
      refine ⟨by rw [c1, b1], by rw [c2, b2], by rw [c4 0 (by omega)]; exact b3, ?_, ?_⟩
      · intro j hj
        by_cases hjk : j = k
        · subst hjk; rw [c3]; simp
        · rw [c4 (j + 1) (by omega)]; exact b4 j (by omega)
      · intro j hj hjn
        rw [c4 (j + 1) (by omega)]; exact b5 j (by omega) hjn
  obtain ⟨k1, k2, k3, k4, _⟩ := key n (Nat.le_refl n)
  exact ⟨k1, k2, k3, k4⟩

/-- **two-pass construction with increments** = the completely written flat image of the rows -/
theorem twoPassInc_spec (rows : Array (Row K)) (w : Nat → Nat) (hw : ∀ i, i < rows.size → w i = (rows.getD i []).length)
    (jp : Array Nat) (jc : Nat → Array Nat) (jv : Nat → Array K)
    (hp : jp.size = rows.size + 1) (hc : ∀ k, (jc k).size = k) (hv : ∀ k, (jv k).size = k) :
    twoPassInc rows w jp jc jv = CrsCells.ofRows rows := by
  unfold twoPassInc
  dsimp only
  have hps : rows.size + 1 ≤ (alloc jp).size := by rw [alloc_size, hp]; exact Nat.le_refl _
  obtain ⟨z1, z2, z3⟩ := ptrPass_spec rows.size (fun _ => 0) (alloc jp) hps
  obtain ⟨i1, i2, i3, i4⟩ := incPass_spec rows.size w _ (by rw [z1]; exact hps) z2 z3
  obtain ⟨s1, s2, s3⟩ := scanCells_spec rows.size (fun i => (rows.getD i []).length)
    (fun i => (flatUpTo rows i).length) (by simp [flatUpTo_zero])
    (fun j hj => by rw [flatUpTo_succ rows j hj, List.length_append])
    _ (by rw [i2, z1]; exact hps) i3 (fun j hj => by rw [i4 j hj, hw j hj])
  rw [rd_of_load _ _ 0 _ (s3 rows.size (Nat.le_refl _))]
  simp only [s1, i1, Bool.and_self]
  have hnnz : (flatUpTo rows rows.size).length = (flatRows rows).length := by rw [flatUpTo_all]
  obtain ⟨f1, f2, f3⟩ := fillRows_spec
    (fun i => rd (scanCells rows.size (incPass rows.size w (ptrPass rows.size (fun _ => 0) (alloc jp), true)).1).1 i 0) rows
    (fun i hi => rd_of_load _ _ 0 _ (s3 i (by omega)))
    { col := alloc (jc (flatUpTo rows rows.size).length), val := alloc (jv (flatUpTo rows rows.size).length), ok := true }
    rfl (by simp only; rw [alloc_size, hc, hnnz]) (by simp only; rw [alloc_size, hv, hnnz])
  unfold CrsCells.ofRows
  rw [f1, f2, f3]
  congr 1
  apply eq_written_of_load
  · rw [s2, i2, z1, alloc_size, hp]; simp [ptrList_length]
  · intro i hi
    have hi' : i ≤ rows.size := by
      have : (ptrList rows).toArray.size = rows.size + 1 := by simp [ptrList_length]
      omega
    rw [s3 i hi', ptrList_getElem]

/-! ### `smoothed_aggr_emin`: width loop = fill loop -/

theorem eminWidth_eq (i : Nat) (dia : K) (r : List ((Nat × K) × Bool)) :
    eminWidth i r = (eminFillRow i dia r).length := by
  unfold eminWidth eminFillRow
  -- the number of weak off-diagonal entries
  have key : ∀ (r : List ((Nat × K) × Bool)) (w : Nat),
      r.foldl (fun w e => if e.1.1 = i then w else if !e.2 then w - 1 else w) w
        = w - (r.filter (fun e => decide (e.1.1 ≠ i) && !e.2)).length := by
    intro r
    induction r with
    | nil => intro w; simp
    | cons e t ih =>
      intro w
      rw [List.foldl_cons, ih, List.filter_cons]
      by_cases h1 : e.1.1 = i
      · simp [h1]
      · cases h2 : e.2
        · simp [h1, h2]; omega
        · simp [h1, h2]
  have len : ∀ (r : List ((Nat × K) × Bool)),
      (r.filterMap fun e => if e.1.1 = i then some (i, dia) else if e.2 then some e.1 else none).length
        + (r.filter (fun e => decide (e.1.1 ≠ i) && !e.2)).length = r.length := by
    intro r
    induction r with
    | nil => rfl
    | cons e t ih =>
      rw [List.filterMap_cons, List.filter_cons]
      by_cases h1 : e.1.1 = i
      · simp [h1]; simp [h1] at ih; omega
      · cases h2 : e.2
        · simp [h1, h2]; simp [h1] at ih; omega
        · simp [h1, h2]; simp [h1] at ih; omega
  rw [key]
  have := len r
  omega

/-! ### `D` of iluk / ilut: read below the current row only -/
section tri
variable {α : Type}

theorem getElem?_of_load (a : Array (Cell α)) (i : Nat) (v : α) (h : load a i = some v) : a[i]? = some ⟨v, true⟩ := by
  unfold load at h
  cases ha : a[i]? with
  | none => rw [ha] at h; simp at h
  | some c =>
    rw [ha] at h
    simp only at h
    by_cases hw : c.written = true
    · rw [if_pos hw] at h
      simp only [Option.some.injEq] at h
      cases c; simp only at hw h; subst hw; subst h; rfl
    · rw [if_neg hw] at h; simp at h

theorem load_lt_size (a : Array (Cell α)) (i : Nat) (v : α) (h : load a i = some v) : i < a.size := by
  have := getElem?_of_load a i v h
  by_contra hc
  rw [Array.getElem?_eq_none (by omega)] at this
  simp at this

/-- two runs on different prior heaps stay in lock-step -/
theorem triCells_key (n : Nat) (reads : Nat → List Nat) (f : Nat → List α → α) (d : α) (junk junk' : Array α)
    (hr : ∀ i, i < n → ∀ k ∈ reads i, k < i) (hj : junk.size = n) (hj' : junk'.size = n) :
    ∀ m, m ≤ n →
      let st := (List.range m).foldl (fun (st : Array (Cell α) × Bool) i =>
        let xs := (reads i).map fun k => rd st.1 k d
        (store st.1 i (f i (xs.map (·.1))), st.2 && xs.all (·.2))) (alloc junk, true)
      let st' := (List.range m).foldl (fun (st : Array (Cell α) × Bool) i =>
        let xs := (reads i).map fun k => rd st.1 k d
        (store st.1 i (f i (xs.map (·.1))), st.2 && xs.all (·.2))) (alloc junk', true)
      st.2 = true ∧ st'.2 = true ∧ st.1.size = n ∧ st'.1.size = n ∧
        ∀ j, j < m → ∃ v, load st.1 j = some v ∧ load st'.1 j = some v := by
  intro m
  induction m with
  | zero =>
    intro _
    simp only [List.range_zero, List.foldl_nil]
    exact ⟨by first | rfl | trivial, by first | rfl | trivial, by rw [alloc_size, hj], by rw [alloc_size, hj'],
      fun j hj => absurd hj (Nat.not_lt_zero j)⟩
  | succ m ih =>
    intro hm
    obtain ⟨a1, a2, a3, a4, a5⟩ := ih (by omega)
    rw [List.range_succ, List.foldl_append, List.foldl_append]
    simp only [List.foldl_cons, List.foldl_nil]
    -- the loads of row `m` agree and are legitimate
    have hx : ∀ k ∈ reads m, ∃ v,
        rd ((List.range m).foldl (fun (st : Array (Cell α) × Bool) i =>
          let xs := (reads i).map fun k => rd st.1 k d
          (store st.1 i (f i (xs.map (·.1))), st.2 && xs.all (·.2))) (alloc junk, true)).1 k d = (v, true) ∧
        rd ((List.range m).foldl (fun (st : Array (Cell α) × Bool) i =>
          let xs := (reads i).map fun k => rd st.1 k d
          (store st.1 i (f i (xs.map (·.1))), st.2 && xs.all (·.2))) (alloc junk', true)).1 k d = (v, true) := by
      intro k hk
      obtain ⟨v, h1, h2⟩ := a5 k (hr m (by omega) k hk)
      exact ⟨v, rd_of_load _ _ d _ h1, rd_of_load _ _ d _ h2⟩
    have hmap : (reads m).map (fun k => rd ((List.range m).foldl (fun (st : Array (Cell α) × Bool) i =>
          let xs := (reads i).map fun k => rd st.1 k d
          (store st.1 i (f i (xs.map (·.1))), st.2 && xs.all (·.2))) (alloc junk, true)).1 k d)
        = (reads m).map (fun k => rd ((List.range m).foldl (fun (st : Array (Cell α) × Bool) i =>
          let xs := (reads i).map fun k => rd st.1 k d
          (store st.1 i (f i (xs.map (·.1))), st.2 && xs.all (·.2))) (alloc junk', true)).1 k d) := by
      apply List.map_congr_left
      intro k hk
      obtain ⟨v, h1, h2⟩ := hx k hk
      rw [h1, h2]
    have hall : ((reads m).map (fun k => rd ((List.range m).foldl (fun (st : Array (Cell α) × Bool) i =>
          let xs := (reads i).map fun k => rd st.1 k d
          (store st.1 i (f i (xs.map (·.1))), st.2 && xs.all (·.2))) (alloc junk, true)).1 k d)).all (·.2) = true := by
      rw [List.all_eq_true]
      intro x hxm
      obtain ⟨k, hk, rfl⟩ := List.mem_map.mp hxm
      obtain ⟨v, h1, _⟩ := hx k hk
      rw [h1]
    refine ⟨by rw [a1, hall]; rfl, by rw [a2, ← hmap, hall]; rfl, by rw [store_size, a3], by rw [store_size, a4], ?_⟩
    intro j hjm
    by_cases hjeq : j = m
    · subst hjeq
      refine ⟨_, load_store_same _ _ _ (by rw [a3]; omega), ?_⟩
      rw [← hmap]
      exact load_store_same _ _ _ (by rw [a4]; omega)
    · obtain ⟨v, h1, h2⟩ := a5 j (by omega)
      exact ⟨v, by rw [load_store_ne _ _ _ _ (Ne.symm hjeq)]; exact h1,
        by rw [load_store_ne _ _ _ _ (Ne.symm hjeq)]; exact h2⟩

theorem triCells_spec (n : Nat) (reads : Nat → List Nat) (f : Nat → List α → α) (d : α) (junk junk' : Array α)
    (hr : ∀ i, i < n → ∀ k ∈ reads i, k < i) (hj : junk.size = n) (hj' : junk'.size = n) :
    (triCells n reads f d junk).2 = true ∧ allWritten (triCells n reads f d junk).1 = true ∧
      triCells n reads f d junk = triCells n reads f d junk' := by
  obtain ⟨a1, a2, a3, a4, a5⟩ := triCells_key n reads f d junk junk' hr hj hj' n (Nat.le_refl _)
  unfold triCells
  refine ⟨a1, ?_, ?_⟩
  · unfold allWritten
    rw [Array.all_eq_true]
    intro i hi
    obtain ⟨v, h1, _⟩ := a5 i (by rw [← a3]; exact hi)
    have := getElem?_of_load _ _ _ h1
    rw [Array.getElem?_eq_getElem hi] at this
    simp only [Option.some.injEq] at this
    rw [this]
  · apply Prod.ext
    · apply Array.ext
      · rw [a3, a4]
      · intro i h1 h2
        obtain ⟨v, g1, g2⟩ := a5 i (by rw [← a3]; exact h1)
        have e1 := getElem?_of_load _ _ _ g1
        have e2 := getElem?_of_load _ _ _ g2
        rw [Array.getElem?_eq_getElem h1] at e1
        rw [Array.getElem?_eq_getElem h2] at e2
        simp only [Option.some.injEq] at e1 e2
        rw [e1, e2]
    · rw [a1, a2]

end tri

/-! ### power iteration -/
section power
variable {α : Type}

theorem fillVec_full (n : Nat) (f : Nat → α) (a : Array (Cell α)) (ha : a.size = n) :
    fillVec n f a = written (Array.ofFn (n := n) (fun i => f i.val)) := by
  obtain ⟨h1, h2, _⟩ := fillVec_spec n f a
  apply eq_written_of_load
  · rw [h1, ha]; simp
  · intro i hi
    have hin : i < n := by simpa using hi
    rw [h2 i hin (by rw [ha]; exact hin)]
    simp

theorem updPass_written (n : Nat) (h : Nat → α → α) (d : α) (v : Array α) (hv : v.size = n) :
    updPass n h d (written v, true) = (written (Array.ofFn (n := n) (fun i => h i.val (v.getD i.val d))), true) := by
  unfold updPass
  have key : ∀ m, m ≤ n →
      let st := (List.range m).foldl (fun (st : Array (Cell α) × Bool) i =>
        let x := rd st.1 i d
        (store st.1 i (h i x.1), st.2 && x.2)) (written v, true)
      st.2 = true ∧ st.1.size = n ∧ (∀ j, j < m → load st.1 j = some (h j (v.getD j d))) ∧
        (∀ j, m ≤ j → j < n → load st.1 j = some (v.getD j d)) := by
    intro m
    induction m with
    | zero =>
      intro _
      simp only [List.range_zero, List.foldl_nil]
      refine ⟨by first | rfl | trivial, by rw [written_size, hv], fun j hj => absurd hj (Nat.not_lt_zero j), fun j _ hjn => ?_⟩
      rw [load_written v j (by rw [hv]; exact hjn)]
      simp [Array.getD_eq_getD_getElem?, Array.getElem?_eq_getElem (show j < v.size by rw [hv]; exact hjn)]
    | succ m ih =>
      intro hm
      obtain ⟨b1, b2, b3, b4⟩ := ih (by omega)
      rw [List.range_succ, List.foldl_append]
      simp only [List.foldl_cons, List.foldl_nil]
      rw [rd_of_load _ _ d _ (b4 m (Nat.le_refl _) (by omega))]
      simp only
      refine ⟨by rw [b1]; rfl, by rw [store_size, b2], ?_, ?_⟩
      · intro j hj
        by_cases hjm : j = m
        · subst hjm; exact load_store_same _ _ _ (by rw [b2]; omega)
        · rw [load_store_ne _ _ _ _ (Ne.symm hjm)]; exact b3 j (by omega)
      · intro j hj hjn
        rw [load_store_ne _ _ _ _ (by omega)]; exact b4 j (by omega) hjn
  obtain ⟨k1, k2, k3, _⟩ := key n (Nat.le_refl _)
  apply Prod.ext
  · apply eq_written_of_load
    · rw [k2]; simp
    · intro i hi
      have hin : i < n := by simpa using hi
      rw [k3 i hin]; simp
  · exact k1

/-- the loop keeps `b0` completely written and never reads an unwritten `b1`; its result does not depend on the
prior content of `b1` as long as one iteration is made -/
theorem powerLoop_spec (n : Nat) (rowop : Nat → Array α → α) (renorm : Array α → Nat → α) (stop : Array α → Bool)
    (k : Nat) (v0 : Array α) (hv0 : v0.size = n) (b1 b1' : Array (Cell α)) (h1 : b1.size = n) (h1' : b1'.size = n)
    (hk : 0 < k) :
    (powerLoop n rowop renorm stop k { b0 := written v0, b1 := b1, ok := true }).ok = true ∧
    allWritten (powerLoop n rowop renorm stop k { b0 := written v0, b1 := b1, ok := true }).b0 = true ∧
    allWritten (powerLoop n rowop renorm stop k { b0 := written v0, b1 := b1, ok := true }).b1 = true ∧
    powerLoop n rowop renorm stop k { b0 := written v0, b1 := b1, ok := true }
      = powerLoop n rowop renorm stop k { b0 := written v0, b1 := b1', ok := true } := by
  induction k generalizing v0 b1 b1' with
  | zero => omega
  | succ k ih =>
    unfold powerLoop
    simp only [allWritten_written, Bool.and_self, erase_written]
    rw [fillVec_full n _ b1 h1, fillVec_full n _ b1' h1']
    by_cases hk0 : k = 0
    · simp only [hk0, if_true]
      exact ⟨by first | rfl | trivial, allWritten_written _, allWritten_written _, by first | rfl | trivial⟩
    · simp only [hk0, if_false, erase_written]
      by_cases hs : stop (Array.ofFn (n := n) fun i => rowop i.val v0) = true
      · simp only [hs, if_true]
        exact ⟨by first | rfl | trivial, allWritten_written _, allWritten_written _, by first | rfl | trivial⟩
      · simp only [hs, if_false, Bool.false_eq_true]
        rw [fillVec_full n _ (written v0) (by rw [written_size, hv0])]
        simp only [allWritten_written, Bool.and_self]
        obtain ⟨c1, c2, c3, _⟩ := ih (Array.ofFn (n := n) fun i => renorm (Array.ofFn (n := n) fun i => rowop i.val v0) i.val)
          (by simp) (written (Array.ofFn (n := n) fun i => rowop i.val v0))
          (written (Array.ofFn (n := n) fun i => rowop i.val v0)) (by simp [written_size]) (by simp [written_size])
          (by omega)
        exact ⟨c1, c2, c3, by first | rfl | trivial⟩

end power

/-! ### `pointwise_matrix`: counting pass = filling pass -/
section pw
open Coarsening
variable [Zero K] [LT K] [DecidableLT K]

/-- control state of a round -/
def ctl (s : PwRound K) : Bool × Nat := (s.done, s.curCol)

theorem ctl_see (s : PwRound K) (c : Nat) : ctl (s.see c) = PwC.see (ctl s) c := by
  unfold PwRound.see PwC.see ctl
  cases h : s.done <;> simp

theorem ctl_val (s : PwRound K) (v : K) : ctl (s.val v) = ctl s := by
  unfold PwRound.val ctl
  cases h : s.first <;> simp

theorem pwScan_ctl (norm : K → K) (colEnd : Nat) (r : Row K) (s : PwRound K) :
    ctl (pwScan norm colEnd r s).1 = (PwC.scan colEnd r (ctl s)).1 ∧
      (pwScan norm colEnd r s).2 = (PwC.scan colEnd r (ctl s)).2 := by
  induction r generalizing s with
  | nil => exact ⟨rfl, rfl⟩
  | cons e t ih =>
    obtain ⟨c, v⟩ := e
    unfold pwScan PwC.scan
    by_cases h : c ≥ colEnd
    · simp only [h, if_true]; exact ⟨ctl_see s c, by first | rfl | trivial⟩
    · simp only [h, if_false]
      have := ih (s.val (norm v))
      rw [ctl_val] at this
      exact this

theorem pwRoundRows_ctl (norm : K → K) (colEnd : Nat) (rows : List (Row K)) (s : PwRound K) :
    ctl (pwRoundRows norm colEnd rows s).1 = (PwC.roundRows colEnd rows (ctl s)).1 ∧
      (pwRoundRows norm colEnd rows s).2 = (PwC.roundRows colEnd rows (ctl s)).2 := by
  unfold pwRoundRows PwC.roundRows
  have key : ∀ (rows : List (Row K)) (s : PwRound K) (acc : List (Row K)),
      ctl (rows.foldl (fun (acc : PwRound K × List (Row K)) r =>
          let res := pwScan norm colEnd r acc.1
          (res.1, acc.2 ++ [res.2])) (s, acc)).1
        = (rows.foldl (fun (acc : (Bool × Nat) × List (Row K)) r =>
          let res := PwC.scan colEnd r acc.1
          (res.1, acc.2 ++ [res.2])) (ctl s, acc)).1 ∧
      (rows.foldl (fun (acc : PwRound K × List (Row K)) r =>
          let res := pwScan norm colEnd r acc.1
          (res.1, acc.2 ++ [res.2])) (s, acc)).2
        = (rows.foldl (fun (acc : (Bool × Nat) × List (Row K)) r =>
          let res := PwC.scan colEnd r acc.1
          (res.1, acc.2 ++ [res.2])) (ctl s, acc)).2 := by
    intro rows
    induction rows with
    | nil => intro s acc; exact ⟨rfl, rfl⟩
    | cons r t ih =>
      intro s acc
      simp only [List.foldl_cons]
      obtain ⟨h1, h2⟩ := pwScan_ctl norm colEnd r s
      rw [h2, ← h1]
      exact ih _ _
  exact key rows s []

theorem pwWhile_length (norm : K → K) (b : Nat) (fuel : Nat) (done : Bool) (curCol : Nat) (rows : List (Row K))
    (acc : Row K) :
    (pwWhile norm b fuel done curCol rows acc).length = PwC.countWhile b fuel done curCol rows acc.length := by
  induction fuel generalizing done curCol rows acc with
  | zero => rfl
  | succ fuel ih =>
    unfold pwWhile PwC.countWhile
    cases done with
    | true => simp
    | false =>
      simp only [Bool.false_eq_true, if_false]
      obtain ⟨h1, h2⟩ := pwRoundRows_ctl norm ((curCol / b + 1) * b) rows
        { done := true, curCol := curCol / b, first := true, curVal := 0 }
      have hd : (pwRoundRows norm ((curCol / b + 1) * b) rows
          { done := true, curCol := curCol / b, first := true, curVal := 0 }).1.done
          = (PwC.roundRows ((curCol / b + 1) * b) rows (true, curCol / b)).1.1 := congrArg Prod.fst h1
      have hc : (pwRoundRows norm ((curCol / b + 1) * b) rows
          { done := true, curCol := curCol / b, first := true, curVal := 0 }).1.curCol
          = (PwC.roundRows ((curCol / b + 1) * b) rows (true, curCol / b)).1.2 := congrArg Prod.snd h1
      rw [ih, hd, hc, h2]
      simp only [List.length_append, List.length_cons, List.length_nil]
      rfl

theorem pwInit_ctl (rows : List (Row K)) : ctl (pwInit (K := K) rows) = PwC.init rows := by
  unfold pwInit PwC.init
  have key : ∀ (rows : List (Row K)) (s : PwRound K),
      ctl (rows.foldl (fun (s : PwRound K) r =>
        match r with
        | [] => s
        | (c, _) :: _ => s.see c) s)
      = rows.foldl (fun (s : Bool × Nat) r =>
        match r with
        | [] => s
        | (c, _) :: _ => PwC.see s c) (ctl s) := by
    intro rows
    induction rows with
    | nil => intro s; rfl
    | cons r t ih =>
      intro s
      simp only [List.foldl_cons]
      cases r with
      | nil => exact ih s
      | cons e r' =>
        obtain ⟨c, v⟩ := e
        simp only
        rw [ih, ctl_see]
  exact key rows _

/-- the counting pass increments `Ap.ptr[ip+1]` exactly as many times as the filling pass stores an entry -/
theorem countBlockRow_eq (norm : K → K) (b : Nat) (rows : List (Row K)) :
    PwC.countBlockRow b rows = (pwBlockRow norm b rows).length := by
  unfold PwC.countBlockRow pwBlockRow
  simp only
  rw [pwWhile_length]
  have h := pwInit_ctl (K := K) rows
  have hd : (pwInit (K := K) rows).done = (PwC.init rows).1 := congrArg Prod.fst h
  have hc : (pwInit (K := K) rows).curCol = (PwC.init rows).2 := congrArg Prod.snd h
  rw [hd, hc]
  rfl

end pw

end Defined
end Amgcl
