import Amgcl.Proofs.RSInv
import Mathlib.Data.Fintype.Card
import Mathlib.Data.Fintype.Basic
import Mathlib.Data.Fintype.EquivFin
/-!
`cfsplit`, l.346-360: the counting sort that sets up the groups of equal lambda establishes the loop invariant
(`bucketInit_inv`), provided every lambda is below `n` (otherwise the code writes behind `ptr`).
-/
namespace Amgcl
namespace RS

/-- number of `i < m` with `lam i = l` -/
def cntTo (lam : Nat → Nat) (l : Nat) : Nat → Nat
  | 0 => 0
  | m + 1 => cntTo lam l m + if lam m = l then 1 else 0

theorem cntTo_mono (lam : Nat → Nat) (l : Nat) {m m' : Nat} (h : m ≤ m') : cntTo lam l m ≤ cntTo lam l m' := by
  induction m' with
  | zero => have : m = 0 := by omega
            subst this; exact Nat.le_refl _
  | succ k ih =>
    by_cases hk : m = k + 1
    · subst hk; exact Nat.le_refl _
    · have := ih (by omega); simp only [cntTo]; omega

/-- an earlier variable of the same group has a smaller rank -/
theorem cntTo_lt (lam : Nat → Nat) {i m : Nat} (h : i < m) : cntTo lam (lam i) i < cntTo lam (lam i) m := by
  have h1 : cntTo lam (lam i) (i + 1) = cntTo lam (lam i) i + 1 := by simp [cntTo]
  have h2 := cntTo_mono lam (lam i) (show i + 1 ≤ m by omega)
  omega

theorem cntTo_zero_of_ge (lam : Nat → Nat) (n l m : Nat) (hlam : ∀ i, i < m → lam i < n) (hl : n ≤ l) :
    cntTo lam l m = 0 := by
  induction m with
  | zero => rfl
  | succ k ih =>
    simp only [cntTo]
    rw [ih (fun i hi => hlam i (by omega))]
    have := hlam k (by omega)
    rw [if_neg (by omega)]

/-- the group sizes add up to the number of variables -/
theorem pre_cntTo (lam : Nat → Nat) (n m : Nat) (hlam : ∀ i, i < m → lam i < n) :
    pre (fun l => cntTo lam l m) n = m := by
  induction m with
  | zero =>
    have : ∀ k, pre (fun l => cntTo lam l 0) k = 0 := by
      intro k; induction k with
      | zero => rfl
      | succ j ih => rw [pre_succ, ih]; rfl
    exact this n
  | succ k ih =>
    have h := pre_inc (c := fun l => cntTo lam l k) (c' := fun l => cntTo lam l (k + 1)) (a := lam k)
      (by simp [cntTo]) (fun j hj => by simp only [cntTo]; rw [if_neg (fun e => hj e.symm)]; rfl) n
    rw [h, ih (fun i hi => hlam i (by omega)), if_pos (hlam k (by omega))]

theorem pre_shift (f : Nat → Nat) (h0 : f 0 = 0) (l : Nat) : pre f (l + 1) = pre (fun k => f (k + 1)) l := by
  induction l with
  | zero => simp [pre_succ, h0]
  | succ k ih => rw [pre_succ, ih, pre_succ]

/-! ### `partial_sum` -/

private def psStep (acc : Array Nat × Nat) (v : Nat) : Array Nat × Nat := (acc.1.push (acc.2 + v), acc.2 + v)

theorem toList_eq_map_range (a : Array Nat) : a.toList = (List.range a.size).map (fun j => a.getD j 0) := by
  apply List.ext_getElem
  · simp
  · intro i h1 h2
    simp only [List.getElem_map, List.getElem_range, Array.getElem_toList]
    have hi : i < a.size := by simpa using h1
    simp [Array.getD_eq_getD_getElem?, hi]

private theorem ps_fold (f : Nat → Nat) (m : Nat) :
    ∃ st, (List.range m).foldl (fun acc j => psStep acc (f j)) (#[], 0) = st ∧
      st.2 = pre f m ∧ st.1.size = m ∧ ∀ k, k < m → st.1.getD k 0 = pre f (k + 1) := by
  induction m with
  | zero => exact ⟨_, rfl, rfl, rfl, fun k hk => by omega⟩
  | succ j ih =>
    obtain ⟨st, hst, h1, h2, h3⟩ := ih
    rw [List.range_succ, List.foldl_append, hst, List.foldl_cons, List.foldl_nil]
    refine ⟨_, rfl, ?_, ?_, ?_⟩
    · show st.2 + f j = _
      rw [h1, pre_succ]
    · show (st.1.push _).size = _
      rw [Array.size_push, h2]
    · intro k hk
      show (st.1.push (st.2 + f j)).getD k 0 = _
      simp only [Array.getD_eq_getD_getElem?, Array.getElem?_push, h2]
      by_cases hkj : k = j
      · subst hkj; simp [h1, pre_succ]
      · rw [if_neg hkj]
        have := h3 k (by omega)
        simp only [Array.getD_eq_getD_getElem?] at this
        exact this

theorem partialSumNat_spec (a : Array Nat) :
    (partialSumNat a).size = a.size ∧
    ∀ k, k < a.size → (partialSumNat a).getD k 0 = pre (fun j => a.getD j 0) (k + 1) := by
  obtain ⟨st, hst, _, h2, h3⟩ := ps_fold (fun j => a.getD j 0) a.size
  have : partialSumNat a = st.1 := by
    unfold partialSumNat
    rw [← Array.foldl_toList, toList_eq_map_range, List.foldl_map]
    exact congrArg Prod.fst hst
  rw [this]
  exact ⟨h2, h3⟩

/-! ### the histogram -/

private theorem hist_fold (lambda : Array Nat) (n : Nat) (m : Nat) (hm : m ≤ n)
    (hlam : ∀ i, i < n → lambda.getD i 0 < n) :
    ∃ p, (List.range m).foldl (fun (p : Array Nat) i => p.modify (lambda.getD i 0 + 1) (· + 1))
        (Array.replicate (n + 1) 0) = p ∧ p.size = n + 1 ∧
      ∀ k, p.getD k 0 = if k = 0 then 0 else cntTo (fun i => lambda.getD i 0) (k - 1) m := by
  induction m with
  | zero =>
    refine ⟨_, rfl, by simp, fun k => ?_⟩
    simp only [List.range_zero, List.foldl_nil, Array.getD_eq_getD_getElem?, Array.getElem?_replicate]
    split <;> split <;> rfl
  | succ j ih =>
    obtain ⟨p, hp, h1, h2⟩ := ih (by omega)
    rw [List.range_succ, List.foldl_append, hp, List.foldl_cons, List.foldl_nil]
    refine ⟨_, rfl, by rw [Array.size_modify, h1], fun k => ?_⟩
    rw [getD_modify, h1, h2 k]
    have hl := hlam j (by omega)
    by_cases hk : k = 0
    · subst hk
      rw [if_neg (by omega), if_pos rfl, if_pos rfl]
    · rw [if_neg hk, if_neg hk]
      simp only [cntTo]
      by_cases he : lambda.getD j 0 + 1 = k
      · rw [if_pos ⟨he, by omega⟩, if_pos (by omega)]
      · have : ¬ (lambda.getD j 0 + 1 = k ∧ lambda.getD j 0 + 1 < n + 1) := fun e => he e.1
        rw [if_neg this, if_neg (by omega)]; rfl

/-! ### the fill loop -/

private def fillStep (lambda ptr : Array Nat) (st : Array Nat × Array Nat × Array Nat) (i : Nat) :
    Array Nat × Array Nat × Array Nat :=
  let lam := lambda.getD i 0
  let idx := ptr.getD lam 0 + st.1.getD lam 0
  (st.1.modify lam (· + 1), st.2.1.setIfInBounds idx i, st.2.2.setIfInBounds i idx)

/-- position assigned to variable `i`: start of its group plus its rank among the earlier members -/
def posOf (lam : Nat → Nat) (n i : Nat) : Nat := pre (fun l => cntTo lam l n) (lam i) + cntTo lam (lam i) i

theorem posOf_range (lam : Nat → Nat) (n i : Nat) (hi : i < n) :
    pre (fun l => cntTo lam l n) (lam i) ≤ posOf lam n i ∧
    posOf lam n i < pre (fun l => cntTo lam l n) (lam i) + cntTo lam (lam i) n := by
  have := cntTo_lt lam hi
  unfold posOf; omega

theorem posOf_lt (lam : Nat → Nat) (n i : Nat) (hi : i < n) (hlam : ∀ i, i < n → lam i < n) : posOf lam n i < n := by
  have h1 := (posOf_range lam n i hi).2
  have h2 := pre_end_le (fun l => cntTo lam l n) (hlam i hi)
  have h3 := pre_cntTo lam n n hlam
  omega

theorem posOf_inj (lam : Nat → Nat) (n i j : Nat) (hi : i < n) (hj : j < n) (h : posOf lam n i = posOf lam n j) : i = j := by
  have ri := posOf_range lam n i hi
  have rj := posOf_range lam n j hj
  have hl : lam i = lam j := grp_unique (fun l => cntTo lam l n) ri.1 ri.2 (by rw [h]; exact rj.1) (by rw [h]; exact rj.2)
  unfold posOf at h
  rw [hl] at h
  have hc : cntTo lam (lam j) i = cntTo lam (lam j) j := by omega
  rcases Nat.lt_trichotomy i j with hlt | heq | hgt
  · have := cntTo_lt lam hlt; rw [hl] at this; omega
  · exact heq
  · have := cntTo_lt lam hgt; omega

private theorem fill_fold (lambda ptr : Array Nat) (n : Nat)
    (hlam : ∀ i, i < n → lambda.getD i 0 < n)
    (hptr : ∀ l, l ≤ n → ptr.getD l 0 = pre (fun l => cntTo (fun i => lambda.getD i 0) l n) l)
    (m : Nat) (hm : m ≤ n) :
    ∃ st, (List.range m).foldl (fillStep lambda ptr)
        (Array.replicate n 0, Array.replicate n 0, Array.replicate n 0) = st ∧
      st.1.size = n ∧ st.2.1.size = n ∧ st.2.2.size = n ∧
      (∀ l, st.1.getD l 0 = cntTo (fun i => lambda.getD i 0) l m) ∧
      (∀ i, i < m → st.2.2.getD i 0 = posOf (fun i => lambda.getD i 0) n i) ∧
      (∀ i, i < m → st.2.1.getD (posOf (fun i => lambda.getD i 0) n i) 0 = i) := by
  induction m with
  | zero =>
    refine ⟨_, rfl, by simp, by simp, by simp, fun l => ?_, fun i hi => by omega, fun i hi => by omega⟩
    simp only [List.range_zero, List.foldl_nil, Array.getD_eq_getD_getElem?, Array.getElem?_replicate]
    split <;> rfl
  | succ j ih =>
    obtain ⟨st, hst, s1, s2, s3, hc, hn, hi2⟩ := ih (by omega)
    rw [List.range_succ, List.foldl_append, hst, List.foldl_cons, List.foldl_nil]
    have hjn : j < n := by omega
    have hlj := hlam j hjn
    have hidx : ptr.getD (lambda.getD j 0) 0 + st.1.getD (lambda.getD j 0) 0 = posOf (fun i => lambda.getD i 0) n j := by
      rw [hptr _ (by omega), hc]; rfl
    have hpj := posOf_lt (fun i => lambda.getD i 0) n j hjn hlam
    refine ⟨_, rfl, ?_, ?_, ?_, ?_, ?_, ?_⟩
    · show (st.1.modify _ _).size = n
      rw [Array.size_modify, s1]
    · show (st.2.1.setIfInBounds _ _).size = n
      rw [Array.size_setIfInBounds, s2]
    · show (st.2.2.setIfInBounds _ _).size = n
      rw [Array.size_setIfInBounds, s3]
    · intro l
      show (st.1.modify (lambda.getD j 0) (· + 1)).getD l 0 = _
      rw [getD_modify, s1, hc l]
      simp only [cntTo]
      by_cases he : lambda.getD j 0 = l
      · rw [if_pos ⟨he, by omega⟩, if_pos he]
      · have : ¬ (lambda.getD j 0 = l ∧ lambda.getD j 0 < n) := fun e => he e.1
        rw [if_neg this, if_neg he]; rfl
    · intro i hi
      show (st.2.2.setIfInBounds j (ptr.getD (lambda.getD j 0) 0 + st.1.getD (lambda.getD j 0) 0)).getD i 0 = _
      rw [getD_set, s3, hidx]
      by_cases hij : j = i
      · subst hij; rw [if_pos ⟨rfl, hjn⟩]
      · have : ¬ (j = i ∧ j < n) := fun e => hij e.1
        rw [if_neg this]; exact hn i (by omega)
    · intro i hi
      show (st.2.1.setIfInBounds (ptr.getD (lambda.getD j 0) 0 + st.1.getD (lambda.getD j 0) 0) j).getD
        (posOf (fun i => lambda.getD i 0) n i) 0 = i
      rw [getD_set, s2, hidx]
      by_cases hij : i = j
      · subst hij; rw [if_pos ⟨rfl, hpj⟩]
      · have hne : posOf (fun i => lambda.getD i 0) n j ≠ posOf (fun i => lambda.getD i 0) n i :=
          fun e => hij (posOf_inj _ n i j (by omega) hjn e.symm)
        have : ¬ (posOf (fun i => lambda.getD i 0) n j = posOf (fun i => lambda.getD i 0) n i ∧
            posOf (fun i => lambda.getD i 0) n j < n) := fun e => hne e.1
        rw [if_neg this]; exact hi2 i (by omega)

/-! ### the invariant holds after the set-up -/

@[simp] theorem bucketInit_cf (cf : Array CF) (lambda : Array Nat) : (bucketInit cf lambda).cf = cf := rfl
@[simp] theorem bucketInit_lambda (cf : Array CF) (lambda : Array Nat) : (bucketInit cf lambda).lambda = lambda := rfl

theorem bucketInit_inv (cf : Array CF) (lambda : Array Nat) (n : Nat) (hcf : cf.size = n) (hl : lambda.size = n)
    (hlam : ∀ i, i < n → lambda.getD i 0 < n) : Inv n (bucketInit cf lambda) n := by
  let lam : Nat → Nat := fun i => lambda.getD i 0
  let N : Nat → Nat := fun l => cntTo lam l n
  obtain ⟨p0, hp0, p0s, p0v⟩ := hist_fold lambda n n (Nat.le_refl _) hlam
  obtain ⟨pss, psv⟩ := partialSumNat_spec p0
  have hptr : ∀ l, l ≤ n → (partialSumNat p0).getD l 0 = pre N l := by
    intro l hl'
    rw [psv l (by omega), pre_shift _ (by rw [p0v 0]; rfl)]
    apply pre_congr
    intro k _
    show p0.getD (k + 1) 0 = cntTo lam k n
    rw [p0v (k + 1), if_neg (by omega)]; rfl
  obtain ⟨st, hst, s1, s2, s3, hc, hn, hi2⟩ := fill_fold lambda (partialSumNat p0) n hlam hptr n (Nat.le_refl _)
  have hB : bucketInit cf lambda
      = { cf := cf, lambda := lambda, ptr := partialSumNat p0, cnt := st.1, i2n := st.2.1, n2i := st.2.2 } := by
    unfold bucketInit
    simp only [hl]
    rw [hp0]
    have : (List.range n).foldl (fun (st : Array Nat × Array Nat × Array Nat) i =>
        let lam := lambda.getD i 0
        let idx := (partialSumNat p0).getD lam 0 + st.1.getD lam 0
        (st.1.modify lam (· + 1), st.2.1.setIfInBounds idx i, st.2.2.setIfInBounds i idx))
        (Array.replicate n 0, Array.replicate n 0, Array.replicate n 0) = st := hst
    rw [this]
  rw [hB]
  have hCn : ∀ l, ({ cf := cf, lambda := lambda, ptr := partialSumNat p0, cnt := st.1, i2n := st.2.1, n2i := st.2.2 } : Split).Cn l
      = N l := hc
  have hCnf : ({ cf := cf, lambda := lambda, ptr := partialSumNat p0, cnt := st.1, i2n := st.2.1, n2i := st.2.2 } : Split).Cn
      = N := funext hCn
  -- the position map is a bijection of `[0, n)`
  have hsurj : ∀ p, p < n → ∃ i, i < n ∧ posOf lam n i = p := by
    by_cases hn0 : n = 0
    · intro p hp; omega
    · let f : Fin n → Fin n := fun i => ⟨posOf lam n i.val, posOf_lt lam n i.val i.isLt hlam⟩
      have finj : Function.Injective f := by
        intro a b hab
        apply Fin.ext
        exact posOf_inj lam n a.val b.val a.isLt b.isLt (congrArg Fin.val hab)
      have fsurj := Finite.surjective_of_injective finj
      intro p hp
      obtain ⟨i, hi⟩ := fsurj ⟨p, hp⟩
      exact ⟨i.val, i.isLt, congrArg Fin.val hi⟩
  exact
    { sz_cf := hcf, sz_lam := hl, sz_ptr := by show (partialSumNat p0).size = n + 1; rw [pss, p0s]
      sz_cnt := s1, sz_i2n := s2, sz_n2i := s3
      top_le := Nat.le_refl _
      perm1 := by
        intro p hp
        obtain ⟨i, hi, hpi⟩ := hsurj p hp
        have h1 : st.2.1.getD p 0 = i := by rw [← hpi]; exact hi2 i hi
        show st.2.1.getD p 0 < n ∧ st.2.2.getD (st.2.1.getD p 0) 0 = p
        rw [h1]; exact ⟨hi, by rw [hn i hi, hpi]⟩
      perm2 := by
        intro i hi
        show st.2.2.getD i 0 < n ∧ st.2.1.getD (st.2.2.getD i 0) 0 = i
        rw [hn i hi]
        exact ⟨posOf_lt lam n i hi hlam, hi2 i hi⟩
      grp := by
        intro p hp
        obtain ⟨i, hi, hpi⟩ := hsurj p hp
        have h1 : st.2.1.getD p 0 = i := by rw [← hpi]; exact hi2 i hi
        rw [hCnf]
        show pre N (lambda.getD (st.2.1.getD p 0) 0) ≤ p ∧ p < pre N (lambda.getD (st.2.1.getD p 0) 0)
          + N (lambda.getD (st.2.1.getD p 0) 0)
        rw [h1, ← hpi]
        exact posOf_range lam n i hi
      tot := by rw [hCnf]; exact pre_cntTo lam n n hlam
      ptr := by
        intro l hl' _
        rw [hCnf]
        exact hptr l (by omega)
      vis := by intro p hp hpn; omega }

end RS
end Amgcl
