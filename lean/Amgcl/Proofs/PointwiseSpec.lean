import Amgcl.Proofs.PointwiseLift
import Mathlib.Order.Lattice
import Mathlib.Order.Defs.LinearOrder
/-!
# `pointwise_matrix` on ANY matrix with sorted rows: the denotational specification (helper of `Properties/C08f.lean`)

One `while(!done)` round with `col_end = E` consumes of every scalar row the prefix with columns `< E` (`cons E r`) and leaves
the rest (`rest E r`); the values only move `first / cur_val` (`PwRound.val`), the stopping columns only `done / cur_col`
(`PwRound.see`), and the two commute, so a round has the closed form `pwRoundRows_eq`.  `pwWhile_spec` is the loop invariant:
the emitted row has strictly increasing block columns, one for every non-empty group `{(c, v) : c / b = cc}`, and its value is the
largest `norm v` of the group (an upper bound that is attained).
-/
set_option linter.unusedSectionVars false
namespace Amgcl.PW
open Amgcl Amgcl.Coarsening

section
variable {K : Type} [Zero K] [LinearOrder K]

/-! ## `std::max`, `std::min` -/
theorem le_stdMax_left (a b : K) : a ≤ stdMax a b := by
  unfold stdMax; split
  · next h => exact le_of_lt h
  · exact le_refl _
theorem le_stdMax_right (a b : K) : b ≤ stdMax a b := by
  unfold stdMax; split
  · exact le_refl _
  · next h => exact not_lt.1 h
theorem stdMax_choice (a b : K) : stdMax a b = a ∨ stdMax a b = b := by
  unfold stdMax; split
  · exact Or.inr rfl
  · exact Or.inl rfl
theorem stdMin_le_left (a b : Nat) : stdMin a b ≤ a := by unfold stdMin; split <;> omega
theorem stdMin_le_right (a b : Nat) : stdMin a b ≤ b := by unfold stdMin; split <;> omega
theorem stdMin_choice (a b : Nat) : stdMin a b = a ∨ stdMin a b = b := by unfold stdMin; split <;> simp

/-! ## the two halves of the round state -/
def valAll (vs : List K) (s : PwRound K) : PwRound K := vs.foldl PwRound.val s
def seeAll (cs : List Nat) (s : PwRound K) : PwRound K := cs.foldl PwRound.see s

theorem see_val_comm (s : PwRound K) (c : Nat) (x : K) : (s.val x).see c = (s.see c).val x := by
  cases hd : s.done <;> cases hf : s.first <;> simp [PwRound.see, PwRound.val, hd, hf]

theorem valAll_see (vs : List K) (s : PwRound K) (c : Nat) : valAll vs (s.see c) = (valAll vs s).see c := by
  induction vs generalizing s with
  | nil => rfl
  | cons v vs ih =>
    unfold valAll at ih ⊢
    rw [List.foldl_cons, List.foldl_cons, ← see_val_comm, ih]

theorem valAll_seeAll (vs : List K) (cs : List Nat) (s : PwRound K) :
    valAll vs (seeAll cs s) = seeAll cs (valAll vs s) := by
  induction cs generalizing s with
  | nil => rfl
  | cons c cs ih =>
    show valAll vs (seeAll cs (s.see c)) = seeAll cs ((valAll vs s).see c)
    rw [ih, valAll_see]

theorem valAll_append (a b : List K) (s : PwRound K) : valAll (a ++ b) s = valAll b (valAll a s) := by
  unfold valAll; rw [List.foldl_append]
theorem seeAll_append (a b : List Nat) (s : PwRound K) : seeAll (a ++ b) s = seeAll b (seeAll a s) := by
  unfold seeAll; rw [List.foldl_append]

theorem val_done (s : PwRound K) (x : K) : (s.val x).done = s.done ∧ (s.val x).curCol = s.curCol := by
  unfold PwRound.val; split <;> exact ⟨rfl, rfl⟩
theorem see_first (s : PwRound K) (c : Nat) : (s.see c).first = s.first ∧ (s.see c).curVal = s.curVal := by
  unfold PwRound.see; split <;> exact ⟨rfl, rfl⟩

theorem valAll_done (vs : List K) (s : PwRound K) : (valAll vs s).done = s.done ∧ (valAll vs s).curCol = s.curCol := by
  induction vs generalizing s with
  | nil => exact ⟨rfl, rfl⟩
  | cons v vs ih =>
    have h := ih (s.val v)
    have h2 := val_done s v
    exact ⟨h.1.trans h2.1, h.2.trans h2.2⟩

theorem seeAll_first (cs : List Nat) (s : PwRound K) :
    (seeAll cs s).first = s.first ∧ (seeAll cs s).curVal = s.curVal := by
  induction cs generalizing s with
  | nil => exact ⟨rfl, rfl⟩
  | cons c cs ih =>
    have h := ih (s.see c)
    have h2 := see_first s c
    exact ⟨h.1.trans h2.1, h.2.trans h2.2⟩

/-- values folded into a state that already holds one -/
theorem valAll_false (vs : List K) (s : PwRound K) (hf : s.first = false) :
    (valAll vs s).first = false ∧ s.curVal ≤ (valAll vs s).curVal ∧ (∀ v ∈ vs, v ≤ (valAll vs s).curVal) ∧
      ((valAll vs s).curVal = s.curVal ∨ (valAll vs s).curVal ∈ vs) := by
  induction vs generalizing s with
  | nil => exact ⟨hf, le_refl _, (fun v hv => by cases hv), Or.inl rfl⟩
  | cons v vs ih =>
    have hs' : (s.val v).first = false ∧ (s.val v).curVal = stdMax s.curVal v := by
      unfold PwRound.val; rw [if_neg (by simp [hf])]; exact ⟨hf, rfl⟩
    obtain ⟨h1, h2, h3, h4⟩ := ih (s.val v) hs'.1
    rw [hs'.2] at h2 h4
    refine ⟨h1, le_trans (le_stdMax_left _ _) h2, ?_, ?_⟩
    · intro w hw
      rcases List.mem_cons.1 hw with rfl | hw
      · exact le_trans (le_stdMax_right _ _) h2
      · exact h3 w hw
    · rcases h4 with h4 | h4
      · rcases stdMax_choice s.curVal v with h5 | h5
        · exact Or.inl (h4.trans h5)
        · exact Or.inr (List.mem_cons.2 (Or.inl (h4.trans h5)))
      · exact Or.inr (List.mem_cons_of_mem _ h4)

/-- values folded into a fresh state (`first = true`): the result is the largest of them -/
theorem valAll_true (vs : List K) (s : PwRound K) (hf : s.first = true) (hne : vs ≠ []) :
    (∀ v ∈ vs, v ≤ (valAll vs s).curVal) ∧ (valAll vs s).curVal ∈ vs := by
  cases vs with
  | nil => exact absurd rfl hne
  | cons v vs =>
    have hs' : (s.val v).first = false ∧ (s.val v).curVal = v := by
      unfold PwRound.val; rw [if_pos hf]; exact ⟨rfl, rfl⟩
    obtain ⟨_, h2, h3, h4⟩ := valAll_false vs (s.val v) hs'.1
    rw [hs'.2] at h2 h4
    refine ⟨?_, ?_⟩
    · intro w hw
      rcases List.mem_cons.1 hw with rfl | hw
      · exact h2
      · exact h3 w hw
    · rcases h4 with h4 | h4
      · exact List.mem_cons.2 (Or.inl h4)
      · exact List.mem_cons_of_mem _ h4

theorem seeAll_false (cs : List Nat) (s : PwRound K) (hd : s.done = false) :
    (seeAll cs s).done = false ∧ (seeAll cs s).curCol ≤ s.curCol ∧ (∀ c ∈ cs, (seeAll cs s).curCol ≤ c) ∧
      ((seeAll cs s).curCol = s.curCol ∨ (seeAll cs s).curCol ∈ cs) := by
  induction cs generalizing s with
  | nil => exact ⟨hd, le_refl _, (fun c hc => by cases hc), Or.inl rfl⟩
  | cons c cs ih =>
    have hs' : (s.see c).done = false ∧ (s.see c).curCol = stdMin s.curCol c := by
      unfold PwRound.see; rw [if_neg (by simp [hd])]; exact ⟨hd, rfl⟩
    obtain ⟨h1, h2, h3, h4⟩ := ih (s.see c) hs'.1
    rw [hs'.2] at h2 h4
    refine ⟨h1, le_trans h2 (stdMin_le_left _ _), ?_, ?_⟩
    · intro w hw
      rcases List.mem_cons.1 hw with rfl | hw
      · exact le_trans h2 (stdMin_le_right _ _)
      · exact h3 w hw
    · rcases h4 with h4 | h4
      · rcases stdMin_choice s.curCol c with h5 | h5
        · exact Or.inl (h4.trans h5)
        · exact Or.inr (List.mem_cons.2 (Or.inl (h4.trans h5)))
      · exact Or.inr (List.mem_cons_of_mem _ h4)

theorem seeAll_true (cs : List Nat) (s : PwRound K) (hd : s.done = true) :
    (cs = [] → (seeAll cs s).done = true) ∧
    (cs ≠ [] → (seeAll cs s).done = false ∧ (∀ c ∈ cs, (seeAll cs s).curCol ≤ c) ∧ (seeAll cs s).curCol ∈ cs) := by
  cases cs with
  | nil => exact ⟨fun _ => hd, fun h => absurd rfl h⟩
  | cons c cs =>
    refine ⟨(fun h => by cases h), fun _ => ?_⟩
    have hs' : (s.see c).done = false ∧ (s.see c).curCol = c := by
      unfold PwRound.see; rw [if_pos hd]; exact ⟨rfl, rfl⟩
    obtain ⟨h1, h2, h3, h4⟩ := seeAll_false cs (s.see c) hs'.1
    rw [hs'.2] at h2 h4
    refine ⟨h1, ?_, ?_⟩
    · intro w hw
      rcases List.mem_cons.1 hw with rfl | hw
      · exact h2
      · exact h3 w hw
    · rcases h4 with h4 | h4
      · exact List.mem_cons.2 (Or.inl h4)
      · exact List.mem_cons_of_mem _ h4

/-! ## one scan, one round -/
/-- what a round consumes of a scalar row / leaves of it -/
def cons (E : Nat) (r : Row K) : Row K := r.takeWhile (fun cv => decide (cv.1 < E))
def rest (E : Nat) (r : Row K) : Row K := r.dropWhile (fun cv => decide (cv.1 < E))
/-- the column a non-empty row starts with -/
def hd (r : Row K) : List Nat := match r with | [] => [] | cv :: _ => [cv.1]

theorem cons_append_rest (E : Nat) (r : Row K) : cons E r ++ rest E r = r := List.takeWhile_append_dropWhile

theorem pwScan_eq (norm : K → K) (E : Nat) (r : Row K) (s : PwRound K) :
    pwScan norm E r s = (seeAll (hd (rest E r)) (valAll ((cons E r).map (fun cv => norm cv.2)) s), rest E r) := by
  induction r generalizing s with
  | nil => rfl
  | cons cv t ih =>
    obtain ⟨c, v⟩ := cv
    unfold pwScan
    by_cases h : c ≥ E
    · have h' : ¬ c < E := Nat.not_lt.2 h
      rw [if_pos h]
      simp [cons, rest, hd, h', seeAll, valAll]
    · have h' : c < E := Nat.lt_of_not_ge h
      rw [if_neg h, ih]
      simp [cons, rest, h', valAll]

theorem pwRoundRows_eq (norm : K → K) (E : Nat) (rows : List (Row K)) (s : PwRound K) :
    pwRoundRows norm E rows s =
      (seeAll (rows.flatMap (fun r => hd (rest E r)))
         (valAll ((rows.flatMap (cons E)).map (fun cv => norm cv.2)) s), rows.map (rest E)) := by
  unfold pwRoundRows
  simp only [pwScan_eq]
  have : ∀ (rows : List (Row K)) (s : PwRound K) (acc : List (Row K)),
      rows.foldl (fun (acc : PwRound K × List (Row K)) r =>
        (seeAll (hd (rest E r)) (valAll ((cons E r).map (fun cv => norm cv.2)) acc.1), acc.2 ++ [rest E r])) (s, acc)
      = (seeAll (rows.flatMap (fun r => hd (rest E r)))
           (valAll ((rows.flatMap (cons E)).map (fun cv => norm cv.2)) s), acc ++ rows.map (rest E)) := by
    intro rows
    induction rows with
    | nil => intro s acc; simp [seeAll, valAll]
    | cons r rs ih =>
      intro s acc
      rw [List.foldl_cons, ih]
      simp only [List.flatMap_cons, List.map_append, valAll_append, seeAll_append, List.map_cons, List.append_assoc,
        List.singleton_append, valAll_seeAll]
  rw [this]; simp

/-! ## sorted rows -/
theorem mem_cons_iff (E : Nat) (r : Row K) (hs : RowSortedP r) (cv : Nat × K) :
    cv ∈ cons E r ↔ cv ∈ r ∧ cv.1 < E := by
  induction r with
  | nil => simp [cons]
  | cons a t ih =>
    by_cases h : a.1 < E
    · have : cons E (a :: t) = a :: cons E t := by simp [cons, h]
      rw [this, List.mem_cons, List.mem_cons, ih (sorted_tail hs)]
      constructor
      · rintro (rfl | ⟨h1, h2⟩)
        · exact ⟨Or.inl rfl, h⟩
        · exact ⟨Or.inr h1, h2⟩
      · rintro ⟨rfl | h1, h2⟩
        · exact Or.inl rfl
        · exact Or.inr ⟨h1, h2⟩
    · have : cons E (a :: t) = [] := by simp [cons, h]
      rw [this]
      constructor
      · intro h'; cases h'
      · rintro ⟨h1, h2⟩
        rcases List.mem_cons.1 h1 with rfl | h1
        · exact absurd h2 h
        · have := sorted_head_lt hs cv h1
          omega

theorem mem_rest_iff (E : Nat) (r : Row K) (hs : RowSortedP r) (cv : Nat × K) :
    cv ∈ rest E r ↔ cv ∈ r ∧ E ≤ cv.1 := by
  induction r with
  | nil => simp [rest]
  | cons a t ih =>
    by_cases h : a.1 < E
    · have : rest E (a :: t) = rest E t := by simp [rest, h]
      rw [this, ih (sorted_tail hs), List.mem_cons]
      constructor
      · rintro ⟨h1, h2⟩; exact ⟨Or.inr h1, h2⟩
      · rintro ⟨rfl | h1, h2⟩
        · omega
        · exact ⟨h1, h2⟩
    · have : rest E (a :: t) = a :: t := by simp [rest, h]
      rw [this]
      constructor
      · intro h1
        refine ⟨h1, ?_⟩
        rcases List.mem_cons.1 h1 with rfl | h1
        · omega
        · have := sorted_head_lt hs cv h1
          omega
      · exact fun h1 => h1.1

theorem rest_sorted (E : Nat) (r : Row K) (hs : RowSortedP r) : RowSortedP (rest E r) := by
  induction r with
  | nil => simpa [rest] using hs
  | cons a t ih =>
    by_cases h : a.1 < E
    · have : rest E (a :: t) = rest E t := by simp [rest, h]
      rw [this]; exact ih (sorted_tail hs)
    · have : rest E (a :: t) = a :: t := by simp [rest, h]
      rw [this]; exact hs

theorem hd_le (r : Row K) (hs : RowSortedP r) : ∀ c ∈ hd r, ∀ cv ∈ r, c ≤ cv.1 := by
  cases r with
  | nil => intro c hc; cases hc
  | cons a t =>
    intro c hc cv hcv
    have : c = a.1 := by simpa [hd] using hc
    subst this
    rcases List.mem_cons.1 hcv with rfl | hcv
    · exact le_refl _
    · exact le_of_lt (sorted_head_lt hs cv hcv)

theorem hd_mem (r : Row K) : ∀ c ∈ hd r, ∃ cv ∈ r, cv.1 = c := by
  cases r with
  | nil => intro c hc; cases hc
  | cons a t =>
    intro c hc
    simp [hd] at hc
    exact ⟨a, List.mem_cons_self, hc.symm⟩

theorem hd_nil_iff (r : Row K) : hd r = [] ↔ r = [] := by
  cases r <;> simp [hd]

theorem sorted_cons_of (a : Nat × K) (L : Row K) (hL : RowSortedP L) (h : ∀ cv ∈ L, a.1 < cv.1) : RowSortedP (a :: L) := by
  cases L with
  | nil => trivial
  | cons b t => exact ⟨h b List.mem_cons_self, hL⟩

/-! ## the specification of an emitted block row -/
structure Spec (norm : K → K) (b : Nat) (ents L : Row K) : Prop where
  sorted : RowSortedP L
  cols : ∀ cc, (∃ val, (cc, val) ∈ L) ↔ ∃ cv ∈ ents, cv.1 / b = cc
  vals : ∀ cc val, (cc, val) ∈ L →
    (∀ cv ∈ ents, cv.1 / b = cc → norm cv.2 ≤ val) ∧ ∃ cv ∈ ents, cv.1 / b = cc ∧ norm cv.2 = val

theorem flatten_len (rows : List (Row K)) (n0 : Nat) :
    rows.foldl (fun n r => n + r.length) n0 = n0 + rows.flatten.length := by
  induction rows generalizing n0 with
  | nil => simp
  | cons r rs ih => rw [List.foldl_cons, ih, List.flatten_cons, List.length_append]; omega

theorem len_split (E : Nat) (rows : List (Row K)) :
    (rows.flatMap (cons E)).length + (rows.map (rest E)).flatten.length = rows.flatten.length := by
  induction rows with
  | nil => simp
  | cons r rs ih =>
    simp only [List.flatMap_cons, List.map_cons, List.flatten_cons, List.length_append]
    have := congrArg List.length (cons_append_rest E r)
    rw [List.length_append] at this
    omega

theorem pwWhile_spec (norm : K → K) (b : Nat) (hb : 0 < b) :
    ∀ (fuel : Nat) (rows : List (Row K)) (done : Bool) (curCol : Nat) (acc : Row K),
      (∀ r ∈ rows, RowSortedP r) →
      (done = true → rows.flatten = []) →
      (done = false → (∃ cv ∈ rows.flatten, cv.1 = curCol) ∧ ∀ cv ∈ rows.flatten, curCol ≤ cv.1) →
      rows.flatten.length < fuel →
      ∃ L, pwWhile norm b fuel done curCol rows acc = acc ++ L ∧ Spec norm b rows.flatten L := by
  intro fuel
  induction fuel with
  | zero => intro rows done curCol acc _ _ _ hf; omega
  | succ fuel ih =>
    intro rows done curCol acc hs hdone hmin hfuel
    unfold pwWhile
    cases hd0 : done with
    | true =>
      refine ⟨[], by simp, ?_⟩
      rw [hdone hd0]
      exact ⟨trivial, fun cc => by simp, fun cc val h => by cases h⟩
    | false =>
      simp only [Bool.false_eq_true, if_false]
      obtain ⟨⟨cv0, hcv0, hcv0c⟩, hle⟩ := hmin hd0
      -- notation
      have hE : ∀ cv ∈ rows.flatten, (cv.1 < (curCol / b + 1) * b ↔ cv.1 / b = curCol / b) := by
        intro cv hcv
        have h1 : curCol / b ≤ cv.1 / b := Nat.div_le_div_right (hle cv hcv)
        rw [← Nat.div_lt_iff_lt_mul hb]
        omega
      rw [pwRoundRows_eq]
      simp only
      -- consumed / remaining entries
      have hmemC : ∀ cv, cv ∈ rows.flatMap (cons ((curCol / b + 1) * b)) ↔
          cv ∈ rows.flatten ∧ cv.1 < (curCol / b + 1) * b := by
        intro cv
        simp only [List.mem_flatMap, List.mem_flatten]
        constructor
        · rintro ⟨r, hr, h⟩
          have := (mem_cons_iff _ r (hs r hr) cv).1 h
          exact ⟨⟨r, hr, this.1⟩, this.2⟩
        · rintro ⟨⟨r, hr, h⟩, h2⟩
          exact ⟨r, hr, (mem_cons_iff _ r (hs r hr) cv).2 ⟨h, h2⟩⟩
      have hmemR : ∀ cv, cv ∈ (rows.map (rest ((curCol / b + 1) * b))).flatten ↔
          cv ∈ rows.flatten ∧ (curCol / b + 1) * b ≤ cv.1 := by
        intro cv
        simp only [List.mem_flatten, List.mem_map]
        constructor
        · rintro ⟨r', ⟨r, hr, rfl⟩, h⟩
          have := (mem_rest_iff _ r (hs r hr) cv).1 h
          exact ⟨⟨r, hr, this.1⟩, this.2⟩
        · rintro ⟨⟨r, hr, h⟩, h2⟩
          exact ⟨_, ⟨r, hr, rfl⟩, (mem_rest_iff _ r (hs r hr) cv).2 ⟨h, h2⟩⟩
      have hcv0C : cv0 ∈ rows.flatMap (cons ((curCol / b + 1) * b)) :=
        (hmemC cv0).2 ⟨hcv0, (hE cv0 hcv0).2 (by rw [hcv0c])⟩
      -- the state after the round
      let s0 : PwRound K := { done := true, curCol := curCol / b, first := true, curVal := 0 }
      let vs := (rows.flatMap (cons ((curCol / b + 1) * b))).map (fun cv => norm cv.2)
      let hs' := rows.flatMap (fun r => hd (rest ((curCol / b + 1) * b) r))
      have hvne : vs ≠ [] := by
        intro h
        have := congrArg List.length h
        simp only [vs, List.length_map, List.length_nil] at this
        exact absurd (List.length_pos_of_mem hcv0C) (by omega)
      obtain ⟨hub, hatt⟩ := valAll_true vs s0 rfl hvne
      have hvd := valAll_done vs s0
      have hsf := seeAll_first hs' (valAll vs s0)
      have hst := seeAll_true hs' (valAll vs s0) (hvd.1.trans rfl)
      -- apply the induction hypothesis
      have hsR : ∀ r ∈ rows.map (rest ((curCol / b + 1) * b)), RowSortedP r := by
        intro r' hr'
        obtain ⟨r, hr, rfl⟩ := List.mem_map.1 hr'
        exact rest_sorted _ r (hs r hr)
      have hhs_nil : hs' = [] ↔ (rows.map (rest ((curCol / b + 1) * b))).flatten = [] := by
        simp only [hs', List.flatMap_eq_nil_iff, List.flatten_eq_nil_iff, List.mem_map]
        constructor
        · rintro h r' ⟨r, hr, rfl⟩
          exact (hd_nil_iff _).1 (h r hr)
        · intro h r hr
          exact (hd_nil_iff _).2 (h _ ⟨r, hr, rfl⟩)
      have hlen : (rows.map (rest ((curCol / b + 1) * b))).flatten.length < fuel := by
        have := len_split ((curCol / b + 1) * b) rows
        have := List.length_pos_of_mem hcv0C
        omega
      obtain ⟨L', hL', hSpec'⟩ := ih (rows.map (rest ((curCol / b + 1) * b))) (seeAll hs' (valAll vs s0)).done
        (seeAll hs' (valAll vs s0)).curCol (acc ++ [(curCol / b, (seeAll hs' (valAll vs s0)).curVal)]) hsR
        (by
          intro hd1
          by_cases hn : hs' = []
          · exact hhs_nil.1 hn
          · rw [(hst.2 hn).1] at hd1; cases hd1)
        (by
          intro hd1
          have hn : hs' ≠ [] := by
            intro hn; rw [hst.1 hn] at hd1; cases hd1
          obtain ⟨_, hmin', hmem'⟩ := hst.2 hn
          obtain ⟨r, hr, hc⟩ := List.mem_flatMap.1 hmem'
          obtain ⟨cv, hcv, hcvc⟩ := hd_mem _ _ hc
          refine ⟨⟨cv, List.mem_flatten.2 ⟨_, List.mem_map.2 ⟨r, hr, rfl⟩, hcv⟩, hcvc⟩, ?_⟩
          intro cv' hcv'
          obtain ⟨r', hr', hcv'r⟩ := List.mem_flatten.1 hcv'
          obtain ⟨r2, hr2, rfl⟩ := List.mem_map.1 hr'
          cases hrest : rest ((curCol / b + 1) * b) r2 with
          | nil => rw [hrest] at hcv'r; cases hcv'r
          | cons a t =>
            have ha : a.1 ∈ hs' := List.mem_flatMap.2 ⟨r2, hr2, by rw [hrest]; simp [hd]⟩
            have h1 := hmin' a.1 ha
            have h2 := hd_le _ (rest_sorted _ r2 (hs r2 hr2)) a.1 (by rw [hrest]; simp [hd]) cv' hcv'r
            omega)
        hlen
      refine ⟨(curCol / b, (seeAll hs' (valAll vs s0)).curVal) :: L', ?_, ?_⟩
      · rw [hL']; simp
      · rw [hsf.2]
        -- every column of L' belongs to a remaining entry, hence is > curCol / b
        have hL'col : ∀ cvL ∈ L', curCol / b < cvL.1 := by
          intro cvL hcvL
          obtain ⟨cv, hcv, hcvc⟩ := (hSpec'.cols cvL.1).1 ⟨cvL.2, hcvL⟩
          have := ((hmemR cv).1 hcv).2
          have h2 : curCol / b + 1 ≤ cv.1 / b := (Nat.le_div_iff_mul_le hb).2 this
          omega
        refine ⟨sorted_cons_of _ _ hSpec'.sorted hL'col, ?_, ?_⟩
        · intro cc
          constructor
          · rintro ⟨val, hval⟩
            rcases List.mem_cons.1 hval with h | h
            · have : cc = curCol / b := (Prod.mk.inj h).1
              exact ⟨cv0, hcv0, by rw [this, hcv0c]⟩
            · obtain ⟨cv, hcv, hcvc⟩ := (hSpec'.cols cc).1 ⟨val, h⟩
              exact ⟨cv, ((hmemR cv).1 hcv).1, hcvc⟩
          · rintro ⟨cv, hcv, hcvc⟩
            by_cases hlt : cv.1 < (curCol / b + 1) * b
            · have := (hE cv hcv).1 hlt
              exact ⟨_, List.mem_cons.2 (Or.inl (by rw [← hcvc, this]))⟩
            · obtain ⟨val, hval⟩ := (hSpec'.cols cc).2 ⟨cv, (hmemR cv).2 ⟨hcv, Nat.le_of_not_lt hlt⟩, hcvc⟩
              exact ⟨val, List.mem_cons_of_mem _ hval⟩
        · intro cc val hval
          rcases List.mem_cons.1 hval with h | h
          · obtain ⟨hcc, hv⟩ := Prod.mk.inj h
            subst hcc; subst hv
            constructor
            · intro cv hcv hcvc
              exact hub _ (List.mem_map.2 ⟨cv, (hmemC cv).2 ⟨hcv, (hE cv hcv).2 hcvc⟩, rfl⟩)
            · obtain ⟨cv, hcv, hcvv⟩ := List.mem_map.1 hatt
              have := (hmemC cv).1 hcv
              exact ⟨cv, this.1, (hE cv this.1).1 this.2, hcvv⟩
          · obtain ⟨h1, cv, hcv, hcvc, hcvv⟩ := hSpec'.vals cc val h
            have hgt := hL'col _ h
            constructor
            · intro cv' hcv' hcvc'
              refine h1 cv' ((hmemR cv').2 ⟨hcv', ?_⟩) hcvc'
              by_contra hlt
              have := (hE cv' hcv').1 (Nat.lt_of_not_le hlt)
              simp only at hgt
              omega
            · exact ⟨cv, ((hmemR cv).1 hcv).1, hcvc, hcvv⟩

/-- the start of a block row: `pwInit` looks at the first column of every non-empty scalar row -/
theorem pwInit_eq_seeAll (rows : List (Row K)) :
    pwInit rows = seeAll (rows.flatMap hd) ({ done := true, curCol := 0, first := true, curVal := 0 } : PwRound K) := by
  unfold pwInit
  have : ∀ (rows : List (Row K)) (s : PwRound K),
      rows.foldl (fun (s : PwRound K) r => match r with | [] => s | (c, _) :: _ => s.see c) s
        = seeAll (rows.flatMap hd) s := by
    intro rows
    induction rows with
    | nil => intro s; rfl
    | cons r rs ih =>
      intro s
      rw [List.foldl_cons, ih, List.flatMap_cons, seeAll_append]
      cases r with
      | nil => rfl
      | cons a t => rfl
  exact this rows _

/-- **one block row**: sorted scalar rows give a block row with strictly increasing block columns, one per non-empty group,
valued with the largest `norm` of the group -/
theorem pwBlockRow_spec (norm : K → K) (b : Nat) (hb : 0 < b) (rows : List (Row K)) (hs : ∀ r ∈ rows, RowSortedP r) :
    Spec norm b rows.flatten (pwBlockRow norm b rows) := by
  unfold pwBlockRow
  simp only
  rw [pwInit_eq_seeAll]
  have hst := seeAll_true (rows.flatMap hd) ({ done := true, curCol := 0, first := true, curVal := 0 } : PwRound K) rfl
  have hnil : rows.flatMap hd = [] ↔ rows.flatten = [] := by
    simp only [List.flatMap_eq_nil_iff, List.flatten_eq_nil_iff]
    exact ⟨fun h r hr => (hd_nil_iff r).1 (h r hr), fun h r hr => (hd_nil_iff r).2 (h r hr)⟩
  obtain ⟨L, hL, hSpec⟩ := pwWhile_spec norm b hb (rows.foldl (fun n r => n + r.length) 0 + 1) rows
    (seeAll (rows.flatMap hd) ({ done := true, curCol := 0, first := true, curVal := 0 } : PwRound K)).done
    (seeAll (rows.flatMap hd) ({ done := true, curCol := 0, first := true, curVal := 0 } : PwRound K)).curCol [] hs
    (by
      intro hd1
      by_cases hn : rows.flatMap hd = []
      · exact hnil.1 hn
      · rw [(hst.2 hn).1] at hd1; cases hd1)
    (by
      intro hd1
      have hn : rows.flatMap hd ≠ [] := by
        intro hn; rw [hst.1 hn] at hd1; cases hd1
      obtain ⟨_, hmin', hmem'⟩ := hst.2 hn
      obtain ⟨r, hr, hc⟩ := List.mem_flatMap.1 hmem'
      obtain ⟨cv, hcv, hcvc⟩ := hd_mem _ _ hc
      refine ⟨⟨cv, List.mem_flatten.2 ⟨r, hr, hcv⟩, hcvc⟩, ?_⟩
      intro cv' hcv'
      obtain ⟨r', hr', hcv'r⟩ := List.mem_flatten.1 hcv'
      cases hr'' : r' with
      | nil => rw [hr''] at hcv'r; cases hcv'r
      | cons a t =>
        have ha : a.1 ∈ rows.flatMap hd := List.mem_flatMap.2 ⟨r', hr', by rw [hr'']; simp [hd]⟩
        have h1 := hmin' a.1 ha
        have h2 := hd_le r' (hs r' hr') a.1 (by rw [hr'']; simp [hd]) cv' hcv'r
        omega)
    (by rw [flatten_len]; omega)
  rw [hL]
  simpa using hSpec

end

end Amgcl.PW
