import Amgcl.Model.SolverCommon2
import Amgcl.Proofs.Lockstep
/-!
Loop lemmas shared by the proofs `… prog = Solver.….run` (C12): the `while` of the instruction set against the
loops `loopN` / `loopE` / `doWhile` of the statement-by-statement solver models.
-/
namespace Amgcl.Lockstep
open Amgcl Amgcl.Solver

/-- `loopN` of the solver models and `iter` of the instruction set preserve a correspondence that the guard
respects and the body preserves -/
theorem iter_rel {τs τm : Type} (Rl : τs → τm → Prop) (cs : τs → Bool) (cm : τm → Bool) (bs : τs → τs) (bm : τm → τm)
    (hc : ∀ a b, Rl a b → cm b = cs a) (hb : ∀ a b, Rl a b → cs a = true → Rl (bs a) (bm b)) :
    ∀ fuel a b, Rl a b → Rl (loopN cs bs fuel a) (iter cm bm fuel b) := by
  intro fuel
  induction fuel with
  | zero => intro a b h; exact h
  | succ n ih =>
    intro a b h
    unfold loopN iter
    rw [hc a b h]
    by_cases hcs : cs a = true
    · simp only [hcs, if_true]; exact ih _ _ (hb a b h hcs)
    · simp only [hcs]; exact h

/-- the result of a loop body that may throw, as an outcome-so-far (`none` = no exception) -/
def passOf {ε τ : Type} (r : Except (ε × τ) τ) : Option ε × τ :=
  match r with
  | .error (e, a) => (some e, a)
  | .ok a => (none, a)

/-- a loop whose body may throw (`loopE`), against a `while` whose guard also tests the exception flag: `Rl (e?, a) b`
relates the model outcome so far (`none` = still running) to the machine state -/
theorem iterE_rel {τs τm ε : Type} (Rl : Option ε × τs → τm → Prop) (cs : τs → Bool) (cm : τm → Bool)
    (bs : τs → Except (ε × τs) τs) (bm : τm → τm)
    (hc : ∀ a b, Rl (none, a) b → cm b = cs a)
    (hcE : ∀ e a b, Rl (some e, a) b → cm b = false)
    (hb : ∀ a b, Rl (none, a) b → cs a = true →
      Rl (passOf (bs a)) (bm b)) :
    ∀ fuel a b, Rl (none, a) b → Rl (loopE cs bs fuel a) (iter cm bm fuel b) := by
  intro fuel
  induction fuel with
  | zero => intro a b h; exact h
  | succ n ih =>
    intro a b h
    unfold loopE iter
    rw [hc a b h]
    by_cases hcs : cs a = true
    · simp only [hcs, if_true]
      have hb' := hb a b h hcs
      cases hbs : bs a with
      | error ea =>
        obtain ⟨e, a'⟩ := ea
        rw [hbs] at hb'
        simp only [passOf] at hb' ⊢
        -- the flag is set: the `while` stops
        cases n with
        | zero => exact hb'
        | succ m => unfold iter; rw [hcE e a' _ hb']; simpa using hb'
      | ok a' =>
        rw [hbs] at hb'
        exact ih _ _ hb'
    · simp only [hcs]; exact h

end Amgcl.Lockstep
