import Amgcl.Proofs.StaticMatrix
/-!
(Copy of the `arith` section of `Proofs/StaticMatrix.lean` over a NON-COMMUTATIVE entry ring.)  Every `static_matrix`
operation denotes the Mathlib `Matrix` operation over any ring `K`; the only statement that changes is the scalar
multiple: `operator*=(scalar)` multiplies the entries from the right.
-/
namespace Amgcl
open Finset
namespace SMatNC
open SMat
variable {K : Type}
section arith
variable [Ring K]


theorem get1_ofFn {n : Nat} (f : Fin n → K) {i : Nat} (h : i < n) :
    (Array.ofFn f).getD i 0 = f ⟨i, h⟩ := getD_ofFn' f i 0 h

theorem toMatrix_add {N M : Nat} (a b : SMat K N M) : toMatrix (a + b) = toMatrix a + toMatrix b := by
  ext i j
  show (add a b).get i.val j.val = a.get i.val j.val + b.get i.val j.val
  unfold add SMat.get
  rw [getD_ofFn' _ _ _ (idx_lt i.isLt j.isLt)]; rfl

theorem toMatrix_sub {N M : Nat} (a b : SMat K N M) : toMatrix (a - b) = toMatrix a - toMatrix b := by
  ext i j
  show (sub a b).get i.val j.val = a.get i.val j.val - b.get i.val j.val
  unfold sub SMat.get
  rw [getD_ofFn' _ _ _ (idx_lt i.isLt j.isLt)]; rfl

theorem toMatrix_neg {N M : Nat} (a : SMat K N M) : toMatrix (-a) = - toMatrix a := by
  ext i j
  show (neg a).get i.val j.val = - a.get i.val j.val
  unfold neg SMat.get
  rw [getD_ofFn' _ _ _ (idx_lt i.isLt j.isLt)]; rfl

/-- `operator*=(scalar)` multiplies every entry by the scalar FROM THE RIGHT (`buf[i] * c`): over a non-commutative
entry ring this is the right scaling, not `c • a` -/
theorem toMatrix_smul {N M : Nat} (c : K) (a : SMat K N M) : toMatrix (smul c a) = (toMatrix a).map (· * c) := by
  ext i j
  show (smul c a).get i.val j.val = a.get i.val j.val * c
  unfold smul SMat.get
  rw [getD_ofFn' _ _ _ (idx_lt i.isLt j.isLt)]
  rfl

theorem toMatrix_zero {N M : Nat} : toMatrix (0 : SMat K N M) = 0 := by
  ext i j
  show (zero : SMat K N M).get i.val j.val = 0
  unfold zero SMat.get
  rw [getD_ofFn' _ _ _ (idx_lt i.isLt j.isLt)]

theorem toMatrix_const {N M : Nat} (c : K) : toMatrix (const c : SMat K N M) = fun _ _ => c := by
  ext i j
  show (const c : SMat K N M).get i.val j.val = c
  unfold const SMat.get
  rw [getD_ofFn' _ _ _ (idx_lt i.isLt j.isLt)]

theorem toMatrix_identity {N : Nat} : toMatrix (identity : SMat K N N) = 1 := by
  ext i j
  show (identity : SMat K N N).get i.val j.val = _
  unfold identity
  rw [get_ofFn _ i.isLt j.isLt, Matrix.one_apply]
  simp [Fin.ext_iff]

theorem get_mul {N P M : Nat} (a : SMat K N P) (b : SMat K P M) {i j : Nat} (hi : i < N) (hj : j < M) :
    (mul a b).get i j = ∑ k ∈ range P, a.get i k * b.get k j := by
  unfold mul
  rw [get_ofFn _ hi hj, foldl_add_eq_sum]; simp

theorem toMatrix_mul {N P M : Nat} (a : SMat K N P) (b : SMat K P M) :
    toMatrix (a * b) = toMatrix a * toMatrix b := by
  ext i j
  show (mul a b).get i.val j.val = _
  rw [get_mul a b i.isLt j.isLt, Matrix.mul_apply]
  exact (Fin.sum_univ_eq_sum_range (fun k => a.get i.val k * b.get k j.val) P).symm

theorem toMatrix_adjoint {N M : Nat} (conj : K → K) (a : SMat K N M) :
    toMatrix (adjoint conj a) = (toMatrix a).transpose.map conj := by
  ext i j
  show (adjoint conj a).get i.val j.val = _
  unfold adjoint
  rw [get_ofFn _ i.isLt j.isLt]; rfl

theorem toMatrix_transpose {N M : Nat} (a : SMat K N M) : toMatrix (transpose a) = (toMatrix a).transpose := by
  unfold transpose; rw [toMatrix_adjoint]; ext i j; rfl

theorem innerVec_eq {N : Nat} (conj : K → K) (x y : SMat K N 1) :
    innerVec conj x y = ∑ i : Fin N, toMatrix x i 0 * conj (toMatrix y i 0) := by
  unfold innerVec
  rw [foldl_add_eq_sum, zero_add, ← Fin.sum_univ_eq_sum_range (fun i => x.get1 i * conj (y.get1 i))]
  apply Finset.sum_congr rfl; intro i _
  simp [toMatrix, SMat.get, get1]

theorem toMatrix_innerMat {N M : Nat} (x y : SMat K N M) :
    toMatrix (innerMat id x y) = (toMatrix x).transpose * toMatrix y := by
  ext i j
  show (innerMat id x y).get i.val j.val = _
  unfold innerMat
  rw [get_ofFn _ i.isLt j.isLt, foldl_add_eq_sum, zero_add, Matrix.mul_apply]
  exact (Fin.sum_univ_eq_sum_range (fun k => x.get k i.val * y.get k j.val) N).symm

theorem normSq_eq {N M : Nat} (x : SMat K N M) :
    normSq id x = ∑ i : Fin N, ∑ j : Fin M, toMatrix x i j * toMatrix x i j := by
  unfold normSq
  rw [foldl_add_eq_sum, zero_add]
  simp only [toMatrix, SMat.get, id]
  rw [← Fin.sum_univ_eq_sum_range (fun i => x.get1 i * x.get1 i) (N * M)]
  rw [← Finset.sum_product', Finset.univ_product_univ]
  symm
  apply Fintype.sum_equiv finProdFinEquiv
  intro p
  simp only [finProdFinEquiv_apply_val, get1]
  have : (p.2 : Nat) + M * p.1 = p.1 * M + p.2 := by rw [Nat.mul_comm]; omega
  rw [this]

theorem wf_add {N M : Nat} (a b : SMat K N M) : (a + b).WF := by show (add a b).WF; simp [WF, add]
theorem wf_sub {N M : Nat} (a b : SMat K N M) : (a - b).WF := by show (sub a b).WF; simp [WF, sub]
theorem wf_neg {N M : Nat} (a : SMat K N M) : (-a).WF := by show (neg a).WF; simp [WF, neg]
theorem wf_smul {N M : Nat} (c : K) (a : SMat K N M) : (smul c a).WF := by simp [WF, smul]
theorem wf_mul {N P M : Nat} (a : SMat K N P) (b : SMat K P M) : (a * b).WF := wf_ofFn _
theorem wf_adjoint {N M : Nat} (conj : K → K) (a : SMat K N M) : (adjoint conj a).WF := wf_ofFn _
theorem wf_transpose {N M : Nat} (a : SMat K N M) : (transpose a).WF := wf_ofFn _


end arith
end SMatNC
end Amgcl
