import Amgcl.Model.CPR
import Amgcl.Proofs.Array2
import Mathlib.Tactic.FieldSimp
/-!
`cpr::invert` (C18): the in-place LU factorisation WITHOUT pivoting followed by the two triangular solves returns the
solution of `A y = e₀`, i.e. the first column of `A⁻¹` — whenever the factorisation meets no zero pivot (`invert`
returns `some`).  Applied to the transposed diagonal block this is the first row of the inverse diagonal block.

The buffer is viewed through `get2 B A i j = A[i*B + j]` (`Proofs/Array2.lean`).
-/
namespace Amgcl.CPR
open Amgcl Amgcl.Arr2 Finset

section step
variable {K : Type} [Field K] [DecidableEq K]

/-- one elimination step `k` on the dense view -/
def stepSpec (B k : Nat) (a : Nat → Nat → K) : Nat → Nat → K := fun i j =>
  if k < i ∧ i < B ∧ j = k then a i k / a k k
  else if k < i ∧ i < B ∧ k < j ∧ j < B then a i j - a i k / a k k * a k j
  else a i j

/-- the update of row `i` in step `k` (as the model writes it) -/
def rowUpd (B k i : Nat) (d : K) (A : Array K) : Array K :=
  let A := A.setIfInBounds (i * B + k) (A.getD (i * B + k) 0 / d)
  (List.range' (k + 1) (B - (k + 1))).foldl (fun (A : Array K) j =>
    A.setIfInBounds (i * B + j) (A.getD (i * B + j) 0 - A.getD (i * B + k) 0 * A.getD (k * B + j) 0)) A

theorem rowUpd_inner (B k i : Nat) (hk : k < i) (hi : i < B) (A1 : Array K) (hA : A1.size = B * B) (t : Nat)
    (ht : k + 1 + t ≤ B) :
    let A' := (List.range' (k + 1) t).foldl (fun (A : Array K) j =>
      A.setIfInBounds (i * B + j) (A.getD (i * B + j) 0 - A.getD (i * B + k) 0 * A.getD (k * B + j) 0)) A1
    A'.size = B * B ∧ ∀ i' j', i' < B → j' < B →
      get2 B A' i' j' = if i' = i ∧ k < j' ∧ j' < k + 1 + t then get2 B A1 i j' - get2 B A1 i k * get2 B A1 k j'
        else get2 B A1 i' j' := by
  induction t with
  | zero =>
    intro A'
    refine ⟨hA, ?_⟩
    intro i' j' _ _
    have : ¬ (i' = i ∧ k < j' ∧ j' < k + 1 + 0) := by omega
    rw [if_neg this]; rfl
  | succ t ih =>
    intro A'
    have ih' := ih (by omega)
    simp only at ih'
    obtain ⟨hs, hg⟩ := ih'
    have hA' : A' = (fun (A : Array K) j =>
        A.setIfInBounds (i * B + j) (A.getD (i * B + j) 0 - A.getD (i * B + k) 0 * A.getD (k * B + j) 0))
        ((List.range' (k + 1) t).foldl (fun (A : Array K) j =>
          A.setIfInBounds (i * B + j) (A.getD (i * B + j) 0 - A.getD (i * B + k) 0 * A.getD (k * B + j) 0)) A1)
        (k + 1 + t) := by
      show (List.range' (k + 1) (t + 1)).foldl _ A1 = _
      rw [List.range'_concat, List.foldl_append]
      simp
    set At := (List.range' (k + 1) t).foldl (fun (A : Array K) j =>
      A.setIfInBounds (i * B + j) (A.getD (i * B + j) 0 - A.getD (i * B + k) 0 * A.getD (k * B + j) 0)) A1 with hAt
    rw [hA']
    set j := k + 1 + t with hj
    have hjB : j < B := by omega
    refine ⟨by simp [hs], ?_⟩
    intro i' j' hi' hj'
    show get2 B (set2 B At i j (get2 B At i j - get2 B At i k * get2 B At k j)) i' j' = _
    rw [get2_set2 At _ hs hi hjB hj']
    have e1 : get2 B At i j = get2 B A1 i j := by
      rw [hg i j hi hjB, if_neg (by omega)]
    have e2 : get2 B At i k = get2 B A1 i k := by
      rw [hg i k hi (by omega), if_neg (by omega)]
    have e3 : get2 B At k j = get2 B A1 k j := by
      rw [hg k j (by omega) hjB, if_neg (by omega)]
    by_cases h : i = i' ∧ j = j'
    · obtain ⟨rfl, rfl⟩ := h
      rw [if_pos ⟨rfl, rfl⟩, if_pos ⟨rfl, by omega, by omega⟩, e1, e2, e3]
    · rw [if_neg h, hg i' j' hi' hj']
      by_cases h2 : i' = i ∧ k < j' ∧ j' < k + 1 + t
      · rw [if_pos h2, if_pos ⟨h2.1, h2.2.1, by omega⟩]
      · rw [if_neg h2, if_neg]
        intro h3
        apply h
        refine ⟨h3.1.symm, ?_⟩
        have : ¬ (j' < k + 1 + t) := fun h4 => h2 ⟨h3.1, h3.2.1, h4⟩
        omega

/-- row `i` after its update: `A[i,k] /= d`, `A[i,j] -= A[i,k]·A[k,j]` for `j > k`; all other rows untouched -/
theorem rowUpd_spec (B k i : Nat) (hk : k < i) (hi : i < B) (d : K) (A : Array K) (hA : A.size = B * B) :
    (rowUpd B k i d A).size = B * B ∧ ∀ i' j', i' < B → j' < B →
      get2 B (rowUpd B k i d A) i' j' =
        if i' = i then
          (if j' = k then get2 B A i k / d
           else if k < j' then get2 B A i j' - get2 B A i k / d * get2 B A k j' else get2 B A i j')
        else get2 B A i' j' := by
  have hkB : k < B := by omega
  set A1 := A.setIfInBounds (i * B + k) (A.getD (i * B + k) 0 / d) with hA1
  have hs1 : A1.size = B * B := by simp [hA1, hA]
  have hg1 : ∀ i' j', i' < B → j' < B → get2 B A1 i' j' = if i = i' ∧ k = j' then get2 B A i k / d else get2 B A i' j' := by
    intro i' j' _ hj'
    show get2 B (set2 B A i k (get2 B A i k / d)) i' j' = _
    exact get2_set2 A _ hA hi hkB hj'
  have := rowUpd_inner B k i hk hi A1 hs1 (B - (k + 1)) (by omega)
  simp only at this
  obtain ⟨hs, hg⟩ := this
  refine ⟨hs, ?_⟩
  intro i' j' hi' hj'
  show get2 B ((List.range' (k + 1) (B - (k + 1))).foldl _ A1) i' j' = _
  rw [hg i' j' hi' hj']
  by_cases hii : i' = i
  · subst hii
    rw [if_pos rfl]
    by_cases hjk : j' = k
    · subst hjk
      rw [if_neg (by omega), if_pos rfl, hg1 i' j' hi' hj', if_pos ⟨rfl, rfl⟩]
    · rw [if_neg hjk]
      by_cases hkj : k < j'
      · rw [if_pos ⟨rfl, hkj, by omega⟩, if_pos hkj, hg1 i' j' hi' hj', if_neg (by omega), hg1 i' k hi' hkB,
          if_pos ⟨rfl, rfl⟩, hg1 k j' hkB hj', if_neg (by omega)]
      · rw [if_neg (by omega), if_neg hkj, hg1 i' j' hi' hj', if_neg (by omega)]
  · rw [if_neg (by omega), if_neg hii, hg1 i' j' hi' hj', if_neg (by omega)]

/-- the `i` loop of step `k` -/
theorem rows_spec (B k : Nat) (hkB : k < B) (d : K) (A : Array K) (hA : A.size = B * B) (s : Nat) (hs : k + 1 + s ≤ B) :
    let A' := (List.range' (k + 1) s).foldl (fun (A : Array K) i => rowUpd B k i d A) A
    A'.size = B * B ∧ ∀ i' j', i' < B → j' < B →
      get2 B A' i' j' =
        if k < i' ∧ i' < k + 1 + s then
          (if j' = k then get2 B A i' k / d
           else if k < j' then get2 B A i' j' - get2 B A i' k / d * get2 B A k j' else get2 B A i' j')
        else get2 B A i' j' := by
  induction s with
  | zero =>
    intro A'
    refine ⟨hA, ?_⟩
    intro i' j' _ _
    rw [if_neg (by omega)]; rfl
  | succ s ih =>
    intro A'
    have ih' := ih (by omega)
    simp only at ih'
    obtain ⟨hsz, hg⟩ := ih'
    set As := (List.range' (k + 1) s).foldl (fun (A : Array K) i => rowUpd B k i d A) A with hAs
    have hA' : A' = rowUpd B k (k + 1 + s) d As := by
      show (List.range' (k + 1) (s + 1)).foldl _ A = _
      rw [List.range'_concat, List.foldl_append]
      simp [hAs]
    rw [hA']
    have hi : k + 1 + s < B := by omega
    obtain ⟨hsz', hg'⟩ := rowUpd_spec B k (k + 1 + s) (by omega) hi d As hsz
    refine ⟨hsz', ?_⟩
    intro i' j' hi' hj'
    rw [hg' i' j' hi' hj']
    by_cases hii : i' = k + 1 + s
    · subst hii
      have hc : k < k + 1 + s ∧ k + 1 + s < k + 1 + (s + 1) := ⟨by omega, by omega⟩
      rw [if_pos (rfl : k + 1 + s = k + 1 + s), if_pos hc]
      have e1 : get2 B As (k + 1 + s) k = get2 B A (k + 1 + s) k := by
        rw [hg _ k hi hkB]; exact if_neg (by omega)
      have e2 : get2 B As (k + 1 + s) j' = get2 B A (k + 1 + s) j' := by
        rw [hg _ j' hi hj']; exact if_neg (by omega)
      have e3 : get2 B As k j' = get2 B A k j' := by
        rw [hg k j' hkB hj']; exact if_neg (by omega)
      rw [e1, e2, e3]
    · rw [if_neg hii, hg i' j' hi' hj']
      by_cases h2 : k < i' ∧ i' < k + 1 + s
      · have h3 : k < i' ∧ i' < k + 1 + (s + 1) := ⟨h2.1, by omega⟩
        rw [if_pos h2, if_pos h3]
      · have h3 : ¬ (k < i' ∧ i' < k + 1 + (s + 1)) := by omega
        rw [if_neg h2, if_neg h3]

end step

end Amgcl.CPR

namespace Amgcl.CPR
open Amgcl Amgcl.Arr2 Finset

section lu
variable {K : Type} [Field K] [DecidableEq K]

/-- the invariant of the in-place factorisation after `k` columns: the original matrix is the product of the part of
`L` (unit lower, columns `< k`) and `U` (upper, rows `< k`) already computed, plus what is still stored in place -/
def LUInv (B k : Nat) (a0 a : Nat → Nat → K) : Prop :=
  ∀ i j, i < B → j < B →
    a0 i j = ∑ m ∈ range (min k (min i (j + 1))), a i m * a m j + (if i ≤ j ∨ k ≤ j then a i j else 0)

theorem LUInv_zero (B : Nat) (a : Nat → Nat → K) : LUInv B 0 a a := by
  intro i j _ _
  simp

theorem LUInv_step (B k : Nat) (hk : k < B) (a0 a : Nat → Nat → K) (h : LUInv B k a0 a) (hd : a k k ≠ 0) :
    LUInv B (k + 1) a0 (stepSpec B k a) := by
  intro i j hi hj
  rw [h i j hi hj]
  -- the entries of `L` and `U` in columns / rows `< k` are not touched by step `k`
  have hL : ∀ m, m < k → stepSpec B k a i m = a i m := by
    intro m hm; unfold stepSpec; rw [if_neg (by omega), if_neg (by omega)]
  have hU : ∀ m, m ≤ k → stepSpec B k a m j = a m j := by
    intro m hm; unfold stepSpec; rw [if_neg (by omega), if_neg (by omega)]
  have hsum : ∀ n', n' ≤ k → ∑ m ∈ range n', stepSpec B k a i m * stepSpec B k a m j = ∑ m ∈ range n', a i m * a m j := by
    intro n' hn'
    apply Finset.sum_congr rfl
    intro m hm
    have := Finset.mem_range.1 hm
    rw [hL m (by omega), hU m (by omega)]
  by_cases hik : i ≤ k
  · -- row `i` is final
    have hmin : min (k + 1) (min i (j + 1)) = min k (min i (j + 1)) := by omega
    rw [hmin, hsum _ (by omega)]
    congr 1
    have hst : stepSpec B k a i j = a i j := by unfold stepSpec; rw [if_neg (by omega), if_neg (by omega)]
    by_cases hij : i ≤ j
    · simp [hij, hst]
    · have h1 : ¬ (i ≤ j ∨ k ≤ j) := by omega
      have h2 : ¬ (i ≤ j ∨ k + 1 ≤ j) := by omega
      rw [if_neg h1, if_neg h2]
  · have hki : k < i := by omega
    rcases Nat.lt_trichotomy j k with hjk | hjk | hjk
    · -- column `j < k`: an `L` entry computed earlier
      have hmin : min (k + 1) (min i (j + 1)) = min k (min i (j + 1)) := by omega
      rw [hmin, hsum _ (by omega)]
      have h1 : ¬ (i ≤ j ∨ k ≤ j) := by omega
      have h2 : ¬ (i ≤ j ∨ k + 1 ≤ j) := by omega
      rw [if_neg h1, if_neg h2]
    · -- column `j = k`: the `L` entry computed now
      subst hjk
      have hmin1 : min j (min i (j + 1)) = j := by omega
      have hmin2 : min (j + 1) (min i (j + 1)) = j + 1 := by omega
      rw [hmin1, hmin2, Finset.sum_range_succ, hsum _ (Nat.le_refl _)]
      have h1 : (i ≤ j ∨ j ≤ j) := Or.inr (Nat.le_refl _)
      have h2 : ¬ (i ≤ j ∨ j + 1 ≤ j) := by omega
      rw [if_pos h1, if_neg h2, add_zero]
      congr 1
      have e1 : stepSpec B j a i j = a i j / a j j := by unfold stepSpec; rw [if_pos ⟨hki, hi, rfl⟩]
      have e2 : stepSpec B j a j j = a j j := by unfold stepSpec; rw [if_neg (by omega), if_neg (by omega)]
      rw [e1, e2]
      field_simp
    · -- column `j > k`: the trailing block
      have hmin1 : min k (min i (j + 1)) = k := by omega
      have hmin2 : min (k + 1) (min i (j + 1)) = k + 1 := by omega
      rw [hmin1, hmin2, Finset.sum_range_succ, hsum _ (Nat.le_refl _)]
      have h1 : (i ≤ j ∨ k ≤ j) := Or.inr (by omega)
      have h2 : (i ≤ j ∨ k + 1 ≤ j) := Or.inr (by omega)
      rw [if_pos h1, if_pos h2]
      have e1 : stepSpec B k a i k = a i k / a k k := by unfold stepSpec; rw [if_pos ⟨hki, hi, rfl⟩]
      have e2 : stepSpec B k a k j = a k j := by unfold stepSpec; rw [if_neg (by omega), if_neg (by omega)]
      have e3 : stepSpec B k a i j = a i j - a i k / a k k * a k j := by
        unfold stepSpec; rw [if_neg (by omega), if_pos ⟨hki, hi, hjk, hj⟩]
      rw [e1, e2, e3]
      ring

/-- one step of `luNoPivot` on the buffer -/
def luStepOpt (B : Nat) (A : Array K) (k : Nat) : Option (Array K) :=
  let d := A.getD (k * B + k) 0
  if d = 0 then none else
  some ((List.range' (k + 1) (B - (k + 1))).foldl (fun (A : Array K) i => rowUpd B k i d A) A)

theorem luNoPivot_eq (B : Nat) (A : Array K) : luNoPivot B A = (List.range B).foldlM (luStepOpt B) A := rfl

theorem luStepOpt_spec (B k : Nat) (hk : k < B) (A A' : Array K) (hA : A.size = B * B) (h : luStepOpt B A k = some A') :
    get2 B A k k ≠ 0 ∧ A'.size = B * B ∧ ∀ i j, i < B → j < B → get2 B A' i j = stepSpec B k (get2 B A) i j := by
  unfold luStepOpt at h
  simp only at h
  by_cases hd : A.getD (k * B + k) 0 = 0
  · rw [if_pos hd] at h; cases h
  · rw [if_neg hd] at h
    simp only [Option.some.injEq] at h
    subst h
    have := rows_spec B k hk (A.getD (k * B + k) 0) A hA (B - (k + 1)) (by omega)
    simp only at this
    obtain ⟨hs, hg⟩ := this
    refine ⟨hd, hs, ?_⟩
    intro i j hi hj
    rw [hg i j hi hj]
    have hB' : k + 1 + (B - (k + 1)) = B := by omega
    have hdd : A.getD (k * B + k) 0 = get2 B A k k := rfl
    unfold stepSpec
    rw [hB', hdd]
    by_cases hki : k < i
    · by_cases hjk : j = k
      · subst hjk
        simp [hki, hi]
      · by_cases hkj : k < j
        · simp [hki, hi, hjk, hkj, hj]
        · simp [hki, hi, hjk, hkj]
    · simp [hki]

/-- the factorisation loop: after `m ≤ B` columns the invariant holds and the pivots met so far are non-zero -/
theorem luFold_spec (B : Nat) (A0 : Array K) (hA0 : A0.size = B * B) (m : Nat) (hm : m ≤ B) (Am : Array K)
    (h : (List.range m).foldlM (luStepOpt B) A0 = some Am) :
    Am.size = B * B ∧ LUInv B m (get2 B A0) (get2 B Am) ∧ ∀ k, k < m → get2 B Am k k ≠ 0 := by
  induction m generalizing Am with
  | zero =>
    simp only [List.range_zero, List.foldlM_nil, Option.pure_def, Option.some.injEq] at h
    subst h
    exact ⟨hA0, LUInv_zero B _, by intro k hk; omega⟩
  | succ k ih =>
    rw [List.range_succ, List.foldlM_append] at h
    cases hprev : (List.range k).foldlM (luStepOpt B) A0 with
    | none => rw [hprev] at h; simp at h
    | some Ak =>
      rw [hprev] at h
      simp only [Option.bind_eq_bind, Option.bind_some, List.foldlM_cons, List.foldlM_nil, Option.pure_def,
        Option.bind_eq_some_iff] at h
      obtain ⟨A', hA', hAm⟩ := h
      simp only [Option.some.injEq] at hAm
      subst hAm
      obtain ⟨hsk, hinv, hpiv⟩ := ih (by omega) Ak hprev
      obtain ⟨hd, hs', hg'⟩ := luStepOpt_spec B k (by omega) Ak A' hsk hA'
      refine ⟨hs', ?_, ?_⟩
      · have := LUInv_step B k (by omega) (get2 B A0) (get2 B Ak) hinv hd
        intro i j hi hj
        rw [this i j hi hj]
        congr 1
        · apply Finset.sum_congr rfl
          intro mm hmm
          have := Finset.mem_range.1 hmm
          rw [hg' i mm hi (by omega), hg' mm j (by omega) hj]
        · rw [hg' i j hi hj]
      · intro k' hk'
        rw [hg' k' k' (by omega) (by omega)]
        unfold stepSpec
        rw [if_neg (by omega), if_neg (by omega)]
        by_cases hkk : k' = k
        · subst hkk; exact hd
        · exact hpiv k' (by omega)

end lu

end Amgcl.CPR

namespace Amgcl.CPR
open Amgcl Amgcl.Arr2 Finset

section solve
variable {K : Type} [Field K] [DecidableEq K]

theorem getD_push_lt (y : Array K) (v : K) (i : Nat) (h : i < y.size) : (y.push v).getD i 0 = y.getD i 0 := by
  simp [Array.getD, h, Nat.lt_succ_of_lt h, Array.getElem_push_lt h]

theorem getD_push_eq (y : Array K) (v : K) : (y.push v).getD y.size 0 = v := by
  simp [Array.getD]

/-- forward substitution with the unit lower factor, right-hand side `e₀` -/
theorem lowerSolve_spec (B : Nat) (LU : Array K) (m : Nat) :
    let y := (List.range m).foldl (fun (y : Array K) i =>
      y.push ((List.range i).foldl (fun b j => b - LU.getD (i * B + j) 0 * y.getD j 0) (if i = 0 then (1 : K) else 0))) #[]
    y.size = m ∧ ∀ i, i < m →
      y.getD i 0 = (if i = 0 then (1 : K) else 0) - ∑ j ∈ range i, get2 B LU i j * y.getD j 0 := by
  induction m with
  | zero => intro y; exact ⟨rfl, by intro i hi; omega⟩
  | succ k ih =>
    intro y
    simp only at ih
    obtain ⟨hs, hg⟩ := ih
    set yk := (List.range k).foldl (fun (y : Array K) i =>
      y.push ((List.range i).foldl (fun b j => b - LU.getD (i * B + j) 0 * y.getD j 0) (if i = 0 then (1 : K) else 0))) #[]
      with hyk
    have hy : y = yk.push ((List.range k).foldl (fun b j => b - LU.getD (k * B + j) 0 * yk.getD j 0)
        (if k = 0 then (1 : K) else 0)) := by
      show (List.range (k + 1)).foldl _ #[] = _
      rw [List.range_succ, List.foldl_append]
      simp [hyk]
    rw [hy]
    refine ⟨by simp [hs], ?_⟩
    intro i hi
    have hpre : ∀ (v : K) j, j < k → (yk.push v).getD j 0 = yk.getD j 0 := fun v j hj => getD_push_lt _ _ j (by omega)
    by_cases hik : i < k
    · rw [hpre _ i hik, hg i hik]
      congr 1
      apply Finset.sum_congr rfl
      intro j hj
      rw [hpre _ j (by have := Finset.mem_range.1 hj; omega)]
    · have hik' : i = k := by omega
      subst hik'
      have := getD_push_eq yk ((List.range i).foldl (fun b j => b - LU.getD (i * B + j) 0 * yk.getD j 0)
        (if i = 0 then (1 : K) else 0))
      rw [hs] at this
      rw [this, foldl_sub_range]
      congr 1
      apply Finset.sum_congr rfl
      intro j hj
      rw [hpre _ j (Finset.mem_range.1 hj)]
      rfl

/-- state of the back substitution after the rows `≥ m` have been processed -/
def UpInv (B m : Nat) (LU y0 y : Array K) : Prop :=
  y.size = B ∧
  (∀ i, m ≤ i → i < B →
    get2 B LU i i * y.getD i 0 + ∑ j ∈ Ico (i + 1) B, get2 B LU i j * y.getD j 0 = y0.getD i 0) ∧
  (∀ i, i < m → y.getD i 0 = y0.getD i 0)

theorem upperSolve_spec (B : Nat) (LU y0 : Array K) (hpiv : ∀ i, i < B → get2 B LU i i ≠ 0) (m : Nat) (hm : m ≤ B)
    (y : Array K) (hy : UpInv B m LU y0 y) :
    UpInv B 0 LU y0 ((List.range m).reverse.foldl (fun (y : Array K) i =>
      let s := (List.range' (i + 1) (B - (i + 1))).foldl (fun s j => s - LU.getD (i * B + j) 0 * y.getD j 0) (y.getD i 0)
      y.setIfInBounds i (s / LU.getD (i * B + i) 0)) y) := by
  induction m generalizing y with
  | zero => exact hy
  | succ k ih =>
    rw [List.range_succ, List.reverse_append]
    simp only [List.reverse_cons, List.reverse_nil, List.nil_append, List.cons_append, List.foldl_cons]
    apply ih (by omega)
    obtain ⟨hs, heq, hlow⟩ := hy
    have hk : k < B := by omega
    set s := (List.range' (k + 1) (B - (k + 1))).foldl (fun s j => s - LU.getD (k * B + j) 0 * y.getD j 0) (y.getD k 0)
      with hsdef
    have hsval : s = y.getD k 0 - ∑ j ∈ Ico (k + 1) B, get2 B LU k j * y.getD j 0 := by
      rw [hsdef, foldl_sub_range']
      have : k + 1 + (B - (k + 1)) = B := by omega
      rw [this]; rfl
    have hget : ∀ i, (y.setIfInBounds k (s / LU.getD (k * B + k) 0)).getD i 0
        = if i = k then s / get2 B LU k k else y.getD i 0 := by
      intro i
      rw [getD_setIfInBounds]
      by_cases hik : i = k
      · subst hik
        rw [if_pos ⟨rfl, by rw [hs]; exact hk⟩, if_pos rfl]; rfl
      · have : ¬ (k = i ∧ k < y.size) := by omega
        rw [if_neg this, if_neg hik]
    refine ⟨by simp [hs], ?_, ?_⟩
    · intro i hki hiB
      by_cases hik : i = k
      · subst hik
        rw [hget i, if_pos rfl]
        have hsum : ∑ j ∈ Ico (i + 1) B, get2 B LU i j * (y.setIfInBounds i (s / LU.getD (i * B + i) 0)).getD j 0
            = ∑ j ∈ Ico (i + 1) B, get2 B LU i j * y.getD j 0 := by
          apply Finset.sum_congr rfl
          intro j hj
          have := Finset.mem_Ico.1 hj
          rw [hget j, if_neg (by omega)]
        rw [hsum, hsval, ← hlow i (Nat.lt_succ_self i)]
        have := hpiv i hiB
        field_simp
        ring
      · have hsum : ∑ j ∈ Ico (i + 1) B, get2 B LU i j * (y.setIfInBounds k (s / LU.getD (k * B + k) 0)).getD j 0
            = ∑ j ∈ Ico (i + 1) B, get2 B LU i j * y.getD j 0 := by
          apply Finset.sum_congr rfl
          intro j hj
          have := Finset.mem_Ico.1 hj
          rw [hget j, if_neg (by omega)]
        rw [hget i, if_neg hik, hsum]
        exact heq i (by omega) hiB
    · intro i hik
      rw [hget i, if_neg (by omega)]
      exact hlow i (by omega)

end solve

end Amgcl.CPR

namespace Amgcl.CPR
open Amgcl Amgcl.Arr2 Finset

section final
variable {K : Type} [Field K] [DecidableEq K]

theorem sum_range_min (i j : Nat) (g : Nat → K) :
    ∑ m ∈ range (min i (j + 1)), g m = ∑ m ∈ range i, if m ≤ j then g m else 0 := by
  rw [← Finset.sum_filter]
  apply Finset.sum_congr
  · ext m
    simp only [Finset.mem_range, Finset.mem_filter]
    omega
  · intro _ _; rfl

theorem sum_range_ge (B m : Nat) (hm : m < B) (h : Nat → K) :
    ∑ j ∈ range B, (if m ≤ j then h j else 0) = h m + ∑ j ∈ Ico (m + 1) B, h j := by
  rw [← Finset.sum_filter]
  have : (range B).filter (fun j => m ≤ j) = Ico m B := by
    ext j
    simp only [Finset.mem_filter, Finset.mem_range, Finset.mem_Ico]
    omega
  rw [this, Finset.sum_eq_sum_Ico_succ_bot hm]

/-- **`cpr::invert`**: if no zero pivot is met, the returned vector solves `A y = e₀` (it is the first column of
`A⁻¹`), for every block size `B` -/
theorem invert_spec (B : Nat) (A y : Array K) (hA : A.size = B * B) (h : invert B A = some y) :
    y.size = B ∧ ∀ i, i < B → ∑ j ∈ range B, get2 B A i j * y.getD j 0 = if i = 0 then 1 else 0 := by
  unfold invert at h
  cases hlu : luNoPivot B A with
  | none => rw [hlu] at h; cases h
  | some LU =>
    rw [hlu] at h
    simp only [Option.map_some, Option.some.injEq] at h
    rw [luNoPivot_eq] at hlu
    obtain ⟨hsLU, hinv, hpiv⟩ := luFold_spec B A hA B (Nat.le_refl _) LU hlu
    -- forward substitution
    have hlow := lowerSolve_spec B LU B
    simp only at hlow
    set z := lowerSolveE0 B LU with hz
    have hzs : z.size = B := hlow.1
    have hzeq : ∀ i, i < B → z.getD i 0 = (if i = 0 then (1 : K) else 0) - ∑ j ∈ range i, get2 B LU i j * z.getD j 0 :=
      hlow.2
    -- back substitution
    have hup := upperSolve_spec B LU z hpiv B (Nat.le_refl _) z
      ⟨hzs, by intro i h1 h2; omega, by intro i _; rfl⟩
    have hy : y = upperSolve B LU z := h.symm
    obtain ⟨hys, hyeq, _⟩ := hup
    have hys' : y.size = B := by rw [hy]; exact hys
    have hyeq' : ∀ i, i < B →
        get2 B LU i i * y.getD i 0 + ∑ j ∈ Ico (i + 1) B, get2 B LU i j * y.getD j 0 = z.getD i 0 := by
      intro i hi; rw [hy]; exact hyeq i (Nat.zero_le _) hi
    refine ⟨hys', ?_⟩
    intro i hi
    -- A = L U entrywise
    have hAij : ∀ j, j < B → get2 B A i j
        = (∑ m ∈ range i, if m ≤ j then get2 B LU i m * get2 B LU m j else 0) + (if i ≤ j then get2 B LU i j else 0) := by
      intro j hj
      rw [hinv i j hi hj]
      have hmin : min B (min i (j + 1)) = min i (j + 1) := by omega
      rw [hmin, sum_range_min]
      congr 1
      by_cases hij : i ≤ j
      · simp [hij]
      · have : ¬ (i ≤ j ∨ B ≤ j) := by omega
        rw [if_neg this, if_neg hij]
    calc ∑ j ∈ range B, get2 B A i j * y.getD j 0
        = ∑ j ∈ range B, ((∑ m ∈ range i, if m ≤ j then get2 B LU i m * get2 B LU m j else 0)
            + (if i ≤ j then get2 B LU i j else 0)) * y.getD j 0 := by
          apply Finset.sum_congr rfl
          intro j hj
          rw [hAij j (Finset.mem_range.1 hj)]
      _ = ∑ m ∈ range i, get2 B LU i m * (∑ j ∈ range B, if m ≤ j then get2 B LU m j * y.getD j 0 else 0)
            + ∑ j ∈ range B, (if i ≤ j then get2 B LU i j * y.getD j 0 else 0) := by
          simp only [add_mul, Finset.sum_add_distrib, Finset.sum_mul, Finset.mul_sum]
          congr 1
          · rw [Finset.sum_comm]
            apply Finset.sum_congr rfl
            intro m _
            apply Finset.sum_congr rfl
            intro j _
            by_cases hmj : m ≤ j
            · simp [hmj]; ring
            · simp [hmj]
          · apply Finset.sum_congr rfl
            intro j _
            by_cases hij : i ≤ j
            · simp [hij]
            · simp [hij]
      _ = ∑ m ∈ range i, get2 B LU i m * z.getD m 0 + z.getD i 0 := by
          congr 1
          · apply Finset.sum_congr rfl
            intro m hm
            have hmB : m < B := by have := Finset.mem_range.1 hm; omega
            rw [sum_range_ge B m hmB (fun j => get2 B LU m j * y.getD j 0), hyeq' m hmB]
          · rw [sum_range_ge B i hi (fun j => get2 B LU i j * y.getD j 0), hyeq' i hi]
      _ = if i = 0 then 1 else 0 := by
          rw [hzeq i hi]; ring

end final

end Amgcl.CPR
